//go:build verif

package queuebatch

import (
	"sync/atomic"
	"testing"
	"testing/synctest"
)

// TestVerifC01Block: the same exact differential as TestVerifC01PQ for a queue with blockOnOverflow=true.
// An Offer that finds the queue full runs in its own goroutine and parks in hasMoreSpace.Wait; synctest.Wait()
// (run until every goroutine is durably blocked) makes the schedule deterministic.  When a later operation wakes
// producers (hasMoreSpace.Broadcast: all of them), they are parked at a gate in the condition's injectable Locker, not
// holding the queue mutex, until the harness has written the observation of the waking operation; then the harness lets
// them re-lock one at a time in an order it chooses (`op wake j=…` = model labels `promote j`, `wake`), with deaths
// injected after the k-th storage call like everywhere else.
func TestVerifC01Block(t *testing.T) {
	out := vOpen(t)
	defer out.Close()
	out.Linef("model c01-pq 1")
	n := vN(500)
	var curCase atomic.Int64
	defer vC01Watchdog(out, &curCase)()
	for _, c := range vCases(n) {
		curCase.Store(int64(c))
		vC01Progress.Add(1)
		synctest.Test(t, func(t *testing.T) { vC01BlockCase(out, c) })
	}
}

func vC01BlockCase(out *vOut, c int) {
	rnd := vRand(c)
	capacity := 1 + rnd.IntN(4)
	reqSized := rnd.IntN(2) == 0
	if !reqSized {
		capacity = 1 + rnd.IntN(10)
	}
	pDie := []int{0, 10, 25}[rnd.IntN(3)]
	length := 5 + rnd.IntN(40)
	r := vC01NewRun(out, c, capacity, reqSized, "block")
	r.block = true
	r.settle = synctest.Wait
	wakes := 0
	idxOf := func(p *vC01Pending) int {
		for j, q := range r.pending {
			if q == p {
				return j
			}
		}
		return -1
	}
	for i := 0; i < length; i++ {
		if r.alive() && len(r.pending) > 0 && rnd.IntN(12) == 0 {
			// the caller of a blocked Offer gives up: its Wait returns through the ctx branch and re-locks the queue
			j := rnd.IntN(len(r.pending))
			p := r.pending[j]
			r.out.Linef("op cancel j=%d", j)
			p.cancel()
			synctest.Wait()
			r.locker.release(p.gid)
			synctest.Wait()
			<-p.done
			r.pending = append(r.pending[:j:j], r.pending[j+1:]...)
			r.nops++
			r.stats["op_cancel"]++
			r.obs("cancelled")
			continue
		}
		op := r.randomOp0(rnd, pDie)
		r.do(op)
		if op.kind == "start" && r.alive() {
			r.locker = &vC01GateLocker{mu: &r.pq.mu, parked: map[uint64]chan struct{}{}}
			r.pq.hasMoreSpace.L = r.locker
			continue
		}
		if !r.alive() {
			continue
		}
		synctest.Wait()
		// every producer that the operation woke (Broadcast: all of them) is parked at the locker gate now; the harness lets
		// them re-lock one by one in an order of its own choice and tells the model which one (`j` = position among the
		// blocked offers): admitted -> `ok`, still no room -> it registers again as the youngest waiter -> `blocked`
		var woken []*vC01Pending
		for _, p := range r.pending {
			if r.locker.isParked(p.gid) {
				woken = append(woken, p)
			}
		}
		if len(woken) > 1 {
			r.stats["ops_that_woke_several_producers"]++
		}
		rnd.Shuffle(len(woken), func(a, b int) { woken[a], woken[b] = woken[b], woken[a] })
		for _, p := range woken {
			if !r.alive() {
				break
			}
			j := idxOf(p)
			wakes++
			die := 0
			if rnd.IntN(100) < pDie {
				die = 1 + rnd.IntN(2)
			}
			r.nops++
			r.stats["op_wake"]++
			if j > 0 {
				r.stats["wake_of_a_younger_producer_first"]++
			}
			r.out.Linef("op wake j=%d id=%d die=%d errs=-", j, p.id, die)
			r.cl.armed = die
			r.cl.opCalls = 0
			r.locker.release(p.gid)
			synctest.Wait()
			r.cl.armed = 0
			finished := false
			select {
			case <-p.done:
				finished = true
			default:
			}
			r.pending = append(r.pending[:j:j], r.pending[j+1:]...)
			switch {
			case p.died:
				r.deaths++
				r.stats["death_in_wake"]++
				r.kill()
				r.obs("died")
			case !finished:
				// still no room: it went round the loop and waits again, now as the youngest waiter
				r.pending = append(r.pending, p)
				r.stats["wake_reblocked"]++
				r.obs("blocked")
			case p.err == nil:
				r.acceptedIDs[p.id] = true
				r.stats["wake_accepted"]++
				r.obs("ok")
			default:
				r.obs("err")
			}
		}
	}
	if wakes > 0 {
		r.out.Linef("stat cases_with_woken_offer 1")
	}
	r.finish()
}
