//go:build verif

package queuebatch

import (
	"sync/atomic"
	"testing"
	"testing/synctest"
)

// TestVerifC01Block: the same exact differential as TestVerifC01PQ for a queue with blockOnOverflow=true.
// An Offer that finds the queue full runs in its own goroutine and parks in hasMoreSpace.Wait; synctest.Wait()
// (run until every goroutine is durably blocked) makes the schedule deterministic.  When a later operation signals
// the condition, the oldest waiter (cond.waiters is FIFO) wakes up; its storage calls are held at a gate until the
// harness has written the observation of the signalling operation, then released one by one (`op wake`), with
// deaths injected after the k-th call like everywhere else.
func TestVerifC01Block(t *testing.T) {
	out := vOpen(t)
	defer out.Close()
	out.Linef("model c01-pq 1")
	n := vN(500)
	var curCase atomic.Int64
	defer vC01Watchdog(out, &curCase)()
	for _, c := range vCases(n) {
		curCase.Store(int64(c))
		vC01Progress.Add(1)
		synctest.Test(t, func(t *testing.T) { vC01BlockCase(out, c) })
	}
}

func vC01HasChan(ws []chan struct{}, ch chan struct{}) bool {
	for _, w := range ws {
		if w == ch {
			return true
		}
	}
	return false
}

func vC01BlockCase(out *vOut, c int) {
	rnd := vRand(c)
	capacity := 1 + rnd.IntN(4)
	reqSized := rnd.IntN(2) == 0
	if !reqSized {
		capacity = 1 + rnd.IntN(10)
	}
	pDie := []int{0, 10, 25}[rnd.IntN(3)]
	length := 5 + rnd.IntN(40)
	r := vC01NewRun(out, c, capacity, reqSized, "block")
	r.block = true
	r.settle = synctest.Wait
	wakes := 0
	for i := 0; i < length; i++ {
		var head chan struct{}
		if r.alive() && len(r.pq.hasMoreSpace.waiters) > 0 {
			head = r.pq.hasMoreSpace.waiters[0]
		}
		if r.alive() && len(r.pending) > 0 && rnd.IntN(12) == 0 {
			// the caller of a blocked Offer gives up
			j := rnd.IntN(len(r.pending))
			p := r.pending[j]
			r.out.Linef("op cancel j=%d", j)
			p.cancel()
			synctest.Wait()
			<-p.done
			r.pending = append(r.pending[:j:j], r.pending[j+1:]...)
			r.nops++
			r.stats["op_cancel"]++
			r.obs("cancelled")
			continue
		}
		op := r.randomOp0(rnd, pDie)
		if op.kind == "start" {
			r.do(op)
			if r.alive() {
				r.cl.gate = make(chan struct{})
			}
			continue
		}
		r.do(op)
		if !r.alive() {
			continue
		}
		synctest.Wait()
		if head == nil || len(r.pending) == 0 || vC01HasChan(r.pq.hasMoreSpace.waiters, head) {
			continue
		}
		// the oldest waiter was signalled
		wakes++
		p := r.pending[0]
		die := 0
		if rnd.IntN(100) < pDie {
			die = 1 + rnd.IntN(2)
		}
		r.nops++
		r.stats["op_wake"]++
		r.out.Linef("op wake id=%d die=%d errs=-", p.id, die)
		if r.cl.gateWaiting == 0 {
			// still no room: it went round the loop and waits again, now as the youngest waiter
			r.pending = append(r.pending[1:], p)
			r.stats["wake_reblocked"]++
			r.obs("blocked")
			continue
		}
		r.cl.armed = die
		finished := false
		for k := 0; k < 4 && !finished; k++ {
			if r.cl.gateWaiting > 0 {
				r.cl.gate <- struct{}{}
			}
			synctest.Wait()
			select {
			case <-p.done:
				finished = true
			default:
			}
		}
		r.cl.armed = 0
		r.pending = r.pending[1:]
		switch {
		case p.died:
			r.deaths++
			r.stats["death_in_wake"]++
			r.kill()
			r.obs("died")
		case !finished:
			r.out.Linef("viol sig=C01/block/woken-offer-did-not-finish id=%d", p.id)
			r.obs("err")
		case p.err == nil:
			r.acceptedIDs[p.id] = true
			r.stats["wake_accepted"]++
			r.obs("ok")
		default:
			r.obs("err")
		}
	}
	if wakes > 0 {
		r.out.Linef("stat cases_with_woken_offer 1")
	}
	r.finish()
}
