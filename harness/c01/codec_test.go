//go:build verif

package queuebatch

import (
	"errors"
	"strconv"
	"strings"
	"testing"
)

func vC01ErrName(err error) string {
	switch {
	case errors.Is(err, errValueNotSet):
		return "notset"
	case errors.Is(err, errInvalidValue):
		return "invalid"
	}
	return "other"
}

func vC01List(xs []uint64) string {
	if len(xs) == 0 {
		return "-"
	}
	p := make([]string, len(xs))
	for i, x := range xs {
		p[i] = strconv.FormatUint(x, 10)
	}
	return strings.Join(p, ",")
}

// TestVerifC01Codec: exact differential of the index byte codecs (values, arrays, truncated / oversized /
// inconsistent buffers) against Model/C01Codec.lean.
func TestVerifC01Codec(t *testing.T) {
	out := vOpen(t)
	defer out.Close()
	out.Linef("model c01-codec 1")
	n := vN(500)
	for _, c := range vCases(n) {
		rnd := vRand(c)
		out.Linef("case %d", c)
		val := func() uint64 {
			switch rnd.IntN(4) {
			case 0:
				return uint64(rnd.IntN(300))
			case 1:
				return rnd.Uint64()
			case 2:
				return ^uint64(0) - uint64(rnd.IntN(3))
			}
			return uint64(1) << uint(rnd.IntN(64))
		}
		for k := 0; k < 6; k++ {
			switch rnd.IntN(4) {
			case 0:
				v := val()
				out.Linef("op enc64 %d", v)
				out.Linef("obs %s", vHexB(itemIndexToBytes(v)))
			case 1:
				var buf []byte
				tok := "nil"
				if rnd.IntN(5) != 0 {
					buf = make([]byte, rnd.IntN(12))
					for i := range buf {
						buf[i] = byte(rnd.IntN(256))
					}
					tok = vHexB(buf)
				}
				out.Linef("op dec64 %s", tok)
				v, err := bytesToItemIndex(buf)
				if err != nil {
					out.Linef("obs err %s", vC01ErrName(err))
				} else {
					out.Linef("obs ok %d", v)
				}
			case 2:
				xs := make([]uint64, rnd.IntN(5))
				for i := range xs {
					xs[i] = val()
				}
				out.Linef("op encarr %s", vC01List(xs))
				out.Linef("obs %s", vHexB(itemIndexArrayToBytes(xs)))
			case 3:
				var buf []byte
				if rnd.IntN(2) == 0 {
					xs := make([]uint64, rnd.IntN(4))
					for i := range xs {
						xs[i] = val()
					}
					buf = itemIndexArrayToBytes(xs)
					switch rnd.IntN(4) {
					case 0:
						buf = buf[:rnd.IntN(len(buf)+1)] // truncated
					case 1:
						buf = append(buf, byte(rnd.IntN(256))) // trailing garbage
					case 2:
						buf[0] = byte(rnd.IntN(6)) // inconsistent length prefix
					}
				} else {
					buf = make([]byte, rnd.IntN(30))
					for i := range buf {
						buf[i] = byte(rnd.IntN(4))
					}
				}
				out.Linef("op decarr %s", vHexB(buf))
				xs, err := bytesToItemIndexArray(buf)
				if err != nil {
					out.Linef("obs err %s", vC01ErrName(err))
				} else {
					out.Linef("obs ok %s", vC01List(xs))
				}
			}
		}
		out.Linef("nt")
		out.Linef("end")
	}
}
