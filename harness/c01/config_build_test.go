//go:build verif

package queuebatch

import (
	"context"
	"fmt"
	"strconv"
	"strings"
	"testing"
	"time"

	"go.opentelemetry.io/collector/component"
	"go.opentelemetry.io/collector/component/componenttest"
	"go.opentelemetry.io/collector/exporter/exporterhelper/internal/request"
	"go.opentelemetry.io/collector/pipeline"
)

// TestVerifC01ConfigBuild: exact differential of Model/C01Config.lean (`build`, `validate`) against the real newQueueBatch
// (which queue object is built from a Config: memory or persistent, capacity, blocking, sizer, consumers, which batcher)
// and the real Config.Validate.

type vCBBytesSizer struct{ request.Sizer[request.Request] }

type vCBEnc struct{}

func (vCBEnc) Marshal(request.Request) ([]byte, error)   { return nil, nil }
func (vCBEnc) Unmarshal([]byte) (request.Request, error) { return nil, nil }

func vCBSizerName(s request.SizerType) string {
	switch s {
	case request.SizerTypeRequests:
		return "requests"
	case request.SizerTypeItems:
		return "items"
	case request.SizerTypeBytes:
		return "bytes"
	}
	return "other"
}

func vCBQ(c Config) string {
	st := "-"
	if c.StorageID != nil {
		st = c.StorageID.Name()
	}
	bt := "-"
	if c.Batch != nil {
		bt = fmt.Sprintf("%d:%d:%d", int64(c.Batch.FlushTimeout), c.Batch.MinSize, c.Batch.MaxSize)
	}
	return fmt.Sprintf("en=%d wfr=%d sz=%s qs=%d blk=%d st=%s nc=%d bt=%s", vB(c.Enabled), vB(c.WaitForResult), vCBSizerName(c.Sizer),
		c.QueueSize, vB(c.BlockOnOverflow), st, c.NumConsumers, bt)
}

func TestVerifC01ConfigBuild(t *testing.T) {
	out := vOpen(t)
	defer out.Close()
	out.Linef("model c01-config 1")
	n := vN(300)
	reqSizer := request.RequestsSizer[request.Request]{}
	itemsSizer := request.NewItemsSizer()
	bytesSizer := vCBBytesSizer{request.NewItemsSizer()}
	sizers := map[request.SizerType]request.Sizer[request.Request]{
		request.SizerTypeRequests: reqSizer,
		request.SizerTypeItems:    itemsSizer,
		request.SizerTypeBytes:    bytesSizer,
	}
	sizerOf := func(s request.Sizer[request.Request]) string {
		switch s.(type) {
		case request.RequestsSizer[request.Request]:
			return "requests"
		case vCBBytesSizer:
			return "bytes"
		}
		return "items"
	}
	for _, c := range vCases(n) {
		rnd := vRand(c)
		out.Linef("case %d", c)
		cfg := Config{
			Enabled:         rnd.IntN(5) != 0,
			WaitForResult:   rnd.IntN(4) == 0,
			QueueSize:       int64(rnd.IntN(12)) - 1,
			BlockOnOverflow: rnd.IntN(2) == 0,
			NumConsumers:    rnd.IntN(5) - 1,
		}
		switch rnd.IntN(7) {
		case 0, 1, 2:
			cfg.Sizer = request.SizerTypeRequests
		case 3, 4:
			cfg.Sizer = request.SizerTypeItems
		case 5:
			cfg.Sizer = request.SizerTypeBytes
		default:
			cfg.Sizer = request.SizerType{} // no entry in Settings.Sizers
		}
		if rnd.IntN(2) == 0 {
			id := component.MustNewIDWithName("verif_storage", strconv.Itoa(1+rnd.IntN(9)))
			cfg.StorageID = &id
		}
		if rnd.IntN(2) == 0 {
			cfg.Batch = &BatchConfig{FlushTimeout: time.Duration(1+rnd.IntN(5)) * time.Millisecond, MinSize: int64(rnd.IntN(4)), MaxSize: int64(rnd.IntN(6))}
		}
		legacy := rnd.IntN(2) == 0
		// ---- Validate
		out.Linef("op validate %s", vCBQ(cfg))
		v := "ok"
		if err := cfg.Validate(); err != nil {
			switch {
			case strings.Contains(err.Error(), "num_consumers"):
				v = "numConsumers"
			case strings.Contains(err.Error(), "queue_size"):
				v = "queueSize"
			case strings.Contains(err.Error(), "wait_for_result"):
				v = "waitForResult"
			case strings.Contains(err.Error(), "only supports `requests` sizer"):
				v = "persistentSizer"
			case strings.Contains(err.Error(), "`batch` supports only"):
				v = "batchSizer"
			default:
				v = "unknown:" + vHex(err.Error())
			}
		}
		out.Linef("obs v=%s", v)
		// ---- newQueueBatch
		out.Linef("op build legacy=%d %s", vB(legacy), vCBQ(cfg))
		set := Settings[request.Request]{Signal: pipeline.SignalTraces, ID: component.MustNewID("verif"),
			Telemetry: componenttest.NewNopTelemetrySettings(), Encoding: vCBEnc{}, Sizers: sizers}
		qb, err := newQueueBatch(set, cfg, func(context.Context, request.Request) error { return nil }, legacy)
		if err != nil {
			out.Linef("obs rt err")
			out.Linef("stat build_errors 1")
		} else {
			aq := qb.queue.(*obsQueue[request.Request]).Queue.(*asyncQueue[request.Request])
			kind, capacity, blk, sz := "?", int64(0), false, "?"
			switch q := aq.readableQueue.(type) {
			case *persistentQueue[request.Request]:
				kind = "persistent:" + q.set.storageID.Name()
				capacity, blk, sz = q.set.capacity, q.set.blockOnOverflow, sizerOf(q.set.sizer)
				out.Linef("stat persistent_queues_built 1")
			case *memoryQueue[request.Request]:
				kind = "memory"
				capacity, blk, sz = q.cap, q.blockOnOverflow, sizerOf(q.sizer)
			}
			batcher := "-"
			if db, ok := qb.batcher.(*defaultBatcher); ok {
				batcher = fmt.Sprintf("%d:%d:%d:%s", int64(db.cfg.FlushTimeout), db.cfg.MinSize, db.cfg.MaxSize, vCBSizerName(db.sizerType))
			}
			out.Linef("obs rt kind=%s cap=%d blk=%d sz=%s nc=%d batcher=%s", kind, capacity, vB(blk), sz, aq.numConsumers, batcher)
		}
		if cfg.StorageID != nil {
			out.Linef("nt")
		}
		out.Linef("end")
		out.Flush()
	}
}
