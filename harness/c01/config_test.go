//go:build verif

package internal

import (
	"context"
	"fmt"
	"math"
	"math/rand/v2"
	"runtime"
	"strconv"
	"testing"
	"time"

	"go.opentelemetry.io/collector/component"
	"go.opentelemetry.io/collector/component/componenttest"
	"go.opentelemetry.io/collector/config/configretry"
	"go.opentelemetry.io/collector/exporter"
	"go.opentelemetry.io/collector/exporter/exporterhelper/internal/queuebatch"
	"go.opentelemetry.io/collector/exporter/exporterhelper/internal/request"
	"go.opentelemetry.io/collector/pipeline"
)

// TestVerifC01Config: from the exporter's options to the configuration of the queue — exact differential of
// Model/C01Config.lean (applyOpts, hasQueueSender, mergeLegacy) against the real NewBaseExporter (WithQueueBatch /
// WithBatcher / WithRetry in any order and number) and newQueueBatchConfig.  Whether an exporter HAS the persistent queue
// the user configured (storage id, capacity, blocking, consumers) is decided here.

func vCfgSizer(rnd *rand.Rand) (request.SizerType, string) {
	switch rnd.IntN(3) {
	case 0:
		return request.SizerTypeRequests, "requests"
	case 1:
		return request.SizerTypeItems, "items"
	}
	return request.SizerTypeBytes, "bytes"
}

func vCfgSizerName(s request.SizerType) string {
	switch s {
	case request.SizerTypeRequests:
		return "requests"
	case request.SizerTypeItems:
		return "items"
	case request.SizerTypeBytes:
		return "bytes"
	}
	return "other"
}

func vCfgQ(c queuebatch.Config) string {
	st := "-"
	if c.StorageID != nil {
		st = c.StorageID.Name()
	}
	bt := "-"
	if c.Batch != nil {
		bt = fmt.Sprintf("%d:%d:%d", int64(c.Batch.FlushTimeout), c.Batch.MinSize, c.Batch.MaxSize)
	}
	return fmt.Sprintf("en=%d wfr=%d sz=%s qs=%d blk=%d st=%s nc=%d bt=%s", vB(c.Enabled), vB(c.WaitForResult), vCfgSizerName(c.Sizer),
		c.QueueSize, vB(c.BlockOnOverflow), st, c.NumConsumers, bt)
}

func vCfgB(b BatcherConfig) string {
	return fmt.Sprintf("ben=%d bfl=%d bmin=%d bmax=%d", vB(b.Enabled), int64(b.FlushTimeout), b.MinSize, b.MaxSize)
}

func vCfgRandQ(rnd *rand.Rand) queuebatch.Config {
	sz, _ := vCfgSizer(rnd)
	c := queuebatch.Config{
		Enabled:         rnd.IntN(4) != 0,
		WaitForResult:   rnd.IntN(4) == 0,
		Sizer:           sz,
		QueueSize:       int64(rnd.IntN(12)) - 1,
		BlockOnOverflow: rnd.IntN(2) == 0,
		NumConsumers:    rnd.IntN(5) - 1,
	}
	if rnd.IntN(2) == 0 {
		id := component.MustNewIDWithName("verif_storage", strconv.Itoa(1+rnd.IntN(9)))
		c.StorageID = &id
	}
	if rnd.IntN(3) == 0 {
		c.Batch = &queuebatch.BatchConfig{FlushTimeout: time.Duration(rnd.IntN(5)) * time.Millisecond, MinSize: int64(rnd.IntN(4)), MaxSize: int64(rnd.IntN(6))}
	}
	return c
}

func TestVerifC01Config(t *testing.T) {
	out := vOpen(t)
	defer out.Close()
	out.Linef("model c01-config 1")
	n := vN(300)
	sizers := map[request.SizerType]request.Sizer[request.Request]{
		request.SizerTypeRequests: request.RequestsSizer[request.Request]{},
		request.SizerTypeItems:    request.NewItemsSizer(),
		request.SizerTypeBytes:    request.NewItemsSizer(),
	}
	qbs := QueueBatchSettings[request.Request]{Encoding: vGEnc{}, Sizers: sizers}
	for _, c := range vCases(n) {
		rnd := vRand(c)
		out.Linef("case %d", c)
		// the public constructors (NewTraces ...) always pass the signal's QueueBatchSettings as the first option
		opts := []Option{WithQueueBatchSettings(qbs)}
		nopt := 1 + rnd.IntN(4)
		hasStorage := false
		for i := 0; i < nopt; i++ {
			switch rnd.IntN(4) {
			case 0, 1:
				q := vCfgRandQ(rnd)
				if c < 4 {
					// corpus: an enabled persistent queue next to the legacy batcher, both orders
					q.Enabled = true
					id := component.MustNewIDWithName("verif_storage", "7")
					q.StorageID = &id
				}
				hasStorage = hasStorage || (q.Enabled && q.StorageID != nil)
				out.Linef("op opt kind=queue %s", vCfgQ(q))
				opts = append(opts, WithQueueBatch(q, qbs))
			case 2:
				b := BatcherConfig{Enabled: rnd.IntN(3) != 0, FlushTimeout: time.Duration(1+rnd.IntN(5)) * time.Millisecond,
					SizeConfig: SizeConfig{Sizer: request.SizerTypeItems, MinSize: int64(rnd.IntN(4)), MaxSize: int64(rnd.IntN(6))}}
				if c < 4 {
					b.Enabled = true
				}
				out.Linef("op opt kind=batcher %s", vCfgB(b))
				opts = append(opts, WithBatcher(b))
			default:
				rc := configretry.NewDefaultBackOffConfig()
				rc.Enabled = rnd.IntN(2) == 0
				out.Linef("op opt kind=retry en=%d", vB(rc.Enabled))
				opts = append(opts, WithRetry(rc))
			}
		}
		set := exporter.Settings{ID: component.MustNewID("verif"), TelemetrySettings: componenttest.NewNopTelemetrySettings()}
		be, err := NewBaseExporter(set, pipeline.SignalTraces, func(context.Context, request.Request) error { return nil }, opts...)
		out.Linef("op be")
		if err != nil {
			out.Linef("obs be err")
		} else {
			out.Linef("obs be %s %s retry=%d qs=%d rs=%d", vCfgQ(be.queueCfg), vCfgB(be.batcherCfg), vB(be.retryCfg.Enabled),
				vB(be.QueueSender != nil), vB(be.RetrySender != nil))
			out.Linef("op merge maxint=%d numcpu=%d", math.MaxInt, runtime.NumCPU())
			out.Linef("obs merged %s", vCfgQ(newQueueBatchConfig(be.queueCfg, be.batcherCfg)))
			if be.queueCfg.Enabled && be.queueCfg.StorageID != nil && be.batcherCfg.Enabled {
				out.Linef("stat persistent_queue_with_legacy_batcher 1")
			}
		}
		if hasStorage {
			out.Linef("nt")
		}
		out.Linef("stat options %d", nopt)
		out.Linef("end")
		out.Flush()
	}
}
