//go:build verif

package internal

import (
	"context"
	"encoding/binary"
	"errors"
	"sort"
	"strconv"
	"strings"
	"sync"
	"sync/atomic"
	"testing"
	"time"

	"go.opentelemetry.io/collector/component"
	"go.opentelemetry.io/collector/component/componenttest"
	"go.opentelemetry.io/collector/config/configretry"
	"go.opentelemetry.io/collector/consumer/consumererror"
	"go.opentelemetry.io/collector/exporter"
	"go.opentelemetry.io/collector/exporter/exporterhelper/internal/queuebatch"
	"go.opentelemetry.io/collector/exporter/exporterhelper/internal/request"
	"go.opentelemetry.io/collector/exporter/exporterhelper/internal/requesttest"
	"go.opentelemetry.io/collector/exporter/exporterhelper/internal/sender"
	"go.opentelemetry.io/collector/extension/xextension/storage"
	"go.opentelemetry.io/collector/pipeline"
)

// The glue around the modelled queue: QueueSender -> QueueBatch -> asyncQueue consumers -> persistentQueue,
// with the real retrySender below it.  A retry interrupted by shutdown must come back as a shutdown error so
// that the request stays stored and is delivered by the next incarnation (monitor only, Go-side oracle).

type vE2EClient struct {
	mu sync.Mutex
	st map[string][]byte
	// onComplete: a completion / clean-up batch removes an item (Delete of an item key without writing a new copy)
	onComplete func(items int)
}

// vE2EIncClient is the storage client of one incarnation; after its death every call fails
type vE2EIncClient struct {
	*vE2EClient
	dead atomic.Bool
}

func (c *vE2EIncClient) Get(ctx context.Context, key string) ([]byte, error) {
	op := storage.GetOperation(key)
	err := c.Batch(ctx, op)
	return op.Value, err
}

func (c *vE2EIncClient) Set(ctx context.Context, key string, v []byte) error {
	return c.Batch(ctx, storage.SetOperation(key, v))
}

func (c *vE2EIncClient) Delete(ctx context.Context, key string) error {
	return c.Batch(ctx, storage.DeleteOperation(key))
}

func (c *vE2EIncClient) Batch(ctx context.Context, ops ...*storage.Operation) error {
	if c.dead.Load() {
		return errors.New("verif: incarnation is dead")
	}
	return c.vE2EClient.Batch(ctx, ops...)
}

func (c *vE2EClient) Get(ctx context.Context, key string) ([]byte, error) {
	op := storage.GetOperation(key)
	err := c.Batch(ctx, op)
	return op.Value, err
}

func (c *vE2EClient) Set(ctx context.Context, key string, v []byte) error {
	return c.Batch(ctx, storage.SetOperation(key, v))
}

func (c *vE2EClient) Delete(ctx context.Context, key string) error {
	return c.Batch(ctx, storage.DeleteOperation(key))
}
func (c *vE2EClient) Close(context.Context) error { return nil }
func (c *vE2EClient) Batch(_ context.Context, ops ...*storage.Operation) error {
	c.mu.Lock()
	defer c.mu.Unlock()
	moves := false
	for _, op := range ops {
		moves = moves || (op.Type == storage.Set && op.Key == "wi")
	}
	for _, op := range ops {
		if op.Type == storage.Delete && !moves && c.onComplete != nil {
			if _, err := strconv.ParseUint(op.Key, 10, 64); err == nil {
				if v, ok := c.st[op.Key]; ok && len(v) == 8 {
					c.onComplete(int(binary.LittleEndian.Uint64(v)))
				}
			}
		}
	}
	for _, op := range ops {
		switch op.Type {
		case storage.Get:
			if v, ok := c.st[op.Key]; ok {
				op.Value = append([]byte{}, v...)
			} else {
				op.Value = nil
			}
		case storage.Set:
			c.st[op.Key] = append([]byte{}, op.Value...)
		case storage.Delete:
			delete(c.st, op.Key)
		}
	}
	return nil
}

func (c *vE2EClient) storedIDs() []int {
	c.mu.Lock()
	defer c.mu.Unlock()
	var ids []int
	for k, v := range c.st {
		if _, err := strconv.ParseUint(k, 10, 64); err == nil && len(v) == 8 {
			ids = append(ids, int(binary.LittleEndian.Uint64(v)))
		}
	}
	sort.Ints(ids)
	return ids
}

type vE2EExt struct {
	component.StartFunc
	component.ShutdownFunc
	cl *vE2EIncClient
}

func (e *vE2EExt) GetClient(context.Context, component.Kind, component.ID, string) (storage.Client, error) {
	return e.cl, nil
}

type vE2EHost struct{ ext map[component.ID]component.Component }

func (h *vE2EHost) GetExtensions() map[component.ID]component.Component { return h.ext }

// a request is identified by its item count
type vE2EEnc struct{}

func (vE2EEnc) Marshal(r request.Request) ([]byte, error) {
	return binary.LittleEndian.AppendUint64(nil, uint64(r.ItemsCount())), nil
}

func (vE2EEnc) Unmarshal(b []byte) (request.Request, error) {
	if len(b) < 8 {
		return nil, errors.New("verif: short item")
	}
	return &requesttest.FakeRequest{Items: int(binary.LittleEndian.Uint64(b))}, nil
}

func vE2EInts(xs []int) string {
	if len(xs) == 0 {
		return "-"
	}
	p := make([]string, len(xs))
	for i, x := range xs {
		p[i] = strconv.Itoa(x)
	}
	return strings.Join(p, ",")
}

type vE2EIncarnation struct {
	rs  *retrySender
	qs  sender.Sender[request.Request]
	icl *vE2EIncClient
}

func vE2EStart(t *testing.T, cl *vE2EClient, capacity int64, consumers int, batchMax int, export func(id int) error) *vE2EIncarnation {
	storageID := component.MustNewID("verifstorage")
	set := exporter.Settings{ID: component.MustNewID("verif"), TelemetrySettings: componenttest.NewNopTelemetrySettings()}
	rcfg := configretry.NewDefaultBackOffConfig()
	rcfg.InitialInterval = time.Hour // a retryable failure parks the consumer in the back-off until shutdown
	rcfg.MaxInterval = 2 * time.Hour
	rcfg.MaxElapsedTime = 0
	rs := newRetrySender(rcfg, set, sender.NewSender(func(_ context.Context, r request.Request) error {
		return export(r.ItemsCount())
	}))
	qcfg := queuebatch.Config{Enabled: true, Sizer: request.SizerTypeRequests, QueueSize: capacity, NumConsumers: consumers, StorageID: &storageID}
	if batchMax > 0 {
		// sending_queue::batch with a max size: one stored request is exported as several parts whose errors are
		// combined (multierr) before they reach persistentQueue.onDone
		qcfg.Sizer = request.SizerTypeItems
		qcfg.QueueSize = 100000
		qcfg.Batch = &queuebatch.BatchConfig{FlushTimeout: time.Hour, MinSize: int64(batchMax), MaxSize: int64(batchMax)}
	}
	qs, err := NewQueueSender(queuebatch.Settings[request.Request]{
		Signal: pipeline.SignalTraces, ID: set.ID, Telemetry: set.TelemetrySettings, Encoding: vE2EEnc{},
		Sizers: map[request.SizerType]request.Sizer[request.Request]{
			request.SizerTypeRequests: request.RequestsSizer[request.Request]{},
			request.SizerTypeItems:    request.NewItemsSizer(),
		},
	}, qcfg, BatcherConfig{}, "", rs)
	if err != nil {
		t.Fatal(err)
	}
	icl := &vE2EIncClient{vE2EClient: cl}
	host := &vE2EHost{ext: map[component.ID]component.Component{storageID: &vE2EExt{cl: icl}}}
	if err := qs.Start(context.Background(), host); err != nil {
		t.Fatal(err)
	}
	return &vE2EIncarnation{rs: rs, qs: qs, icl: icl}
}

// same order as BaseExporter.Shutdown: retry sender first, then the queue
func (i *vE2EIncarnation) shutdown() {
	_ = i.rs.Shutdown(context.Background())
	_ = i.qs.Shutdown(context.Background())
}

func TestVerifC01E2E(t *testing.T) {
	out := vOpen(t)
	defer out.Close()
	out.Linef("model c01-e2e 1")
	n := vN(40)
	for _, c := range vCases(n) {
		rnd := vRand(c)
		if c%3 == 2 {
			vE2ESplitCase(t, out, c)
			continue
		}
		capacity := int64(1 + rnd.IntN(3))
		consumers := 1 + rnd.IntN(2)
		nreq := 1 + rnd.IntN(4)
		if c == 0 { // the DESIGN witness through the whole exporter stack
			capacity, consumers, nreq = 1, 1, 2
		}
		// behaviour of the destination per request id in the first incarnation: 0 ok, 1 permanent, 2 retryable forever
		behaviour := map[int]int{}
		for id := 1; id <= nreq; id++ {
			behaviour[id] = []int{0, 1, 2, 2}[rnd.IntN(4)]
		}
		if c == 0 {
			behaviour[1], behaviour[2] = 2, 2
		}
		out.Linef("case %d cap=%d consumers=%d nreq=%d", c, capacity, consumers, nreq)
		cl := &vE2EClient{st: map[string][]byte{}}
		var mu sync.Mutex
		attempted := map[int]int{}
		delivered := map[int]bool{}
		rejected := map[int]bool{}
		kill := c%3 == 1 // the first incarnation dies (abandoned, every later storage call fails) instead of shutting down
		var dead1 atomic.Bool
		completions := 0
		delivered2 := map[int]bool{}
		// "Done is called with the export's outcome, after it returned": a request may leave storage only after an export
		// of it has RETURNED success or a permanent error (never while it sits in the retry back-off, never at shutdown)
		cl.onComplete = func(id int) {
			mu.Lock()
			defer mu.Unlock()
			completions++
			if !delivered[id] && !rejected[id] && !delivered2[id] {
				out.Linef("viol sig=C01/e2e/deleted-without-final-handoff id=%d behaviour=%d attempted=%d", id, behaviour[id], attempted[id])
			}
		}
		inc1 := vE2EStart(t, cl, capacity, consumers, 0, func(id int) error {
			if dead1.Load() {
				return errors.New("dead")
			}
			mu.Lock()
			defer mu.Unlock()
			attempted[id]++
			switch behaviour[id] {
			case 0:
				delivered[id] = true
				return nil
			case 1:
				rejected[id] = true
				return consumererror.NewPermanent(errors.New("rejected"))
			}
			return errors.New("try again")
		})
		var accepted []int
		for id := 1; id <= nreq; id++ {
			err := inc1.qs.Send(context.Background(), &requesttest.FakeRequest{Items: id})
			out.Linef("op send id=%d behaviour=%d accepted=%d", id, behaviour[id], vB(err == nil))
			if err == nil {
				accepted = append(accepted, id)
			}
			// let the consumers pick it up (bounded wait; the outcome does not depend on it)
			for w := 0; w < 50; w++ {
				mu.Lock()
				a := attempted[id]
				mu.Unlock()
				if a > 0 {
					break
				}
				time.Sleep(time.Millisecond)
			}
		}
		if kill {
			dead1.Store(true)
			inc1.icl.dead.Store(true)
			out.Linef("op kill")
		} else {
			inc1.shutdown()
		}
		stored := cl.storedIDs()
		out.Linef("tr after-shutdown stored=%s", vE2EInts(stored))
		// clause: a hand-off interrupted by shutdown leaves the request stored
		mu.Lock()
		for _, id := range accepted {
			if !delivered[id] && !rejected[id] {
				found := false
				for _, s := range stored {
					found = found || s == id
				}
				if !found {
					out.Linef("viol sig=C01/e2e/not-stored-after-shutdown id=%d behaviour=%d attempted=%d", id, behaviour[id], attempted[id])
				}
			}
		}
		mu.Unlock()
		// next incarnation on the same storage: everything is delivered
		inc2 := vE2EStart(t, cl, capacity, consumers, 0, func(id int) error {
			mu.Lock()
			defer mu.Unlock()
			delivered2[id] = true
			return nil
		})
		for w := 0; w < 2000 && len(cl.storedIDs()) > 0; w++ {
			time.Sleep(time.Millisecond)
		}
		inc2.shutdown()
		if kill {
			inc1.shutdown() // release the goroutines of the abandoned incarnation (its storage client is dead)
		}
		mu.Lock()
		var got []int
		for id := range delivered2 {
			got = append(got, id)
		}
		sort.Ints(got)
		out.Linef("tr second-incarnation delivered=%s left=%s", vE2EInts(got), vE2EInts(cl.storedIDs()))
		interrupted := 0
		for _, id := range accepted {
			if !delivered[id] && !rejected[id] {
				interrupted++
				if !delivered2[id] {
					out.Linef("viol sig=C01/e2e/never-delivered-after-restart id=%d behaviour=%d cap=%d", id, behaviour[id], capacity)
				}
			}
		}
		mu.Unlock()
		if interrupted > 0 {
			out.Linef("nt")
		}
		out.Linef("stat accepted %d", len(accepted))
		out.Linef("stat interrupted_by_shutdown %d", interrupted)
		out.Linef("stat completion_deletes_checked %d", completions)
		out.Linef("stat first_incarnation_killed %d", vB(kill))
		out.Linef("end")
		out.Flush()
	}
}

// vE2ESplitCase: persistent queue + batching with a max size that splits every stored request into >= 2 parts, the
// destination down when the exporter is shut down (every part ends with a shutdown-classified error, combined into
// one multi-error), restart on the same storage: every item of every accepted request is delivered.
func vE2ESplitCase(t *testing.T, out *vOut, c int) {
	rnd := vRand(c)
	batchMax := 2 + rnd.IntN(4)
	nreq := 1 + rnd.IntN(3)
	out.Linef("case %d mode=split batchmax=%d nreq=%d", c, batchMax, nreq)
	cl := &vE2EClient{st: map[string][]byte{}}
	var mu sync.Mutex
	attempts := 0
	inc1 := vE2EStart(t, cl, 0, 1, batchMax, func(int) error {
		mu.Lock()
		defer mu.Unlock()
		attempts++
		return errors.New("backend is down")
	})
	total := 0
	for i := 0; i < nreq; i++ {
		parts := 2 + rnd.IntN(3)
		items := parts * batchMax
		err := inc1.qs.Send(context.Background(), &requesttest.FakeRequest{Items: items})
		out.Linef("op send items=%d parts=%d accepted=%d", items, parts, vB(err == nil))
		if err == nil {
			total += items
		}
	}
	for w := 0; w < 200; w++ {
		mu.Lock()
		a := attempts
		mu.Unlock()
		if a > 0 {
			break
		}
		time.Sleep(time.Millisecond)
	}
	inc1.shutdown()
	storedItems := 0
	for _, n := range cl.storedIDs() {
		storedItems += n
	}
	out.Linef("tr after-shutdown stored-items=%d accepted-items=%d", storedItems, total)
	if storedItems != total {
		out.Linef("viol sig=C01/e2e/split-request-not-stored-after-shutdown stored=%d accepted=%d batchmax=%d", storedItems, total, batchMax)
	}
	delivered := 0
	inc2 := vE2EStart(t, cl, 0, 1, batchMax, func(items int) error {
		mu.Lock()
		defer mu.Unlock()
		delivered += items
		return nil
	})
	for w := 0; w < 2000; w++ {
		mu.Lock()
		d := delivered
		mu.Unlock()
		if d >= total && len(cl.storedIDs()) == 0 {
			break
		}
		time.Sleep(time.Millisecond)
	}
	inc2.shutdown()
	mu.Lock()
	out.Linef("tr second-incarnation delivered-items=%d", delivered)
	if delivered < total {
		out.Linef("viol sig=C01/e2e/split-request-never-delivered-after-restart delivered=%d accepted=%d batchmax=%d", delivered, total, batchMax)
	}
	mu.Unlock()
	out.Linef("nt")
	out.Linef("stat split_cases 1")
	out.Linef("stat split_items_accepted %d", total)
	out.Linef("end")
	out.Flush()
}
