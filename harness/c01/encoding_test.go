//go:build verif

package xexporterhelper

import (
	"bytes"
	"fmt"
	"math/rand/v2"
	"testing"

	"go.opentelemetry.io/collector/exporter/exporterhelper"
	"go.opentelemetry.io/collector/pdata/pcommon"
	"go.opentelemetry.io/collector/pdata/plog"
	"go.opentelemetry.io/collector/pdata/pmetric"
	"go.opentelemetry.io/collector/pdata/pprofile"
	"go.opentelemetry.io/collector/pdata/ptrace"
)

// TestVerifC01Encoding (monitor, Go oracle): the assumption LAWFUL ENCODING of the C01 claim, checked on the REAL encodings
// that the four signals register for the persistent queue (New{Traces,Metrics,Logs}QueueBatchSettings().Encoding,
// NewProfilesQueueBatchSettings().Encoding).  For a generated payload p: b0 = proto bytes of p (what the queue stores for a
// request holding p); Unmarshal(b0) must succeed (else getNextItem / recovery DELETE the item without hand-off), the decoded
// request must count the same items, and Marshal of it must give b0 again (a request that went through storage k times is
// the request that was accepted).

func vEncAttrs(rnd *rand.Rand, m pcommon.Map, depth int) {
	n := rnd.IntN(4)
	for i := 0; i < n; i++ {
		k := []string{"k", "", "service.name", "ключ", "a.b"}[rnd.IntN(5)] + fmt.Sprint(i)
		switch rnd.IntN(8) {
		case 0:
			m.PutStr(k, []string{"", "v", "значение", "x y\n"}[rnd.IntN(4)])
		case 1:
			m.PutInt(k, int64(rnd.Uint64()))
		case 2:
			m.PutDouble(k, rnd.NormFloat64())
		case 3:
			m.PutBool(k, rnd.IntN(2) == 0)
		case 4:
			b := m.PutEmptyBytes(k)
			b.FromRaw([]byte{0, byte(rnd.IntN(256)), 255})
		case 5:
			if depth < 2 {
				vEncAttrs(rnd, m.PutEmptyMap(k), depth+1)
			} else {
				m.PutEmpty(k)
			}
		case 6:
			s := m.PutEmptySlice(k)
			for j := rnd.IntN(3); j > 0; j-- {
				s.AppendEmpty().SetInt(int64(j))
			}
		default:
			m.PutEmpty(k)
		}
	}
}

func TestVerifC01Encoding(t *testing.T) {
	out := vOpen(t)
	defer out.Close()
	out.Linef("model c01-encoding 1")
	signals := []string{"traces", "metrics", "logs", "profiles"}
	n := vN(400)
	for _, c := range vCases(n) {
		rnd := vRand(c)
		signal := signals[c%4]
		out.Linef("case %d signal=%s", c, signal)
		var enc interface {
			Marshal(exporterhelper.Request) ([]byte, error)
			Unmarshal([]byte) (exporterhelper.Request, error)
		}
		var b0 []byte
		var err error
		items := 0
		nres := 1 + rnd.IntN(3)
		switch signal {
		case "traces":
			enc = exporterhelper.NewTracesQueueBatchSettings().Encoding
			td := ptrace.NewTraces()
			for r := 0; r < nres; r++ {
				rs := td.ResourceSpans().AppendEmpty()
				vEncAttrs(rnd, rs.Resource().Attributes(), 0)
				for s := rnd.IntN(3); s >= 0; s-- {
					ss := rs.ScopeSpans().AppendEmpty()
					ss.Scope().SetName("scope")
					for k := rnd.IntN(4); k > 0; k-- {
						sp := ss.Spans().AppendEmpty()
						sp.SetName("span")
						sp.SetTraceID(pcommon.TraceID{1, byte(k)})
						sp.SetSpanID(pcommon.SpanID{2, byte(k)})
						vEncAttrs(rnd, sp.Attributes(), 0)
						if rnd.IntN(2) == 0 {
							vEncAttrs(rnd, sp.Events().AppendEmpty().Attributes(), 1)
						}
						if rnd.IntN(2) == 0 {
							sp.Links().AppendEmpty().SetTraceID(pcommon.TraceID{9})
						}
					}
				}
			}
			items = td.SpanCount()
			b0, err = (&ptrace.ProtoMarshaler{}).MarshalTraces(td)
		case "metrics":
			enc = exporterhelper.NewMetricsQueueBatchSettings().Encoding
			md := pmetric.NewMetrics()
			for r := 0; r < nres; r++ {
				rm := md.ResourceMetrics().AppendEmpty()
				vEncAttrs(rnd, rm.Resource().Attributes(), 0)
				sm := rm.ScopeMetrics().AppendEmpty()
				for k := rnd.IntN(4); k > 0; k-- {
					m := sm.Metrics().AppendEmpty()
					m.SetName("m")
					switch rnd.IntN(5) {
					case 0:
						dp := m.SetEmptyGauge().DataPoints().AppendEmpty()
						dp.SetIntValue(int64(k))
						vEncAttrs(rnd, dp.Attributes(), 1)
					case 1:
						s := m.SetEmptySum()
						s.SetIsMonotonic(true)
						s.DataPoints().AppendEmpty().SetDoubleValue(rnd.Float64())
					case 2:
						dp := m.SetEmptyHistogram().DataPoints().AppendEmpty()
						dp.SetCount(3)
						dp.BucketCounts().FromRaw([]uint64{1, 2})
						dp.ExplicitBounds().FromRaw([]float64{0.5})
					case 3:
						dp := m.SetEmptyExponentialHistogram().DataPoints().AppendEmpty()
						dp.SetScale(2)
						dp.Positive().BucketCounts().FromRaw([]uint64{1})
					default:
						dp := m.SetEmptySummary().DataPoints().AppendEmpty()
						dp.QuantileValues().AppendEmpty().SetQuantile(0.5)
					}
				}
			}
			items = md.DataPointCount()
			b0, err = (&pmetric.ProtoMarshaler{}).MarshalMetrics(md)
		case "logs":
			enc = exporterhelper.NewLogsQueueBatchSettings().Encoding
			ld := plog.NewLogs()
			for r := 0; r < nres; r++ {
				rl := ld.ResourceLogs().AppendEmpty()
				vEncAttrs(rnd, rl.Resource().Attributes(), 0)
				sl := rl.ScopeLogs().AppendEmpty()
				for k := rnd.IntN(4); k > 0; k-- {
					lr := sl.LogRecords().AppendEmpty()
					switch rnd.IntN(3) {
					case 0:
						lr.Body().SetStr("record")
					case 1:
						vEncAttrs(rnd, lr.Body().SetEmptyMap(), 1)
					}
					lr.SetSeverityNumber(plog.SeverityNumber(rnd.IntN(24)))
					vEncAttrs(rnd, lr.Attributes(), 0)
				}
			}
			items = ld.LogRecordCount()
			b0, err = (&plog.ProtoMarshaler{}).MarshalLogs(ld)
		default:
			enc = NewProfilesQueueBatchSettings().Encoding
			pd := pprofile.NewProfiles()
			for r := 0; r < nres; r++ {
				rp := pd.ResourceProfiles().AppendEmpty()
				vEncAttrs(rnd, rp.Resource().Attributes(), 0)
				sp := rp.ScopeProfiles().AppendEmpty()
				for k := rnd.IntN(4); k > 0; k-- {
					p := sp.Profiles().AppendEmpty()
					for j := rnd.IntN(3); j >= 0; j-- {
						p.Sample().AppendEmpty()
					}
				}
			}
			items = pd.SampleCount()
			b0, err = (&pprofile.ProtoMarshaler{}).MarshalProfiles(pd)
		}
		out.Linef("op roundtrip bytes=%d items=%d", len(b0), items)
		switch {
		case err != nil:
			out.Linef("viol sig=C01/encoding/%s/payload-does-not-marshal %s", signal, vHex(err.Error()))
		default:
			req, uerr := enc.Unmarshal(b0)
			if uerr != nil {
				out.Linef("viol sig=C01/encoding/%s/stored-bytes-do-not-decode %s", signal, vHex(uerr.Error()))
				break
			}
			if req.ItemsCount() != items {
				out.Linef("viol sig=C01/encoding/%s/decoded-request-counts-different-items got=%d want=%d", signal, req.ItemsCount(), items)
			}
			b1, merr := enc.Marshal(req)
			if merr != nil || !bytes.Equal(b0, b1) {
				out.Linef("viol sig=C01/encoding/%s/marshal-of-decoded-request-differs len0=%d len1=%d", signal, len(b0), len(b1))
			}
		}
		if items > 0 {
			out.Linef("nt")
		}
		out.Linef("stat encoding_%s 1", signal)
		out.Linef("stat encoding_bytes %d", len(b0))
		out.Linef("end")
		out.Flush()
	}
}
