//go:build verif

package xexporterhelper

import (
	"context"
	"errors"
	"fmt"
	"sort"
	"strconv"
	"strings"
	"sync"
	"testing"
	"time"

	"go.opentelemetry.io/collector/component"
	"go.opentelemetry.io/collector/config/configretry"
	"go.opentelemetry.io/collector/consumer/consumererror"
	"go.opentelemetry.io/collector/exporter/exporterhelper"
	"go.opentelemetry.io/collector/exporter/exportertest"
)

// TestVerifC01ExporterSplit: the path Read -> batcher -> export function -> Done for a stored request that the batcher
// exports in SEVERAL flushes (max_size smaller than the request) with a DIFFERENT outcome per flush, on real exporters of
// all four signals with a persistent queue, followed by a clean Shutdown (BaseExporter order: retry sender, queue) and a
// restart on the same storage.
//
// Property clause under test: a request disappears from storage only after its hand-off has completed with a final
// outcome; a hand-off interrupted by shutdown leaves it stored for the next start.  A hand-off of a split request has
// completed finally only when EVERY flush returned a final outcome (success / permanent error).  If any flush is still in
// the retry back-off when the exporter is shut down, the request must stay stored — also when an EARLIER flush of the same
// request failed permanently — and the next incarnation must hand all of it to the export function again.
//
// Plan per request: one behaviour per flush (ok | permanent | retryable).  `retryable` parks the flush in the retry sender's
// back-off (1 h) until Shutdown interrupts it.  Cases 0-7 are the corpus: every signal x {legacy WithBatcher, sending_queue::batch}
// with the plan [permanent, retryable]; the others are random plans.
func TestVerifC01ExporterSplit(t *testing.T) {
	out := vOpen(t)
	defer out.Close()
	out.Linef("model c01-exporter 1")
	signals := []string{"traces", "metrics", "logs", "profiles"}
	options := []string{"queue+legacybatcher", "queuebatch+batch"}
	behaviours := []string{"ok", "permanent", "retryable"}
	n := vN(24)
	for _, c := range vCases(n) {
		rnd := vRand(c)
		shape := vXShape{signal: signals[c%4], option: options[(c/4)%2], queueSize: 64, consumers: 1, retry: true, batchMin: 0, batchMax: int64(1 + rnd.IntN(3))}
		nreq := 1 + rnd.IntN(3)
		if c < 8 {
			shape.batchMax, nreq = 2, 1
		}
		storageID := component.MustNewIDWithName("verif_storage", "c01split")
		// options: like vXShape.options, but the retry sender must stay in its back-off until Shutdown
		qcfg := exporterhelper.NewDefaultQueueConfig()
		qcfg.StorageID = &storageID
		qcfg.QueueSize = shape.queueSize
		qcfg.NumConsumers = 1
		rc := configretry.NewDefaultBackOffConfig()
		rc.InitialInterval = time.Hour
		rc.MaxInterval = time.Hour
		rc.MaxElapsedTime = 0
		opts := []exporterhelper.Option{exporterhelper.WithRetry(rc), exporterhelper.WithTimeout(exporterhelper.TimeoutConfig{Timeout: 0})}
		if shape.option == "queue+legacybatcher" {
			bc := exporterhelper.NewDefaultBatcherConfig()
			bc.Enabled = true
			bc.FlushTimeout = time.Hour
			bc.MinSize = 0
			bc.MaxSize = shape.batchMax
			if c%2 == 0 {
				opts = append(opts, exporterhelper.WithBatcher(bc), exporterhelper.WithQueue(qcfg))
			} else {
				opts = append(opts, exporterhelper.WithQueue(qcfg), exporterhelper.WithBatcher(bc))
			}
		} else {
			qcfg.Sizer = exporterhelper.RequestSizerTypeItems
			qcfg.Batch = &exporterhelper.BatchConfig{FlushTimeout: time.Hour, MinSize: 0, MaxSize: shape.batchMax}
			opts = append(opts, exporterhelper.WithQueue(qcfg))
		}
		// the plan
		plan := map[int][]string{}
		var planStr []string
		for id := 1; id <= nreq; id++ {
			parts := 2 + rnd.IntN(2)
			p := make([]string, parts)
			for k := range p {
				p[k] = behaviours[rnd.IntN(3)]
			}
			if c < 8 {
				p = []string{"permanent", "retryable"}
			}
			plan[id] = p
			planStr = append(planStr, fmt.Sprintf("%d:%s", id, strings.Join(p, "+")))
		}
		out.Linef("case %d %s mode=split plan=%s", c, shape.detail(), strings.Join(planStr, ","))

		var stMu sync.Mutex
		st := map[string][]byte{}
		var mu sync.Mutex
		calls := map[int]int{}      // id -> export calls of incarnation 1 so far (= index of the next flush in the plan)
		finalParts := map[int]int{} // id -> flushes of incarnation 1 that returned a final outcome
		waiting := 0                // flushes of incarnation 1 that returned a retryable error (the retry sender backs off)
		reexported := map[int]int{} // id -> export calls of incarnation 2
		accepted := map[int]bool{}
		finalIDs := map[int]bool{}
		overCalls := false
		violated := map[string]bool{}
		viol := func(sig, detail string) {
			if !violated[sig] {
				violated[sig] = true
				out.Linef("viol sig=%s %s %s", sig, detail, shape.detail())
			}
		}
		mk := func(export func(ids []int) error, second bool) (*vXExporter, *vXClient) {
			cl := &vXClient{mu: &stMu, st: st}
			cl.onComplete = func(ids []int) {
				mu.Lock()
				defer mu.Unlock()
				for _, id := range ids {
					if !second && !finalIDs[id] {
						viol("C01/exporter/split-request-deleted-before-all-flushes-final/"+shape.String(),
							fmt.Sprintf("id=%d plan=%s final_flushes=%d", id, strings.Join(plan[id], "+"), finalParts[id]))
					}
				}
			}
			set := exportertest.NewNopSettings(exportertest.NopType)
			set.ID = component.MustNewIDWithName("verif_exporter", "c01split")
			exp, err := vXNewExporter(shape.signal, set, opts, export)
			if err != nil {
				t.Fatalf("case %d: %v", c, err)
			}
			host := &vXHost{ext: map[component.ID]component.Component{storageID: &vXExt{cl: cl}}}
			if err := exp.Start(context.Background(), host); err != nil {
				t.Fatalf("case %d start: %v", c, err)
			}
			return exp, cl
		}

		// ---- first incarnation: one behaviour per flush ----
		first, _ := mk(func(ids []int) error {
			mu.Lock()
			defer mu.Unlock()
			if len(ids) != 1 {
				out.Linef("tr export-with-%d-ids", len(ids)) // min_size = 0: flushes are never merged across requests
				return nil
			}
			id := ids[0]
			out.Linef("tr ev hand %d", id)
			k := calls[id]
			calls[id]++
			if k >= len(plan[id]) {
				overCalls = true // more flushes than planned (the request was split differently): treated as ok
				finalParts[id]++
				return nil
			}
			switch plan[id][k] {
			case "ok":
				finalParts[id]++
			case "permanent":
				finalParts[id]++
				if finalParts[id] == len(plan[id]) {
					finalIDs[id] = true
					out.Linef("tr ev final %d", id)
				}
				return consumererror.NewPermanent(errors.New("rejected by the destination"))
			default:
				waiting++
				return errors.New("destination unavailable")
			}
			if finalParts[id] == len(plan[id]) {
				finalIDs[id] = true
				out.Linef("tr ev final %d", id)
			}
			return nil
		}, false)
		for id := 1; id <= nreq; id++ {
			items := len(plan[id]) * int(shape.batchMax)
			err := first.consume(context.Background(), id, items)
			mu.Lock()
			if err == nil {
				accepted[id] = true
				out.Linef("tr ev accept %d", id)
			}
			out.Linef("op send id=%d items=%d flushes=%d accepted=%d", id, items, len(plan[id]), vB(err == nil))
			mu.Unlock()
		}
		// wait until the single worker is parked in a back-off, or everything planned has been exported
		deadline := time.Now().Add(3 * time.Second)
		for time.Now().Before(deadline) {
			mu.Lock()
			done := waiting > 0
			if !done {
				done = true
				for id := range accepted {
					done = done && calls[id] >= len(plan[id])
				}
			}
			mu.Unlock()
			if done {
				break
			}
			time.Sleep(time.Millisecond)
		}
		time.Sleep(2 * time.Millisecond)
		_ = first.Shutdown(context.Background())
		stored := vXStoredIDs(&stMu, st)
		mu.Lock()
		var ids []string
		var sorted []int
		for id := range stored {
			sorted = append(sorted, id)
		}
		sort.Ints(sorted)
		for _, id := range sorted {
			ids = append(ids, strconv.Itoa(id))
		}
		out.Linef("op shutdown")
		out.Linef("tr ev dump %s", strings.Join(ids, ","))
		interrupted := 0
		mixed := 0
		for id := range accepted {
			if finalIDs[id] {
				continue
			}
			interrupted++
			if finalParts[id] > 0 {
				mixed++
			}
			if !stored[id] {
				viol("C01/exporter/split-request-interrupted-by-shutdown-not-stored/"+shape.String(),
					fmt.Sprintf("id=%d plan=%s exported_flushes=%d final_flushes=%d", id, strings.Join(plan[id], "+"), calls[id], finalParts[id]))
			}
		}
		mu.Unlock()

		// ---- second incarnation on the same storage: healthy destination ----
		second, _ := mk(func(ids []int) error {
			mu.Lock()
			defer mu.Unlock()
			for _, id := range ids {
				reexported[id]++
				out.Linef("tr ev hand %d", id)
			}
			return nil
		}, true)
		deadline = time.Now().Add(2 * time.Second)
		for time.Now().Before(deadline) {
			mu.Lock()
			missing := 0
			for id := range accepted {
				if !finalIDs[id] && reexported[id] < len(plan[id]) {
					missing++
				}
			}
			mu.Unlock()
			if missing == 0 {
				break
			}
			time.Sleep(time.Millisecond)
		}
		_ = second.Shutdown(context.Background())
		mu.Lock()
		for id := range accepted {
			if !finalIDs[id] && reexported[id] < len(plan[id]) {
				viol("C01/exporter/split-request-never-redelivered/"+shape.String(),
					fmt.Sprintf("id=%d plan=%s redelivered_flushes=%d of %d", id, strings.Join(plan[id], "+"), reexported[id], len(plan[id])))
			}
		}
		out.Linef("op drained")
		if interrupted > 0 {
			out.Linef("nt")
		}
		out.Linef("stat split_cases 1")
		out.Linef("stat split_signal_%s_%s 1", shape.signal, strings.ReplaceAll(shape.option, "+", "_"))
		out.Linef("stat split_requests_accepted %d", len(accepted))
		out.Linef("stat split_requests_interrupted_by_shutdown %d", interrupted)
		out.Linef("stat split_requests_with_final_flush_then_interrupted_flush %d", mixed)
		out.Linef("stat split_requests_completed_finally %d", len(finalIDs))
		out.Linef("stat split_plan_had_more_flushes_than_planned %d", vB(overCalls))
		mu.Unlock()
		out.Linef("end")
		out.Flush()
	}
}
