//go:build verif

package xexporterhelper

import (
	"bytes"
	"context"
	"errors"
	"fmt"
	"sort"
	"strconv"
	"strings"
	"sync"
	"sync/atomic"
	"testing"
	"time"

	"go.opentelemetry.io/collector/component"
	"go.opentelemetry.io/collector/config/configretry"
	"go.opentelemetry.io/collector/consumer/consumererror"
	"go.opentelemetry.io/collector/exporter"
	"go.opentelemetry.io/collector/exporter/exporterhelper"
	"go.opentelemetry.io/collector/exporter/exportertest"
	"go.opentelemetry.io/collector/extension/xextension/storage"
	"go.opentelemetry.io/collector/pdata/pcommon"
	"go.opentelemetry.io/collector/pdata/plog"
	"go.opentelemetry.io/collector/pdata/pmetric"
	"go.opentelemetry.io/collector/pdata/pprofile"
	"go.opentelemetry.io/collector/pdata/ptrace"
)

// TestVerifC01Exporter: property C01 at the level of REAL exporters built through the public constructors
// (exporterhelper.NewTraces / NewMetrics / NewLogs, xexporterhelper.NewProfilesExporter) with a generated option set and
// `sending_queue::storage` pointing at an in-process storage extension whose contents survive the death of an incarnation.
// Everything between ConsumeX and the persistent queue is driven: option merging (WithQueue / WithQueueBatch / legacy
// WithBatcher), obsQueue, asyncQueue consumers, batcher, retry / timeout senders.
//
// Script per case: up to 3 incarnations die (abandoned without Shutdown, or at the k-th storage call: that call is still
// performed, every later call of the incarnation fails and its hand-offs no longer count), the last one has a healthy
// destination and drains.  Oracle = the property: every payload whose ConsumeX returned nil is handed to the export
// function at least once by a live incarnation, and at every death it is still in storage unless some hand-off of it
// has returned.  The same events go to the Lean trace checker (`tr ev …`, model c01-exporter, C01_check_sound).

const vXMarker = "verif-c01-id-"

func vXID(id int) string { return fmt.Sprintf("%s%06d", vXMarker, id) }

// ---- storage that survives death ----

type vXClient struct {
	mu        *sync.Mutex
	st        map[string][]byte
	dead      atomic.Bool
	dieAfter  atomic.Int64 // > 0: the incarnation dies right after this many more storage calls
	failPuts  atomic.Bool  // extension: pure enqueue batches fail like ENOSPC (no effect) — refused offers create no obligation
	putFailed atomic.Int64
	// onComplete is called (with mu held) for every item that a completion / clean-up batch removes from storage
	// (a Delete of an item key in a batch that does not write a new copy, i.e. not a recovery move)
	onComplete func(ids []int)
}

func vXIDsIn(v []byte) []int {
	var out []int
	rest := v
	for {
		i := bytes.Index(rest, []byte(vXMarker))
		if i < 0 || len(rest) < i+len(vXMarker)+6 {
			return out
		}
		if n, err := strconv.Atoi(string(rest[i+len(vXMarker) : i+len(vXMarker)+6])); err == nil {
			out = append(out, n)
		}
		rest = rest[i+len(vXMarker):]
	}
}

func (c *vXClient) Get(ctx context.Context, key string) ([]byte, error) {
	op := storage.GetOperation(key)
	err := c.Batch(ctx, op)
	return op.Value, err
}

func (c *vXClient) Set(ctx context.Context, key string, v []byte) error {
	return c.Batch(ctx, storage.SetOperation(key, v))
}

func (c *vXClient) Delete(ctx context.Context, key string) error {
	return c.Batch(ctx, storage.DeleteOperation(key))
}
func (c *vXClient) Close(context.Context) error { return nil }

func (c *vXClient) Batch(_ context.Context, ops ...*storage.Operation) error {
	c.mu.Lock()
	defer c.mu.Unlock()
	if c.dead.Load() {
		return errors.New("verif: incarnation is dead")
	}
	if c.failPuts.Load() {
		setsWI, deletes := false, false
		for _, op := range ops {
			setsWI = setsWI || (op.Type == storage.Set && op.Key == "wi")
			deletes = deletes || op.Type == storage.Delete
		}
		if setsWI && !deletes {
			c.putFailed.Add(1)
			return errors.New("verif: no space left on device")
		}
	}
	moves := false
	for _, op := range ops {
		moves = moves || (op.Type == storage.Set && op.Key == "wi")
	}
	for _, op := range ops {
		if op.Type == storage.Delete && !moves && c.onComplete != nil {
			if v, ok := c.st[op.Key]; ok && op.Key != "ri" && op.Key != "wi" && op.Key != "di" && op.Key != "si" {
				c.onComplete(vXIDsIn(v))
			}
		}
	}
	for _, op := range ops {
		switch op.Type {
		case storage.Get:
			if v, ok := c.st[op.Key]; ok {
				op.Value = append([]byte{}, v...)
			} else {
				op.Value = nil
			}
		case storage.Set:
			c.st[op.Key] = append([]byte{}, op.Value...)
		case storage.Delete:
			delete(c.st, op.Key)
		}
	}
	if c.dieAfter.Load() > 0 && c.dieAfter.Add(-1) == 0 {
		c.dead.Store(true)
	}
	return nil
}

type vXExt struct {
	component.StartFunc
	component.ShutdownFunc
	cl *vXClient
}

func (e *vXExt) GetClient(context.Context, component.Kind, component.ID, string) (storage.Client, error) {
	return e.cl, nil
}

type vXHost struct{ ext map[component.ID]component.Component }

func (h *vXHost) GetExtensions() map[component.ID]component.Component { return h.ext }

// ids of the payloads whose bytes are in storage (the id is a resource attribute string, stored verbatim by protobuf)
func vXStoredIDs(mu *sync.Mutex, st map[string][]byte) map[int]bool {
	mu.Lock()
	defer mu.Unlock()
	out := map[int]bool{}
	for k, v := range st {
		if k == "ri" || k == "wi" || k == "di" || k == "si" {
			continue
		}
		rest := v
		for {
			i := bytes.Index(rest, []byte(vXMarker))
			if i < 0 || len(rest) < i+len(vXMarker)+6 {
				break
			}
			if n, err := strconv.Atoi(string(rest[i+len(vXMarker) : i+len(vXMarker)+6])); err == nil {
				out[n] = true
			}
			rest = rest[i+len(vXMarker):]
		}
	}
	return out
}

// ---- one exporter incarnation, any signal ----

type vXExporter struct {
	component.Component
	consume func(ctx context.Context, id int, items int) error
}

func vXResourceIDs(attrs pcommon.Map, ids *[]int) {
	if v, ok := attrs.Get("verif.id"); ok {
		if n, err := strconv.Atoi(strings.TrimPrefix(v.Str(), vXMarker)); err == nil {
			*ids = append(*ids, n)
		}
	}
}

func vXNewExporter(signal string, set exporter.Settings, opts []exporterhelper.Option, export func(ids []int) error) (*vXExporter, error) {
	ctx := context.Background()
	cfg := &struct{}{}
	switch signal {
	case "traces":
		e, err := exporterhelper.NewTraces(ctx, set, cfg, func(_ context.Context, td ptrace.Traces) error {
			var ids []int
			for i := 0; i < td.ResourceSpans().Len(); i++ {
				vXResourceIDs(td.ResourceSpans().At(i).Resource().Attributes(), &ids)
			}
			return export(ids)
		}, opts...)
		if err != nil {
			return nil, err
		}
		return &vXExporter{Component: e, consume: func(ctx context.Context, id, items int) error {
			td := ptrace.NewTraces()
			rs := td.ResourceSpans().AppendEmpty()
			rs.Resource().Attributes().PutStr("verif.id", vXID(id))
			ss := rs.ScopeSpans().AppendEmpty()
			for k := 0; k < items; k++ {
				ss.Spans().AppendEmpty().SetName("span")
			}
			return e.ConsumeTraces(ctx, td)
		}}, nil
	case "metrics":
		e, err := exporterhelper.NewMetrics(ctx, set, cfg, func(_ context.Context, md pmetric.Metrics) error {
			var ids []int
			for i := 0; i < md.ResourceMetrics().Len(); i++ {
				vXResourceIDs(md.ResourceMetrics().At(i).Resource().Attributes(), &ids)
			}
			return export(ids)
		}, opts...)
		if err != nil {
			return nil, err
		}
		return &vXExporter{Component: e, consume: func(ctx context.Context, id, items int) error {
			md := pmetric.NewMetrics()
			rm := md.ResourceMetrics().AppendEmpty()
			rm.Resource().Attributes().PutStr("verif.id", vXID(id))
			m := rm.ScopeMetrics().AppendEmpty().Metrics().AppendEmpty()
			m.SetName("gauge")
			g := m.SetEmptyGauge()
			for k := 0; k < items; k++ {
				g.DataPoints().AppendEmpty().SetIntValue(int64(k))
			}
			return e.ConsumeMetrics(ctx, md)
		}}, nil
	case "logs":
		e, err := exporterhelper.NewLogs(ctx, set, cfg, func(_ context.Context, ld plog.Logs) error {
			var ids []int
			for i := 0; i < ld.ResourceLogs().Len(); i++ {
				vXResourceIDs(ld.ResourceLogs().At(i).Resource().Attributes(), &ids)
			}
			return export(ids)
		}, opts...)
		if err != nil {
			return nil, err
		}
		return &vXExporter{Component: e, consume: func(ctx context.Context, id, items int) error {
			ld := plog.NewLogs()
			rl := ld.ResourceLogs().AppendEmpty()
			rl.Resource().Attributes().PutStr("verif.id", vXID(id))
			sl := rl.ScopeLogs().AppendEmpty()
			for k := 0; k < items; k++ {
				sl.LogRecords().AppendEmpty().Body().SetStr("record")
			}
			return e.ConsumeLogs(ctx, ld)
		}}, nil
	case "profiles":
		e, err := NewProfilesExporter(ctx, set, cfg, func(_ context.Context, pd pprofile.Profiles) error {
			var ids []int
			for i := 0; i < pd.ResourceProfiles().Len(); i++ {
				vXResourceIDs(pd.ResourceProfiles().At(i).Resource().Attributes(), &ids)
			}
			return export(ids)
		}, opts...)
		if err != nil {
			return nil, err
		}
		return &vXExporter{Component: e, consume: func(ctx context.Context, id, items int) error {
			pd := pprofile.NewProfiles()
			rp := pd.ResourceProfiles().AppendEmpty()
			rp.Resource().Attributes().PutStr("verif.id", vXID(id))
			// one sample per profile: the profiles batcher splits between profiles, never inside one
			sp := rp.ScopeProfiles().AppendEmpty()
			for k := 0; k < items; k++ {
				sp.Profiles().AppendEmpty().Sample().AppendEmpty()
			}
			return e.ConsumeProfiles(ctx, pd)
		}}, nil
	}
	return nil, errors.New("unknown signal " + signal)
}

// ---- generated option set ----

type vXShape struct {
	signal    string
	option    string // queue | queuebatch | queue+legacybatcher | queuebatch+batch
	queueSize int64
	consumers int
	block     bool
	retry     bool
	batchMin  int64
	batchMax  int64
}

func (s vXShape) String() string {
	return fmt.Sprintf("%s/%s", s.signal, s.option)
}

func (s vXShape) detail() string {
	return fmt.Sprintf("signal=%s option=%s queue_size=%d consumers=%d block=%d retry=%d batch_min=%d batch_max=%d",
		s.signal, s.option, s.queueSize, s.consumers, vB(s.block), vB(s.retry), s.batchMin, s.batchMax)
}

func (s vXShape) options(storageID component.ID) ([]exporterhelper.Option, bool) {
	qcfg := exporterhelper.NewDefaultQueueConfig()
	qcfg.StorageID = &storageID
	qcfg.QueueSize = s.queueSize
	qcfg.NumConsumers = s.consumers
	qcfg.BlockOnOverflow = s.block
	qcfg.WaitForResult = false
	var opts []exporterhelper.Option
	if s.retry {
		rc := configretry.NewDefaultBackOffConfig()
		rc.InitialInterval = 2 * time.Millisecond
		rc.MaxInterval = 4 * time.Millisecond
		rc.MaxElapsedTime = time.Second
		opts = append(opts, exporterhelper.WithRetry(rc))
	}
	switch s.option {
	case "queue":
		opts = append(opts, exporterhelper.WithQueue(qcfg))
	case "queuebatch":
		var set exporterhelper.QueueBatchSettings
		switch s.signal {
		case "traces":
			set = exporterhelper.NewTracesQueueBatchSettings()
		case "metrics":
			set = exporterhelper.NewMetricsQueueBatchSettings()
		case "logs":
			set = exporterhelper.NewLogsQueueBatchSettings()
		default:
			set = NewProfilesQueueBatchSettings()
		}
		opts = append(opts, exporterhelper.WithQueueBatch(qcfg, set))
	case "queue+legacybatcher":
		// the deprecated way: WithBatcher next to an enabled (persistent) queue; the two configurations are merged
		bc := exporterhelper.NewDefaultBatcherConfig()
		bc.Enabled = true
		bc.FlushTimeout = 5 * time.Millisecond
		bc.MinSize = s.batchMin
		bc.MaxSize = s.batchMax
		if rndOrder := s.consumers%2 == 0; rndOrder {
			opts = append(opts, exporterhelper.WithBatcher(bc), exporterhelper.WithQueue(qcfg))
		} else {
			opts = append(opts, exporterhelper.WithQueue(qcfg), exporterhelper.WithBatcher(bc))
		}
	case "queuebatch+batch":
		// sending_queue::batch (items sizer; Validate() rejects it together with storage, the constructors accept it)
		qcfg.Sizer = exporterhelper.RequestSizerTypeItems
		qcfg.QueueSize = s.queueSize * 4
		qcfg.Batch = &exporterhelper.BatchConfig{FlushTimeout: 5 * time.Millisecond, MinSize: s.batchMin, MaxSize: s.batchMax}
		opts = append(opts, exporterhelper.WithQueue(qcfg))
	}
	return opts, qcfg.Validate() == nil
}

// ---- the case ----

type vXIncarnation struct {
	exp     *vXExporter
	cl      *vXClient
	release chan struct{} // closed at clean-up: hanging exports of this incarnation return
	mode    string        // ok | permanent | retryable | hang
}

func TestVerifC01Exporter(t *testing.T) {
	out := vOpen(t)
	defer out.Close()
	out.Linef("model c01-exporter 1")
	signals := []string{"traces", "metrics", "logs", "profiles"}
	options := []string{"queue", "queuebatch", "queue+legacybatcher", "queuebatch+batch"}
	n := vN(100)
	for _, c := range vCases(n) {
		rnd := vRand(c)
		shape := vXShape{
			signal:    signals[c%4],
			option:    options[(c/4)%4],
			queueSize: int64(1 + rnd.IntN(3)),
			consumers: 1 + rnd.IntN(2),
			block:     rnd.IntN(3) == 0,
			retry:     rnd.IntN(2) == 0,
			batchMin:  int64(rnd.IntN(3)),
		}
		if rnd.IntN(2) == 0 {
			shape.batchMax = shape.batchMin + int64(1+rnd.IntN(3))
		}
		storageID := component.MustNewIDWithName("verif_storage", "c01")
		opts, valid := shape.options(storageID)
		out.Linef("case %d %s valid=%d", c, shape.detail(), vB(valid))

		var stMu sync.Mutex
		st := map[string][]byte{}
		var mu sync.Mutex // guards the maps below and the event lines of concurrent exports
		accepted, handed, returned, deleted := map[int]bool{}, map[int]bool{}, map[int]bool{}, map[int]bool{}
		refusals := map[string]int{}
		var incs []*vXIncarnation
		nextID := 1
		violated := map[string]bool{}
		viol := func(sig, detail string) {
			if !violated[sig] {
				violated[sig] = true
				out.Linef("viol sig=%s %s %s", sig, detail, shape.detail())
			}
		}

		start := func(mode string) *vXIncarnation {
			inc := &vXIncarnation{cl: &vXClient{mu: &stMu, st: st}, release: make(chan struct{}), mode: mode}
			// the request leaves storage: some hand-off of it must have RETURNED with a final outcome before
			// (observed at the storage client, i.e. from what the queue does with the outcome passed to OnDone)
			inc.cl.onComplete = func(ids []int) {
				mu.Lock()
				defer mu.Unlock()
				for _, id := range ids {
					deleted[id] = true
					if !returned[id] {
						viol("C01/exporter/deleted-without-final-handoff/"+shape.String(), fmt.Sprintf("id=%d handed=%d mode=%s", id, vB(handed[id]), inc.mode))
					}
				}
			}
			attempts := map[int]int{}
			set := exportertest.NewNopSettings(exportertest.NopType)
			set.ID = component.MustNewIDWithName("verif_exporter", "c01")
			exp, err := vXNewExporter(shape.signal, set, opts, func(ids []int) error {
				if inc.cl.dead.Load() {
					<-inc.release // the process is gone: whatever it does no longer happens
					return errors.New("dead")
				}
				mu.Lock()
				for _, id := range ids {
					handed[id] = true
					out.Linef("tr ev hand %d", id)
				}
				mu.Unlock()
				done := func() {
					mu.Lock()
					defer mu.Unlock()
					if inc.cl.dead.Load() {
						return
					}
					for _, id := range ids {
						returned[id] = true
						out.Linef("tr ev final %d", id)
					}
				}
				switch inc.mode {
				case "ok":
					done()
					return nil
				case "permanent":
					done()
					return consumererror.NewPermanent(errors.New("rejected"))
				case "retryable":
					if !shape.retry {
						done() // no retry sender: a retryable error is the final outcome
						return errors.New("try again")
					}
					// with the retry sender the first attempts fail and are NOT final: the request must stay stored during
					// the back-off; a later attempt succeeds (the budget of the retry sender is never exhausted)
					mu.Lock()
					n := 0
					for _, id := range ids {
						attempts[id]++
						if attempts[id] > n {
							n = attempts[id]
						}
					}
					mu.Unlock()
					if n <= 2 {
						return errors.New("try again")
					}
					done()
					return nil
				}
				<-inc.release
				return errors.New("connection lost")
			})
			if err != nil {
				t.Fatalf("case %d: %v", c, err)
			}
			inc.exp = exp
			host := &vXHost{ext: map[component.ID]component.Component{storageID: &vXExt{cl: inc.cl}}}
			if err := exp.Start(context.Background(), host); err != nil {
				t.Fatalf("case %d start: %v", c, err)
			}
			incs = append(incs, inc)
			return inc
		}

		send := func(inc *vXIncarnation, k int) {
			for i := 0; i < k; i++ {
				id := nextID
				nextID++
				items := 1 + rnd.IntN(3)
				ctx, cancel := context.WithTimeout(context.Background(), 15*time.Millisecond)
				err := inc.exp.consume(ctx, id, items)
				cancel()
				mu.Lock()
				switch {
				case err == nil:
					accepted[id] = true
					out.Linef("tr ev accept %d", id)
				case errors.Is(err, exporterhelper.ErrQueueIsFull):
					refusals["queue_full"]++
				case errors.Is(err, context.DeadlineExceeded):
					refusals["blocked_until_cancelled"]++
				default:
					refusals["other_error"]++
				}
				out.Linef("op send id=%d items=%d accepted=%d", id, items, vB(err == nil))
				mu.Unlock()
				if rnd.IntN(3) == 0 {
					time.Sleep(time.Millisecond)
				}
			}
		}

		// the death of an incarnation; then the storage is quiescent and is checked
		die := func(inc *vXIncarnation, how string) {
			inc.cl.dead.Store(true)
			stored := vXStoredIDs(&stMu, st)
			mu.Lock()
			var ids []int
			for id := range stored {
				ids = append(ids, id)
			}
			sort.Ints(ids)
			parts := make([]string, len(ids))
			for i, id := range ids {
				parts[i] = strconv.Itoa(id)
			}
			out.Linef("op die how=%s", how)
			out.Linef("tr ev dump %s", strings.Join(parts, ","))
			for id := range accepted {
				if !returned[id] && !stored[id] {
					viol("C01/exporter/accepted-not-stored/"+shape.String(), fmt.Sprintf("id=%d handed=%d", id, vB(handed[id])))
				}
			}
			mu.Unlock()
		}

		deaths := 1 + rnd.IntN(3)
		for d := 0; d < deaths; d++ {
			mode := []string{"hang", "hang", "ok", "permanent", "retryable"}[rnd.IntN(5)]
			inc := start(mode)
			how := "abandoned"
			switch rnd.IntN(4) {
			case 0:
				how = "after-call"
				inc.cl.dieAfter.Store(int64(1 + rnd.IntN(40)))
			case 1:
				if rnd.IntN(2) == 0 {
					how = "abandoned-enospc"
					inc.cl.failPuts.Store(true) // extension: some enqueue batches fail; refused offers create no obligation
				}
			}
			send(inc, 2+rnd.IntN(5))
			time.Sleep(time.Duration(rnd.IntN(4)) * time.Millisecond)
			if inc.cl.putFailed.Load() > 0 {
				mu.Lock()
				refusals["storage_write_failed"] += int(inc.cl.putFailed.Load())
				mu.Unlock()
			}
			die(inc, how)
		}

		// last incarnation: healthy destination, drain
		last := start("ok")
		send(last, rnd.IntN(3))
		deadline := time.Now().Add(2 * time.Second)
		for time.Now().Before(deadline) {
			mu.Lock()
			missing := 0
			for id := range accepted {
				if !handed[id] {
					missing++
				}
			}
			mu.Unlock()
			if missing == 0 {
				break
			}
			time.Sleep(time.Millisecond)
		}
		_ = last.exp.Shutdown(context.Background())
		mu.Lock()
		nAcc, nLost := 0, 0
		for id := range accepted {
			nAcc++
			if !handed[id] {
				nLost++
				viol("C01/exporter/accepted-never-handed/"+shape.String(), fmt.Sprintf("id=%d", id))
			}
		}
		out.Linef("op drained")
		mu.Unlock()
		// release the abandoned incarnations
		for _, inc := range incs[:len(incs)-1] {
			close(inc.release)
			_ = inc.exp.Shutdown(context.Background())
		}
		close(last.release)

		out.Linef("nt")
		out.Linef("stat signal_%s 1", shape.signal)
		out.Linef("stat option_%s 1", strings.ReplaceAll(shape.option, "+", "_"))
		out.Linef("stat shape_%s_%s 1", shape.signal, strings.ReplaceAll(shape.option, "+", "_"))
		out.Linef("stat accepted %d", nAcc)
		out.Linef("stat completion_deletes_checked %d", len(deleted))
		out.Linef("stat deaths %d", deaths)
		out.Linef("stat block_on_overflow %d", vB(shape.block))
		out.Linef("stat retry %d", vB(shape.retry))
		out.Linef("stat config_validates %d", vB(valid))
		keys := make([]string, 0, len(refusals))
		for k := range refusals {
			keys = append(keys, k)
		}
		sort.Strings(keys)
		for _, k := range keys {
			out.Linef("stat refused_%s %d", k, refusals[k])
			out.Linef("stat refused_%s_%s %d", k, shape.signal, refusals[k])
		}
		out.Linef("end")
		out.Flush()
	}
}
