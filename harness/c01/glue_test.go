//go:build verif

package internal

import (
	"context"
	"encoding/binary"
	"errors"
	"fmt"
	"sort"
	"strconv"
	"strings"
	"sync"
	"testing"
	"testing/synctest"
	"time"

	"go.opentelemetry.io/collector/component"
	"go.opentelemetry.io/collector/component/componenttest"
	"go.opentelemetry.io/collector/config/configretry"
	"go.opentelemetry.io/collector/consumer/consumererror"
	"go.opentelemetry.io/collector/exporter"
	"go.opentelemetry.io/collector/exporter/exporterhelper/internal/queuebatch"
	"go.opentelemetry.io/collector/exporter/exporterhelper/internal/request"
	"go.opentelemetry.io/collector/exporter/exporterhelper/internal/requesttest"
	"go.opentelemetry.io/collector/exporter/exporterhelper/internal/sender"
	"go.opentelemetry.io/collector/extension/xextension/storage"
	"go.opentelemetry.io/collector/pipeline"
)

// TestVerifC01Glue: EXACT differential of the glue machine (Model/C01Glue.lean: asyncQueue consumer goroutines,
// disabledBatcher.Consume, the export closure of NewQueueSender, retrySender.Send, on top of the persistent queue machine)
// against the real code: NewQueueSender -> QueueBatch -> obsQueue -> asyncQueue -> persistentQueue over the real retrySender,
// under go1.26 synctest.  The export function blocks until the harness lets it return (ok / permanent / retryable); after
// every op the run is driven to quiescence (synctest.Wait) and compared with the model: result, the requests currently
// inside the export function, the requests parked in the retry back-off, and the decoded storage map.  Deaths: the storage
// client of the incarnation goes dead right after the k-th call of the op (that call is performed; nothing the incarnation
// does afterwards happens).  Consumers are anonymous in the observation (which goroutine got which item is the scheduler's
// business); the driver lets the lowest idle goroutine read.
//
// The property oracle (Lean trace checker, proved sound: C01_check_sound / C01_check_handed_sound) runs on what the
// IMPLEMENTATION showed: accept = Send returned nil, hand = the export function was invoked, final = the harness let an
// export return a final outcome, dump = ids stored and reachable from ri/wi/di.

type vGCall struct {
	id  int
	res chan error
}

type vGClient struct {
	mu    *sync.Mutex
	st    map[string][]byte
	dead  bool
	armed int
}

func (c *vGClient) Get(ctx context.Context, key string) ([]byte, error) {
	op := storage.GetOperation(key)
	err := c.Batch(ctx, op)
	return op.Value, err
}
func (c *vGClient) Set(ctx context.Context, key string, v []byte) error {
	return c.Batch(ctx, storage.SetOperation(key, v))
}
func (c *vGClient) Delete(ctx context.Context, key string) error {
	return c.Batch(ctx, storage.DeleteOperation(key))
}
func (c *vGClient) Close(context.Context) error { return nil }
func (c *vGClient) Batch(_ context.Context, ops ...*storage.Operation) error {
	c.mu.Lock()
	defer c.mu.Unlock()
	if c.dead {
		return errors.New("verif: incarnation is dead")
	}
	for _, op := range ops {
		switch op.Type {
		case storage.Get:
			if v, ok := c.st[op.Key]; ok {
				op.Value = append([]byte{}, v...)
			} else {
				op.Value = nil
			}
		case storage.Set:
			c.st[op.Key] = append([]byte{}, op.Value...)
		case storage.Delete:
			delete(c.st, op.Key)
		}
	}
	if c.armed > 0 {
		c.armed--
		if c.armed == 0 {
			c.dead = true
		}
	}
	return nil
}

type vGExt struct {
	component.StartFunc
	component.ShutdownFunc
	cl *vGClient
}

func (e *vGExt) GetClient(context.Context, component.Kind, component.ID, string) (storage.Client, error) {
	return e.cl, nil
}

type vGHost struct{ ext map[component.ID]component.Component }

func (h *vGHost) GetExtensions() map[component.ID]component.Component { return h.ext }

// a request is identified by its item count
type vGEnc struct{}

func (vGEnc) Marshal(r request.Request) ([]byte, error) {
	return binary.LittleEndian.AppendUint64(nil, uint64(r.ItemsCount())), nil
}

func (vGEnc) Unmarshal(b []byte) (request.Request, error) {
	if len(b) < 8 {
		return nil, errors.New("verif: short item")
	}
	return &requesttest.FakeRequest{Items: int(binary.LittleEndian.Uint64(b))}, nil
}

type vGInc struct {
	rs       *retrySender
	qs       sender.Sender[request.Request]
	cl       *vGClient
	dead     bool          // guarded by run.mu
	blocked  []*vGCall     // exports of this incarnation waiting for the harness, guarded by run.mu
	waiting  map[int]bool  // ids whose last attempt failed retryably (parked in the retry back-off), guarded by run.mu
	stopping bool          // QueueSender.Shutdown was called
	shutDone chan struct{} // closed when it returned
}

type vGRun struct {
	out      *vOut
	mu       sync.Mutex // guards the storage map, the incarnations' bookkeeping and `events`
	st       map[string][]byte
	capacity int
	consumers int
	retry    bool
	inc      *vGInc   // the live incarnation (nil = none)
	all      []*vGInc // every incarnation of the case, for the clean-up
	events   []string // `tr ev hand …` lines produced by export invocations since the last flush
	nextID   int
	stats    map[string]int
	deaths   int
}

var vGStorageID = component.MustNewID("verifstorage")

func (r *vGRun) start() *vGInc {
	inc := &vGInc{cl: &vGClient{mu: &r.mu, st: r.st}, waiting: map[int]bool{}}
	export := sender.NewSender(func(_ context.Context, req request.Request) error {
		id := req.ItemsCount()
		r.mu.Lock()
		if inc.dead || inc.cl.dead {
			r.mu.Unlock()
			return errors.New("verif: the process is gone")
		}
		call := &vGCall{id: id, res: make(chan error)}
		inc.blocked = append(inc.blocked, call)
		delete(inc.waiting, id)
		r.events = append(r.events, fmt.Sprintf("tr ev hand %d", id))
		r.mu.Unlock()
		return <-call.res
	})
	set := exporter.Settings{ID: component.MustNewID("verif"), TelemetrySettings: componenttest.NewNopTelemetrySettings()}
	var next sender.Sender[request.Request] = export
	if r.retry {
		rcfg := configretry.NewDefaultBackOffConfig()
		rcfg.InitialInterval = time.Hour
		rcfg.MaxInterval = time.Hour
		rcfg.Multiplier = 1
		rcfg.RandomizationFactor = 0
		rcfg.MaxElapsedTime = 0
		inc.rs = newRetrySender(rcfg, set, export)
		next = inc.rs
	}
	sid := vGStorageID
	qcfg := queuebatch.Config{Enabled: true, Sizer: request.SizerTypeRequests, QueueSize: int64(r.capacity), NumConsumers: r.consumers, StorageID: &sid}
	qs, err := NewQueueSender(queuebatch.Settings[request.Request]{
		Signal: pipeline.SignalTraces, ID: set.ID, Telemetry: set.TelemetrySettings, Encoding: vGEnc{},
		Sizers: map[request.SizerType]request.Sizer[request.Request]{
			request.SizerTypeRequests: request.RequestsSizer[request.Request]{},
			request.SizerTypeItems:    request.NewItemsSizer(),
		},
	}, qcfg, BatcherConfig{}, "", next)
	if err != nil {
		panic(err)
	}
	inc.qs = qs
	r.all = append(r.all, inc)
	return inc
}

func (r *vGRun) dump() (string, []int) {
	r.mu.Lock()
	defer r.mu.Unlock()
	g := func(k string) string {
		b, ok := r.st[k]
		if !ok {
			return "-"
		}
		if len(b) != 8 {
			return "bad"
		}
		return strconv.FormatUint(binary.LittleEndian.Uint64(b), 10)
	}
	u := func(k string) uint64 {
		if b, ok := r.st[k]; ok && len(b) == 8 {
			return binary.LittleEndian.Uint64(b)
		}
		return 0
	}
	var dis []uint64
	di := "-"
	if b, ok := r.st["di"]; ok && len(b) >= 4 {
		n := int(binary.LittleEndian.Uint32(b))
		if len(b) == 4+8*n && n > 0 {
			parts := make([]string, n)
			for i := 0; i < n; i++ {
				v := binary.LittleEndian.Uint64(b[4+8*i:])
				dis = append(dis, v)
				parts[i] = strconv.FormatUint(v, 10)
			}
			di = strings.Join(parts, ",")
		} else if n > 0 {
			di = "bad"
		}
	}
	var keys []uint64
	for k := range r.st {
		if k == "ri" || k == "wi" || k == "si" || k == "di" {
			continue
		}
		if n, err := strconv.ParseUint(k, 10, 64); err == nil {
			keys = append(keys, n)
		}
	}
	sort.Slice(keys, func(i, j int) bool { return keys[i] < keys[j] })
	items := "-"
	var reach []int
	_, hasWI := r.st["wi"]
	ri, wi := u("ri"), u("wi")
	if !hasWI {
		ri, wi = 0, 0
	}
	if len(keys) > 0 {
		parts := make([]string, len(keys))
		for i, k := range keys {
			b := r.st[strconv.FormatUint(k, 10)]
			id := -1
			if len(b) == 8 {
				id = int(binary.LittleEndian.Uint64(b))
			}
			parts[i] = fmt.Sprintf("%d:%d", k, id)
			in := k >= ri && k < wi
			for _, d := range dis {
				in = in || d == k
			}
			if in {
				reach = append(reach, id)
			}
		}
		items = strings.Join(parts, ";")
	}
	sort.Ints(reach)
	return fmt.Sprintf("ri=%s wi=%s si=%s di=%s items=%s", g("ri"), g("wi"), g("si"), di, items), reach
}

func vGInts(xs []int) string {
	if len(xs) == 0 {
		return "-"
	}
	p := make([]string, len(xs))
	for i, x := range xs {
		p[i] = strconv.Itoa(x)
	}
	return strings.Join(p, ",")
}

// obs: quiescence, then the observation of the op
func (r *vGRun) obs(res string) {
	synctest.Wait()
	if r.inc != nil {
		r.mu.Lock()
		died := r.inc.cl.dead
		r.mu.Unlock()
		if died {
			// the incarnation died inside the op: whatever it did afterwards did not happen
			r.kill()
			r.deaths++
			r.stats["death_inside_op"]++
			res = "died"
		}
	}
	r.mu.Lock()
	for _, e := range r.events {
		r.out.Linef("%s", e)
	}
	r.events = nil
	var infl, wait []int
	if r.inc != nil {
		for _, c := range r.inc.blocked {
			infl = append(infl, c.id)
		}
		for id := range r.inc.waiting {
			wait = append(wait, id)
		}
	}
	r.mu.Unlock()
	sort.Ints(infl)
	sort.Ints(wait)
	d, reach := r.dump()
	r.out.Linef("obs r=%s inflight=%s waiting=%s %s", res, vGInts(infl), vGInts(wait), d)
	r.out.Linef("tr ev dump %s", strings.TrimPrefix(vGInts(reach), "-"))
	if len(infl) > 1 {
		r.stats["obs_with_two_exports_in_flight"]++
	}
}

// kill: the live incarnation is gone (its goroutines stay parked until the clean-up)
func (r *vGRun) kill() {
	r.mu.Lock()
	r.inc.dead = true
	r.inc.cl.dead = true
	r.events = nil
	r.mu.Unlock()
	r.inc = nil
}

func (r *vGRun) arm(die int) {
	r.mu.Lock()
	r.inc.cl.armed = die
	r.mu.Unlock()
}

func (r *vGRun) disarm() {
	if r.inc != nil {
		r.mu.Lock()
		r.inc.cl.armed = 0
		r.mu.Unlock()
	}
}

func (r *vGRun) opStart(die int) {
	r.out.Linef("op start die=%d", die)
	r.stats["op_start"]++
	inc := r.start()
	r.inc = inc
	r.arm(die)
	host := &vGHost{ext: map[component.ID]component.Component{vGStorageID: &vGExt{cl: inc.cl}}}
	_ = inc.qs.Start(context.Background(), host)
	r.obs("ok")
	r.disarm()
}

func (r *vGRun) opOffer(die int) {
	id := r.nextID
	r.nextID++
	r.out.Linef("op offer id=%d die=%d", id, die)
	r.stats["op_offer"]++
	if r.inc.stopping {
		r.stats["offer_after_queue_shutdown"]++
	}
	r.arm(die)
	err := r.inc.qs.Send(context.Background(), &requesttest.FakeRequest{Items: id})
	switch {
	case err == nil:
		r.out.Linef("tr ev accept %d", id)
		r.obs("ok")
	case errors.Is(err, queuebatch.ErrQueueIsFull):
		r.obs("full")
	default:
		r.obs("err")
	}
	r.disarm()
}

func (r *vGRun) opRet(pos int, res string, die int) {
	r.mu.Lock()
	call := r.inc.blocked[pos]
	r.inc.blocked = append(r.inc.blocked[:pos:pos], r.inc.blocked[pos+1:]...)
	final := res != "retry" || !r.retry
	if !final && r.inc.rs != nil {
		r.inc.waiting[call.id] = true // parked in the back-off (with the retry sender shut down the attempt is interrupted at once)
	}
	r.mu.Unlock()
	r.out.Linef("op ret id=%d res=%s die=%d", call.id, res, die)
	r.stats["op_ret_"+res]++
	if final {
		r.out.Linef("tr ev final %d", call.id)
	}
	r.arm(die)
	switch res {
	case "ok":
		call.res <- nil
	case "perm":
		call.res <- consumererror.NewPermanent(errors.New("rejected"))
	default:
		call.res <- errors.New("try again")
	}
	r.obs("ok")
	r.disarm()
}

func (r *vGRun) opTimer() {
	r.out.Linef("op timer")
	r.stats["op_timer"]++
	time.Sleep(time.Hour + time.Second)
	r.obs("ok")
}

func (r *vGRun) opRsShutdown() {
	r.out.Linef("op rsshutdown")
	r.stats["op_rsshutdown"]++
	r.mu.Lock()
	r.stats["backoffs_interrupted_by_shutdown"] += len(r.inc.waiting)
	r.inc.waiting = map[int]bool{}
	r.mu.Unlock()
	_ = r.inc.rs.Shutdown(context.Background())
	r.inc.rs = nil
	r.obs("ok")
}

func (r *vGRun) opQShutdown() {
	r.out.Linef("op qshutdown")
	r.stats["op_qshutdown"]++
	inc := r.inc
	inc.stopping = true
	inc.shutDone = make(chan struct{})
	go func() {
		_ = inc.qs.Shutdown(context.Background())
		close(inc.shutDone)
	}()
	r.obs("ok")
}

func (r *vGRun) opCrash() {
	r.out.Linef("op crash")
	r.stats["op_crash"]++
	r.kill()
	r.obs("ok")
}

// cleanup: let every goroutine of every incarnation of the case return
func (r *vGRun) cleanup() {
	for _, inc := range r.all {
		r.mu.Lock()
		inc.dead = true
		blocked := inc.blocked
		inc.blocked = nil
		r.mu.Unlock()
		for _, c := range blocked {
			c.res <- errors.New("verif: clean-up")
		}
		if inc.rs != nil {
			_ = inc.rs.Shutdown(context.Background())
		}
		if inc.shutDone == nil {
			_ = inc.qs.Shutdown(context.Background())
		} else {
			<-inc.shutDone
		}
	}
	synctest.Wait()
}

func vGCase(out *vOut, c int) {
	rnd := vRand(c)
	r := &vGRun{out: out, st: map[string][]byte{}, capacity: 1 + rnd.IntN(4), consumers: 1 + rnd.IntN(2), retry: rnd.IntN(3) != 0, nextID: 1, stats: map[string]int{}}
	out.Linef("case %d cap=%d consumers=%d retry=%d", c, r.capacity, r.consumers, vB(r.retry))
	pDie := []int{0, 10, 25}[rnd.IntN(3)]
	die := func(max int) int {
		if rnd.IntN(100) < pDie {
			return 1 + rnd.IntN(max)
		}
		return 0
	}
	ndi := func() int {
		r.mu.Lock()
		defer r.mu.Unlock()
		if b := r.st["di"]; len(b) >= 4 {
			return int(binary.LittleEndian.Uint32(b))
		}
		return 0
	}
	length := 4 + rnd.IntN(30)
	for i := 0; i < length; i++ {
		if r.inc == nil {
			n := ndi()
			r.opStart(die(4 + n + n/2 + r.consumers))
			continue
		}
		inc := r.inc
		r.mu.Lock()
		nblocked, nwaiting := len(inc.blocked), len(inc.waiting)
		r.mu.Unlock()
		type cand struct {
			w int
			f func()
		}
		var cs []cand
		cs = append(cs, cand{5, func() { r.opOffer(die(2)) }})
		if nblocked > 0 {
			cs = append(cs, cand{6, func() {
				r.opRet(rnd.IntN(nblocked), []string{"ok", "ok", "perm", "retry", "retry"}[rnd.IntN(5)], die(3))
			}})
		}
		if nwaiting > 0 {
			cs = append(cs, cand{2, r.opTimer})
		}
		if inc.rs != nil {
			cs = append(cs, cand{1, r.opRsShutdown})
		}
		if !inc.stopping {
			cs = append(cs, cand{1, r.opQShutdown})
		}
		cs = append(cs, cand{1, r.opCrash})
		tot := 0
		for _, c := range cs {
			tot += c.w
		}
		x := rnd.IntN(tot)
		for _, c := range cs {
			if x < c.w {
				c.f()
				break
			}
			x -= c.w
		}
	}
	// the end of every case: the process exits, a healthy incarnation drains
	if r.inc != nil {
		r.opCrash()
	}
	r.opStart(0)
	for k := 0; k < 200 && r.inc != nil; k++ {
		r.mu.Lock()
		n := len(r.inc.blocked)
		r.mu.Unlock()
		if n == 0 {
			break
		}
		r.opRet(0, "ok", 0)
	}
	if r.deaths > 0 {
		out.Linef("nt")
	}
	r.cleanup()
	keys := make([]string, 0, len(r.stats))
	for k := range r.stats {
		keys = append(keys, k)
	}
	sort.Strings(keys)
	for _, k := range keys {
		out.Linef("stat %s %d", k, r.stats[k])
	}
	out.Linef("stat glue_cases 1")
	out.Linef("end")
	out.Flush()
}

func TestVerifC01Glue(t *testing.T) {
	out := vOpen(t)
	defer out.Close()
	out.Linef("model c01-glue 1")
	n := vN(300)
	for _, c := range vCases(n) {
		synctest.Test(t, func(t *testing.T) { vGCase(out, c) })
	}
}
