//go:build verif

package queuebatch

import (
	"context"
	"encoding/binary"
	"errors"
	"fmt"
	"math/rand/v2"
	"os"
	"runtime"
	"sort"
	"strconv"
	"strings"
	"sync"
	"sync/atomic"
	"testing"
	"time"

	"go.opentelemetry.io/collector/component"
	"go.opentelemetry.io/collector/component/componenttest"
	"go.opentelemetry.io/collector/consumer/consumererror"
	"go.opentelemetry.io/collector/exporter/exporterhelper/internal/experr"
	"go.opentelemetry.io/collector/exporter/exporterhelper/internal/request"
	"go.opentelemetry.io/collector/extension/xextension/storage"
	"go.opentelemetry.io/collector/pipeline"
	"go.uber.org/multierr"
)

// ---- a map-backed storage client that can kill the incarnation right after its k-th call ----

type vC01Death struct{}

type vC01Client struct {
	st    map[string][]byte // shared by all incarnations of a case = the durable state
	dead  bool
	armed int // die right after this many more calls (0 = not armed)
	calls int
	opCalls int          // calls made by the current operation
	failAt  map[int]bool // the calls of the current operation (1-based) that return an error without effect
	lastFailed map[int]bool // the calls of the last completed operation that returned the injected error
	gate        chan struct{} // calls made with a gated context (offers running in their own goroutine) wait here
	gateWaiting int
}

type vC01GateKey struct{}

var errVC01Injected = errors.New("verif: injected storage error")

func (c *vC01Client) Get(ctx context.Context, key string) ([]byte, error) {
	op := storage.GetOperation(key)
	err := c.Batch(ctx, op)
	return op.Value, err
}

func (c *vC01Client) Set(ctx context.Context, key string, v []byte) error {
	return c.Batch(ctx, storage.SetOperation(key, v))
}

func (c *vC01Client) Delete(ctx context.Context, key string) error {
	return c.Batch(ctx, storage.DeleteOperation(key))
}

func (c *vC01Client) Close(context.Context) error { return nil }

// failAtSeen: the k-th call of the last operation was made and returned the injected error
func (c *vC01Client) failAtSeen(k int) bool { return c.lastFailed[k] }

// Batch is atomic: the process dies only before or after it, never inside.
func (c *vC01Client) Batch(ctx context.Context, ops ...*storage.Operation) error {
	if ctx.Value(vC01GateKey{}) != nil && c.gate != nil {
		c.gateWaiting++
		<-c.gate
		c.gateWaiting--
	}
	if c.dead {
		return errors.New("verif: incarnation is dead")
	}
	c.calls++
	c.opCalls++
	fail := c.failAt[c.opCalls]
	for _, op := range ops {
		if fail {
			break // a failing call has no effect on the stored data
		}
		switch op.Type {
		case storage.Get:
			if v, ok := c.st[op.Key]; ok {
				op.Value = append([]byte{}, v...)
			} else {
				op.Value = nil
			}
		case storage.Set:
			c.st[op.Key] = append([]byte{}, op.Value...)
		case storage.Delete:
			delete(c.st, op.Key)
		}
	}
	if c.armed > 0 {
		c.armed--
		if c.armed == 0 {
			c.dead = true
			panic(vC01Death{})
		}
	}
	if fail {
		return errVC01Injected
	}
	return nil
}

type vC01Ext struct {
	component.StartFunc
	component.ShutdownFunc
	cl *vC01Client
}

func (e *vC01Ext) GetClient(context.Context, component.Kind, component.ID, string) (storage.Client, error) {
	return e.cl, nil
}

type vC01Host struct{ ext map[component.ID]component.Component }

func (h *vC01Host) GetExtensions() map[component.ID]component.Component { return h.ext }

// request value = id*16 + size (size 0..15 = number of items)
type vC01Enc struct{}

func (vC01Enc) Marshal(v uint64) ([]byte, error) {
	return binary.LittleEndian.AppendUint64([]byte{}, v), nil
}

func (vC01Enc) Unmarshal(b []byte) (uint64, error) {
	if len(b) < 8 {
		return 0, errors.New("verif: short item")
	}
	return binary.LittleEndian.Uint64(b), nil
}

// vC01EncUndec: Marshal as usual, Unmarshal fails for the flagged ids (an Encoding that does not round-trip)
type vC01EncUndec struct{ bad map[uint64]bool }

func (vC01EncUndec) Marshal(v uint64) ([]byte, error) { return vC01Enc{}.Marshal(v) }

func (e vC01EncUndec) Unmarshal(b []byte) (uint64, error) {
	v, err := vC01Enc{}.Unmarshal(b)
	if err == nil && e.bad[v/16] {
		return 0, errors.New("verif: cannot decode this item")
	}
	return v, err
}

type vC01ItemsSizer struct{}

func (vC01ItemsSizer) Sizeof(v uint64) int64 { return int64(v % 16) }

// ---- error trees handed to Done.OnDone ----

// vC01OtherErr: an error tree without any shutdown error (permanent = contains a consumererror permanent error)
func vC01OtherErr(rnd *rand.Rand, depth int, permanent bool) (error, string) {
	leaf := func() (error, string) {
		if permanent {
			return consumererror.NewPermanent(errors.New("rejected")), "P"
		}
		return errors.New("failed"), "E"
	}
	if depth >= 3 {
		return leaf()
	}
	switch rnd.IntN(5) {
	case 0:
		e, s := vC01OtherErr(rnd, depth+1, permanent)
		return fmt.Errorf("wrapped: %w", e), "W(" + s + ")"
	case 1:
		a, sa := vC01OtherErr(rnd, depth+1, permanent)
		b, sb := vC01OtherErr(rnd, depth+1, false)
		return errors.Join(a, b), "J(" + sa + "," + sb + ")"
	case 2:
		a, sa := vC01OtherErr(rnd, depth+1, false)
		b, sb := vC01OtherErr(rnd, depth+1, permanent)
		return multierr.Append(a, b), "M(" + sa + "," + sb + ")"
	}
	return leaf()
}

// vC01ShutErr: an error tree that contains a shutdown error somewhere
func vC01ShutErr(rnd *rand.Rand, depth int) (error, string) {
	if depth >= 3 {
		return experr.NewShutdownErr(errors.New("interrupted")), "S"
	}
	switch rnd.IntN(7) {
	case 0:
		e, s := vC01ShutErr(rnd, depth+1)
		return fmt.Errorf("wrapped: %w", e), "W(" + s + ")"
	case 1:
		a, sa := vC01OtherErr(rnd, depth+1, rnd.IntN(2) == 0)
		b, sb := vC01ShutErr(rnd, depth+1)
		return errors.Join(a, b), "J(" + sa + "," + sb + ")"
	case 2:
		a, sa := vC01ShutErr(rnd, depth+1)
		b, sb := vC01OtherErr(rnd, depth+1, false)
		return errors.Join(a, b), "J(" + sa + "," + sb + ")"
	case 3:
		// what refCountDone produces for a request exported in several parts that are all interrupted
		a, sa := vC01ShutErr(rnd, depth+1)
		b, sb := vC01ShutErr(rnd, depth+1)
		return multierr.Append(a, b), "M(" + sa + "," + sb + ")"
	case 4:
		a, sa := vC01OtherErr(rnd, depth+1, rnd.IntN(2) == 0)
		b, sb := vC01ShutErr(rnd, depth+1)
		return multierr.Append(a, b), "M(" + sa + "," + sb + ")"
	}
	e, s := vC01OtherErr(rnd, depth+1, rnd.IntN(3) == 0)
	return experr.NewShutdownErr(e), "S(" + s + ")"
}

// ---- watchdog: a harness must always terminate ----

var vC01Progress atomic.Int64 // bumped by every operation
var vC01LastOp atomic.Value    // string: the op about to be executed

// vC01Watchdog ends the test process when no operation has completed for a while (a changed queue may spin forever
// inside Read / Start, e.g. on indexes decoded from bytes it cannot read back): the hanging case is reported as a
// violation with its case number, then the process exits so the run does not wait for the go test timeout.
func vC01Watchdog(out *vOut, curCase *atomic.Int64) (stop func()) {
	quit, done := make(chan struct{}), make(chan struct{})
	stop = func() { close(quit); <-done }
	go func() {
		defer close(done)
		last, idle := int64(-1), 0
		for {
			select {
			case <-quit:
				return
			case <-time.After(time.Second):
			}
			if p := vC01Progress.Load(); p != last {
				last, idle = p, 0
				continue
			}
			idle++
			if idle >= 45 {
				op, _ := vC01LastOp.Load().(string)
				out.Linef("viol sig=C01/hang/operation-does-not-return case=%d op=%s", curCase.Load(), vHex(op))
				out.Linef("end")
				out.Flush()
				os.Exit(1)
			}
		}
	}()
	return stop
}

// ---- script interpreter ----

type vC01Op struct {
	kind string // start exit offer read done shutdown
	sz   int    // offer: size
	pos  int    // done: position in the outstanding list
	oc   string // done: final perm shut
	die  int    // die right after the die-th storage call of this op (0 = no death)
	errs []int  // the storage calls of this op (1-based) that return an error
}

func vC01Errs(errs []int) string {
	if len(errs) == 0 {
		return "-"
	}
	p := make([]string, len(errs))
	for i, e := range errs {
		p[i] = strconv.Itoa(e)
	}
	return strings.Join(p, ",")
}

type vC01Out struct {
	idx  uint64
	done Done
}

// vC01GateLocker replaces the sync.Locker of the queue's `hasMoreSpace` condition (cond.L is injectable).  A producer that
// returns from cond.Wait — woken by Signal / Broadcast or cancelled — re-locks the queue mutex through it and is parked
// here first, WITHOUT holding the mutex, until the harness releases it: the harness, not the Go scheduler, decides in which
// order the woken producers re-lock (since c2c5f2c26 onDone / Read wake every waiter).
type vC01GateLocker struct {
	mu     *sync.Mutex
	pmu    sync.Mutex
	parked map[uint64]chan struct{} // goroutine id -> closed by the harness to let it re-lock
	open   bool                     // the incarnation is being wound down: nobody is parked any more
}

func (l *vC01GateLocker) Unlock() { l.mu.Unlock() }

func (l *vC01GateLocker) Lock() {
	l.pmu.Lock()
	if l.open {
		l.pmu.Unlock()
	} else {
		ch := make(chan struct{})
		l.parked[vC01GID()] = ch
		l.pmu.Unlock()
		<-ch
	}
	l.mu.Lock()
}

// release lets the parked goroutine gid re-lock the queue; false if it is not parked
func (l *vC01GateLocker) release(gid uint64) bool {
	l.pmu.Lock()
	defer l.pmu.Unlock()
	ch, ok := l.parked[gid]
	if ok {
		delete(l.parked, gid)
		close(ch)
	}
	return ok
}

func (l *vC01GateLocker) isParked(gid uint64) bool {
	l.pmu.Lock()
	defer l.pmu.Unlock()
	_, ok := l.parked[gid]
	return ok
}

func (l *vC01GateLocker) openAll() {
	l.pmu.Lock()
	defer l.pmu.Unlock()
	l.open = true
	for g, ch := range l.parked {
		delete(l.parked, g)
		close(ch)
	}
}

func vC01GID() uint64 {
	var buf [64]byte
	n := runtime.Stack(buf[:], false)
	f := strings.Fields(string(buf[:n])) // "goroutine 123 [running]:"
	if len(f) >= 2 {
		if g, err := strconv.ParseUint(f[1], 10, 64); err == nil {
			return g
		}
	}
	return 0
}

// an Offer that had to wait for space (runs in its own goroutine)
type vC01Pending struct {
	gid    uint64 // goroutine that runs the blocked Offer
	id     uint64
	cancel context.CancelFunc
	done   chan struct{}
	err    error
	died   bool
}

type vC01Run struct {
	out      *vOut
	capacity int
	reqSized bool
	st       map[string][]byte
	pq       *persistentQueue[uint64]
	cl       *vC01Client
	outst    []vC01Out
	nextID   uint64
	deaths   int
	deathsInStart int
	nops     int
	stats    map[string]int
	lastDiedInStart bool
	corrupted bool
	poisoned  bool // Batch(get ri, get wi) of a start-up failed: both indexes restart from 0 over the stored data
	errInjected bool
	block       bool // blockOnOverflow
	pending     []*vC01Pending // offers blocked in hasMoreSpace.Wait, oldest first
	locker      *vC01GateLocker // block harness: installed as hasMoreSpace.L
	settle      func()         // block harness: run until every goroutine is durably blocked (synctest.Wait)
	acceptedIDs map[uint64]bool
	handedIDs   map[uint64]bool
	trnd        *rand.Rand // shapes of the error trees handed to OnDone
	undec       map[uint64]bool // mode undec: ids whose stored bytes the Encoding refuses to decode (nil = every value decodes)
	undecSeen   map[uint64]bool // … of which were observed to leave storage without any hand-off
	finalIDs    map[uint64]bool
	outIDs      map[uint64]uint64 // index of an outstanding hand-off -> id
	rawDump     bool       // also print the raw storage map (hex) after every op: decoded by the Lean byte-level model
	shutDoneWhileOthersInFlight bool // this incarnation: a hand-off completed with a shutdown error while another was in flight
}

func vC01NewRun(out *vOut, c int, capacity int, reqSized bool, mode string) *vC01Run {
	s := "items"
	if reqSized {
		s = "req"
	}
	out.Linef("case %d cap=%d sizer=%s mode=%s block=%d", c, capacity, s, mode, vB(mode == "block"))
	return &vC01Run{out: out, capacity: capacity, reqSized: reqSized, st: map[string][]byte{}, nextID: 1, stats: map[string]int{}, acceptedIDs: map[uint64]bool{}, handedIDs: map[uint64]bool{}, trnd: vRand(c ^ 0x2f6b3a1d), rawDump: c%16 == 3, finalIDs: map[uint64]bool{}, outIDs: map[uint64]uint64{}}
}

func vC01Opt64(b []byte, ok bool) string {
	if !ok {
		return "-"
	}
	if len(b) != 8 {
		return "bad" + vHexB(b)
	}
	return strconv.FormatUint(binary.LittleEndian.Uint64(b), 10)
}

func (r *vC01Run) dump() string {
	g := func(k string) string { b, ok := r.st[k]; return vC01Opt64(b, ok) }
	di := "-"
	if b, ok := r.st["di"]; ok && len(b) > 0 {
		if len(b) < 4 || len(b) != 4+8*int(binary.LittleEndian.Uint32(b)) {
			di = "bad" + vHexB(b)
		} else if n := int(binary.LittleEndian.Uint32(b)); n > 0 {
			parts := make([]string, n)
			for i := 0; i < n; i++ {
				parts[i] = strconv.FormatUint(binary.LittleEndian.Uint64(b[4+8*i:]), 10)
			}
			di = strings.Join(parts, ",")
		}
	}
	var keys []uint64
	other := ""
	for k := range r.st {
		if k == "ri" || k == "wi" || k == "si" || k == "di" {
			continue
		}
		n, err := strconv.ParseUint(k, 10, 64)
		if err != nil {
			other += " otherkey=" + vHex(k)
			continue
		}
		keys = append(keys, n)
	}
	sort.Slice(keys, func(i, j int) bool { return keys[i] < keys[j] })
	items := "-"
	if len(keys) > 0 {
		parts := make([]string, len(keys))
		for i, k := range keys {
			b := r.st[strconv.FormatUint(k, 10)]
			if len(b) != 8 {
				parts[i] = fmt.Sprintf("%d:bad%s", k, vHexB(b))
				continue
			}
			v := binary.LittleEndian.Uint64(b)
			parts[i] = fmt.Sprintf("%d:%d/%d", k, v/16, v%16)
		}
		items = strings.Join(parts, ";")
	}
	return fmt.Sprintf("ri=%s wi=%s si=%s di=%s items=%s%s", g("ri"), g("wi"), g("si"), di, items, other)
}

func (r *vC01Run) obs(res string) {
	r.stats["res_"+strings.SplitN(res, ":", 2)[0]]++
	size := "-"
	if r.pq != nil {
		// the field, not Size(): in the block harness a woken offer may be parked inside a storage call holding the mutex
		size = strconv.FormatInt(r.pq.queueSize, 10)
	}
	r.out.Linef("obs r=%s size=%s %s", res, size, r.dump())
	if r.undec != nil {
		r.undecCheck()
	}
	if r.rawDump {
		// the bytes themselves: the driver decodes them with readIndexes / readDi / readItem of Model/C01Bytes.lean
		// (the subjects of C01_bytes_refine) and compares with the model's abstract store
		keys := make([]string, 0, len(r.st))
		for k := range r.st {
			keys = append(keys, k)
		}
		sort.Strings(keys)
		var sb strings.Builder
		for _, k := range keys {
			sb.WriteString(" " + vHex(k) + "=" + vHexB(r.st[k]))
		}
		r.out.Linef("tr raw%s", sb.String())
		r.stats["raw_dumps_decoded_by_lean"]++
	}
	if os.Getenv("VERIF_REPLAY_CASE") != "" {
		r.out.Flush() // a replayed case may hang: keep what was seen
	}
}

// guarded runs f on the live incarnation; reports whether the incarnation died inside f.
func (r *vC01Run) guarded(op vC01Op, f func()) (died bool) {
	die := op.die
	r.cl.armed = die
	r.cl.opCalls = 0
	r.cl.failAt = map[int]bool{}
	for _, e := range op.errs {
		r.cl.failAt[e] = true
	}
	if len(op.errs) > 0 {
		r.stats["op_with_injected_errors_"+op.kind]++
		r.errInjected = true
	}
	defer func() {
		if p := recover(); p != nil {
			if _, ok := p.(vC01Death); ok {
				died = true
				return
			}
			r.out.Linef("viol sig=C01/panic/%s", vHex(fmt.Sprint(p)))
			died = true
		}
	}()
	f()
	r.cl.armed = 0
	for e := range r.cl.failAt {
		if e <= r.cl.opCalls {
			r.stats["storage_error_returned_in_"+op.kind]++
		}
	}
	r.cl.lastFailed = map[int]bool{}
	for e := range r.cl.failAt {
		if e <= r.cl.opCalls {
			r.cl.lastFailed[e] = true
		}
	}
	r.cl.failAt = nil
	return false
}

func (r *vC01Run) encoding() Encoding[uint64] {
	if r.undec != nil {
		return vC01EncUndec{bad: r.undec}
	}
	return vC01Enc{}
}

// undecCheck (mode undec, no model): the live Go-side oracle.  Every accepted request that decodes must stay stored until a
// hand-off of it was completed finally; a request that does not decode is allowed to vanish, and that is COUNTED.
func (r *vC01Run) undecCheck() {
	stored := map[uint64]bool{}
	for k, b := range r.st {
		if _, err := strconv.ParseUint(k, 10, 64); err == nil && len(b) == 8 {
			stored[binary.LittleEndian.Uint64(b)/16] = true
		}
	}
	for id := range r.acceptedIDs {
		if r.finalIDs[id] || stored[id] {
			continue
		}
		if r.undec[id] {
			if !r.undecSeen[id] {
				r.undecSeen[id] = true
				r.out.Linef("tr undecodable-request-left-storage id=%d handed=%d", id, vB(r.handedIDs[id]))
				if !r.handedIDs[id] {
					r.stats["undecodable_deleted_without_handoff"]++
				}
			}
			continue
		}
		r.out.Linef("viol sig=C01/undec/decodable-request-lost id=%d handed=%d", id, vB(r.handedIDs[id]))
	}
}

// undecWouldBlock: every item still queued is undecodable: Read would give them all up and then wait forever
func (r *vC01Run) undecWouldBlock() bool {
	if r.undec == nil {
		return false
	}
	for i := r.pq.readIndex; i != r.pq.writeIndex; i++ {
		if b, ok := r.st[strconv.FormatUint(i, 10)]; ok && len(b) == 8 && !r.undec[binary.LittleEndian.Uint64(b)/16] {
			return false
		}
	}
	return true
}

func (r *vC01Run) kill() {
	if r.cl != nil {
		r.cl.dead = true // every later call of this incarnation fails
	}
	if r.settle != nil && r.locker != nil {
		// producers woken by the dying operation are parked at the locker gate (not holding the mutex): let them all
		// re-lock; they run into the dead storage client or wait again
		r.settle()
		r.locker.openAll()
		r.settle()
	}
	for _, p := range r.pending {
		p.cancel() // the process is gone: let the blocked goroutines of the old incarnation return
	}
	if r.settle != nil && len(r.pending) > 0 {
		r.settle()
	}
	r.locker = nil
	r.pending = nil
	r.pq, r.cl, r.outst = nil, nil, nil
	r.shutDoneWhileOthersInFlight = false
}

func (r *vC01Run) alive() bool { return r.pq != nil }

// do executes one op on the implementation and writes its op/obs lines.
func (r *vC01Run) do(op vC01Op) {
	vC01LastOp.Store(fmt.Sprintf("%s die=%d errs=%s", op.kind, op.die, vC01Errs(op.errs)))
	defer vC01Progress.Add(1)
	r.nops++
	r.stats["op_"+op.kind]++
	if op.die > 0 {
		r.stats["planned_death_"+op.kind]++
	}
	siBefore := string(r.st["si"])
	deathsBefore := r.deaths
	defer func() {
		if string(r.st["si"]) != siBefore {
			r.stats["size_backup_written"]++
		}
		if r.deaths > deathsBefore {
			r.stats["death_in_"+op.kind]++
			if op.kind == "start" && r.lastDiedInStart {
				r.stats["death_in_recovery_after_death_in_recovery"]++
			}
		}
		r.lastDiedInStart = r.deaths > deathsBefore && op.kind == "start"
	}()
	ctx := context.Background()
	switch op.kind {
	case "corrupt":
		// extension outside the property: a stored item vanishes (exercises the model's missing-item branches)
		// never the newest item (key wi-1): Read on a queue whose remaining items are all missing would block forever
		var wi uint64
		if b := r.st["wi"]; len(b) == 8 {
			wi = binary.LittleEndian.Uint64(b)
		}
		var keys []string
		for k := range r.st {
			if n, err := strconv.ParseUint(k, 10, 64); err == nil && n+1 < wi {
				keys = append(keys, k)
			}
		}
		if len(keys) == 0 {
			r.nops--
			r.stats["op_corrupt"]--
			return
		}
		sort.Strings(keys)
		k := keys[op.pos%len(keys)]
		delete(r.st, k)
		r.out.Linef("op corrupt key=%s", k)
		r.corrupted = true
		r.obs("ok")
	case "start":
		if b := r.st["di"]; len(b) >= 4 {
			r.stats["dispatched_items_at_start"] += int(binary.LittleEndian.Uint32(b))
		}
		r.out.Linef("op start die=%d errs=%s", op.die, vC01Errs(op.errs))
		for _, e := range op.errs {
			if e == 1 {
				r.poisoned = true // also when this start dies later: recovery may already have written wi from 0
			}
		}
		var sizer request.Sizer[uint64] = request.RequestsSizer[uint64]{}
		if !r.reqSized {
			sizer = vC01ItemsSizer{}
		}
		r.cl = &vC01Client{st: r.st}
		r.pq = newPersistentQueue[uint64](persistentQueueSettings[uint64]{
			sizer:     sizer,
			capacity:  int64(r.capacity),
			blockOnOverflow: r.block,
			signal:    pipeline.SignalTraces,
			storageID: component.ID{},
			encoding:  r.encoding(),
			id:        component.MustNewID("verif"),
			telemetry: componenttest.NewNopTelemetrySettings(),
		}).(*persistentQueue[uint64])
		host := &vC01Host{ext: map[component.ID]component.Component{{}: &vC01Ext{cl: r.cl}}}
		var err error
		if r.guarded(op, func() { err = r.pq.Start(ctx, host) }) {
			r.deaths++
			r.deathsInStart++
			r.kill()
			r.obs("died")
			return
		}
		if err != nil {
			r.obs("err")
			return
		}
		if r.cl.failAtSeen(1) {
			r.stats["ext_err_giveup_index_read_failed_at_start"]++
		} else if len(r.cl.lastFailed) > 0 {
			r.stats["ext_err_start_with_failed_recovery_call"]++
		}
		r.obs("ok")
	case "exit":
		r.out.Linef("op exit")
		r.kill()
		r.obs("ok")
	case "offer":
		id := r.nextID
		r.nextID++
		if r.undec != nil && r.trnd.IntN(4) == 0 {
			r.undec[id] = true
			r.stats["offers_of_undecodable_requests"]++
		}
		r.out.Linef("op offer id=%d sz=%d die=%d errs=%s", id, op.sz, op.die, vC01Errs(op.errs))
		if r.pq.stopped {
			r.stats["offer_after_shutdown"]++
		}
		var err error
		var sizeOf int64 = 1
		if !r.reqSized {
			sizeOf = int64(op.sz)
		}
		if r.block && r.pq.queueSize+sizeOf > int64(r.capacity) && sizeOf <= int64(r.capacity) {
			// the offer will wait for space: run it in its own goroutine with a gated context
			cctx, cancel := context.WithCancel(ctx)
			p := &vC01Pending{id: id, cancel: cancel, done: make(chan struct{})}
			pq := r.pq
			go func() {
				p.gid = vC01GID()
				defer close(p.done)
				defer func() {
					if x := recover(); x != nil {
						if _, ok := x.(vC01Death); !ok {
							panic(x)
						}
						p.died = true
					}
				}()
				p.err = pq.Offer(cctx, id*16+uint64(op.sz))
			}()
			r.settle()
			select {
			case <-p.done:
				r.obs("err") // did not block after all: the model says `blocked`, this will show as a difference
			default:
				r.pending = append(r.pending, p)
				r.stats["offer_blocked"]++
				r.obs("blocked")
			}
			return
		}
		if r.guarded(op, func() { err = r.pq.Offer(ctx, id*16+uint64(op.sz)) }) {
			r.deaths++
			r.kill()
			r.obs("died")
			return
		}
		switch {
		case err == nil:
			r.acceptedIDs[id] = true
			r.obs("ok")
		case errors.Is(err, ErrQueueIsFull):
			r.obs("full")
		case errors.Is(err, errSizeTooLarge):
			r.obs("toolarge")
		default:
			r.obs("err")
		}
	case "read":
		r.out.Linef("op read die=%d errs=%s", op.die, vC01Errs(op.errs))
		if !r.pq.stopped && (r.pq.readIndex == r.pq.writeIndex || r.undecWouldBlock()) {
			r.obs("empty") // Read would block; not called
			return
		}
		var v uint64
		var done Done
		var ok bool
		if r.guarded(op, func() { _, v, done, ok = r.pq.Read(ctx) }) {
			r.deaths++
			r.kill()
			r.obs("died")
			return
		}
		if !ok {
			r.obs("stopped")
			return
		}
		if r.cl.failAtSeen(1) {
			r.stats["ext_err_giveup_dequeue_batch_failed"]++
		}
		idx := done.(*indexDone).index
		r.handedIDs[v/16] = true
		r.outIDs[idx] = v / 16
		r.outst = append(r.outst, vC01Out{idx: idx, done: done})
		r.obs(fmt.Sprintf("item:%d:%d/%d", idx, v/16, v%16))
	case "done":
		o := r.outst[op.pos]
		r.outst = append(r.outst[:op.pos:op.pos], r.outst[op.pos+1:]...)
		r.out.Linef("op done i=%d oc=%s die=%d errs=%s", o.idx, op.oc, op.die, vC01Errs(op.errs))
		if op.oc == "shut" && len(r.outst) > 0 {
			r.shutDoneWhileOthersInFlight = true
		} else if op.oc != "shut" && r.shutDoneWhileOthersInFlight {
			r.stats["final_done_after_shutdown_done_same_incarnation"]++
		}
		if len(r.outst) > 0 {
			r.stats["done_with_others_in_flight"]++
		}
		// the outcome reaches onDone as an arbitrary wrap / join tree (batch parts are combined with multierr.Append,
		// senders wrap with %w): the classification must be "contains a shutdown error anywhere in the tree"
		var err error
		shape := "nil"
		switch op.oc {
		case "perm":
			err, shape = vC01OtherErr(r.trnd, 0, true)
		case "shut":
			err, shape = vC01ShutErr(r.trnd, 0)
		default:
			if r.trnd.IntN(2) == 0 {
				err, shape = vC01OtherErr(r.trnd, 0, false)
			}
		}
		// every third completion arrives the way the batcher delivers it for a request exported in several flushes: the REAL
		// refCountDone (default_batcher.go) collects one error per flush and reports their combination to the queue's Done
		// when the last flush has returned.  oc=shut iff SOME part is shutdown-classified (any position, the others nil /
		// plain / permanent): the combination must keep that classification whatever the order of the parts.
		var partErrs []error
		if r.trnd.IntN(3) == 0 {
			nparts := 2 + r.trnd.IntN(2)
			partErrs = make([]error, nparts)
			shapes := make([]string, nparts)
			special := r.trnd.IntN(nparts) // the part that carries the outcome-defining error
			for p := 0; p < nparts; p++ {
				shapes[p] = "nil"
				switch {
				case p == special:
					partErrs[p], shapes[p] = err, shape
				case op.oc == "shut":
					switch r.trnd.IntN(4) {
					case 0:
						partErrs[p], shapes[p] = vC01OtherErr(r.trnd, 1, true)
					case 1:
						partErrs[p], shapes[p] = vC01OtherErr(r.trnd, 1, false)
					case 2:
						partErrs[p], shapes[p] = vC01ShutErr(r.trnd, 1)
					}
				default:
					if r.trnd.IntN(2) == 0 {
						partErrs[p], shapes[p] = vC01OtherErr(r.trnd, 1, r.trnd.IntN(3) == 0)
					}
				}
			}
			var agg error
			for _, e := range partErrs {
				agg = multierr.Append(agg, e)
			}
			err = agg
			r.out.Linef("tr errparts %s", strings.Join(shapes, " "))
			r.stats["done_through_refcountdone"]++
			r.stats[fmt.Sprintf("done_through_refcountdone_special_part_%d_of_%d_%s", special+1, nparts, op.oc)]++
		} else {
			r.out.Linef("tr errtree %s", shape)
		}
		r.stats["done_errtree_depth_"+strconv.Itoa(strings.Count(shape, "("))]++
		if op.oc != "shut" {
			if id, ok := r.outIDs[o.idx]; ok {
				r.finalIDs[id] = true
			}
		}
		if experr.IsShutdownErr(err) != (op.oc == "shut") {
			r.out.Linef("viol sig=C01/classify/shutdown-error-in-tree-misclassified shape=%s want=%d", shape, vB(op.oc == "shut"))
		}
		if r.guarded(op, func() {
			if partErrs == nil {
				o.done.OnDone(err)
				return
			}
			rcd := newRefCountDone(o.done, int64(len(partErrs)))
			callsBefore, sizeBefore := r.cl.calls, r.pq.queueSize
			for k, e := range partErrs {
				rcd.OnDone(e)
				// the queue's Done is called once, when the LAST flush has returned: before that nothing may reach the queue
				if k < len(partErrs)-1 && (r.cl.calls != callsBefore || r.pq.queueSize != sizeBefore) {
					r.out.Linef("viol sig=C01/refcount/queue-done-called-before-the-last-flush-returned flush=%d of=%d", k+1, len(partErrs))
				}
			}
		}) {
			r.deaths++
			r.kill()
			r.obs("died")
			return
		}
		r.obs("ok")
	case "shutdown":
		r.out.Linef("op shutdown die=%d errs=%s", op.die, vC01Errs(op.errs))
		var err error
		if r.guarded(op, func() { err = r.pq.Shutdown(ctx) }) {
			r.deaths++
			r.kill()
			r.obs("died")
			return
		}
		if err != nil {
			r.obs("err")
			return
		}
		r.obs("ok")
	}
}

// finish: process exit, clean restart, complete drain with final outcomes.
func (r *vC01Run) finish() {
	if r.alive() {
		r.do(vC01Op{kind: "exit"})
	}
	if r.poisoned {
		// the stored indexes are inconsistent now (ri may exceed wi); the case ends here
		r.out.Linef("stat cases_poisoned_by_index_read_error 1")
	} else {
		r.do(vC01Op{kind: "start"})
		for i := 0; i < 400 && r.alive() && r.pq.readIndex != r.pq.writeIndex; i++ {
			r.do(vC01Op{kind: "read"})
			if len(r.outst) > 0 {
				r.do(vC01Op{kind: "done", pos: 0, oc: "final"})
			}
		}
	}
	if r.deaths > 0 {
		r.out.Linef("nt")
	}
	r.out.Linef("stat ops %d", r.nops)
	r.out.Linef("stat deaths %d", r.deaths)
	r.out.Linef("stat deaths_in_recovery %d", r.deathsInStart)
	if r.deaths >= 2 {
		r.out.Linef("stat cases_with_2plus_deaths 1")
	}
	if r.undec != nil {
		for id := range r.acceptedIDs {
			if !r.handedIDs[id] && !r.undec[id] {
				r.out.Linef("viol sig=C01/undec/decodable-request-never-handed id=%d", id)
			}
		}
		r.out.Linef("stat undec_cases 1")
	}
	if r.errInjected {
		// extension beyond the property (storage errors other than death): no oracle, counters only
		r.out.Linef("stat ext_err_cases 1")
		lost := 0
		for id := range r.acceptedIDs {
			if !r.handedIDs[id] {
				lost++
			}
		}
		if lost > 0 && !r.poisoned {
			r.out.Linef("stat ext_err_cases_with_request_given_up 1")
			r.out.Linef("stat ext_err_requests_given_up %d", lost)
		}
	}
	if r.corrupted {
		r.out.Linef("stat cases_with_corruption 1")
	}
	keys := make([]string, 0, len(r.stats))
	for k := range r.stats {
		keys = append(keys, k)
	}
	sort.Strings(keys)
	for _, k := range keys {
		r.out.Linef("stat %s %d", k, r.stats[k])
	}
	r.out.Linef("end")
	r.out.Flush()
}

// enabled ops in the current state, for the random generator
func (r *vC01Run) randomOp(rnd *rand.Rand, pDie int, pErr int) vC01Op {
	op := r.randomOp0(rnd, pDie)
	if pErr == 0 || r.corrupted || rnd.IntN(100) >= pErr {
		return op
	}
	subset := func(lo, hi int) []int {
		var e []int
		for k := lo; k <= hi; k++ {
			if rnd.IntN(2) == 0 {
				e = append(e, k)
			}
		}
		if len(e) == 0 {
			e = []int{lo + rnd.IntN(hi-lo+1)}
		}
		return e
	}
	switch op.kind {
	case "offer":
		op.errs = subset(1, 2)
	case "done":
		op.errs = subset(1, 4)
	case "shutdown":
		op.errs = []int{1}
	case "start":
		ndi := 0
		if b := r.st["di"]; len(b) >= 4 {
			ndi = int(binary.LittleEndian.Uint32(b))
		}
		op.errs = subset(2, 4+ndi+ndi/2)
		if rnd.IntN(25) == 0 {
			op.errs = append([]int{1}, op.errs...)
		}
	case "read":
		// every failing call can make Read give up one more item; Read blocks forever once nothing is left
		e := subset(1, 5)
		if len(e) > 3 {
			e = e[:3]
		}
		if !r.pq.stopped && r.pq.writeIndex-r.pq.readIndex > uint64(len(e)) {
			op.errs = e
		}
	}
	return op
}

func (r *vC01Run) randomOp0(rnd *rand.Rand, pDie int) vC01Op {
	die := func(max int) int {
		if rnd.IntN(100) < pDie {
			return 1 + rnd.IntN(max)
		}
		return 0
	}
	if !r.alive() {
		ndi := 0
		if b := r.st["di"]; len(b) >= 4 {
			ndi = int(binary.LittleEndian.Uint32(b))
		}
		return vC01Op{kind: "start", die: die(4 + ndi + ndi/2)}
	}
	type cand struct {
		w  int
		op vC01Op
	}
	var cs []cand
	if !r.pq.stopped {
		cs = append(cs, cand{5, vC01Op{kind: "offer", sz: rnd.IntN(6), die: die(2)}})
		readCalls := 1
		if r.corrupted {
			readCalls = 4 // a missing item costs two calls (dequeue batch, clean-up batch) before the next dequeue batch
		}
		cs = append(cs, cand{4, vC01Op{kind: "read", die: die(readCalls)}})
		cs = append(cs, cand{1, vC01Op{kind: "shutdown", die: die(1)}})
		cs = append(cs, cand{1, vC01Op{kind: "exit"}})
	} else {
		cs = append(cs, cand{1, vC01Op{kind: "read"}})
		cs = append(cs, cand{4, vC01Op{kind: "exit"}})
		// Offer after Shutdown: the queue has no `stopped` check in putInternal; a producer that is still running while the
		// exporter shuts down gets nil and the request is stored for the next start (blocking offers are not generated here:
		// nothing would ever wake them)
		if !r.block {
			cs = append(cs, cand{2, vC01Op{kind: "offer", sz: rnd.IntN(6), die: die(2)}})
		}
	}
	if len(r.outst) > 0 {
		ocs := []string{"final", "final", "perm", "shut"}
		if r.pq.stopped {
			ocs = []string{"final", "shut", "shut", "perm"}
		}
		cs = append(cs, cand{4, vC01Op{kind: "done", pos: rnd.IntN(len(r.outst)), oc: ocs[rnd.IntN(len(ocs))], die: die(2)}})
	}
	tot := 0
	for _, c := range cs {
		tot += c.w
	}
	x := rnd.IntN(tot)
	for _, c := range cs {
		if x < c.w {
			return c.op
		}
		x -= c.w
	}
	return cs[0].op
}

// corpus: the witnesses of DESIGN §C01 and the one found while building (restart before the first read)
func vC01Corpus() []struct {
	capacity int
	reqSized bool
	ops      []vC01Op
} {
	type cs = struct {
		capacity int
		reqSized bool
		ops      []vC01Op
	}
	o := func(kind string) vC01Op { return vC01Op{kind: kind} }
	return []cs{
		// 0: restart at capacity: the shutdown-interrupted request is dropped by the capacity check of recovery
		{1, true, []vC01Op{o("start"), {kind: "offer", sz: 1}, o("read"), {kind: "offer", sz: 1}, {kind: "done", oc: "shut"}, o("shutdown"), o("exit")}},
		// 1,2: death inside recovery after the clean-up delete / between two re-enqueues
		{4, true, []vC01Op{o("start"), {kind: "offer", sz: 1}, {kind: "offer", sz: 1}, o("read"), o("read"), o("exit"), {kind: "start", die: 4}}},
		{4, true, []vC01Op{o("start"), {kind: "offer", sz: 1}, {kind: "offer", sz: 1}, o("read"), o("read"), o("exit"), {kind: "start", die: 5}}},
		// 3: restart before the first read ever: the read index was never written
		{4, true, []vC01Op{o("start"), {kind: "offer", sz: 1}, {kind: "offer", sz: 1}, o("exit"), o("start"), {kind: "offer", sz: 1}}},
		// 4: items sizer, death inside recovery, twice
		{9, false, []vC01Op{o("start"), {kind: "offer", sz: 3}, {kind: "offer", sz: 2}, {kind: "offer", sz: 1}, o("read"), o("read"), o("read"), {kind: "done", pos: 1, oc: "final"}, o("exit"), {kind: "start", die: 5}, {kind: "start", die: 4}}},
		// 6 (below): two hand-offs in flight, the first completes with a shutdown error, the second finally afterwards in
		// the same incarnation (di is rewritten from memory and must still list the first), then exit + restart
		// 5: death right after the put batch / after the read batch / after the delete batch
		{3, true, []vC01Op{o("start"), {kind: "offer", sz: 1, die: 1}, o("start"), {kind: "read", die: 1}, o("start"), o("read"), {kind: "done", oc: "final", die: 1}}},
		{5, true, []vC01Op{o("start"), {kind: "offer", sz: 1}, {kind: "offer", sz: 1}, {kind: "offer", sz: 1}, o("read"), o("read"), o("read"),
			{kind: "done", pos: 0, oc: "shut"}, {kind: "done", pos: 1, oc: "final"}, {kind: "done", pos: 0, oc: "shut"}, o("shutdown"), o("exit")}},
		// 7: offers only, death right after the first / second enqueue batch, before any read ever (read index never written)
		{5, false, []vC01Op{o("start"), {kind: "offer", sz: 2}, {kind: "offer", sz: 3, die: 1}, o("start"), {kind: "offer", sz: 1}, o("exit")}},
		// ---- storage errors other than death (extension of the property; the losses below are recorded findings) ----
		// 8: the dequeue batch fails: getNextItem "always iterates" and itemDispatchingFinish deletes the item
		{4, true, []vC01Op{o("start"), {kind: "offer", sz: 1}, {kind: "offer", sz: 1}, {kind: "read", errs: []int{1}}}},
		// 9: the dequeue batch and both fallbacks fail: the item stays stored but the next dequeue moves ri past it
		{4, true, []vC01Op{o("start"), {kind: "offer", sz: 1}, {kind: "offer", sz: 1}, {kind: "offer", sz: 1}, {kind: "read", errs: []int{1, 2, 3}}, o("read")}},
		// 10: Get di fails at start-up: recovery is skipped, the next dequeue overwrites di
		{4, true, []vC01Op{o("start"), {kind: "offer", sz: 1}, {kind: "offer", sz: 1}, o("read"), o("exit"), {kind: "start", errs: []int{2}}, o("read")}},
		// 11: the move batch of the first dispatched item fails, the second succeeds and rewrites di without the first
		{4, true, []vC01Op{o("start"), {kind: "offer", sz: 1}, {kind: "offer", sz: 1}, o("read"), o("read"), o("exit"), {kind: "start", errs: []int{4}}}},
		// 12: Batch(get ri, get wi) fails at start-up: both indexes restart from 0 and the next offer overwrites key 0
		{4, true, []vC01Op{o("start"), {kind: "offer", sz: 1}, {kind: "offer", sz: 1}, o("exit"), {kind: "start", errs: []int{1}}, {kind: "offer", sz: 1}}},
		// 13: every error combination of the completion batches (harmless: the request is finalised)
		{6, false, []vC01Op{o("start"), {kind: "offer", sz: 1}, {kind: "offer", sz: 2}, {kind: "offer", sz: 1}, {kind: "offer", sz: 1}, o("read"), o("read"), o("read"), o("read"),
			{kind: "done", pos: 1, oc: "final", errs: []int{1}}, {kind: "done", pos: 0, oc: "perm", errs: []int{1, 2}}, {kind: "done", pos: 0, oc: "final", errs: []int{1, 3}},
			{kind: "offer", sz: 1, errs: []int{1}}, {kind: "shutdown", errs: []int{1}}, {kind: "done", pos: 0, oc: "final", errs: []int{1, 2, 3}}, o("exit")}},
	}
}

func TestVerifC01PQ(t *testing.T) {
	out := vOpen(t)
	defer out.Close()
	out.Linef("model c01-pq 1")
	corpus := vC01Corpus()
	n := vN(2000)
	var curCase atomic.Int64
	defer vC01Watchdog(out, &curCase)()
	for _, c := range vCases(n) {
		curCase.Store(int64(c))
		vC01Progress.Add(1)
		if c < len(corpus) {
			k := corpus[c]
			r := vC01NewRun(out, c, k.capacity, k.reqSized, "corpus")
			for _, op := range k.ops {
				if op.kind == "start" && r.alive() || op.kind != "start" && !r.alive() {
					continue
				}
				if op.kind == "done" && op.pos >= len(r.outst) {
					continue
				}
				r.do(op)
			}
			r.finish()
			continue
		}
		rnd := vRand(c)
		capacity := 1 + rnd.IntN(8)
		reqSized := rnd.IntN(2) == 0
		if !reqSized {
			capacity = 1 + rnd.IntN(24)
		}
		if rnd.IntN(8) == 0 {
			capacity = 30 + rnd.IntN(30) // long runs that cross the %10 size back-ups
		}
		pDie := []int{0, 10, 25, 50}[rnd.IntN(4)]
		length := 1 + rnd.IntN(40)
		if capacity >= 30 {
			length = 40 + rnd.IntN(60)
		}
		mode := "rand"
		pErr := 0
		if c%20 == 19 {
			mode = "corrupt"
		} else if c%4 == 1 {
			// storage errors other than death: the k-th call of an op returns an error and has no effect
			mode = "err"
			pErr = []int{10, 30}[rnd.IntN(2)]
		}
		r := vC01NewRun(out, c, capacity, reqSized, mode)
		for i := 0; i < length; i++ {
			if mode == "corrupt" && rnd.IntN(12) == 0 {
				r.do(vC01Op{kind: "corrupt", pos: rnd.IntN(1000)})
				continue
			}
			if r.poisoned {
				// both indexes restarted from 0 over old data: a later Read may run into keys it deleted itself and then
				// wait forever; the random script stops here (corpus case 12 continues with an offer)
				break
			}
			r.do(r.randomOp(rnd, pDie, pErr))
		}
		r.finish()
	}
	if vThorough() && len(vCases(n)) > 1 {
		vC01Exhaustive(out)
	}
}

// vC01Exhaustive: every script of at most L ops (incl. the initial start) over the enabled alphabet (offer, read, done-final /
// done-shutdown of the oldest hand-off, shutdown, exit, start), every death position of every op, at most
// 2 deaths per script, on the implementation; each leaf is finished with restart + drain.
func vC01Exhaustive(out *vOut) {
	const L = 9
	c := 10000000
	type step = vC01Op
	var rec func(prefix []step, deaths int)
	alphabet := func(r *vC01Run, deaths int) []step {
		var a []step
		dies := func(max int) []int {
			d := []int{0}
			if deaths < 2 {
				for k := 1; k <= max; k++ {
					d = append(d, k)
				}
			}
			return d
		}
		if !r.alive() {
			for _, d := range dies(5) {
				a = append(a, step{kind: "start", die: d})
			}
			return a
		}
		if !r.pq.stopped {
			for _, d := range dies(1) {
				a = append(a, step{kind: "offer", sz: 1, die: d})
			}
			if r.pq.readIndex != r.pq.writeIndex {
				for _, d := range dies(1) {
					a = append(a, step{kind: "read", die: d})
				}
			}
			a = append(a, step{kind: "shutdown"})
		}
		a = append(a, step{kind: "exit"})
		if len(r.outst) > 0 {
			for _, d := range dies(1) {
				a = append(a, step{kind: "done", pos: 0, oc: "final", die: d})
			}
			a = append(a, step{kind: "done", pos: 0, oc: "shut"})
		}
		return a
	}
	replay := func(prefix []step) *vC01Run {
		r := vC01NewRun(out, c, 2, true, "exh")
		for _, op := range prefix {
			r.do(op)
		}
		return r
	}
	rec = func(prefix []step, deaths int) {
		// run the prefix (emitting it as a case of its own: every prefix is a script)
		r := replay(prefix)
		c++
		var next []step
		if len(prefix) < L {
			next = alphabet(r, deaths)
		}
		r.finish()
		for _, op := range next {
			d := deaths
			if op.die > 0 {
				d++
			}
			rec(append(append([]step{}, prefix...), op), d)
		}
	}
	rec([]step{{kind: "start"}}, 0)
	out.Linef("case 99999999 cap=1 sizer=req mode=stat")
	out.Linef("stat exhaustive_cases %d", c-10000000)
	out.Linef("end")
}

// TestVerifC01Undecodable: an Encoding whose Unmarshal fails on some stored requests (no model: the code deletes such
// items in getNextItem and in recovery without any hand-off, which the lawful-Encoding model cannot follow).  Monitor with a
// live Go-side oracle: every DECODABLE accepted request stays stored until finalised and is handed over; every
// undecodable one that leaves storage without a hand-off is reported (tr line) and counted.
func TestVerifC01Undecodable(t *testing.T) {
	out := vOpen(t)
	defer out.Close()
	out.Linef("model c01-undec 1")
	n := vN(300)
	var curCase atomic.Int64
	defer vC01Watchdog(out, &curCase)()
	for _, c := range vCases(n) {
		curCase.Store(int64(c))
		vC01Progress.Add(1)
		rnd := vRand(c)
		capacity := 2 + rnd.IntN(8)
		reqSized := rnd.IntN(2) == 0
		if !reqSized {
			capacity = 4 + rnd.IntN(20)
		}
		pDie := []int{0, 10, 25}[rnd.IntN(3)]
		r := vC01NewRun(out, c, capacity, reqSized, "undec")
		r.rawDump = false
		r.undec = map[uint64]bool{}
		r.undecSeen = map[uint64]bool{}
		length := 5 + rnd.IntN(40)
		for i := 0; i < length; i++ {
			r.do(r.randomOp0(rnd, pDie))
		}
		r.finish()
	}
}
