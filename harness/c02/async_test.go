//go:build verif

package queuebatch

import (
	"context"
	"errors"
	"fmt"
	"os"
	"runtime"
	"sort"
	"strings"
	"sync"
	"sync/atomic"
	"testing"
	"testing/synctest"
	"time"

	"go.opentelemetry.io/collector/component"
	"go.opentelemetry.io/collector/component/componenttest"
	"go.opentelemetry.io/collector/exporter/exporterhelper/internal/hosttest"
	"go.opentelemetry.io/collector/exporter/exporterhelper/internal/request"
	"go.opentelemetry.io/collector/exporter/exporterhelper/internal/storagetest"
	"go.opentelemetry.io/collector/exporter/exportertest"
	"go.opentelemetry.io/collector/pipeline"
)

// request value = id*1000 + size
type vASizer struct{}

func (vASizer) Sizeof(v uint64) int64 { return int64(v % 1000) }

func vAErr(err error) string {
	switch {
	case err == nil:
		return "nil"
	case errors.Is(err, ErrQueueIsFull):
		return "full"
	case errors.Is(err, context.Canceled):
		return "ctx"
	case errors.Is(err, errSizeTooLarge):
		return "big"
	case errors.Is(err, errInvalidSize):
		return "inv"
	case errors.Is(err, errQueueIsStopped):
		return "stopped"
	case err.Error() == "verif-e1":
		return "e1"
	}
	return "other:" + vHex(err.Error())
}

type vAProd struct {
	cancel context.CancelFunc
	ret    bool
	res    string
	canc   bool
}

// TestVerifC02Async: the real asyncQueue (the consumer pool: `numConsumers` goroutines looping Read -> consumeFunc) in front of
// the real memory / persistent queue, in one synctest bubble. The script offers, ends contexts, lets a consumeFunc return
// (completing the request itself, or - batcher-like - having handed the Done to somebody who completes it later) and shuts the
// queue down at the end. After every label, at quiescence: Size(), the queued ids, the set of requests that are inside
// consumeFunc, every Offer result, whether Shutdown has returned - diffed against the pool LTS of Model/C02A.lean.
func TestVerifC02Async(t *testing.T) {
	out := vOpen(t)
	defer out.Close()
	out.Linef("model c02-async 1")
	defer runtime.GOMAXPROCS(runtime.GOMAXPROCS(1))
	n := vN(1000)
	var progress atomic.Int64
	stop := make(chan struct{})
	go func() {
		last, lastT := int64(-1), time.Now()
		for {
			select {
			case <-stop:
				return
			case <-time.After(2 * time.Second):
			}
			if p := progress.Load(); p != last {
				last, lastT = p, time.Now()
			} else if time.Since(lastT) > 120*time.Second {
				out.Linef("viol sig=C02/harness/hang async case-counter=%d", p)
				out.Linef("end")
				out.Flush()
				os.Exit(3)
			}
		}
	}()
	synctest.Test(t, func(t *testing.T) {
		for _, c := range vCases(n) {
			vAsyncCase(out, c)
			out.Flush()
			progress.Add(1)
		}
	})
	close(stop)
}

func vAsyncCase(out *vOut, c int) {
	rnd := vRand(c)
	capacity := int64(1 + rnd.IntN(8))
	block := rnd.IntN(2) == 0
	persistent := rnd.IntN(3) == 0
	wfr := !persistent && rnd.IntN(4) == 0
	nCons := 1 + rnd.IntN(4)
	deferred := rnd.IntN(3) == 0 // consumeFunc returns at once, the Done is completed later by the script (a batcher does that)
	out.Linef("case %d cap=%d block=%d wfr=%d persistent=%d consumers=%d deferred=%d", c, capacity, vB(block), vB(wfr), vB(persistent), nCons, vB(deferred))

	var mu sync.Mutex
	busy := map[int]bool{}
	gates := map[int]chan error{}
	dones := map[int]Done{}
	gate := func(id int) chan error {
		g := gates[id]
		if g == nil {
			g = make(chan error, 1)
			gates[id] = g
		}
		return g
	}
	consume := func(_ context.Context, req uint64, done Done) {
		id := int(req / 1000)
		mu.Lock()
		if deferred {
			dones[id] = done
			mu.Unlock()
			return
		}
		busy[id] = true
		g := gate(id)
		mu.Unlock()
		err := <-g
		mu.Lock()
		delete(busy, id)
		mu.Unlock()
		done.OnDone(err)
	}
	var inner readableQueue[uint64]
	var qids func() []int
	if persistent {
		pq := newPersistentQueue[uint64](persistentQueueSettings[uint64]{
			sizer: vASizer{}, capacity: capacity, blockOnOverflow: block, signal: pipeline.SignalTraces, storageID: component.ID{},
			encoding: uint64Encoding{}, id: component.NewID(exportertest.NopType), telemetry: componenttest.NewNopTelemetrySettings(),
		}).(*persistentQueue[uint64])
		inner = pq
		qids = nil
	} else {
		mq := newMemoryQueue[uint64](memoryQueueSettings[uint64]{sizer: request.Sizer[uint64](vASizer{}), capacity: capacity, waitForResult: wfr, blockOnOverflow: block}).(*memoryQueue[uint64])
		inner = mq
		qids = func() []int {
			var ids []int
			mq.mu.Lock()
			for n := mq.items.head; n != nil; n = n.next {
				ids = append(ids, int(n.data/1000))
			}
			mq.mu.Unlock()
			return ids
		}
	}
	ext := storagetest.NewMockStorageExtension(nil)
	host := hosttest.NewHost(map[component.ID]component.Component{{}: ext})
	aq := newAsyncQueue(inner, nCons, consume)
	if err := aq.Start(context.Background(), host); err != nil {
		panic(err)
	}
	if persistent {
		pq := inner.(*persistentQueue[uint64])
		reader, err := ext.GetClient(context.Background(), component.KindExporter, component.NewID(exportertest.NopType), pipeline.SignalTraces.String())
		if err != nil {
			panic(err)
		}
		qids = func() []int {
			var ids []int
			pq.mu.Lock()
			for i := pq.readIndex; i < pq.writeIndex; i++ {
				b, err := reader.Get(context.Background(), getItemKey(i))
				if err != nil || len(b) < 8 {
					ids = append(ids, -1)
					continue
				}
				v, _ := uint64Encoding{}.Unmarshal(b)
				ids = append(ids, int(v/1000))
			}
			pq.mu.Unlock()
			return ids
		}
	}
	prods := map[int]*vAProd{}
	var shutRet atomic.Bool
	shut := false
	nBlocked := 0
	snapshot := func() (queued int, busyN int) {
		synctest.Wait()
		var q []string
		for _, id := range qids() {
			q = append(q, fmt.Sprint(id))
		}
		mu.Lock()
		var b []int
		for id := range busy {
			b = append(b, id)
		}
		sort.Ints(b)
		var pk []int
		for p := range prods {
			pk = append(pk, p)
		}
		sort.Ints(pk)
		var ps []string
		nBlocked = 0
		for _, p := range pk {
			st := "B"
			if prods[p].ret {
				st = prods[p].res
			} else {
				nBlocked++
			}
			ps = append(ps, fmt.Sprintf("%d:%s", p, st))
		}
		mu.Unlock()
		var bs []string
		for _, id := range b {
			bs = append(bs, fmt.Sprint(id))
		}
		j := func(xs []string) string {
			if len(xs) == 0 {
				return "-"
			}
			return strings.Join(xs, ",")
		}
		out.Linef("obs size=%d Q=%s busy=%s P=%s shut=%d", aq.Size(), j(q), j(bs), j(ps), vB(shutRet.Load()))
		return len(q), len(b)
	}
	nops := 6 + rnd.IntN(24)
	nextP := 0
	sawWaiting := false
	for i := 0; i < nops; i++ {
		mu.Lock()
		var busyIDs, doneIDs, blocked []int
		for id := range busy {
			busyIDs = append(busyIDs, id)
		}
		for id := range dones {
			doneIDs = append(doneIDs, id)
		}
		for p, x := range prods {
			if !x.ret && !x.canc {
				blocked = append(blocked, p)
			}
		}
		mu.Unlock()
		sort.Ints(busyIDs)
		sort.Ints(doneIDs)
		sort.Ints(blocked)
		r := rnd.IntN(100)
		switch {
		case r < 50 && !shut && nBlocked == 0:
			// (at most one producer blocked at a time: several producers woken by one Broadcast re-lock in scheduler order,
			// which the queue harness explores; here the subject is the consumer side)
			el := int64(rnd.IntN(4))
			if persistent && el == 0 && rnd.IntN(2) == 0 {
				el = 1
			}
			if rnd.IntN(12) == 0 {
				el = capacity + 1
			}
			p := nextP
			nextP++
			ctx, cancel := context.WithCancel(context.Background())
			x := &vAProd{cancel: cancel}
			mu.Lock()
			prods[p] = x
			mu.Unlock()
			out.Linef("op offer %d %d", p, el)
			go func() {
				err := aq.Offer(ctx, uint64(p)*1000+uint64(el))
				mu.Lock()
				x.ret, x.res = true, vAErr(err)
				mu.Unlock()
			}()
		case r < 80 && len(busyIDs) > 0:
			id := busyIDs[rnd.IntN(len(busyIDs))]
			e := 0
			var err error
			if rnd.IntN(4) == 0 {
				e, err = 1, errors.New("verif-e1")
			}
			out.Linef("op release %d %d", id, e)
			mu.Lock()
			g := gate(id)
			mu.Unlock()
			g <- err
		case r < 80 && len(doneIDs) > 0:
			id := doneIDs[rnd.IntN(len(doneIDs))]
			e := 0
			var err error
			if rnd.IntN(4) == 0 {
				e, err = 1, errors.New("verif-e1")
			}
			out.Linef("op done %d %d", id, e)
			mu.Lock()
			d := dones[id]
			delete(dones, id)
			mu.Unlock()
			d.OnDone(err)
		case r < 88 && len(blocked) > 0:
			p := blocked[rnd.IntN(len(blocked))]
			out.Linef("op cancel %d", p)
			prods[p].canc = true
			prods[p].cancel()
		case r >= 97 && !shut && i > nops/2 && !(persistent && len(blocked) > 0):
			shut = true
			out.Linef("op shutdown")
			go func() {
				_ = aq.Shutdown(context.Background())
				shutRet.Store(true)
			}()
		default:
			continue
		}
		q, b := snapshot()
		if q > 0 && b > 0 {
			sawWaiting = true
		}
	}
	// let everything out: contexts end, every consumeFunc returns, every Done is completed, the queue is shut down
	for _, x := range prods {
		x.cancel()
	}
	synctest.Wait()
	for k := 0; k < 2000; k++ {
		synctest.Wait()
		mu.Lock()
		var busyIDs, doneIDs []int
		for id := range busy {
			busyIDs = append(busyIDs, id)
		}
		for id := range dones {
			doneIDs = append(doneIDs, id)
		}
		mu.Unlock()
		if len(busyIDs) == 0 && len(doneIDs) == 0 {
			break
		}
		sort.Ints(busyIDs)
		sort.Ints(doneIDs)
		if len(busyIDs) > 0 {
			mu.Lock()
			g := gate(busyIDs[0])
			mu.Unlock()
			g <- nil
			continue
		}
		mu.Lock()
		d := dones[doneIDs[0]]
		delete(dones, doneIDs[0])
		mu.Unlock()
		d.OnDone(nil)
	}
	if !shut {
		_ = aq.Shutdown(context.Background())
	}
	synctest.Wait()
	if sawWaiting || nCons > 1 {
		out.Linef("nt")
	}
	out.Linef("stat async_%s_consumers_%d 1", map[bool]string{false: "memory", true: "persistent"}[persistent], nCons)
	out.Linef("stat async_deferred %d", vB(deferred))
	out.Linef("stat async_requests_waited_behind_busy_consumers %d", vB(sawWaiting))
	out.Linef("end")
}
