//go:build verif

package queuebatch

import (
	"bytes"
	"context"
	"fmt"
	"os"
	"runtime"
	"sort"
	"strconv"
	"strings"
	"sync"
	"testing"
	"testing/synctest"
	"time"
)

// vGoid returns the id of the calling goroutine (test harness only).
func vGoid() int64 {
	var buf [64]byte
	n := runtime.Stack(buf[:], false)
	f := bytes.Fields(buf[:n])
	id, _ := strconv.ParseInt(string(f[1]), 10, 64)
	return id
}

// vLocker is the scheduler-controlled sync.Locker handed to newCond: Lock parks the caller on a channel
// (durably blocked under synctest) until the harness grants the lock to that thread.
type vLocker struct {
	mu      sync.Mutex
	owner   int
	pending map[int]chan struct{}
	tidOf   map[int64]int
}

func newVLocker() *vLocker {
	return &vLocker{owner: -1, pending: map[int]chan struct{}{}, tidOf: map[int64]int{}}
}

func (l *vLocker) register(tid int) {
	l.mu.Lock()
	l.tidOf[vGoid()] = tid
	l.mu.Unlock()
}

func (l *vLocker) Lock() {
	ch := make(chan struct{})
	l.mu.Lock()
	tid := l.tidOf[vGoid()]
	l.pending[tid] = ch
	l.mu.Unlock()
	<-ch
}

func (l *vLocker) Unlock() {
	l.mu.Lock()
	l.owner = -1
	l.mu.Unlock()
}

// grant hands the lock to thread tid (force: even if somebody holds it; cleanup only).
func (l *vLocker) grant(tid int) {
	l.mu.Lock()
	ch := l.pending[tid]
	delete(l.pending, tid)
	l.owner = tid
	l.mu.Unlock()
	close(ch)
}

type vCondThread struct {
	kind     byte // 'w' waiter, 's' signaller, 'b' broadcaster
	started  bool
	returned bool
	res      string
	ctx      context.Context
	cancel   context.CancelFunc
	canc     bool
}

type vCondOp struct {
	kind string // start grant cancel
	t    int
}

// TestVerifC02Cond drives the real cond through every step of a generated schedule: which goroutine gets
// the lock next and when each context ends is decided by the script; after each label the bubble runs to
// quiescence and the status of every thread is recorded.
func TestVerifC02Cond(t *testing.T) {
	out := vOpen(t)
	defer out.Close()
	out.Linef("model c02-cond 1")
	n := vN(2000)
	// corpus: the design-phase witness (two cancelled waiters queueing for the lock, two signals in a row)
	corpus := [][]vCondOp{
		{{"start", 0}, {"grant", 0}, {"cancel", 0}, {"start", 1}, {"grant", 1}, {"cancel", 1}, {"start", 2}, {"grant", 2}, {"start", 3}, {"grant", 3}},
		{{"start", 0}, {"grant", 0}, {"start", 1}, {"grant", 1}, {"cancel", 0}, {"start", 2}, {"grant", 2}, {"start", 3}, {"grant", 3}, {"cancel", 1}},
	}
	corpusKinds := [][]byte{{'w', 'w', 's', 's'}, {'w', 'w', 's', 's'}}
	for _, c := range vCases(n) {
		wd := time.AfterFunc(120*time.Second, func() {
			out.Linef("viol sig=C02/harness/hang cond case=%d", c)
			out.Linef("end")
			out.Flush()
			os.Exit(3)
		})
		func() {
			// a case that ends with goroutines still blocked (only possible after a reported violation) makes
			// synctest.Test panic; the violation line is already written, keep going
			defer func() {
				if r := recover(); r != nil {
					out.Linef("end")
				}
			}()
			synctest.Test(t, func(t *testing.T) { vCondCase(out, c, corpus, corpusKinds) })
		}()
		wd.Stop()
		out.Flush()
	}
}

func vCondCase(out *vOut, c int, corpus [][]vCondOp, corpusKinds [][]byte) {
	rnd := vRand(c)
	var kinds []byte
	var script []vCondOp
	if c < len(corpus) {
		kinds = corpusKinds[c]
		script = corpus[c]
	} else {
		nW := 1 + rnd.IntN(4)
		nS := 1 + rnd.IntN(4)
		for i := 0; i < nW; i++ {
			kinds = append(kinds, 'w')
		}
		for i := 0; i < nS; i++ {
			if rnd.IntN(8) == 0 {
				kinds = append(kinds, 'b')
			} else {
				kinds = append(kinds, 's')
			}
		}
	}
	out.Linef("case %d", c)
	lk := newVLocker()
	cd := newCond(lk)
	th := make([]*vCondThread, len(kinds))
	for i, k := range kinds {
		ctx, cancel := context.WithCancel(context.Background())
		th[i] = &vCondThread{kind: k, ctx: ctx, cancel: cancel}
	}
	status := func(i int) string {
		x := th[i]
		if !x.started {
			return "I"
		}
		if x.returned {
			return x.res
		}
		if _, ok := lk.pending[i]; ok {
			return "L"
		}
		if lk.owner == i {
			return "H"
		}
		if x.kind == 'w' {
			return "S"
		}
		return "X"
	}
	holder := -1
	snapshot := func() {
		synctest.Wait()
		lk.mu.Lock()
		var sb strings.Builder
		holder = -1
		first := true
		for i := range th {
			if !th[i].started {
				continue
			}
			st := status(i)
			if st == "H" || st == "X" {
				holder = i
			}
			if !first {
				sb.WriteByte(' ')
			}
			first = false
			fmt.Fprintf(&sb, "%d:%s", i, st)
		}
		lk.mu.Unlock()
		s := sb.String()
		if s == "" {
			s = "-"
		}
		out.Linef("obs st %s", s)
	}
	nCancelStarted, nSigWithWaiter := 0, 0
	apply := func(op vCondOp) {
		x := th[op.t]
		switch op.kind {
		case "start":
			out.Linef("op start %d %c", op.t, x.kind)
			x.started = true
			i := op.t
			go func() {
				lk.register(i)
				lk.Lock()
				switch x.kind {
				case 'w':
					err := cd.Wait(x.ctx)
					lk.Unlock()
					lk.mu.Lock()
					if err == nil {
						x.res = "N"
					} else {
						x.res = "C"
					}
					x.returned = true
					lk.mu.Unlock()
				case 's':
					cd.Signal()
					lk.Unlock()
					lk.mu.Lock()
					x.res, x.returned = "D", true
					lk.mu.Unlock()
				case 'b':
					cd.Broadcast()
					lk.Unlock()
					lk.mu.Lock()
					x.res, x.returned = "D", true
					lk.mu.Unlock()
				}
			}()
		case "grant":
			out.Linef("op grant %d", op.t)
			if x.kind != 'w' {
				for i := range th {
					if th[i].kind == 'w' && th[i].started && !th[i].returned {
						nSigWithWaiter++
						break
					}
				}
			}
			lk.grant(op.t)
		case "cancel":
			out.Linef("op cancel %d", op.t)
			if x.started {
				nCancelStarted++
			}
			x.canc = true
			x.cancel()
		}
		snapshot()
	}
	enabled := func() []vCondOp {
		var ops []vCondOp
		lk.mu.Lock()
		for i, x := range th {
			if !x.started {
				ops = append(ops, vCondOp{"start", i})
			}
			if _, ok := lk.pending[i]; ok && lk.owner == -1 {
				// weight grants
				ops = append(ops, vCondOp{"grant", i}, vCondOp{"grant", i})
			}
			if x.kind == 'w' && !x.canc && !x.returned {
				ops = append(ops, vCondOp{"cancel", i})
			}
		}
		lk.mu.Unlock()
		return ops
	}
	bad := false
	if c < len(corpus) {
		for _, op := range script {
			// a corpus step that is not enabled any more is skipped (the repaired code moves differently)
			ok := false
			for _, e := range enabled() {
				if e == op {
					ok = true
				}
			}
			if !ok {
				continue
			}
			apply(op)
			if holder >= 0 {
				bad = true
				break
			}
		}
	} else {
		steps := 4 + rnd.IntN(28)
		for k := 0; k < steps && !bad; k++ {
			ops := enabled()
			if len(ops) == 0 {
				break
			}
			apply(ops[rnd.IntN(len(ops))])
			if holder >= 0 {
				bad = true
			}
		}
	}
	// finishing phase: everything that was started must be able to return
	for k := 0; k < 200 && !bad; k++ {
		var next *vCondOp
		lk.mu.Lock()
		var pend []int
		for i := range lk.pending {
			pend = append(pend, i)
		}
		sort.Ints(pend)
		if len(pend) > 0 && lk.owner == -1 {
			next = &vCondOp{"grant", pend[0]}
		} else {
			for i, x := range th {
				if x.kind == 'w' && x.started && !x.returned && !x.canc {
					next = &vCondOp{"cancel", i}
					break
				}
			}
		}
		lk.mu.Unlock()
		if next == nil {
			break
		}
		apply(*next)
		if holder >= 0 {
			bad = true
		}
	}
	if bad {
		out.Linef("viol sig=C02/cond/blocks-holding-lock thread=%d kind=%c: a cond operation is blocked while it holds the lock; every other thread is queued on the lock (deadlock)", holder, th[holder].kind)
	}
	left := 0
	for _, x := range th {
		if x.started && !x.returned {
			left++
		}
	}
	if !bad && left > 0 {
		out.Linef("viol sig=C02/cond/thread-never-returns left=%d", left)
	}
	// forced cleanup so the bubble can end: break mutual exclusion on purpose
	for k := 0; k < 100 && left > 0; k++ {
		for _, x := range th {
			x.cancel()
		}
		lk.mu.Lock()
		var pend []int
		for i := range lk.pending {
			pend = append(pend, i)
		}
		lk.mu.Unlock()
		for _, i := range pend {
			lk.grant(i)
		}
		synctest.Wait()
		left = 0
		lk.mu.Lock()
		for _, x := range th {
			if x.started && !x.returned {
				left++
			}
		}
		lk.mu.Unlock()
	}
	for _, x := range th {
		x.cancel()
	}
	if nCancelStarted > 0 && nSigWithWaiter > 0 {
		out.Linef("nt")
	}
	out.Linef("stat cond_threads %d", len(th))
	out.Linef("stat cond_cancels_of_started %d", nCancelStarted)
	out.Linef("stat cond_signals_with_waiter %d", nSigWithWaiter)
	out.Linef("end")
}
