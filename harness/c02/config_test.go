//go:build verif

package internal

import (
	"context"
	"encoding/binary"
	"errors"
	"fmt"
	"math"
	"os"
	"sort"
	"strings"
	"sync"
	"sync/atomic"
	"testing"
	"testing/synctest"
	"time"

	"go.opentelemetry.io/otel/sdk/metric/metricdata"

	"go.opentelemetry.io/collector/component"
	"go.opentelemetry.io/collector/component/componenttest"
	"go.opentelemetry.io/collector/exporter/exporterhelper/internal/hosttest"
	"go.opentelemetry.io/collector/exporter/exporterhelper/internal/queuebatch"
	"go.opentelemetry.io/collector/exporter/exporterhelper/internal/request"
	"go.opentelemetry.io/collector/exporter/exporterhelper/internal/requesttest"
	"go.opentelemetry.io/collector/exporter/exporterhelper/internal/storagetest"
	"go.opentelemetry.io/collector/exporter/exportertest"
	"go.opentelemetry.io/collector/pipeline"
	"go.opentelemetry.io/collector/pipeline/xpipeline"
)

func vCfgErrStr(err error) string {
	switch {
	case err == nil:
		return "nil"
	case errors.Is(err, queuebatch.ErrQueueIsFull):
		return "full"
	case errors.Is(err, context.Canceled):
		return "ctx"
	case strings.Contains(err.Error(), "element size too large"):
		return "big"
	case strings.Contains(err.Error(), "invalid element size"):
		return "inv"
	case strings.Contains(err.Error(), "sending queue is stopped"):
		return "stopped"
	case errors.As(err, &vCfgErr{}):
		return "e1" // wait_for_result: the outcome of the request's own export
	}
	return "other:" + vHex(err.Error())
}

type vCfgErr struct{}

func (vCfgErr) Error() string { return "verif export failure" }

// vFakeEncoding stores a FakeRequest (items, bytes) for the persistent queue
type vFakeEncoding struct{}

func (vFakeEncoding) Marshal(r request.Request) ([]byte, error) {
	f := r.(*requesttest.FakeRequest)
	b := binary.LittleEndian.AppendUint64(nil, uint64(f.Items))
	return binary.LittleEndian.AppendUint64(b, uint64(f.Bytes)), nil
}

func (vFakeEncoding) Unmarshal(b []byte) (request.Request, error) {
	if len(b) < 16 {
		return nil, errors.New("short")
	}
	return &requesttest.FakeRequest{Items: int(binary.LittleEndian.Uint64(b)), Bytes: int(binary.LittleEndian.Uint64(b[8:]))}, nil
}

func vSizerName(s request.SizerType) string {
	switch s {
	case request.SizerTypeItems:
		return "items"
	case request.SizerTypeBytes:
		return "bytes"
	}
	return "requests"
}

func vGauge(tt *componenttest.Telemetry, name string) (int64, bool) {
	m, err := tt.GetMetric(name)
	if err != nil {
		return 0, false
	}
	g, ok := m.Data.(metricdata.Gauge[int64])
	if !ok || len(g.DataPoints) != 1 {
		return 0, false
	}
	return g.DataPoints[0].Value, true
}

// TestVerifC02Config: the queue an exporter actually gets. The exporter is built through the real constructors
// (NewBaseExporter with WithQueueBatchSettings + WithQueueBatch / WithBatcher in both orders -> NewQueueSender ->
// newQueueBatchConfig -> newQueueBatch -> obsQueue -> asyncQueue -> memoryQueue), over sizer x queue_size x legacy batcher
// x sending_queue::batch x block_on_overflow x wait_for_result x consumers, with multi-item requests and a blocked
// export. What it REPORTS (queue size / capacity gauges) and what every Send returns is diffed against the memory-queue
// model instantiated from the configuration AS WRITTEN (capacity = queue_size, size = written sizer of the request).
func TestVerifC02Config(t *testing.T) {
	out := vOpen(t)
	defer out.Close()
	out.Linef("model c02-config 1")
	n := vN(300)
	var progress atomic.Int64
	stop := make(chan struct{})
	go func() {
		last, lastT := int64(-1), time.Now()
		for {
			select {
			case <-stop:
				return
			case <-time.After(2 * time.Second):
			}
			if p := progress.Load(); p != last {
				last, lastT = p, time.Now()
			} else if time.Since(lastT) > 120*time.Second {
				out.Linef("viol sig=C02/harness/hang config case-counter=%d", p)
				out.Linef("end")
				out.Flush()
				os.Exit(3)
			}
		}
	}()
	synctest.Test(t, func(t *testing.T) {
		for _, c := range vCases(n) {
			vConfigCase(out, c)
			out.Flush()
			progress.Add(1)
		}
	})
	close(stop)
}

func vConfigCase(out *vOut, c int) {
	rnd := vRand(c)
	sizers := []request.SizerType{request.SizerTypeRequests, request.SizerTypeItems, request.SizerTypeBytes}
	szt := sizers[rnd.IntN(3)]
	queueEnabled := rnd.IntN(8) != 0
	legacy := rnd.IntN(2) == 0
	if !queueEnabled {
		legacy = true // nothing to look at otherwise
	}
	queueBatch := !legacy && szt != request.SizerTypeRequests && rnd.IntN(3) == 0 // `batch` is valid only with items/bytes
	queueSize := int64(1 + rnd.IntN(12))
	if szt == request.SizerTypeBytes {
		queueSize = int64(10 + rnd.IntN(60))
	}
	block := rnd.IntN(2) == 0
	wfr := rnd.IntN(5) == 0
	nCons := 1 + rnd.IntN(3)
	batcherFirst := rnd.IntN(2) == 0
	// all four signals: obsQueue picks its enqueue-failed counter by signal, and has none for profiles
	signals := []pipeline.Signal{pipeline.SignalTraces, pipeline.SignalMetrics, pipeline.SignalLogs, xpipeline.SignalProfiles}
	signal := signals[rnd.IntN(4)]
	// a sixth of the cases: `storage` is written -> newQueueBatch builds the PERSISTENT queue (valid only with the requests
	// sizer and without wait_for_result); plain shape, so that every consumer holds at most one request while the export is blocked
	persistent := queueEnabled && rnd.IntN(6) == 0
	storageID := component.MustNewID("vstorage")
	if persistent {
		szt, wfr, legacy, queueBatch = request.SizerTypeRequests, false, false, false
		queueSize = int64(1 + rnd.IntN(12))
	}

	qCfg := queuebatch.Config{Enabled: queueEnabled, Sizer: szt, QueueSize: queueSize, BlockOnOverflow: block, WaitForResult: wfr, NumConsumers: nCons}
	if persistent {
		qCfg.StorageID = &storageID
	}
	if queueBatch {
		qCfg.Batch = &queuebatch.BatchConfig{FlushTimeout: 200 * time.Millisecond, MinSize: int64(rnd.IntN(8)), MaxSize: 0}
	}
	bCfg := BatcherConfig{}
	if legacy {
		bCfg = BatcherConfig{Enabled: true, FlushTimeout: 200 * time.Millisecond,
			SizeConfig: SizeConfig{Sizer: request.SizerTypeItems, MinSize: int64(rnd.IntN(10)), MaxSize: 0}}
		if rnd.IntN(3) == 0 {
			bCfg.MaxSize = bCfg.MinSize + int64(1+rnd.IntN(6))
		}
	}
	if err := errors.Join(qCfg.Validate(), bCfg.Validate()); err != nil {
		panic(fmt.Sprintf("generator made an invalid configuration: %v", err))
	}
	// the queue the configuration describes
	wantCap, wantBlock, wantWfr := queueSize, block, wfr
	configured := func(r *requesttest.FakeRequest) int64 {
		switch szt {
		case request.SizerTypeItems:
			return int64(r.Items)
		case request.SizerTypeBytes:
			return int64(r.Bytes)
		}
		return 1
	}
	if !queueEnabled {
		// documented in newQueueBatchConfig: legacy batcher without a queue = unbounded blocking wait_for_result queue of requests
		wantCap, wantBlock, wantWfr = math.MaxInt, true, true
		configured = func(*requesttest.FakeRequest) int64 { return 1 }
	}
	shape := "plain"
	if persistent {
		shape = "persistent"
	}
	if legacy {
		shape = "legacy-batcher"
	} else if queueBatch {
		shape = "queue-batch"
	}
	out.Linef("case %d cap=%d block=%d wfr=%d sizer=%s shape=%s queue_enabled=%d consumers=%d batcher_first=%d signal=%s persistent=%d", c, wantCap, vB(wantBlock), vB(wantWfr), vSizerName(szt), shape, vB(queueEnabled), nCons, vB(batcherFirst), signal.String(), vB(persistent))

	tt := componenttest.NewTelemetry()
	set := exportertest.NewNopSettings(exportertest.NopType)
	set.TelemetrySettings = tt.NewTelemetrySettings()
	gate := make(chan struct{})
	var exportedItems atomic.Int64
	var failMu sync.Mutex
	failing := map[request.Request]bool{} // requests whose export fails (only without a batcher: merged batches share one outcome)
	pusher := func(_ context.Context, req request.Request) error {
		<-gate
		exportedItems.Add(int64(req.ItemsCount()))
		failMu.Lock()
		f := failing[req]
		failMu.Unlock()
		if f {
			return vCfgErr{}
		}
		return nil
	}
	qbs := QueueBatchSettings[request.Request]{
		Encoding: vFakeEncoding{},
		Sizers: map[request.SizerType]request.Sizer[request.Request]{
			request.SizerTypeRequests: request.RequestsSizer[request.Request]{},
			request.SizerTypeItems:    request.NewItemsSizer(),
			request.SizerTypeBytes: request.SizeofFunc[request.Request](func(r request.Request) int64 {
				return int64(r.(*requesttest.FakeRequest).Bytes)
			}),
		},
	}
	opts := []Option{WithQueueBatchSettings(qbs)}
	if batcherFirst {
		opts = append(opts, WithBatcher(bCfg), WithQueueBatch(qCfg, qbs))
	} else {
		opts = append(opts, WithQueueBatch(qCfg, qbs), WithBatcher(bCfg))
	}
	be, err := NewBaseExporter(set, signal, pusher, opts...)
	if err != nil {
		out.Linef("viol sig=C02/config/constructor-rejects-valid-configuration sizer=%s shape=%s %s", vSizerName(szt), shape, vHex(err.Error()))
		out.Linef("end")
		return
	}
	var host component.Host = componenttest.NewNopHost()
	if persistent {
		host = hosttest.NewHost(map[component.ID]component.Component{storageID: storagetest.NewMockStorageExtension(nil)})
	}
	if err := be.Start(context.Background(), host); err != nil {
		out.Linef("viol sig=C02/config/start-fails %s", vHex(err.Error()))
		out.Linef("end")
		return
	}

	type prod struct {
		cancel context.CancelFunc
		ret    bool
		res    string
		canc   bool
		items  int
		el     int64
	}
	var mu sync.Mutex
	prods := map[int]*prod{}
	prevSize := int64(0)
	snapshot := func(offered int) {
		synctest.Wait()
		size, ok1 := vGauge(tt, "otelcol_exporter_queue_size")
		capacity, ok2 := vGauge(tt, "otelcol_exporter_queue_capacity")
		if !ok1 || !ok2 {
			out.Linef("viol sig=C02/config/queue-gauges-missing")
		}
		mu.Lock()
		var ids []int
		for p := range prods {
			ids = append(ids, p)
		}
		sort.Ints(ids)
		var ps []string
		for _, p := range ids {
			st := "B"
			if prods[p].ret {
				st = prods[p].res
			}
			ps = append(ps, fmt.Sprintf("%d:%s", p, st))
		}
		if offered >= 0 && !persistent {
			// (persistent queue: a read that empties the queue resets the reported size, judged by the Lean clauses instead)
			// direct oracle: an accepted request must raise the reported size by its CONFIGURED size
			x := prods[offered]
			if x.ret && x.res == "nil" && !wantWfr && x.el != 0 && size == prevSize {
				// Send reported success, but the reported size did not move: nothing was enqueued (a refusal came back as nil)
				out.Linef("viol sig=C02/config/refused-offer-reported-as-success/%s Send returned nil for a request of configured size %d, reported size stays %d (queue_size %d): the refusal of the queue was swallowed", signal.String(), x.el, size, wantCap)
			} else if x.ret && x.res == "nil" && !wantWfr && size-prevSize != x.el {
				unit := "other"
				if size-prevSize == int64(x.items) {
					unit = "items"
				} else if size-prevSize == 1 {
					unit = "requests"
				}
				out.Linef("viol sig=C02/config/queue-measured-with-wrong-sizer/%s/%s accepted request of configured size %d (items=%d) raised the reported size by %d (%s)", vSizerName(szt), shape, x.el, x.items, size-prevSize, unit)
			}
		}
		mu.Unlock()
		prevSize = size
		j := "-"
		if len(ps) > 0 {
			j = strings.Join(ps, ",")
		}
		out.Linef("obs size=%d cap=%d P=%s", size, capacity, j)
	}
	nOffers := 4 + rnd.IntN(14)
	blockedN := 0
	for k := 0; k < nOffers; k++ {
		// sometimes end the context of a blocked Send
		var bl []int
		mu.Lock()
		for p, x := range prods {
			if !x.ret && !x.canc {
				bl = append(bl, p)
			}
		}
		mu.Unlock()
		sort.Ints(bl)
		if len(bl) > 0 {
			blockedN++
		}
		if len(bl) > 0 && rnd.IntN(3) == 0 {
			p := bl[rnd.IntN(len(bl))]
			out.Linef("op cancel %d", p)
			prods[p].canc = true
			prods[p].cancel()
			snapshot(-1)
			continue
		}
		items := rnd.IntN(7)
		if items == 0 && shape != "plain" && shape != "persistent" {
			items = 1 // a batcher finishes an empty request at once, without export: a completion this script does not model
		}
		if rnd.IntN(10) == 0 {
			items = int(queueSize) + 1 + rnd.IntN(3)
		}
		bytes := items*(3+rnd.IntN(5)) + rnd.IntN(4)
		if bytes == 0 && shape != "plain" && shape != "persistent" {
			bytes = 1
		}
		req := &requesttest.FakeRequest{Items: items, Bytes: bytes}
		ctx, cancel := context.WithCancel(context.Background())
		x := &prod{cancel: cancel, items: items, el: configured(req)}
		p := k
		mu.Lock()
		prods[p] = x
		mu.Unlock()
		if shape == "plain" && rnd.IntN(4) == 0 { // (never with the persistent queue: its requests are decoded copies)
			failMu.Lock()
			failing[req] = true
			failMu.Unlock()
			out.Linef("op outcome %d 1", p)
		}
		out.Linef("op offer %d %d", p, x.el)
		go func() {
			err := be.Send(ctx, req)
			mu.Lock()
			x.ret, x.res = true, vCfgErrStr(err)
			mu.Unlock()
		}()
		snapshot(p)
	}
	// drain: let the export through, let flush timers fire, everything accepted must come out and the size return to 0
	var wantItems int64
	close(gate)
	// virtual time: flush timers fire, released producers get in, their batches flush in turn (one flush timeout each
	// when the capacity is 1) - until nobody is blocked any more and everything has come out
	for i := 0; i < 200; i++ {
		time.Sleep(500 * time.Millisecond)
		synctest.Wait()
		mu.Lock()
		blocked := 0
		for _, x := range prods {
			if !x.ret && !x.canc {
				blocked++
			}
		}
		mu.Unlock()
		if sz, _ := vGauge(tt, "otelcol_exporter_queue_size"); blocked == 0 && sz == 0 {
			break
		}
	}
	out.Linef("op drain")
	snapshot(-1)
	mu.Lock()
	for _, x := range prods {
		if x.ret && (x.res == "nil" || x.res == "e1") && x.el != 0 {
			wantItems += int64(x.items)
		}
	}
	mu.Unlock()
	if got := exportedItems.Load(); got != wantItems && !wantWfr {
		out.Linef("viol sig=C02/config/accepted-items-not-exported accepted-items=%d exported-items=%d", wantItems, got)
	}
	for _, x := range prods {
		x.cancel()
	}
	_ = be.Shutdown(context.Background())
	_ = tt.Shutdown(context.Background())
	synctest.Wait()
	if blockedN > 0 || legacy || persistent {
		out.Linef("nt")
	}
	out.Linef("stat config_%s_%s 1", vSizerName(szt), shape)
	out.Linef("stat config_signal_%s 1", signal.String())
	out.Linef("end")
}
