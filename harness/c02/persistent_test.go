//go:build verif

package queuebatch

import (
	"context"
	"fmt"
	"os"
	"sort"
	"sync"
	"sync/atomic"
	"testing"
	"testing/synctest"
	"time"

	"go.opentelemetry.io/collector/component"
	"go.opentelemetry.io/collector/component/componenttest"
	"go.opentelemetry.io/collector/exporter/exporterhelper/internal/hosttest"
	"go.opentelemetry.io/collector/exporter/exporterhelper/internal/request"
	"go.opentelemetry.io/collector/exporter/exporterhelper/internal/storagetest"
	"go.opentelemetry.io/collector/exporter/exportertest"
	"go.opentelemetry.io/collector/pipeline"
)

// request value = id*1000 + size, so the id survives the storage round trip
type vPSizer struct{}

func (vPSizer) Sizeof(v uint64) int64 { return int64(v % 1000) }

// TestVerifC02Persistent: the real persistentQueue (mock storage extension) in a synctest bubble, run to
// quiescence after every label; the persistent-queue clauses of the property are checked directly on what it
// shows (monitor only: FIFO / exactly-once, 0 <= Size <= cap, Size == 0 once everything finished, refusal
// exactly when Size+el > cap, never blocked while empty, cancelled producers return).
func TestVerifC02Persistent(t *testing.T) {
	out := vOpen(t)
	defer out.Close()
	out.Linef("model c02-persistent 1")
	n := vN(1000)
	var progress atomic.Int64
	stop := make(chan struct{})
	go func() {
		last, lastT := int64(-1), time.Now()
		for {
			select {
			case <-stop:
				return
			case <-time.After(2 * time.Second):
			}
			if p := progress.Load(); p != last {
				last, lastT = p, time.Now()
			} else if time.Since(lastT) > 120*time.Second {
				out.Linef("viol sig=C02/harness/hang persistent case-counter=%d", p)
				out.Linef("end")
				out.Flush()
				os.Exit(3)
			}
		}
	}()
	synctest.Test(t, func(t *testing.T) {
		for _, c := range vCases(n) {
			vPersistentCase(t, out, c)
			out.Flush()
			progress.Add(1)
		}
	})
	close(stop)
}

func vPersistentCase(t *testing.T, out *vOut, c int) {
	rnd := vRand(c)
	capacity := int64(1 + rnd.IntN(10))
	block := rnd.IntN(3) != 0
	reqSized := rnd.IntN(4) == 0
	out.Linef("case %d cap=%d block=%d requests_sizer=%d", c, capacity, vB(block), vB(reqSized))
	var sizer request.Sizer[uint64] = vPSizer{}
	if reqSized {
		sizer = request.RequestsSizer[uint64]{}
	}
	pq := newPersistentQueue[uint64](persistentQueueSettings[uint64]{
		sizer: sizer, capacity: capacity, blockOnOverflow: block, signal: pipeline.SignalTraces, storageID: component.ID{},
		encoding: uint64Encoding{}, id: component.NewID(exportertest.NopType), telemetry: componenttest.NewNopTelemetrySettings(),
	}).(*persistentQueue[uint64])
	if err := pq.Start(context.Background(), hosttest.NewHost(map[component.ID]component.Component{{}: storagetest.NewMockStorageExtension(nil)})); err != nil {
		out.Linef("viol sig=C02/harness/persistent-start %s", vHex(err.Error()))
		out.Linef("end")
		return
	}
	sizeOf := func(el int64) int64 {
		if reqSized {
			return 1
		}
		return el
	}
	type prod struct {
		cancel context.CancelFunc
		ret    bool
		res    string
		canc   bool
		el     int64
		acc    bool
	}
	var mu sync.Mutex
	prods := map[int]*prod{}
	var fifo []int           // accepted, not handed yet (in acceptance order)
	grp := map[int]int{}     // label index at which the id was accepted (order inside one label is not observable)
	labelIdx := 0
	inflight := map[int]Done{} // handed, not finished
	var inflightIDs []int
	consBlocked := 0
	var got []int // ids returned by Read since the last check
	stopped := 0
	viol := func(sig, f string, a ...any) { out.Linef("viol sig=%s %s", sig, fmt.Sprintf(f, a...)) }
	spaceBlocked := false
	check := func(label string, sizeBefore int64, offered int) {
		synctest.Wait()
		mu.Lock()
		defer mu.Unlock()
		out.Linef("tr %s", label)
		labelIdx++
		// acceptance is observed when Offer returns nil (at most one per label in run-to-quiescence mode, in order)
		var ids []int
		for p := range prods {
			ids = append(ids, p)
		}
		sort.Ints(ids)
		for _, p := range ids {
			x := prods[p]
			if x.ret && x.res == "nil" && !x.acc {
				x.acc = true
				fifo = append(fifo, p)
				grp[p] = labelIdx
			}
		}
		for _, id := range got {
			pos := -1
			for i, f := range fifo {
				if f == id {
					pos = i
					break
				}
			}
			ok := pos >= 0
			for i := 0; ok && i < pos; i++ {
				if grp[fifo[i]] != grp[id] {
					ok = false
				}
			}
			if !ok {
				viol("C02/persistent/fifo-order", "handed %d expected-queue %v after %s", id, fifo, label)
			}
			if pos >= 0 {
				fifo = append(fifo[:pos:pos], fifo[pos+1:]...)
			}
			inflightIDs = append(inflightIDs, id)
		}
		got = nil
		size := pq.Size()
		if size < 0 || size > capacity {
			viol("C02/persistent/size-out-of-bounds", "size=%d cap=%d after %s", size, capacity, label)
		}
		if len(fifo) == 0 && len(inflightIDs) == 0 && size != 0 {
			viol("C02/persistent/size-not-zero-when-all-finished", "size=%d after %s", size, label)
		}
		if offered >= 0 {
			x := prods[offered]
			el := sizeOf(x.el)
			wantFull := !block && sizeBefore+el > capacity
			if (x.ret && x.res == "full") != wantFull {
				viol("C02/persistent/refusal-not-exact", "p=%d el=%d size-before=%d cap=%d got ret=%v %s", offered, el, sizeBefore, capacity, x.ret, x.res)
			}
		}
		for _, p := range ids {
			x := prods[p]
			if !x.ret {
				spaceBlocked = true
				if x.canc {
					viol("C02/persistent/cancelled-still-blocked", "p=%d after %s", p, label)
				}
				// "empty" for the persistent queue = nothing queued and nothing in flight (its Size() is reset to 0
				// whenever the last queued item is read, while items are still in flight)
				if len(fifo) == 0 && len(inflightIDs) == 0 {
					over := -1
					for _, q := range ids {
						if y := prods[q]; !y.ret && sizeOf(y.el) > capacity {
							over = q
						}
					}
					switch {
					case sizeOf(x.el) > capacity:
						viol("C02/persistent/oversize-request-blocks-forever", "p=%d el=%d cap=%d: blocked while the queue is empty (no errSizeTooLarge guard in putInternal) after %s", p, sizeOf(x.el), capacity, label)
					case over >= 0:
						viol("C02/persistent/oversize-request-blocks-forever", "victim p=%d el=%d left blocked while the queue is empty: its wake-ups were consumed by oversize waiter %d, after %s", p, sizeOf(x.el), over, label)
					default:
						viol("C02/persistent/blocked-while-empty", "p=%d el=%d after %s", p, sizeOf(x.el), label)
					}
				}
			}
			if x.ret && x.res != "nil" && x.acc {
				viol("C02/persistent/refused-but-enqueued", "p=%d", p)
			}
		}
	}
	offer := func(p int, el int64, preCancel bool) {
		ctx, cancel := context.WithCancel(context.Background())
		x := &prod{cancel: cancel, el: el}
		prods[p] = x
		if preCancel {
			x.canc = true
			cancel()
		}
		before := pq.Size()
		go func() {
			err := pq.Offer(ctx, uint64(p)*1000+uint64(el))
			mu.Lock()
			x.ret, x.res = true, vErrStr(err)
			mu.Unlock()
		}()
		check(fmt.Sprintf("offer %d %d pre=%d", p, el, vB(preCancel)), before, p)
	}
	read := func() {
		mu.Lock()
		consBlocked++
		mu.Unlock()
		go func() {
			_, v, done, ok := pq.Read(context.Background())
			mu.Lock()
			consBlocked--
			if ok {
				id := int(v / 1000)
				got = append(got, id)
				inflight[id] = done
			} else {
				stopped++
			}
			mu.Unlock()
		}()
		check("read", 0, -1)
	}
	finish := func(id int, e int64) {
		d := inflight[id]
		delete(inflight, id)
		for i, f := range inflightIDs {
			if f == id {
				inflightIDs = append(inflightIDs[:i:i], inflightIDs[i+1:]...)
				break
			}
		}
		var err error
		if e != 0 {
			err = vErr(e)
		}
		d.OnDone(err)
		check(fmt.Sprintf("done %d %d", id, e), 0, -1)
	}
	blocked := func() []int {
		mu.Lock()
		defer mu.Unlock()
		var b []int
		for p, x := range prods {
			if !x.ret {
				b = append(b, p)
			}
		}
		sort.Ints(b)
		return b
	}
	nextP := 0
	maxP := 3 + rnd.IntN(8)
	steps := 5 + rnd.IntN(50)
	for k := 0; k < steps; k++ {
		var cands []string
		if nextP < maxP {
			cands = append(cands, "offer", "offer", "offer")
		}
		bp := blocked()
		for range bp {
			cands = append(cands, "cancel")
		}
		if consBlocked < 2 {
			cands = append(cands, "read", "read")
		}
		for range inflightIDs {
			cands = append(cands, "done", "done")
		}
		if len(cands) == 0 {
			break
		}
		switch cands[rnd.IntN(len(cands))] {
		case "offer":
			var el int64
			switch r := rnd.IntN(20); {
			case r == 0:
				el = 0
			case r == 1:
				el = capacity + int64(1+rnd.IntN(3))
			case r < 8:
				el = capacity - int64(rnd.IntN(2))
			default:
				el = int64(1 + rnd.IntN(int(capacity)))
			}
			offer(nextP, el, rnd.IntN(12) == 0)
			nextP++
		case "cancel":
			var open []int
			for _, p := range bp {
				if !prods[p].canc {
					open = append(open, p)
				}
			}
			if len(open) > 0 {
				p := open[rnd.IntN(len(open))]
				prods[p].canc = true
				prods[p].cancel()
				check(fmt.Sprintf("cancel %d", p), 0, -1)
			}
		case "read":
			read()
		case "done":
			finish(inflightIDs[rnd.IntN(len(inflightIDs))], int64(rnd.IntN(3)))
		}
	}
	// drain
	for k := 0; k < 400; k++ {
		if len(inflightIDs) > 0 {
			finish(inflightIDs[0], 0)
			continue
		}
		if len(fifo) > 0 && consBlocked == 0 {
			read()
			continue
		}
		if bp := blocked(); len(bp) > 0 && len(fifo) == 0 {
			p := bp[0]
			if prods[p].canc {
				break
			}
			prods[p].canc = true
			prods[p].cancel()
			check(fmt.Sprintf("cancel %d", p), 0, -1)
			continue
		}
		break
	}
	for _, x := range prods {
		x.cancel()
	}
	_ = pq.Shutdown(context.Background())
	synctest.Wait()
	if spaceBlocked {
		out.Linef("nt")
	}
	out.Linef("stat persistent_producers %d", nextP)
	out.Linef("stat persistent_blocked_for_space %d", vB(spaceBlocked))
	out.Linef("end")
}
