//go:build verif

package queuebatch

import (
	"context"
	"fmt"
	"math/rand/v2"
	"os"
	"runtime"
	"strings"
	"sync/atomic"
	"testing"
	"testing/synctest"
	"time"

	"go.opentelemetry.io/collector/component"
	"go.opentelemetry.io/collector/component/componenttest"
	"go.opentelemetry.io/collector/exporter/exporterhelper/internal/hosttest"
	"go.opentelemetry.io/collector/exporter/exporterhelper/internal/request"
	"go.opentelemetry.io/collector/exporter/exporterhelper/internal/storagetest"
	"go.opentelemetry.io/collector/exporter/exportertest"
	"go.opentelemetry.io/collector/pipeline"
)

// request value = id*1000 + size, so the id survives the storage round trip
type vPSizer struct{}

func (vPSizer) Sizeof(v uint64) int64 { return int64(v % 1000) }

// vRestoreRnd is the case's generator, handed over by the script runner for the restart pre-phase.
var vRestoreRnd *rand.Rand

func init() { vSetRestoreRnd = func(r any) { vRestoreRnd = r.(*rand.Rand) } }

// vNewPersistentRun wires a real persistentQueue (mock storage extension, fresh storage) into the script runner.
func vNewPersistentRun(out *vOut, capacity int64, block, _, reqSized bool) *vQRun {
	var sizer request.Sizer[uint64] = vPSizer{}
	if reqSized {
		sizer = request.RequestsSizer[uint64]{}
	}
	ext := storagetest.NewMockStorageExtension(nil)
	host := hosttest.NewHost(map[component.ID]component.Component{{}: ext})
	mkQueue := func(capa int64, blk bool) *persistentQueue[uint64] {
		return newPersistentQueue[uint64](persistentQueueSettings[uint64]{
			sizer: sizer, capacity: capa, blockOnOverflow: blk, signal: pipeline.SignalTraces, storageID: component.ID{},
			encoding: uint64Encoding{}, id: component.NewID(exportertest.NopType), telemetry: componenttest.NewNopTelemetrySettings(),
		}).(*persistentQueue[uint64])
	}
	// a reader client of its own on the same storage: the queue closes its client after Shutdown
	reader, err := ext.GetClient(context.Background(), component.KindExporter, component.NewID(exportertest.NopType), pipeline.SignalTraces.String())
	if err != nil {
		panic(err)
	}
	restoreOp := ""
	if vRestoreRnd != nil && vRestoreRnd.IntN(4) == 0 {
		// an earlier life of the queue left requests behind (and, for the items sizer, a size snapshot `si` that may be stale);
		// this life may have a smaller capacity
		first := mkQueue(1000, false)
		if err := first.Start(context.Background(), host); err != nil {
			panic(err)
		}
		m := 1 + vRestoreRnd.IntN(6)
		var sum int64
		var sb strings.Builder
		for i := 0; i < m; i++ {
			el := int64(1 + vRestoreRnd.IntN(5))
			if reqSized {
				el = 1
			}
			if err := first.Offer(context.Background(), uint64(900+i)*1000+uint64(el)); err != nil {
				panic(err)
			}
			sum += el
			fmt.Fprintf(&sb, " %d %d", 900+i, el)
		}
		if err := first.Shutdown(context.Background()); err != nil {
			panic(err)
		}
		restored := sum
		if !reqSized && vRestoreRnd.IntN(2) == 0 {
			restored = int64(vRestoreRnd.IntN(40)) // stale snapshot, in either direction
			if err := reader.Set(context.Background(), queueSizeKey, itemIndexToBytes(uint64(restored))); err != nil {
				panic(err)
			}
		}
		restoreOp = fmt.Sprintf("op restore size=%d%s", restored, sb.String())
	}
	pq := mkQueue(capacity, block)
	if err := pq.Start(context.Background(), host); err != nil {
		panic(err)
	}
	return &vQRun{
		out:       out,
		shutErr3:  true,
		restoreOp: restoreOp,
		offerFn: func(ctx context.Context, id int, size int64) error {
			return pq.Offer(ctx, uint64(id)*1000+uint64(size))
		},
		readFn: func() (int, Done, bool) {
			_, v, done, ok := pq.Read(context.Background())
			return int(v / 1000), done, ok
		},
		sizeFn: pq.Size,
		qidsFn: func() []int {
			var ids []int
			pq.mu.Lock()
			for i := pq.readIndex; i < pq.writeIndex; i++ {
				buf, err := reader.Get(context.Background(), getItemKey(i))
				if err != nil || len(buf) < 8 {
					ids = append(ids, -1)
					continue
				}
				v, _ := uint64Encoding{}.Unmarshal(buf)
				ids = append(ids, int(v/1000))
			}
			pq.mu.Unlock()
			return ids
		},
		shutdownFn: func() { _ = pq.Shutdown(context.Background()) },
		prods:      map[int]*vQProd{}, cons: map[int]*vQCons{}, dones: map[int]Done{}, seen: map[int]bool{},
	}
}

// TestVerifC02Persistent: the real persistentQueue in a synctest bubble, same script runner and observation
// format as the memory queue; diffed against the Lean LTS `pfire` and judged by the same oracle (persistent clauses).
func TestVerifC02Persistent(t *testing.T) {
	out := vOpen(t)
	defer out.Close()
	out.Linef("model c02-persistent 1")
	defer runtime.GOMAXPROCS(runtime.GOMAXPROCS(1))
	n := vN(1000)
	var progress atomic.Int64
	stop := make(chan struct{})
	go func() {
		last, lastT := int64(-1), time.Now()
		for {
			select {
			case <-stop:
				return
			case <-time.After(2 * time.Second):
			}
			if p := progress.Load(); p != last {
				last, lastT = p, time.Now()
			} else if time.Since(lastT) > 120*time.Second {
				out.Linef("viol sig=C02/harness/hang persistent case-counter=%d", p)
				out.Linef("end")
				out.Flush()
				os.Exit(3)
			}
		}
	}()
	synctest.Test(t, func(t *testing.T) {
		for _, c := range vCases(n) {
			vQueueCase(out, c, true, vNewPersistentRun)
			out.Flush()
			progress.Add(1)
		}
	})
	close(stop)
}
