//go:build verif

package queuebatch

import (
	"context"
	"os"
	"runtime"
	"sync/atomic"
	"testing"
	"testing/synctest"
	"time"

	"go.opentelemetry.io/collector/component"
	"go.opentelemetry.io/collector/component/componenttest"
	"go.opentelemetry.io/collector/exporter/exporterhelper/internal/hosttest"
	"go.opentelemetry.io/collector/exporter/exporterhelper/internal/request"
	"go.opentelemetry.io/collector/exporter/exporterhelper/internal/storagetest"
	"go.opentelemetry.io/collector/exporter/exportertest"
	"go.opentelemetry.io/collector/pipeline"
)

// request value = id*1000 + size, so the id survives the storage round trip
type vPSizer struct{}

func (vPSizer) Sizeof(v uint64) int64 { return int64(v % 1000) }

// vNewPersistentRun wires a real persistentQueue (mock storage extension, fresh storage) into the script runner.
func vNewPersistentRun(out *vOut, capacity int64, block, _, reqSized bool) *vQRun {
	var sizer request.Sizer[uint64] = vPSizer{}
	if reqSized {
		sizer = request.RequestsSizer[uint64]{}
	}
	pq := newPersistentQueue[uint64](persistentQueueSettings[uint64]{
		sizer: sizer, capacity: capacity, blockOnOverflow: block, signal: pipeline.SignalTraces, storageID: component.ID{},
		encoding: uint64Encoding{}, id: component.NewID(exportertest.NopType), telemetry: componenttest.NewNopTelemetrySettings(),
	}).(*persistentQueue[uint64])
	if err := pq.Start(context.Background(), hosttest.NewHost(map[component.ID]component.Component{{}: storagetest.NewMockStorageExtension(nil)})); err != nil {
		panic(err)
	}
	return &vQRun{
		out: out,
		offerFn: func(ctx context.Context, id int, size int64) error {
			return pq.Offer(ctx, uint64(id)*1000+uint64(size))
		},
		readFn: func() (int, Done, bool) {
			_, v, done, ok := pq.Read(context.Background())
			return int(v / 1000), done, ok
		},
		sizeFn: pq.Size,
		qidsFn: func() []int {
			var ids []int
			pq.mu.Lock()
			for i := pq.readIndex; i < pq.writeIndex; i++ {
				buf, err := pq.client.Get(context.Background(), getItemKey(i))
				if err != nil || len(buf) < 8 {
					ids = append(ids, -1)
					continue
				}
				v, _ := uint64Encoding{}.Unmarshal(buf)
				ids = append(ids, int(v/1000))
			}
			pq.mu.Unlock()
			return ids
		},
		shutdownFn: func() { _ = pq.Shutdown(context.Background()) },
		prods:      map[int]*vQProd{}, cons: map[int]*vQCons{}, dones: map[int]Done{}, seen: map[int]bool{},
	}
}

// TestVerifC02Persistent: the real persistentQueue in a synctest bubble, same script runner and observation
// format as the memory queue; diffed against the Lean LTS `pfire` and judged by the same oracle (persistent clauses).
func TestVerifC02Persistent(t *testing.T) {
	out := vOpen(t)
	defer out.Close()
	out.Linef("model c02-persistent 1")
	defer runtime.GOMAXPROCS(runtime.GOMAXPROCS(1))
	n := vN(1000)
	var progress atomic.Int64
	stop := make(chan struct{})
	go func() {
		last, lastT := int64(-1), time.Now()
		for {
			select {
			case <-stop:
				return
			case <-time.After(2 * time.Second):
			}
			if p := progress.Load(); p != last {
				last, lastT = p, time.Now()
			} else if time.Since(lastT) > 120*time.Second {
				out.Linef("viol sig=C02/harness/hang persistent case-counter=%d", p)
				out.Linef("end")
				out.Flush()
				os.Exit(3)
			}
		}
	}()
	synctest.Test(t, func(t *testing.T) {
		for _, c := range vCases(n) {
			vQueueCase(out, c, true, vNewPersistentRun)
			out.Flush()
			progress.Add(1)
		}
	})
	close(stop)
}
