//go:build verif

package queuebatch

import (
	"context"
	"errors"
	"fmt"
	"strings"
	"sync/atomic"
	"testing"

	"go.opentelemetry.io/collector/component"
	"go.opentelemetry.io/collector/component/componenttest"
	"go.opentelemetry.io/collector/exporter/exporterhelper/internal/experr"
	"go.opentelemetry.io/collector/exporter/exporterhelper/internal/hosttest"
	"go.opentelemetry.io/collector/exporter/exporterhelper/internal/request"
	"go.opentelemetry.io/collector/exporter/exporterhelper/internal/storagetest"
	"go.opentelemetry.io/collector/exporter/exportertest"
	"go.opentelemetry.io/collector/extension/xextension/storage"
	"go.opentelemetry.io/collector/pipeline"
)

// request value = id*1000 + number of items; the items sizer stands for every sizer that is not the requests sizer
type vRItems struct{}

func (vRItems) Sizeof(v uint64) int64 { return int64(v % 1000) }

// vFailExt wraps the mock storage extension: while `fail` is set, client.Set(queueSizeKey, ...) - the periodic back-up of the queue
// size - returns an error; everything else goes through
type vFailExt struct {
	storage.Extension
	fail *atomic.Bool
}

func (e *vFailExt) GetClient(ctx context.Context, kind component.Kind, id component.ID, name string) (storage.Client, error) {
	c, err := e.Extension.GetClient(ctx, kind, id, name)
	if err != nil {
		return nil, err
	}
	return &vFailClient{Client: c, fail: e.fail}, nil
}

type vFailClient struct {
	storage.Client
	fail *atomic.Bool
}

func (c *vFailClient) Set(ctx context.Context, key string, v []byte) error {
	if key == queueSizeKey && c.fail.Load() {
		return errors.New("verif: the queue-size back-up cannot be written")
	}
	return c.Client.Set(ctx, key, v)
}

type vRLife struct {
	pq      *persistentQueue[uint64]
	dones   map[uint64]Done // index -> Done of this life, not completed yet
	order   []uint64
	stopped bool
}

func vRJoin(xs []uint64) string {
	if len(xs) == 0 {
		return "-"
	}
	var sb strings.Builder
	for i, x := range xs {
		if i > 0 {
			sb.WriteByte(',')
		}
		fmt.Fprintf(&sb, "%d", x)
	}
	return sb.String()
}

// TestVerifC02PQSize: the real persistentQueue (non-blocking) driven sequentially through several LIVES on one mock storage:
// offers, reads, completions (also with a shutdown error), Shutdown, and restarts with or without a preceding Shutdown, with
// another capacity and possibly another sizer.  After every operation Size(), the indexes, the in-memory and the stored list
// of dispatched items, the stored size snapshot `si` and the stored requests are diffed against Model/C02R.lean.
func TestVerifC02PQSize(t *testing.T) {
	out := vOpen(t)
	defer out.Close()
	out.Linef("model c02-pqsize 1")
	n := vN(1000)
	for _, c := range vCases(n) {
		vPQSizeCase(out, c)
		out.Flush()
	}
}

func vPQSizeCase(out *vOut, c int) {
	rnd := vRand(c)
	long := rnd.IntN(3) == 0
	capacity := int64(1 + rnd.IntN(12))
	maxItems := 1 + rnd.IntN(5)
	nops := 8 + rnd.IntN(30)
	if long {
		capacity = int64(6 + rnd.IntN(20))
		maxItems = 1 + rnd.IntN(2)
		nops = 40 + rnd.IntN(60)
	}
	reqSized := rnd.IntN(2) == 0
	ext := storagetest.NewMockStorageExtension(nil)
	var failSi atomic.Bool
	host := hosttest.NewHost(map[component.ID]component.Component{{}: &vFailExt{Extension: ext, fail: &failSi}})
	reader, err := ext.GetClient(context.Background(), component.KindExporter, component.NewID(exportertest.NopType), pipeline.SignalTraces.String())
	if err != nil {
		panic(err)
	}
	mk := func(capa int64, rs bool) *vRLife {
		var sizer request.Sizer[uint64] = vRItems{}
		if rs {
			sizer = request.RequestsSizer[uint64]{}
		}
		pq := newPersistentQueue[uint64](persistentQueueSettings[uint64]{
			sizer: sizer, capacity: capa, blockOnOverflow: false, signal: pipeline.SignalTraces, storageID: component.ID{},
			encoding: uint64Encoding{}, id: component.NewID(exportertest.NopType), telemetry: componenttest.NewNopTelemetrySettings(),
		}).(*persistentQueue[uint64])
		if err := pq.Start(context.Background(), host); err != nil {
			panic(err)
		}
		return &vRLife{pq: pq, dones: map[uint64]Done{}}
	}
	life := mk(capacity, reqSized)
	out.Linef("case %d cap=%d req=%d", c, capacity, vB(reqSized))
	var stRestarts, stRestartDisp, stCadence, stSwitch, stOver, stShutErr, stZero, stFailSi, stFailedBackups int
	nontrivial := false
	lastSi := "-"
	obs := func(ret string) {
		pq := life.pq
		pq.mu.Lock()
		size, ri, wi := pq.queueSize, pq.readIndex, pq.writeIndex
		disp := append([]uint64(nil), pq.currentlyDispatchedItems...)
		pq.mu.Unlock()
		si := "-"
		if b, err := reader.Get(context.Background(), queueSizeKey); err == nil && b != nil {
			if v, err := bytesToItemIndex(b); err == nil {
				si = fmt.Sprintf("%d", v)
			}
		}
		var di []uint64
		if b, err := reader.Get(context.Background(), currentlyDispatchedItemsKey); err == nil {
			di, _ = bytesToItemIndexArray(b)
		}
		var q []string
		for i := ri; i < wi; i++ {
			b, err := reader.Get(context.Background(), getItemKey(i))
			if err != nil || len(b) < 8 {
				q = append(q, "?")
				continue
			}
			v, _ := uint64Encoding{}.Unmarshal(b)
			q = append(q, fmt.Sprintf("%d:%d", v/1000, v%1000))
		}
		qs := "-"
		if len(q) > 0 {
			qs = strings.Join(q, ",")
		}
		out.Linef("obs ret=%s size=%d ri=%d wi=%d disp=%s si=%s di=%s q=%s", ret, size, ri, wi, vRJoin(disp), si, vRJoin(di), qs)
		lastSi = si
	}
	nextID := 0
	restart := func() {
		stRestarts++
		capacity = int64(1 + rnd.IntN(12))
		if long {
			capacity = int64(4 + rnd.IntN(20))
		}
		if rnd.IntN(5) == 0 {
			reqSized = !reqSized
			stSwitch++
		}
		if b, err := reader.Get(context.Background(), currentlyDispatchedItemsKey); err == nil {
			if di, _ := bytesToItemIndexArray(b); len(di) > 0 {
				stRestartDisp++
			}
		}
		out.Linef("op restart cap=%d req=%d", capacity, vB(reqSized))
		life = mk(capacity, reqSized)
		obs("-")
		if life.pq.Size() > capacity {
			stOver++
		}
		if life.pq.Size() > 0 {
			nontrivial = true
		}
	}
	for i := 0; i < nops; i++ {
		if life.stopped {
			// after Shutdown only completions of what is in flight, then a new life
			if len(life.order) > 0 && rnd.IntN(3) != 0 {
				vPQSizeDone(out, rnd.IntN(len(life.order)), rnd.IntN(6) == 0, life, obs, &stShutErr)
				continue
			}
			restart()
			continue
		}
		if rnd.IntN(25) == 0 {
			// the storage starts / stops refusing the size snapshot (only that key): a failing back-up must not turn a committed
			// write into a refused Offer
			failSi.Store(!failSi.Load())
			if failSi.Load() {
				stFailSi++
			}
			out.Linef("op failsi %d", vB(failSi.Load()))
			obs("-")
		}
		r := rnd.IntN(100)
		life.pq.mu.Lock()
		nonEmpty := life.pq.readIndex != life.pq.writeIndex
		life.pq.mu.Unlock()
		switch {
		case r < 40 || (!nonEmpty && len(life.order) == 0 && r < 85):
			items := rnd.IntN(maxItems + 1)
			if items == 0 {
				stZero++
			}
			out.Linef("op offer %d", items)
			before := lastSi
			err := life.pq.Offer(context.Background(), uint64(nextID)*1000+uint64(items))
			nextID++
			switch {
			case err == nil:
				obs("ok")
			case errors.Is(err, ErrQueueIsFull):
				obs("full")
			default:
				obs("err")
			}
			if lastSi != before {
				stCadence++
			}
			life.pq.mu.Lock()
			if failSi.Load() && !reqSized && life.pq.writeIndex%10 == 5 && err == nil {
				stFailedBackups++
			}
			life.pq.mu.Unlock()
		case r < 65 && nonEmpty:
			out.Linef("op read")
			_, v, done, ok := life.pq.Read(context.Background())
			if !ok {
				obs("stopped")
				continue
			}
			id := done.(*indexDone)
			life.dones[id.index] = done
			life.order = append(life.order, id.index)
			obs(fmt.Sprintf("%d:%d:%d", id.index, v/1000, id.size))
		case r < 85 && len(life.order) > 0:
			before := lastSi
			vPQSizeDone(out, rnd.IntN(len(life.order)), rnd.IntN(7) == 0, life, obs, &stShutErr)
			if lastSi != before {
				stCadence++
			}
		case r < 90:
			out.Linef("op shutdown")
			_ = life.pq.Shutdown(context.Background())
			life.stopped = true
			obs("-")
		case r < 97:
			restart() // without Shutdown: the process was killed
		default:
			i-- // nothing applicable, draw again
			if rnd.IntN(50) == 0 {
				i++
			}
		}
	}
	if nontrivial {
		out.Linef("nt")
	}
	out.Linef("stat pqsize_restarts %d", stRestarts)
	out.Linef("stat pqsize_restarts_with_dispatched_items %d", stRestartDisp)
	out.Linef("stat pqsize_snapshot_changes_at_offer_or_done %d", stCadence)
	out.Linef("stat pqsize_sizer_switches %d", stSwitch)
	out.Linef("stat pqsize_restart_size_above_capacity %d", stOver)
	out.Linef("stat pqsize_done_with_shutdown_error %d", stShutErr)
	out.Linef("stat pqsize_zero_sized_offers %d", stZero)
	out.Linef("stat pqsize_si_set_made_to_fail %d", stFailSi)
	out.Linef("stat pqsize_writes_whose_backup_failed %d", stFailedBackups)
	out.Linef("end")
}

func vPQSizeDone(out *vOut, k int, shutErr bool, life *vRLife, obs func(string), stShutErr *int) {
	idx := life.order[k]
	life.order = append(life.order[:k], life.order[k+1:]...)
	done := life.dones[idx]
	delete(life.dones, idx)
	out.Linef("op done %d %d", idx, vB(shutErr))
	var err error
	if shutErr {
		*stShutErr++
		err = experr.NewShutdownErr(errors.New("verif"))
	}
	done.OnDone(err)
	obs("-")
}

