//go:build verif

package queuebatch

import (
	"context"
	"errors"
	"fmt"
	"os"
	"runtime"
	"sort"
	"strings"
	"sync"
	"sync/atomic"
	"testing"
	"testing/synctest"
	"time"

	"go.opentelemetry.io/collector/exporter/exporterhelper/internal/experr"
	"go.opentelemetry.io/collector/exporter/exporterhelper/internal/request"
)

type vReq struct {
	id   int
	size int64
}

type vErr int

func (e vErr) Error() string { return fmt.Sprintf("verr%d", int(e)) }

func vErrStr(err error) string {
	var ve vErr
	switch {
	case err == nil:
		return "nil"
	case errors.Is(err, ErrQueueIsFull):
		return "full"
	case errors.Is(err, errInvalidSize):
		return "inv"
	case errors.Is(err, errSizeTooLarge):
		return "big"
	case errors.Is(err, context.Canceled):
		return "ctx"
	case errors.As(err, &ve):
		return fmt.Sprintf("e%d", int(ve))
	case strings.Contains(err.Error(), "sending queue is stopped"):
		return "stopped"
	}
	return "other:" + vHex(err.Error())
}

type vQOp struct {
	kind  string // offer cancel read done shutdown burst
	a     int
	b     int64
	burst []vQBurst
}

type vQProd struct {
	ctx     context.Context
	cancel  context.CancelFunc
	started bool
	ret     bool
	res     string
	canc    bool
	size    int64
}

type vQCons struct {
	started   bool
	blocked   bool
	last      string
	parkAt    int  // order in which the slots issued their Read
	gotAt     int  // order in which Reads returned an item
	fresh     bool // got an item since the previous snapshot
	wasParked bool // was blocked at the previous snapshot
}

type vQBurst struct {
	p  int
	el int64
}

// vQRun is one memory queue plus the goroutines the script has started so far.
type vQRun struct {
	mu       sync.Mutex
	out      *vOut
	// the queue under test, behind closures so that the memory and the persistent queue share the script runner
	offerFn    func(ctx context.Context, id int, size int64) error
	readFn     func() (int, Done, bool)
	sizeFn     func() int64
	qidsFn     func() []int // ids still queued, head first (read from the implementation's own structures)
	shutdownFn func()
	shutErr3   bool   // `done id 3` completes with a shutdown-classified error (persistent queue)
	restoreOp  string // persistent queue restarted on non-empty storage: `op restore size=<restored> id el ...`
	prods    map[int]*vQProd
	cons     map[int]*vQCons
	dones    map[int]Done
	handed   []int // handed, OnDone not called yet
	pendDone int
	seq      int
	gotSeq   int
	seen     map[int]bool // ids seen in the list or handed: accepted
	capacity int64
	fitsBlocked, stuckAfterShutdown int // quiescent states with a space-blocked producer whose request fits / on an empty stopped queue
	spaceBlk bool         // some producer was blocked waiting for space at a quiescent point
	shut     bool
}

func (r *vQRun) prod(p int) *vQProd {
	x := r.prods[p]
	if x == nil {
		ctx, cancel := context.WithCancel(context.Background())
		x = &vQProd{ctx: ctx, cancel: cancel}
		r.prods[p] = x
	}
	return x
}

func (r *vQRun) snapshot() {
	synctest.Wait()
	r.mu.Lock()
	defer r.mu.Unlock()
	var q []string
	for _, id := range r.qidsFn() {
		q = append(q, fmt.Sprint(id))
		r.seen[id] = true
	}
	var ps, cs []string
	var pk, ck []int
	for p, x := range r.prods {
		if x.started {
			pk = append(pk, p)
		}
	}
	for c, x := range r.cons {
		if x.started {
			ck = append(ck, c)
		}
	}
	sort.Ints(pk)
	sort.Ints(ck)
	for _, p := range pk {
		x := r.prods[p]
		st := "B"
		if x.ret {
			st = x.res
		} else if !r.seen[p] {
			r.spaceBlk = true
			if sz := r.sizeFn(); sz+x.size <= r.capacity && x.size > 0 {
				r.fitsBlocked++
				if r.shut && sz == 0 {
					r.stuckAfterShutdown++
				}
			}
		}
		ps = append(ps, fmt.Sprintf("%d:%s", p, st))
	}
	// Consumer slots are anonymous: when several parked slots were served in one step (burst), which slot got which
	// request depends on the runtime's run-queue order. Canonical form: the slot parked first holds the request popped first.
	var served []*vQCons
	for _, c := range ck {
		if x := r.cons[c]; x.fresh && x.wasParked && !x.blocked && strings.HasPrefix(x.last, "i") {
			served = append(served, x)
		}
	}
	if len(served) > 1 {
		byPark := append([]*vQCons(nil), served...)
		sort.Slice(byPark, func(i, j int) bool { return byPark[i].parkAt < byPark[j].parkAt })
		sort.Slice(served, func(i, j int) bool { return served[i].gotAt < served[j].gotAt })
		lasts := make([]string, len(served))
		for i, x := range served {
			lasts[i] = x.last
		}
		for i, x := range byPark {
			x.last = lasts[i]
		}
	}
	for _, c := range ck {
		x := r.cons[c]
		x.fresh, x.wasParked = false, x.blocked
	}
	for _, c := range ck {
		x := r.cons[c]
		st := x.last
		if x.blocked {
			st = "B"
		}
		cs = append(cs, fmt.Sprintf("%d:%s", c, st))
	}
	j := func(xs []string) string {
		if len(xs) == 0 {
			return "-"
		}
		return strings.Join(xs, ",")
	}
	r.out.Linef("obs size=%d Q=%s P=%s C=%s", r.sizeFn(), j(q), j(ps), j(cs))
	if r.pendDone > 0 {
		r.out.Linef("viol sig=C02/queue/ondone-blocked OnDone did not return at quiescence")
	}
}

func (r *vQRun) apply(op vQOp) {
	switch op.kind {
	case "offer":
		r.out.Linef("op offer %d %d", op.a, op.b)
		x := r.prod(op.a)
		x.started, x.size = true, op.b
		go func() {
			err := r.offerFn(x.ctx, op.a, op.b)
			r.mu.Lock()
			x.ret, x.res = true, vErrStr(err)
			r.mu.Unlock()
		}()
	case "burst":
		// one producer goroutine, several Offers back to back (the generator makes sure all of them fit)
		var sb strings.Builder
		var xs []*vQProd
		for _, b := range op.burst {
			fmt.Fprintf(&sb, " %d %d", b.p, b.el)
			x := r.prod(b.p)
			x.started, x.size = true, b.el
			xs = append(xs, x)
		}
		r.out.Linef("op burst%s", sb.String())
		go func() {
			for i, b := range op.burst {
				err := r.offerFn(xs[i].ctx, b.p, b.el)
				r.mu.Lock()
				xs[i].ret, xs[i].res = true, vErrStr(err)
				r.mu.Unlock()
			}
		}()
	case "cancel":
		r.out.Linef("op cancel %d", op.a)
		x := r.prod(op.a)
		x.canc = true
		x.cancel()
	case "read":
		r.out.Linef("op read %d", op.a)
		x := r.cons[op.a]
		if x == nil {
			x = &vQCons{}
			r.cons[op.a] = x
		}
		x.started, x.blocked = true, true
		r.seq++
		x.parkAt = r.seq
		go func() {
			id, done, ok := r.readFn()
			r.mu.Lock()
			x.blocked = false
			if ok {
				r.gotSeq++
				x.gotAt, x.fresh = r.gotSeq, true
				x.last = fmt.Sprintf("i%d", id)
				r.dones[id] = done
				r.seen[id] = true
				r.handed = append(r.handed, id)
			} else {
				x.last = "S"
			}
			r.mu.Unlock()
		}()
	case "done":
		r.out.Linef("op done %d %d", op.a, op.b)
		d := r.dones[op.a]
		delete(r.dones, op.a)
		if d == nil {
			// a corpus script completes a request the implementation never handed over (it diverged from the model earlier,
			// e.g. refused the request): nothing to call; the model answers `bad-step`, the difference is reported
			break
		}
		for i, id := range r.handed {
			if id == op.a {
				r.handed = append(r.handed[:i:i], r.handed[i+1:]...)
				break
			}
		}
		var err error
		if op.b != 0 {
			err = vErr(op.b)
			if r.shutErr3 && op.b == 3 {
				// persistent queue: an outcome classified as shutdown error (what the retry sender returns once it is stopped):
				// the item stays stored and dispatched, the size is released and the blocked producers must be woken all the same
				err = experr.NewShutdownErr(err)
			}
		}
		r.mu.Lock()
		r.pendDone++
		r.mu.Unlock()
		go func() {
			d.OnDone(err)
			r.mu.Lock()
			r.pendDone--
			r.mu.Unlock()
		}()
	case "shutdown":
		r.out.Linef("op shutdown")
		r.shut = true
		r.shutdownFn()
	}
	r.snapshot()
}

// TestVerifC02Queue: the real memoryQueue in a synctest bubble; producers, consumers and completions are
// goroutines; after every label the bubble runs to quiescence and Size(), the linked list, and what every
// Offer/Read returned are recorded.
func TestVerifC02Queue(t *testing.T) {
	out := vOpen(t)
	defer out.Close()
	out.Linef("model c02-queue 1")
	// one P: the Offers of a burst run back to back before any consumer they wake gets to run
	defer runtime.GOMAXPROCS(runtime.GOMAXPROCS(1))
	n := vN(1500)
	// One bubble for all cases: blockingDonePool is a process-wide sync.Pool, and a channel made in one
	// bubble must not be used from another. The hang watchdog lives outside the bubble (real time).
	var progress atomic.Int64
	stop := make(chan struct{})
	go func() {
		last, lastT := int64(-1), time.Now()
		for {
			select {
			case <-stop:
				return
			case <-time.After(2 * time.Second):
			}
			if p := progress.Load(); p != last {
				last, lastT = p, time.Now()
			} else if time.Since(lastT) > 120*time.Second {
				out.Linef("viol sig=C02/harness/hang queue case-counter=%d", p)
				out.Linef("end")
				out.Flush()
				os.Exit(3)
			}
		}
	}()
	synctest.Test(t, func(t *testing.T) {
		for _, c := range vCases(n) {
			vQueueCase(out, c, false, vNewMemoryRun)
			out.Flush()
			progress.Add(1)
		}
	})
	close(stop)
}

// vSetRestoreRnd is replaced by the persistent harness file (the memory harness is injected without it).
var vSetRestoreRnd = func(any) {}

// vNewMemoryRun wires a real memoryQueue into the script runner.
func vNewMemoryRun(out *vOut, capacity int64, block, wfr, _ bool) *vQRun {
	sizer := request.SizeofFunc[vReq](func(r vReq) int64 { return r.size })
	q := newMemoryQueue[vReq](memoryQueueSettings[vReq]{sizer: sizer, capacity: capacity, waitForResult: wfr, blockOnOverflow: block})
	mq := q.(*memoryQueue[vReq])
	return &vQRun{
		out:     out,
		offerFn: func(ctx context.Context, id int, size int64) error { return q.Offer(ctx, vReq{id: id, size: size}) },
		readFn: func() (int, Done, bool) {
			_, req, done, ok := q.Read(context.Background())
			return req.id, done, ok
		},
		sizeFn: q.Size,
		qidsFn: func() []int {
			var ids []int
			mq.mu.Lock()
			for n := mq.items.head; n != nil; n = n.next {
				ids = append(ids, n.data.id)
			}
			mq.mu.Unlock()
			return ids
		},
		shutdownFn: func() { _ = q.Shutdown(context.Background()) },
		prods:      map[int]*vQProd{}, cons: map[int]*vQCons{}, dones: map[int]Done{}, seen: map[int]bool{},
	}
}

func vQueueCase(out *vOut, c int, persistent bool, mk func(out *vOut, capacity int64, block, wfr, reqSized bool) *vQRun) {
	rnd := vRand(c)
	capacity := int64(1 + rnd.IntN(10))
	block := rnd.IntN(3) != 0
	wfr := rnd.IntN(3) == 0
	reqSized := rnd.IntN(4) == 0
	// corpus (memory queue), always run first:
	//  0 former head-of-line witness: a completion must wake EVERY producer waiting for space (each re-checks its own size)
	//  1 Shutdown with two producers blocked on overflow: both must be released (refused), nobody stays on the stopped queue
	var corpus []vQOp
	if !persistent && c == 0 {
		capacity, block, wfr = 10, true, false
		corpus = []vQOp{{kind: "offer", a: 0, b: 9}, {kind: "offer", a: 1, b: 5}, {kind: "offer", a: 2, b: 2}, {kind: "read", a: 0}, {kind: "done", a: 0, b: 0}}
	}
	if !persistent && c == 1 {
		capacity, block, wfr = 2, true, false
		corpus = []vQOp{{kind: "offer", a: 0, b: 2}, {kind: "offer", a: 1, b: 1}, {kind: "offer", a: 2, b: 1}, {kind: "read", a: 0}, {kind: "shutdown"}, {kind: "done", a: 0, b: 0}}
	}
	if persistent {
		wfr = false
		out.Linef("case %d cap=%d block=%d wfr=0 requests_sizer=%d", c, capacity, vB(block), vB(reqSized))
	} else {
		reqSized = false
		out.Linef("case %d cap=%d block=%d wfr=%d", c, capacity, vB(block), vB(wfr))
	}
	if persistent {
		vSetRestoreRnd(rnd)
	}
	r := mk(out, capacity, block, wfr, reqSized)
	r.capacity = capacity
	if r.restoreOp != "" {
		out.Linef("%s", r.restoreOp)
		r.snapshot()
	}
	nCons := 1 + rnd.IntN(3)
	maxProd := 3 + rnd.IntN(8)
	nextP := 0
	nBursts := 0
	everBlocked := false
	blockedProds := func() []int {
		r.mu.Lock()
		defer r.mu.Unlock()
		var b []int
		for p, x := range r.prods {
			if x.started && !x.ret {
				b = append(b, p)
			}
		}
		sort.Ints(b)
		return b
	}
	freeCons := func() []int {
		r.mu.Lock()
		defer r.mu.Unlock()
		var f []int
		for i := 0; i < nCons; i++ {
			if x := r.cons[i]; x == nil || !x.blocked {
				f = append(f, i)
			}
		}
		return f
	}
	genSize := func() int64 {
		switch k := rnd.IntN(20); {
		case k == 0:
			return 0
		case k == 1 && !persistent:
			return -int64(1 + rnd.IntN(3))
		case k == 2:
			return capacity + int64(1+rnd.IntN(3))
		case k < 8:
			return capacity - int64(rnd.IntN(2)) // close to the capacity (0 when cap=1: the zero-size guard)
		default:
			return int64(1 + rnd.IntN(int(capacity)))
		}
	}
	steps := 5 + rnd.IntN(56)
	if corpus != nil {
		steps = 0
		for _, op := range corpus {
			if op.kind == "offer" {
				nextP = op.a + 1
			}
			r.apply(op)
		}
	}
	for k := 0; k < steps; k++ {
		bp := blockedProds()
		if len(bp) > 0 {
			everBlocked = true
		}
		fc := freeCons()
		var cands []vQOp
		if nextP < maxProd && !(persistent && r.shut) { // no Offer to a persistent queue after Shutdown: its storage client may be closed
			for w := 0; w < 4; w++ {
				cands = append(cands, vQOp{kind: "offer", a: nextP, b: 0})
			}
		}
		for _, p := range bp {
			if !r.prods[p].canc {
				cands = append(cands, vQOp{kind: "cancel", a: p, b: 0})
			}
		}
		for _, cc := range fc {
			cands = append(cands, vQOp{kind: "read", a: cc, b: 0}, vQOp{kind: "read", a: cc, b: 0})
		}
		for _, id := range r.handed {
			cands = append(cands, vQOp{kind: "done", a: id, b: 0}, vQOp{kind: "done", a: id, b: 0}, vQOp{kind: "done", a: id, b: 0})
		}
		if !r.shut && rnd.IntN(40) == 0 {
			cands = append(cands, vQOp{kind: "shutdown", a: 0, b: 0})
		}
		if !wfr && nextP+3 <= maxProd && !(persistent && r.shut) {
			parked := nCons - len(fc)
			for w := 0; w < 1+2*parked; w++ {
				cands = append(cands, vQOp{kind: "burst"})
			}
		}
		if len(cands) == 0 {
			break
		}
		op := cands[rnd.IntN(len(cands))]
		if op.kind == "shutdown" && persistent {
			// a producer released after the persistent queue closed its storage client would write to a closed client
			// (the mock panics, a real client errors): end the blocked contexts first
			for _, p := range blockedProds() {
				if !r.prods[p].canc {
					r.apply(vQOp{kind: "cancel", a: p})
				}
			}
		}
		switch op.kind {
		case "burst":
			// 2-3 requests that all fit, so that no Offer of the burst can block
			free := capacity - r.sizeFn()
			k := 2 + rnd.IntN(2)
			for i := 0; i < k && free >= 1; i++ {
				el := int64(1)
				if !reqSized && free > int64(k-i) {
					el = 1 + int64(rnd.IntN(int(free-int64(k-i))))
				}
				free -= el
				op.burst = append(op.burst, vQBurst{nextP, el})
				nextP++
			}
			if len(op.burst) < 2 {
				nextP -= len(op.burst)
				continue
			}
			nBursts++
		case "offer":
			op.b = genSize()
			if reqSized {
				op.b = 1 // what the requests sizer reports, whatever the payload
			}
			if rnd.IntN(12) == 0 {
				r.apply(vQOp{kind: "cancel", a: nextP, b: 0}) // context already ended when Offer is called
			}
			nextP++
		case "done":
			op.b = int64(rnd.IntN(4))
			if rnd.IntN(2) == 0 {
				op.b = 0
			}
		}
		r.apply(op)
	}
	// finishing phase: drain so that every accepted request finishes, then stop
	for k := 0; k < 400; k++ {
		if len(r.handed) > 0 {
			r.apply(vQOp{kind: "done", a: r.handed[0], b: int64(rnd.IntN(3))})
			continue
		}
		if len(blockedProds()) > 0 {
			everBlocked = true
		}
		has := len(r.qidsFn()) > 0
		fc := freeCons()
		if has && len(fc) > 0 && !(persistent && r.shut) { // a stopped persistent queue hands nothing over any more
			r.apply(vQOp{kind: "read", a: fc[0], b: 0})
			continue
		}
		if bp := blockedProds(); len(bp) > 0 && !has {
			// nothing queued, nothing in flight: whoever is still blocked waits for a result that cannot come
			// (its context is what ends the wait) or is a lost wake-up, which the oracle flags
			r.apply(vQOp{kind: "cancel", a: bp[0], b: 0})
			continue
		}
		break
	}
	if !r.shut {
		r.apply(vQOp{kind: "shutdown", a: 0, b: 0})
	}
	if fc := freeCons(); len(fc) > 0 {
		r.apply(vQOp{kind: "read", a: fc[0], b: 0})
	}
	for _, x := range r.prods {
		x.cancel()
	}
	synctest.Wait()
	if r.spaceBlk {
		out.Linef("nt")
	}
	out.Linef("stat queue_cases_block%d_wfr%d_persistent%d 1", vB(block), vB(wfr), vB(persistent))
	out.Linef("stat queue_producers %d", nextP)
	out.Linef("stat queue_bursts %d", nBursts)
	out.Linef("stat queue_quiescent_blocked_although_fits %d", r.fitsBlocked)
	out.Linef("stat queue_quiescent_blocked_on_empty_stopped_queue %d", r.stuckAfterShutdown)
	out.Linef("stat queue_ever_blocked %d", vB(everBlocked))
	out.Linef("stat queue_blocked_for_space %d", vB(r.spaceBlk))
	out.Linef("end")
}
