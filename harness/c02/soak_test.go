//go:build verif

package queuebatch

import (
	"context"
	"fmt"
	"os"
	"runtime"
	"sync"
	"sync/atomic"
	"testing"
	"time"

	"go.opentelemetry.io/collector/component"
	"go.opentelemetry.io/collector/component/componenttest"
	"go.opentelemetry.io/collector/exporter/exporterhelper/internal/hosttest"
	"go.opentelemetry.io/collector/exporter/exporterhelper/internal/request"
	"go.opentelemetry.io/collector/exporter/exporterhelper/internal/storagetest"
	"go.opentelemetry.io/collector/exporter/exportertest"
	"go.opentelemetry.io/collector/pipeline"
)

type vSoakSizer struct{}

func (vSoakSizer) Sizeof(v uint64) int64 { return int64(v % 1000) }

// value = id*1000 + size, id = producer*1000 + k

// TestVerifC02Soak: the real queues (memory and persistent) behind the real asyncQueue, native scheduler, several
// producer goroutines offering concurrently with contexts that end at random moments, 1-3 consumers completing inline
// or from other goroutines. Only an event log is written (`tr` lines); the Lean monitor `soakVerdict` judges it.
func TestVerifC02Soak(t *testing.T) {
	out := vOpen(t)
	defer out.Close()
	out.Linef("model c02-soak 1")
	n := vN(100)
	for _, c := range vCases(n) {
		if c < 2 {
			vSoakLongCase(out, c) // corpus: long runs of the persistent queue with request identity checked
		} else {
			vSoakCase(out, c)
		}
		out.Flush()
	}
}

// vSoakLongCase: >= 1300 requests through ONE real persistent queue, one consumer, requests sizer, tiny payloads that carry
// their id (case 0: strictly one at a time; case 1: up to 8 queued/in flight). The item indexes run far beyond the short
// random cases, so every stored request must come back under its own key: the monitor checks that only offered requests
// are handed over, each exactly once, in order, and that every accepted one is.
func vSoakLongCase(out *vOut, c int) {
	const total = 1400
	capacity := int64(1)
	if c == 1 {
		capacity = 8
	}
	out.Linef("case %d cap=%d block=1 wfr=0 persistent=1 consumers=1 producers=1 long=%d", c, capacity, total)
	var logMu sync.Mutex
	var log []string
	ev := func(f string, a ...any) {
		logMu.Lock()
		log = append(log, fmt.Sprintf(f, a...))
		logMu.Unlock()
	}
	pq := newPersistentQueue[uint64](persistentQueueSettings[uint64]{
		sizer: request.RequestsSizer[uint64]{}, capacity: capacity, blockOnOverflow: true, signal: pipeline.SignalTraces, storageID: component.ID{},
		encoding: uint64Encoding{}, id: component.NewID(exportertest.NopType), telemetry: componenttest.NewNopTelemetrySettings(),
	})
	var finished atomic.Int64
	q := newAsyncQueue(pq, 1, func(_ context.Context, v uint64, done Done) {
		id := v / 1000
		if id > 1<<40 {
			id = 1 << 40 // something that is not a request at all: keep the event parsable
		}
		ev("hand %d", id)
		ev("fin %d 0", id)
		done.OnDone(nil)
		finished.Add(1)
	})
	host := hosttest.NewHost(map[component.ID]component.Component{{}: storagetest.NewMockStorageExtension(nil)})
	if err := q.Start(context.Background(), host); err != nil {
		out.Linef("viol sig=C02/harness/soak-start %s", vHex(err.Error()))
		out.Linef("end")
		return
	}
	flush := func() {
		for _, l := range log {
			out.Linef("tr %s", l)
		}
	}
	offered := 0
	for ; offered < total; offered++ {
		ctx, cancel := context.WithTimeout(context.Background(), 5*time.Second)
		err := q.Offer(ctx, uint64(offered)*1000+1)
		cancel()
		ev("ret %d 1 %s", offered, vErrStr(err))
		if err != nil {
			break // the queue stopped moving: the monitor reports what was accepted and never handed over
		}
	}
	deadline := time.Now().Add(5 * time.Second)
	for finished.Load() < int64(offered) && time.Now().Before(deadline) {
		time.Sleep(200 * time.Microsecond)
	}
	ev("final %d", q.Size())
	shut := make(chan struct{})
	go func() { _ = q.Shutdown(context.Background()); close(shut) }()
	select {
	case <-shut:
	case <-time.After(10 * time.Second):
		out.Linef("viol sig=C02/soak/hang long persistent run: Shutdown did not return (case %d)", c)
	}
	flush()
	out.Linef("nt")
	out.Linef("stat soak_long_offers %d", offered)
	out.Linef("end")
}

func vSoakCase(out *vOut, c int) {
	rnd := vRand(c)
	capacity := int64(1 + rnd.IntN(12))
	block := rnd.IntN(4) != 0
	persistent := rnd.IntN(3) == 0
	wfr := !persistent && rnd.IntN(3) == 0
	nCons := 1 + rnd.IntN(3)
	nProd := 2 + rnd.IntN(5)
	perProd := 5 + rnd.IntN(26)
	out.Linef("case %d cap=%d block=%d wfr=%d persistent=%d consumers=%d producers=%d", c, capacity, vB(block), vB(wfr), vB(persistent), nCons, nProd)

	var logMu sync.Mutex
	var log []string
	ev := func(f string, a ...any) {
		logMu.Lock()
		log = append(log, fmt.Sprintf(f, a...))
		logMu.Unlock()
	}
	var rq readableQueue[uint64]
	if persistent {
		pq := newPersistentQueue[uint64](persistentQueueSettings[uint64]{
			sizer: vSoakSizer{}, capacity: capacity, blockOnOverflow: block, signal: pipeline.SignalTraces, storageID: component.ID{},
			encoding: uint64Encoding{}, id: component.NewID(exportertest.NopType), telemetry: componenttest.NewNopTelemetrySettings(),
		})
		rq = pq
	} else {
		rq = newMemoryQueue[uint64](memoryQueueSettings[uint64]{
			sizer: request.SizeofFunc[uint64](func(v uint64) int64 { return int64(v % 1000) }), capacity: capacity, waitForResult: wfr, blockOnOverflow: block,
		})
	}
	var inflight atomic.Int64
	var completions sync.WaitGroup
	// per-case plan of completion errors and styles, drawn up front (the consume function runs on consumer goroutines)
	type plan struct {
		e     int
		async bool
	}
	plans := make([]plan, (nProd+1)*1000) // producer nProd = the stall phase
	for i := range plans {
		if i%1000 < perProd {
			plans[i] = plan{e: []int{0, 0, 0, 1, 2}[rnd.IntN(5)], async: rnd.IntN(3) == 0}
		}
	}
	gate := make(chan struct{}) // completions of the stall phase are held back until it is closed
	var stallHanded atomic.Int64
	consume := func(_ context.Context, v uint64, done Done) {
		id := int(v / 1000)
		ev("hand %d", id)
		if id/1000 == nProd {
			stallHanded.Add(1)
			<-gate
		}
		pl := plans[id]
		var err error
		if pl.e != 0 {
			err = vErr(pl.e)
		}
		fin := func() {
			ev("fin %d %d", id, pl.e)
			done.OnDone(err)
			inflight.Add(-1)
		}
		inflight.Add(1)
		if pl.async {
			completions.Add(1)
			go func() {
				defer completions.Done()
				runtime.Gosched()
				fin()
			}()
		} else {
			fin()
		}
	}
	q := newAsyncQueue(rq, nCons, consume)
	host := hosttest.NewHost(map[component.ID]component.Component{{}: storagetest.NewMockStorageExtension(nil)})
	if err := q.Start(context.Background(), host); err != nil {
		out.Linef("viol sig=C02/harness/soak-start %s", vHex(err.Error()))
		out.Linef("end")
		return
	}
	// stall phase: all consumers idle, as many size-1 requests as there are consumers enqueued back to back by one
	// goroutine, nobody completes: every one of them must be handed over (no request beside an idle consumer)
	if k := min(nCons, int(capacity)); k >= 2 && !wfr {
		time.Sleep(2 * time.Millisecond) // let the consumers park in Read
		for i := 0; i < k; i++ {
			id := nProd*1000 + i
			err := q.Offer(context.Background(), uint64(id)*1000+1)
			ev("ret %d 1 %s", id, vErrStr(err))
		}
		deadline := time.Now().Add(2 * time.Second)
		for stallHanded.Load() < int64(k) && time.Now().Before(deadline) {
			time.Sleep(100 * time.Microsecond)
		}
		ev("stall %d %d", stallHanded.Load(), k)
	}
	close(gate)
	// producers
	type offer struct {
		size     int64
		cancelIn time.Duration // <0: never
	}
	plansP := make([][]offer, nProd)
	for p := range plansP {
		for k := 0; k < perProd; k++ {
			var sz int64
			switch r := rnd.IntN(20); {
			case r == 0:
				sz = 0
			case r == 1:
				sz = capacity + int64(1+rnd.IntN(3))
			case r < 6:
				sz = capacity - int64(rnd.IntN(2))
			default:
				sz = int64(1 + rnd.IntN(int(capacity)))
			}
			cin := time.Duration(-1)
			if rnd.IntN(4) == 0 {
				cin = time.Duration(rnd.IntN(300)) * time.Microsecond
			}
			plansP[p] = append(plansP[p], offer{sz, cin})
		}
	}
	stopSampler := make(chan struct{})
	var samplerDone sync.WaitGroup
	samplerDone.Add(1)
	go func() {
		defer samplerDone.Done()
		seen := map[int64]bool{}
		for {
			select {
			case <-stopSampler:
				return
			default:
			}
			if s := q.Size(); !seen[s] {
				seen[s] = true
				ev("size %d", s)
			}
			runtime.Gosched()
		}
	}()
	var prodWG sync.WaitGroup
	for p := 0; p < nProd; p++ {
		prodWG.Add(1)
		go func() {
			defer prodWG.Done()
			for k, o := range plansP[p] {
				id := p*1000 + k
				ctx, cancel := context.WithCancel(context.Background())
				var tm *time.Timer
				if o.cancelIn >= 0 {
					tm = time.AfterFunc(o.cancelIn, cancel)
				}
				err := q.Offer(ctx, uint64(id)*1000+uint64(o.size))
				if tm != nil {
					tm.Stop()
				}
				cancel()
				ev("ret %d %d %s", id, o.size, vErrStr(err))
			}
		}()
	}
	waitOr := func(what string, f func() bool) bool {
		deadline := time.Now().Add(60 * time.Second)
		for !f() {
			if time.Now().After(deadline) {
				out.Linef("viol sig=C02/soak/hang %s: producers/consumers did not come to rest within 60s (case %d)", what, c)
				for _, l := range log {
					out.Linef("tr %s", l)
				}
				out.Linef("end")
				out.Flush()
				os.Exit(3)
			}
			time.Sleep(200 * time.Microsecond)
		}
		return true
	}
	doneCh := make(chan struct{})
	go func() { prodWG.Wait(); close(doneCh) }()
	waitOr("producers", func() bool {
		select {
		case <-doneCh:
			return true
		default:
			return false
		}
	})
	// drained: nothing queued and nothing handed-but-unfinished, read from the queue's own bookkeeping under its lock
	drained := func() bool {
		switch x := rq.(type) {
		case *memoryQueue[uint64]:
			x.mu.Lock()
			defer x.mu.Unlock()
			return !x.items.hasElements() && x.size == 0
		case *persistentQueue[uint64]:
			x.mu.Lock()
			defer x.mu.Unlock()
			return x.readIndex == x.writeIndex && len(x.currentlyDispatchedItems) == 0
		}
		return false
	}
	waitOr("drain", func() bool { return drained() && inflight.Load() == 0 })
	completions.Wait()
	close(stopSampler)
	samplerDone.Wait()
	ev("final %d", q.Size())
	shut := make(chan struct{})
	go func() { _ = q.Shutdown(context.Background()); close(shut) }()
	waitOr("shutdown", func() bool {
		select {
		case <-shut:
			return true
		default:
			return false
		}
	})
	for _, l := range log {
		out.Linef("tr %s", l)
	}
	out.Linef("nt")
	out.Linef("stat soak_offers %d", nProd*perProd)
	out.Linef("stat soak_persistent %d", vB(persistent))
	out.Linef("end")
}
