//go:build verif

package queuebatch

import (
	"fmt"
	"strings"
	"testing"
	"time"

	"go.opentelemetry.io/collector/component"
	"go.opentelemetry.io/collector/exporter/exporterhelper/internal/request"
)

func vValErr(err error) string {
	if err == nil {
		return "ok"
	}
	m := err.Error()
	switch {
	case strings.Contains(m, "`num_consumers` must be positive"):
		return "num_consumers"
	case strings.Contains(m, "`queue_size` must be positive"):
		return "queue_size"
	case strings.Contains(m, "`wait_for_result` is not supported"):
		return "wfr_storage"
	case strings.Contains(m, "only supports `requests` sizer"):
		return "sizer_storage"
	case strings.Contains(m, "`batch` supports only"):
		return "batch_sizer"
	case strings.Contains(m, "`flush_timeout` must be positive"):
		return "flush_timeout"
	case strings.Contains(m, "`min_size` must be non-negative"):
		return "min_size"
	case strings.Contains(m, "`max_size` must be non-negative"):
		return "max_size"
	case strings.Contains(m, "`max_size` must be greater or equal to `min_size`"):
		return "max_lt_min"
	}
	return "other:" + vHex(m)
}

// TestVerifC02Validate: Config.Validate and BatchConfig.Validate on generated configurations - mostly around the edges
// (0, -1, 1, storage with each sizer, wait_for_result, batch with each sizer) - diffed against Model/C02V.lean; what was ACCEPTED
// is judged by the clause that carries the queue theorems' hypotheses.
func TestVerifC02Validate(t *testing.T) {
	out := vOpen(t)
	defer out.Close()
	out.Linef("model c02-validate 1")
	n := vN(1000)
	edge := []int64{-3, -1, 0, 0, 1, 1, 2, 7, 1000}
	for _, c := range vCases(n) {
		rnd := vRand(c)
		sizers := []request.SizerType{request.SizerTypeRequests, request.SizerTypeItems, request.SizerTypeBytes, {}}
		names := []string{"requests", "items", "bytes", "other"}
		si := rnd.IntN(4)
		if rnd.IntN(3) != 0 {
			si = rnd.IntN(3)
		}
		cfg := Config{
			Enabled: rnd.IntN(6) != 0, WaitForResult: rnd.IntN(3) == 0, Sizer: sizers[si], QueueSize: edge[rnd.IntN(len(edge))],
			BlockOnOverflow: rnd.IntN(2) == 0, NumConsumers: int(edge[rnd.IntN(len(edge))]),
		}
		if rnd.IntN(3) == 0 {
			id := component.MustNewID("vstorage")
			cfg.StorageID = &id
		}
		batch := "-"
		if rnd.IntN(2) == 0 {
			b := &BatchConfig{FlushTimeout: time.Duration(edge[rnd.IntN(len(edge))]), MinSize: edge[rnd.IntN(len(edge))], MaxSize: edge[rnd.IntN(len(edge))]}
			cfg.Batch = b
			batch = fmt.Sprintf("%d,%d,%d", int64(b.FlushTimeout), b.MinSize, b.MaxSize)
		}
		out.Linef("case %d", c)
		out.Linef("op validate enabled=%d consumers=%d queue_size=%d storage=%d wfr=%d sizer=%s batch=%s", vB(cfg.Enabled), cfg.NumConsumers,
			cfg.QueueSize, vB(cfg.StorageID != nil), vB(cfg.WaitForResult), names[si], batch)
		err := cfg.Validate()
		out.Linef("obs config=%s batch=%s", vValErr(err), vValErr(cfg.Batch.Validate()))
		out.Linef("tr accepted=%d enabled=%d consumers=%d queue_size=%d storage=%d wfr=%d req=%d", vB(err == nil), vB(cfg.Enabled), cfg.NumConsumers,
			cfg.QueueSize, vB(cfg.StorageID != nil), vB(cfg.WaitForResult), vB(si == 0))
		if err != nil || cfg.Batch != nil {
			out.Linef("nt")
		}
		out.Linef("stat validate_%s 1", vValErr(err))
		out.Linef("end")
		out.Flush()
	}
}
