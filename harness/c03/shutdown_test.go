//go:build verif

package exporterhelper

// C03 harness: the REAL logs exporter built by exporterhelper.NewLogs (obsreport -> queue/batcher -> retry -> timeout -> pusher)
// over memory and persistent queues, run in one testing/synctest bubble (virtual time). A generated script sends
// requests (log records identified by integers), requests Shutdown at a generated instant, and a scripted backend
// succeeds / fails transiently / fails permanently / is slow. Every event is written in real order under one mutex:
//   tr acc|rej <rid> <ids>   Send returned (nil | error)          tr shutreq / tr shutret   around Shutdown
//   tr es <call> <ids>       export function entered              tr ee <call> <failed>     ... returned
//   tr wshut                 wrapped exporter's shutdown func     tr uac <op>               storage used after Close (consumer side)
//   tr recovered <ids>       items delivered by a NEW exporter started on the same storage (persistent queue)
//   tr leak <n>              goroutines left after Shutdown returned (relative to before the exporter was built)
// The Lean monitor (C03.verdict, proved sound) judges the trace; the Go oracle below computes the same verdict (obs line,
// compared with the Lean one) and emits `viol` lines with structural signatures.

import (
	"context"
	"errors"
	"fmt"
	"os"
	"reflect"
	"runtime"
	"sort"
	"strconv"
	"strings"
	"sync"
	"testing"
	"testing/synctest"
	"time"

	"github.com/cenkalti/backoff/v5"

	"go.opentelemetry.io/collector/component"
	"go.opentelemetry.io/collector/config/configretry"
	"go.opentelemetry.io/collector/consumer/consumererror"
	"go.opentelemetry.io/collector/exporter"
	"go.opentelemetry.io/collector/exporter/exporterhelper/internal"
	"go.opentelemetry.io/collector/exporter/exporterhelper/internal/hosttest"
	"go.opentelemetry.io/collector/exporter/exporterhelper/internal/request"
	"go.opentelemetry.io/collector/exporter/exportertest"
	"go.opentelemetry.io/collector/extension/xextension/storage"
	"go.opentelemetry.io/collector/pdata/plog"
	"go.opentelemetry.io/collector/pdata/pmetric"
	"go.opentelemetry.io/collector/pdata/ptrace"
)

// ---- storage extension (map) that reports consumer-side use after Close instead of panicking ------------------

type c03Storage struct {
	component.StartFunc
	component.ShutdownFunc
	mu     sync.Mutex
	st     map[string][]byte
	onUAC  func(op string)
	closed int
	// failSets: fault injection — plain Set writes (the queue-size snapshot of an items/bytes-sized persistent queue) fail
	failSets bool
	// failClose: fault injection — Close of the storage client reports an error (the client is closed nevertheless)
	failClose bool
}

type c03Client struct {
	ext    *c03Storage
	closed bool
}

func (e *c03Storage) GetClient(context.Context, component.Kind, component.ID, string) (storage.Client, error) {
	return &c03Client{ext: e}, nil
}

func (c *c03Client) Get(ctx context.Context, k string) ([]byte, error) {
	op := storage.GetOperation(k)
	err := c.Batch(ctx, op)
	return op.Value, err
}
func (c *c03Client) Set(ctx context.Context, k string, v []byte) error {
	c.ext.mu.Lock()
	fail := c.ext.failSets
	c.ext.mu.Unlock()
	if fail {
		return errors.New("injected: storage write failed")
	}
	return c.Batch(ctx, storage.SetOperation(k, v))
}
func (c *c03Client) Delete(ctx context.Context, k string) error {
	return c.Batch(ctx, storage.DeleteOperation(k))
}
func (c *c03Client) Close(context.Context) error {
	c.ext.mu.Lock()
	defer c.ext.mu.Unlock()
	c.closed = true
	c.ext.closed++
	if c.ext.failClose {
		return errors.New("injected: storage close failed")
	}
	return nil
}
func (c *c03Client) Batch(_ context.Context, ops ...*storage.Operation) error {
	c.ext.mu.Lock()
	defer c.ext.mu.Unlock()
	if c.closed {
		// an Offer (Set wi + Set item, Set si) arriving late is the caller's business; reads, deletes and index
		// updates come from the consumer side, which must hold a reference to the client
		consumerSide := false
		for _, op := range ops {
			if op.Type != storage.Set || op.Key == "ri" || op.Key == "di" {
				consumerSide = true
			}
		}
		if consumerSide && c.ext.onUAC != nil {
			c.ext.onUAC(fmt.Sprintf("%d:%s", ops[0].Type, ops[0].Key))
		}
		return errors.New("client closed")
	}
	for _, op := range ops {
		switch op.Type {
		case storage.Get:
			if v, ok := c.ext.st[op.Key]; ok {
				op.Value = v
			}
		case storage.Set:
			c.ext.st[op.Key] = op.Value
		case storage.Delete:
			delete(c.ext.st, op.Key)
		}
	}
	return nil
}

// ---- payloads ---------------------------------------------------------------------------------------------

func c03Logs(ids []int) plog.Logs {
	ld := plog.NewLogs()
	lrs := ld.ResourceLogs().AppendEmpty().ScopeLogs().AppendEmpty().LogRecords()
	for _, id := range ids {
		lrs.AppendEmpty().Body().SetInt(int64(id))
	}
	return ld
}

func c03IDs(ld plog.Logs) []int {
	var out []int
	for i := 0; i < ld.ResourceLogs().Len(); i++ {
		rl := ld.ResourceLogs().At(i)
		for j := 0; j < rl.ScopeLogs().Len(); j++ {
			sl := rl.ScopeLogs().At(j)
			for k := 0; k < sl.LogRecords().Len(); k++ {
				out = append(out, int(sl.LogRecords().At(k).Body().Int()))
			}
		}
	}
	return out
}

// signals: 0 logs (record body = id), 1 traces (span name = id), 2 metrics (one gauge metric per id, data point value = id)
const (
	c03SigLogs = iota
	c03SigTraces
	c03SigMetrics
)

var c03SigName = []string{"logs", "traces", "metrics"}

func c03Traces(ids []int) ptrace.Traces {
	td := ptrace.NewTraces()
	ss := td.ResourceSpans().AppendEmpty().ScopeSpans().AppendEmpty().Spans()
	for _, id := range ids {
		ss.AppendEmpty().SetName(strconv.Itoa(id))
	}
	return td
}

func c03TraceIDs(td ptrace.Traces) []int {
	var out []int
	for i := 0; i < td.ResourceSpans().Len(); i++ {
		rs := td.ResourceSpans().At(i)
		for j := 0; j < rs.ScopeSpans().Len(); j++ {
			ss := rs.ScopeSpans().At(j)
			for k := 0; k < ss.Spans().Len(); k++ {
				n, _ := strconv.Atoi(ss.Spans().At(k).Name())
				out = append(out, n)
			}
		}
	}
	return out
}

func c03Metrics(ids []int) pmetric.Metrics {
	md := pmetric.NewMetrics()
	ms := md.ResourceMetrics().AppendEmpty().ScopeMetrics().AppendEmpty().Metrics()
	for _, id := range ids {
		m := ms.AppendEmpty()
		m.SetName("m" + strconv.Itoa(id))
		m.SetEmptyGauge().DataPoints().AppendEmpty().SetIntValue(int64(id))
	}
	return md
}

func c03MetricIDs(md pmetric.Metrics) []int {
	var out []int
	for i := 0; i < md.ResourceMetrics().Len(); i++ {
		rm := md.ResourceMetrics().At(i)
		for j := 0; j < rm.ScopeMetrics().Len(); j++ {
			sm := rm.ScopeMetrics().At(j)
			for k := 0; k < sm.Metrics().Len(); k++ {
				m := sm.Metrics().At(k)
				if m.Type() != pmetric.MetricTypeGauge {
					continue
				}
				for l := 0; l < m.Gauge().DataPoints().Len(); l++ {
					out = append(out, int(m.Gauge().DataPoints().At(l).IntValue()))
				}
			}
		}
	}
	return out
}

// c03ReqIDs: the items of a request of the helper's own request types
func c03ReqIDs(req Request) []int {
	switch r := req.(type) {
	case *logsRequest:
		return c03IDs(r.ld)
	case *tracesRequest:
		return c03TraceIDs(r.td)
	case *metricsRequest:
		return c03MetricIDs(r.md)
	case *c03Req:
		return c03ReqIDs(r.inner)
	}
	return nil
}

func c03Encoding(sig int) QueueBatchEncoding[Request] {
	switch sig {
	case c03SigTraces:
		return tracesEncoding{}
	case c03SigMetrics:
		return metricsEncoding{}
	}
	return logsEncoding{}
}

// c03Req wraps the helper's request so that the batcher's MergeSplit calls (the Consume critical section) become
// observable; everything is delegated to the real request.
type c03Req struct {
	inner Request
	run   *c03Run
	min   int64
	size  func(Request) int64 // size of a (helper-typed) request under the batcher's sizer; nil = item count
}

func (r *c03Req) ItemsCount() int { return r.inner.ItemsCount() }

func (r *c03Req) MergeSplit(ctx context.Context, maxSize int, szt RequestSizerType, other Request) ([]Request, error) {
	var o Request
	var cur, req []int
	if other != nil {
		o = other.(*c03Req).inner
		cur = c03ReqIDs(r.inner)
		req = c03ReqIDs(o)
	} else {
		req = c03ReqIDs(r.inner)
	}
	res, err := r.inner.MergeSplit(ctx, maxSize, szt, o)
	out := make([]Request, len(res))
	ev := c03Ev{kind: "ms", first: other == nil, cur: cur, ids: req, failed: err != nil}
	for i := range res {
		out[i] = &c03Req{inner: res[i], run: r.run, min: r.min, size: r.size}
		ev.res = append(ev.res, c03ReqIDs(res[i]))
	}
	// default_batcher keeps the last result as the current batch iff it is smaller than min_size (items sizer)
	lastSize := func() int64 {
		n := len(res)
		if r.size != nil {
			return r.size(res[n-1])
		}
		return int64(len(ev.res[n-1]))
	}
	if n := len(ev.res); n > 0 && lastSize() < r.min {
		ev.keep = true
	}
	r.run.log(ev)
	return out, err
}

func (r *c03Req) OnError(err error) Request {
	if h, ok := r.inner.(RequestErrorHandler); ok {
		return &c03Req{inner: h.OnError(err), run: r.run, min: r.min, size: r.size}
	}
	return r
}

type c03Enc struct {
	sig  int
	run  *c03Run
	min  int64
	size func(Request) int64
}

func (e c03Enc) Marshal(req Request) ([]byte, error) {
	return c03Encoding(e.sig).Marshal(req.(*c03Req).inner)
}

func (e c03Enc) Unmarshal(b []byte) (Request, error) {
	r, err := c03Encoding(e.sig).Unmarshal(b)
	if err != nil {
		return nil, err
	}
	return &c03Req{inner: r, run: e.run, min: e.min, size: e.size}, nil
}

type c03Built struct {
	comp    component.Component
	consume func(ctx context.Context, ids []int) error
}

// c03Build makes the exporter of the case's signal: the plain New<Signal> constructor, or (wrap) New<Signal>Request with the
// observable wrapper around the helper's own request type.
func c03Build(cs *c03Case, set exporter.Settings, run *c03Run, push func(ctx context.Context, ids []int) error, opts []Option) (*c03Built, error) {
	bg := context.Background()
	sig := cs.cfg.signal
	if !cs.cfg.wrap {
		switch sig {
		case c03SigTraces:
			e, err := NewTraces(bg, set, &struct{}{}, func(ctx context.Context, td ptrace.Traces) error { return push(ctx, c03TraceIDs(td)) }, opts...)
			if err != nil {
				return nil, err
			}
			return &c03Built{e, func(ctx context.Context, ids []int) error { return e.ConsumeTraces(ctx, c03Traces(ids)) }}, nil
		case c03SigMetrics:
			e, err := NewMetrics(bg, set, &struct{}{}, func(ctx context.Context, md pmetric.Metrics) error { return push(ctx, c03MetricIDs(md)) }, opts...)
			if err != nil {
				return nil, err
			}
			return &c03Built{e, func(ctx context.Context, ids []int) error { return e.ConsumeMetrics(ctx, c03Metrics(ids)) }}, nil
		}
		e, err := NewLogs(bg, set, &struct{}{}, func(ctx context.Context, ld plog.Logs) error { return push(ctx, c03IDs(ld)) }, opts...)
		if err != nil {
			return nil, err
		}
		return &c03Built{e, func(ctx context.Context, ids []int) error { return e.ConsumeLogs(ctx, c03Logs(ids)) }}, nil
	}
	min := cs.cfg.minSize
	// the bytes sizer of the signal's own settings, applied to the wrapped request
	base := NewLogsQueueBatchSettings()
	switch sig {
	case c03SigTraces:
		base = NewTracesQueueBatchSettings()
	case c03SigMetrics:
		base = NewMetricsQueueBatchSettings()
	}
	bytesOf := base.Sizers[RequestSizerTypeBytes]
	var size func(Request) int64
	if cs.cfg.sizer == "bytes" {
		size = func(r Request) int64 { return bytesOf.Sizeof(r) }
	}
	qs := QueueBatchSettings{
		Encoding: c03Enc{sig: sig, run: run, min: min, size: size},
		Sizers: map[RequestSizerType]RequestSizer{
			RequestSizerTypeRequests: NewRequestsSizer(),
			RequestSizerTypeItems:    request.NewItemsSizer(),
			RequestSizerTypeBytes: request.BaseSizer{SizeofFunc: func(r request.Request) int64 {
				return bytesOf.Sizeof(r.(*c03Req).inner)
			}},
		},
	}
	opts = append([]Option{internal.WithQueueBatchSettings(qs)}, opts...)
	consume := func(ctx context.Context, req Request) error { return push(ctx, c03ReqIDs(req)) }
	switch sig {
	case c03SigTraces:
		e, err := NewTracesRequest(bg, set, func(_ context.Context, td ptrace.Traces) (Request, error) {
			return &c03Req{inner: newTracesRequest(td), run: run, min: min, size: size}, nil
		}, consume, opts...)
		if err != nil {
			return nil, err
		}
		return &c03Built{e, func(ctx context.Context, ids []int) error { return e.ConsumeTraces(ctx, c03Traces(ids)) }}, nil
	case c03SigMetrics:
		e, err := NewMetricsRequest(bg, set, func(_ context.Context, md pmetric.Metrics) (Request, error) {
			return &c03Req{inner: newMetricsRequest(md), run: run, min: min, size: size}, nil
		}, consume, opts...)
		if err != nil {
			return nil, err
		}
		return &c03Built{e, func(ctx context.Context, ids []int) error { return e.ConsumeMetrics(ctx, c03Metrics(ids)) }}, nil
	}
	e, err := NewLogsRequest(bg, set, func(_ context.Context, ld plog.Logs) (Request, error) {
		return &c03Req{inner: newLogsRequest(ld), run: run, min: min, size: size}, nil
	}, consume, opts...)
	if err != nil {
		return nil, err
	}
	return &c03Built{e, func(ctx context.Context, ids []int) error { return e.ConsumeLogs(ctx, c03Logs(ids)) }}, nil
}

func c03Join(ids []int) string {
	if len(ids) == 0 {
		return "-"
	}
	s := make([]string, len(ids))
	for i, v := range ids {
		s[i] = strconv.Itoa(v)
	}
	return strings.Join(s, ",")
}

// ---- case description -----------------------------------------------------------------------------------------

type c03Cfg struct {
	signal     int  // c03SigLogs | c03SigTraces | c03SigMetrics
	wrap       bool // New<Signal>Request with the observable request wrapper (MergeSplit calls logged)
	queue      bool // sending queue enabled
	persistent bool
	sizer      string // requests | items
	capacity   int64
	consumers  int
	wfr        bool
	block      bool
	batch      int // 0 none, 1 sending_queue::batch, 2 legacy WithBatcher
	flushTO    time.Duration
	minSize    int64
	maxSize    int64
	retry      bool
	initial    time.Duration
	maxElapsed time.Duration
	timeout    time.Duration
}

type c03Act struct {
	at       time.Duration
	shutdown bool
	rid      int
	n        int
}

type c03Call struct {
	dur     time.Duration
	outcome int // 0 ok, 1 transient, 2 permanent, 3 partial (retryable error naming a sub-list of the items as undelivered)
}

type c03Case struct {
	cfg     c03Cfg
	acts    []c03Act
	backend []c03Call
	failSet   bool // storage starts failing plain Set writes just before Shutdown is called (size snapshot of an items-sized queue)
	failClose bool // the storage client's Close fails (from just before Shutdown)
	partOutcome []int // systematic split family: backend outcome keyed by the PART a call carries (index = (first item id % 100) / partSize)
	partSize    int
	shutCtx   int           // context handed to Shutdown: 0 live, 1 cancelled during the drain, 2 deadline, 3 already done on entry
	shutCtxD  time.Duration // … after this long
}

func (c *c03Cfg) options(host *component.Host, st *c03Storage) ([]Option, error) {
	var opts []Option
	opts = append(opts, WithTimeout(TimeoutConfig{Timeout: c.timeout}))
	if c.retry {
		opts = append(opts, WithRetry(configretry.BackOffConfig{
			Enabled: true, InitialInterval: c.initial, RandomizationFactor: 0, Multiplier: 1.5,
			MaxInterval: 5 * time.Second, MaxElapsedTime: c.maxElapsed,
		}))
	}
	if c.queue {
		q := NewDefaultQueueConfig()
		q.NumConsumers = c.consumers
		q.QueueSize = c.capacity
		q.WaitForResult = c.wfr
		q.BlockOnOverflow = c.block
		q.Sizer = request.SizerTypeRequests
		if c.sizer == "bytes" {
			q.Sizer = request.SizerTypeBytes
		}
		if c.sizer == "items" {
			q.Sizer = request.SizerTypeItems
		}
		if c.persistent {
			id := component.MustNewID("c03store")
			q.StorageID = &id
			*host = hosttest.NewHost(map[component.ID]component.Component{id: st})
		}
		if c.batch == 1 {
			q.Batch = &BatchConfig{FlushTimeout: c.flushTO, MinSize: c.minSize, MaxSize: c.maxSize}
		}
		vq := q
		if c.persistent {
			// persistent queues sized by items exist in the code (queue-size snapshots in storage) although Validate
			// restricts configuration files to the requests sizer: validate everything else
			vq.Sizer = request.SizerTypeRequests
			vq.Batch = nil // `batch` wants an items/bytes sizer, `storage` the requests sizer: the combination exists only in code
		}
		if err := vq.Validate(); err != nil {
			return nil, err
		}
		if q.Batch != nil {
			if err := q.Batch.Validate(); err != nil {
				return nil, err
			}
		}
		opts = append(opts, WithQueue(q))
	}
	if c.batch == 2 {
		b := NewDefaultBatcherConfig()
		b.FlushTimeout = c.flushTO
		b.MinSize = c.minSize
		b.MaxSize = c.maxSize
		if err := b.Validate(); err != nil {
			return nil, err
		}
		opts = append(opts, WithBatcher(b))
	}
	return opts, nil
}

var c03Gaps = []time.Duration{0, 0, time.Millisecond, 20 * time.Millisecond, 200 * time.Millisecond, 2 * time.Second}
var c03Durs = []time.Duration{0, 0, 0, 5 * time.Millisecond, 100 * time.Millisecond, 3 * time.Second}

func c03Gen(c int) *c03Case {
	rnd := vRand(c)
	cs := &c03Case{}
	cfg := &cs.cfg
	bytesSized := false
	overlap := false // several requests in flight at the shutdown: one in retry back-off, others finishing during the drain
	splitty := false // requests larger than max_size: split over several flushes, remainder in the partial batch
	cfg.queue = true
	cfg.sizer = "requests"
	cfg.consumers = 1 + rnd.IntN(3)
	cfg.capacity = int64(2 + rnd.IntN(20))
	if rnd.IntN(3) == 0 {
		cfg.capacity = 1000
	}
	direct := false // no sending queue and no batcher: Send runs obsreport -> retry -> timeout -> export on the caller's goroutine
	switch rnd.IntN(9) {
	case 8:
		direct = true
		cfg.queue = false
	case 0, 1: // memory queue, no batching
		if rnd.IntN(3) == 0 {
			cfg.sizer = "items"
			cfg.capacity = int64(8 + rnd.IntN(60))
		}
	case 2, 3: // memory queue + sending_queue::batch
		cfg.batch = 1
		cfg.sizer = "items"
		cfg.capacity = int64(8 + rnd.IntN(80))
		if rnd.IntN(2) == 0 {
			cfg.capacity = 10000
		}
		bytesSized = rnd.IntN(3) == 0 // queue and batcher sized in BYTES: merges and splits by encoded size
	case 4: // memory queue + legacy batcher
		cfg.batch = 2
	case 5: // persistent queue
		cfg.persistent = true
		overlap = rnd.IntN(2) == 0
		if rnd.IntN(3) == 0 { // sized by items: writes a size snapshot at shutdown
			cfg.sizer = "items"
			cfg.capacity = int64(8 + rnd.IntN(60))
			cs.failSet = rnd.IntN(2) == 0
		}
		if rnd.IntN(4) == 0 {
			cs.failClose = true
		}
	case 6: // persistent queue + batcher: legacy WithBatcher, or sending_queue::batch (items-sized queue)
		cfg.persistent = true
		cfg.batch = 2
		if rnd.IntN(2) == 0 {
			cfg.batch = 1
			cfg.sizer = "items"
			cfg.capacity = int64(20 + rnd.IntN(80))
			if rnd.IntN(2) == 0 {
				cfg.capacity = 10000
			}
			cs.failSet = rnd.IntN(3) == 0 // the size snapshot written by Shutdown fails
		}
		cs.failClose = rnd.IntN(3) == 0 // Close fails (reached by Shutdown itself when nothing is in flight or batched)
		splitty = rnd.IntN(3) != 0
	case 7: // wait_for_result, or the legacy batcher without a queue (also waits for the result)
		if rnd.IntN(2) == 0 {
			cfg.wfr = true
			cfg.capacity = 1000
		} else {
			cfg.queue = false
			cfg.batch = 2
		}
	}
	if cfg.batch != 0 {
		cfg.flushTO = []time.Duration{30 * time.Millisecond, time.Second, time.Hour}[rnd.IntN(3)]
		cfg.minSize = []int64{0, 3, 6, 12, 40}[rnd.IntN(5)]
		switch rnd.IntN(3) {
		case 0:
			cfg.maxSize = 0
		case 1:
			cfg.maxSize = cfg.minSize + int64(rnd.IntN(4))
		default:
			cfg.maxSize = cfg.minSize + int64(3+rnd.IntN(10))
		}
	}
	if bytesSized {
		cfg.sizer = "bytes"
		cfg.capacity = []int64{4000, 1000000}[rnd.IntN(2)]
		cfg.minSize = []int64{0, 80, 300}[rnd.IntN(3)]
		cfg.maxSize = 0
		if rnd.IntN(2) == 0 {
			cfg.maxSize = cfg.minSize + int64(200+rnd.IntN(300))
		}
	}
	if splitty {
		cfg.minSize = int64(2 + rnd.IntN(3))
		cfg.maxSize = cfg.minSize + int64(rnd.IntN(2))
		cfg.flushTO = []time.Duration{time.Second, time.Hour}[rnd.IntN(2)]
	}
	if cfg.queue && !cfg.wfr && rnd.IntN(6) == 0 {
		cfg.block = true
	}
	if rnd.IntN(2) == 0 || (splitty && rnd.IntN(2) == 0) {
		cfg.retry = true
		cfg.initial = []time.Duration{10 * time.Millisecond, 100 * time.Millisecond, time.Second}[rnd.IntN(3)]
		cfg.maxElapsed = []time.Duration{0, 300 * time.Millisecond, 10 * time.Second}[rnd.IntN(3)]
	}
	if rnd.IntN(4) == 0 {
		cfg.timeout = 2 * time.Second
	}
	if overlap {
		cfg.consumers = 2 + rnd.IntN(2)
		cfg.capacity = 1000
		cfg.retry = true
		cfg.initial = []time.Duration{100 * time.Millisecond, time.Second}[rnd.IntN(2)]
		cfg.maxElapsed = []time.Duration{0, 10 * time.Second}[rnd.IntN(2)]
		cfg.timeout = 0
	}
	if direct {
		cfg.block = false
		cfg.retry = rnd.IntN(3) != 0
		cfg.initial = []time.Duration{10 * time.Millisecond, 100 * time.Millisecond, time.Second}[rnd.IntN(3)]
		cfg.maxElapsed = []time.Duration{0, 0, 10 * time.Second}[rnd.IntN(3)]
		cfg.timeout = []time.Duration{0, 2 * time.Second}[rnd.IntN(2)]
	}
	cfg.signal = []int{c03SigLogs, c03SigLogs, c03SigTraces, c03SigMetrics}[rnd.IntN(4)]
	if bytesSized && cfg.signal == c03SigMetrics && cfg.maxSize > 0 {
		cfg.signal = c03SigTraces // bytes split of metrics has open C04 findings (empty fragments); merges of metrics stay
	}
	cfg.wrap = rnd.IntN(4) != 0 || cfg.batch != 0 // batching: always observable, so that every returned trace is replayed through the LTS
	// actions
	nSend := 1 + rnd.IntN(12)
	t := time.Duration(0)
	for i := 0; i < nSend; i++ {
		t += c03Gaps[rnd.IntN(len(c03Gaps))]
		nItems := 1 + rnd.IntN(8)
		if splitty {
			nItems = 1 + rnd.IntN(11)
		}
		cs.acts = append(cs.acts, c03Act{at: t, rid: i + 1, n: nItems})
	}
	// shutdown instant: at/near an action, near a timer, or after everything
	var sd time.Duration
	switch rnd.IntN(6) {
	case 0:
		sd = cs.acts[rnd.IntN(len(cs.acts))].at
	case 1:
		sd = cs.acts[rnd.IntN(len(cs.acts))].at + time.Duration(1+rnd.IntN(4))*time.Millisecond
	case 2:
		sd = cs.acts[rnd.IntN(len(cs.acts))].at + c03Durs[rnd.IntN(len(c03Durs))]
	case 3:
		sd = cs.acts[rnd.IntN(len(cs.acts))].at + cfg.flushTO + time.Duration(rnd.IntN(3)-1)*time.Millisecond
	case 4:
		sd = cs.acts[rnd.IntN(len(cs.acts))].at + cfg.initial
	default:
		sd = t + time.Duration(rnd.IntN(3))*time.Second
	}
	if sd < 0 {
		sd = 0
	}
	if overlap {
		// sends close together, shutdown shortly after the last one; backend: quick retryable failures mixed with slow final outcomes
		t = 0
		for i := range cs.acts {
			t += time.Duration(rnd.IntN(3)) * time.Millisecond
			cs.acts[i].at = t
		}
		sd = t + time.Duration(1+rnd.IntN(400))*time.Millisecond
	}
	if direct {
		// 1-3 producers call Send almost together and are retrying against a failing backend when Shutdown is requested
		cs.acts = cs.acts[:1+rnd.IntN(min(3, len(cs.acts)))]
		t = 0
		for i := range cs.acts {
			t += time.Duration(rnd.IntN(3)) * time.Millisecond
			cs.acts[i].at = t
		}
		// off the millisecond grid: a Shutdown in the very instant a back-off timer fires is a tie the retry loop's select resolves
		// at random (one more attempt may start; with a queue Shutdown waits for it, without one it begins after the return) —
		// scheduler-dependent, excluded like the ties of property C05
		sd = t + time.Duration(1+rnd.IntN(2000))*time.Millisecond + 137*time.Microsecond + time.Nanosecond
	}
	if rnd.IntN(2) == 0 {
		cs.shutCtx = 1 + rnd.IntN(3)
		cs.shutCtxD = []time.Duration{time.Millisecond, 50 * time.Millisecond, time.Second, 2500 * time.Millisecond}[rnd.IntN(4)]
	}
	cs.acts = append(cs.acts, c03Act{at: sd, shutdown: true})
	// late sends; for a queue-less exporter a Send after Shutdown is the caller's own export call: its FIRST attempt may begin after
	// the return, a retry of it may not (the stopped retry sender returns a shutdown error instead of backing off)
	for i := 0; i < rnd.IntN(3); i++ {
		cs.acts = append(cs.acts, c03Act{at: sd + c03Gaps[rnd.IntN(len(c03Gaps))], rid: nSend + 1 + i, n: 1 + rnd.IntN(4)})
	}
	sort.SliceStable(cs.acts, func(i, j int) bool { return cs.acts[i].at < cs.acts[j].at })
	// backend script
	nb := rnd.IntN(30)
	failPct := []int{0, 0, 10, 30, 60}[rnd.IntN(5)]
	if splitty || cs.failSet {
		failPct = []int{30, 60}[rnd.IntN(2)]
	}
	if overlap {
		nb = 4 + rnd.IntN(8)
	}
	if direct {
		nb = 10 + rnd.IntN(30)
		failPct = []int{60, 90, 100}[rnd.IntN(3)]
	}
	for i := 0; i < nb; i++ {
		call := c03Call{dur: c03Durs[rnd.IntN(len(c03Durs))]}
		if direct {
			call = c03Call{dur: []time.Duration{0, 0, 5 * time.Millisecond, 3 * time.Second}[rnd.IntN(4)]}
			if rnd.IntN(100) < failPct {
				call.outcome = 1
			}
			cs.backend = append(cs.backend, call)
			continue
		}
		if overlap {
			if rnd.IntN(2) == 0 {
				call = c03Call{dur: 0, outcome: 1} // fails at once: goes into back-off
			} else {
				call = c03Call{dur: time.Duration(1+rnd.IntN(4)) * time.Second, outcome: []int{0, 0, 2}[rnd.IntN(3)]} // slow, final outcome
			}
			cs.backend = append(cs.backend, call)
			continue
		}
		if rnd.IntN(100) < failPct {
			call.outcome = []int{1, 1, 2, 3}[rnd.IntN(4)] // transient, permanent, partial
			if splitty {
				call.outcome = 1 + rnd.IntN(2)
			}
		}
		cs.backend = append(cs.backend, call)
	}
	return cs
}

// c03SplitN: SYSTEMATIC family "one request split into 3 parts, every mix of part outcomes" (seeded class: refCountDone.OnDone keeping
// the first / the last / a local error only).  One request of 6 items, sending_queue::batch with max_size = min_size = 2 -> MergeSplit
// gives 3 parts, 3 flushes sharing ONE refCountDone; the worker pool has one slot (batching forces one consumer), so the parts run one
// after the other, in order (the finishing order cannot vary in the code as it is).  Retry: initial 100 ms x1.5 without jitter, max elapsed
// 300 ms: a part whose calls all fail transiently is tried at +0, +100, +250 ms and then given up ("no more retries left": a FINAL failure);
// a part that is in its first back-off when Shutdown comes ends with a SHUTDOWN error (kept by a persistent queue), and so does every
// transient failure after the stop.  Enumerated: part outcomes {ok, transient, permanent}^3 x Shutdown {in the first back-off of the i-th
// transient part, for each such part; after everything} = 54 schedules x queue {memory + wait_for_result: Send returns the JOINED error,
// i.e. enqueue_failed counts the request iff SOME part failed; persistent: the request stays stored iff SOME part ended with a shutdown
// error, whatever the other parts did} = 108 cases.
const c03SplitCases = 108

func c03SplitN(k int) *c03Case {
	ms := time.Millisecond
	persistent := k/54 == 1
	j := k % 54
	var outs [3]int
	pos := -1 // index of the transient part interrupted by the shutdown; -1 = Shutdown after everything
	n := 0
	found := false
	for o := 0; o < 27 && !found; o++ {
		outs = [3]int{o % 3, (o / 3) % 3, (o / 9) % 3} // 0 ok, 1 transient, 2 permanent
		var trans []int
		for i, x := range outs {
			if x == 1 {
				trans = append(trans, i)
			}
		}
		for p := -1; p < len(trans); p++ {
			if n == j {
				if p >= 0 {
					pos = trans[p]
				}
				found = true
				break
			}
			n++
		}
	}
	cs := &c03Case{partSize: 2, partOutcome: outs[:]}
	cs.cfg = c03Cfg{signal: c03SigLogs, wrap: true, queue: true, persistent: persistent, wfr: !persistent, sizer: "items", capacity: 10000,
		consumers: 1, batch: 1, flushTO: time.Hour, minSize: 2, maxSize: 2, retry: true, initial: 100 * ms, maxElapsed: 300 * ms}
	sd := 5 * time.Second
	if pos >= 0 {
		// every transient part before `pos` takes 250 ms (tries at +0, +100, +250), ok / permanent parts take no time
		start := time.Duration(0)
		for i := 0; i < pos; i++ {
			if outs[i] == 1 {
				start += 250 * ms
			}
		}
		sd = start + 50*ms + 137*time.Microsecond
	}
	cs.acts = []c03Act{{at: 0, rid: 1, n: 6}, {at: sd, shutdown: true}}
	return cs
}

// c03Systematic: the systematic families are spread over the generated index range (one every `period` indices after the corpus), so
// that no earlier case index changes its meaning and `VERIF_REPLAY_CASE` still replays one case alone
func c03Systematic(c, corpusLen, period int) *c03Case {
	if c < corpusLen || (c-corpusLen)%period != period/2 {
		return nil
	}
	if k := (c - corpusLen) / period; k < c03SplitCases {
		return c03SplitN(k)
	}
	return nil
}

// corpus: hand-made schedules run first (case indices 0..len-1)
func c03Corpus() []*c03Case {
	ms := time.Millisecond
	send := func(at time.Duration, rid, n int) c03Act { return c03Act{at: at, rid: rid, n: n} }
	sd := func(at time.Duration) c03Act { return c03Act{at: at, shutdown: true} }
	return []*c03Case{
		// the DESIGN probe: partial batch (min never reached, 1 h flush timeout) must be flushed once by Shutdown
		{cfg: c03Cfg{queue: true, sizer: "items", capacity: 10000, consumers: 1, batch: 1, flushTO: time.Hour, minSize: 40},
			acts: []c03Act{send(0, 1, 3), send(ms, 2, 3), send(2*ms, 3, 3), send(3*ms, 4, 3), send(4*ms, 5, 3), sd(10 * ms)}},
		// same with a failing first attempt and retry enabled (stopped retry sender: single attempt during the drain)
		{cfg: c03Cfg{queue: true, sizer: "items", capacity: 10000, consumers: 1, batch: 1, flushTO: time.Hour, minSize: 40, retry: true, initial: 100 * ms},
			acts: []c03Act{send(0, 1, 3), send(ms, 2, 3), sd(10 * ms)}, backend: []c03Call{{0, 1}}},
		// slow backend, three consumers, queue still full of requests when shutdown is requested
		{cfg: c03Cfg{queue: true, sizer: "requests", capacity: 100, consumers: 3},
			acts:    []c03Act{send(0, 1, 2), send(0, 2, 2), send(0, 3, 2), send(0, 4, 2), send(0, 5, 2), send(0, 6, 2), send(0, 7, 2), sd(ms)},
			backend: []c03Call{{3 * time.Second, 0}, {3 * time.Second, 1}, {3 * time.Second, 0}, {100 * ms, 2}}},
		// persistent queue, retry waiting when shutdown is requested: the request must stay stored
		{cfg: c03Cfg{queue: true, persistent: true, sizer: "requests", capacity: 100, consumers: 1, retry: true, initial: time.Second},
			acts: []c03Act{send(0, 1, 2), send(0, 2, 2), send(0, 3, 2), sd(500 * ms)}, backend: []c03Call{{0, 1}, {0, 1}, {0, 1}, {0, 1}}},
		// persistent queue + legacy batcher, partial batch at shutdown
		{cfg: c03Cfg{queue: true, persistent: true, sizer: "requests", capacity: 100, consumers: 1, batch: 2, flushTO: time.Hour, minSize: 40},
			acts: []c03Act{send(0, 1, 3), send(ms, 2, 3), send(2*ms, 3, 3), sd(10 * ms)}},
		// request larger than max size: several flushes through one worker while shutdown is requested
		{cfg: c03Cfg{queue: true, sizer: "items", capacity: 10000, consumers: 1, batch: 1, flushTO: time.Second, minSize: 3, maxSize: 3},
			acts: []c03Act{send(0, 1, 8), send(0, 2, 8), sd(ms)}, backend: []c03Call{{100 * ms, 0}, {100 * ms, 1}, {100 * ms, 0}}},
		// persistent queue sized by items whose size snapshot (client.Set) fails at shutdown while a slow export is in flight:
		// Shutdown must still join the consumers before it returns
		{cfg: c03Cfg{queue: true, persistent: true, sizer: "items", capacity: 100, consumers: 2}, failSet: true,
			acts: []c03Act{send(0, 1, 2), send(0, 2, 2), send(0, 3, 2), sd(time.Second)}, backend: []c03Call{{3 * time.Second, 0}, {3 * time.Second, 1}, {0, 0}}},
		// persistent queue + legacy batcher, a request of 8 split by max_size 3: [3] fails permanently, [3] is sent, the remainder [2]
		// sits in the partial batch, is flushed by Shutdown and fails with the retry sender stopped (shutdown error): the request
		// must stay stored whatever the other parts did
		{cfg: c03Cfg{queue: true, persistent: true, sizer: "requests", capacity: 100, consumers: 1, batch: 2, flushTO: time.Hour, minSize: 3, maxSize: 3,
			retry: true, initial: time.Second},
			acts: []c03Act{send(0, 1, 8), sd(10 * ms)}, backend: []c03Call{{0, 2}, {0, 0}, {0, 1}, {0, 1}}},
		// same, the earlier part exhausts its retries (final failure) before the shutdown
		{cfg: c03Cfg{queue: true, persistent: true, sizer: "requests", capacity: 100, consumers: 1, batch: 2, flushTO: time.Hour, minSize: 3, maxSize: 3,
			retry: true, initial: 10 * ms, maxElapsed: 300 * ms, wrap: true},
			acts: []c03Act{send(0, 1, 5), sd(2 * time.Second)}, backend: []c03Call{{0, 1}, {0, 1}, {0, 1}, {0, 1}, {0, 1}, {0, 1}, {0, 1}, {0, 1}, {0, 1}, {0, 1}, {0, 1}, {0, 1}, {0, 1}, {0, 1}}},
		// persistent queue, two consumers: request 1 sits in its retry back-off and is interrupted by the shutdown FIRST, request 2's
		// slow export finishes (successfully) only afterwards, during the drain: request 1 must still be delivered by the next start
		{cfg: c03Cfg{queue: true, persistent: true, sizer: "requests", capacity: 100, consumers: 2, retry: true, initial: time.Second},
			acts: []c03Act{send(0, 1, 2), send(ms, 2, 2), sd(500 * ms)}, backend: []c03Call{{0, 1}, {3 * time.Second, 0}}},
		// same with three consumers, the later completions are a permanent failure and a success
		{cfg: c03Cfg{queue: true, persistent: true, sizer: "requests", capacity: 100, consumers: 3, retry: true, initial: time.Second, wrap: true, signal: c03SigTraces},
			acts: []c03Act{send(0, 1, 1), send(ms, 2, 3), send(2*ms, 3, 2), sd(200 * ms)}, backend: []c03Call{{0, 1}, {3 * time.Second, 2}, {100 * ms + 3*time.Second, 0}}},
		// no sending queue, no batcher, retry enabled: two producers are retrying against a failing backend when Shutdown is
		// requested; the retry sender must be stopped, no export call may begin after Shutdown has returned
		{cfg: c03Cfg{queue: false, sizer: "requests", capacity: 1, consumers: 1, retry: true, initial: time.Second},
			acts:    []c03Act{send(0, 1, 2), send(ms, 2, 3), sd(500 * ms)},
			backend: []c03Call{{0, 1}, {0, 1}, {0, 1}, {0, 1}, {0, 1}, {0, 1}, {0, 1}, {0, 1}, {0, 1}, {0, 1}, {0, 1}, {0, 1}}},
		// partial failures: the retry carries only the undelivered sub-list (Request.OnError); counters must use the items read
		// before the first attempt
		{cfg: c03Cfg{queue: true, sizer: "requests", capacity: 100, consumers: 1, retry: true, initial: 10 * ms, wrap: true},
			acts: []c03Act{send(0, 1, 6), send(ms, 2, 4), sd(time.Second)}, backend: []c03Call{{0, 3}, {0, 3}, {0, 0}, {0, 3}, {0, 2}}},
		{cfg: c03Cfg{queue: true, sizer: "items", capacity: 1000, consumers: 1, batch: 1, flushTO: 30 * ms, minSize: 5, maxSize: 0, retry: true, initial: 10 * ms, wrap: true, signal: c03SigMetrics},
			acts: []c03Act{send(0, 1, 3), send(ms, 2, 4), sd(time.Second)}, backend: []c03Call{{0, 3}, {0, 3}, {0, 0}}},
		// persistent queue + sending_queue::batch (items-sized): a partial batch is parked (min never reached, 1 h flush timeout) when
		// Shutdown is requested and the backend fails the final flush with the retry sender stopped: the requests stay stored
		{cfg: c03Cfg{queue: true, persistent: true, sizer: "items", capacity: 1000, consumers: 1, batch: 1, flushTO: time.Hour, minSize: 40,
			retry: true, initial: time.Second, wrap: true},
			acts: []c03Act{send(0, 1, 3), send(ms, 2, 3), send(2*ms, 3, 3), sd(10 * ms)}, backend: []c03Call{{0, 1}, {0, 1}}},
		// same configuration, split by max_size with mixed outcomes
		{cfg: c03Cfg{queue: true, persistent: true, sizer: "items", capacity: 1000, consumers: 1, batch: 1, flushTO: time.Hour, minSize: 3, maxSize: 3,
			retry: true, initial: time.Second, wrap: true, signal: c03SigTraces},
			acts: []c03Act{send(0, 1, 8), sd(10 * ms)}, backend: []c03Call{{0, 2}, {0, 0}, {0, 1}, {0, 1}}},
		// storage faults AT SHUTDOWN with a batcher: the queue's own Shutdown returns an error, the batcher must still be shut down
		// (final flush of the parked partial batch, timer goroutine ended): nothing may be exported after the return
		{cfg: c03Cfg{queue: true, persistent: true, sizer: "items", capacity: 1000, consumers: 1, batch: 1, flushTO: time.Second, minSize: 40, wrap: true}, failSet: true,
			acts: []c03Act{send(0, 1, 3), send(ms, 2, 3), sd(10 * ms)}},
		{cfg: c03Cfg{queue: true, persistent: true, sizer: "requests", capacity: 100, consumers: 1, batch: 2, flushTO: time.Hour, minSize: 2, wrap: true}, failClose: true,
			acts: []c03Act{send(0, 1, 3), send(ms, 2, 3), sd(time.Second)}},
		{cfg: c03Cfg{queue: true, persistent: true, sizer: "requests", capacity: 100, consumers: 1, batch: 2, flushTO: time.Second, minSize: 40, wrap: true}, failClose: true,
			acts: []c03Act{send(0, 1, 3), sd(10 * ms)}},
		// the context handed to Shutdown ends during a slow drain with a backlog (deadline / cancelled / already done): the drain and
		// the join must not depend on it
		{cfg: c03Cfg{queue: true, sizer: "requests", capacity: 100, consumers: 1}, shutCtx: 2, shutCtxD: 50 * ms,
			acts:    []c03Act{send(0, 1, 2), send(0, 2, 2), send(0, 3, 2), send(0, 4, 2), sd(ms)},
			backend: []c03Call{{3 * time.Second, 0}, {3 * time.Second, 1}, {3 * time.Second, 0}, {100 * ms, 2}}},
		{cfg: c03Cfg{queue: true, sizer: "requests", capacity: 100, consumers: 2, retry: true, initial: 100 * ms}, shutCtx: 3,
			acts:    []c03Act{send(0, 1, 2), send(0, 2, 2), send(0, 3, 2), send(0, 4, 2), send(0, 5, 1), sd(ms)},
			backend: []c03Call{{3 * time.Second, 0}, {3 * time.Second, 1}, {3 * time.Second, 0}, {100 * ms, 2}}},
		{cfg: c03Cfg{queue: true, sizer: "items", capacity: 1000, consumers: 1, batch: 1, flushTO: time.Hour, minSize: 40, wrap: true}, shutCtx: 1, shutCtxD: ms,
			acts: []c03Act{send(0, 1, 3), send(ms, 2, 3), sd(10 * ms)}, backend: []c03Call{{3 * time.Second, 0}}},
		// queue and batcher sized in BYTES: two payloads merged (min not reached alone), then a split by max_size; the counters are items
		{cfg: c03Cfg{queue: true, sizer: "bytes", capacity: 1000000, consumers: 1, batch: 1, flushTO: time.Second, minSize: 300, maxSize: 0, wrap: true},
			acts: []c03Act{send(0, 1, 5), send(ms, 2, 7), send(2*ms, 3, 21), sd(5 * time.Second)}},
		{cfg: c03Cfg{queue: true, sizer: "bytes", capacity: 1000000, consumers: 1, batch: 1, flushTO: time.Second, minSize: 80, maxSize: 300, wrap: true, signal: c03SigTraces},
			acts: []c03Act{send(0, 1, 6), send(ms, 2, 30), sd(5 * time.Second)}, backend: []c03Call{{0, 0}, {0, 1}}},
		// shutdown exactly when the flush timer fires
		{cfg: c03Cfg{queue: true, sizer: "items", capacity: 10000, consumers: 1, batch: 1, flushTO: 30 * ms, minSize: 40},
			acts: []c03Act{send(0, 1, 3), sd(30 * ms), send(30*ms, 2, 2)}, backend: []c03Call{{5 * ms, 0}}},
	}
}

// ---- running one case -----------------------------------------------------------------------------------------

type c03Ev struct {
	t      time.Duration // virtual time since the case started
	kind   string        // ss acc rej shutreq shutret es ee wshut uac ms
	id     int
	ids    []int
	failed bool
	perm   bool // ee: the call returned a permanent error
	s      string
	// ms (MergeSplit call = Consume critical section of the default batcher)
	first bool    // no current batch
	cur   []int   // items of the current batch
	res   [][]int // result list
	keep  bool    // the last result stays as the current batch
}

type c03Run struct {
	start     time.Time
	mu        sync.Mutex
	evs       []c03Ev
	recovered []int
	stored    []int // items physically present in storage (under an item key) when Shutdown had returned
	leak      int
	leakTop   string
	goDelta   int
	hung      bool
	buildErr  error
	panicked  string
	rt        string // the runtime object the constructors built, read by reflection (c03Reflect)
}

func (r *c03Run) log(e c03Ev) {
	e.t = time.Since(r.start)
	r.mu.Lock()
	r.evs = append(r.evs, e)
	r.mu.Unlock()
}

func c03Exec(cs *c03Case, set exporter.Settings, probe func(run *c03Run)) *c03Run {
	run := &c03Run{start: time.Now()}
	bg := context.Background()
	synctest.Wait()
	base := runtime.NumGoroutine()
	st := &c03Storage{st: map[string][]byte{}}
	st.onUAC = func(op string) {
		// called with st.mu held; run.mu is a leaf lock
		run.log(c03Ev{kind: "uac", s: op})
	}
	var host component.Host = hosttest.NewHost(nil)
	opts, err := cs.cfg.options(&host, st)
	if err != nil {
		run.buildErr = err
		return run
	}
	var callMu sync.Mutex
	calls := 0
	pusher := func(ctx context.Context, ids []int) error {
		callMu.Lock()
		k := calls
		calls++
		callMu.Unlock()
		run.log(c03Ev{kind: "es", id: k, ids: ids})
		var call c03Call
		if k < len(cs.backend) {
			call = cs.backend[k]
		}
		if cs.partOutcome != nil && len(ids) > 0 {
			// outcome decided by WHICH PART of the split request the call carries, however many calls came before
			call = c03Call{outcome: cs.partOutcome[((ids[0]%100)/cs.partSize)%len(cs.partOutcome)]}
		}
		var err error
		if call.dur > 0 {
			if cs.cfg.timeout > 0 {
				select {
				case <-ctx.Done():
					err = ctx.Err()
				case <-time.After(call.dur):
				}
			} else {
				time.Sleep(call.dur)
			}
		}
		perm := false
		if err == nil {
			switch call.outcome {
			case 1:
				err = errors.New("transient")
			case 2:
				err = consumererror.NewPermanent(errors.New("permanent"))
				perm = true
			case 3:
				// partial failure: the retry sender narrows the request to the named items (Request.OnError)
				rest := c03PartialRest(k, ids)
				base := errors.New("partially delivered")
				switch cs.cfg.signal {
				case c03SigTraces:
					err = consumererror.NewTraces(base, c03Traces(rest))
				case c03SigMetrics:
					err = consumererror.NewMetrics(base, c03Metrics(rest))
				default:
					err = consumererror.NewLogs(base, c03Logs(rest))
				}
			}
		}
		run.log(c03Ev{kind: "ee", id: k, failed: err != nil, perm: perm})
		return err
	}
	opts = append(opts, WithShutdown(func(context.Context) error { run.log(c03Ev{kind: "wshut"}); return nil }))
	built, err := c03Build(cs, set, run, pusher, opts)
	if err != nil {
		run.buildErr = err
		return run
	}
	exp := built.comp
	if err = exp.Start(bg, host); err != nil {
		run.buildErr = err
		return run
	}
	run.rt = c03Reflect(exp)
	sendCtx, cancelSends := context.WithCancel(bg)
	probeSem := make(chan struct{}, 1)
	var wg sync.WaitGroup
	shutDone := make(chan struct{})
	for _, a := range cs.acts {
		a := a
		wg.Add(1)
		go func() {
			defer wg.Done()
			defer func() {
				if p := recover(); p != nil {
					run.mu.Lock()
					run.panicked = fmt.Sprint(p)
					run.mu.Unlock()
				}
			}()
			time.Sleep(a.at)
			if a.shutdown {
				if probe != nil {
					probeSem <- struct{}{} // a probe of a send in the same instant may be running (channel: a durable block for synctest)
					probe(run)
					<-probeSem
				}
				if cs.failSet || cs.failClose {
					// storage faults AT SHUTDOWN: the queue's own Shutdown returns an error; the rest of the shutdown must still happen
					st.mu.Lock()
					st.failSets = cs.failSet
					st.failClose = cs.failClose
					st.mu.Unlock()
				}
				// the context handed to Shutdown is a dimension of its own: the property does not make the drain conditional on it
				sctx := bg
				switch cs.shutCtx {
				case 1:
					c, cancel := context.WithCancel(bg)
					sctx = c
					go func() {
						select {
						case <-time.After(cs.shutCtxD):
						case <-shutDone:
						}
						cancel()
					}()
				case 2:
					c, cancel := context.WithTimeout(bg, cs.shutCtxD)
					defer cancel()
					sctx = c
				case 3:
					c, cancel := context.WithCancel(bg)
					cancel()
					sctx = c
				}
				run.log(c03Ev{kind: "shutreq"})
				e := exp.Shutdown(sctx)
				run.log(c03Ev{kind: "shutret", failed: e != nil})
				close(shutDone)
				return
			}
			ids := make([]int, a.n)
			for j := range ids {
				ids[j] = a.rid*100 + j
			}
			if probe != nil && a.rid%2 == 0 {
				select {
				case probeSem <- struct{}{}:
					// observation point in the middle of the run (quiescent: the probe waits until every other goroutine is blocked)
					probe(run)
					<-probeSem
				default:
				}
			}
			run.log(c03Ev{kind: "ss", id: a.rid, ids: ids})
			e := built.consume(sendCtx, ids)
			if e == nil {
				run.log(c03Ev{kind: "acc", id: a.rid, ids: ids})
			} else {
				run.log(c03Ev{kind: "rej", id: a.rid, ids: ids})
			}
		}()
	}
	// let virtual time run until Shutdown returned or nothing can move any more
	select {
	case <-shutDone:
	case <-time.After(100 * time.Hour):
		run.hung = true
	}
	if run.hung {
		cancelSends()
		return run
	}
	// anything still scheduled (flush timers, back-offs) gets its chance to misbehave
	time.Sleep(3 * time.Hour)
	synctest.Wait()
	cancelSends() // release senders blocked on a queue nobody reads (wait_for_result / block_on_overflow after shutdown)
	wg.Wait()
	synctest.Wait()
	// helper goroutines still alive = goroutines with a frame of the helper's packages (goleak-style); a goroutine that
	// has finished its work but is not yet reaped is given a few scheduling rounds
	for round := 0; round < 200; round++ {
		run.leak, run.leakTop = c03HelperGoroutines()
		if run.leak == 0 {
			break
		}
		runtime.Gosched()
		synctest.Wait()
	}
	run.goDelta = runtime.NumGoroutine() - base
	if cs.cfg.persistent {
		st.mu.Lock()
		for k, v := range st.st {
			if _, perr := strconv.ParseUint(k, 10, 64); perr != nil {
				continue
			}
			if req, uerr := c03Encoding(cs.cfg.signal).Unmarshal(v); uerr == nil {
				run.stored = append(run.stored, c03ReqIDs(req)...)
			}
		}
		st.mu.Unlock()
		sort.Ints(run.stored)
		st.mu.Lock()
		st.failSets = false
		st.failClose = false
		st.mu.Unlock()
		// the next start: a new exporter on the same storage, always-succeeding backend
		var rmu sync.Mutex
		rcfg := cs.cfg
		rcfg.capacity = 100000
		rcfg.retry = false
		rcfg.batch = 0
		ropts, err := rcfg.options(&host, st)
		if err == nil {
			st.onUAC = nil
			rcase := &c03Case{cfg: rcfg}
			rcase.cfg.wrap = false
			rb, err := c03Build(rcase, exportertest.NewNopSettings(exportertest.NopType), run, func(_ context.Context, ids []int) error {
				rmu.Lock()
				run.recovered = append(run.recovered, ids...)
				rmu.Unlock()
				return nil
			}, ropts)
			var rexp component.Component
			if err == nil {
				rexp = rb.comp
			}
			if err == nil && rexp.Start(bg, host) == nil {
				time.Sleep(time.Second)
				synctest.Wait()
				_ = rexp.Shutdown(bg)
				synctest.Wait()
			}
		}
		sort.Ints(run.recovered)
	}
	return run
}

// c03PartialRest: which items a partially failed call reports as undelivered (a non-empty sub-list, proper when possible)
func c03PartialRest(call int, ids []int) []int {
	n := len(ids)
	if n < 2 {
		return ids
	}
	switch call % 3 {
	case 0:
		return ids[n/2:]
	case 1:
		return ids[:(n+1)/2]
	default:
		return ids[1:]
	}
}

// c03Roots: the first call of the flight (chain of attempts) every call belongs to. Item ids are unique and a retry carries a
// sub-list of the previous attempt, so the flight of a call is the first call that contained (any of) its items.
func c03Roots(evs []c03Ev) map[int]int {
	first := map[int]int{}
	root := map[int]int{}
	for _, e := range evs {
		if e.kind != "es" {
			continue
		}
		r := e.id
		if len(e.ids) > 0 {
			if f, ok := first[e.ids[0]]; ok {
				r = f
			}
		}
		root[e.id] = r
		for _, x := range e.ids {
			if _, ok := first[x]; !ok {
				first[x] = r
			}
		}
	}
	return root
}

// c03RetriesLeft: for every failed call, whether the retry sender (had it not been stopped) would have scheduled another
// attempt: the elapsed-time budget, counted from the flight's first call, was not exhausted by the next back-off delay.
// The delay comes from the real back-off implementation with the case's parameters (randomization factor 0).
func c03RetriesLeft(cs *c03Case, evs []c03Ev) map[int]bool {
	left := map[int]bool{}
	if !cs.cfg.retry {
		return left
	}
	type fl struct {
		first time.Duration
		bo    *backoff.ExponentialBackOff
	}
	roots := c03Roots(evs)
	flights := map[int]*fl{}
	for _, e := range evs {
		switch e.kind {
		case "es":
			k := roots[e.id]
			if flights[k] == nil {
				flights[k] = &fl{first: e.t, bo: &backoff.ExponentialBackOff{
					InitialInterval: cs.cfg.initial, RandomizationFactor: 0, Multiplier: 1.5, MaxInterval: 5 * time.Second}}
			}
		case "ee":
			f := flights[roots[e.id]]
			if f == nil || !e.failed || e.perm {
				continue
			}
			delay := f.bo.NextBackOff()
			exhausted := cs.cfg.maxElapsed > 0 && f.first+cs.cfg.maxElapsed < e.t+delay
			left[e.id] = !exhausted
		}
	}
	return left
}

// c03HelperGoroutines counts goroutines (other than the caller) that have a frame inside the exporter helper's internal
// packages (queue consumers, flush goroutines, batcher timer, retry back-off, senders blocked in the queue).
func c03HelperGoroutines() (int, string) {
	buf := make([]byte, 1<<20)
	buf = buf[:runtime.Stack(buf, true)]
	n, top := 0, ""
	for i, g := range strings.Split(string(buf), "\n\n") {
		if i == 0 {
			continue // the caller
		}
		if k := strings.Index(g, "exporterhelper/internal"); k >= 0 {
			n++
			if top == "" {
				line := g[k:]
				if e := strings.IndexAny(line, "(\n"); e >= 0 {
					line = line[:e]
				}
				top = line
			}
		}
	}
	return n, top
}

// ---- Go-side oracle (same definitions as C03.verdict in Lean) ----------------------------------------------------

type c03Verdict struct {
	returned                                           bool
	undrained, duplicated, lost, unrecovered           []int
	interrupted                                        []int // persistent: items of a shutdown-interrupted flight that are not in storage
	intrUnrec                                          []int // … that are in storage but are not delivered by the next start
	openCalls, lateCalls                               []int
	nontrivial                                         bool
	early                                              []int
	nCalls, nFailed, nAcc, nRej, lateAcc, storedAtEnd int
}

func c03Judge(cs *c03Case, run *c03Run) c03Verdict {
	var v c03Verdict
	reqAt, retAt := -1, -1
	for i, e := range run.evs {
		if e.kind == "shutreq" && reqAt < 0 {
			reqAt = i
		}
		if e.kind == "shutret" && retAt < 0 {
			retAt = i
		}
	}
	v.returned = retAt >= 0
	end := retAt
	if end < 0 {
		end = len(run.evs)
	}
	lim := reqAt
	if lim < 0 {
		lim = len(run.evs)
	}
	count := map[int]int{}
	for _, e := range run.evs[:lim] {
		if e.kind == "acc" {
			v.early = append(v.early, e.ids...)
			for _, x := range e.ids {
				count[x]++
			}
		}
	}
	attempts := map[int]int{}
	failedFor := map[int]bool{}
	ended := map[int]bool{}
	failedCall := map[int]bool{}
	finishedBeforeReq := map[int]bool{}
	for i, e := range run.evs[:end] {
		if e.kind == "ee" {
			ended[e.id] = true
			if e.failed {
				failedCall[e.id] = true
			}
			_ = i
		}
	}
	for i, e := range run.evs[:end] {
		if e.kind == "es" {
			v.nCalls++
			for _, x := range e.ids {
				attempts[x]++
				if failedCall[e.id] {
					failedFor[x] = true
				}
			}
			if !ended[e.id] && (cs.cfg.queue || cs.cfg.batch != 0) {
				// without queue and batcher the export call runs on the caller's goroutine: not a helper's call
				v.openCalls = append(v.openCalls, e.id)
			}
			// finished (returned) before shutdown was requested?
			if reqAt >= 0 && i < reqAt {
				for j := i; j < reqAt; j++ {
					if run.evs[j].kind == "ee" && run.evs[j].id == e.id {
						for _, x := range e.ids {
							finishedBeforeReq[x] = true
						}
					}
				}
			}
		}
	}
	if retAt >= 0 {
		direct := !cs.cfg.queue && cs.cfg.batch == 0
		roots := c03Roots(run.evs)
		for _, e := range run.evs[retAt+1:] {
			if e.kind == "es" {
				// queue-less exporter: the FIRST attempt of a Send runs on the caller's goroutine whenever the caller comes (also
				// after Shutdown: the caller's business); what must not begin after the return is a RETRY (Lean: Direct.lateRetries,
				// proved to accept every run of the direct-mode LTS, C03_direct_bridge)
				if direct && roots[e.id] == e.id {
					continue
				}
				v.lateCalls = append(v.lateCalls, e.id)
			}
		}
	}
	rec := map[int]bool{}
	for _, x := range run.recovered {
		rec[x] = true
	}
	sto := map[int]bool{}
	for _, x := range run.stored {
		sto[x] = true
	}
	for _, x := range v.early {
		if attempts[x] == 0 {
			v.undrained = append(v.undrained, x)
			if !sto[x] {
				v.lost = append(v.lost, x)
			} else if !rec[x] {
				v.unrecovered = append(v.unrecovered, x)
			}
		}
		if !failedFor[x] && attempts[x] > 1 && count[x] <= 1 {
			v.duplicated = append(v.duplicated, x)
		}
		if !finishedBeforeReq[x] {
			v.nontrivial = true
		}
	}
	// persistent queue: a flight whose LAST call failed with a retryable error while retries were enabled and not exhausted can
	// only have ended because the shutdown interrupted it: it has not finished export, so its items must still be stored
	if cs.cfg.persistent && cs.cfg.retry && reqAt >= 0 {
		left := c03RetriesLeft(cs, run.evs)
		roots := c03Roots(run.evs)
		lastCall := map[int]int{}
		callIDs := map[int][]int{}
		for _, e := range run.evs[:end] {
			if e.kind == "es" {
				lastCall[roots[e.id]] = e.id
				callIDs[e.id] = e.ids
			}
		}
		isLast := map[int]bool{}
		for _, c := range lastCall {
			isLast[c] = true
		}
		for _, e := range run.evs[:end] {
			if e.kind == "ee" && isLast[e.id] && e.failed && !e.perm && left[e.id] {
				for _, x := range callIDs[e.id] {
					if count[x] > 0 && !sto[x] {
						v.interrupted = append(v.interrupted, x)
					} else if count[x] > 0 && !rec[x] {
						v.intrUnrec = append(v.intrUnrec, x)
					}
				}
			}
		}
		sort.Ints(v.interrupted)
		sort.Ints(v.intrUnrec)
	}
	for _, e := range run.evs {
		switch e.kind {
		case "acc":
			v.nAcc++
		case "rej":
			v.nRej++
		case "ee":
			if e.failed {
				v.nFailed++
			}
		}
	}
	return v
}

func c03D(d time.Duration) string { return strconv.FormatInt(int64(d), 10) }

func c03EmitOps(out *vOut, idx int, cs *c03Case) {
	c := cs.cfg
	out.Linef("case %d", idx)
	out.Linef("op cfg signal=%s wrap=%d queue=%d persistent=%d sizer=%s cap=%d consumers=%d wfr=%d block=%d batch=%d flush=%s min=%d max=%d retry=%d initial=%s maxelapsed=%s timeout=%s failset=%d failclose=%d shutctx=%d shutctxd=%s",
		c03SigName[c.signal], vB(c.wrap), vB(c.queue), vB(c.persistent), c.sizer, c.capacity, c.consumers, vB(c.wfr), vB(c.block), c.batch, c03D(c.flushTO), c.minSize, c.maxSize,
		vB(c.retry), c03D(c.initial), c03D(c.maxElapsed), c03D(c.timeout), vB(cs.failSet), vB(cs.failClose), cs.shutCtx, c03D(cs.shutCtxD))
	for _, a := range cs.acts {
		if a.shutdown {
			out.Linef("op act %s shutdown", c03D(a.at))
		} else {
			out.Linef("op act %s send %d %d", c03D(a.at), a.rid, a.n)
		}
	}
	for i, b := range cs.backend {
		out.Linef("op backend %d %s %d", i, c03D(b.dur), b.outcome)
	}
}

// c03Reflect reads, off the REAL exporter object (after Start), what NewBaseExporter -> NewQueueSender -> newQueueBatchConfig ->
// newQueueBatch -> newAsyncQueue / newDefaultBatcher made of the options: is there a queue sender / a retry sender, the queue kind,
// wait_for_result as it reached the memory queue, the number of consumer goroutines, the batcher kind, the capacity of its worker
// pool and whether its timer exists.  Compared by the driver with the Lean function `derive` (Model/C03Cfg.lean).
func c03Reflect(comp component.Component) (out string) {
	defer func() {
		if r := recover(); r != nil {
			out = "err=" + strings.ReplaceAll(fmt.Sprint(r), " ", "_")
		}
	}()
	be := reflect.ValueOf(comp).Elem().FieldByName("BaseExporter").Elem()
	retry := !be.FieldByName("RetrySender").IsNil()
	qsv := be.FieldByName("QueueSender")
	if qsv.IsNil() {
		return fmt.Sprintf("qs=0 retry=%d numcpu=%d", vB(retry), runtime.NumCPU())
	}
	qb := qsv.Elem().Elem()
	oq := qb.FieldByName("queue").Elem().Elem()
	aq := oq.FieldByName("Queue").Elem().Elem()
	consumers := aq.FieldByName("numConsumers").Int()
	rq := aq.FieldByName("readableQueue").Elem().Elem()
	persistent := strings.HasPrefix(rq.Type().Name(), "persistentQueue")
	if !persistent && !strings.HasPrefix(rq.Type().Name(), "memoryQueue") {
		panic("unknown queue type " + rq.Type().Name())
	}
	wfr := false
	if !persistent {
		wfr = rq.FieldByName("waitForResult").Bool()
	}
	b := qb.FieldByName("batcher").Elem().Elem()
	batching, workers, timer := false, 0, false
	switch {
	case strings.HasPrefix(b.Type().Name(), "defaultBatcher"):
		batching = true
		workers = b.FieldByName("workerPool").Cap()
		timer = !b.FieldByName("timer").IsNil()
	case strings.HasPrefix(b.Type().Name(), "disabledBatcher"):
	default:
		panic("unknown batcher type " + b.Type().Name())
	}
	return fmt.Sprintf("qs=1 retry=%d persistent=%d wfr=%d consumers=%d batching=%d workers=%d timer=%d numcpu=%d",
		vB(retry), vB(persistent), vB(wfr), consumers, vB(batching), workers, vB(timer), runtime.NumCPU())
}

func c03EmitTrace(out *vOut, cs *c03Case, run *c03Run) {
	left := c03RetriesLeft(cs, run.evs)
	if run.rt != "" {
		out.Linef("tr rt %s", run.rt)
	}
	for _, e := range run.evs {
		switch e.kind {
		case "ss":
			out.Linef("tr ss %d %s", e.id, c03Join(e.ids))
		case "ms":
			parts := make([]string, len(e.res))
			for i, r := range e.res {
				parts[i] = c03Join(r)
			}
			rs := "-"
			if len(parts) > 0 {
				rs = strings.Join(parts, ";")
			}
			out.Linef("tr ms first=%d cur=%s req=%s res=%s keep=%d err=%d", vB(e.first), c03Join(e.cur), c03Join(e.ids), rs, vB(e.keep), vB(e.failed))
		case "acc", "rej":
			out.Linef("tr %s %d %s", e.kind, e.id, c03Join(e.ids))
		case "es":
			out.Linef("tr es %d %s", e.id, c03Join(e.ids))
		case "ee":
			// last field: retries were left after this failed call (elapsed-time budget not exhausted)
			out.Linef("tr ee %d %d %d %d", e.id, vB(e.failed), vB(e.perm), vB(left[e.id]))
		case "shutret":
			out.Linef("tr shutret %d", vB(e.failed))
		case "uac":
			out.Linef("tr uac %s", e.s)
		case "gauge":
			out.Linef("tr gauge %s", e.s)
		default:
			out.Linef("tr %s", e.kind)
		}
	}
	if cs.cfg.persistent {
		out.Linef("tr stored %s", c03Join(run.stored))
		out.Linef("tr recovered %s", c03Join(run.recovered))
	}
	out.Linef("tr leak %d", run.leak)
}

func c03Emit(out *vOut, idx int, cs *c03Case, run *c03Run) {
	c := cs.cfg
	c03EmitOps(out, idx, cs)
	if run.buildErr != nil {
		out.Linef("tr builderr %s", vHex(run.buildErr.Error()))
		out.Linef("stat builderr 1")
		out.Linef("obs skipped")
		out.Linef("end")
		return
	}
	c03EmitTrace(out, cs, run)
	v := c03Judge(cs, run)
	// the verdict line is recomputed by the Lean monitor from the tr lines and compared
	und := v.undrained
	if c.persistent {
		und = v.lost
	}
	out.Linef("obs verdict returned=%d undrained=%s unrecovered=%s interrupted=%s intrunrec=%s dup=%s open=%s late=%s", vB(v.returned), c03Join(und), c03Join(v.unrecovered), c03Join(v.interrupted), c03Join(v.intrUnrec), c03Join(v.duplicated), c03Join(v.openCalls), c03Join(v.lateCalls))
	kind := "memory"
	if c.persistent {
		kind = "persistent"
	}
	if !c.queue && c.batch == 0 {
		kind = "direct"
	}
	switch {
	case run.hung || !v.returned:
		out.Linef("viol sig=C03/shutdown/never-returns queue=%s batch=%d", kind, c.batch)
	default:
		if len(und) > 0 {
			if c.persistent {
				out.Linef("viol sig=C03/persistent/accepted-item-neither-exported-nor-stored items=%s batch=%d", c03Join(und), c.batch)
			} else {
				out.Linef("viol sig=C03/memory/accepted-item-never-exported items=%s batch=%d", c03Join(und), c.batch)
			}
		}
		if len(v.interrupted) > 0 {
			out.Linef("viol sig=C03/persistent/shutdown-interrupted-item-not-stored items=%s batch=%d", c03Join(v.interrupted), c.batch)
		}
		if len(v.intrUnrec) > 0 {
			// interrupted by the shutdown (not finished), its bytes are in storage, but the next start does not deliver it: the
			// stored bookkeeping (dispatched list / indexes) no longer designates it
			out.Linef("viol sig=C03/persistent/shutdown-interrupted-item-not-redelivered-by-next-start items=%s batch=%d", c03Join(v.intrUnrec), c.batch)
		}
		if len(v.unrecovered) > 0 {
			// in storage when Shutdown returned, but the next start does not deliver it: recovery defect (property C01's domain)
			out.Linef("viol sig=C03/persistent/stored-item-not-redelivered-by-next-start items=%s batch=%d", c03Join(v.unrecovered), c.batch)
		}
		if len(v.duplicated) > 0 {
			out.Linef("viol sig=C03/%s/exported-twice-without-failure items=%s batch=%d", kind, c03Join(v.duplicated), c.batch)
		}
		if len(v.openCalls) > 0 {
			out.Linef("viol sig=C03/quiet/export-call-still-running-at-return calls=%s batch=%d", c03Join(v.openCalls), c.batch)
		}
		if len(v.lateCalls) > 0 {
			out.Linef("viol sig=C03/quiet/export-call-begins-after-return calls=%s batch=%d", c03Join(v.lateCalls), c.batch)
		}
		if run.leak > 0 {
			out.Linef("viol sig=C03/quiet/goroutine-left-running n=%d queue=%s batch=%d at=%s", run.leak, kind, c.batch, vHex(run.leakTop))
		}
	}
	for _, e := range run.evs {
		if e.kind == "uac" {
			out.Linef("viol sig=C03/persistent/storage-used-after-close op=%s", e.s)
			break
		}
	}
	if run.panicked != "" {
		out.Linef("viol sig=C03/panic %s", vHex(run.panicked))
	}
	if v.nontrivial {
		out.Linef("nt")
	}
	if run.goDelta != 0 {
		out.Linef("stat goroutine_count_delta_nonzero 1")
	}
	out.Linef("stat calls %d", v.nCalls)
	out.Linef("stat failed_calls %d", v.nFailed)
	out.Linef("stat accepted %d", v.nAcc)
	out.Linef("stat refused %d", v.nRej)
	out.Linef("stat cfg_%s_batch%d %d", kind, c.batch, 1)
	out.Linef("stat signal_%s 1", c03SigName[c.signal])
	if cs.failSet {
		out.Linef("stat storage_set_fails_at_shutdown 1")
	}
	if cs.failClose {
		out.Linef("stat storage_close_fails_at_shutdown 1")
	}
	out.Linef("stat shutdown_ctx_%d 1", cs.shutCtx)
	if c.sizer == "bytes" {
		out.Linef("stat bytes_sized_batching 1")
	}
	for _, e := range run.evs {
		if e.kind == "shutret" && e.failed {
			out.Linef("stat shutdown_returned_error 1")
		}
	}
	if c.wrap {
		out.Linef("stat request_wrapper 1")
	}
	if c.retry {
		out.Linef("stat cfg_retry 1")
	}
	if len(run.recovered) > 0 {
		out.Linef("stat recovered_items %d", len(run.recovered))
	}
	if v.nontrivial {
		out.Linef("stat shutdown_with_work_pending 1")
	}
	out.Linef("end")
}

func TestVerifC03Shutdown(t *testing.T) {
	out := vOpen(t)
	defer out.Close()
	out.Linef("model c03-shutdown 1")
	n := vN(300)
	corpus := c03Corpus()
	// One bubble for all cases: blockingDonePool is a process-wide sync.Pool and a channel made in one bubble must
	// not be used in another.
	synctest.Test(t, func(t *testing.T) {
		for _, c := range vCases(n) {
			var cs *c03Case
			if c < len(corpus) {
				cs = corpus[c]
			} else if cs = c03Systematic(c, len(corpus), 50); cs == nil {
				cs = c03Gen(c)
			}
			run := c03Exec(cs, exportertest.NewNopSettings(exportertest.NopType), nil)
			c03Emit(out, c, cs, run)
			out.Flush()
			if run.leak > 0 {
				// a helper goroutine that survived 3 virtual hours stays for good (e.g. a flush timer that re-arms itself) and would
				// keep the single bubble alive for ever: everything seen is written; end the test process here
				out.Close()
				os.Exit(3)
			}
			if run.hung {
				// goroutines of this case are stuck for good; the bubble cannot be reused
				return
			}
		}
	})
}
