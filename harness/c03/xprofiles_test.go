//go:build verif

package xexporterhelper

// C03 / C19 harness for the PROFILES exporter (xexporterhelper.NewProfilesExporter / NewProfilesRequestExporter): the fourth
// per-signal duplicate of exporterhelper's logs/traces/metrics exporters, which the in-package harness of exporterhelper
// (harness/c03/shutdown_test.go, harness/c19/exporter_test.go) cannot reach (import cycle). Compact copy of that harness'
// runner: one generated script per case (sends of identified SAMPLES, Shutdown at a generated instant, scripted backend), run
// in ONE testing/synctest bubble with virtual time, every event logged in real order under one mutex.
//
//   TestVerifC03XProfiles  protocol `model c03-shutdown 1` — the trace is judged by the existing Lean monitor (drv_c03) and by
//                          the Go oracle below (same verdict line, same `viol` signatures as c03Judge/c03Emit).
//   TestVerifC19XProfiles  protocol `model c19-xexp 1` — same runner with component-test telemetry: the code records NO item
//                          counter for profiles (the per-signal switches of obsReportSender / obsQueue have no profiles case)
//                          while the queue gauges ARE registered with data_type=profiles.
//
// Items = samples (Profiles.SampleCount()); sample id = first element of Sample.Value(). MergeSplit of profilesRequest never
// divides a profile, so payloads are built from profiles of 1 or 2 samples (both "fits" and "indivisible, larger than max").
// Queues: memory (requests- or items-sized) and, in 1/8 of the cases, PERSISTENT (requests-sized, map storage,
// NewProfilesQueueBatchSettings().Encoding = profilesEncoding) with a restart on the same storage; 1/8 queue-less.

import (
	"context"
	"errors"
	"fmt"
	"math"
	"os"
	"runtime"
	"sort"
	"strconv"
	"strings"
	"sync"
	"testing"
	"testing/synctest"
	"time"

	"github.com/cenkalti/backoff/v5"
	"go.opentelemetry.io/otel/attribute"
	"go.opentelemetry.io/otel/sdk/metric/metricdata"

	"go.opentelemetry.io/collector/component"
	"go.opentelemetry.io/collector/component/componenttest"
	"go.opentelemetry.io/collector/config/configretry"
	"go.opentelemetry.io/collector/consumer/consumererror"
	"go.opentelemetry.io/collector/consumer/consumererror/xconsumererror"
	"go.opentelemetry.io/collector/exporter"
	"go.opentelemetry.io/collector/exporter/exporterhelper"
	"go.opentelemetry.io/collector/exporter/exporterhelper/internal"
	"go.opentelemetry.io/collector/exporter/exporterhelper/internal/hosttest"
	"go.opentelemetry.io/collector/exporter/exporterhelper/internal/request"
	"go.opentelemetry.io/collector/exporter/exportertest"
	"go.opentelemetry.io/collector/extension/xextension/storage"
	"go.opentelemetry.io/collector/pdata/pprofile"
)

// ---- storage extension (map) that reports consumer-side use after Close (copy of c03Storage without fault injection) -----

type xpStorage struct {
	component.StartFunc
	component.ShutdownFunc
	mu    sync.Mutex
	st    map[string][]byte
	onUAC func(op string)
	// fault injection (from just before Shutdown): plain Set writes fail (the queue-size snapshot of an items/bytes-sized persistent
	// queue); Close of the storage client reports an error (the client is closed nevertheless)
	failSets  bool
	failClose bool
}

type xpClient struct {
	ext    *xpStorage
	closed bool
}

func (e *xpStorage) GetClient(context.Context, component.Kind, component.ID, string) (storage.Client, error) {
	return &xpClient{ext: e}, nil
}

func (c *xpClient) Get(ctx context.Context, k string) ([]byte, error) {
	op := storage.GetOperation(k)
	err := c.Batch(ctx, op)
	return op.Value, err
}

func (c *xpClient) Set(ctx context.Context, k string, v []byte) error {
	c.ext.mu.Lock()
	fail := c.ext.failSets
	c.ext.mu.Unlock()
	if fail {
		return errors.New("injected: storage write failed")
	}
	return c.Batch(ctx, storage.SetOperation(k, v))
}

func (c *xpClient) Delete(ctx context.Context, k string) error {
	return c.Batch(ctx, storage.DeleteOperation(k))
}

func (c *xpClient) Close(context.Context) error {
	c.ext.mu.Lock()
	defer c.ext.mu.Unlock()
	c.closed = true
	if c.ext.failClose {
		return errors.New("injected: storage close failed")
	}
	return nil
}

func (c *xpClient) Batch(_ context.Context, ops ...*storage.Operation) error {
	c.ext.mu.Lock()
	defer c.ext.mu.Unlock()
	if c.closed {
		consumerSide := false
		for _, op := range ops {
			if op.Type != storage.Set || op.Key == "ri" || op.Key == "di" {
				consumerSide = true
			}
		}
		if consumerSide && c.ext.onUAC != nil {
			c.ext.onUAC(fmt.Sprintf("%d:%s", ops[0].Type, ops[0].Key))
		}
		return errors.New("client closed")
	}
	for _, op := range ops {
		switch op.Type {
		case storage.Get:
			if v, ok := c.ext.st[op.Key]; ok {
				op.Value = v
			}
		case storage.Set:
			c.ext.st[op.Key] = op.Value
		case storage.Delete:
			delete(c.ext.st, op.Key)
		}
	}
	return nil
}

// ---- payloads ---------------------------------------------------------------------------------------------------------

// xpProfiles: one resource, one scope, profiles of 1 sample — or 2 samples when the first one's id is divisible by 3.
func xpProfiles(ids []int) pprofile.Profiles {
	pd := pprofile.NewProfiles()
	ps := pd.ResourceProfiles().AppendEmpty().ScopeProfiles().AppendEmpty().Profiles()
	for i := 0; i < len(ids); {
		k := 1
		if ids[i]%3 == 0 && i+1 < len(ids) {
			k = 2
		}
		p := ps.AppendEmpty()
		for j := 0; j < k; j++ {
			p.Sample().AppendEmpty().Value().Append(int64(ids[i+j]))
		}
		i += k
	}
	return pd
}

func xpIDs(pd pprofile.Profiles) []int {
	var out []int
	for i := 0; i < pd.ResourceProfiles().Len(); i++ {
		rp := pd.ResourceProfiles().At(i)
		for j := 0; j < rp.ScopeProfiles().Len(); j++ {
			sp := rp.ScopeProfiles().At(j)
			for k := 0; k < sp.Profiles().Len(); k++ {
				ss := sp.Profiles().At(k).Sample()
				for l := 0; l < ss.Len(); l++ {
					id := -1
					if ss.At(l).Value().Len() > 0 {
						id = int(ss.At(l).Value().At(0))
					}
					out = append(out, id)
				}
			}
		}
	}
	return out
}

func xpJoin(ids []int) string {
	if len(ids) == 0 {
		return "-"
	}
	s := make([]string, len(ids))
	for i, v := range ids {
		s[i] = strconv.Itoa(v)
	}
	return strings.Join(s, ",")
}

// ---- case description ----------------------------------------------------------------------------------------------------

type xpCfg struct {
	reqExp     bool // NewProfilesRequestExporter (converter + request consume func) instead of NewProfilesExporter
	queue      bool
	persistent bool
	sizer      string // requests | items | bytes
	capacity   int64
	consumers  int
	wfr        bool
	block      bool
	batch      int // 0 none, 1 sending_queue::batch, 2 legacy WithBatcher (with or without a sending queue)
	flushTO    time.Duration
	minSize    int64
	maxSize    int64
	retry      bool
	initial    time.Duration
	maxElapsed time.Duration
	timeout    time.Duration
}

type xpAct struct {
	at       time.Duration
	shutdown bool
	rid      int
	n        int
}

type xpCall struct {
	dur     time.Duration
	outcome int // 0 ok, 1 transient, 2 permanent, 3 partial (xconsumererror.NewProfiles naming a sub-list as undelivered)
}

type xpCase struct {
	cfg       xpCfg
	acts      []xpAct
	backend   []xpCall
	failSet   bool          // storage starts failing plain Set writes just before Shutdown is called
	failClose bool          // the storage client's Close fails (from just before Shutdown)
	shutCtx   int           // context handed to Shutdown: 0 live, 1 cancelled during the drain, 2 deadline, 3 already done on entry
	shutCtxD  time.Duration // … after this long
}

// hasQueueSender: the helper builds a QueueBatch (obsQueue included) for a sending queue AND for the legacy batcher alone (then a
// wait_for_result memory queue of capacity MaxInt, block_on_overflow)
func (c *xpCfg) hasQueueSender() bool { return c.queue || c.batch == 2 }

func (c *xpCfg) effCapacity() int64 {
	if !c.queue {
		return math.MaxInt
	}
	return c.capacity
}

func (c *xpCfg) options(host *component.Host, st *xpStorage) ([]exporterhelper.Option, error) {
	var opts []exporterhelper.Option
	opts = append(opts, exporterhelper.WithTimeout(exporterhelper.TimeoutConfig{Timeout: c.timeout}))
	if c.retry {
		opts = append(opts, exporterhelper.WithRetry(configretry.BackOffConfig{
			Enabled: true, InitialInterval: c.initial, RandomizationFactor: 0, Multiplier: 1.5,
			MaxInterval: 5 * time.Second, MaxElapsedTime: c.maxElapsed,
		}))
	}
	if c.queue {
		q := exporterhelper.NewDefaultQueueConfig()
		q.NumConsumers = c.consumers
		q.QueueSize = c.capacity
		q.WaitForResult = c.wfr
		q.BlockOnOverflow = c.block
		q.Sizer = request.SizerTypeRequests
		if c.sizer == "items" {
			q.Sizer = request.SizerTypeItems
		}
		if c.sizer == "bytes" {
			q.Sizer = request.SizerTypeBytes
		}
		if c.persistent {
			id := component.MustNewID("xpstore")
			q.StorageID = &id
			*host = hosttest.NewHost(map[component.ID]component.Component{id: st})
		}
		if c.batch == 1 {
			q.Batch = &exporterhelper.BatchConfig{FlushTimeout: c.flushTO, MinSize: c.minSize, MaxSize: c.maxSize}
		}
		vq := q
		if c.persistent {
			// persistent queues sized by items exist in the code (queue-size snapshots in storage) although Validate restricts
			// configuration files to the requests sizer, and `batch` wants an items/bytes sizer: validate everything else
			vq.Sizer = request.SizerTypeRequests
			vq.Batch = nil
		}
		if err := vq.Validate(); err != nil {
			return nil, err
		}
		if q.Batch != nil {
			if err := q.Batch.Validate(); err != nil {
				return nil, err
			}
		}
		if c.reqExp {
			// the request exporter has no queue settings of its own: WithQueue is refused, WithQueueBatch carries them
			opts = append(opts, exporterhelper.WithQueueBatch(q, NewProfilesQueueBatchSettings()))
		} else {
			opts = append(opts, exporterhelper.WithQueue(q))
		}
	}
	if c.batch == 2 {
		b := exporterhelper.NewDefaultBatcherConfig()
		b.FlushTimeout = c.flushTO
		b.MinSize = c.minSize
		b.MaxSize = c.maxSize
		if err := b.Validate(); err != nil {
			return nil, err
		}
		if c.reqExp && !c.queue {
			// the request exporter has no sizers of its own; the queue the helper builds for the legacy batcher needs the requests sizer
			opts = append([]exporterhelper.Option{internal.WithQueueBatchSettings(NewProfilesQueueBatchSettings())}, opts...)
		}
		opts = append(opts, exporterhelper.WithBatcher(b))
	}
	return opts, nil
}

type xpBuilt struct {
	comp    component.Component
	consume func(ctx context.Context, ids []int) error
}

func xpBuild(cs *xpCase, set exporter.Settings, push func(ctx context.Context, ids []int) error, opts []exporterhelper.Option) (*xpBuilt, error) {
	bg := context.Background()
	if cs.cfg.reqExp {
		e, err := NewProfilesRequestExporter(bg, set,
			func(_ context.Context, pd pprofile.Profiles) (exporterhelper.Request, error) { return newProfilesRequest(pd), nil },
			func(ctx context.Context, req exporterhelper.Request) error { return push(ctx, xpIDs(req.(*profilesRequest).pd)) }, opts...)
		if err != nil {
			return nil, err
		}
		return &xpBuilt{e, func(ctx context.Context, ids []int) error { return e.ConsumeProfiles(ctx, xpProfiles(ids)) }}, nil
	}
	e, err := NewProfilesExporter(bg, set, &struct{}{}, func(ctx context.Context, pd pprofile.Profiles) error { return push(ctx, xpIDs(pd)) }, opts...)
	if err != nil {
		return nil, err
	}
	return &xpBuilt{e, func(ctx context.Context, ids []int) error { return e.ConsumeProfiles(ctx, xpProfiles(ids)) }}, nil
}

var xpGaps = []time.Duration{0, 0, time.Millisecond, 20 * time.Millisecond, 200 * time.Millisecond, 2 * time.Second}
var xpDurs = []time.Duration{0, 0, 0, 5 * time.Millisecond, 100 * time.Millisecond, 3 * time.Second}

func xpGen(c int) *xpCase {
	rnd := vRand(c)
	cs := &xpCase{}
	cfg := &cs.cfg
	cfg.reqExp = rnd.IntN(2) == 0
	cfg.queue = true
	cfg.sizer = "requests"
	cfg.consumers = 1 + rnd.IntN(3)
	cfg.capacity = int64(1 + rnd.IntN(10))
	if rnd.IntN(2) == 0 {
		cfg.capacity = 1000
	}
	direct := false
	bytesSized := false
	batchParams := func() {
		cfg.flushTO = []time.Duration{30 * time.Millisecond, time.Second}[rnd.IntN(2)]
		cfg.minSize = int64(rnd.IntN(21))
		switch rnd.IntN(3) {
		case 0:
			cfg.maxSize = 0
		case 1:
			cfg.maxSize = cfg.minSize + int64(rnd.IntN(3))
			if cfg.maxSize == 0 {
				cfg.maxSize = 1
			}
		default:
			cfg.maxSize = cfg.minSize + int64(3+rnd.IntN(10))
		}
	}
	switch rnd.IntN(16) {
	case 0, 1: // queue-less
		direct = true
		cfg.queue = false
	case 2, 3: // persistent queue: requests-sized (what Config.Validate admits) or items-sized (exists in the code: size snapshot
		// written at shutdown), alone or with either batcher; storage faults at shutdown
		cfg.persistent = true
		if cfg.capacity < 3 {
			cfg.capacity = 3
		}
		switch rnd.IntN(4) {
		case 0:
		case 1: // sized by items: writes a size snapshot at shutdown
			cfg.sizer = "items"
			cfg.capacity = int64(8 + rnd.IntN(60))
			cs.failSet = rnd.IntN(2) == 0
		case 2: // + legacy batcher
			cfg.batch = 2
			batchParams()
		case 3: // + sending_queue::batch (items-sized queue)
			cfg.batch = 1
			cfg.sizer = "items"
			cfg.capacity = int64(20 + rnd.IntN(80))
			if rnd.IntN(2) == 0 {
				cfg.capacity = 10000
			}
			batchParams()
			cs.failSet = rnd.IntN(2) == 0
		}
		cs.failClose = rnd.IntN(3) == 0
	case 4, 5, 6: // memory queue, requests- or items-sized
		if rnd.IntN(2) == 0 {
			cfg.sizer = "items"
			cfg.capacity = int64(4 + rnd.IntN(30))
			if rnd.IntN(3) == 0 {
				cfg.capacity = 10000
			}
		}
	case 7, 8, 9, 10, 11: // memory queue + sending_queue::batch, 1/3 sized in BYTES (queue and batcher: merges and splits by encoded size)
		cfg.batch = 1
		cfg.sizer = "items"
		cfg.capacity = int64(8 + rnd.IntN(60))
		if rnd.IntN(2) == 0 {
			cfg.capacity = 10000
		}
		batchParams()
		bytesSized = rnd.IntN(3) == 0
	case 12, 13: // legacy WithBatcher: with a memory queue, or alone (the helper then builds a wait_for_result queue of its own)
		cfg.batch = 2
		batchParams()
		if rnd.IntN(2) == 0 {
			cfg.queue = false
		}
	default: // wait_for_result
		cfg.wfr = true
	}
	if bytesSized {
		cfg.sizer = "bytes"
		// a payload of n samples encodes to about 8 + 12 n bytes (1: 20 B, 8: 90 B, 21: 220 B): sizes scaled so that merges AND splits happen
		cfg.capacity = []int64{600, 1000000}[rnd.IntN(2)]
		cfg.minSize = []int64{0, 40, 120}[rnd.IntN(3)]
		cfg.maxSize = 0
		if rnd.IntN(2) == 0 {
			cfg.maxSize = cfg.minSize + int64(40+rnd.IntN(120))
		}
	}
	if cfg.queue && !cfg.wfr && rnd.IntN(5) == 0 {
		cfg.block = true
	}
	if rnd.IntN(2) == 0 {
		cfg.retry = true
		cfg.initial = []time.Duration{10 * time.Millisecond, 100 * time.Millisecond, time.Second}[rnd.IntN(3)]
		cfg.maxElapsed = []time.Duration{0, 300 * time.Millisecond, 10 * time.Second}[rnd.IntN(3)]
	}
	if rnd.IntN(3) == 0 {
		cfg.timeout = 2 * time.Second
	}
	if direct {
		cfg.block = false
		cfg.retry = rnd.IntN(3) != 0
		cfg.initial = []time.Duration{10 * time.Millisecond, 100 * time.Millisecond, time.Second}[rnd.IntN(3)]
		cfg.maxElapsed = []time.Duration{0, 0, 10 * time.Second}[rnd.IntN(3)]
		cfg.timeout = []time.Duration{0, 2 * time.Second}[rnd.IntN(2)]
	}
	nSend := 1 + rnd.IntN(10)
	t := time.Duration(0)
	for i := 0; i < nSend; i++ {
		t += xpGaps[rnd.IntN(len(xpGaps))]
		cs.acts = append(cs.acts, xpAct{at: t, rid: i + 1, n: 1 + rnd.IntN(8)})
	}
	var sd time.Duration
	switch rnd.IntN(6) {
	case 0:
		sd = cs.acts[rnd.IntN(len(cs.acts))].at
	case 1:
		sd = cs.acts[rnd.IntN(len(cs.acts))].at + time.Duration(1+rnd.IntN(4))*time.Millisecond
	case 2:
		sd = cs.acts[rnd.IntN(len(cs.acts))].at + xpDurs[rnd.IntN(len(xpDurs))]
	case 3:
		sd = cs.acts[rnd.IntN(len(cs.acts))].at + cfg.flushTO + time.Duration(rnd.IntN(3)-1)*time.Millisecond
	case 4:
		sd = cs.acts[rnd.IntN(len(cs.acts))].at + cfg.initial
	default:
		sd = t + time.Duration(rnd.IntN(3))*time.Second
	}
	if sd < 0 {
		sd = 0
	}
	if direct {
		// 1-3 producers call Send almost together and are retrying against a failing backend when Shutdown is requested; the
		// shutdown instant is off the millisecond grid (a Shutdown in the very instant a back-off timer fires is a tie the retry
		// loop's select resolves at random; excluded as in the exporterhelper harness)
		cs.acts = cs.acts[:1+rnd.IntN(min(3, len(cs.acts)))]
		t = 0
		for i := range cs.acts {
			t += time.Duration(rnd.IntN(3)) * time.Millisecond
			cs.acts[i].at = t
		}
		sd = t + time.Duration(1+rnd.IntN(2000))*time.Millisecond + 137*time.Microsecond + time.Nanosecond
	}
	if rnd.IntN(2) == 0 {
		cs.shutCtx = 1 + rnd.IntN(3)
		cs.shutCtxD = []time.Duration{time.Millisecond, 50 * time.Millisecond, time.Second, 2500 * time.Millisecond}[rnd.IntN(4)]
	}
	cs.acts = append(cs.acts, xpAct{at: sd, shutdown: true})
	for i := 0; i < rnd.IntN(3) && !direct; i++ { // late sends
		cs.acts = append(cs.acts, xpAct{at: sd + xpGaps[rnd.IntN(len(xpGaps))], rid: nSend + 1 + i, n: 1 + rnd.IntN(4)})
	}
	sort.SliceStable(cs.acts, func(i, j int) bool { return cs.acts[i].at < cs.acts[j].at })
	nb := rnd.IntN(24)
	failPct := []int{0, 0, 10, 30, 60}[rnd.IntN(5)]
	if direct {
		nb = 10 + rnd.IntN(30)
		failPct = []int{60, 90, 100}[rnd.IntN(3)]
	}
	for i := 0; i < nb; i++ {
		call := xpCall{dur: xpDurs[rnd.IntN(len(xpDurs))]}
		if direct {
			call = xpCall{dur: []time.Duration{0, 0, 5 * time.Millisecond, 3 * time.Second}[rnd.IntN(4)]}
			if rnd.IntN(100) < failPct {
				call.outcome = 1
			}
			cs.backend = append(cs.backend, call)
			continue
		}
		if rnd.IntN(100) < failPct {
			call.outcome = []int{1, 1, 2, 3}[rnd.IntN(4)]
		}
		cs.backend = append(cs.backend, call)
	}
	return cs
}

// corpus: hand-made schedules run first (case indices 0..len-1)
func xpCorpus() []*xpCase {
	ms := time.Millisecond
	send := func(at time.Duration, rid, n int) xpAct { return xpAct{at: at, rid: rid, n: n} }
	sd := func(at time.Duration) xpAct { return xpAct{at: at, shutdown: true} }
	tr := xpCall{0, 1}
	return []*xpCase{
		// 0: partial batch parked (min never reached, flush timer far away) when Shutdown is requested: flushed once by Shutdown
		{cfg: xpCfg{queue: true, sizer: "items", capacity: 10000, consumers: 1, batch: 1, flushTO: time.Second, minSize: 20},
			acts: []xpAct{send(0, 1, 3), send(ms, 2, 3), send(2*ms, 3, 3), send(3*ms, 4, 3), sd(10 * ms)}},
		// 1: same through the request exporter, failing first attempt, retry enabled (stopped retry sender: one attempt in the drain)
		{cfg: xpCfg{reqExp: true, queue: true, sizer: "items", capacity: 10000, consumers: 1, batch: 1, flushTO: time.Second, minSize: 20, retry: true, initial: 100 * ms},
			acts: []xpAct{send(0, 1, 3), send(ms, 2, 3), sd(10 * ms)}, backend: []xpCall{tr}},
		// 2: back-off at shutdown: the only consumer waits 1 s for its retry when Shutdown is requested, two more requests are queued
		{cfg: xpCfg{queue: true, sizer: "requests", capacity: 100, consumers: 1, retry: true, initial: time.Second},
			acts: []xpAct{send(0, 1, 2), send(0, 2, 2), send(0, 3, 2), sd(500 * ms)}, backend: []xpCall{tr, tr, tr, tr}},
		// 3: slow call at shutdown, three consumers, queue still holds requests
		{cfg: xpCfg{queue: true, sizer: "requests", capacity: 100, consumers: 3},
			acts:    []xpAct{send(0, 1, 2), send(0, 2, 2), send(0, 3, 2), send(0, 4, 2), send(0, 5, 2), send(0, 6, 2), send(0, 7, 2), sd(ms)},
			backend: []xpCall{{3 * time.Second, 0}, {3 * time.Second, 1}, {3 * time.Second, 0}, {100 * ms, 2}}},
		// 4: backlog of 5 requests with 1 consumer, every call takes 100 ms
		{cfg: xpCfg{reqExp: true, queue: true, sizer: "requests", capacity: 100, consumers: 1},
			acts:    []xpAct{send(0, 1, 3), send(0, 2, 1), send(0, 3, 4), send(0, 4, 2), send(0, 5, 6), sd(ms)},
			backend: []xpCall{{100 * ms, 0}, {100 * ms, 0}, {100 * ms, 1}, {100 * ms, 0}, {100 * ms, 0}}},
		// 5: queue-less with retry: two producers retrying against a failing backend when Shutdown is requested
		{cfg: xpCfg{queue: false, sizer: "requests", capacity: 1, consumers: 1, retry: true, initial: time.Second},
			acts:    []xpAct{send(0, 1, 2), send(ms, 2, 3), sd(500*ms + 137*time.Microsecond)},
			backend: []xpCall{tr, tr, tr, tr, tr, tr, tr, tr, tr, tr, tr, tr}},
		// 6: wait_for_result with a failing backend: the error comes back through Send
		{cfg: xpCfg{queue: true, sizer: "requests", capacity: 100, consumers: 1, wfr: true},
			acts: []xpAct{send(0, 1, 4), send(ms, 2, 3), sd(time.Second)}, backend: []xpCall{{0, 2}, {0, 0}}},
		// 7: queue full: refusals (capacity 2 requests, slow backend)
		{cfg: xpCfg{queue: true, sizer: "requests", capacity: 2, consumers: 1},
			acts:    []xpAct{send(0, 1, 2), send(0, 2, 2), send(0, 3, 2), send(0, 4, 2), send(0, 5, 2), sd(10 * time.Second)},
			backend: []xpCall{{time.Second, 0}, {time.Second, 1}}},
		// 8: request larger than max size split over several flushes while Shutdown is requested (profiles of 1 and 2 samples)
		{cfg: xpCfg{queue: true, sizer: "items", capacity: 10000, consumers: 1, batch: 1, flushTO: time.Second, minSize: 3, maxSize: 3},
			acts: []xpAct{send(0, 1, 8), send(0, 2, 8), sd(ms)}, backend: []xpCall{{100 * ms, 0}, {100 * ms, 1}, {100 * ms, 0}}},
		// 9: partial failures: the retry carries only the undelivered sub-list (profilesRequest.OnError)
		{cfg: xpCfg{queue: true, sizer: "requests", capacity: 100, consumers: 1, retry: true, initial: 10 * ms},
			acts: []xpAct{send(0, 1, 6), send(ms, 2, 4), sd(time.Second)}, backend: []xpCall{{0, 3}, {0, 3}, {0, 0}, {0, 3}, {0, 2}}},
		// 10: persistent queue, retry waiting when shutdown is requested: the request must stay stored and come back after a restart
		{cfg: xpCfg{queue: true, persistent: true, sizer: "requests", capacity: 100, consumers: 1, retry: true, initial: time.Second},
			acts: []xpAct{send(0, 1, 2), send(0, 2, 2), send(0, 3, 2), sd(500 * ms)}, backend: []xpCall{tr, tr, tr, tr}},
		// 11: shutdown exactly when the flush timer fires
		{cfg: xpCfg{reqExp: true, queue: true, sizer: "items", capacity: 10000, consumers: 1, batch: 1, flushTO: 30 * ms, minSize: 20},
			acts: []xpAct{send(0, 1, 3), sd(30 * ms), send(30*ms, 2, 2)}, backend: []xpCall{{5 * ms, 0}}},
		// 12: queue and batcher sized in BYTES: payloads merged (min not reached alone), then a split by max_size; ids/counters are items
		{cfg: xpCfg{queue: true, sizer: "bytes", capacity: 1000000, consumers: 1, batch: 1, flushTO: time.Second, minSize: 120, maxSize: 160},
			acts: []xpAct{send(0, 1, 5), send(ms, 2, 7), send(2*ms, 3, 21), sd(5 * time.Second)}, backend: []xpCall{{0, 0}, {0, 1}}},
		// 13: legacy WithBatcher WITHOUT a sending queue (request exporter): partial batch parked when Shutdown is requested; Send waits for the result
		{cfg: xpCfg{reqExp: true, queue: false, sizer: "requests", capacity: 1, consumers: 1, batch: 2, flushTO: time.Second, minSize: 20},
			acts: []xpAct{send(0, 1, 3), send(ms, 2, 3), sd(10 * ms)}},
		// 14: legacy WithBatcher with a memory queue, split by max_size, failing flush
		{cfg: xpCfg{queue: true, sizer: "requests", capacity: 100, consumers: 1, batch: 2, flushTO: 30 * ms, minSize: 3, maxSize: 3, retry: true, initial: 10 * ms},
			acts: []xpAct{send(0, 1, 8), send(ms, 2, 2), sd(35 * ms)}, backend: []xpCall{{0, 2}, {0, 0}, tr, tr}},
		// 15: storage faults AT SHUTDOWN, persistent queue + sending_queue::batch (items-sized): the size snapshot fails, the queue's own
		// Shutdown returns an error, the batcher must still be shut down (final flush of the parked batch, timer goroutine ended)
		{cfg: xpCfg{queue: true, persistent: true, sizer: "items", capacity: 1000, consumers: 1, batch: 1, flushTO: time.Second, minSize: 40}, failSet: true,
			acts: []xpAct{send(0, 1, 3), send(ms, 2, 3), sd(10 * ms)}},
		// 16: the client's Close fails, persistent queue + legacy batcher, partial batch parked
		{cfg: xpCfg{queue: true, persistent: true, sizer: "requests", capacity: 100, consumers: 1, batch: 2, flushTO: time.Hour, minSize: 40}, failClose: true,
			acts: []xpAct{send(0, 1, 3), send(ms, 2, 3), sd(time.Second)}},
		// 17: items-sized persistent queue whose size snapshot fails at shutdown while a slow export is in flight
		{cfg: xpCfg{queue: true, persistent: true, sizer: "items", capacity: 100, consumers: 2}, failSet: true,
			acts: []xpAct{send(0, 1, 2), send(0, 2, 2), send(0, 3, 2), sd(time.Second)}, backend: []xpCall{{3 * time.Second, 0}, {3 * time.Second, 1}, {0, 0}}},
		// 18-20: the context handed to Shutdown ends during a slow drain with a backlog (deadline / already done / cancelled)
		{cfg: xpCfg{queue: true, sizer: "requests", capacity: 100, consumers: 1}, shutCtx: 2, shutCtxD: 50 * ms,
			acts:    []xpAct{send(0, 1, 2), send(0, 2, 2), send(0, 3, 2), send(0, 4, 2), sd(ms)},
			backend: []xpCall{{3 * time.Second, 0}, {3 * time.Second, 1}, {3 * time.Second, 0}, {100 * ms, 2}}},
		{cfg: xpCfg{reqExp: true, queue: true, sizer: "requests", capacity: 100, consumers: 2, retry: true, initial: 100 * ms}, shutCtx: 3,
			acts:    []xpAct{send(0, 1, 2), send(0, 2, 2), send(0, 3, 2), send(0, 4, 2), send(0, 5, 1), sd(ms)},
			backend: []xpCall{{3 * time.Second, 0}, {3 * time.Second, 1}, {3 * time.Second, 0}, {100 * ms, 2}}},
		{cfg: xpCfg{queue: true, sizer: "items", capacity: 1000, consumers: 1, batch: 1, flushTO: time.Second, minSize: 40}, shutCtx: 1, shutCtxD: ms,
			acts: []xpAct{send(0, 1, 3), send(ms, 2, 3), sd(10 * ms)}, backend: []xpCall{{3 * time.Second, 0}}},
	}
}

// ---- running one case ----------------------------------------------------------------------------------------------------

type xpEv struct {
	t      time.Duration // virtual time since the case started
	kind   string        // ss acc rej shutreq shutret es ee wshut uac
	id     int
	ids    []int
	failed bool
	perm   bool
	s      string
}

type xpRun struct {
	start     time.Time
	mu        sync.Mutex
	evs       []xpEv
	recovered []int
	stored    []int
	leak      int
	leakTop   string
	goDelta   int
	hung      bool
	buildErr  error
	panicked  string
}

func (r *xpRun) log(e xpEv) {
	e.t = time.Since(r.start)
	r.mu.Lock()
	r.evs = append(r.evs, e)
	r.mu.Unlock()
}

// xpExec runs one case inside the caller's synctest bubble. probe (optional) is called by the shutdown actor, before Shutdown is
// requested, at a quiescent instant.
func xpExec(cs *xpCase, set exporter.Settings, probe func(run *xpRun)) *xpRun {
	run := &xpRun{start: time.Now()}
	bg := context.Background()
	synctest.Wait()
	base := runtime.NumGoroutine()
	st := &xpStorage{st: map[string][]byte{}}
	st.onUAC = func(op string) { run.log(xpEv{kind: "uac", s: op}) }
	var host component.Host = hosttest.NewHost(nil)
	opts, err := cs.cfg.options(&host, st)
	if err != nil {
		run.buildErr = err
		return run
	}
	var callMu sync.Mutex
	calls := 0
	pusher := func(ctx context.Context, ids []int) error {
		callMu.Lock()
		k := calls
		calls++
		callMu.Unlock()
		run.log(xpEv{kind: "es", id: k, ids: ids})
		var call xpCall
		if k < len(cs.backend) {
			call = cs.backend[k]
		}
		var err error
		if call.dur > 0 {
			if cs.cfg.timeout > 0 {
				select {
				case <-ctx.Done():
					err = ctx.Err()
				case <-time.After(call.dur):
				}
			} else {
				time.Sleep(call.dur)
			}
		}
		perm := false
		if err == nil {
			switch call.outcome {
			case 1:
				err = errors.New("transient")
			case 2:
				err = consumererror.NewPermanent(errors.New("permanent"))
				perm = true
			case 3:
				err = xconsumererror.NewProfiles(errors.New("partially delivered"), xpProfiles(xpPartialRest(k, ids)))
			}
		}
		run.log(xpEv{kind: "ee", id: k, failed: err != nil, perm: perm})
		return err
	}
	opts = append(opts, exporterhelper.WithShutdown(func(context.Context) error { run.log(xpEv{kind: "wshut"}); return nil }))
	built, err := xpBuild(cs, set, pusher, opts)
	if err != nil {
		run.buildErr = err
		return run
	}
	exp := built.comp
	if err = exp.Start(bg, host); err != nil {
		run.buildErr = err
		return run
	}
	sendCtx, cancelSends := context.WithCancel(bg)
	var wg sync.WaitGroup
	shutDone := make(chan struct{})
	for _, a := range cs.acts {
		a := a
		wg.Add(1)
		go func() {
			defer wg.Done()
			defer func() {
				if p := recover(); p != nil {
					run.mu.Lock()
					run.panicked = fmt.Sprint(p)
					run.mu.Unlock()
				}
			}()
			time.Sleep(a.at)
			if a.shutdown {
				if probe != nil {
					probe(run)
				}
				if cs.failSet || cs.failClose {
					// storage faults AT SHUTDOWN: the queue's own Shutdown returns an error; the rest of the shutdown must still happen
					st.mu.Lock()
					st.failSets = cs.failSet
					st.failClose = cs.failClose
					st.mu.Unlock()
				}
				// the context handed to Shutdown: the property does not make the drain conditional on it
				sctx := bg
				switch cs.shutCtx {
				case 1:
					c, cancel := context.WithCancel(bg)
					sctx = c
					go func() {
						select {
						case <-time.After(cs.shutCtxD):
						case <-shutDone:
						}
						cancel()
					}()
				case 2:
					c, cancel := context.WithTimeout(bg, cs.shutCtxD)
					defer cancel()
					sctx = c
				case 3:
					c, cancel := context.WithCancel(bg)
					cancel()
					sctx = c
				}
				run.log(xpEv{kind: "shutreq"})
				e := exp.Shutdown(sctx)
				run.log(xpEv{kind: "shutret", failed: e != nil})
				close(shutDone)
				return
			}
			ids := make([]int, a.n)
			for j := range ids {
				ids[j] = a.rid*100 + j
			}
			run.log(xpEv{kind: "ss", id: a.rid, ids: ids})
			if e := built.consume(sendCtx, ids); e == nil {
				run.log(xpEv{kind: "acc", id: a.rid, ids: ids})
			} else {
				run.log(xpEv{kind: "rej", id: a.rid, ids: ids})
			}
		}()
	}
	// let virtual time run until Shutdown returned or nothing can move any more
	select {
	case <-shutDone:
	case <-time.After(100 * time.Hour):
		run.hung = true
	}
	if run.hung {
		cancelSends()
		return run
	}
	time.Sleep(3 * time.Hour) // anything still scheduled (flush timers, back-offs) gets its chance to misbehave
	synctest.Wait()
	cancelSends() // release senders blocked on a queue nobody reads
	wg.Wait()
	synctest.Wait()
	for round := 0; round < 200; round++ {
		run.leak, run.leakTop = xpHelperGoroutines()
		if run.leak == 0 {
			break
		}
		runtime.Gosched()
		synctest.Wait()
	}
	run.goDelta = runtime.NumGoroutine() - base
	if cs.cfg.persistent {
		st.mu.Lock()
		for k, v := range st.st {
			if _, perr := strconv.ParseUint(k, 10, 64); perr != nil {
				continue
			}
			if req, uerr := (profilesEncoding{}).Unmarshal(v); uerr == nil {
				run.stored = append(run.stored, xpIDs(req.(*profilesRequest).pd)...)
			}
		}
		st.mu.Unlock()
		sort.Ints(run.stored)
		st.mu.Lock()
		st.failSets = false
		st.failClose = false
		st.mu.Unlock()
		// the next start: a new exporter on the same storage, always-succeeding backend
		var rmu sync.Mutex
		rcfg := cs.cfg
		rcfg.capacity = 100000
		rcfg.retry = false
		rcfg.batch = 0
		ropts, err := rcfg.options(&host, st)
		if err == nil {
			st.onUAC = nil
			rb, err := xpBuild(&xpCase{cfg: rcfg}, exportertest.NewNopSettings(exportertest.NopType), func(_ context.Context, ids []int) error {
				rmu.Lock()
				run.recovered = append(run.recovered, ids...)
				rmu.Unlock()
				return nil
			}, ropts)
			if err == nil && rb.comp.Start(bg, host) == nil {
				time.Sleep(time.Second)
				synctest.Wait()
				_ = rb.comp.Shutdown(bg)
				synctest.Wait()
			}
		}
		sort.Ints(run.recovered)
	}
	return run
}

// xpPartialRest: which items a partially failed call reports as undelivered (a non-empty sub-list, proper when possible)
func xpPartialRest(call int, ids []int) []int {
	n := len(ids)
	if n < 2 {
		return ids
	}
	switch call % 3 {
	case 0:
		return ids[n/2:]
	case 1:
		return ids[:(n+1)/2]
	default:
		return ids[1:]
	}
}

// xpRoots: the first call of the flight (chain of attempts) every call belongs to. Item ids are unique and a retry carries a
// sub-list of the previous attempt, so the flight of a call is the first call that contained (any of) its items.
func xpRoots(evs []xpEv) map[int]int {
	first := map[int]int{}
	root := map[int]int{}
	for _, e := range evs {
		if e.kind != "es" {
			continue
		}
		r := e.id
		if len(e.ids) > 0 {
			if f, ok := first[e.ids[0]]; ok {
				r = f
			}
		}
		root[e.id] = r
		for _, x := range e.ids {
			if _, ok := first[x]; !ok {
				first[x] = r
			}
		}
	}
	return root
}

// xpRetriesLeft: for every failed call, whether the retry sender (had it not been stopped) would have scheduled another attempt:
// the elapsed-time budget, counted from the flight's first call, was not exhausted by the next back-off delay (real back-off
// implementation, the case's parameters, randomization factor 0).
func xpRetriesLeft(cs *xpCase, evs []xpEv) map[int]bool {
	left := map[int]bool{}
	if !cs.cfg.retry {
		return left
	}
	type fl struct {
		first time.Duration
		bo    *backoff.ExponentialBackOff
	}
	roots := xpRoots(evs)
	flights := map[int]*fl{}
	for _, e := range evs {
		switch e.kind {
		case "es":
			k := roots[e.id]
			if flights[k] == nil {
				flights[k] = &fl{first: e.t, bo: &backoff.ExponentialBackOff{
					InitialInterval: cs.cfg.initial, RandomizationFactor: 0, Multiplier: 1.5, MaxInterval: 5 * time.Second}}
			}
		case "ee":
			f := flights[roots[e.id]]
			if f == nil || !e.failed || e.perm {
				continue
			}
			delay := f.bo.NextBackOff()
			exhausted := cs.cfg.maxElapsed > 0 && f.first+cs.cfg.maxElapsed < e.t+delay
			left[e.id] = !exhausted
		}
	}
	return left
}

// xpHelperGoroutines counts goroutines (other than the caller) that have a frame inside the exporter helper's internal packages
// (queue consumers, flush goroutines, batcher timer, retry back-off, senders blocked in the queue).
func xpHelperGoroutines() (int, string) {
	buf := make([]byte, 1<<20)
	buf = buf[:runtime.Stack(buf, true)]
	n, top := 0, ""
	for i, g := range strings.Split(string(buf), "\n\n") {
		if i == 0 {
			continue // the caller
		}
		if k := strings.Index(g, "exporterhelper/internal"); k >= 0 {
			n++
			if top == "" {
				line := g[k:]
				if e := strings.IndexAny(line, "(\n"); e >= 0 {
					line = line[:e]
				}
				top = line
			}
		}
	}
	return n, top
}

// ---- Go-side oracle (same definitions as c03Judge / C03.verdict in Lean) -------------------------------------------------

type xpVerdict struct {
	returned                                 bool
	undrained, duplicated, lost, unrecovered []int
	interrupted, intrUnrec                   []int
	openCalls, lateCalls                     []int
	nontrivial                               bool
	early                                    []int
	nCalls, nFailed, nAcc, nRej              int
}

func xpJudge(cs *xpCase, run *xpRun) xpVerdict {
	var v xpVerdict
	reqAt, retAt := -1, -1
	for i, e := range run.evs {
		if e.kind == "shutreq" && reqAt < 0 {
			reqAt = i
		}
		if e.kind == "shutret" && retAt < 0 {
			retAt = i
		}
	}
	v.returned = retAt >= 0
	end := retAt
	if end < 0 {
		end = len(run.evs)
	}
	lim := reqAt
	if lim < 0 {
		lim = len(run.evs)
	}
	count := map[int]int{}
	for _, e := range run.evs[:lim] {
		if e.kind == "acc" {
			v.early = append(v.early, e.ids...)
			for _, x := range e.ids {
				count[x]++
			}
		}
	}
	attempts := map[int]int{}
	failedFor := map[int]bool{}
	ended := map[int]bool{}
	failedCall := map[int]bool{}
	finishedBeforeReq := map[int]bool{}
	for _, e := range run.evs[:end] {
		if e.kind == "ee" {
			ended[e.id] = true
			if e.failed {
				failedCall[e.id] = true
			}
		}
	}
	for i, e := range run.evs[:end] {
		if e.kind != "es" {
			continue
		}
		v.nCalls++
		for _, x := range e.ids {
			attempts[x]++
			if failedCall[e.id] {
				failedFor[x] = true
			}
		}
		if !ended[e.id] && (cs.cfg.queue || cs.cfg.batch != 0) {
			// without queue and batcher the export call runs on the caller's goroutine: not a helper's call
			v.openCalls = append(v.openCalls, e.id)
		}
		if reqAt >= 0 && i < reqAt {
			for j := i; j < reqAt; j++ {
				if run.evs[j].kind == "ee" && run.evs[j].id == e.id {
					for _, x := range e.ids {
						finishedBeforeReq[x] = true
					}
				}
			}
		}
	}
	if retAt >= 0 {
		for _, e := range run.evs[retAt+1:] {
			if e.kind == "es" {
				v.lateCalls = append(v.lateCalls, e.id)
			}
		}
	}
	rec := map[int]bool{}
	for _, x := range run.recovered {
		rec[x] = true
	}
	sto := map[int]bool{}
	for _, x := range run.stored {
		sto[x] = true
	}
	for _, x := range v.early {
		if attempts[x] == 0 {
			v.undrained = append(v.undrained, x)
			if !sto[x] {
				v.lost = append(v.lost, x)
			} else if !rec[x] {
				v.unrecovered = append(v.unrecovered, x)
			}
		}
		if !failedFor[x] && attempts[x] > 1 && count[x] <= 1 {
			v.duplicated = append(v.duplicated, x)
		}
		if !finishedBeforeReq[x] {
			v.nontrivial = true
		}
	}
	// persistent queue: a flight whose LAST call failed with a retryable error while retries were enabled and not exhausted can
	// only have ended because the shutdown interrupted it: its items must still be stored (and come back after the restart)
	if cs.cfg.persistent && cs.cfg.retry && reqAt >= 0 {
		left := xpRetriesLeft(cs, run.evs)
		roots := xpRoots(run.evs)
		lastCall := map[int]int{}
		callIDs := map[int][]int{}
		for _, e := range run.evs[:end] {
			if e.kind == "es" {
				lastCall[roots[e.id]] = e.id
				callIDs[e.id] = e.ids
			}
		}
		isLast := map[int]bool{}
		for _, c := range lastCall {
			isLast[c] = true
		}
		for _, e := range run.evs[:end] {
			if e.kind == "ee" && isLast[e.id] && e.failed && !e.perm && left[e.id] {
				for _, x := range callIDs[e.id] {
					if count[x] > 0 && !sto[x] {
						v.interrupted = append(v.interrupted, x)
					} else if count[x] > 0 && !rec[x] {
						v.intrUnrec = append(v.intrUnrec, x)
					}
				}
			}
		}
		sort.Ints(v.interrupted)
		sort.Ints(v.intrUnrec)
	}
	for _, e := range run.evs {
		switch e.kind {
		case "acc":
			v.nAcc++
		case "rej":
			v.nRej++
		case "ee":
			if e.failed {
				v.nFailed++
			}
		}
	}
	return v
}

func xpD(d time.Duration) string { return strconv.FormatInt(int64(d), 10) }

func xpKind(c xpCfg) string {
	switch {
	case !c.queue && c.batch == 0:
		return "direct"
	case c.persistent:
		return "persistent"
	}
	return "memory"
}

// xpEmitOps: the op lines of protocol c03-shutdown (same keys as c03EmitOps; signal=profiles, no request wrapper, no storage faults)
func xpEmitOps(out *vOut, idx int, cs *xpCase) {
	c := cs.cfg
	out.Linef("case %d", idx)
	out.Linef("op cfg signal=profiles wrap=0 queue=%d persistent=%d sizer=%s cap=%d consumers=%d wfr=%d block=%d batch=%d flush=%s min=%d max=%d retry=%d initial=%s maxelapsed=%s timeout=%s failset=%d failclose=%d shutctx=%d shutctxd=%s reqexp=%d",
		vB(c.queue), vB(c.persistent), c.sizer, c.capacity, c.consumers, vB(c.wfr), vB(c.block), c.batch, xpD(c.flushTO), c.minSize, c.maxSize,
		vB(c.retry), xpD(c.initial), xpD(c.maxElapsed), xpD(c.timeout), vB(cs.failSet), vB(cs.failClose), cs.shutCtx, xpD(cs.shutCtxD), vB(c.reqExp))
	for _, a := range cs.acts {
		if a.shutdown {
			out.Linef("op act %s shutdown", xpD(a.at))
		} else {
			out.Linef("op act %s send %d %d", xpD(a.at), a.rid, a.n)
		}
	}
	for i, b := range cs.backend {
		out.Linef("op backend %d %s %d", i, xpD(b.dur), b.outcome)
	}
}

func xpEmitTrace(out *vOut, cs *xpCase, run *xpRun) {
	left := xpRetriesLeft(cs, run.evs)
	for _, e := range run.evs {
		switch e.kind {
		case "ss", "acc", "rej":
			out.Linef("tr %s %d %s", e.kind, e.id, xpJoin(e.ids))
		case "es":
			out.Linef("tr es %d %s", e.id, xpJoin(e.ids))
		case "ee":
			out.Linef("tr ee %d %d %d %d", e.id, vB(e.failed), vB(e.perm), vB(left[e.id]))
		case "shutret":
			out.Linef("tr shutret %d", vB(e.failed))
		case "uac":
			out.Linef("tr uac %s", e.s)
		case "gauge":
		default:
			out.Linef("tr %s", e.kind)
		}
	}
	if cs.cfg.persistent {
		out.Linef("tr stored %s", xpJoin(run.stored))
		out.Linef("tr recovered %s", xpJoin(run.recovered))
	}
	out.Linef("tr leak %d", run.leak)
}

func xpEmitC03(out *vOut, idx int, cs *xpCase, run *xpRun) {
	c := cs.cfg
	xpEmitOps(out, idx, cs)
	if run.buildErr != nil {
		out.Linef("tr builderr %s", vHex(run.buildErr.Error()))
		out.Linef("stat builderr 1")
		out.Linef("obs skipped")
		out.Linef("end")
		return
	}
	xpEmitTrace(out, cs, run)
	v := xpJudge(cs, run)
	und := v.undrained
	if c.persistent {
		und = v.lost
	}
	out.Linef("obs verdict returned=%d undrained=%s unrecovered=%s interrupted=%s intrunrec=%s dup=%s open=%s late=%s", vB(v.returned), xpJoin(und), xpJoin(v.unrecovered), xpJoin(v.interrupted), xpJoin(v.intrUnrec), xpJoin(v.duplicated), xpJoin(v.openCalls), xpJoin(v.lateCalls))
	kind := xpKind(c)
	switch {
	case run.hung || !v.returned:
		out.Linef("viol sig=C03/shutdown/never-returns queue=%s batch=%d", kind, c.batch)
	default:
		if len(und) > 0 {
			if c.persistent {
				out.Linef("viol sig=C03/persistent/accepted-item-neither-exported-nor-stored items=%s batch=%d", xpJoin(und), c.batch)
			} else {
				out.Linef("viol sig=C03/memory/accepted-item-never-exported items=%s batch=%d", xpJoin(und), c.batch)
			}
		}
		if len(v.interrupted) > 0 {
			out.Linef("viol sig=C03/persistent/shutdown-interrupted-item-not-stored items=%s batch=%d", xpJoin(v.interrupted), c.batch)
		}
		if len(v.intrUnrec) > 0 {
			out.Linef("viol sig=C03/persistent/shutdown-interrupted-item-not-redelivered-by-next-start items=%s batch=%d", xpJoin(v.intrUnrec), c.batch)
		}
		if len(v.unrecovered) > 0 {
			out.Linef("viol sig=C03/persistent/stored-item-not-redelivered-by-next-start items=%s batch=%d", xpJoin(v.unrecovered), c.batch)
		}
		if len(v.duplicated) > 0 {
			out.Linef("viol sig=C03/%s/exported-twice-without-failure items=%s batch=%d", kind, xpJoin(v.duplicated), c.batch)
		}
		if len(v.openCalls) > 0 {
			out.Linef("viol sig=C03/quiet/export-call-still-running-at-return calls=%s batch=%d", xpJoin(v.openCalls), c.batch)
		}
		if len(v.lateCalls) > 0 {
			out.Linef("viol sig=C03/quiet/export-call-begins-after-return calls=%s batch=%d", xpJoin(v.lateCalls), c.batch)
		}
		if run.leak > 0 {
			out.Linef("viol sig=C03/quiet/goroutine-left-running n=%d queue=%s batch=%d at=%s", run.leak, kind, c.batch, vHex(run.leakTop))
		}
	}
	for _, e := range run.evs {
		if e.kind == "uac" {
			out.Linef("viol sig=C03/persistent/storage-used-after-close op=%s", e.s)
			break
		}
	}
	if run.panicked != "" {
		out.Linef("viol sig=C03/panic %s", vHex(run.panicked))
	}
	if v.nontrivial {
		out.Linef("nt")
		out.Linef("stat shutdown_with_work_pending 1")
	}
	xpStats(out, cs, run, v)
	out.Linef("end")
}

func xpStats(out *vOut, cs *xpCase, run *xpRun, v xpVerdict) {
	c := cs.cfg
	if run.goDelta != 0 {
		out.Linef("stat goroutine_count_delta_nonzero 1")
	}
	out.Linef("stat calls %d", v.nCalls)
	out.Linef("stat failed_calls %d", v.nFailed)
	out.Linef("stat accepted %d", v.nAcc)
	out.Linef("stat refused %d", v.nRej)
	out.Linef("stat cfg_%s_batch%d 1", xpKind(c), c.batch)
	out.Linef("stat signal_profiles 1")
	if c.reqExp {
		out.Linef("stat ctor_NewProfilesRequestExporter 1")
	} else {
		out.Linef("stat ctor_NewProfilesExporter 1")
	}
	if c.queue {
		out.Linef("stat sizer_%s 1", c.sizer)
	}
	if cs.failSet {
		out.Linef("stat storage_set_fails_at_shutdown 1")
	}
	if cs.failClose {
		out.Linef("stat storage_close_fails_at_shutdown 1")
	}
	out.Linef("stat shutdown_ctx_%d 1", cs.shutCtx)
	if c.sizer == "bytes" {
		out.Linef("stat bytes_sized_batching 1")
	}
	if c.wfr {
		out.Linef("stat cfg_wait_for_result 1")
	}
	if c.block {
		out.Linef("stat cfg_block_on_overflow 1")
	}
	if c.retry {
		out.Linef("stat cfg_retry 1")
	}
	if c.timeout > 0 {
		out.Linef("stat cfg_timeout 1")
	}
	if len(run.recovered) > 0 {
		out.Linef("stat recovered_items %d", len(run.recovered))
	}
	split := 0
	for _, e := range run.evs {
		if e.kind == "shutret" && e.failed {
			out.Linef("stat shutdown_returned_error 1")
		}
	}
	// an export call carrying items of several sends (merged) / fewer items than its send (split or narrowed retry)
	owner := func(x int) int { return x / 100 }
	merged := 0
	for _, e := range run.evs {
		if e.kind != "es" || len(e.ids) == 0 {
			continue
		}
		o := owner(e.ids[0])
		for _, x := range e.ids {
			if owner(x) != o {
				merged++
				break
			}
		}
		for _, a := range cs.acts {
			if !a.shutdown && a.rid == o && len(e.ids) < a.n {
				split++
				break
			}
		}
	}
	if merged > 0 {
		out.Linef("stat calls_merging_sends %d", merged)
	}
	if split > 0 {
		out.Linef("stat calls_with_part_of_a_send %d", split)
	}
}

func xpCaseOf(c int, corpus []*xpCase) *xpCase {
	if c < len(corpus) {
		return corpus[c]
	}
	return xpGen(c)
}

func TestVerifC03XProfiles(t *testing.T) {
	out := vOpen(t)
	defer out.Close()
	out.Linef("model c03-shutdown 1")
	n := vN(300)
	corpus := xpCorpus()
	// One bubble for all cases (blockingDonePool of the queue is a process-wide sync.Pool: a channel made in one bubble must
	// not be used in another).
	synctest.Test(t, func(t *testing.T) {
		for _, c := range vCases(n) {
			cs := xpCaseOf(c, corpus)
			run := xpExec(cs, exportertest.NewNopSettings(exportertest.NopType), nil)
			xpEmitC03(out, c, cs, run)
			out.Flush()
			if run.leak > 0 {
				// a helper goroutine that survived 3 virtual hours stays for good and would keep the single bubble alive for ever:
				// everything seen is written; end the test process here
				out.Close()
				os.Exit(3)
			}
			if run.hung {
				return // goroutines of this case are stuck for good; the bubble cannot be reused
			}
		}
	})
}

// ---- C19: self-telemetry of the profiles exporter ------------------------------------------------------------------------

type xpMeter struct {
	sent, failed, enq int64 // sums over every data point of every otelcol_exporter_{sent,send_failed,enqueue_failed}_* metric
	series            int   // number of such data points
	names             []string
	other             []string // otelcol_exporter_* metrics that are neither item counters nor the two queue gauges
	capN, sizeN       int      // data points of the capacity / size gauge
	capV              int64
	capDT, sizeDT     string // data_type attribute of the gauges' data points ("," separated when several)
}

func xpDataType(set attribute.Set) string {
	if v, ok := set.Value(attribute.Key("data_type")); ok {
		return v.AsString()
	}
	return "none"
}

func xpCollect(tel *componenttest.Telemetry) (xpMeter, error) {
	var m xpMeter
	var rm metricdata.ResourceMetrics
	if err := tel.Reader.Collect(context.Background(), &rm); err != nil {
		return m, err
	}
	var capDT, sizeDT []string
	for _, sm := range rm.ScopeMetrics {
		for _, md := range sm.Metrics {
			if !strings.HasPrefix(md.Name, "otelcol_exporter_") {
				continue
			}
			rest := strings.TrimPrefix(md.Name, "otelcol_exporter_")
			switch d := md.Data.(type) {
			case metricdata.Sum[int64]:
				var tgt *int64
				switch {
				case strings.HasPrefix(rest, "sent_"):
					tgt = &m.sent
				case strings.HasPrefix(rest, "send_failed_"):
					tgt = &m.failed
				case strings.HasPrefix(rest, "enqueue_failed_"):
					tgt = &m.enq
				default:
					m.other = append(m.other, md.Name)
					continue
				}
				for _, dp := range d.DataPoints {
					*tgt += dp.Value
					m.series++
				}
				if len(d.DataPoints) > 0 {
					m.names = append(m.names, rest)
				}
			case metricdata.Gauge[int64]:
				switch rest {
				case "queue_capacity":
					for _, dp := range d.DataPoints {
						m.capN++
						m.capV += dp.Value
						capDT = append(capDT, xpDataType(dp.Attributes))
					}
				case "queue_size":
					for _, dp := range d.DataPoints {
						m.sizeN++
						sizeDT = append(sizeDT, xpDataType(dp.Attributes))
					}
				default:
					m.other = append(m.other, md.Name)
				}
			default:
				m.other = append(m.other, md.Name)
			}
		}
	}
	sort.Strings(m.names)
	sort.Strings(m.other)
	m.capDT, m.sizeDT = strings.Join(capDT, ","), strings.Join(sizeDT, ",")
	return m, nil
}

func TestVerifC19XProfiles(t *testing.T) {
	out := vOpen(t)
	defer out.Close()
	out.Linef("model c19-xexp 1")
	n := vN(300)
	corpus := xpCorpus()
	synctest.Test(t, func(t *testing.T) {
		for _, c := range vCases(n) {
			cs := xpCaseOf(c, corpus)
			cfg := cs.cfg
			tel := componenttest.NewTelemetry()
			set := exportertest.NewNopSettings(exportertest.NopType)
			set.TelemetrySettings = tel.NewTelemetrySettings()
			var gauge xpMeter
			var gaugeErr error
			gaugeRead := false
			run := xpExec(cs, set, func(*xpRun) {
				// quiescent instant just before Shutdown is requested (afterwards the gauges are unregistered)
				synctest.Wait()
				gauge, gaugeErr = xpCollect(tel)
				gaugeRead = true
			})
			out.Linef("case %d", c)
			// queue= / cap=: whether the helper built a QueueBatch (obsQueue and gauges included) and that queue's capacity — the legacy
			// batcher alone gets a wait_for_result queue of capacity MaxInt
			hasQ, effCap := cfg.hasQueueSender(), cfg.effCapacity()
			out.Linef("op cfg sig=profiles queue=%d persistent=%d sizer=%s cap=%d wfr=%d batch=%d retry=%d reqexp=%d sendingqueue=%d failset=%d failclose=%d shutctx=%d", vB(hasQ), vB(cfg.persistent), cfg.sizer, effCap, vB(cfg.wfr), cfg.batch, vB(cfg.retry), vB(cfg.reqExp), vB(cfg.queue), vB(cs.failSet), vB(cs.failClose), cs.shutCtx)
			if run.buildErr != nil || run.hung {
				out.Linef("op skip")
				if run.hung {
					out.Linef("viol sig=C19/xexporter/shutdown-never-returns queue=%s batch=%d", xpKind(cfg), cfg.batch)
				} else {
					out.Linef("stat builderr 1")
				}
				out.Linef("obs skipped")
				out.Linef("end")
				out.Flush()
				_ = tel.Shutdown(context.Background())
				if run.hung {
					return
				}
				continue
			}
			// every Send with what it was given and whether it was accepted; every pass through obsReportSender (= flight: chain of
			// attempts) with the items read before its first attempt and its final error
			nRefused, nFailedFlights, nFlights := 0, 0, 0
			for _, e := range run.evs {
				switch e.kind {
				case "acc":
					out.Linef("op send %d 1", len(e.ids))
				case "rej":
					out.Linef("op send %d 0", len(e.ids))
					nRefused++
				}
			}
			roots := xpRoots(run.evs)
			rootItems := map[int]int{}
			lastFailed := map[int]bool{}
			closed := map[int]bool{}
			var order []int
			for _, e := range run.evs {
				switch e.kind {
				case "es":
					r := roots[e.id]
					if _, ok := rootItems[r]; !ok {
						rootItems[r] = len(e.ids)
						order = append(order, r)
					}
					closed[r] = false
				case "ee":
					r := roots[e.id]
					lastFailed[r] = e.failed
					closed[r] = true
				}
			}
			for _, r := range order {
				if !closed[r] {
					continue // still inside its export call (queue-less sender cut off by the end of the case)
				}
				nFlights++
				if lastFailed[r] {
					nFailedFlights++
				}
				out.Linef("op flight %d %d", rootItems[r], vB(lastFailed[r]))
			}
			// the gauges, read before Shutdown
			switch {
			case !gaugeRead || gaugeErr != nil:
				out.Linef("obs gauge unread")
			case gauge.capN == 0:
				out.Linef("obs gauge none")
			default:
				out.Linef("obs gauge cap=%d datatype=%s", gauge.capV, gauge.capDT)
			}
			if gaugeRead && gaugeErr == nil {
				if hasQ && (gauge.capN != 1 || gauge.capV != effCap) {
					out.Linef("viol sig=C19/xexporter/capacity-gauge-not-configured-capacity points=%d cap=%d configured=%d", gauge.capN, gauge.capV, effCap)
				}
				if !hasQ && (gauge.capN != 0 || gauge.sizeN != 0) {
					out.Linef("viol sig=C19/xexporter/queue-gauge-without-queue cap_points=%d size_points=%d", gauge.capN, gauge.sizeN)
				}
				if hasQ && (gauge.capDT != "profiles" || gauge.sizeDT != "profiles") {
					out.Linef("viol sig=C19/xexporter/queue-gauge-data-type-not-profiles cap=%s size=%s", vHex(gauge.capDT), vHex(gauge.sizeDT))
				}
			}
			// the item counters, read after everything (cumulative sums: nothing is lost by Shutdown of the exporter)
			m, err := xpCollect(tel)
			if err != nil {
				out.Linef("obs counters unread")
			} else {
				out.Linef("obs counters sent=%d failed=%d enq=%d series=%d", m.sent, m.failed, m.enq, m.series)
				if m.series > 0 {
					out.Linef("viol sig=C19/xexporter/profiles-item-counter-recorded metrics=%s sent=%d failed=%d enq=%d series=%d", strings.Join(m.names, ","), m.sent, m.failed, m.enq, m.series)
				}
				if len(m.other) > 0 || len(gauge.other) > 0 {
					out.Linef("viol sig=C19/xexporter/unknown-exporter-metric names=%s", strings.Join(append(m.other, gauge.other...), ","))
				}
			}
			if nFailedFlights > 0 && nRefused > 0 {
				out.Linef("nt")
			}
			v := xpJudge(cs, run)
			xpStats(out, cs, run, v)
			out.Linef("stat flights %d", nFlights)
			out.Linef("stat failed_flights %d", nFailedFlights)
			if gaugeRead && gauge.capN > 0 {
				out.Linef("stat capacity_gauge_read 1")
			}
			out.Linef("end")
			out.Flush()
			_ = tel.Shutdown(context.Background())
			if run.leak > 0 {
				out.Close()
				os.Exit(3)
			}
		}
	})
}
