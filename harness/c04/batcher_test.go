//go:build verif

package queuebatch

import (
	"context"
	"errors"
	"fmt"
	"sort"
	"strings"
	"sync"
	"testing"
	"testing/synctest"
	"time"

	"go.opentelemetry.io/collector/component/componenttest"
	"go.opentelemetry.io/collector/exporter/exporterhelper/internal/experr"
	"go.opentelemetry.io/collector/exporter/exporterhelper/internal/request"
)

// vPart: one indivisible unit (think: one log record of n bytes) of incoming request id
type vPart struct{ id, n int }

// vBReq is a request that remembers which incoming request each of its units came from. MergeSplit concatenates and
// packs the units FIFO into chunks of at most max (the contract of the real bytes-sizer MergeSplit: a unit is never
// divided, a chunk is closed when the next unit does not fit, an oversized unit travels alone) - so the first chunk
// (pending batch + what still fits) and the last chunk can both be smaller than min_size.
type vBReq struct{ parts []vPart }

// vSamples: the request counts like a profiles request - the items sizer counts SAMPLES while the indivisible unit is a
// whole profile of several samples, so ItemsCount() is the sum of the unit sizes (set per case; cases run one at a time)
var vSamples bool

func (r *vBReq) ItemsCount() int {
	n := 0
	for _, p := range r.parts {
		if vSamples {
			n += p.n
		} else if p.n > 0 {
			n++
		}
	}
	return n
}

func (r *vBReq) size() int64 {
	n := 0
	for _, p := range r.parts {
		n += p.n
	}
	return int64(n)
}

func (r *vBReq) MergeSplit(_ context.Context, max int, _ request.SizerType, other request.Request) ([]request.Request, error) {
	all := append([]vPart{}, r.parts...)
	if other != nil {
		o := other.(*vBReq)
		all = append(all, o.parts...)
		o.parts = nil // mergeTo moves the other request's data into the receiver
	}
	// Like the real MergeSplit, the RECEIVER is mutated and returned as the LAST result (`res = append(res, req)`): after
	// the call it holds whatever was not extracted into the earlier results.
	if max == 0 {
		r.parts = all
		return []request.Request{r}, nil
	}
	var res []request.Request
	cur := &vBReq{}
	room := max
	for _, p := range all {
		if p.n > room && len(cur.parts) > 0 {
			res = append(res, cur)
			cur, room = &vBReq{}, max
		}
		cur.parts = append(cur.parts, p)
		room -= p.n
	}
	r.parts = cur.parts
	res = append(res, r)
	return res, nil
}

func (r *vBReq) String() string {
	if len(r.parts) == 0 {
		return "-"
	}
	var s []string
	for _, p := range r.parts {
		s = append(s, fmt.Sprintf("%d:%d", p.id, p.n))
	}
	return strings.Join(s, ",")
}

type vDone struct {
	id  int
	rec *vRec
}

func (d vDone) OnDone(err error) {
	d.rec.mu.Lock()
	defer d.rec.mu.Unlock()
	// the callback's view of the (possibly combined) error: is there one, and which classifications does it carry
	d.rec.fired = append(d.rec.fired, fmt.Sprintf("obs fired id=%d err=%d plain=%d shut=%d", d.id, vB(err != nil),
		vB(errors.Is(err, vErrPlain)), vB(experr.IsShutdownErr(err))))
}

var vErrPlain = errors.New("export failed")

// vOutcome: 0 success, 1 plain export error, 2 error classified as interrupted-by-shutdown
func vOutcome(kind int) error {
	switch kind {
	case 1:
		return vErrPlain
	case 2:
		return experr.NewShutdownErr(errors.New("retry interrupted"))
	}
	return nil
}

type vFlight struct {
	parts   string
	release chan error
}

type vRec struct {
	mu      sync.Mutex
	fired   []string
	started []*vFlight
}

// TestVerifC04Batcher drives the real defaultBatcher in a synctest bubble: scripted requests, scripted flush
// outcomes and completion order, timer flushes in virtual time, shutdown.
func TestVerifC04Batcher(t *testing.T) {
	out := vOpen(t)
	defer out.Close()
	out.Linef("model c04-batcher 1")
	n := vN(500)
	for _, c := range vCases(n) {
		synctest.Test(t, func(t *testing.T) {
			rnd := vRand(c)
			minSize := []int64{0, 1, 3, 5, 10}[rnd.IntN(5)]
			maxSize := int64(0)
			if rnd.IntN(4) != 0 {
				// min_size equal or close to max_size is the interesting corner
				maxSize = minSize + int64([]int{0, 0, 1, 2, 5}[rnd.IntN(5)])
				if maxSize == 0 {
					maxSize = int64(1 + rnd.IntN(5))
				}
			}
			cfg := BatchConfig{FlushTimeout: 100 * time.Millisecond, MinSize: minSize, MaxSize: maxSize}
			// 1 case in 5: the limits come from the RAW space (max below min, negative values, no / negative timeout) and pass
			// through the real BatchConfig.Validate(); the verdict is compared with the regenerated rules, an ACCEPTED
			// configuration runs the script below under every oracle
			raw := c%5 == 3 && c%10 != 9
			if raw {
				cfg.MinSize = int64([]int{-2, 0, 1, 2, 3, 5, 8, 10}[rnd.IntN(8)])
				cfg.MaxSize = int64(rnd.IntN(14) - 1)
				cfg.FlushTimeout = []time.Duration{100 * time.Millisecond, 100 * time.Millisecond, 100 * time.Millisecond, 0, -time.Millisecond}[rnd.IntN(5)]
				minSize, maxSize = cfg.MinSize, cfg.MaxSize
			}
			verr := cfg.Validate()
			if raw {
				out.Linef("case %d raw=1", c)
				out.Linef("op cfgraw ft=%d min=%d max=%d", int64(cfg.FlushTimeout), cfg.MinSize, cfg.MaxSize)
				out.Linef("obs valid=%d", vB(verr == nil))
				if verr != nil {
					out.Linef("stat raw_config_rejected 1")
					out.Linef("end")
					out.Flush()
					return
				}
				out.Linef("stat raw_config_accepted 1")
			} else if verr != nil {
				t.Fatalf("invalid generated config: %v", verr)
			}
			rec := &vRec{}
			if c%10 == 9 {
				vRunDisabled(out, c, rnd, rec)
				return
			}
			// the sizer TYPE the batcher is configured with: bytes (units of several bytes), items with one-item units, or
			// items with multi-sample indivisible units (profiles: pending batch + a profile that does not fit => MergeSplit
			// returns the pending batch unchanged followed by the new request)
			sizerType := request.SizerTypeBytes
			vSamples = false
			if c%3 == 1 {
				sizerType = request.SizerTypeItems
			} else if c%6 == 2 {
				sizerType = request.SizerTypeItems
				vSamples = true
			}
			qb := newDefaultBatcher(cfg, batcherSettings[request.Request]{
				sizerType: sizerType,
				sizer:     request.BaseSizer{SizeofFunc: func(r request.Request) int64 { return r.(*vBReq).size() }},
				next: func(_ context.Context, req request.Request) error {
					f := &vFlight{parts: req.(*vBReq).String(), release: make(chan error)}
					rec.mu.Lock()
					rec.started = append(rec.started, f)
					rec.mu.Unlock()
					return <-f.release
				},
				maxWorkers: 0,
			})
			if err := qb.Start(context.Background(), componenttest.NewNopHost()); err != nil {
				t.Fatal(err)
			}
			if !raw {
				out.Linef("case %d", c)
			}
			out.Linef("op cfg min=%d max=%d", minSize, maxSize)
			out.Linef("obs done")
			if vSamples {
				out.Linef("stat profiles_mode 1")
			}
			flights := map[int]*vFlight{}
			var open []int
			nextF := 0
			report := func() {
				synctest.Wait()
				rec.mu.Lock()
				st := rec.started
				rec.started = nil
				fired := rec.fired
				rec.fired = nil
				rec.mu.Unlock()
				// flush goroutines start in scheduler order: number the new flushes by content
				sort.Slice(st, func(i, j int) bool { return st[i].parts < st[j].parts })
				for _, f := range st {
					flights[nextF] = f
					open = append(open, nextF)
					out.Linef("obs flush f=%d parts=%s", nextF, f.parts)
					nextF++
				}
				sort.Strings(fired)
				for _, l := range fired {
					out.Linef("%s", l)
				}
				cur := "none"
				qb.currentBatchMu.Lock()
				if qb.currentBatch != nil {
					cur = qb.currentBatch.req.(*vBReq).String()
				}
				qb.currentBatchMu.Unlock()
				out.Linef("obs cur %s", cur)
			}
			finish := func(k int) {
				f := open[k]
				open = append(open[:k], open[k+1:]...)
				kind := []int{0, 0, 0, 1, 1, 2}[rnd.IntN(6)]
				out.Linef("op finish f=%d kind=%d", f, kind)
				flights[f].release <- vOutcome(kind)
				report()
			}
			steps := 1 + rnd.IntN(10)
			itemsMode := c%3 == 1
			if itemsMode {
				out.Linef("stat items_mode 1")
			}
			id := 0
			merged := false
			for s := 0; s < steps; s++ {
				switch k := rnd.IntN(10); {
				case k < 6:
					id++
					var parts []vPart
					var us []string
					nu := 1 + rnd.IntN(4)
					parked := 0
					qb.currentBatchMu.Lock()
					if qb.currentBatch != nil {
						parked = int(qb.currentBatch.req.(*vBReq).size())
					}
					qb.currentBatchMu.Unlock()
					switch {
					case itemsMode:
						// items-sizer shape: every unit is one item; half of the time the merged total is an exact
						// multiple of max_size (every chunk full, the receiver ends up as a FULL last chunk)
						nu = 1 + rnd.IntN(2*int(max(maxSize, 3))+2)
						if maxSize > 0 && rnd.IntN(2) == 0 {
							k := 1 + rnd.IntN(3)
							if t := k*int(maxSize) - parked; t > 0 {
								nu = t
							}
						}
						for u := 0; u < nu; u++ {
							parts = append(parts, vPart{id, 1})
							us = append(us, "1")
						}
						nu = 0
					case rnd.IntN(8) == 0:
						// a request without items: carried as one unit of size 0 (ItemsCount() == 0)
						nu = 0
						parts = append(parts, vPart{id, 0})
						us = append(us, "0")
					}
					for u := 0; u < nu; u++ {
						sz := 1 + rnd.IntN(int(max(maxSize, 4))+1)
						parts = append(parts, vPart{id, sz})
						us = append(us, fmt.Sprint(sz))
					}
					qb.currentBatchMu.Lock()
					if qb.currentBatch != nil {
						merged = true
					}
					qb.currentBatchMu.Unlock()
					out.Linef("op consume id=%d units=%s", id, strings.Join(us, ","))
					qb.Consume(context.Background(), &vBReq{parts: parts}, vDone{id: id, rec: rec})
					report()
				case k < 8 && len(open) > 0:
					finish(rnd.IntN(len(open)))
				default:
					out.Linef("op tick")
					time.Sleep(cfg.FlushTimeout + time.Millisecond)
					report()
				}
			}
			out.Linef("op shutdown")
			go func() { _ = qb.Shutdown(context.Background()) }()
			report()
			for len(open) > 0 {
				finish(rnd.IntN(len(open)))
			}
			if merged {
				out.Linef("nt")
				out.Linef("stat merged_into_current_batch 1")
			}
			out.Linef("end")
			out.Flush()
		})
	}
}

// vRunDisabled: disabledBatcher.Consume exports synchronously and hands the outcome to Done.
func vRunDisabled(out *vOut, c int, rnd interface{ IntN(int) int }, rec *vRec) {
	kind := 0
	nextF := 0
	var started []string
	db := newDisabledBatcher[request.Request](func(_ context.Context, req request.Request) error {
		started = append(started, fmt.Sprintf("obs flush f=%d parts=%s", nextF, req.(*vBReq).String()))
		nextF++
		return vOutcome(kind)
	})
	out.Linef("case %d mode=disabled", c)
	out.Linef("op cfg min=0 max=0")
	out.Linef("obs done")
	for id := 1; id <= 1+rnd.IntN(6); id++ {
		var parts []vPart
		var us []string
		for u, nu := 0, 1+rnd.IntN(3); u < nu; u++ {
			sz := rnd.IntN(6)
			parts = append(parts, vPart{id, sz})
			us = append(us, fmt.Sprint(sz))
		}
		kind = []int{0, 0, 1, 2}[rnd.IntN(4)]
		out.Linef("op dconsume id=%d units=%s kind=%d", id, strings.Join(us, ","), kind)
		db.Consume(context.Background(), &vBReq{parts: parts}, vDone{id: id, rec: rec})
		for _, l := range started {
			out.Linef("%s", l)
		}
		started = nil
		rec.mu.Lock()
		for _, l := range rec.fired {
			out.Linef("%s", l)
		}
		rec.fired = nil
		rec.mu.Unlock()
		out.Linef("obs cur none")
	}
	out.Linef("stat disabled_batcher 1")
	out.Linef("end")
	out.Flush()
}
