//go:build verif

package queuebatch

import (
	"context"
	"fmt"
	"testing"
	"time"

	"go.opentelemetry.io/collector/component"
	"go.opentelemetry.io/collector/exporter/exporterhelper/internal/request"
)

// the sizer codes of Model/C04Config.lean
func vSizerCode(s request.SizerType) int {
	switch s {
	case request.SizerTypeRequests:
		return 0
	case request.SizerTypeItems:
		return 1
	case request.SizerTypeBytes:
		return 2
	}
	return 3
}

func vSizerOf(code int) request.SizerType {
	switch code {
	case 0:
		return request.SizerTypeRequests
	case 1:
		return request.SizerTypeItems
	case 2:
		return request.SizerTypeBytes
	}
	return request.SizerType{}
}

func vQFields(cfg Config) string {
	b := BatchConfig{}
	if cfg.Batch != nil {
		b = *cfg.Batch
	}
	return fmt.Sprintf("en=%d wfr=%d sizer=%d qsize=%d boo=%d storage=%d ncons=%d batch=%d ft=%d min=%d max=%d",
		vB(cfg.Enabled), vB(cfg.WaitForResult), vSizerCode(cfg.Sizer), cfg.QueueSize, vB(cfg.BlockOnOverflow), vB(cfg.StorageID != nil),
		cfg.NumConsumers, vB(cfg.Batch != nil), int64(b.FlushTimeout), b.MinSize, b.MaxSize)
}

// TestVerifC04Config: RAW queue/batch configurations through the real Config.Validate / BatchConfig.Validate (what
// xconfmap.Validate calls for `sending_queue` and `sending_queue::batch`) and, when accepted, through the real
// newQueueBatch; the batcher that was built is read back (kind, sizer type, BatchConfig, worker count).
func TestVerifC04Config(t *testing.T) {
	out := vOpen(t)
	defer out.Close()
	out.Linef("model c04-config 1")
	n := vN(500)
	sid := component.MustNewID("storage")
	for _, c := range vCases(n) {
		rnd := vRand(c)
		small := func() int64 { return int64([]int{-3, -1, 0, 0, 1, 2, 5, 10, 1000}[rnd.IntN(9)]) }
		cfg := Config{
			Enabled:         rnd.IntN(6) != 0,
			WaitForResult:   rnd.IntN(3) == 0,
			Sizer:           vSizerOf([]int{0, 1, 2, 1, 2, 3}[rnd.IntN(6)]),
			QueueSize:       small(),
			BlockOnOverflow: rnd.IntN(2) == 0,
			NumConsumers:    int(small()),
		}
		if rnd.IntN(3) != 0 {
			// mostly positive so that the later rules are reached
			cfg.QueueSize, cfg.NumConsumers = int64(1+rnd.IntN(100)), 1+rnd.IntN(10)
		}
		if rnd.IntN(5) == 0 {
			cfg.StorageID = &sid
		}
		if rnd.IntN(4) != 0 {
			b := &BatchConfig{FlushTimeout: time.Duration(small()) * time.Millisecond, MinSize: small(), MaxSize: small()}
			if rnd.IntN(2) == 0 {
				b.FlushTimeout = time.Duration(1+rnd.IntN(500)) * time.Millisecond
			}
			if rnd.IntN(3) == 0 {
				// the max/min boundary
				b.MinSize = int64(rnd.IntN(12))
				b.MaxSize = b.MinSize + int64(rnd.IntN(5)) - 2
			}
			cfg.Batch = b
		}
		old := rnd.IntN(4) == 0
		// which sizers the exporter registered: all three, or (custom request exporters) fewer
		sizers := [][]int{{0, 1, 2}, {0, 1, 2}, {0, 1, 2}, {0, 1}, {0}}[rnd.IntN(5)]
		sz := ""
		for _, s := range sizers {
			sz += fmt.Sprint(s)
		}
		out.Linef("case %d", c)
		out.Linef("op qb %s old=%d sizers=%s", vQFields(cfg), vB(old), sz)
		vq := cfg.Validate() == nil
		vb := cfg.Batch.Validate() == nil
		out.Linef("obs valid q=%d b=%d", vB(vq), vB(vb))
		// NewQueueSender -> NewQueueBatchLegacyBatcher never validates the merged configuration (newQueueBatchConfig output):
		// with old=1 the queue part only has to be enabled
		if cfg.Enabled && vb && (vq || old && cfg.Batch != nil) {
			set := newFakeRequestSettings()
			all := set.Sizers
			set.Sizers = map[request.SizerType]request.Sizer[request.Request]{}
			for _, s := range sizers {
				set.Sizers[vSizerOf(s)] = all[vSizerOf(s)]
			}
			qb, err := newQueueBatch(set, cfg, func(context.Context, request.Request) error { return nil }, old)
			switch {
			case err != nil:
				out.Linef("obs built kind=err")
			default:
				switch b := qb.batcher.(type) {
				case *disabledBatcher[request.Request]:
					out.Linef("obs built kind=disabled")
				case *defaultBatcher:
					out.Linef("obs built kind=dflt sizer=%d ft=%d min=%d max=%d workers=%d", vSizerCode(b.sizerType),
						int64(b.cfg.FlushTimeout), b.cfg.MinSize, b.cfg.MaxSize, cap(b.workerPool))
					out.Linef("nt")
				default:
					out.Linef("obs built kind=unknown")
				}
			}
			out.Linef("stat accepted_and_built 1")
		} else {
			out.Linef("stat rejected_or_disabled 1")
		}
		out.Linef("end")
		out.Flush()
	}
}
