//go:build verif

package xexporterhelper

import (
	"context"
	"errors"
	"fmt"
	"sort"
	"strings"
	"sync"
	"testing"
	"testing/synctest"
	"time"

	"go.opentelemetry.io/collector/component"
	"go.opentelemetry.io/collector/component/componenttest"
	"go.opentelemetry.io/collector/exporter/exporterhelper/internal/experr"
	"go.opentelemetry.io/collector/exporter/exporterhelper/internal/queuebatch"
	"go.opentelemetry.io/collector/exporter/exporterhelper/internal/request"
	"go.opentelemetry.io/collector/pdata/pcommon"
	"go.opentelemetry.io/collector/pdata/pprofile"
	"go.opentelemetry.io/collector/pipeline/xpipeline"
)

// End-to-end joint run for the profiles signal (see harness/c04/e2e_test.go): REAL profilesRequest (real MergeSplit, real
// sizers from NewProfilesQueueBatchSettings) through the REAL queuebatch.NewQueueBatch under synctest.  An item is a
// profile (identified by its Time) weighing its number of samples: `parts` lists `request:samples`, a profile without
// samples is a zero-size unit.

var vE2EErrPlain = errors.New("export failed")

func vE2EOutcome(kind int) error {
	switch kind {
	case 1:
		return vE2EErrPlain
	case 2:
		return experr.NewShutdownErr(errors.New("retry interrupted"))
	}
	return nil
}

type vE2EItem struct {
	req, uid, w int
	res, scope  string
}

func vE2ERead(req request.Request) ([]vE2EItem, []int) {
	pd := req.(*profilesRequest).pd
	var out []vE2EItem
	var shells []int
	for i := 0; i < pd.ResourceProfiles().Len(); i++ {
		rp := pd.ResourceProfiles().At(i)
		rk, _ := rp.Resource().Attributes().Get("rk")
		var id, n int
		if _, err := fmt.Sscanf(rk.AsString(), "r%d-%d", &id, &n); err == nil {
			shells = append(shells, id)
		}
		for j := 0; j < rp.ScopeProfiles().Len(); j++ {
			sp := rp.ScopeProfiles().At(j)
			r, s := rk.AsString()+"|"+rp.SchemaUrl(), sp.Scope().Name()+"|"+sp.Scope().Version()+"|"+sp.SchemaUrl()
			for k := 0; k < sp.Profiles().Len(); k++ {
				p := sp.Profiles().At(k)
				t := int(p.Time())
				out = append(out, vE2EItem{t / 100000, t % 100000, p.Sample().Len(), r, s})
			}
		}
	}
	return out, shells
}

type vE2EFlight struct {
	items   []vE2EItem
	parts   string
	size    int64
	nres    int
	release chan error
}

type vE2ERec struct {
	mu      sync.Mutex
	fired   []string
	started []*vE2EFlight
}

func vE2EParts(items []vE2EItem, shells []int) string {
	var s []string
	has := map[int]bool{}
	for _, it := range items {
		s = append(s, fmt.Sprintf("%d:%d", it.req, it.w))
		has[it.req] = true
	}
	for _, id := range shells {
		if !has[id] {
			has[id] = true
			s = append(s, fmt.Sprintf("%d:0", id))
		}
	}
	if len(s) == 0 {
		return "-"
	}
	return strings.Join(s, ",")
}

func TestVerifC04E2EProfiles(t *testing.T) {
	out := vOpen(t)
	defer out.Close()
	out.Linef("model c04-e2e 1")
	n := vN(200)
	synctest.Test(t, func(t *testing.T) {
		for _, c := range vCases(n) {
			rnd := vRand(c)
			bytesSizer := c%2 == 1
			set := NewProfilesQueueBatchSettings()
			szt := request.SizerTypeItems
			minSize := int64([]int{0, 1, 3, 5, 10}[rnd.IntN(5)])
			maxSize := int64(0)
			if rnd.IntN(4) != 0 {
				maxSize = minSize + int64([]int{0, 0, 1, 2, 5}[rnd.IntN(5)])
				if maxSize == 0 {
					maxSize = int64(1 + rnd.IntN(5))
				}
			}
			maxItems := maxSize
			if bytesSizer {
				szt = request.SizerTypeBytes
				minSize, maxSize = minSize*60, maxSize*60
			}
			cfg := queuebatch.Config{Enabled: true, WaitForResult: true, Sizer: szt, QueueSize: 1 << 40, NumConsumers: 3,
				Batch: &queuebatch.BatchConfig{FlushTimeout: 100 * time.Millisecond, MinSize: minSize, MaxSize: maxSize}}
			if err := cfg.Validate(); err != nil {
				t.Fatalf("invalid generated config: %v", err)
			}
			if err := cfg.Batch.Validate(); err != nil {
				t.Fatalf("invalid generated config: %v", err)
			}
			rec := &vE2ERec{}
			sizer := set.Sizers[szt]
			qb, err := queuebatch.NewQueueBatch(queuebatch.Settings[request.Request]{
				Signal: xpipeline.SignalProfiles, ID: component.MustNewID("verif"), Telemetry: componenttest.NewNopTelemetrySettings(),
				Encoding: set.Encoding, Sizers: set.Sizers,
			}, cfg, func(_ context.Context, req request.Request) error {
				items, shells := vE2ERead(req)
				f := &vE2EFlight{items: items, parts: vE2EParts(items, shells), nres: len(shells), size: sizer.Sizeof(req), release: make(chan error)}
				rec.mu.Lock()
				rec.started = append(rec.started, f)
				rec.mu.Unlock()
				return <-f.release
			})
			if err != nil {
				t.Fatal(err)
			}
			if err := qb.Start(context.Background(), componenttest.NewNopHost()); err != nil {
				t.Fatal(err)
			}
			out.Linef("case %d mon=1", c)
			out.Linef("op cfg min=%d max=%d", minSize, maxSize)
			out.Linef("obs done")
			flights := map[int]*vE2EFlight{}
			var open []int
			nextF := 0
			sent := map[int]vE2EItem{}
			seen := map[int]int{}
			report := func() {
				synctest.Wait()
				rec.mu.Lock()
				st := rec.started
				rec.started = nil
				fired := rec.fired
				rec.fired = nil
				rec.mu.Unlock()
				sort.Slice(st, func(i, j int) bool { return st[i].parts < st[j].parts })
				for _, f := range st {
					flights[nextF] = f
					open = append(open, nextF)
					out.Linef("tr flush f=%d parts=%s", nextF, f.parts)
					if len(f.items) == 0 {
						out.Linef("stat itemless_batch_exported 1")
						if f.nres == 0 {
							out.Linef("viol sig=C04/e2e/empty-batch-exported f=%d", nextF)
						}
					}
					nextF++
					weight := 0
					for _, it := range f.items {
						seen[it.uid]++
						weight += it.w
						if want, ok := sent[it.uid]; !ok || want != it {
							out.Linef("viol sig=C04/e2e/item-context-changed uid=%d got=%v want=%v", it.uid, it, want)
						}
					}
					// unless it holds a single indivisible profile that weighs anything
					heavy := 0
					for _, it := range f.items {
						if it.w > 0 || bytesSizer {
							heavy++
						}
					}
					if maxSize > 0 && f.size > maxSize && heavy > 1 {
						out.Linef("viol sig=C04/e2e/batch-exceeds-max/profiles size=%d max=%d items=%d", f.size, maxSize, len(f.items))
					}
				}
				sort.Strings(fired)
				for _, l := range fired {
					out.Linef("tr %s", l)
				}
			}
			finish := func(k int) {
				f := open[k]
				open = append(open[:k], open[k+1:]...)
				kind := []int{0, 0, 0, 1, 1, 2}[rnd.IntN(6)]
				out.Linef("op finish f=%d kind=%d", f, kind)
				flights[f].release <- vE2EOutcome(kind)
				report()
			}
			uid := 0
			var wg sync.WaitGroup
			consume := func(id int) {
				nItems := 1 + rnd.IntN(int(max(maxItems, 3))+2)
				var us []string
				nRes := 1 + rnd.IntN(2)
				pd := pprofile.NewProfiles()
				for ri := 0; ri < nRes; ri++ {
					rp := pd.ResourceProfiles().AppendEmpty()
					rk, ru := fmt.Sprintf("r%d-%d", id, ri), fmt.Sprintf("https://res/%d", rnd.IntN(3))
					rp.Resource().Attributes().PutStr("rk", rk)
					rp.SetSchemaUrl(ru)
					for si := 0; si < 1+rnd.IntN(2); si++ {
						sn, su := fmt.Sprintf("s%d-%d-%d", id, ri, si), fmt.Sprintf("https://scope/%d", rnd.IntN(3))
						sp := rp.ScopeProfiles().AppendEmpty()
						sp.Scope().SetName(sn)
						sp.SetSchemaUrl(su)
						for k := 0; k < 1+nItems/(nRes*2); k++ {
							uid++
							p := sp.Profiles().AppendEmpty()
							p.SetTime(pcommon.Timestamp(id*100000 + uid))
							w := rnd.IntN(4)
							if id == 1 && uid == 1 {
								w = 1 + rnd.IntN(3) // the first request always weighs something (the queue ignores size-0 requests)
							}
							for smp := 0; smp < w; smp++ {
								p.Sample().AppendEmpty()
							}
							sent[uid] = vE2EItem{id, uid, w, rk + "|" + ru, sn + "||" + su}
							us = append(us, fmt.Sprint(w))
						}
					}
				}
				req := newProfilesRequest(pd)
				if sizer.Sizeof(req) == 0 {
					// memoryQueue.Offer ignores an element of size 0 (returns nil without handing it to the batcher): not sent
					for u, it := range sent {
						if it.req == id {
							delete(sent, u)
						}
					}
					out.Linef("stat zero_size_request_skipped 1")
					return
				}
				out.Linef("op consume id=%d units=%s", id, strings.Join(us, ","))
				wg.Add(1)
				go func() {
					defer wg.Done()
					err := qb.Send(context.Background(), req)
					rec.mu.Lock()
					rec.fired = append(rec.fired, fmt.Sprintf("fired id=%d err=%d plain=%d shut=%d", id, vB(err != nil),
						vB(errors.Is(err, vE2EErrPlain)), vB(experr.IsShutdownErr(err))))
					rec.mu.Unlock()
				}()
				report()
			}
			steps := 1 + rnd.IntN(8)
			id := 0
			for s := 0; s < steps; s++ {
				switch k := rnd.IntN(10); {
				case k < 6:
					id++
					consume(id)
				case k < 8 && len(open) > 0:
					finish(rnd.IntN(len(open)))
				default:
					out.Linef("op tick")
					time.Sleep(cfg.Batch.FlushTimeout + time.Millisecond)
					report()
				}
			}
			out.Linef("op shutdown")
			go func() { _ = qb.Shutdown(context.Background()) }()
			report()
			for len(open) > 0 {
				finish(rnd.IntN(len(open)))
			}
			wg.Wait()
			for u := range sent {
				if seen[u] != 1 {
					out.Linef("viol sig=C04/e2e/items-lost-or-duplicated uid=%d exported=%d", u, seen[u])
					break
				}
			}
			if id > 1 {
				out.Linef("nt")
			}
			out.Linef("stat e2e_profiles 1")
			out.Linef("stat e2e_monitored 1")
			out.Linef("end")
			out.Flush()
		}
	})
}
