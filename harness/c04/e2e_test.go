//go:build verif

package exporterhelper

import (
	"context"
	"errors"
	"fmt"
	"sort"
	"strings"
	"sync"
	"testing"
	"testing/synctest"
	"time"

	"go.opentelemetry.io/collector/component"
	"go.opentelemetry.io/collector/component/componenttest"
	"go.opentelemetry.io/collector/exporter/exporterhelper/internal/experr"
	"go.opentelemetry.io/collector/exporter/exporterhelper/internal/queuebatch"
	"go.opentelemetry.io/collector/exporter/exporterhelper/internal/request"
	"go.opentelemetry.io/collector/pdata/pcommon"
	"go.opentelemetry.io/collector/pdata/plog"
	"go.opentelemetry.io/collector/pdata/pmetric"
	"go.opentelemetry.io/collector/pdata/ptrace"
	"go.opentelemetry.io/collector/pipeline"
)

// End-to-end joint run: REAL logsRequest / metricsRequest (real MergeSplit, real sizers from New*QueueBatchSettings) through
// the REAL queuebatch.NewQueueBatch (memory queue with wait_for_result, async consumer, default batcher) under synctest.
// The outcome of every incoming request is what its Send call returns (the queue's Done), the exported batches are read
// back item by item.  Items sizer + logs: exact differential against the batcher model (`pack` = real MergeSplit on
// one-item units); bytes sizer and metrics: monitored (`tr` lines) and judged by the same Done oracle, plus direct
// conservation-with-context and size-bound oracles on the exported batches.

var vE2EErrPlain = errors.New("export failed")

func vE2EOutcome(kind int) error {
	switch kind {
	case 1:
		return vE2EErrPlain
	case 2:
		return experr.NewShutdownErr(errors.New("retry interrupted"))
	}
	return nil
}

// one exported item as read back: request id, unique id, and the context it travelled with
type vE2EItem struct {
	req, uid   int
	res, scope string
}

func vE2ECtx(res pcommon.Resource, resURL string, sc pcommon.InstrumentationScope, scURL string) (string, string) {
	rk, _ := res.Attributes().Get("rk")
	return rk.AsString() + "|" + resURL, sc.Name() + "|" + sc.Version() + "|" + scURL
}

func vE2EReadLogs(ld plog.Logs) []vE2EItem {
	var out []vE2EItem
	for i := 0; i < ld.ResourceLogs().Len(); i++ {
		rl := ld.ResourceLogs().At(i)
		for j := 0; j < rl.ScopeLogs().Len(); j++ {
			sl := rl.ScopeLogs().At(j)
			r, s := vE2ECtx(rl.Resource(), rl.SchemaUrl(), sl.Scope(), sl.SchemaUrl())
			for k := 0; k < sl.LogRecords().Len(); k++ {
				a := sl.LogRecords().At(k).Attributes()
				rq, _ := a.Get("req")
				uid, _ := a.Get("uid")
				out = append(out, vE2EItem{int(rq.Int()), int(uid.Int()), r, s})
			}
		}
	}
	return out
}

func vE2EReadTraces(td ptrace.Traces) []vE2EItem {
	var out []vE2EItem
	for i := 0; i < td.ResourceSpans().Len(); i++ {
		rs := td.ResourceSpans().At(i)
		for j := 0; j < rs.ScopeSpans().Len(); j++ {
			ss := rs.ScopeSpans().At(j)
			r, s := vE2ECtx(rs.Resource(), rs.SchemaUrl(), ss.Scope(), ss.SchemaUrl())
			for k := 0; k < ss.Spans().Len(); k++ {
				a := ss.Spans().At(k).Attributes()
				rq, _ := a.Get("req")
				uid, _ := a.Get("uid")
				out = append(out, vE2EItem{int(rq.Int()), int(uid.Int()), r, s})
			}
		}
	}
	return out
}

func vE2EReadMetrics(md pmetric.Metrics) []vE2EItem {
	var out []vE2EItem
	for i := 0; i < md.ResourceMetrics().Len(); i++ {
		rm := md.ResourceMetrics().At(i)
		for j := 0; j < rm.ScopeMetrics().Len(); j++ {
			sm := rm.ScopeMetrics().At(j)
			r, s := vE2ECtx(rm.Resource(), rm.SchemaUrl(), sm.Scope(), sm.SchemaUrl())
			for k := 0; k < sm.Metrics().Len(); k++ {
				mt := sm.Metrics().At(k)
				var dps pmetric.NumberDataPointSlice
				switch mt.Type() {
				case pmetric.MetricTypeGauge:
					dps = mt.Gauge().DataPoints()
				case pmetric.MetricTypeSum:
					dps = mt.Sum().DataPoints()
				default:
					continue
				}
				for p := 0; p < dps.Len(); p++ {
					a := dps.At(p).Attributes()
					rq, _ := a.Get("req")
					uid, _ := a.Get("uid")
					out = append(out, vE2EItem{int(rq.Int()), int(uid.Int()), r, s})
				}
			}
		}
	}
	return out
}

func vE2ERead(req request.Request) []vE2EItem {
	switch r := req.(type) {
	case *logsRequest:
		return vE2EReadLogs(r.ld)
	case *metricsRequest:
		return vE2EReadMetrics(r.md)
	case *tracesRequest:
		return vE2EReadTraces(r.td)
	}
	return nil
}

// vE2EShells: the incoming requests of which the batch carries a resource entry (`rk` = r<id>-<n>) - MergeSplit leaves emptied
// resource/scope shells behind, and with the bytes sizer a remainder made only of shells is exported as a batch of its own
func vE2EShells(req request.Request) []int {
	var out []int
	add := func(res pcommon.Resource) {
		rk, ok := res.Attributes().Get("rk")
		var id, n int
		if ok {
			if _, err := fmt.Sscanf(rk.AsString(), "r%d-%d", &id, &n); err == nil {
				out = append(out, id)
			}
		}
	}
	switch r := req.(type) {
	case *logsRequest:
		for i := 0; i < r.ld.ResourceLogs().Len(); i++ {
			add(r.ld.ResourceLogs().At(i).Resource())
		}
	case *metricsRequest:
		for i := 0; i < r.md.ResourceMetrics().Len(); i++ {
			add(r.md.ResourceMetrics().At(i).Resource())
		}
	case *tracesRequest:
		for i := 0; i < r.td.ResourceSpans().Len(); i++ {
			add(r.td.ResourceSpans().At(i).Resource())
		}
	}
	return out
}

type vE2EFlight struct {
	items   []vE2EItem
	parts   string
	size    int64
	nres    int
	release chan error
}

type vE2ERec struct {
	mu      sync.Mutex
	fired   []string
	started []*vE2EFlight
}

// vE2EParts: one `id:1` per item; `id:0` for a request of which the batch holds only an item-less resource shell
func vE2EParts(items []vE2EItem, shells []int) string {
	var s []string
	has := map[int]bool{}
	for _, it := range items {
		s = append(s, fmt.Sprintf("%d:1", it.req))
		has[it.req] = true
	}
	for _, id := range shells {
		if !has[id] {
			has[id] = true
			s = append(s, fmt.Sprintf("%d:0", id))
		}
	}
	if len(s) == 0 {
		return "-"
	}
	return strings.Join(s, ",")
}

func TestVerifC04E2E(t *testing.T) {
	out := vOpen(t)
	defer out.Close()
	out.Linef("model c04-e2e 1")
	n := vN(300)
	// ONE bubble for all cases: the memory queue recycles its wait_for_result channels through a package-level sync.Pool,
	// a channel made in one bubble must not be used from another
	synctest.Test(t, func(t *testing.T) {
		for _, c := range vCases(n) {
			rnd := vRand(c)
			metrics := c%4 == 3
			traces := c%4 == 2 || c%8 == 1
			bytesSizer := c%2 == 1
			// monitored, not diffed: sending_queue::batch forces ONE batcher worker (`cfg.NumConsumers = 1`), so a flush waits for
			// the previous export to end and the single queue consumer waits with it - the worker pool is outside the batcher model
			const monitor = true
			var set QueueBatchSettings
			sig := pipeline.SignalLogs
			if metrics {
				set, sig = NewMetricsQueueBatchSettings(), pipeline.SignalMetrics
			} else if traces {
				set, sig = NewTracesQueueBatchSettings(), pipeline.SignalTraces
			} else {
				set = NewLogsQueueBatchSettings()
			}
			szt := request.SizerTypeItems
			minSize := int64([]int{0, 1, 3, 5, 10}[rnd.IntN(5)])
			maxSize := int64(0)
			if rnd.IntN(4) != 0 {
				maxSize = minSize + int64([]int{0, 0, 1, 2, 5}[rnd.IntN(5)])
				if maxSize == 0 {
					maxSize = int64(1 + rnd.IntN(5))
				}
			}
			maxItems := maxSize
			if bytesSizer {
				szt = request.SizerTypeBytes
				minSize, maxSize = minSize*60, maxSize*60
			}
			cfg := queuebatch.Config{Enabled: true, WaitForResult: true, Sizer: szt, QueueSize: 1 << 40, NumConsumers: 3,
				Batch: &queuebatch.BatchConfig{FlushTimeout: 100 * time.Millisecond, MinSize: minSize, MaxSize: maxSize}}
			if err := cfg.Validate(); err != nil {
				t.Fatalf("invalid generated config: %v", err)
			}
			if err := cfg.Batch.Validate(); err != nil {
				t.Fatalf("invalid generated config: %v", err)
			}
			rec := &vE2ERec{}
			sizer := set.Sizers[szt]
			qb, err := queuebatch.NewQueueBatch(queuebatch.Settings[request.Request]{
				Signal: sig, ID: component.MustNewID("verif"), Telemetry: componenttest.NewNopTelemetrySettings(),
				Encoding: set.Encoding, Sizers: set.Sizers,
			}, cfg, func(_ context.Context, req request.Request) error {
				items := vE2ERead(req)
				f := &vE2EFlight{items: items, parts: vE2EParts(items, vE2EShells(req)), nres: len(vE2EShells(req)), size: sizer.Sizeof(req), release: make(chan error)}
				rec.mu.Lock()
				rec.started = append(rec.started, f)
				rec.mu.Unlock()
				return <-f.release
			})
			if err != nil {
				t.Fatal(err)
			}
			if err := qb.Start(context.Background(), componenttest.NewNopHost()); err != nil {
				t.Fatal(err)
			}
			obs := "obs"
			if monitor {
				obs = "tr"
				out.Linef("case %d mon=1", c)
			} else {
				out.Linef("case %d mon=0", c)
			}
			out.Linef("op cfg min=%d max=%d", minSize, maxSize)
			out.Linef("obs done")
			flights := map[int]*vE2EFlight{}
			var open []int
			nextF := 0
			sent := map[int]vE2EItem{}
			seen := map[int]int{}
			report := func() {
				synctest.Wait()
				rec.mu.Lock()
				st := rec.started
				rec.started = nil
				fired := rec.fired
				rec.fired = nil
				rec.mu.Unlock()
				sort.Slice(st, func(i, j int) bool { return st[i].parts < st[j].parts })
				for _, f := range st {
					flights[nextF] = f
					open = append(open, nextF)
					out.Linef("%s flush f=%d parts=%s", obs, nextF, f.parts)
					if len(f.items) == 0 {
						out.Linef("tr itemless f=%d size=%d shells=%d", nextF, f.size, f.nres)
						out.Linef("stat itemless_batch_exported 1")
						if f.nres == 0 {
							// nothing at all in the exported request: no incoming request has any part in it, yet its outcome is
							// reported to one (the Done oracle shows which)
							out.Linef("viol sig=C04/e2e/empty-batch-exported f=%d", nextF)
						}
					}
					nextF++
					// direct oracles on the exported batch: every item exactly once with the context it was sent with; size bound
					for _, it := range f.items {
						seen[it.uid]++
						if want, ok := sent[it.uid]; !ok || want != it {
							out.Linef("viol sig=C04/e2e/item-context-changed uid=%d got=%v want=%v", it.uid, it, want)
						}
					}
					if maxSize > 0 && f.size > maxSize && len(f.items) > 1 && !(metrics && bytesSizer) {
						out.Linef("viol sig=C04/e2e/batch-exceeds-max size=%d max=%d items=%d", f.size, maxSize, len(f.items))
					}
				}
				sort.Strings(fired)
				for _, l := range fired {
					out.Linef("%s %s", obs, l)
				}
			}
			finish := func(k int) {
				f := open[k]
				open = append(open[:k], open[k+1:]...)
				kind := []int{0, 0, 0, 1, 1, 2}[rnd.IntN(6)]
				out.Linef("op finish f=%d kind=%d", f, kind)
				flights[f].release <- vE2EOutcome(kind)
				report()
			}
			uid := 0
			var wg sync.WaitGroup
			consume := func(id int) {
				nItems := 1 + rnd.IntN(2*int(max(maxItems, 3))+2)
				var req request.Request
				var us []string
				nRes := 1 + rnd.IntN(2)
				mkCtx := func(ri, si int) (string, string, string, string) {
					return fmt.Sprintf("r%d-%d", id, ri), fmt.Sprintf("https://res/%d", rnd.IntN(3)), fmt.Sprintf("s%d-%d-%d", id, ri, si), fmt.Sprintf("https://scope/%d", rnd.IntN(3))
				}
				if metrics {
					md := pmetric.NewMetrics()
					for ri := 0; ri < nRes; ri++ {
						rm := md.ResourceMetrics().AppendEmpty()
						rk, ru, _, _ := mkCtx(ri, 0)
						rm.Resource().Attributes().PutStr("rk", rk)
						rm.SetSchemaUrl(ru)
						for si := 0; si < 1+rnd.IntN(2); si++ {
							_, _, sn, su := mkCtx(ri, si)
							sm := rm.ScopeMetrics().AppendEmpty()
							sm.Scope().SetName(sn)
							sm.SetSchemaUrl(su)
							for mi := 0; mi < 1+rnd.IntN(2); mi++ {
								mt := sm.Metrics().AppendEmpty()
								mt.SetName(fmt.Sprintf("m%d", mi))
								var dps pmetric.NumberDataPointSlice
								if rnd.IntN(2) == 0 {
									dps = mt.SetEmptyGauge().DataPoints()
								} else {
									dps = mt.SetEmptySum().DataPoints()
								}
								for k := 0; k < 1+nItems/(nRes*2); k++ {
									uid++
									dp := dps.AppendEmpty()
									dp.Attributes().PutInt("req", int64(id))
									dp.Attributes().PutInt("uid", int64(uid))
									sent[uid] = vE2EItem{id, uid, rk + "|" + ru, sn + "||" + su}
									us = append(us, "1")
								}
							}
						}
					}
					req = newMetricsRequest(md)
				} else if traces {
					td := ptrace.NewTraces()
					for ri := 0; ri < nRes; ri++ {
						rs := td.ResourceSpans().AppendEmpty()
						rk, ru, _, _ := mkCtx(ri, 0)
						rs.Resource().Attributes().PutStr("rk", rk)
						rs.SetSchemaUrl(ru)
						for si := 0; si < 1+rnd.IntN(2); si++ {
							_, _, sn, su := mkCtx(ri, si)
							ss := rs.ScopeSpans().AppendEmpty()
							ss.Scope().SetName(sn)
							ss.SetSchemaUrl(su)
							for k := 0; k < 1+nItems/(nRes*2); k++ {
								uid++
								sp := ss.Spans().AppendEmpty()
								sp.Attributes().PutInt("req", int64(id))
								sp.Attributes().PutInt("uid", int64(uid))
								if rnd.IntN(4) == 0 {
									sp.SetName(strings.Repeat("x", rnd.IntN(120)))
								}
								sent[uid] = vE2EItem{id, uid, rk + "|" + ru, sn + "||" + su}
								us = append(us, "1")
							}
						}
					}
					req = newTracesRequest(td)
				} else {
					ld := plog.NewLogs()
					for ri := 0; ri < nRes; ri++ {
						rl := ld.ResourceLogs().AppendEmpty()
						rk, ru, _, _ := mkCtx(ri, 0)
						rl.Resource().Attributes().PutStr("rk", rk)
						rl.SetSchemaUrl(ru)
						for si := 0; si < 1+rnd.IntN(2); si++ {
							_, _, sn, su := mkCtx(ri, si)
							sl := rl.ScopeLogs().AppendEmpty()
							sl.Scope().SetName(sn)
							sl.SetSchemaUrl(su)
							for k := 0; k < 1+nItems/(nRes*2); k++ {
								uid++
								lr := sl.LogRecords().AppendEmpty()
								lr.Attributes().PutInt("req", int64(id))
								lr.Attributes().PutInt("uid", int64(uid))
								if rnd.IntN(4) == 0 {
									lr.Body().SetStr(strings.Repeat("x", rnd.IntN(120)))
								}
								sent[uid] = vE2EItem{id, uid, rk + "|" + ru, sn + "||" + su}
								us = append(us, "1")
							}
						}
					}
					req = newLogsRequest(ld)
				}
				out.Linef("op consume id=%d units=%s", id, strings.Join(us, ","))
				wg.Add(1)
				go func() {
					defer wg.Done()
					err := qb.Send(context.Background(), req)
					rec.mu.Lock()
					rec.fired = append(rec.fired, fmt.Sprintf("fired id=%d err=%d plain=%d shut=%d", id, vB(err != nil),
						vB(errors.Is(err, vE2EErrPlain)), vB(experr.IsShutdownErr(err))))
					rec.mu.Unlock()
				}()
				report()
			}
			steps := 1 + rnd.IntN(8)
			id := 0
			for s := 0; s < steps; s++ {
				switch k := rnd.IntN(10); {
				case k < 6:
					id++
					consume(id)
				case k < 8 && len(open) > 0:
					finish(rnd.IntN(len(open)))
				default:
					out.Linef("op tick")
					time.Sleep(cfg.Batch.FlushTimeout + time.Millisecond)
					report()
				}
			}
			out.Linef("op shutdown")
			go func() { _ = qb.Shutdown(context.Background()) }()
			report()
			for len(open) > 0 {
				finish(rnd.IntN(len(open)))
			}
			wg.Wait()
			for u := range sent {
				if seen[u] != 1 {
					out.Linef("viol sig=C04/e2e/items-lost-or-duplicated uid=%d exported=%d", u, seen[u])
					break
				}
			}
			if id > 1 {
				out.Linef("nt")
			}
			if metrics {
				out.Linef("stat e2e_metrics 1")
			} else if traces {
				out.Linef("stat e2e_traces 1")
			} else {
				out.Linef("stat e2e_logs 1")
			}
			if monitor {
				out.Linef("stat e2e_monitored 1")
			} else {
				out.Linef("stat e2e_exact 1")
			}
			out.Linef("end")
			out.Flush()
		}
	})
}
