//go:build verif

package internal

import (
	"fmt"
	"math"
	"runtime"
	"testing"
	"time"

	"go.opentelemetry.io/collector/component"
	"go.opentelemetry.io/collector/exporter/exporterhelper/internal/queuebatch"
	"go.opentelemetry.io/collector/exporter/exporterhelper/internal/request"
)

func vSizerCode(s request.SizerType) int {
	switch s {
	case request.SizerTypeRequests:
		return 0
	case request.SizerTypeItems:
		return 1
	case request.SizerTypeBytes:
		return 2
	}
	return 3
}

func vSizerOf(code int) request.SizerType {
	switch code {
	case 0:
		return request.SizerTypeRequests
	case 1:
		return request.SizerTypeItems
	case 2:
		return request.SizerTypeBytes
	}
	return request.SizerType{}
}

func vQFields(cfg queuebatch.Config) string {
	b := queuebatch.BatchConfig{}
	if cfg.Batch != nil {
		b = *cfg.Batch
	}
	return fmt.Sprintf("en=%d wfr=%d sizer=%d qsize=%d boo=%d storage=%d ncons=%d batch=%d ft=%d min=%d max=%d",
		vB(cfg.Enabled), vB(cfg.WaitForResult), vSizerCode(cfg.Sizer), cfg.QueueSize, vB(cfg.BlockOnOverflow), vB(cfg.StorageID != nil),
		cfg.NumConsumers, vB(cfg.Batch != nil), int64(b.FlushTimeout), b.MinSize, b.MaxSize)
}

// TestVerifC04Legacy: the deprecated WithBatcher configuration: RAW BatcherConfig through the real Validate, the real
// newQueueBatchConfig(qCfg, bCfg) merge, and the real default configurations against the regenerated struct literals.
func TestVerifC04Legacy(t *testing.T) {
	out := vOpen(t)
	defer out.Close()
	out.Linef("model c04-config 1")
	n := vN(300)
	sid := component.MustNewID("storage")
	for _, c := range vCases(n) {
		rnd := vRand(c)
		out.Linef("case %d", c)
		if c == 0 {
			dq, dl := NewDefaultQueueConfig(), NewDefaultBatcherConfig()
			out.Linef("op defaults")
			out.Linef("obs defq Enabled=%d WaitForResult=%d Sizer=%d QueueSize=%d BlockOnOverflow=%d Blocking=%d StorageID=%d NumConsumers=%d Batch=%d hasBlocking=0",
				vB(dq.Enabled), vB(dq.WaitForResult), vSizerCode(dq.Sizer), dq.QueueSize, vB(dq.BlockOnOverflow), vB(dq.Blocking),
				vB(dq.StorageID != nil), dq.NumConsumers, vB(dq.Batch != nil))
			out.Linef("obs defl Enabled=%d FlushTimeout=%d Sizer=%d MinSize=%d MaxSize=%d", vB(dl.Enabled), int64(dl.FlushTimeout),
				vSizerCode(dl.Sizer), dl.MinSize, dl.MaxSize)
			out.Linef("nt")
			out.Linef("end")
			out.Flush()
			continue
		}
		small := func() int64 { return int64([]int{-3, -1, 0, 0, 1, 2, 5, 10, 1000}[rnd.IntN(9)]) }
		q := queuebatch.Config{
			Enabled:         rnd.IntN(2) == 0,
			WaitForResult:   rnd.IntN(3) == 0,
			Sizer:           vSizerOf(rnd.IntN(4)),
			QueueSize:       int64(1 + rnd.IntN(100)),
			BlockOnOverflow: rnd.IntN(2) == 0,
			NumConsumers:    1 + rnd.IntN(10),
		}
		if rnd.IntN(5) == 0 {
			q.StorageID = &sid
		}
		if rnd.IntN(3) == 0 {
			q.Batch = &queuebatch.BatchConfig{FlushTimeout: time.Duration(1+rnd.IntN(50)) * time.Millisecond, MinSize: small(), MaxSize: small()}
		}
		l := BatcherConfig{Enabled: rnd.IntN(4) != 0, FlushTimeout: time.Duration(small()) * time.Millisecond}
		l.Sizer = vSizerOf([]int{1, 1, 1, 0, 2, 3}[rnd.IntN(6)])
		l.MinSize, l.MaxSize = small(), small()
		if rnd.IntN(2) == 0 {
			l.FlushTimeout = time.Duration(1+rnd.IntN(500)) * time.Millisecond
		}
		if rnd.IntN(3) == 0 {
			l.MinSize = int64(rnd.IntN(12))
			l.MaxSize = l.MinSize + int64(rnd.IntN(5)) - 2
		}
		out.Linef("op merge %s len=%d lft=%d lsizer=%d lmin=%d lmax=%d maxint=%d numcpu=%d", vQFields(q), vB(l.Enabled), int64(l.FlushTimeout),
			vSizerCode(l.Sizer), l.MinSize, l.MaxSize, math.MaxInt, runtime.NumCPU())
		out.Linef("obs lvalid=%d", vB(l.Validate() == nil))
		out.Linef("obs merged %s", vQFields(newQueueBatchConfig(q, l)))
		if l.Enabled {
			out.Linef("nt")
		}
		out.Linef("end")
		out.Flush()
	}
}
