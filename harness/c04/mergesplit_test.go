//go:build verif

package exporterhelper

import (
	"context"
	"fmt"
	"os"
	"strings"
	"testing"
	"time"

	"go.opentelemetry.io/collector/exporter/exporterhelper/internal/sizer"
	"go.opentelemetry.io/collector/pdata/pcommon"
	"go.opentelemetry.io/collector/pdata/plog"
	"go.opentelemetry.io/collector/pdata/pmetric"
)

// one request of any of the three signals of this package, with what the harness needs from it
type vReq struct {
	req    Request
	dump   func() string
	size   func(bytes bool) int
	cached func() int
	warm   func(bytes bool) // call req.size(sz) so that cachedSize is memoised before MergeSplit
}

func vWrap(r Request) vReq {
	switch x := r.(type) {
	case *logsRequest:
		sz := func(b bool) sizer.LogsSizer {
			if b {
				return &sizer.LogsBytesSizer{}
			}
			return &sizer.LogsCountSizer{}
		}
		return vReq{req: r, dump: func() string { return vDumpLogs(x.ld) }, size: func(b bool) int { return sz(b).LogsSize(x.ld) },
			cached: func() int { return x.cachedSize }, warm: func(b bool) { x.size(sz(b)) }}
	case *tracesRequest:
		sz := func(b bool) sizer.TracesSizer {
			if b {
				return &sizer.TracesBytesSizer{}
			}
			return &sizer.TracesCountSizer{}
		}
		return vReq{req: r, dump: func() string { return vDumpTraces(x.td) }, size: func(b bool) int { return sz(b).TracesSize(x.td) },
			cached: func() int { return x.cachedSize }, warm: func(b bool) { x.size(sz(b)) }}
	case *metricsRequest:
		sz := func(b bool) sizer.MetricsSizer {
			if b {
				return &sizer.MetricsBytesSizer{}
			}
			return &sizer.MetricsCountSizer{}
		}
		return vReq{req: r, dump: func() string { return vDumpMetrics(x.md) }, size: func(b bool) int { return sz(b).MetricsSize(x.md) },
			cached: func() int { return x.cachedSize }, warm: func(b bool) { x.size(sz(b)) }}
	}
	panic(fmt.Sprintf("unexpected request type %T", r))
}

// corpus: the witnesses of DESIGN §C04 (reproduced on the pinned tree during design)
func vCorpusMS(c int) (sig string, bytes bool, max int, r1 Request, ok bool) {
	switch c {
	case 0: // one 4-point sum, max 3 items: the fragment must keep the metric identity
		md := pmetric.NewMetrics()
		rm := md.ResourceMetrics().AppendEmpty()
		rm.Resource().Attributes().PutInt("k", 1)
		rm.SetSchemaUrl("u2")
		sm := rm.ScopeMetrics().AppendEmpty()
		sm.Scope().SetName("n3")
		sm.SetSchemaUrl("u4")
		mt := sm.Metrics().AppendEmpty()
		mt.SetName("m5")
		mt.SetUnit("u6")
		mt.SetDescription("d7")
		mt.Metadata().PutInt("k", 8)
		s := mt.SetEmptySum()
		s.SetAggregationTemporality(pmetric.AggregationTemporalityDelta)
		s.SetIsMonotonic(true)
		for i := 0; i < 4; i++ {
			s.DataPoints().AppendEmpty().SetTimestamp(pcommon.Timestamp(10 + i))
		}
		return "metrics", false, 3, newMetricsRequest(md), true
	case 1: // one 500-byte record, max 100 bytes: split must terminate and send the record alone
		ld := plog.NewLogs()
		rl := ld.ResourceLogs().AppendEmpty()
		rl.Resource().Attributes().PutInt("k", 1)
		sl := rl.ScopeLogs().AppendEmpty()
		sl.Scope().SetName("n2")
		lr := sl.LogRecords().AppendEmpty()
		lr.SetTimestamp(10)
		lr.Body().SetStr(strings.Repeat("x", 500))
		sl.LogRecords().AppendEmpty().SetTimestamp(11)
		return "logs", true, 100, newLogsRequest(ld), true
	}
	return "", false, 0, nil, false
}

// vDeltaWire ties DeltaSize to the REAL proto encoding: for log records whose own encoding has length n (0, 2.., 127, 128,
// 16383, 16384, ... - both sides of every varint boundary), the ScopeLogs message with that record is exactly DeltaSize(n)
// bytes longer than without it (tag + varint(n) + n). Sizes are those of the generated proto Size() the marshaler allocates.
func vDeltaWire(out *vOut, big bool) {
	m := plog.ProtoMarshaler{}
	targets := []int{4, 5, 11, 126, 127, 128, 129, 16382, 16383, 16384, 16385}
	if big {
		targets = append(targets, 2097151, 2097152, 2097153)
	}
	empty := m.ScopeLogsSize(plog.NewScopeLogs())
	// n = 0: a log record is never empty in this encoding (trace_id / span_id are always written: 4 bytes); a metric
	// without name and type, and a number data point without timestamp / value / attributes, do encode to nothing
	{
		mm := pmetric.ProtoMarshaler{}
		sm := pmetric.NewScopeMetrics()
		before := mm.ScopeMetricsSize(sm)
		mt := sm.Metrics().AppendEmpty()
		if mm.MetricSize(mt) == 0 {
			want := mm.ScopeMetricsSize(sm) - before
			if got := (&sizer.MetricsBytesSizer{}).DeltaSize(0); got != want {
				out.Linef("viol sig=C04/sizer/delta-size-differs-from-encoded-size n=0 delta_size=%d encoded=%d", got, want)
			}
			out.Linef("stat delta_wire_checked_zero 1")
		}
		g := pmetric.NewMetric()
		g.SetEmptyGauge()
		before = mm.MetricSize(g)
		dp := g.Gauge().DataPoints().AppendEmpty()
		if mm.NumberDataPointSize(dp) == 0 {
			want := mm.MetricSize(g) - before
			if got := (&sizer.MetricsBytesSizer{}).DeltaSize(0); got != want {
				out.Linef("viol sig=C04/sizer/delta-size-differs-from-encoded-size n=0 delta_size=%d encoded=%d", got, want)
			}
			out.Linef("stat delta_wire_checked_zero 1")
		}
	}
	for _, n := range targets {
		for pad := max(0, n-16); pad <= n; pad++ {
			sl := plog.NewScopeLogs()
			lr := sl.LogRecords().AppendEmpty()
			if n > 0 {
				lr.Body().SetStr(strings.Repeat("x", pad))
			}
			if m.LogRecordSize(lr) != n {
				continue
			}
			want := m.ScopeLogsSize(sl) - empty
			if got := (&sizer.LogsBytesSizer{}).DeltaSize(n); got != want {
				out.Linef("viol sig=C04/sizer/delta-size-differs-from-encoded-size n=%d delta_size=%d encoded=%d", n, got, want)
			}
			out.Linef("stat delta_wire_checked 1")
			break
		}
	}
}

// TestVerifC04MergeSplit drives the real MergeSplit of logs, traces and metrics requests.
func TestVerifC04MergeSplit(t *testing.T) {
	out := vOpen(t)
	defer out.Close()
	out.Linef("model c04-ms 1")
	n := vN(1000)
	for _, c := range vCases(n) {
		rnd := vRand(c)
		g := vNewGen(rnd)
		sig := []string{"logs", "traces", "metrics", "metrics"}[c%4]
		bytes := rnd.IntN(2) == 0
		zeroLen := false
		if rnd.IntN(5) == 0 {
			// zero-length elements (every signal, mostly with the bytes sizer): many small elements per scope so that a
			// sizer that budgets them too cheaply fills a batch well beyond max_size
			zeroLen, bytes = true, bytes || rnd.IntN(3) != 0
			g.zeroPct = []int{30, 70, 100}[rnd.IntN(3)]
			g.maxIt = 14
		}
		csig, cbytes, cmax, cr1, isCorpus := vCorpusMS(c)
		mk := func() Request {
			switch sig {
			case "logs":
				return newLogsRequest(g.Logs())
			case "traces":
				return newTracesRequest(g.Traces())
			}
			return newMetricsRequest(g.Metrics())
		}
		var r1, r2 vReq
		hasR2 := false
		if isCorpus {
			sig, bytes = csig, cbytes
			r1 = vWrap(cr1)
		} else {
			r1 = vWrap(mk())
			if rnd.IntN(3) != 0 {
				r2 = vWrap(mk())
				hasR2 = true
			}
		}
		total := r1.size(bytes)
		if hasR2 {
			total += r2.size(bytes)
		}
		var max int
		switch {
		case isCorpus:
			max = cmax
		case rnd.IntN(10) == 0:
			max = 0
		case bytes && rnd.IntN(3) == 0:
			max = 1 + rnd.IntN(60) // small byte limits: oversized items and containers
		default:
			max = 1 + rnd.IntN(total+2)
		}
		if !isCorpus && rnd.IntN(3) == 0 {
			r1.warm(bytes)
		}
		if hasR2 && rnd.IntN(3) == 0 {
			r2.warm(bytes)
		}
		szName := map[bool]string{false: "items", true: "bytes"}[bytes]
		szt := map[bool]RequestSizerType{false: RequestSizerTypeItems, true: RequestSizerTypeBytes}[bytes]
		c2, d2 := "none", ""
		var arg2 Request
		if hasR2 {
			c2, d2, arg2 = fmt.Sprint(r2.cached()), r2.dump(), r2.req
		}
		out.Linef("case %d sig=%s", c, sig)
		if zeroLen && !isCorpus {
			out.Linef("stat zero_length_elements 1")
		}
		if c%97 == 5 {
			vDeltaWire(out, c == 5)
		}
		if c%97 == 5 { // DeltaSize boundary values (also negative: capacityLeft does go negative)
			for _, v := range []int{-5, -1, 0, 1, 126, 127, 128, 129, 16383, 16384, 16385, 2097151, 2097152, 1 << 40} {
				out.Linef("op delta %d", v)
				out.Linef("obs delta %d", (&sizer.LogsBytesSizer{}).DeltaSize(v))
			}
		}
		out.Linef("op ms sig=%s sizer=%s max=%d c1=%d c2=%s | %s | %s", sig, szName, max, r1.cached(), c2, r1.dump(), d2)
		out.Flush()
		type result struct {
			res   []Request
			err   error
			panic any
		}
		ch := make(chan result, 1)
		go func() {
			var r result
			defer func() {
				if p := recover(); p != nil {
					r.panic = p
				}
				ch <- r
			}()
			r.res, r.err = r1.req.MergeSplit(context.Background(), max, szt, arg2)
		}()
		var r result
		select {
		case r = <-ch:
		case <-time.After(3 * time.Second):
			// split() never returns and allocates without bound: record it and stop the process
			out.Linef("obs diverge")
			out.Linef("viol sig=C04/mergesplit/does-not-terminate/%s-%s max=%d", sig, szName, max)
			out.Linef("end")
			out.Close()
			os.Exit(0)
		}
		switch {
		case r.panic != nil:
			out.Linef("obs panic")
			out.Linef("viol sig=C04/mergesplit/panic %v", strings.ReplaceAll(fmt.Sprint(r.panic), " ", "_"))
		case r.err != nil:
			out.Linef("obs error")
		default:
			out.Linef("obs n %d", len(r.res))
			seen := map[string]int{}
			cut := false
			for i, q := range r.res {
				w := vWrap(q)
				d := w.dump()
				out.Linef("obs req %d cs=%d sz=%d | %s", i, w.cached(), w.size(bytes), d)
				f := strings.Fields(d)
				for k := 0; k+1 < len(f); k++ {
					if f[k] == "R" {
						if j, ok := seen[f[k+1]]; ok && j != i {
							cut = true
						}
						seen[f[k+1]] = i
					}
				}
			}
			out.Linef("obs last_is_receiver %d", vB(len(r.res) > 0 && r.res[len(r.res)-1] == r1.req))
			if cut {
				out.Linef("nt")
				out.Linef("stat cut_inside_resource 1")
			}
			out.Linef("stat outputs_%d 1", min(len(r.res), 5))
		}
		out.Linef("stat sig_%s_%s 1", sig, szName)
		if hasR2 {
			out.Linef("stat merge 1")
		}
		out.Linef("end")
		out.Flush()
	}
}
