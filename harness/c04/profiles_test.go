//go:build verif

package xexporterhelper

import (
	"context"
	"fmt"
	"os"
	"strconv"
	"strings"
	"testing"
	"time"

	"go.opentelemetry.io/collector/exporter/exporterhelper"
	"go.opentelemetry.io/collector/exporter/exporterhelper/internal/sizer"
	"go.opentelemetry.io/collector/pdata/pcommon"
	"go.opentelemetry.io/collector/pdata/pprofile"
)

func vpStr(prefix string, k int) string {
	if k == 0 {
		return ""
	}
	return prefix + strconv.Itoa(k)
}

func vpStrID(s string) int {
	if s == "" {
		return 0
	}
	k, err := strconv.Atoi(s[1:])
	if err != nil {
		return 999999
	}
	return k
}

func vpAttrID(m pcommon.Map) int {
	v, ok := m.Get("k")
	if !ok {
		return 0
	}
	return int(v.Int())
}

func vDumpProfiles(pd pprofile.Profiles) string {
	var sb strings.Builder
	m := pprofile.ProtoMarshaler{}
	for i := 0; i < pd.ResourceProfiles().Len(); i++ {
		rp := pd.ResourceProfiles().At(i)
		tr := pprofile.NewResourceProfiles()
		rp.Resource().CopyTo(tr.Resource())
		tr.SetSchemaUrl(rp.SchemaUrl())
		fmt.Fprintf(&sb, "R %d %d %d ", vpAttrID(rp.Resource().Attributes()), vpStrID(rp.SchemaUrl()), m.ResourceProfilesSize(tr))
		for j := 0; j < rp.ScopeProfiles().Len(); j++ {
			sp := rp.ScopeProfiles().At(j)
			ts := pprofile.NewScopeProfiles()
			sp.Scope().CopyTo(ts.Scope())
			ts.SetSchemaUrl(sp.SchemaUrl())
			fmt.Fprintf(&sb, "S %d %d %d %d %d ", vpStrID(sp.Scope().Name()), vpStrID(sp.Scope().Version()), vpAttrID(sp.Scope().Attributes()), vpStrID(sp.SchemaUrl()), m.ScopeProfilesSize(ts))
			for k := 0; k < sp.Profiles().Len(); k++ {
				p := sp.Profiles().At(k)
				fmt.Fprintf(&sb, "I %d %d %d ", int(p.Time()), m.ProfileSize(p), p.Sample().Len())
			}
		}
	}
	return strings.TrimSpace(sb.String())
}

// TestVerifC04Profiles drives the real MergeSplit of profiles requests; an item is a profile whose size under the
// items sizer is its number of samples (0-5), so a single profile can exceed max_size also with the items sizer.
func TestVerifC04Profiles(t *testing.T) {
	out := vOpen(t)
	defer out.Close()
	out.Linef("model c04-ms 1")
	n := vN(500)
	for _, c := range vCases(n) {
		rnd := vRand(c)
		next := 1
		id := func() int { next++; return next - 1 }
		maybe := func(k int) int {
			if rnd.IntN(4) == 0 {
				return 0
			}
			return k
		}
		cnt := func(max int) int {
			switch rnd.IntN(5) {
			case 0:
				return 0
			case 1:
				return 1
			}
			return rnd.IntN(max + 1)
		}
		mk := func() pprofile.Profiles {
			pd := pprofile.NewProfiles()
			if c == 0 { // corpus: one profile with 5 samples, max 3 (items): the pinned split() never returns
				sp := pd.ResourceProfiles().AppendEmpty().ScopeProfiles().AppendEmpty()
				p := sp.Profiles().AppendEmpty()
				p.SetTime(10)
				for s := 0; s < 5; s++ {
					p.Sample().AppendEmpty()
				}
				return pd
			}
			for i, nr := 0, cnt(3); i < nr; i++ {
				rp := pd.ResourceProfiles().AppendEmpty()
				rp.Resource().Attributes().PutInt("k", int64(id()))
				rp.SetSchemaUrl(vpStr("u", maybe(id())))
				for j, ns := 0, cnt(3); j < ns; j++ {
					sp := rp.ScopeProfiles().AppendEmpty()
					sp.Scope().SetName(vpStr("n", maybe(id())))
					sp.Scope().SetVersion(vpStr("v", maybe(id())))
					sp.SetSchemaUrl(vpStr("u", maybe(id())))
					for k, np := 0, cnt(5); k < np; k++ {
						p := sp.Profiles().AppendEmpty()
						p.SetTime(pcommon.Timestamp(id()))
						for s, nsmp := 0, rnd.IntN(6); s < nsmp; s++ {
							p.Sample().AppendEmpty().SetLocationsLength(int32(rnd.IntN(200)))
						}
					}
				}
			}
			return pd
		}
		bytes := c != 0 && rnd.IntN(2) == 0
		sizeOf := func(pd pprofile.Profiles) int {
			if bytes {
				return (&sizer.ProfilesBytesSizer{}).ProfilesSize(pd)
			}
			return (&sizer.ProfilesCountSizer{}).ProfilesSize(pd)
		}
		r1 := newProfilesRequest(mk()).(*profilesRequest)
		var r2 *profilesRequest
		if c != 0 && rnd.IntN(3) != 0 {
			r2 = newProfilesRequest(mk()).(*profilesRequest)
		}
		total := sizeOf(r1.pd)
		if r2 != nil {
			total += sizeOf(r2.pd)
		}
		max := 1 + rnd.IntN(total+2)
		if c == 0 {
			max = 3
		} else if rnd.IntN(10) == 0 {
			max = 0
		} else if rnd.IntN(3) == 0 {
			max = 1 + rnd.IntN(4)
		}
		szName := map[bool]string{false: "items", true: "bytes"}[bytes]
		szt := map[bool]exporterhelper.RequestSizerType{false: exporterhelper.RequestSizerTypeItems, true: exporterhelper.RequestSizerTypeBytes}[bytes]
		c2, d2 := "none", ""
		var arg2 exporterhelper.Request
		if r2 != nil {
			c2, d2, arg2 = "-1", vDumpProfiles(r2.pd), r2
		}
		out.Linef("case %d sig=profiles", c)
		out.Linef("op ms sig=profiles sizer=%s max=%d c1=-1 c2=%s | %s | %s", szName, max, c2, vDumpProfiles(r1.pd), d2)
		out.Flush()
		type result struct {
			res []exporterhelper.Request
			err error
		}
		ch := make(chan result, 1)
		go func() {
			res, err := r1.MergeSplit(context.Background(), max, szt, arg2)
			ch <- result{res, err}
		}()
		var r result
		select {
		case r = <-ch:
		case <-time.After(3 * time.Second):
			out.Linef("obs diverge")
			out.Linef("viol sig=C04/mergesplit/does-not-terminate/profiles-%s max=%d", szName, max)
			out.Linef("end")
			out.Close()
			os.Exit(0)
		}
		if r.err != nil {
			out.Linef("obs error")
		} else {
			out.Linef("obs n %d", len(r.res))
			for i, q := range r.res {
				w := q.(*profilesRequest)
				out.Linef("obs req %d cs=%d sz=%d | %s", i, w.cachedSize, sizeOf(w.pd), vDumpProfiles(w.pd))
			}
			out.Linef("obs last_is_receiver %d", vB(len(r.res) > 0 && r.res[len(r.res)-1] == exporterhelper.Request(r1)))
			if len(r.res) > 1 {
				out.Linef("nt")
			}
		}
		out.Linef("stat sig_profiles_%s 1", szName)
		out.Linef("end")
		out.Flush()
	}
}
