#!/bin/sh
# regenerate the per-package copies of the payload generator from the master (package exporterhelper)
cd "$(dirname "$0")"
sed 's/^package exporterhelper$/package batchprocessor/' payload_gen.go > ../c17/payload_gen.go
