//go:build verif

package internal

import (
	"errors"
	"fmt"
	"math/big"
	"math/rand/v2"
	"strconv"
	"strings"
	"testing"
	"time"

	"go.uber.org/multierr"

	"go.opentelemetry.io/collector/config/configretry"
	"go.opentelemetry.io/collector/consumer/consumererror"
	"go.opentelemetry.io/collector/exporter/exporterhelper/internal/experr"
	"go.opentelemetry.io/collector/pdata/plog"
	"go.opentelemetry.io/collector/pdata/pmetric"
	"go.opentelemetry.io/collector/pdata/ptrace"
)

// the signal whose request is being retried in this case (0 logs, 1 traces, 2 metrics): `D` nodes are partial errors of
// THAT signal, `O` nodes of another one; the remainder is read with errors.As on that signal's error type
var c05eSig int

func c05eStr(ids []int) string {
	if len(ids) == 0 {
		return "e"
	}
	out := make([]string, len(ids))
	for i, v := range ids {
		out[i] = strconv.Itoa(v)
	}
	return strings.Join(out, ",")
}

func c05eTraces(ids []int) ptrace.Traces {
	td := ptrace.NewTraces()
	ss := td.ResourceSpans().AppendEmpty().ScopeSpans().AppendEmpty().Spans()
	for _, id := range ids {
		ss.AppendEmpty().SetName(strconv.Itoa(id))
	}
	return td
}

func c05eMetrics(ids []int) pmetric.Metrics {
	md := pmetric.NewMetrics()
	ms := md.ResourceMetrics().AppendEmpty().ScopeMetrics().AppendEmpty().Metrics()
	for _, id := range ids {
		ms.AppendEmpty().SetName(strconv.Itoa(id))
	}
	return md
}

func c05ePartial(sig int, base error, ids []int) error {
	switch sig % 3 {
	case 0:
		return consumererror.NewLogs(base, c05eLogs(ids))
	case 1:
		return consumererror.NewTraces(base, c05eTraces(ids))
	default:
		return consumererror.NewMetrics(base, c05eMetrics(ids))
	}
}

// c05eRemainder: what the signal's OnError reads off the chain ("-" = no partial error of this signal)
func c05eRemainder(err error) string {
	switch c05eSig {
	case 0:
		var le consumererror.Logs
		if errors.As(err, &le) {
			return c05eIDs(le.Data())
		}
	case 1:
		var te consumererror.Traces
		if errors.As(err, &te) {
			var ids []int
			ss := te.Data().ResourceSpans().At(0).ScopeSpans().At(0).Spans()
			for i := 0; i < ss.Len(); i++ {
				n, _ := strconv.Atoi(ss.At(i).Name())
				ids = append(ids, n)
			}
			return c05eStr(ids)
		}
	default:
		var me consumererror.Metrics
		if errors.As(err, &me) {
			var ids []int
			ms := me.Data().ResourceMetrics().At(0).ScopeMetrics().At(0).Metrics()
			for i := 0; i < ms.Len(); i++ {
				n, _ := strconv.Atoi(ms.At(i).Name())
				ids = append(ids, n)
			}
			return c05eStr(ids)
		}
	}
	return "-"
}

func c05eLogs(ids []int) plog.Logs {
	ld := plog.NewLogs()
	lrs := ld.ResourceLogs().AppendEmpty().ScopeLogs().AppendEmpty().LogRecords()
	for _, id := range ids {
		lrs.AppendEmpty().Body().SetInt(int64(id))
	}
	return ld
}

func c05eIDs(ld plog.Logs) string {
	var out []string
	for i := 0; i < ld.ResourceLogs().Len(); i++ {
		rl := ld.ResourceLogs().At(i)
		for j := 0; j < rl.ScopeLogs().Len(); j++ {
			sl := rl.ScopeLogs().At(j)
			for k := 0; k < sl.LogRecords().Len(); k++ {
				out = append(out, strconv.FormatInt(sl.LogRecords().At(k).Body().Int(), 10))
			}
		}
	}
	if len(out) == 0 {
		return "e"
	}
	return strings.Join(out, ",")
}

// c05eGen builds a random error tree and its prefix encoding (see Drivers/C05.lean parseErr)
func c05eGen(r *rand.Rand, depth int, enc *[]string) error {
	k := r.IntN(12)
	if depth <= 0 {
		k = 0
	}
	switch {
	case k < 2:
		*enc = append(*enc, "L")
		return errors.New("leaf")
	case k < 4:
		*enc = append(*enc, "W")
		return fmt.Errorf("ctx %d: %w", depth, c05eGen(r, depth-1, enc))
	case k < 5:
		*enc = append(*enc, "P")
		return consumererror.NewPermanent(c05eGen(r, depth-1, enc))
	case k < 6:
		d := r.IntN(5)
		*enc = append(*enc, "T"+strconv.Itoa(d))
		return NewThrottleRetry(c05eGen(r, depth-1, enc), time.Duration(d))
	case k < 7:
		n := r.IntN(3)
		ids := make([]int, n)
		s := make([]string, n)
		for i := range ids {
			ids[i] = r.IntN(9)
			s[i] = strconv.Itoa(ids[i])
		}
		tok := "De"
		if n > 0 {
			tok = "D" + strings.Join(s, ",")
		}
		*enc = append(*enc, tok)
		return c05ePartial(c05eSig, c05eGen(r, depth-1, enc), ids)
	case k < 8:
		*enc = append(*enc, "O")
		return c05ePartial(c05eSig+1+r.IntN(2), c05eGen(r, depth-1, enc), []int{4242})
	case k < 9:
		*enc = append(*enc, "S")
		return experr.NewShutdownErr(c05eGen(r, depth-1, enc))
	default:
		n := 2 + r.IntN(2)
		*enc = append(*enc, "J"+strconv.Itoa(n))
		errs := make([]error, n)
		for i := range errs {
			errs[i] = c05eGen(r, depth-1, enc)
		}
		if r.IntN(2) == 0 {
			return errors.Join(errs...)
		}
		return multierr.Combine(errs...) // flattens nested multierr lists: same pre-order
	}
}

// TestVerifC05Errs: the classification predicates the retry loop and the queue use, on random wrap/join trees.
func TestVerifC05Errs(t *testing.T) {
	out := vOpen(t)
	defer out.Close()
	out.Linef("model c05-err 1")
	for _, idx := range vCases(vN(3000)) {
		r := vRand(idx)
		var enc []string
		c05eSig = idx % 3
		err := c05eGen(r, 1+r.IntN(5), &enc)
		out.Linef("case %d sig=%d", idx, c05eSig)
		out.Linef("op err %s", strings.Join(enc, " "))
		th := "-"
		var tr throttleRetry
		if errors.As(err, &tr) {
			th = strconv.FormatInt(int64(tr.delay), 10)
		}
		rest := c05eRemainder(err)
		perm, sd := consumererror.IsPermanent(err), experr.IsShutdownErr(err)
		out.Linef("obs cls perm=%d sd=%d th=%s rest=%s", vB(perm), vB(sd), th, rest)
		// direct oracle: wrapping a classified error keeps the classification
		w := fmt.Errorf("outer: %w", errors.Join(errors.New("x"), err))
		if consumererror.IsPermanent(w) != perm || experr.IsShutdownErr(w) != sd {
			out.Linef("viol sig=C05/errors/classification-lost-by-wrapping tree=%s", strings.Join(enc, "_"))
		}
		if len(enc) > 3 {
			out.Linef("nt")
		}
		out.Linef("stat nodes %d", len(enc))
		out.Linef("stat signal_%d 1", c05eSig)
		out.Linef("end")
	}
}

func c05vCode(err error) int {
	if err == nil {
		return 0
	}
	for i, s := range []string{"'initial_interval' must be non-negative", "'randomization_factor' must be within [0, 1]",
		"'multiplier' must be non-negative", "'max_interval' must be non-negative", "'max_elapsed_time' must be non-negative",
		"'max_elapsed_time' must not be less than 'initial_interval'", "'max_elapsed_time' must not be less than 'max_interval'"} {
		if err.Error() == s {
			return i + 1
		}
	}
	return 99
}

// TestVerifC05Validate: BackOffConfig.Validate / TimeoutConfig.Validate against the model's validate (incl. rejected configs).
func TestVerifC05Validate(t *testing.T) {
	out := vOpen(t)
	defer out.Close()
	out.Linef("model c05-validate 1")
	vals := []int64{-5, -1, 0, 0, 1, 2, 1000, 5000, 30000, 300000}
	for _, idx := range vCases(vN(3000)) {
		r := vRand(idx)
		pick := func() int64 { return vals[r.IntN(len(vals))] }
		en := r.IntN(5) != 0
		ini, mi, me, to := pick(), pick(), pick(), pick()
		mn, md := int64(r.IntN(8)-2), int64(1+r.IntN(4))
		rn, rd := int64(r.IntN(8)-2), int64(1+r.IntN(4))
		cfg := configretry.BackOffConfig{Enabled: en, InitialInterval: time.Duration(ini), MaxInterval: time.Duration(mi), MaxElapsedTime: time.Duration(me),
			Multiplier: float64(mn) / float64(md), RandomizationFactor: float64(rn) / float64(rd)}
		tc := TimeoutConfig{Timeout: time.Duration(to)}
		out.Linef("case %d", idx)
		if idx == 0 {
			// corpus: the default configurations against the definitions REGENERATED from backoff.go / timeout_sender.go
			d, dt := configretry.NewDefaultBackOffConfig(), NewDefaultTimeoutConfig()
			m, rf := new(big.Rat).SetFloat64(d.Multiplier), new(big.Rat).SetFloat64(d.RandomizationFactor)
			out.Linef("op defaults")
			out.Linef("obs defaults en=%d init=%d maxint=%d maxel=%d mnum=%s mden=%s rfnum=%s rfden=%s timeout=%d valid=%d %d", vB(d.Enabled), int64(d.InitialInterval),
				int64(d.MaxInterval), int64(d.MaxElapsedTime), m.Num(), m.Denom(), rf.Num(), rf.Denom(), int64(dt.Timeout), c05vCode(d.Validate()), vB(dt.Validate() == nil))
			out.Linef("nt")
			out.Linef("end")
			continue
		}
		out.Linef("op validate en=%d init=%d maxint=%d maxel=%d mnum=%d mden=%d rfnum=%d rfden=%d timeout=%d", vB(en), ini, mi, me, mn, md, rn, rd, to)
		code := c05vCode(cfg.Validate())
		out.Linef("obs valid %d %d", code, vB(tc.Validate() == nil))
		if code != 0 {
			out.Linef("nt")
		}
		out.Linef("stat code_%d 1", code)
		out.Linef("end")
	}
}
