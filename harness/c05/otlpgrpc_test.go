//go:build verif

package otlpexporter

import (
	"errors"
	"reflect"
	"testing"
	"time"

	"google.golang.org/genproto/googleapis/rpc/errdetails"
	"google.golang.org/grpc/codes"
	"google.golang.org/grpc/status"
	"google.golang.org/protobuf/types/known/durationpb"

	"go.opentelemetry.io/collector/consumer/consumererror"
)

// c05gThrottle: the delay of the first throttleRetry in the chain (the type is internal to exporterhelper: found by
// name, its unexported `delay` read through reflection), -1 if none.
func c05gThrottle(err error) int64 {
	for e := err; e != nil; e = errors.Unwrap(e) {
		v := reflect.ValueOf(e)
		if v.Kind() == reflect.Struct && v.Type().Name() == "throttleRetry" {
			return v.FieldByName("delay").Int()
		}
	}
	return -1
}

// TestVerifC05OtlpGrpc: glue between the backend's answer and the retry loop's inputs: the OTLP/gRPC exporter's
// processError on every status code x {no RetryInfo, RetryInfo with delay d}: nil / permanent / plain / throttle(d).
func TestVerifC05OtlpGrpc(t *testing.T) {
	out := vOpen(t)
	defer out.Close()
	out.Linef("model c05-grpc 1")
	delays := []time.Duration{0, 1, time.Millisecond, 1500 * time.Millisecond, 7 * time.Second, time.Hour}
	idx := 0
	for code := 0; code <= 17; code++ {
		for ri := -1; ri < len(delays); ri++ {
			if len(vCases(1)) == 1 && vCases(1)[0] != 0 && vCases(1)[0] != idx { // replay of one case
				idx++
				continue
			}
			out.Linef("case %d", idx)
			idx++
			st := status.New(codes.Code(code), "backend says")
			riTok := "-"
			if ri >= 0 {
				var err error
				st, err = st.WithDetails(&errdetails.RetryInfo{RetryDelay: durationpb.New(delays[ri])})
				if err != nil {
					// codes.OK cannot carry details: keep the plain status
					st = status.New(codes.Code(code), "backend says")
				} else {
					riTok = itoa64(int64(delays[ri]))
				}
			}
			out.Linef("op grpc code=%d ri=%s", code, riTok)
			got := processError(st.Err())
			th := c05gThrottle(got)
			thTok := "-"
			if th >= 0 {
				thTok = itoa64(th)
			}
			out.Linef("obs out nil=%d perm=%d th=%s", vB(got == nil), vB(consumererror.IsPermanent(got)), thTok)
			// direct oracle: a delay the backend asked for on a retryable answer must reach the retry loop
			if ri >= 0 && riTok != "-" && delays[ri] > 0 && got != nil && !consumererror.IsPermanent(got) && th != int64(delays[ri]) {
				out.Linef("viol sig=C05/otlp-grpc/retry-delay-lost code=%d asked=%d got=%d", code, int64(delays[ri]), th)
			}
			if got != nil {
				out.Linef("nt")
			}
			out.Linef("end")
		}
	}
}

func itoa64(v int64) string {
	if v == 0 {
		return "0"
	}
	neg := v < 0
	if neg {
		v = -v
	}
	var b []byte
	for v > 0 {
		b = append([]byte{byte('0' + v%10)}, b...)
		v /= 10
	}
	if neg {
		b = append([]byte{'-'}, b...)
	}
	return string(b)
}
