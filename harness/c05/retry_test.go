//go:build verif

package exporterhelper

import (
	"context"
	"errors"
	"fmt"
	mrand "math/rand"
	"math/rand/v2"
	"os"
	"sort"
	"strconv"
	"strings"
	"testing"
	"testing/synctest"
	"time"

	"github.com/cenkalti/backoff/v5"
	"go.uber.org/multierr"

	"go.opentelemetry.io/collector/config/configretry"
	"go.opentelemetry.io/collector/consumer/consumererror"
	"go.opentelemetry.io/collector/exporter/exporterhelper/internal/experr"
	"go.opentelemetry.io/collector/exporter/exportertest"
	"go.opentelemetry.io/collector/pdata/plog"
	"go.opentelemetry.io/collector/pdata/pmetric"
	"go.opentelemetry.io/collector/pdata/ptrace"
)

// ---- payloads of the three signals, items identified by small integers ------------------------------

func c05Logs(ids []int) plog.Logs {
	ld := plog.NewLogs()
	if len(ids) == 0 {
		return ld
	}
	lrs := ld.ResourceLogs().AppendEmpty().ScopeLogs().AppendEmpty().LogRecords()
	for _, id := range ids {
		lrs.AppendEmpty().Body().SetInt(int64(id))
	}
	return ld
}

func c05LogIDs(ld plog.Logs) []int {
	var out []int
	for i := 0; i < ld.ResourceLogs().Len(); i++ {
		rl := ld.ResourceLogs().At(i)
		for j := 0; j < rl.ScopeLogs().Len(); j++ {
			sl := rl.ScopeLogs().At(j)
			for k := 0; k < sl.LogRecords().Len(); k++ {
				out = append(out, int(sl.LogRecords().At(k).Body().Int()))
			}
		}
	}
	return out
}

func c05Traces(ids []int) ptrace.Traces {
	td := ptrace.NewTraces()
	if len(ids) == 0 {
		return td
	}
	ss := td.ResourceSpans().AppendEmpty().ScopeSpans().AppendEmpty().Spans()
	for _, id := range ids {
		ss.AppendEmpty().SetName(strconv.Itoa(id))
	}
	return td
}

func c05TraceIDs(td ptrace.Traces) []int {
	var out []int
	for i := 0; i < td.ResourceSpans().Len(); i++ {
		rs := td.ResourceSpans().At(i)
		for j := 0; j < rs.ScopeSpans().Len(); j++ {
			ss := rs.ScopeSpans().At(j)
			for k := 0; k < ss.Spans().Len(); k++ {
				n, _ := strconv.Atoi(ss.Spans().At(k).Name())
				out = append(out, n)
			}
		}
	}
	return out
}

func c05Metrics(ids []int) pmetric.Metrics {
	md := pmetric.NewMetrics()
	if len(ids) == 0 {
		return md
	}
	ms := md.ResourceMetrics().AppendEmpty().ScopeMetrics().AppendEmpty().Metrics()
	for _, id := range ids {
		m := ms.AppendEmpty()
		m.SetName(strconv.Itoa(id))
		m.SetEmptyGauge().DataPoints().AppendEmpty().SetIntValue(int64(id))
	}
	return md
}

func c05MetricIDs(md pmetric.Metrics) []int {
	var out []int
	for i := 0; i < md.ResourceMetrics().Len(); i++ {
		rm := md.ResourceMetrics().At(i)
		for j := 0; j < rm.ScopeMetrics().Len(); j++ {
			sm := rm.ScopeMetrics().At(j)
			for k := 0; k < sm.Metrics().Len(); k++ {
				n, _ := strconv.Atoi(sm.Metrics().At(k).Name())
				out = append(out, n)
			}
		}
	}
	return out
}

const (
	c05SigLogs = iota
	c05SigTraces
	c05SigMetrics
)

// c05Partial: the error of signal `sig` naming `rest` as undelivered
func c05Partial(sig int, base error, rest []int) error {
	switch sig {
	case c05SigLogs:
		return consumererror.NewLogs(base, c05Logs(rest))
	case c05SigTraces:
		return consumererror.NewTraces(base, c05Traces(rest))
	default:
		return consumererror.NewMetrics(base, c05Metrics(rest))
	}
}

type c05Exp struct {
	consume  func(ctx context.Context, ids []int) error
	shutdown func()
}

// c05New builds the REAL exporter chain (obsReport -> retry -> timeout -> pusher), queue disabled.
func c05New(sig int, rcfg configretry.BackOffConfig, timeout time.Duration, push func(ctx context.Context, ids []int) error) (*c05Exp, error) {
	set := exportertest.NewNopSettings(exportertest.NopType)
	opts := []Option{WithRetry(rcfg), WithTimeout(TimeoutConfig{Timeout: timeout})}
	bg := context.Background()
	switch sig {
	case c05SigLogs:
		e, err := NewLogs(bg, set, &struct{}{}, func(ctx context.Context, ld plog.Logs) error { return push(ctx, c05LogIDs(ld)) }, opts...)
		if err != nil {
			return nil, err
		}
		return &c05Exp{func(ctx context.Context, ids []int) error { return e.ConsumeLogs(ctx, c05Logs(ids)) }, func() { _ = e.Shutdown(bg) }}, nil
	case c05SigTraces:
		e, err := NewTraces(bg, set, &struct{}{}, func(ctx context.Context, td ptrace.Traces) error { return push(ctx, c05TraceIDs(td)) }, opts...)
		if err != nil {
			return nil, err
		}
		return &c05Exp{func(ctx context.Context, ids []int) error { return e.ConsumeTraces(ctx, c05Traces(ids)) }, func() { _ = e.Shutdown(bg) }}, nil
	default:
		e, err := NewMetrics(bg, set, &struct{}{}, func(ctx context.Context, md pmetric.Metrics) error { return push(ctx, c05MetricIDs(md)) }, opts...)
		if err != nil {
			return nil, err
		}
		return &c05Exp{func(ctx context.Context, ids []int) error { return e.ConsumeMetrics(ctx, c05Metrics(ids)) }, func() { _ = e.Shutdown(bg) }}, nil
	}
}

// ---- a case ---------------------------------------------------------------------------------------

type c05Att struct {
	untilCtx bool
	dur      time.Duration
	ok, perm bool
	throttle time.Duration // <0 = none
	rest     []int
	hasRest  bool
	other    bool // also carries a partial error of a DIFFERENT signal (must be ignored by OnError)
	wrapSeed uint64
	drawn    time.Duration
}

type c05Cfg struct {
	enabled        bool
	initial        time.Duration
	maxInt         time.Duration
	maxElapsed     time.Duration
	mulNum, mulDen int64
	rfNum, rfDen   int64
	timeout        time.Duration
}

func (c c05Cfg) backoffCfg() configretry.BackOffConfig {
	return configretry.BackOffConfig{
		Enabled: c.enabled, InitialInterval: c.initial, MaxInterval: c.maxInt, MaxElapsedTime: c.maxElapsed,
		Multiplier: float64(c.mulNum) / float64(c.mulDen), RandomizationFactor: float64(c.rfNum) / float64(c.rfDen),
	}
}

type c05Case struct {
	sig        int
	cfg        c05Cfg
	dl, cn, sd time.Duration // <0 = none; instants relative to the entry of Consume*
	payload    []int
	script     []c05Att
	rngSeed    int64
}

type c05Call struct {
	t, fin time.Duration
	ids    []int
	sleep  bool
}

type c05Result struct {
	calls  []c05Call
	tEnd   time.Duration
	err    error
	panicv any
}

func c05IDs(ids []int) string {
	if len(ids) == 0 {
		return "e"
	}
	s := make([]string, len(ids))
	for i, v := range ids {
		s[i] = strconv.Itoa(v)
	}
	return strings.Join(s, ",")
}

func c05Opt(d time.Duration) string {
	if d < 0 {
		return "-"
	}
	return strconv.FormatInt(int64(d), 10)
}

// c05BuildErr: the error the backend returns for attempt a; classification-carrying layers in random order
// between random neutral wrappers (fmt %w, errors.Join, multierr.Append)
func c05BuildErr(sig int, a *c05Att, base error) error {
	r := rand.New(rand.NewPCG(a.wrapSeed, 77))
	neutral := func(e error) error {
		switch r.IntN(5) {
		case 0:
			return fmt.Errorf("wrapped: %w", e)
		case 1:
			return errors.Join(errors.New("sibling"), e)
		case 2:
			return multierr.Append(e, errors.New("sibling"))
		default:
			return e
		}
	}
	var layers []func(error) error
	if a.perm {
		layers = append(layers, consumererror.NewPermanent)
	}
	if a.throttle >= 0 {
		d := a.throttle
		layers = append(layers, func(e error) error { return NewThrottleRetry(e, d) })
	}
	if a.hasRest {
		rest := a.rest
		layers = append(layers, func(e error) error { return c05Partial(sig, e, rest) })
	}
	if a.other {
		layers = append(layers, func(e error) error { return c05Partial((sig+1)%3, e, []int{4242}) })
	}
	r.Shuffle(len(layers), func(i, j int) { layers[i], layers[j] = layers[j], layers[i] })
	e := neutral(base)
	for _, l := range layers {
		e = neutral(l(e))
	}
	return e
}

// c05Run executes one case on the real chain inside a synctest bubble (virtual time).
func c05Run(t *testing.T, c *c05Case) c05Result {
	var res c05Result
	synctest.Test(t, func(t *testing.T) {
		defer func() {
			if p := recover(); p != nil {
				res.panicv = p
			}
		}()
		mrand.Seed(c.rngSeed) //nolint // the back-off library draws from the global math/rand source
		start := time.Now()
		k := 0
		push := func(ctx context.Context, ids []int) error {
			call := c05Call{t: time.Since(start), ids: append([]int(nil), ids...)}
			if k >= len(c.script) {
				call.fin = call.t
				call.sleep = true
				res.calls = append(res.calls, call)
				k++
				return nil
			}
			a := &c.script[k]
			k++
			var base error
			if a.untilCtx {
				<-ctx.Done()
				base = ctx.Err()
			} else {
				call.sleep = true
				time.Sleep(a.dur)
				base = errors.New("backend says no")
			}
			call.fin = time.Since(start)
			res.calls = append(res.calls, call)
			if a.ok {
				return nil
			}
			return c05BuildErr(c.sig, a, base)
		}
		exp, err := c05New(c.sig, c.cfg.backoffCfg(), c.cfg.timeout, push)
		if err != nil {
			res.panicv = err
			return
		}
		done := make(chan struct{}) // the bubble's clock stops when this function returns: release the event goroutines
		defer close(done)
		after := func(d time.Duration, f func()) {
			go func() {
				select {
				case <-time.After(d):
					f()
				case <-done:
				}
			}()
		}
		ctx := context.Background()
		if c.dl >= 0 {
			var cf context.CancelFunc
			ctx, cf = context.WithDeadline(ctx, start.Add(c.dl))
			defer cf()
		}
		if c.cn >= 0 {
			var cf context.CancelFunc
			ctx, cf = context.WithCancel(ctx)
			defer cf()
			if c.cn == 0 {
				cf()
			} else {
				after(c.cn, cf)
			}
		}
		if c.sd >= 0 {
			if c.sd == 0 {
				exp.shutdown()
			} else {
				after(c.sd, exp.shutdown)
			}
		}
		res.err = exp.consume(ctx, c.payload)
		res.tEnd = time.Since(start)
	})
	return res
}

// c05Drawn: what NextBackOff will return, learnt from a mirror instance fed by the same seeded source
func c05Drawn(c *c05Case) {
	if c.cfg.rfNum == 0 {
		return
	}
	mrand.Seed(c.rngSeed) //nolint
	bc := c.cfg.backoffCfg()
	m := backoff.ExponentialBackOff{InitialInterval: bc.InitialInterval, RandomizationFactor: bc.RandomizationFactor, Multiplier: bc.Multiplier, MaxInterval: bc.MaxInterval}
	for i := range c.script {
		c.script[i].drawn = m.NextBackOff()
	}
}

func c05Reason(c *c05Case, err error) string {
	if err == nil {
		return "ok"
	}
	if !c.cfg.enabled {
		return "raw"
	}
	msg := err.Error()
	for _, p := range [][2]string{
		{"not retryable error: ", "perm"}, {"no more retries left: ", "exhausted"},
		{"request will be cancelled before next retry: ", "deadline"}, {"request is cancelled or timed out: ", "cancelled"},
		{"interrupted due to shutdown: ", "shutdown"},
	} {
		if strings.HasPrefix(msg, p[0]) {
			return p[1]
		}
	}
	return "unknown"
}

// c05Tie: an external event (shutdown / cancel / deadline) fell on exactly the virtual instant at which an
// independent timer of the run fired; which goroutine runs first is then up to the scheduler (DESIGN §C05,
// outside the theorem) — the case is not compared.
func c05Tie(c *c05Case, r *c05Result) bool {
	hit := func(ev time.Duration) bool {
		if ev < 0 {
			return false
		}
		for i, cl := range r.calls {
			if i > 0 && cl.t == ev {
				return true
			}
			if cl.sleep && cl.fin == ev && ev > 0 {
				return true
			}
		}
		return false
	}
	if hit(c.sd) || hit(c.cn) || hit(c.dl) {
		return true
	}
	if c.sd >= 0 && (c.sd == c.cn || c.sd == c.dl) && c.sd > 0 {
		return true
	}
	return false
}

func c05Emit(out *vOut, idx int, mode string, c *c05Case, r *c05Result) {
	out.Linef("case %d mode=%s sig=%d", idx, mode, c.sig)
	if r.panicv != nil {
		out.Linef("viol sig=C05/retry/panic %v", r.panicv)
		out.Linef("end")
		return
	}
	if c05Tie(c, r) {
		out.Linef("stat tie_skipped 1")
		out.Linef("end")
		return
	}
	cf := c.cfg
	out.Linef("op cfg en=%d init=%d maxint=%d maxel=%d mnum=%d mden=%d rfnum=%d rfden=%d timeout=%d",
		vB(cf.enabled), int64(cf.initial), int64(cf.maxInt), int64(cf.maxElapsed), cf.mulNum, cf.mulDen, cf.rfNum, cf.rfDen, int64(cf.timeout))
	out.Linef("op env dl=%s cn=%s sd=%s", c05Opt(c.dl), c05Opt(c.cn), c05Opt(c.sd))
	for i, a := range c.script {
		rest := "-"
		if a.hasRest {
			rest = c05IDs(a.rest)
		}
		out.Linef("op att k=%d u=%d dur=%d ok=%d perm=%d th=%s rest=%s drawn=%d", i, vB(a.untilCtx), int64(a.dur), vB(a.ok), vB(a.perm), c05Opt(a.throttle), rest, int64(a.drawn))
	}
	out.Linef("op send payload=%s", c05IDs(c.payload))
	for _, cl := range r.calls {
		out.Linef("obs call %d %s", int64(cl.t), c05IDs(cl.ids))
	}
	reason := c05Reason(c, r.err)
	out.Linef("obs ret %d %s perm=%d sd=%d", int64(r.tEnd), reason, vB(consumererror.IsPermanent(r.err)), vB(experr.IsShutdownErr(r.err)))
	if len(r.calls) >= 2 {
		out.Linef("nt")
	}
	out.Linef("stat attempts %d", len(r.calls))
	out.Linef("stat reason_%s 1", reason)
	if c.sd >= 0 {
		out.Linef("stat with_shutdown 1")
	}
	if c.cn >= 0 {
		out.Linef("stat with_cancel 1")
	}
	if c.dl >= 0 {
		out.Linef("stat with_deadline 1")
	}
	if cf.rfNum != 0 {
		out.Linef("stat randomised 1")
	}
	if cf.initial == 0 {
		out.Linef("stat zero_initial 1")
	}
	out.Linef("end")
}

// ---- generator ---------------------------------------------------------------------------------------

var c05Durs = []time.Duration{0, 1, 1000, time.Millisecond, 10 * time.Millisecond, 250 * time.Millisecond, time.Second, 1500 * time.Millisecond, 2 * time.Second, 5 * time.Second, 30 * time.Second}

func c05Pick(r *rand.Rand, ds []time.Duration) time.Duration { return ds[r.IntN(len(ds))] }

func c05GenCfg(r *rand.Rand) c05Cfg {
	c := c05Cfg{enabled: r.IntN(10) != 0, mulDen: 1, rfDen: 1}
	c.initial = c05Pick(r, []time.Duration{0, 0, 1, time.Millisecond, 100 * time.Millisecond, time.Second, 5 * time.Second, 10 * time.Second})
	c.maxInt = c05Pick(r, []time.Duration{0, time.Millisecond, time.Second, 4 * time.Second, 10 * time.Second, 30 * time.Second, time.Minute})
	muls := [][2]int64{{0, 1}, {1, 2}, {1, 1}, {5, 4}, {3, 2}, {3, 2}, {2, 1}, {2, 1}, {3, 1}, {10, 1}, {11, 8}}
	m := muls[r.IntN(len(muls))]
	c.mulNum, c.mulDen = m[0], m[1]
	rfs := [][2]int64{{0, 1}, {0, 1}, {0, 1}, {1, 2}, {1, 4}, {3, 4}, {1, 1}, {1, 10}}
	f := rfs[r.IntN(len(rfs))]
	c.rfNum, c.rfDen = f[0], f[1]
	// max_elapsed_time: 0 = unlimited, else >= initial and >= max_interval (Validate)
	if r.IntN(3) != 0 {
		lo := max(c.initial, c.maxInt)
		c.maxElapsed = lo + c05Pick(r, []time.Duration{0, 1, time.Second, 10 * time.Second, time.Minute, 5 * time.Minute})
	}
	if r.IntN(2) == 0 {
		c.timeout = c05Pick(r, []time.Duration{time.Millisecond, time.Second, 2 * time.Second, 5 * time.Second})
	}
	return c
}

func c05Subset(r *rand.Rand, ids []int) []int {
	var out []int
	for _, id := range ids {
		if r.IntN(2) == 0 {
			out = append(out, id)
		}
	}
	return out
}

func c05GenCase(r *rand.Rand) *c05Case {
	c := &c05Case{sig: r.IntN(3), cfg: c05GenCfg(r), dl: -1, cn: -1, sd: -1, rngSeed: int64(r.Uint64() >> 1)}
	n := 1 + r.IntN(6)
	for i := 0; i < n; i++ {
		c.payload = append(c.payload, 1+i)
	}
	cur := append([]int(nil), c.payload...)
	length := r.IntN(13)
	finalKind := r.IntN(4) // how the script tends to end
	for i := 0; i < length; i++ {
		a := c05Att{throttle: -1, wrapSeed: r.Uint64(), dur: c05Pick(r, c05Durs)}
		last := i == length-1
		switch k := r.IntN(20); {
		case k < 8: // transient
		case k < 11:
			a.throttle = c05Pick(r, []time.Duration{0, 1, time.Millisecond, time.Second, 7 * time.Second, 45 * time.Second})
		case k < 14:
			a.hasRest = true
			if r.IntN(4) == 0 {
				a.rest = []int{100 + i} // a backend may name anything
			} else {
				a.rest = c05Subset(r, cur)
			}
			cur = a.rest
			if r.IntN(3) == 0 {
				a.throttle = c05Pick(r, []time.Duration{time.Millisecond, 3 * time.Second})
			}
		case k < 16:
			a.untilCtx = true
		case k < 17:
			a.other = true
		case k < 18 || (last && finalKind == 0):
			a.perm = true
			if r.IntN(2) == 0 {
				a.hasRest, a.rest = true, c05Subset(r, cur) // permanent wins: nothing is resent
			}
		default:
			if last || r.IntN(3) == 0 {
				a.ok = true
			}
		}
		// combinations: an error may carry several classifications at once
		if !a.ok {
			if a.throttle < 0 && r.IntN(6) == 0 {
				a.throttle = c05Pick(r, []time.Duration{0, time.Millisecond, 2 * time.Second, 20 * time.Second})
			}
			if !a.hasRest && r.IntN(8) == 0 {
				a.hasRest, a.rest = true, c05Subset(r, cur)
				if !a.perm {
					cur = a.rest
				}
			}
			if !a.perm && r.IntN(14) == 0 {
				a.perm = true
			}
		}
		c.script = append(c.script, a)
	}
	return c
}

// c05Bound: an attempt that waits for its context needs a context that ends
func c05Bound(c *c05Case) {
	if c.cfg.timeout > 0 || c.dl >= 0 || c.cn >= 0 {
		return
	}
	for i := range c.script {
		c.script[i].untilCtx = false
	}
}

// c05PlaceEvents: dry-run the case without events, then put shutdown / cancel / deadline before, inside or
// after specific attempts and waits of that run
func c05PlaceEvents(t *testing.T, r *rand.Rand, c *c05Case) {
	if r.IntN(4) == 0 {
		c05Bound(c)
		return
	}
	probe := *c
	probe.script = append([]c05Att(nil), c.script...)
	probe.cfg.timeout = max(c.cfg.timeout, time.Second) // bound context waits in the dry run
	if c.cfg.timeout == 0 {
		for i := range probe.script {
			probe.script[i].untilCtx = false
		}
	}
	c05Drawn(&probe)
	dry := c05Run(t, &probe)
	var instants []time.Duration
	for _, cl := range dry.calls {
		instants = append(instants, cl.t, cl.fin)
	}
	instants = append(instants, dry.tEnd)
	sort.Slice(instants, func(i, j int) bool { return instants[i] < instants[j] })
	place := func() time.Duration {
		switch r.IntN(8) {
		case 0:
			return 0
		case 1:
			return instants[len(instants)-1] + time.Second
		default:
			i := r.IntN(len(instants))
			lo := instants[i]
			hi := lo + 2*time.Second
			if i+1 < len(instants) {
				hi = instants[i+1]
			}
			if hi <= lo+1 {
				return lo + time.Duration(r.IntN(2))
			}
			return lo + 1 + time.Duration(r.Int64N(int64(hi-lo-1)))
		}
	}
	switch r.IntN(6) {
	case 0, 1, 2:
		c.sd = place()
	case 3:
		c.cn = place()
	case 4:
		c.dl = place()
	default:
		c.sd = place()
		if r.IntN(2) == 0 {
			c.dl = place()
		} else {
			c.cn = place()
		}
	}
	c05Bound(c)
}

// ---- corpus: witnesses that must stay covered (run first) ------------------------------------------------

func c05Transient(n int, dur time.Duration) []c05Att {
	s := make([]c05Att, n)
	for i := range s {
		s[i] = c05Att{throttle: -1, dur: dur, wrapSeed: uint64(i)}
	}
	return s
}

func c05Corpus() []*c05Case {
	base := c05Cfg{enabled: true, initial: time.Second, maxInt: 10 * time.Second, maxElapsed: time.Minute, mulNum: 2, mulDen: 1, rfNum: 0, rfDen: 1}
	zero := c05Cfg{enabled: true, initial: 0, maxInt: 30 * time.Second, maxElapsed: 0, mulNum: 3, mulDen: 2, rfNum: 0, rfDen: 1}
	var out []*c05Case
	// DESIGN probe: attempts at 0,1,3,7,15,25,35,45,55 s then "no more retries left"
	out = append(out, &c05Case{cfg: base, dl: -1, cn: -1, sd: -1, payload: []int{1, 2}, script: c05Transient(12, 0)})
	// shutdown during an attempt, zero back-off delay: on the unrepaired tree select picks the ready timer
	// with probability 1/2 per round and further attempts are made while shutting down
	for i := 0; i < 8; i++ {
		out = append(out, &c05Case{sig: i % 3, cfg: zero, dl: -1, cn: -1, sd: 500 * time.Millisecond, payload: []int{1, 2, 3}, script: c05Transient(12, time.Second)})
	}
	// the same with a cancelled request context
	for i := 0; i < 6; i++ {
		out = append(out, &c05Case{sig: i % 3, cfg: zero, dl: -1, cn: 500 * time.Millisecond, sd: -1, payload: []int{1, 2, 3}, script: c05Transient(12, time.Second)})
	}
	// shutdown and cancellation both pending when the wait starts: shutdown classification must win
	for i := 0; i < 6; i++ {
		out = append(out, &c05Case{sig: i % 3, cfg: base, dl: -1, cn: 300 * time.Millisecond, sd: 600 * time.Millisecond, payload: []int{1}, script: c05Transient(3, time.Second)})
	}
	// throttle 7 s honoured over a 1 s interval; partial failure narrows; permanent stops
	th := c05Transient(4, 0)
	th[0].throttle = 7 * time.Second
	th[1].hasRest, th[1].rest = true, []int{2}
	th[3].perm = true
	out = append(out, &c05Case{cfg: base, dl: -1, cn: -1, sd: -1, payload: []int{1, 2, 3}, script: th})
	// deadline 2.5 s: no third attempt
	out = append(out, &c05Case{cfg: base, dl: 2500 * time.Millisecond, cn: -1, sd: -1, payload: []int{1}, script: c05Transient(5, 0)})
	return out
}

func TestVerifC05Retry(t *testing.T) {
	out := vOpen(t)
	defer out.Close()
	out.Linef("model c05-retry 1")
	corpus := c05Corpus()
	n := vN(2000)
	for _, idx := range vCases(n) {
		var c *c05Case
		mode := "gen"
		if idx < len(corpus) {
			c = corpus[idx]
			mode = "corpus"
		} else {
			r := vRand(idx)
			c = c05GenCase(r)
			c05PlaceEvents(t, r, c)
		}
		c05Drawn(c)
		res := c05Run(t, c)
		c05Emit(out, idx, mode, c, &res)
		out.Flush()
	}
	if vThorough() {
		only := -1
		if s := os.Getenv("VERIF_REPLAY_CASE"); s != "" {
			only, _ = strconv.Atoi(s)
		}
		c05Exhaustive(t, out, only)
	}
}

// c05Exhaustive: every script of length <= 3 over six outcome kinds x a grid of event instants x two configurations
func c05Exhaustive(t *testing.T, out *vOut, only int) {
	cfgs := []c05Cfg{
		{enabled: true, initial: time.Second, maxInt: 4 * time.Second, maxElapsed: 20 * time.Second, mulNum: 2, mulDen: 1, rfNum: 0, rfDen: 1, timeout: 2 * time.Second},
		{enabled: true, initial: 0, maxInt: 0, maxElapsed: 0, mulNum: 3, mulDen: 2, rfNum: 0, rfDen: 1, timeout: time.Second},
	}
	kinds := 6
	mk := func(k, i int) c05Att {
		a := c05Att{throttle: -1, dur: time.Second, wrapSeed: uint64(k*31 + i)}
		switch k {
		case 0:
			a.ok = true
		case 1:
		case 2:
			a.perm = true
		case 3:
			a.throttle = 3 * time.Second
		case 4:
			a.hasRest, a.rest = true, []int{2}
		case 5:
			a.untilCtx = true
		}
		return a
	}
	type ev struct{ dl, cn, sd time.Duration }
	evs := []ev{{-1, -1, -1}}
	for _, x := range []time.Duration{0, 500 * time.Millisecond, 1500 * time.Millisecond, 2500 * time.Millisecond, 4500 * time.Millisecond} {
		evs = append(evs, ev{-1, -1, x}, ev{-1, x, -1}, ev{x, -1, -1})
	}
	idx := 10000000
	var rec func(prefix []int)
	rec = func(prefix []int) {
		for _, cf := range cfgs {
			for _, e := range evs {
				if only >= 0 && only != idx {
					idx++
					continue
				}
				c := &c05Case{cfg: cf, dl: e.dl, cn: e.cn, sd: e.sd, payload: []int{1, 2, 3}}
				for i, k := range prefix {
					c.script = append(c.script, mk(k, i))
				}
				res := c05Run(t, c)
				c05Emit(out, idx, "exh", c, &res)
				idx++
			}
		}
		out.Flush()
		if len(prefix) == 3 {
			return
		}
		for k := 0; k < kinds; k++ {
			rec(append(append([]int{}, prefix...), k))
		}
	}
	rec(nil)
}
