//go:build verif

package exporterhelper

import (
	"context"
	"strconv"
	"time"

	"go.opentelemetry.io/collector/component/componenttest"
	"go.opentelemetry.io/collector/config/configretry"
	"go.opentelemetry.io/collector/consumer/consumererror"
	"go.opentelemetry.io/collector/pdata/plog"
	"go.opentelemetry.io/collector/pdata/pmetric"
	"go.opentelemetry.io/collector/pdata/ptrace"
)

// ---- payloads of the three signals, items identified by small integers ------------------------------

func c05Logs(ids []int) plog.Logs {
	ld := plog.NewLogs()
	if len(ids) == 0 {
		return ld
	}
	lrs := ld.ResourceLogs().AppendEmpty().ScopeLogs().AppendEmpty().LogRecords()
	for _, id := range ids {
		lrs.AppendEmpty().Body().SetInt(int64(id))
	}
	return ld
}

func c05LogIDs(ld plog.Logs) []int {
	var out []int
	for i := 0; i < ld.ResourceLogs().Len(); i++ {
		rl := ld.ResourceLogs().At(i)
		for j := 0; j < rl.ScopeLogs().Len(); j++ {
			sl := rl.ScopeLogs().At(j)
			for k := 0; k < sl.LogRecords().Len(); k++ {
				out = append(out, int(sl.LogRecords().At(k).Body().Int()))
			}
		}
	}
	return out
}

func c05Traces(ids []int) ptrace.Traces {
	td := ptrace.NewTraces()
	if len(ids) == 0 {
		return td
	}
	ss := td.ResourceSpans().AppendEmpty().ScopeSpans().AppendEmpty().Spans()
	for _, id := range ids {
		ss.AppendEmpty().SetName(strconv.Itoa(id))
	}
	return td
}

func c05TraceIDs(td ptrace.Traces) []int {
	var out []int
	for i := 0; i < td.ResourceSpans().Len(); i++ {
		rs := td.ResourceSpans().At(i)
		for j := 0; j < rs.ScopeSpans().Len(); j++ {
			ss := rs.ScopeSpans().At(j)
			for k := 0; k < ss.Spans().Len(); k++ {
				n, _ := strconv.Atoi(ss.Spans().At(k).Name())
				out = append(out, n)
			}
		}
	}
	return out
}

func c05Metrics(ids []int) pmetric.Metrics {
	md := pmetric.NewMetrics()
	if len(ids) == 0 {
		return md
	}
	ms := md.ResourceMetrics().AppendEmpty().ScopeMetrics().AppendEmpty().Metrics()
	for _, id := range ids {
		m := ms.AppendEmpty()
		m.SetName(strconv.Itoa(id))
		m.SetEmptyGauge().DataPoints().AppendEmpty().SetIntValue(int64(id))
	}
	return md
}

func c05MetricIDs(md pmetric.Metrics) []int {
	var out []int
	for i := 0; i < md.ResourceMetrics().Len(); i++ {
		rm := md.ResourceMetrics().At(i)
		for j := 0; j < rm.ScopeMetrics().Len(); j++ {
			sm := rm.ScopeMetrics().At(j)
			for k := 0; k < sm.Metrics().Len(); k++ {
				n, _ := strconv.Atoi(sm.Metrics().At(k).Name())
				out = append(out, n)
			}
		}
	}
	return out
}

// a partial error of a DIFFERENT signal: must be ignored by OnError
func c05OtherSignal(sig int, base error) error {
	if sig == 0 {
		return consumererror.NewTraces(base, c05Traces([]int{4242}))
	}
	return consumererror.NewLogs(base, c05Logs([]int{4242}))
}

func init() {
	c05Throttle = NewThrottleRetry
	bg := context.Background()
	host := componenttest.NewNopHost()
	opts := func(rcfg configretry.BackOffConfig, timeout time.Duration, queue bool) []Option {
		o := []Option{WithRetry(rcfg), WithTimeout(TimeoutConfig{Timeout: timeout})}
		if queue {
			// configuration-level dimension: sending_queue with wait_for_result - the producer's context IS the request's context
			qc := NewDefaultQueueConfig()
			qc.WaitForResult, qc.NumConsumers = true, 1
			o = append(o, WithQueue(qc))
		}
		return o
	}
	c05Signals = []c05Signal{
		{name: "logs",
			build: func(rcfg configretry.BackOffConfig, timeout time.Duration, queue bool, push func(context.Context, []int) error) (*c05Exp, error) {
				e, err := NewLogs(bg, c05Settings(), &struct{}{},
					func(ctx context.Context, ld plog.Logs) error { return push(ctx, c05LogIDs(ld)) }, opts(rcfg, timeout, queue)...)
				if err != nil {
					return nil, err
				}
				return &c05Exp{func(ctx context.Context, ids []int) error { return e.ConsumeLogs(ctx, c05Logs(ids)) }, func() { _ = e.Shutdown(bg) }, func() error { return e.Start(bg, host) }}, nil
			},
			partial: func(base error, rest []int) error { return consumererror.NewLogs(base, c05Logs(rest)) }},
		{name: "traces",
			build: func(rcfg configretry.BackOffConfig, timeout time.Duration, queue bool, push func(context.Context, []int) error) (*c05Exp, error) {
				e, err := NewTraces(bg, c05Settings(), &struct{}{},
					func(ctx context.Context, td ptrace.Traces) error { return push(ctx, c05TraceIDs(td)) }, opts(rcfg, timeout, queue)...)
				if err != nil {
					return nil, err
				}
				return &c05Exp{func(ctx context.Context, ids []int) error { return e.ConsumeTraces(ctx, c05Traces(ids)) }, func() { _ = e.Shutdown(bg) }, func() error { return e.Start(bg, host) }}, nil
			},
			partial: func(base error, rest []int) error { return consumererror.NewTraces(base, c05Traces(rest)) }},
		{name: "metrics",
			build: func(rcfg configretry.BackOffConfig, timeout time.Duration, queue bool, push func(context.Context, []int) error) (*c05Exp, error) {
				e, err := NewMetrics(bg, c05Settings(), &struct{}{},
					func(ctx context.Context, md pmetric.Metrics) error { return push(ctx, c05MetricIDs(md)) }, opts(rcfg, timeout, queue)...)
				if err != nil {
					return nil, err
				}
				return &c05Exp{func(ctx context.Context, ids []int) error { return e.ConsumeMetrics(ctx, c05Metrics(ids)) }, func() { _ = e.Shutdown(bg) }, func() error { return e.Start(bg, host) }}, nil
			},
			partial: func(base error, rest []int) error { return consumererror.NewMetrics(base, c05Metrics(rest)) }},
	}
}
