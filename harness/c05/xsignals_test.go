//go:build verif

package xexporterhelper

import (
	"context"
	"time"

	"go.opentelemetry.io/collector/component/componenttest"
	"go.opentelemetry.io/collector/config/configretry"
	"go.opentelemetry.io/collector/consumer/consumererror"
	"go.opentelemetry.io/collector/consumer/consumererror/xconsumererror"
	"go.opentelemetry.io/collector/exporter/exporterhelper"
	"go.opentelemetry.io/collector/pdata/plog"
	"go.opentelemetry.io/collector/pdata/pprofile"
)

// profiles: one profile per id, the id is the profile's Time (ns)
func c05Profiles(ids []int) pprofile.Profiles {
	pd := pprofile.NewProfiles()
	if len(ids) == 0 {
		return pd
	}
	ps := pd.ResourceProfiles().AppendEmpty().ScopeProfiles().AppendEmpty().Profiles()
	for _, id := range ids {
		p := ps.AppendEmpty()
		p.SetDroppedAttributesCount(uint32(id))
		p.Sample().AppendEmpty()
	}
	return pd
}

func c05ProfileIDs(pd pprofile.Profiles) []int {
	var out []int
	for i := 0; i < pd.ResourceProfiles().Len(); i++ {
		rp := pd.ResourceProfiles().At(i)
		for j := 0; j < rp.ScopeProfiles().Len(); j++ {
			sp := rp.ScopeProfiles().At(j)
			for k := 0; k < sp.Profiles().Len(); k++ {
				out = append(out, int(sp.Profiles().At(k).DroppedAttributesCount()))
			}
		}
	}
	return out
}

// a partial error of a DIFFERENT signal: must be ignored by profilesRequest.OnError
func c05OtherSignal(_ int, base error) error {
	return consumererror.NewLogs(base, plog.NewLogs())
}

func xopts(rcfg configretry.BackOffConfig, timeout time.Duration, queue bool) []exporterhelper.Option {
	o := []exporterhelper.Option{exporterhelper.WithRetry(rcfg), exporterhelper.WithTimeout(exporterhelper.TimeoutConfig{Timeout: timeout})}
	if queue {
		qc := exporterhelper.NewDefaultQueueConfig()
		qc.WaitForResult, qc.NumConsumers = true, 1
		o = append(o, exporterhelper.WithQueue(qc))
	}
	return o
}

func init() {
	c05Throttle = exporterhelper.NewThrottleRetry
	bg := context.Background()
	c05Signals = []c05Signal{
		{name: "profiles",
			build: func(rcfg configretry.BackOffConfig, timeout time.Duration, queue bool, push func(context.Context, []int) error) (*c05Exp, error) {
				e, err := NewProfilesExporter(bg, c05Settings(), &struct{}{},
					func(ctx context.Context, pd pprofile.Profiles) error { return push(ctx, c05ProfileIDs(pd)) },
					xopts(rcfg, timeout, queue)...)
				if err != nil {
					return nil, err
				}
				return &c05Exp{func(ctx context.Context, ids []int) error { return e.ConsumeProfiles(ctx, c05Profiles(ids)) }, func() { _ = e.Shutdown(bg) }, func() error { return e.Start(bg, componenttest.NewNopHost()) }}, nil
			},
			partial: func(base error, rest []int) error { return xconsumererror.NewProfiles(base, c05Profiles(rest)) }},
	}
}
