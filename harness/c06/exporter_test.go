//go:build verif

package exporterhelper

import (
	"context"
	"strings"
	"testing"
	"time"

	"go.opentelemetry.io/collector/component"
	"go.opentelemetry.io/collector/consumer"
	"go.opentelemetry.io/collector/exporter/exportertest"
	"go.opentelemetry.io/collector/pdata/plog"
	"go.opentelemetry.io/collector/pdata/pmetric"
	"go.opentelemetry.io/collector/pdata/ptrace"
)

// C06 glue at the exporter stage: "a pipeline advertises itself as mutating exactly when … its exporter stage acting on the
// original payload may mutate it". An exporter built with the exporter helper merges and splits the payloads it is given
// (after Consume returned) whenever batching is enabled, so it must advertise MutatesData then — whatever capability the
// exporter declared itself and in whatever order the options were given (otlp/otlphttp/debug declare MutatesData:false).
// Model: c06-exp (exporterCap).
func TestVerifC06Exporter(t *testing.T) {
	out := vOpen(t)
	defer out.Close()
	out.Linef("model c06-exp 1")
	n := vN(200)
	ctx := context.Background()
	set := exportertest.NewNopSettings(component.MustNewType("c06exp"))
	for _, c := range vCases(n) {
		rnd := vRand(c)
		out.Linef("case %d", c)
		for _, sig := range []string{"logs", "traces", "metrics"} {
			// a random option list: declared capability (none / false / true, possibly twice), batching through the
			// sending queue (batch section), through the legacy batcher, or none; plus neutral options; random order
			type opt struct {
				tok string
				o   Option
			}
			var opts []opt
			declared := "-" // last explicit declaration wins among the explicit ones
			for k := rnd.IntN(3); k > 0; k-- {
				m := rnd.IntN(2) == 0
				opts = append(opts, opt{"cap" + map[bool]string{false: "0", true: "1"}[m], WithCapabilities(consumer.Capabilities{MutatesData: m})})
			}
			batching := false
			// the helper's rule (base_exporter.go): batching <=> the legacy batcher is ENABLED or an ENABLED queue configuration
			// has a batch section (a disabled queue configuration is dropped by WithQueueBatch)
			switch rnd.IntN(7) {
			case 0:
				q := NewDefaultQueueConfig()
				q.Batch = &BatchConfig{FlushTimeout: time.Hour, MinSize: 100, MaxSize: 0}
				q.Sizer = RequestSizerTypeItems
				opts = append(opts, opt{"queuebatch", WithQueue(q)})
				batching = true
			case 1:
				b := NewDefaultBatcherConfig()
				opts = append(opts, opt{"batcher", WithBatcher(b)})
				batching = b.Enabled
			case 2:
				opts = append(opts, opt{"queue", WithQueue(NewDefaultQueueConfig())})
			case 3:
				q := NewDefaultQueueConfig()
				q.Enabled = false
				q.Batch = &BatchConfig{FlushTimeout: time.Hour, MinSize: 100, MaxSize: 0}
				q.Sizer = RequestSizerTypeItems
				// WithQueueBatch ignores a disabled queue configuration altogether: nothing batches, nothing mutates
				opts = append(opts, opt{"queueoff+batch", WithQueue(q)})
			case 4:
				b := NewDefaultBatcherConfig()
				b.Enabled = false
				opts = append(opts, opt{"batcheroff", WithBatcher(b)})
			case 5:
				b := NewDefaultBatcherConfig()
				b.Enabled = true
				opts = append(opts, opt{"batcher+queue", WithBatcher(b)}, opt{"queue", WithQueue(NewDefaultQueueConfig())})
				batching = true
			}
			if rnd.IntN(2) == 0 {
				opts = append(opts, opt{"timeout", WithTimeout(TimeoutConfig{Timeout: time.Second})})
			}
			rnd.Shuffle(len(opts), func(i, j int) { opts[i], opts[j] = opts[j], opts[i] })
			var toks []string
			var os []Option
			decls := "" // every explicit declaration, in option order (model exporterCapH: applied in order, the helper's own comes last)
			for _, o := range opts {
				toks = append(toks, o.tok)
				os = append(os, o.o)
				if strings.HasPrefix(o.tok, "cap") {
					declared = o.tok[3:]
					decls += o.tok[3:]
				}
			}
			if decls == "" {
				decls = "-"
			}
			if len(toks) == 0 {
				toks = []string{"-"}
			}
			out.Linef("op exp sig=%s declared=%s batching=%d opts=%s", sig, declared, vB(batching), strings.Join(toks, ","))
			var caps consumer.Capabilities
			var err error
			var comp component.Component
			switch sig {
			case "logs":
				var e interface {
					component.Component
					consumer.Logs
				}
				e, err = NewLogs(ctx, set, &struct{}{}, func(context.Context, plog.Logs) error { return nil }, os...)
				if err == nil {
					caps, comp = e.Capabilities(), e
				}
			case "traces":
				var e interface {
					component.Component
					consumer.Traces
				}
				e, err = NewTraces(ctx, set, &struct{}{}, func(context.Context, ptrace.Traces) error { return nil }, os...)
				if err == nil {
					caps, comp = e.Capabilities(), e
				}
			default:
				var e interface {
					component.Component
					consumer.Metrics
				}
				e, err = NewMetrics(ctx, set, &struct{}{}, func(context.Context, pmetric.Metrics) error { return nil }, os...)
				if err == nil {
					caps, comp = e.Capabilities(), e
				}
			}
			_ = comp
			if err != nil {
				out.Linef("obs error")
				continue
			}
			out.Linef("obs cap %d", vB(caps.MutatesData))
			out.Linef("op exph sig=%s decls=%s batching=%d", sig, decls, vB(batching))
			out.Linef("obs cap %d", vB(caps.MutatesData))
			if batching && !caps.MutatesData {
				out.Linef("viol sig=C06/exporter/batching-exporter-not-advertised-mutating signal=%s opts=%s", sig, strings.Join(toks, ","))
			}
			if batching {
				out.Linef("stat batching 1")
			}
		}
		out.Linef("nt")
		out.Linef("end")
		out.Flush()
	}
}
