//go:build verif

package fanoutconsumer

import (
	"bytes"
	"context"
	"errors"
	"fmt"
	"math/rand/v2"
	"reflect"
	"strings"
	"testing"

	"go.uber.org/multierr"

	"go.opentelemetry.io/collector/consumer"
	"go.opentelemetry.io/collector/consumer/xconsumer"
	"go.opentelemetry.io/collector/pdata/pcommon"
	"go.opentelemetry.io/collector/pdata/plog"
	"go.opentelemetry.io/collector/pdata/pmetric"
	"go.opentelemetry.io/collector/pdata/pprofile"
	"go.opentelemetry.io/collector/pdata/ptrace"
)

// sigAdapter hides the four signal types behind `any` payloads.
type sigAdapter struct {
	name string
	// a random payload (1-3 resources, nested attribute values, several item kinds); resource 0 / scope 0 / item 0 always carry
	// the containers the mutation sites need ("nest" map, "arr" slice, a primitive slice)
	newData   func(seed uint64) any
	marshal   func(any) []byte
	unmarshal func([]byte) any
	// mutate the payload at one of nSites places (resource attribute, scope attribute, a map nested in an item attribute,
	// a scalar field of the last item, a new resource, a primitive / nested slice of item 0); every site CHANGES the content
	mutate func(d any, site int, tag string)
	markRO func(any)
	isRO   func(any) bool
	// build a fan-out over consumers with the given capabilities; cb is invoked for every call
	// mode: 0 plain; 1 the caller's slice is checked for changes and then overwritten with foreign consumers after construction;
	// 2 additionally a SECOND fan-out is built from the same backing array (the first one is kept and used)
	build func(caps []bool, cb func(i int, d any) error, mode int) (consume func(context.Context, any) error, mutates bool)
}

const nSites = 6

func ptrOf(d any) uintptr { return reflect.ValueOf(d).Field(0).Pointer() }

func c06Rand(seed uint64) *rand.Rand { return rand.New(rand.NewPCG(seed, 0xc06)) }

// fillValue puts a random value (scalars, bytes, nested map / slice up to depth 2) into v
func fillValue(v pcommon.Value, r *rand.Rand, depth int) {
	switch k := r.IntN(7); {
	case k == 0:
		v.SetStr(fmt.Sprintf("s%d", r.IntN(1000)))
	case k == 1:
		v.SetInt(int64(r.IntN(1000)) - 500)
	case k == 2:
		v.SetDouble(float64(r.IntN(1000)) / 8)
	case k == 3:
		v.SetBool(r.IntN(2) == 0)
	case k == 4:
		v.SetEmptyBytes().FromRaw([]byte{byte(r.IntN(256)), byte(r.IntN(256))})
	case k == 5 && depth < 2:
		m := v.SetEmptyMap()
		for i, n := 0, r.IntN(3); i < n; i++ {
			fillValue(m.PutEmpty(fmt.Sprintf("m%d", i)), r, depth+1)
		}
	case k == 6 && depth < 2:
		sl := v.SetEmptySlice()
		for i, n := 0, r.IntN(3); i < n; i++ {
			fillValue(sl.AppendEmpty(), r, depth+1)
		}
	default:
		v.SetStr("d")
	}
}

func fillAttrs(m pcommon.Map, r *rand.Rand, anchors bool) {
	m.PutStr("k", "v")
	for i, n := 0, r.IntN(4); i < n; i++ {
		fillValue(m.PutEmpty(fmt.Sprintf("x%d", i)), r, 0)
	}
	if anchors {
		fillValue(m.PutEmptyMap("nest").PutEmpty("in"), r, 1)
		fillValue(m.PutEmptySlice("arr").AppendEmpty(), r, 1)
	}
}

func mustMap(m pcommon.Map, key string) pcommon.Map {
	v, ok := m.Get(key)
	if !ok {
		panic("harness: anchor " + key + " missing")
	}
	return v.Map()
}

func mustSlice(m pcommon.Map, key string) pcommon.Slice {
	v, ok := m.Get(key)
	if !ok {
		panic("harness: anchor " + key + " missing")
	}
	return v.Slice()
}

func adapters() []sigAdapter {
	return []sigAdapter{
		{
			name: "logs",
			newData: func(seed uint64) any {
				r := c06Rand(seed)
				ld := plog.NewLogs()
				for ri, nr := 0, 1+r.IntN(3); ri < nr; ri++ {
					rl := ld.ResourceLogs().AppendEmpty()
					fillAttrs(rl.Resource().Attributes(), r, false)
					for si, ns := 0, 1+r.IntN(2); si < ns; si++ {
						sl := rl.ScopeLogs().AppendEmpty()
						sl.Scope().SetName(fmt.Sprintf("scope%d", si))
						fillAttrs(sl.Scope().Attributes(), r, false)
						for li, nl := 0, 1+r.IntN(3); li < nl; li++ {
							lr := sl.LogRecords().AppendEmpty()
							fillValue(lr.Body(), r, 0)
							lr.SetSeverityNumber(plog.SeverityNumber(r.IntN(24)))
							fillAttrs(lr.Attributes(), r, ri == 0 && si == 0 && li == 0)
						}
					}
				}
				return ld
			},
			marshal: func(d any) []byte { b, _ := (&plog.ProtoMarshaler{}).MarshalLogs(d.(plog.Logs)); return b },
			unmarshal: func(b []byte) any {
				d, err := (&plog.ProtoUnmarshaler{}).UnmarshalLogs(b)
				if err != nil {
					panic(err)
				}
				return d
			},
			mutate: func(d any, site int, tag string) {
				ld := d.(plog.Logs)
				rls := ld.ResourceLogs()
				first := rls.At(0).ScopeLogs().At(0).LogRecords().At(0)
				switch site {
				case 0:
					rls.At(0).Resource().Attributes().PutStr(tag, "1")
				case 1:
					rls.At(rls.Len() - 1).ScopeLogs().At(0).Scope().Attributes().PutStr(tag, "1")
				case 2:
					mustMap(first.Attributes(), "nest").PutStr(tag, "1")
				case 3:
					lrs := rls.At(rls.Len() - 1).ScopeLogs().At(0).LogRecords()
					lrs.At(lrs.Len() - 1).Body().SetStr(tag)
				case 4:
					rl := rls.AppendEmpty()
					rl.Resource().Attributes().PutStr(tag, "1")
					rl.ScopeLogs().AppendEmpty().LogRecords().AppendEmpty().Body().SetStr("n")
				default:
					mustSlice(first.Attributes(), "arr").AppendEmpty().SetStr(tag)
				}
			},
			markRO: func(d any) { d.(plog.Logs).MarkReadOnly() },
			isRO:   func(d any) bool { return d.(plog.Logs).IsReadOnly() },
			build: func(caps []bool, cb func(int, any) error, mode int) (func(context.Context, any) error, bool) {
				f := c06Build(caps, func(i int, m bool) consumer.Logs {
					c, _ := consumer.NewLogs(func(_ context.Context, ld plog.Logs) error { return cb(i, ld) },
						consumer.WithCapabilities(consumer.Capabilities{MutatesData: m}))
					return c
				}, NewLogs, mode)
				return func(ctx context.Context, d any) error { return f.ConsumeLogs(ctx, d.(plog.Logs)) }, f.Capabilities().MutatesData
			},
		},
		{
			name: "metrics",
			newData: func(seed uint64) any {
				r := c06Rand(seed)
				md := pmetric.NewMetrics()
				for ri, nr := 0, 1+r.IntN(3); ri < nr; ri++ {
					rm := md.ResourceMetrics().AppendEmpty()
					fillAttrs(rm.Resource().Attributes(), r, false)
					for si, ns := 0, 1+r.IntN(2); si < ns; si++ {
						sm := rm.ScopeMetrics().AppendEmpty()
						fillAttrs(sm.Scope().Attributes(), r, false)
						for mi, nm := 0, 2+r.IntN(3); mi < nm; mi++ {
							m := sm.Metrics().AppendEmpty()
							m.SetName(fmt.Sprintf("m%d", mi))
							kind := r.IntN(5)
							if mi == 0 {
								kind = 0
							} else if mi == 1 {
								kind = 2
							}
							anch := ri == 0 && si == 0 && mi == 0
							switch kind {
							case 0:
								dp := m.SetEmptyGauge().DataPoints().AppendEmpty()
								dp.SetIntValue(int64(r.IntN(100)))
								fillAttrs(dp.Attributes(), r, anch)
								ex := dp.Exemplars().AppendEmpty()
								ex.SetDoubleValue(1.5)
								fillAttrs(ex.FilteredAttributes(), r, false)
							case 1:
								s := m.SetEmptySum()
								s.SetIsMonotonic(r.IntN(2) == 0)
								s.SetAggregationTemporality(pmetric.AggregationTemporalityCumulative)
								dp := s.DataPoints().AppendEmpty()
								dp.SetDoubleValue(float64(r.IntN(100)) / 4)
								fillAttrs(dp.Attributes(), r, false)
							case 2:
								dp := m.SetEmptyHistogram().DataPoints().AppendEmpty()
								dp.SetCount(uint64(r.IntN(50)))
								dp.BucketCounts().FromRaw([]uint64{uint64(r.IntN(9)), uint64(r.IntN(9))})
								dp.ExplicitBounds().FromRaw([]float64{1, 2})
								fillAttrs(dp.Attributes(), r, false)
							case 3:
								dp := m.SetEmptyExponentialHistogram().DataPoints().AppendEmpty()
								dp.SetScale(int32(r.IntN(4)))
								dp.Positive().BucketCounts().FromRaw([]uint64{1, uint64(r.IntN(9))})
								fillAttrs(dp.Attributes(), r, false)
							default:
								dp := m.SetEmptySummary().DataPoints().AppendEmpty()
								dp.SetSum(float64(r.IntN(100)))
								dp.QuantileValues().AppendEmpty().SetQuantile(0.5)
								fillAttrs(dp.Attributes(), r, false)
							}
						}
					}
				}
				return md
			},
			marshal: func(d any) []byte { b, _ := (&pmetric.ProtoMarshaler{}).MarshalMetrics(d.(pmetric.Metrics)); return b },
			unmarshal: func(b []byte) any {
				d, err := (&pmetric.ProtoUnmarshaler{}).UnmarshalMetrics(b)
				if err != nil {
					panic(err)
				}
				return d
			},
			mutate: func(d any, site int, tag string) {
				md := d.(pmetric.Metrics)
				rms := md.ResourceMetrics()
				ms0 := rms.At(0).ScopeMetrics().At(0).Metrics()
				switch site {
				case 0:
					rms.At(0).Resource().Attributes().PutStr(tag, "1")
				case 1:
					rms.At(rms.Len() - 1).ScopeMetrics().At(0).Scope().Attributes().PutStr(tag, "1")
				case 2:
					mustMap(ms0.At(0).Gauge().DataPoints().At(0).Attributes(), "nest").PutStr(tag, "1")
				case 3:
					ms := rms.At(rms.Len() - 1).ScopeMetrics().At(0).Metrics()
					ms.At(ms.Len() - 1).SetDescription(tag)
				case 4:
					rm := rms.AppendEmpty()
					rm.Resource().Attributes().PutStr(tag, "1")
					rm.ScopeMetrics().AppendEmpty().Metrics().AppendEmpty().SetEmptyGauge().DataPoints().AppendEmpty().SetIntValue(1)
				default:
					ms0.At(1).Histogram().DataPoints().At(0).BucketCounts().Append(uint64(len(tag)) + 7)
				}
			},
			markRO: func(d any) { d.(pmetric.Metrics).MarkReadOnly() },
			isRO:   func(d any) bool { return d.(pmetric.Metrics).IsReadOnly() },
			build: func(caps []bool, cb func(int, any) error, mode int) (func(context.Context, any) error, bool) {
				f := c06Build(caps, func(i int, m bool) consumer.Metrics {
					c, _ := consumer.NewMetrics(func(_ context.Context, md pmetric.Metrics) error { return cb(i, md) },
						consumer.WithCapabilities(consumer.Capabilities{MutatesData: m}))
					return c
				}, NewMetrics, mode)
				return func(ctx context.Context, d any) error { return f.ConsumeMetrics(ctx, d.(pmetric.Metrics)) }, f.Capabilities().MutatesData
			},
		},
		{
			name: "traces",
			newData: func(seed uint64) any {
				r := c06Rand(seed)
				td := ptrace.NewTraces()
				for ri, nr := 0, 1+r.IntN(3); ri < nr; ri++ {
					rs := td.ResourceSpans().AppendEmpty()
					fillAttrs(rs.Resource().Attributes(), r, false)
					for si, ns := 0, 1+r.IntN(2); si < ns; si++ {
						ss := rs.ScopeSpans().AppendEmpty()
						fillAttrs(ss.Scope().Attributes(), r, false)
						for pi, np := 0, 1+r.IntN(3); pi < np; pi++ {
							sp := ss.Spans().AppendEmpty()
							sp.SetName(fmt.Sprintf("span%d", pi))
							sp.SetTraceID(pcommon.TraceID{1, byte(r.IntN(256)), 3})
							sp.SetSpanID(pcommon.SpanID{byte(1 + r.IntN(200))})
							sp.TraceState().FromRaw("a=b")
							fillAttrs(sp.Attributes(), r, ri == 0 && si == 0 && pi == 0)
							for ei, ne := 0, r.IntN(3); ei < ne; ei++ {
								ev := sp.Events().AppendEmpty()
								ev.SetName(fmt.Sprintf("ev%d", ei))
								fillAttrs(ev.Attributes(), r, false)
							}
							if r.IntN(2) == 0 {
								fillAttrs(sp.Links().AppendEmpty().Attributes(), r, false)
							}
						}
					}
				}
				return td
			},
			marshal: func(d any) []byte { b, _ := (&ptrace.ProtoMarshaler{}).MarshalTraces(d.(ptrace.Traces)); return b },
			unmarshal: func(b []byte) any {
				d, err := (&ptrace.ProtoUnmarshaler{}).UnmarshalTraces(b)
				if err != nil {
					panic(err)
				}
				return d
			},
			mutate: func(d any, site int, tag string) {
				td := d.(ptrace.Traces)
				rss := td.ResourceSpans()
				first := rss.At(0).ScopeSpans().At(0).Spans().At(0)
				switch site {
				case 0:
					rss.At(0).Resource().Attributes().PutStr(tag, "1")
				case 1:
					rss.At(rss.Len() - 1).ScopeSpans().At(0).Scope().Attributes().PutStr(tag, "1")
				case 2:
					mustMap(first.Attributes(), "nest").PutStr(tag, "1")
				case 3:
					sps := rss.At(rss.Len() - 1).ScopeSpans().At(0).Spans()
					sps.At(sps.Len() - 1).SetName(tag)
				case 4:
					rs := rss.AppendEmpty()
					rs.Resource().Attributes().PutStr(tag, "1")
					rs.ScopeSpans().AppendEmpty().Spans().AppendEmpty().SetName("n")
				default:
					first.Events().AppendEmpty().SetName(tag)
				}
			},
			markRO: func(d any) { d.(ptrace.Traces).MarkReadOnly() },
			isRO:   func(d any) bool { return d.(ptrace.Traces).IsReadOnly() },
			build: func(caps []bool, cb func(int, any) error, mode int) (func(context.Context, any) error, bool) {
				f := c06Build(caps, func(i int, m bool) consumer.Traces {
					c, _ := consumer.NewTraces(func(_ context.Context, td ptrace.Traces) error { return cb(i, td) },
						consumer.WithCapabilities(consumer.Capabilities{MutatesData: m}))
					return c
				}, NewTraces, mode)
				return func(ctx context.Context, d any) error { return f.ConsumeTraces(ctx, d.(ptrace.Traces)) }, f.Capabilities().MutatesData
			},
		},
		{
			name: "profiles",
			newData: func(seed uint64) any {
				r := c06Rand(seed)
				pd := pprofile.NewProfiles()
				for ri, nr := 0, 1+r.IntN(3); ri < nr; ri++ {
					rp := pd.ResourceProfiles().AppendEmpty()
					fillAttrs(rp.Resource().Attributes(), r, false)
					for si, ns := 0, 1+r.IntN(2); si < ns; si++ {
						sp := rp.ScopeProfiles().AppendEmpty()
						fillAttrs(sp.Scope().Attributes(), r, false)
						for pi, np := 0, 1+r.IntN(2); pi < np; pi++ {
							p := sp.Profiles().AppendEmpty()
							p.SetProfileID(pprofile.ProfileID{byte(1 + r.IntN(200)), 2})
							p.StringTable().FromRaw([]string{"", fmt.Sprintf("f%d", r.IntN(100))})
							p.OriginalPayload().FromRaw([]byte{byte(r.IntN(256))})
							at := p.AttributeTable().AppendEmpty()
							at.SetKey("tab")
							fillValue(at.Value().SetEmptyMap().PutEmpty("in"), r, 1)
							for xi, nx := 0, 1+r.IntN(3); xi < nx; xi++ {
								s := p.Sample().AppendEmpty()
								s.Value().FromRaw([]int64{int64(r.IntN(50)), int64(xi)})
								s.TimestampsUnixNano().FromRaw([]uint64{uint64(r.IntN(1000))})
							}
							p.LocationTable().AppendEmpty().Line().AppendEmpty().SetLine(int64(r.IntN(500)))
							p.FunctionTable().AppendEmpty().SetNameStrindex(1)
						}
					}
				}
				return pd
			},
			marshal: func(d any) []byte { b, _ := (&pprofile.ProtoMarshaler{}).MarshalProfiles(d.(pprofile.Profiles)); return b },
			unmarshal: func(b []byte) any {
				d, err := (&pprofile.ProtoUnmarshaler{}).UnmarshalProfiles(b)
				if err != nil {
					panic(err)
				}
				return d
			},
			mutate: func(d any, site int, tag string) {
				pd := d.(pprofile.Profiles)
				rps := pd.ResourceProfiles()
				first := rps.At(0).ScopeProfiles().At(0).Profiles().At(0)
				switch site {
				case 0:
					rps.At(0).Resource().Attributes().PutStr(tag, "1")
				case 1:
					rps.At(rps.Len() - 1).ScopeProfiles().At(0).Scope().Attributes().PutStr(tag, "1")
				case 2:
					first.AttributeTable().At(0).Value().Map().PutStr(tag, "1")
				case 3:
					ps := rps.At(rps.Len() - 1).ScopeProfiles().At(0).Profiles()
					ps.At(ps.Len() - 1).SetOriginalPayloadFormat(tag)
				case 4:
					rp := rps.AppendEmpty()
					rp.Resource().Attributes().PutStr(tag, "1")
					rp.ScopeProfiles().AppendEmpty().Profiles().AppendEmpty().SetOriginalPayloadFormat("n")
				default:
					first.Sample().At(0).Value().Append(int64(len(tag)) + 7)
					first.StringTable().Append(tag)
				}
			},
			markRO: func(d any) { d.(pprofile.Profiles).MarkReadOnly() },
			isRO:   func(d any) bool { return d.(pprofile.Profiles).IsReadOnly() },
			build: func(caps []bool, cb func(int, any) error, mode int) (func(context.Context, any) error, bool) {
				f := c06Build(caps, func(i int, m bool) xconsumer.Profiles {
					c, _ := xconsumer.NewProfiles(func(_ context.Context, pd pprofile.Profiles) error { return cb(i, pd) },
						consumer.WithCapabilities(consumer.Capabilities{MutatesData: m}))
					return c
				}, NewProfiles, mode)
				return func(ctx context.Context, d any) error { return f.ConsumeProfiles(ctx, d.(pprofile.Profiles)) }, f.Capabilities().MutatesData
			},
		},
	}
}

// violations found while building a fan-out (printed by runFanCase)
var c06BuildViol []string

// c06Build builds the fan-out over consumers with the given capabilities from a caller-owned, long-lived slice.
// The constructor must neither modify that slice nor keep using it: afterwards (mode >= 1) the slice must still hold the consumers
// that were passed, in order, and is then overwritten with FOREIGN consumers (index -1: must never be invoked); in mode 2 a second
// fan-out is built from the same backing array, as a caller that re-uses a scratch slice does. The first fan-out is returned.
func c06Build[T any](caps []bool, mk func(i int, m bool) T, ctor func([]T) T, mode int) T {
	cs := make([]T, 0, len(caps)+4)
	for i, m := range caps {
		cs = append(cs, mk(i, m))
	}
	saved := append([]T(nil), cs...)
	f := ctor(cs)
	if mode >= 1 {
		for i := range saved {
			if any(cs[i]) != any(saved[i]) {
				c06BuildViol = append(c06BuildViol, fmt.Sprintf("sig=C06/fanout/constructor-modified-callers-slice index=%d consumers=%d", i, len(caps)))
				break
			}
		}
		for i := range cs {
			cs[i] = mk(-1, i%2 == 0)
		}
	}
	if mode >= 2 {
		scratch := cs[:0]
		for j := 0; j < len(caps)+2; j++ {
			scratch = append(scratch, mk(-1, j%2 == 1))
		}
		_ = ctor(scratch)
	}
	return f
}

func bits(bs []bool) string {
	var sb strings.Builder
	for _, b := range bs {
		if b {
			sb.WriteByte('1')
		} else {
			sb.WriteByte('0')
		}
	}
	if sb.Len() == 0 {
		return "-"
	}
	return sb.String()
}

// tryMutate mutates through the public API at the given site; reports whether it panicked.
func tryMutate(ad sigAdapter, d any, site int, tag string) (panicked bool) {
	defer func() {
		if r := recover(); r != nil {
			if str, ok := r.(string); ok && strings.HasPrefix(str, "harness:") {
				panic(r)
			}
			panicked = true
		}
	}()
	ad.mutate(d, site, tag)
	return false
}

// one fan-out run on the real code; writes op + obs lines.
// cancelAt: the consumer with this index cancels the request context while it is being served (and, if it fails, returns
// the context's error): every other consumer must still be invoked ("even if an earlier one failed"); -1 = never.
// seed selects the payload; sites[2*i] / sites[2*i+1] are the places where consumer i writes during / after its call.
// rounds > 1: the SAME fan-out consumer object is used for further payloads (other content, the other input mode): nothing
// may be carried over from one Consume call to the next.
func runFanCase(out *vOut, ad sigAdapter, caps, fail, syncw []bool, inputRO bool, undecl int, cancelAt int, seed uint64, sites []int, rounds ...int) {
	var (
		ctx     context.Context
		cancel  context.CancelFunc
		sent    []byte
		origPtr uintptr
		clones  map[uintptr]int
		held    []any
		calls   int
	)
	mode := 0
	if len(rounds) > 1 {
		mode = rounds[1]
	}
	consume, mutates := ad.build(caps, func(i int, d any) error {
		if i < 0 {
			out.Linef("viol sig=C06/fanout/foreign-consumer-invoked signal=%s (the fan-out kept using the caller's slice)", ad.name)
			return nil
		}
		calls++
		held[i] = d
		p := ptrOf(d)
		obj := "o"
		if p != origPtr {
			k, ok := clones[p]
			if !ok {
				k = len(clones)
				clones[p] = k
			}
			obj = fmt.Sprintf("c%d", k)
		}
		eq := bytes.Equal(ad.marshal(d), sent)
		panicked := false
		if (caps[i] && syncw[i]) || i == undecl {
			panicked = tryMutate(ad, d, sites[2*i], fmt.Sprintf("w%d", i))
		}
		out.Linef("obs call %d %s ro=%d eq=%d panic=%d", i, obj, vB(ad.isRO(d)), vB(eq), vB(panicked))
		// direct oracles
		if !eq {
			out.Linef("viol sig=C06/fanout/content-differs-at-call consumer=%d signal=%s", i, ad.name)
		}
		if i == cancelAt {
			cancel()
			if fail[i] {
				return ctx.Err()
			}
		}
		if fail[i] {
			return errors.New("fail")
		}
		return nil
	}, mode)
	for _, v := range c06BuildViol {
		out.Linef("viol %s signal=%s", v, ad.name)
	}
	c06BuildViol = nil
	nRounds := 1
	if len(rounds) > 0 {
		nRounds = rounds[0]
	}
	for round := 0; round < nRounds; round++ {
		if round > 0 {
			inputRO = !inputRO
			seed += 7919
		}
		runFanRound(out, ad, caps, fail, syncw, inputRO, undecl, cancelAt, seed, sites, round, consume, mutates,
			func(c context.Context, cf context.CancelFunc, s []byte, o uintptr) {
				ctx, cancel, sent, origPtr = c, cf, s, o
				clones, held, calls = map[uintptr]int{}, make([]any, len(caps)), 0
			}, func() ([]any, int) { return held, calls })
	}
}

func runFanRound(out *vOut, ad sigAdapter, caps, fail, syncw []bool, inputRO bool, undecl int, cancelAt int, seed uint64, sites []int, round int,
	consume func(context.Context, any) error, mutates bool,
	arm func(context.Context, context.CancelFunc, []byte, uintptr), state func() ([]any, int)) {
	out.Linef("op fan sig=%s caps=%s ro=%d fail=%s syncw=%s undecl=%d cancel=%d round=%d", ad.name, bits(caps), vB(inputRO), bits(fail), bits(syncw), undecl, cancelAt, round)
	ctx, cancel := context.WithCancel(context.Background())
	defer cancel()
	data := ad.newData(seed)
	sent := ad.marshal(data)
	if !bytes.Equal(ad.marshal(ad.unmarshal(sent)), sent) {
		panic("harness: payload is not stable under unmarshal+marshal")
	}
	if inputRO {
		ad.markRO(data)
	}
	arm(ctx, cancel, sent, ptrOf(data))
	out.Linef("obs cap %d", vB(mutates))
	err := consume(ctx, data)
	held, calls := state()
	out.Linef("obs err %d", len(multierr.Errors(err)))
	nfail := 0
	for _, f := range fail {
		if f {
			nfail++
		}
	}
	if calls != len(caps) {
		out.Linef("viol sig=C06/fanout/consumer-not-invoked calls=%d consumers=%d signal=%s", calls, len(caps), ad.name)
	}
	if len(multierr.Errors(err)) != nfail {
		out.Linef("viol sig=C06/fanout/error-not-aggregated got=%d want=%d signal=%s", len(multierr.Errors(err)), nfail, ad.name)
	}
	// asynchronous writes after everyone returned: every declared mutator writes again
	for i, m := range caps {
		if m && held[i] != nil {
			tryMutate(ad, held[i], sites[2*i+1], fmt.Sprintf("a%d", i))
		}
	}
	// what everyone holds now
	for i, m := range caps {
		if held[i] == nil {
			out.Linef("obs after %d missing", i)
			continue
		}
		if m {
			// a mutating consumer's object must hold exactly what was sent plus this consumer's OWN writes: replay them on a
			// private copy decoded from the sent bytes
			want := ad.unmarshal(sent)
			if syncw[i] {
				ad.mutate(want, sites[2*i], fmt.Sprintf("w%d", i))
			}
			ad.mutate(want, sites[2*i+1], fmt.Sprintf("a%d", i))
			excl := bytes.Equal(ad.marshal(held[i]), ad.marshal(want))
			out.Linef("obs after %d excl=%d", i, vB(excl))
			if !excl {
				out.Linef("viol sig=C06/fanout/mutator-object-not-exclusive consumer=%d sites=%d,%d signal=%s", i, sites[2*i], sites[2*i+1], ad.name)
			}
		} else {
			eq := bytes.Equal(ad.marshal(held[i]), sent)
			out.Linef("obs after %d eq=%d", i, vB(eq))
			if !eq && i != undecl {
				out.Linef("viol sig=C06/fanout/readonly-consumer-sees-foreign-change consumer=%d signal=%s", i, ad.name)
			}
		}
	}
	// sharing must imply read-only: count non-mutating holders of one object that is still mutable
	holders := map[uintptr]int{}
	for i, m := range caps {
		if !m && held[i] != nil {
			holders[ptrOf(held[i])]++
		}
	}
	for i, m := range caps {
		if !m && held[i] != nil && holders[ptrOf(held[i])] > 1 && !ad.isRO(held[i]) {
			out.Linef("viol sig=C06/fanout/shared-not-readonly consumer=%d signal=%s", i, ad.name)
			break
		}
	}
}

func TestVerifC06Fanout(t *testing.T) {
	out := vOpen(t)
	defer out.Close()
	out.Linef("model c06-fan 1")
	ads := adapters()
	n := vN(400)
	for _, c := range vCases(n) {
		rnd := vRand(c)
		k := 1 + rnd.IntN(7)
		if c%16 == 7 {
			// wide fan-outs (8..40 consumers): beyond the exhaustive scope and the usual sizes
			k = 8 + (c/16)%33
		}
		caps, fail, syncw := make([]bool, k), make([]bool, k), make([]bool, k)
		mixed := [2]bool{}
		for i := range caps {
			caps[i] = rnd.IntN(2) == 0
			fail[i] = rnd.IntN(4) == 0
			syncw[i] = rnd.IntN(2) == 0
			mixed[vB(caps[i])] = true
		}
		inputRO := rnd.IntN(3) == 0
		undecl := -1
		if rnd.IntN(3) == 0 {
			var ros []int
			for i, m := range caps {
				if !m {
					ros = append(ros, i)
				}
			}
			if len(ros) > 0 {
				undecl = ros[rnd.IntN(len(ros))]
			}
		}
		out.Linef("case %d", c)
		cancelAt := -1
		if rnd.IntN(3) == 0 {
			cancelAt = rnd.IntN(k)
		}
		seed := rnd.Uint64()
		sites := make([]int, 2*k)
		for i := range sites {
			sites[i] = rnd.IntN(nSites)
		}
		for _, ad := range ads {
			switch {
			case c%4 == 1:
				// the same fan-out object for 2-3 payloads; every other time built from a slice the caller keeps using
				runFanCase(out, ad, caps, fail, syncw, inputRO, undecl, cancelAt, seed, sites, 2+c%2, (c/4)%3)
			case c%4 == 3:
				runFanCase(out, ad, caps, fail, syncw, inputRO, undecl, cancelAt, seed, sites, 1, 1+(c/4)%2)
			default:
				runFanCase(out, ad, caps, fail, syncw, inputRO, undecl, cancelAt, seed, sites)
			}
		}
		if c%4 == 1 {
			out.Linef("stat reused_fanout 1")
		}
		if c%4 == 3 || (c%4 == 1 && (c/4)%3 > 0) {
			out.Linef("stat callers_slice_reused 1")
		}
		out.Linef("stat site %d", sites[0])
		if mixed[0] && mixed[1] {
			out.Linef("nt")
		}
		out.Linef("stat consumers %d", k)
		out.Linef("stat undeclared %d", vB(undecl >= 0))
		out.Linef("end")
		out.Flush()
	}
	// exhaustive small scope: every capability vector of length 1..maxLen x read-only/mutable input
	// x every position of one undeclared writer (or none), all four signals
	maxLen := 5
	if vThorough() {
		maxLen = 8
	}
	c := 1000000
	for k := 1; k <= maxLen; k++ {
		for mask := 0; mask < 1<<k; mask++ {
			caps := make([]bool, k)
			for i := range caps {
				caps[i] = mask&(1<<i) != 0
			}
			for _, inputRO := range []bool{false, true} {
				for undecl := -1; undecl < k; undecl++ {
					if undecl >= 0 && caps[undecl] {
						continue
					}
					out.Linef("case %d", c)
					c++
					none := make([]bool, k)
					all := make([]bool, k)
					for i := range all {
						all[i] = true
					}
					sites := make([]int, 2*k)
					for i := range sites {
						sites[i] = (c + 5*i) % nSites
					}
					for _, ad := range ads {
						// in the exhaustive scope the first consumer in the slice cancels the context and fails
						first := append([]bool{}, none...)
						first[0] = true
						runFanCase(out, ad, caps, first, all, inputRO, undecl, 0, uint64(c), sites, 1, c%3)
					}
					if mask != 0 && mask != 1<<k-1 {
						out.Linef("nt")
					}
					out.Linef("stat exhaustive 1")
					out.Linef("end")
				}
			}
		}
		out.Flush()
	}
}
