//go:build verif

package fanoutconsumer

import (
	"bytes"
	"context"
	"errors"
	"fmt"
	"reflect"
	"sort"
	"strings"
	"testing"

	"go.uber.org/multierr"

	"go.opentelemetry.io/collector/consumer"
	"go.opentelemetry.io/collector/consumer/xconsumer"
	"go.opentelemetry.io/collector/pdata/pcommon"
	"go.opentelemetry.io/collector/pdata/plog"
	"go.opentelemetry.io/collector/pdata/pmetric"
	"go.opentelemetry.io/collector/pdata/pprofile"
	"go.opentelemetry.io/collector/pdata/ptrace"
)

// sigAdapter hides the four signal types behind `any` payloads.
type sigAdapter struct {
	name    string
	newData func() any
	marshal func(any) []byte
	attrs   func(any) pcommon.Map // resource attributes of the first resource (where tags are written)
	markRO  func(any)
	isRO    func(any) bool
	// build a fan-out over consumers with the given capabilities; cb is invoked for every call
	build func(caps []bool, cb func(i int, d any) error) (consume func(context.Context, any) error, mutates bool)
}

func ptrOf(d any) uintptr { return reflect.ValueOf(d).Field(0).Pointer() }

func adapters() []sigAdapter {
	return []sigAdapter{
		{
			name: "logs",
			newData: func() any {
				ld := plog.NewLogs()
				rl := ld.ResourceLogs().AppendEmpty()
				rl.Resource().Attributes().PutStr("k", "v")
				rl.ScopeLogs().AppendEmpty().LogRecords().AppendEmpty().Body().SetStr("b")
				return ld
			},
			marshal: func(d any) []byte { b, _ := (&plog.ProtoMarshaler{}).MarshalLogs(d.(plog.Logs)); return b },
			attrs:   func(d any) pcommon.Map { return d.(plog.Logs).ResourceLogs().At(0).Resource().Attributes() },
			markRO:  func(d any) { d.(plog.Logs).MarkReadOnly() },
			isRO:    func(d any) bool { return d.(plog.Logs).IsReadOnly() },
			build: func(caps []bool, cb func(int, any) error) (func(context.Context, any) error, bool) {
				var cs []consumer.Logs
				for i, m := range caps {
					i := i
					c, _ := consumer.NewLogs(func(_ context.Context, ld plog.Logs) error { return cb(i, ld) },
						consumer.WithCapabilities(consumer.Capabilities{MutatesData: m}))
					cs = append(cs, c)
				}
				f := NewLogs(cs)
				return func(ctx context.Context, d any) error { return f.ConsumeLogs(ctx, d.(plog.Logs)) }, f.Capabilities().MutatesData
			},
		},
		{
			name: "metrics",
			newData: func() any {
				md := pmetric.NewMetrics()
				rm := md.ResourceMetrics().AppendEmpty()
				rm.Resource().Attributes().PutStr("k", "v")
				rm.ScopeMetrics().AppendEmpty().Metrics().AppendEmpty().SetEmptyGauge().DataPoints().AppendEmpty().SetIntValue(1)
				return md
			},
			marshal: func(d any) []byte { b, _ := (&pmetric.ProtoMarshaler{}).MarshalMetrics(d.(pmetric.Metrics)); return b },
			attrs:   func(d any) pcommon.Map { return d.(pmetric.Metrics).ResourceMetrics().At(0).Resource().Attributes() },
			markRO:  func(d any) { d.(pmetric.Metrics).MarkReadOnly() },
			isRO:    func(d any) bool { return d.(pmetric.Metrics).IsReadOnly() },
			build: func(caps []bool, cb func(int, any) error) (func(context.Context, any) error, bool) {
				var cs []consumer.Metrics
				for i, m := range caps {
					i := i
					c, _ := consumer.NewMetrics(func(_ context.Context, md pmetric.Metrics) error { return cb(i, md) },
						consumer.WithCapabilities(consumer.Capabilities{MutatesData: m}))
					cs = append(cs, c)
				}
				f := NewMetrics(cs)
				return func(ctx context.Context, d any) error { return f.ConsumeMetrics(ctx, d.(pmetric.Metrics)) }, f.Capabilities().MutatesData
			},
		},
		{
			name: "traces",
			newData: func() any {
				td := ptrace.NewTraces()
				rs := td.ResourceSpans().AppendEmpty()
				rs.Resource().Attributes().PutStr("k", "v")
				rs.ScopeSpans().AppendEmpty().Spans().AppendEmpty().SetName("s")
				return td
			},
			marshal: func(d any) []byte { b, _ := (&ptrace.ProtoMarshaler{}).MarshalTraces(d.(ptrace.Traces)); return b },
			attrs:   func(d any) pcommon.Map { return d.(ptrace.Traces).ResourceSpans().At(0).Resource().Attributes() },
			markRO:  func(d any) { d.(ptrace.Traces).MarkReadOnly() },
			isRO:    func(d any) bool { return d.(ptrace.Traces).IsReadOnly() },
			build: func(caps []bool, cb func(int, any) error) (func(context.Context, any) error, bool) {
				var cs []consumer.Traces
				for i, m := range caps {
					i := i
					c, _ := consumer.NewTraces(func(_ context.Context, td ptrace.Traces) error { return cb(i, td) },
						consumer.WithCapabilities(consumer.Capabilities{MutatesData: m}))
					cs = append(cs, c)
				}
				f := NewTraces(cs)
				return func(ctx context.Context, d any) error { return f.ConsumeTraces(ctx, d.(ptrace.Traces)) }, f.Capabilities().MutatesData
			},
		},
		{
			name: "profiles",
			newData: func() any {
				pd := pprofile.NewProfiles()
				rp := pd.ResourceProfiles().AppendEmpty()
				rp.Resource().Attributes().PutStr("k", "v")
				rp.ScopeProfiles().AppendEmpty().Profiles().AppendEmpty().Sample().AppendEmpty()
				return pd
			},
			marshal: func(d any) []byte { b, _ := (&pprofile.ProtoMarshaler{}).MarshalProfiles(d.(pprofile.Profiles)); return b },
			attrs:   func(d any) pcommon.Map { return d.(pprofile.Profiles).ResourceProfiles().At(0).Resource().Attributes() },
			markRO:  func(d any) { d.(pprofile.Profiles).MarkReadOnly() },
			isRO:    func(d any) bool { return d.(pprofile.Profiles).IsReadOnly() },
			build: func(caps []bool, cb func(int, any) error) (func(context.Context, any) error, bool) {
				var cs []xconsumer.Profiles
				for i, m := range caps {
					i := i
					c, _ := xconsumer.NewProfiles(func(_ context.Context, pd pprofile.Profiles) error { return cb(i, pd) },
						consumer.WithCapabilities(consumer.Capabilities{MutatesData: m}))
					cs = append(cs, c)
				}
				f := NewProfiles(cs)
				return func(ctx context.Context, d any) error { return f.ConsumeProfiles(ctx, d.(pprofile.Profiles)) }, f.Capabilities().MutatesData
			},
		},
	}
}

func bits(bs []bool) string {
	var sb strings.Builder
	for _, b := range bs {
		if b {
			sb.WriteByte('1')
		} else {
			sb.WriteByte('0')
		}
	}
	if sb.Len() == 0 {
		return "-"
	}
	return sb.String()
}

// tryWrite writes a tag through the public API; reports whether it panicked.
func tryWrite(m pcommon.Map, tag string) (panicked bool) {
	defer func() {
		if recover() != nil {
			panicked = true
		}
	}()
	m.PutStr(tag, "1")
	return false
}

func tagsOf(m pcommon.Map) string {
	var ks []string
	m.Range(func(k string, _ pcommon.Value) bool {
		if k != "k" {
			ks = append(ks, k)
		}
		return true
	})
	sort.Strings(ks)
	return strings.Join(ks, ",")
}

// one fan-out run on the real code; writes op + obs lines.
// cancelAt: the consumer with this index cancels the request context while it is being served (and, if it fails, returns
// the context's error): every other consumer must still be invoked ("even if an earlier one failed"); -1 = never.
func runFanCase(out *vOut, ad sigAdapter, caps, fail, syncw []bool, inputRO bool, undecl int, cancelAt int) {
	out.Linef("op fan sig=%s caps=%s ro=%d fail=%s syncw=%s undecl=%d cancel=%d", ad.name, bits(caps), vB(inputRO), bits(fail), bits(syncw), undecl, cancelAt)
	ctx, cancel := context.WithCancel(context.Background())
	defer cancel()
	data := ad.newData()
	sent := ad.marshal(data)
	if inputRO {
		ad.markRO(data)
	}
	origPtr := ptrOf(data)
	clones := map[uintptr]int{}
	held := make([]any, len(caps))
	calls := 0
	consume, mutates := ad.build(caps, func(i int, d any) error {
		calls++
		held[i] = d
		p := ptrOf(d)
		obj := "o"
		if p != origPtr {
			k, ok := clones[p]
			if !ok {
				k = len(clones)
				clones[p] = k
			}
			obj = fmt.Sprintf("c%d", k)
		}
		eq := bytes.Equal(ad.marshal(d), sent)
		panicked := false
		if (caps[i] && syncw[i]) || i == undecl {
			panicked = tryWrite(ad.attrs(d), fmt.Sprintf("w%d", i))
		}
		out.Linef("obs call %d %s ro=%d eq=%d panic=%d", i, obj, vB(ad.isRO(d)), vB(eq), vB(panicked))
		// direct oracles
		if !eq {
			out.Linef("viol sig=C06/fanout/content-differs-at-call consumer=%d signal=%s", i, ad.name)
		}
		if i == cancelAt {
			cancel()
			if fail[i] {
				return ctx.Err()
			}
		}
		if fail[i] {
			return errors.New("fail")
		}
		return nil
	})
	out.Linef("obs cap %d", vB(mutates))
	err := consume(ctx, data)
	out.Linef("obs err %d", len(multierr.Errors(err)))
	nfail := 0
	for _, f := range fail {
		if f {
			nfail++
		}
	}
	if calls != len(caps) {
		out.Linef("viol sig=C06/fanout/consumer-not-invoked calls=%d consumers=%d signal=%s", calls, len(caps), ad.name)
	}
	if len(multierr.Errors(err)) != nfail {
		out.Linef("viol sig=C06/fanout/error-not-aggregated got=%d want=%d signal=%s", len(multierr.Errors(err)), nfail, ad.name)
	}
	// asynchronous writes after everyone returned: every declared mutator writes again
	for i, m := range caps {
		if m && held[i] != nil {
			tryWrite(ad.attrs(held[i]), fmt.Sprintf("a%d", i))
		}
	}
	// what everyone holds now
	for i, m := range caps {
		if held[i] == nil {
			out.Linef("obs after %d missing", i)
			continue
		}
		if m {
			want := fmt.Sprintf("a%d", i)
			if syncw[i] {
				want += fmt.Sprintf(",w%d", i)
			}
			got := tagsOf(ad.attrs(held[i]))
			out.Linef("obs after %d excl=%d", i, vB(got == want))
			if got != want {
				out.Linef("viol sig=C06/fanout/mutator-object-not-exclusive consumer=%d tags=%s signal=%s", i, got, ad.name)
			}
		} else {
			eq := bytes.Equal(ad.marshal(held[i]), sent)
			out.Linef("obs after %d eq=%d", i, vB(eq))
			if !eq && i != undecl {
				out.Linef("viol sig=C06/fanout/readonly-consumer-sees-foreign-change consumer=%d tags=%s signal=%s", i, tagsOf(ad.attrs(held[i])), ad.name)
			}
		}
	}
	// sharing must imply read-only: count non-mutating holders of one object that is still mutable
	holders := map[uintptr]int{}
	for i, m := range caps {
		if !m && held[i] != nil {
			holders[ptrOf(held[i])]++
		}
	}
	for i, m := range caps {
		if !m && held[i] != nil && holders[ptrOf(held[i])] > 1 && !ad.isRO(held[i]) {
			out.Linef("viol sig=C06/fanout/shared-not-readonly consumer=%d signal=%s", i, ad.name)
			break
		}
	}
}

func TestVerifC06Fanout(t *testing.T) {
	out := vOpen(t)
	defer out.Close()
	out.Linef("model c06-fan 1")
	ads := adapters()
	n := vN(400)
	for _, c := range vCases(n) {
		rnd := vRand(c)
		k := 1 + rnd.IntN(7)
		caps, fail, syncw := make([]bool, k), make([]bool, k), make([]bool, k)
		mixed := [2]bool{}
		for i := range caps {
			caps[i] = rnd.IntN(2) == 0
			fail[i] = rnd.IntN(4) == 0
			syncw[i] = rnd.IntN(2) == 0
			mixed[vB(caps[i])] = true
		}
		inputRO := rnd.IntN(3) == 0
		undecl := -1
		if rnd.IntN(3) == 0 {
			var ros []int
			for i, m := range caps {
				if !m {
					ros = append(ros, i)
				}
			}
			if len(ros) > 0 {
				undecl = ros[rnd.IntN(len(ros))]
			}
		}
		out.Linef("case %d", c)
		cancelAt := -1
		if rnd.IntN(3) == 0 {
			cancelAt = rnd.IntN(k)
		}
		for _, ad := range ads {
			runFanCase(out, ad, caps, fail, syncw, inputRO, undecl, cancelAt)
		}
		if mixed[0] && mixed[1] {
			out.Linef("nt")
		}
		out.Linef("stat consumers %d", k)
		out.Linef("stat undeclared %d", vB(undecl >= 0))
		out.Linef("end")
		out.Flush()
	}
	// exhaustive small scope: every capability vector of length 1..maxLen x read-only/mutable input
	// x every position of one undeclared writer (or none), all four signals
	maxLen := 5
	if vThorough() {
		maxLen = 8
	}
	c := 1000000
	for k := 1; k <= maxLen; k++ {
		for mask := 0; mask < 1<<k; mask++ {
			caps := make([]bool, k)
			for i := range caps {
				caps[i] = mask&(1<<i) != 0
			}
			for _, inputRO := range []bool{false, true} {
				for undecl := -1; undecl < k; undecl++ {
					if undecl >= 0 && caps[undecl] {
						continue
					}
					out.Linef("case %d", c)
					c++
					none := make([]bool, k)
					all := make([]bool, k)
					for i := range all {
						all[i] = true
					}
					for _, ad := range ads {
						// in the exhaustive scope the first consumer in the slice cancels the context and fails
						first := append([]bool{}, none...)
						first[0] = true
						runFanCase(out, ad, caps, first, all, inputRO, undecl, 0)
					}
					if mask != 0 && mask != 1<<k-1 {
						out.Linef("nt")
					}
					out.Linef("stat exhaustive 1")
					out.Linef("end")
				}
			}
		}
		out.Flush()
	}
}
