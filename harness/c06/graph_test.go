//go:build verif

package graph

import (
	"context"
	"fmt"
	"sort"
	"strings"
	"sync"
	"testing"

	"go.opentelemetry.io/collector/component"
	"go.opentelemetry.io/collector/component/componenttest"
	"go.opentelemetry.io/collector/connector"
	"go.opentelemetry.io/collector/consumer"
	"go.opentelemetry.io/collector/exporter"
	"go.opentelemetry.io/collector/pdata/plog"
	"go.opentelemetry.io/collector/pipeline"
	"go.opentelemetry.io/collector/processor"
	"go.opentelemetry.io/collector/receiver"
	"go.opentelemetry.io/collector/service/internal/builders"
	"go.opentelemetry.io/collector/service/pipelines"
)

// c06World: instrumented components. Names encode the declared capability: a trailing "m" means MutatesData.
type c06World struct {
	mu       sync.Mutex
	recvNext map[string]consumer.Logs
	atCall   map[string][]string // exporter name -> trails seen at call time
	held     map[string][]plog.Logs
}

func c06Mut(name string) bool { return strings.HasSuffix(name, "m") }

func c06Trail(ld plog.Logs) string {
	v, _ := ld.ResourceLogs().At(0).Resource().Attributes().Get("trail")
	return v.Str()
}

var c06Panics []string

// a declared mutator writes; a panic here means it was handed shared (read-only) data
func c06Append(ld plog.Logs, tag string) {
	defer func() {
		if r := recover(); r != nil {
			c06Panics = append(c06Panics, tag)
		}
	}()
	a := ld.ResourceLogs().At(0).Resource().Attributes()
	v, _ := a.Get("trail")
	a.PutStr("trail", v.Str()+">"+tag)
}

type c06Comp struct{}

func (c06Comp) Start(context.Context, component.Host) error { return nil }
func (c06Comp) Shutdown(context.Context) error              { return nil }

type c06Proc struct {
	c06Comp
	name string
	next consumer.Logs
}

func (p *c06Proc) Capabilities() consumer.Capabilities { return consumer.Capabilities{MutatesData: c06Mut(p.name)} }
func (p *c06Proc) ConsumeLogs(ctx context.Context, ld plog.Logs) error {
	if c06Mut(p.name) {
		c06Append(ld, p.name)
	}
	return p.next.ConsumeLogs(ctx, ld)
}

type c06Exp struct {
	c06Comp
	w    *c06World
	name string
}

func (e *c06Exp) Capabilities() consumer.Capabilities { return consumer.Capabilities{MutatesData: c06Mut(e.name)} }
func (e *c06Exp) ConsumeLogs(_ context.Context, ld plog.Logs) error {
	e.w.mu.Lock()
	e.w.atCall[e.name] = append(e.w.atCall[e.name], c06Trail(ld))
	e.w.held[e.name] = append(e.w.held[e.name], ld)
	e.w.mu.Unlock()
	if c06Mut(e.name) {
		c06Append(ld, e.name)
	}
	return nil
}

type c06Conn struct {
	c06Comp
	name string
	next consumer.Logs
}

func (c *c06Conn) Capabilities() consumer.Capabilities { return consumer.Capabilities{MutatesData: c06Mut(c.name)} }
func (c *c06Conn) ConsumeLogs(ctx context.Context, ld plog.Logs) error {
	if c06Mut(c.name) {
		c06Append(ld, c.name)
	}
	return c.next.ConsumeLogs(ctx, ld) // passes the object it received straight on
}

var (
	c06R = component.MustNewType("r")
	c06P = component.MustNewType("p")
	c06E = component.MustNewType("e")
	c06C = component.MustNewType("c")
)

type c06Pipe struct {
	name  string
	recv  []string // receiver or connector names
	procs []string
	exps  []string // exporter names and connector names
}

func c06Bits(names []string) string {
	if len(names) == 0 {
		return "-"
	}
	var sb strings.Builder
	for _, n := range names {
		if c06Mut(n) {
			sb.WriteByte('1')
		} else {
			sb.WriteByte('0')
		}
	}
	return sb.String()
}

// TestVerifC06Graph: two-level fan-out on graphs built by the real graph.Build.
//   (1) exact differential: MutatesData advertised by every pipeline's capabilities node vs. the model
//   (2) direct oracle: each exporter sees exactly the tags of the mutating stages on its own path,
//       at call time and after everything (including its siblings) has finished.
func TestVerifC06Graph(t *testing.T) {
	out := vOpen(t)
	defer out.Close()
	out.Linef("model c06-graph 1")
	n := vN(300)
	for _, c := range vCases(n) {
		rnd := vRand(c)
		out.Linef("case %d", c)
		nameSeq := 0
		fresh := func(prefix string, mut bool) string {
			nameSeq++
			s := fmt.Sprintf("%s%d", prefix, nameSeq)
			if mut {
				s += "m"
			}
			return s
		}
		pmut := func() bool { return rnd.IntN(3) == 0 }
		var pipes []*c06Pipe
		var connNames, expNames, procNames []string
		mkPipe := func(recv []string) *c06Pipe {
			p := &c06Pipe{name: fmt.Sprintf("pl%d", len(pipes)), recv: recv}
			for k := rnd.IntN(4); k > 0; k-- {
				pn := fresh("p", pmut())
				p.procs = append(p.procs, pn)
				procNames = append(procNames, pn)
			}
			for k := 1 + rnd.IntN(3); k > 0; k-- {
				en := fresh("e", rnd.IntN(4) == 0)
				p.exps = append(p.exps, en)
				expNames = append(expNames, en)
			}
			pipes = append(pipes, p)
			return p
		}
		top := 1 + rnd.IntN(4)
		for i := 0; i < top; i++ {
			p := mkPipe([]string{"r1"})
			if rnd.IntN(3) == 0 {
				cn := fresh("c", rnd.IntN(4) == 0)
				connNames = append(connNames, cn)
				if rnd.IntN(4) == 0 {
					expNames = expNames[:len(expNames)-len(p.exps)]
					p.exps = []string{cn} // connector as the only exporter
				} else {
					p.exps = append(p.exps, cn)
				}
				for k := 1 + rnd.IntN(2); k > 0; k-- {
					mkPipe([]string{cn})
				}
			}
		}
		w := &c06World{recvNext: map[string]consumer.Logs{}, atCall: map[string][]string{}, held: map[string][]plog.Logs{}}
		rf := receiver.NewFactory(c06R, func() component.Config { return &struct{}{} }, receiver.WithLogs(func(_ context.Context, s receiver.Settings, _ component.Config, next consumer.Logs) (receiver.Logs, error) {
			w.recvNext[s.ID.Name()] = next
			return c06Comp{}, nil
		}, component.StabilityLevelStable))
		pf := processor.NewFactory(c06P, func() component.Config { return &struct{}{} }, processor.WithLogs(func(_ context.Context, s processor.Settings, _ component.Config, next consumer.Logs) (processor.Logs, error) {
			return &c06Proc{name: s.ID.Name(), next: next}, nil
		}, component.StabilityLevelStable))
		ef := exporter.NewFactory(c06E, func() component.Config { return &struct{}{} }, exporter.WithLogs(func(_ context.Context, s exporter.Settings, _ component.Config) (exporter.Logs, error) {
			return &c06Exp{w: w, name: s.ID.Name()}, nil
		}, component.StabilityLevelStable))
		cf := connector.NewFactory(c06C, func() component.Config { return &struct{}{} }, connector.WithLogsToLogs(func(_ context.Context, s connector.Settings, _ component.Config, next consumer.Logs) (connector.Logs, error) {
			return &c06Conn{name: s.ID.Name(), next: next}, nil
		}, component.StabilityLevelStable))
		mk := func(ty component.Type, names []string) map[component.ID]component.Config {
			m := map[component.ID]component.Config{}
			for _, n := range names {
				m[component.MustNewIDWithName(ty.String(), n)] = &struct{}{}
			}
			return m
		}
		toIDs := func(names []string) []component.ID {
			var o []component.ID
			for _, n := range names {
				ty := map[byte]component.Type{'r': c06R, 'p': c06P, 'e': c06E, 'c': c06C}[n[0]]
				o = append(o, component.MustNewIDWithName(ty.String(), n))
			}
			return o
		}
		pcs := pipelines.Config{}
		for _, p := range pipes {
			pcs[pipeline.NewIDWithName(pipeline.SignalLogs, p.name)] = &pipelines.PipelineConfig{Receivers: toIDs(p.recv), Processors: toIDs(p.procs), Exporters: toIDs(p.exps)}
		}
		set := Settings{
			Telemetry: componenttest.NewNopTelemetrySettings(), BuildInfo: component.NewDefaultBuildInfo(),
			ReceiverBuilder:  builders.NewReceiver(mk(c06R, []string{"r1"}), map[component.Type]receiver.Factory{c06R: rf}),
			ProcessorBuilder: builders.NewProcessor(mk(c06P, procNames), map[component.Type]processor.Factory{c06P: pf}),
			ExporterBuilder:  builders.NewExporter(mk(c06E, expNames), map[component.Type]exporter.Factory{c06E: ef}),
			ConnectorBuilder: builders.NewConnector(mk(c06C, connNames), map[component.Type]connector.Factory{c06C: cf}),
			PipelineConfigs:  pcs,
		}
		g, err := Build(context.Background(), set)
		if err != nil {
			out.Linef("viol sig=C06/graph/build-failed %s", vHex(err.Error()))
			out.Linef("end")
			continue
		}
		// (1) advertised capability per pipeline, leaves first so the model knows the next pipelines of a connector
		byConn := map[string][]*c06Pipe{}
		for _, p := range pipes {
			if p.recv[0][0] == 'c' {
				byConn[p.recv[0]] = append(byConn[p.recv[0]], p)
			}
		}
		order := append([]*c06Pipe{}, pipes...)
		sort.SliceStable(order, func(i, j int) bool { return (order[i].recv[0][0] == 'c') && (order[j].recv[0][0] != 'c') })
		mixed := false
		for _, p := range order {
			var plain []string
			conns := "-"
			for _, e := range p.exps {
				if e[0] == 'c' {
					var nx []string
					for _, q := range byConn[e] {
						nx = append(nx, q.name)
					}
					conns = fmt.Sprintf("%d:%s", vB(c06Mut(e)), strings.Join(nx, ","))
				} else {
					plain = append(plain, e)
				}
			}
			out.Linef("op pipe id=%s procs=%s exps=%s conn=%s", p.name, c06Bits(p.procs), c06Bits(plain), conns)
			capNode := g.pipelines[pipeline.NewIDWithName(pipeline.SignalLogs, p.name)].capabilitiesNode
			out.Linef("obs cap %d", vB(capNode.Capabilities().MutatesData))
			bs := c06Bits(append(append([]string{}, p.procs...), plain...))
			if strings.Contains(bs, "0") && strings.Contains(bs, "1") {
				mixed = true
			}
		}
		// (2) inject one payload at the receiver
		ld := plog.NewLogs()
		ld.ResourceLogs().AppendEmpty().Resource().Attributes().PutStr("trail", "")
		c06Panics = nil
		if err := w.recvNext["r1"].ConsumeLogs(context.Background(), ld); err != nil {
			out.Linef("viol sig=C06/graph/consume-error %s", vHex(err.Error()))
		}
		for _, tag := range c06Panics {
			out.Linef("viol sig=C06/graph/declared-mutator-got-readonly-data component=%s", tag)
		}
		var pathOf func(p *c06Pipe, prefix string)
		want := map[string]string{}
		pathOf = func(p *c06Pipe, prefix string) {
			tr := prefix
			for _, pr := range p.procs {
				if c06Mut(pr) {
					tr += ">" + pr
				}
			}
			for _, e := range p.exps {
				if e[0] == 'c' {
					t2 := tr
					if c06Mut(e) {
						t2 += ">" + e
					}
					for _, q := range byConn[e] {
						pathOf(q, t2)
					}
				} else {
					want[e] = tr
				}
			}
		}
		for _, p := range pipes {
			if p.recv[0] == "r1" {
				pathOf(p, "")
			}
		}
		for _, e := range expNames {
			seen := w.atCall[e]
			if len(seen) != 1 {
				out.Linef("viol sig=C06/graph/exporter-call-count exporter=%s calls=%d", e, len(seen))
				continue
			}
			if seen[0] != want[e] {
				out.Linef("viol sig=C06/graph/exporter-sees-foreign-mutation-at-call exporter=%s saw=%s want=%s", e, vHex(seen[0]), vHex(want[e]))
			}
			after := c06Trail(w.held[e][0])
			wantAfter := want[e]
			if c06Mut(e) {
				wantAfter += ">" + e
			}
			if after != wantAfter {
				out.Linef("viol sig=C06/graph/exporter-sees-foreign-mutation-later exporter=%s saw=%s want=%s", e, vHex(after), vHex(wantAfter))
			}
		}
		if mixed && len(pipes) > 1 {
			out.Linef("nt")
		}
		out.Linef("stat pipelines %d", len(pipes))
		out.Linef("stat connectors %d", len(connNames))
		out.Linef("end")
		out.Flush()
	}
}
