//go:build verif

package graph

import (
	"context"
	"fmt"
	"reflect"
	"sort"
	"strings"
	"sync"
	"testing"

	"go.uber.org/multierr"

	"go.opentelemetry.io/collector/component"
	"go.opentelemetry.io/collector/component/componenttest"
	"go.opentelemetry.io/collector/connector"
	"go.opentelemetry.io/collector/connector/xconnector"
	"go.opentelemetry.io/collector/consumer"
	"go.opentelemetry.io/collector/consumer/xconsumer"
	"go.opentelemetry.io/collector/exporter"
	"go.opentelemetry.io/collector/exporter/xexporter"
	"go.opentelemetry.io/collector/pdata/pcommon"
	"go.opentelemetry.io/collector/pdata/plog"
	"go.opentelemetry.io/collector/pdata/pmetric"
	"go.opentelemetry.io/collector/pdata/pprofile"
	"go.opentelemetry.io/collector/pdata/ptrace"
	"go.opentelemetry.io/collector/pipeline"
	"go.opentelemetry.io/collector/pipeline/xpipeline"
	"go.opentelemetry.io/collector/processor"
	"go.opentelemetry.io/collector/processor/xprocessor"
	"go.opentelemetry.io/collector/receiver"
	"go.opentelemetry.io/collector/receiver/xreceiver"
	"go.opentelemetry.io/collector/service/internal/builders"
	"go.opentelemetry.io/collector/service/pipelines"
)

// the four signals behind `any` payloads; the trail of mutating stages is kept in a resource attribute of resource 0
type c06Sig struct {
	name    string
	sig     pipeline.Signal
	newData func() any
	attrs   func(any) pcommon.Map
	isRO    func(any) bool
	markRO  func(any)
}

func c06Sigs() []c06Sig {
	return []c06Sig{
		{"logs", pipeline.SignalLogs,
			func() any {
				d := plog.NewLogs()
				d.ResourceLogs().AppendEmpty().Resource().Attributes().PutStr("trail", "")
				return d
			},
			func(d any) pcommon.Map { return d.(plog.Logs).ResourceLogs().At(0).Resource().Attributes() },
			func(d any) bool { return d.(plog.Logs).IsReadOnly() }, func(d any) { d.(plog.Logs).MarkReadOnly() }},
		{"metrics", pipeline.SignalMetrics,
			func() any {
				d := pmetric.NewMetrics()
				d.ResourceMetrics().AppendEmpty().Resource().Attributes().PutStr("trail", "")
				return d
			},
			func(d any) pcommon.Map { return d.(pmetric.Metrics).ResourceMetrics().At(0).Resource().Attributes() },
			func(d any) bool { return d.(pmetric.Metrics).IsReadOnly() }, func(d any) { d.(pmetric.Metrics).MarkReadOnly() }},
		{"traces", pipeline.SignalTraces,
			func() any {
				d := ptrace.NewTraces()
				d.ResourceSpans().AppendEmpty().Resource().Attributes().PutStr("trail", "")
				return d
			},
			func(d any) pcommon.Map { return d.(ptrace.Traces).ResourceSpans().At(0).Resource().Attributes() },
			func(d any) bool { return d.(ptrace.Traces).IsReadOnly() }, func(d any) { d.(ptrace.Traces).MarkReadOnly() }},
		{"profiles", xpipeline.SignalProfiles,
			func() any {
				d := pprofile.NewProfiles()
				d.ResourceProfiles().AppendEmpty().Resource().Attributes().PutStr("trail", "")
				return d
			},
			func(d any) pcommon.Map { return d.(pprofile.Profiles).ResourceProfiles().At(0).Resource().Attributes() },
			func(d any) bool { return d.(pprofile.Profiles).IsReadOnly() }, func(d any) { d.(pprofile.Profiles).MarkReadOnly() }},
	}
}

func c06Ptr(d any) uintptr { return reflect.ValueOf(d).Field(0).Pointer() }

// one object arriving at one consumer of one fan-out call
type c06Entry struct {
	who string // pipeline name (hop) or exporter / connector name (pfan)
	ptr uintptr
	ro  bool
}

// one fan-out call: a receiver or connector handing a payload to its pipelines ("hop"), or a pipeline handing it to its
// exporters and connectors ("pfan")
type c06Fan struct {
	id      string
	srcPtr  uintptr
	srcRO   bool
	entries []c06Entry
}

type c06Call struct {
	trail string
	data  any
	ro    bool // IsReadOnly() of what the exporter was handed, at its call
	inj   int  // which injected payload this call belongs to
}

// c06World: instrumented components. Names encode the declared capability: a trailing "m" means MutatesData.
type c06World struct {
	mu       sync.Mutex
	sg       c06Sig
	recvNext map[string]any
	calls    map[string][]c06Call // exporter name -> what it saw at call time + the object it holds
	fans     map[string]*c06Fan
	fanOrder []string
	seq      int
	inj      int
	injSeq   int
	sgB      c06Sig   // the OTHER signal of a cross-signal case (payloads created by the 'x' connectors)
	bySig    map[string]c06Sig
	subs     []c06Sub // payloads created by cross-signal connectors
	panics   []string
	failing  func(name string) bool // exporters that return an error (after looking at / writing to what they were handed)
}

// a payload created by a cross-signal connector: a new journey through the pipelines of the other signal
type c06Sub struct {
	x    string
	inj  int
	t0   string // the trail the new payload starts with
	errs int
}

// adapter of the payload's own signal (a cross-signal case has payloads of two signals)
func (w *c06World) of(d any) c06Sig {
	switch d.(type) {
	case plog.Logs:
		return w.bySig["logs"]
	case pmetric.Metrics:
		return w.bySig["metrics"]
	case ptrace.Traces:
		return w.bySig["traces"]
	default:
		return w.bySig["profiles"]
	}
}

type c06Key int

const (
	c06HopKey  c06Key = iota // id of the fan-out call source -> pipelines this payload travels in
	c06PfanKey               // id of the fan-out call pipeline -> exporters/connectors
)

func c06Mut(name string) bool { return strings.HasSuffix(name, "m") }

func (w *c06World) trail(d any) string {
	v, _ := w.of(d).attrs(d).Get("trail")
	return v.Str()
}

// a declared mutator writes; a panic here means it was handed shared (read-only) data
func (w *c06World) appendTag(d any, tag string) {
	defer func() {
		if r := recover(); r != nil {
			w.panics = append(w.panics, tag)
		}
	}()
	a := w.of(d).attrs(d)
	v, _ := a.Get("trail")
	a.PutStr("trail", v.Str()+">"+tag)
}

func (w *c06World) fan(id string, srcPtr uintptr, srcRO bool) {
	if _, ok := w.fans[id]; !ok {
		w.fans[id] = &c06Fan{id: id, srcPtr: srcPtr, srcRO: srcRO}
		w.fanOrder = append(w.fanOrder, id)
	}
}

func (w *c06World) enter(ctx context.Context, key c06Key, who string, d any) {
	id, _ := ctx.Value(key).(string)
	f := w.fans[id]
	if f == nil {
		return
	}
	f.entries = append(f.entries, c06Entry{who: who, ptr: c06Ptr(d), ro: w.of(d).isRO(d)})
}

type c06Comp struct{}

func (c06Comp) Start(context.Context, component.Host) error { return nil }
func (c06Comp) Shutdown(context.Context) error              { return nil }

// c06Node is every instrumented component; kind: 'q' probe processor (first in every pipeline, never mutates),
// 'p' processor, 'e' exporter, 'c' connector
type c06Node struct {
	c06Comp
	w    *c06World
	kind byte
	name string
	next any
}

func (n *c06Node) Capabilities() consumer.Capabilities {
	return consumer.Capabilities{MutatesData: c06Mut(n.name)}
}

func (n *c06Node) handle(ctx context.Context, d any, fwd func(context.Context) error) error {
	w := n.w
	switch n.kind {
	case 'q':
		// entry of a pipeline: one consumer of the source's fan-out call; opens the pipeline's own fan-out call
		w.enter(ctx, c06HopKey, n.name[1:], d)
		w.seq++
		id := fmt.Sprintf("pfan:%s#%d", n.name[1:], w.seq)
		w.fan(id, c06Ptr(d), w.of(d).isRO(d))
		return fwd(context.WithValue(ctx, c06PfanKey, id))
	case 'p':
		if c06Mut(n.name) {
			w.appendTag(d, n.name)
		}
		return fwd(ctx)
	case 'c':
		w.enter(ctx, c06PfanKey, n.name, d)
		if c06Mut(n.name) {
			w.appendTag(d, n.name)
		}
		w.seq++
		id := fmt.Sprintf("hop:%s#%d", n.name, w.seq)
		w.fan(id, c06Ptr(d), w.of(d).isRO(d))
		return fwd(context.WithValue(ctx, c06HopKey, id)) // passes the object it received straight on
	case 'x':
		// a cross-signal connector: for the pipeline that feeds it it is a plain consumer with its OWN declared capability
		// (connector.go exposes it unwrapped); what it emits is a NEW payload of the other signal that starts with the trail so far
		w.enter(ctx, c06PfanKey, n.name, d)
		w.calls[n.name] = append(w.calls[n.name], c06Call{trail: w.trail(d), data: d, ro: w.of(d).isRO(d), inj: w.inj})
		if c06Mut(n.name) {
			w.appendTag(d, n.name)
		}
		nd := w.sgB.newData()
		w.sgB.attrs(nd).PutStr("trail", w.trail(d))
		saved := w.inj
		w.injSeq++
		w.inj = w.injSeq
		sub := c06Sub{x: n.name, inj: w.inj, t0: w.trail(d)}
		w.seq++
		id := fmt.Sprintf("hop:%s#%d", n.name, w.seq)
		w.fan(id, c06Ptr(nd), false)
		err := c06InjectSig(w.sgB.name, n.next, context.WithValue(ctx, c06HopKey, id), nd)
		sub.errs = len(multierr.Errors(err))
		w.subs = append(w.subs, sub)
		w.inj = saved
		return err
	default:
		w.enter(ctx, c06PfanKey, n.name, d)
		w.calls[n.name] = append(w.calls[n.name], c06Call{trail: w.trail(d), data: d, ro: w.of(d).isRO(d), inj: w.inj})
		if c06Mut(n.name) {
			w.appendTag(d, n.name)
		}
		if w.failing != nil && w.failing(n.name) {
			return fmt.Errorf("fail:%s", n.name)
		}
		return nil
	}
}

func (n *c06Node) ConsumeLogs(ctx context.Context, d plog.Logs) error {
	return n.handle(ctx, d, func(ctx context.Context) error { return n.next.(consumer.Logs).ConsumeLogs(ctx, d) })
}

func (n *c06Node) ConsumeMetrics(ctx context.Context, d pmetric.Metrics) error {
	return n.handle(ctx, d, func(ctx context.Context) error { return n.next.(consumer.Metrics).ConsumeMetrics(ctx, d) })
}

func (n *c06Node) ConsumeTraces(ctx context.Context, d ptrace.Traces) error {
	return n.handle(ctx, d, func(ctx context.Context) error { return n.next.(consumer.Traces).ConsumeTraces(ctx, d) })
}

func (n *c06Node) ConsumeProfiles(ctx context.Context, d pprofile.Profiles) error {
	return n.handle(ctx, d, func(ctx context.Context) error { return n.next.(xconsumer.Profiles).ConsumeProfiles(ctx, d) })
}

var (
	c06R = component.MustNewType("r")
	c06P = component.MustNewType("p")
	c06E = component.MustNewType("e")
	c06C = component.MustNewType("c")
	c06X = component.MustNewType("x")
)

type c06Pipe struct {
	name  string
	sigB  bool     // a pipeline of the other signal (cross-signal cases)
	recv  []string // receiver and connector names
	procs []string // without the probe
	exps  []string // exporter names and connector names
}

func c06Bits(names []string) string {
	if len(names) == 0 {
		return "-"
	}
	var sb strings.Builder
	for _, n := range names {
		if c06Mut(n) {
			sb.WriteByte('1')
		} else {
			sb.WriteByte('0')
		}
	}
	return sb.String()
}

func c06BoolBits(bs []bool) string {
	if len(bs) == 0 {
		return "-"
	}
	var sb strings.Builder
	for _, b := range bs {
		sb.WriteByte("01"[vB(b)])
	}
	return sb.String()
}

// numeric id of a component name ("e12m" -> 12; names are unique per case through one counter)
func c06ID(name string) string {
	return strings.TrimSuffix(name[1:], "m")
}

// ">p3m>c7m" -> "3.7" ("-" when empty)
func c06TrailIDs(tr string) string {
	var ids []string
	for _, t := range strings.Split(tr, ">") {
		if t != "" {
			ids = append(ids, c06ID(t))
		}
	}
	if len(ids) == 0 {
		return "-"
	}
	return strings.Join(ids, ".")
}

func c06Factories(w *c06World) (receiver.Factory, processor.Factory, exporter.Factory, connector.Factory, connector.Factory) {
	cfg := func() component.Config { return &struct{}{} }
	st := component.StabilityLevelStable
	rf := xreceiver.NewFactory(c06R, cfg,
		xreceiver.WithLogs(func(_ context.Context, s receiver.Settings, _ component.Config, next consumer.Logs) (receiver.Logs, error) {
			w.recvNext[s.ID.Name()] = next
			return c06Comp{}, nil
		}, st),
		xreceiver.WithMetrics(func(_ context.Context, s receiver.Settings, _ component.Config, next consumer.Metrics) (receiver.Metrics, error) {
			w.recvNext[s.ID.Name()] = next
			return c06Comp{}, nil
		}, st),
		xreceiver.WithTraces(func(_ context.Context, s receiver.Settings, _ component.Config, next consumer.Traces) (receiver.Traces, error) {
			w.recvNext[s.ID.Name()] = next
			return c06Comp{}, nil
		}, st),
		xreceiver.WithProfiles(func(_ context.Context, s receiver.Settings, _ component.Config, next xconsumer.Profiles) (xreceiver.Profiles, error) {
			w.recvNext[s.ID.Name()] = next
			return c06Comp{}, nil
		}, st))
	proc := func(name string, next any) *c06Node {
		k := byte('p')
		if name[0] == 'q' {
			k = 'q'
		}
		return &c06Node{w: w, kind: k, name: name, next: next}
	}
	pf := xprocessor.NewFactory(c06P, cfg,
		xprocessor.WithLogs(func(_ context.Context, s processor.Settings, _ component.Config, next consumer.Logs) (processor.Logs, error) {
			return proc(s.ID.Name(), next), nil
		}, st),
		xprocessor.WithMetrics(func(_ context.Context, s processor.Settings, _ component.Config, next consumer.Metrics) (processor.Metrics, error) {
			return proc(s.ID.Name(), next), nil
		}, st),
		xprocessor.WithTraces(func(_ context.Context, s processor.Settings, _ component.Config, next consumer.Traces) (processor.Traces, error) {
			return proc(s.ID.Name(), next), nil
		}, st),
		xprocessor.WithProfiles(func(_ context.Context, s processor.Settings, _ component.Config, next xconsumer.Profiles) (xprocessor.Profiles, error) {
			return proc(s.ID.Name(), next), nil
		}, st))
	ef := xexporter.NewFactory(c06E, cfg,
		xexporter.WithLogs(func(_ context.Context, s exporter.Settings, _ component.Config) (exporter.Logs, error) {
			return &c06Node{w: w, kind: 'e', name: s.ID.Name()}, nil
		}, st),
		xexporter.WithMetrics(func(_ context.Context, s exporter.Settings, _ component.Config) (exporter.Metrics, error) {
			return &c06Node{w: w, kind: 'e', name: s.ID.Name()}, nil
		}, st),
		xexporter.WithTraces(func(_ context.Context, s exporter.Settings, _ component.Config) (exporter.Traces, error) {
			return &c06Node{w: w, kind: 'e', name: s.ID.Name()}, nil
		}, st),
		xexporter.WithProfiles(func(_ context.Context, s exporter.Settings, _ component.Config) (xexporter.Profiles, error) {
			return &c06Node{w: w, kind: 'e', name: s.ID.Name()}, nil
		}, st))
	cf := xconnector.NewFactory(c06C, cfg,
		xconnector.WithLogsToLogs(func(_ context.Context, s connector.Settings, _ component.Config, next consumer.Logs) (connector.Logs, error) {
			return &c06Node{w: w, kind: 'c', name: s.ID.Name(), next: next}, nil
		}, st),
		xconnector.WithMetricsToMetrics(func(_ context.Context, s connector.Settings, _ component.Config, next consumer.Metrics) (connector.Metrics, error) {
			return &c06Node{w: w, kind: 'c', name: s.ID.Name(), next: next}, nil
		}, st),
		xconnector.WithTracesToTraces(func(_ context.Context, s connector.Settings, _ component.Config, next consumer.Traces) (connector.Traces, error) {
			return &c06Node{w: w, kind: 'c', name: s.ID.Name(), next: next}, nil
		}, st),
		xconnector.WithProfilesToProfiles(func(_ context.Context, s connector.Settings, _ component.Config, next xconsumer.Profiles) (xconnector.Profiles, error) {
			return &c06Node{w: w, kind: 'c', name: s.ID.Name(), next: next}, nil
		}, st))
	xn := func(s connector.Settings, next any) *c06Node {
		return &c06Node{w: w, kind: 'x', name: s.ID.Name(), next: next}
	}
	// all twelve cross-signal pairs
	xf := xconnector.NewFactory(c06X, cfg,
		xconnector.WithLogsToMetrics(func(_ context.Context, s connector.Settings, _ component.Config, next consumer.Metrics) (connector.Logs, error) {
			return xn(s, next), nil
		}, st),
		xconnector.WithLogsToTraces(func(_ context.Context, s connector.Settings, _ component.Config, next consumer.Traces) (connector.Logs, error) {
			return xn(s, next), nil
		}, st),
		xconnector.WithLogsToProfiles(func(_ context.Context, s connector.Settings, _ component.Config, next xconsumer.Profiles) (connector.Logs, error) {
			return xn(s, next), nil
		}, st),
		xconnector.WithMetricsToLogs(func(_ context.Context, s connector.Settings, _ component.Config, next consumer.Logs) (connector.Metrics, error) {
			return xn(s, next), nil
		}, st),
		xconnector.WithMetricsToTraces(func(_ context.Context, s connector.Settings, _ component.Config, next consumer.Traces) (connector.Metrics, error) {
			return xn(s, next), nil
		}, st),
		xconnector.WithMetricsToProfiles(func(_ context.Context, s connector.Settings, _ component.Config, next xconsumer.Profiles) (connector.Metrics, error) {
			return xn(s, next), nil
		}, st),
		xconnector.WithTracesToLogs(func(_ context.Context, s connector.Settings, _ component.Config, next consumer.Logs) (connector.Traces, error) {
			return xn(s, next), nil
		}, st),
		xconnector.WithTracesToMetrics(func(_ context.Context, s connector.Settings, _ component.Config, next consumer.Metrics) (connector.Traces, error) {
			return xn(s, next), nil
		}, st),
		xconnector.WithTracesToProfiles(func(_ context.Context, s connector.Settings, _ component.Config, next xconsumer.Profiles) (connector.Traces, error) {
			return xn(s, next), nil
		}, st),
		xconnector.WithProfilesToLogs(func(_ context.Context, s connector.Settings, _ component.Config, next consumer.Logs) (xconnector.Profiles, error) {
			return xn(s, next), nil
		}, st),
		xconnector.WithProfilesToMetrics(func(_ context.Context, s connector.Settings, _ component.Config, next consumer.Metrics) (xconnector.Profiles, error) {
			return xn(s, next), nil
		}, st),
		xconnector.WithProfilesToTraces(func(_ context.Context, s connector.Settings, _ component.Config, next consumer.Traces) (xconnector.Profiles, error) {
			return xn(s, next), nil
		}, st))
	return rf, pf, ef, cf, xf
}

func c06Inject(w *c06World, next any, ctx context.Context, d any) error {
	return c06InjectSig(w.sg.name, next, ctx, d)
}

func c06InjectSig(sig string, next any, ctx context.Context, d any) error {
	switch sig {
	case "logs":
		return next.(consumer.Logs).ConsumeLogs(ctx, d.(plog.Logs))
	case "metrics":
		return next.(consumer.Metrics).ConsumeMetrics(ctx, d.(pmetric.Metrics))
	case "traces":
		return next.(consumer.Traces).ConsumeTraces(ctx, d.(ptrace.Traces))
	default:
		return next.(xconsumer.Profiles).ConsumeProfiles(ctx, d.(pprofile.Profiles))
	}
}

// TestVerifC06Graph: multi-level fan-out on graphs built by the real graph.Build, for all four signals: random DAGs of
// pipelines (1-2 receivers, pipelines with several sources, connector chains up to the number of pipelines, connectors fed by
// several pipelines, exporters shared between pipelines).
//   (1) exact differential: MutatesData advertised by every pipeline's capabilities node vs. the model;
//   (2) exact differential on every fan-out call (source -> pipelines, pipeline -> exporters/connectors): the order-independent
//       summary of who is handed which object with which read-only flag (C06_seen_ro, C06_origMut) + identity oracles;
//   (3) direct oracle: each exporter sees exactly the tags of the mutating stages on its own path(s),
//       at call time and after everything (including its siblings) has finished.
func TestVerifC06Graph(t *testing.T) {
	out := vOpen(t)
	defer out.Close()
	out.Linef("model c06-graph 1")
	sigs := c06Sigs()
	n := vN(300)
	for _, c := range vCases(n) {
		rnd := vRand(c)
		out.Linef("case %d", c)
		sg := sigs[rnd.IntN(len(sigs))]
		nameSeq := 0
		fresh := func(prefix string, mut bool) string {
			nameSeq++
			s := fmt.Sprintf("%s%d", prefix, nameSeq)
			if mut {
				s += "m"
			}
			return s
		}
		recvs := []string{"r1"}
		if rnd.IntN(3) == 0 {
			recvs = append(recvs, "r2")
		}
		np := 1 + rnd.IntN(6)
		pipes := make([]*c06Pipe, np)
		var connNames, expNames, procNames []string
		connOwner := map[string][]int{} // connector -> pipelines that list it as exporter
		for i := range pipes {
			p := &c06Pipe{name: fmt.Sprintf("pl%d", i)}
			pipes[i] = p
			procNames = append(procNames, "q"+p.name)
			for k := rnd.IntN(4); k > 0; k-- {
				pn := fresh("p", rnd.IntN(3) == 0)
				p.procs = append(p.procs, pn)
				procNames = append(procNames, pn)
			}
			nExp := rnd.IntN(4)
			if c%16 == 5 && i == 0 {
				// a wide pipeline fan-out (8..14 more exporters): sizes the random generator otherwise never makes
				nExp += 8 + c%7
			}
			for k := nExp; k > 0; k-- {
				if len(expNames) > 0 && rnd.IntN(4) == 0 {
					// an exporter shared with an earlier pipeline (one instance, called once per path)
					en := expNames[rnd.IntN(len(expNames))]
					dup := false
					for _, e := range p.exps {
						dup = dup || e == en
					}
					if !dup {
						p.exps = append(p.exps, en)
					}
					continue
				}
				en := fresh("e", rnd.IntN(4) == 0)
				p.exps = append(p.exps, en)
				expNames = append(expNames, en)
			}
			// sources: the first pipeline is fed by receivers; later ones by a receiver and/or connectors of EARLIER pipelines
			if i == 0 || rnd.IntN(3) == 0 {
				p.recv = append(p.recv, recvs[rnd.IntN(len(recvs))])
				if len(recvs) > 1 && rnd.IntN(3) == 0 {
					other := recvs[0]
					if p.recv[0] == other {
						other = recvs[1]
					}
					p.recv = append(p.recv, other)
				}
			}
			if i > 0 {
				for k := 0; k < 2; k++ {
					if len(p.recv) > 0 && (k == 1 || rnd.IntN(2) == 0) && rnd.IntN(3) != 0 {
						continue
					}
					var cn string
					if len(connNames) > 0 && rnd.IntN(2) == 0 {
						cn = connNames[rnd.IntN(len(connNames))] // a connector that already feeds another pipeline
					} else {
						cn = fresh("c", rnd.IntN(4) == 0)
						connNames = append(connNames, cn)
						j := rnd.IntN(i)
						connOwner[cn] = append(connOwner[cn], j)
						pipes[j].exps = append(pipes[j].exps, cn)
						if rnd.IntN(4) == 0 {
							// fan-in: a second earlier pipeline feeds the same connector
							j2 := rnd.IntN(i)
							if j2 != j {
								connOwner[cn] = append(connOwner[cn], j2)
								pipes[j2].exps = append(pipes[j2].exps, cn)
							}
						}
					}
					dup := false
					for _, r := range p.recv {
						dup = dup || r == cn
					}
					if !dup {
						p.recv = append(p.recv, cn)
					}
				}
			}
		}
		// cross-signal cases: one or two EXTRA pipelines of the next signal, each fed by a cross-signal connector ('x') that sits in
		// the exporter position of one of the pipelines generated above (derived from the case index: no random draw)
		var xNames []string
		sgB := sigs[0]
		for i, x := range sigs {
			if x.name == sg.name {
				sgB = sigs[(i+1+(c/12)%3)%len(sigs)] // any of the three OTHER signals
			}
		}
		cross := c%4 == 2 && c%3 != 1
		if cross {
			npA := len(pipes)
			for b, nb := 0, 1+(c/4)%2; b < nb; b++ {
				p := &c06Pipe{name: fmt.Sprintf("pl%d", len(pipes)), sigB: true}
				procNames = append(procNames, "q"+p.name)
				for k := (c/8 + b) % 3; k > 0; k-- {
					pn := fresh("p", (c+k)%3 == 0)
					p.procs = append(p.procs, pn)
					procNames = append(procNames, pn)
				}
				for k := 1 + (c/16+b)%3; k > 0; k-- {
					en := fresh("e", (c+k+b)%4 == 0)
					p.exps = append(p.exps, en)
					expNames = append(expNames, en)
				}
				var xn string
				if b == 1 && (c/32)%2 == 0 {
					xn = xNames[0] // the same connector feeds both pipelines of the other signal
				} else {
					xn = fresh("x", (c/2+b)%3 == 0)
					xNames = append(xNames, xn)
					j := (c/4 + 3*b) % npA
					pipes[j].exps = append(pipes[j].exps, xn)
				}
				p.recv = []string{xn}
				pipes = append(pipes, p)
			}
		}
		sigOf := func(p *c06Pipe) pipeline.Signal {
			if p.sigB {
				return sgB.sig
			}
			return sg.sig
		}
		// exporters and cross-signal connectors: everything that ends a payload's journey in its own signal
		leafNames := func() []string { return append(append([]string{}, expNames...), xNames...) }
		// every pipeline needs at least one exporter
		for _, p := range pipes {
			if len(p.exps) == 0 {
				en := fresh("e", rnd.IntN(4) == 0)
				p.exps = append(p.exps, en)
				expNames = append(expNames, en)
			}
		}
		usedRecv := map[string]bool{}
		for _, p := range pipes {
			for _, r := range p.recv {
				if r[0] == 'r' {
					usedRecv[r] = true
				}
			}
		}
		var recvNames []string
		for _, r := range recvs {
			if usedRecv[r] {
				recvNames = append(recvNames, r)
			}
		}
		w := &c06World{sg: sg, sgB: sgB, bySig: map[string]c06Sig{}, recvNext: map[string]any{}, calls: map[string][]c06Call{}, fans: map[string]*c06Fan{}}
		for _, x := range sigs {
			w.bySig[x.name] = x
		}
		// every third case some exporters fail (derived from the case index and the exporter's number: no random draw)
		if c%3 == 1 && !cross {
			w.failing = func(name string) bool {
				var id int
				fmt.Sscanf(c06ID(name), "%d", &id)
				return (id*7+c)%4 == 0
			}
		}
		rf, pf, ef, cf, xf := c06Factories(w)
		mk := func(ty component.Type, names []string) map[component.ID]component.Config {
			m := map[component.ID]component.Config{}
			for _, n := range names {
				m[component.MustNewIDWithName(ty.String(), n)] = &struct{}{}
			}
			return m
		}
		toIDs := func(names []string) []component.ID {
			var o []component.ID
			for _, n := range names {
				ty := map[byte]component.Type{'r': c06R, 'p': c06P, 'q': c06P, 'e': c06E, 'c': c06C, 'x': c06X}[n[0]]
				o = append(o, component.MustNewIDWithName(ty.String(), n))
			}
			return o
		}
		pcs := pipelines.Config{}
		for i, p := range pipes {
			// the probe sits at a varying position among the processors (first, in between, last): it only observes
			at := (c + i) % (len(p.procs) + 1)
			procs := append(append(append([]string{}, p.procs[:at]...), "q"+p.name), p.procs[at:]...)
			pcs[pipeline.NewIDWithName(sigOf(p), p.name)] = &pipelines.PipelineConfig{Receivers: toIDs(p.recv),
				Processors: toIDs(procs), Exporters: toIDs(p.exps)}
		}
		set := Settings{
			Telemetry: componenttest.NewNopTelemetrySettings(), BuildInfo: component.NewDefaultBuildInfo(),
			ReceiverBuilder:  builders.NewReceiver(mk(c06R, recvNames), map[component.Type]receiver.Factory{c06R: rf}),
			ProcessorBuilder: builders.NewProcessor(mk(c06P, procNames), map[component.Type]processor.Factory{c06P: pf}),
			ExporterBuilder:  builders.NewExporter(mk(c06E, expNames), map[component.Type]exporter.Factory{c06E: ef}),
			ConnectorBuilder: builders.NewConnector(func() map[component.ID]component.Config {
				m := mk(c06C, connNames)
				for k, v := range mk(c06X, xNames) {
					m[k] = v
				}
				return m
			}(), map[component.Type]connector.Factory{c06C: cf, c06X: xf}),
			PipelineConfigs:  pcs,
		}
		g, err := Build(context.Background(), set)
		if err != nil {
			out.Linef("viol sig=C06/graph/build-failed signal=%s %s", sg.name, vHex(err.Error()))
			out.Linef("end")
			continue
		}
		// (1) advertised capability per pipeline, leaves first (connectors only feed later pipelines) so that the model knows
		// the next pipelines of a connector
		byConn := map[string][]*c06Pipe{}
		for _, p := range pipes {
			for _, r := range p.recv {
				if r[0] == 'c' || r[0] == 'x' {
					byConn[r] = append(byConn[r], p)
				}
			}
		}
		implCap := map[string]bool{}
		mixed := false
		for i := len(pipes) - 1; i >= 0; i-- {
			p := pipes[i]
			var plain, conns []string
			for _, e := range p.exps {
				if e[0] == 'c' {
					var nx []string
					for _, q := range byConn[e] {
						nx = append(nx, q.name)
					}
					conns = append(conns, fmt.Sprintf("%d:%s", vB(c06Mut(e)), strings.Join(nx, ",")))
				} else {
					plain = append(plain, e)
				}
			}
			cs := "-"
			if len(conns) > 0 {
				cs = strings.Join(conns, ";")
			}
			out.Linef("op pipe id=%s procs=%s exps=%s conn=%s", p.name, c06Bits(p.procs), c06Bits(plain), cs)
			capNode := g.pipelines[pipeline.NewIDWithName(sigOf(p), p.name)].capabilitiesNode
			implCap[p.name] = capNode.Capabilities().MutatesData
			out.Linef("obs cap %d", vB(implCap[p.name]))
			bs := c06Bits(append(append([]string{}, p.procs...), plain...))
			if strings.Contains(bs, "0") && strings.Contains(bs, "1") {
				mixed = true
			}
		}
		// capability a connector advertises as a consumer: its own or that of any pipeline it feeds (aggregateCap)
		connCap := func(cn string) bool {
			m := c06Mut(cn)
			for _, q := range byConn[cn] {
				m = m || implCap[q.name]
			}
			return m
		}
		// expected trails: walk every path from every receiver
		want := map[string][]string{}
		var walk func(p *c06Pipe, prefix string)
		walk = func(p *c06Pipe, prefix string) {
			tr := prefix
			for _, pr := range p.procs {
				if c06Mut(pr) {
					tr += ">" + pr
				}
			}
			for _, e := range p.exps {
				if e[0] == 'c' {
					t2 := tr
					if c06Mut(e) {
						t2 += ">" + e
					}
					for _, q := range byConn[e] {
						walk(q, t2)
					}
				} else {
					want[e] = append(want[e], tr)
					if e[0] == 'x' {
						// the new payload of the other signal starts with the trail so far (plus the connector's own write)
						t2 := tr
						if c06Mut(e) {
							t2 += ">" + e
						}
						for _, q := range byConn[e] {
							walk(q, t2)
						}
					}
				}
			}
		}
		// (2) inject one payload at every receiver
		var injRO []bool
		var injErrs []int
		var injIdx []int
		for _, r := range recvNames {
			d := sg.newData()
			inRO := rnd.IntN(3) == 0
			if inRO {
				sg.markRO(d)
			}
			w.seq++
			w.injSeq++
			w.inj = w.injSeq
			injIdx = append(injIdx, w.inj)
			injRO = append(injRO, inRO)
			id := fmt.Sprintf("hop:%s#%d", r, w.seq)
			w.fan(id, c06Ptr(d), inRO)
			err := c06Inject(w, w.recvNext[r], context.WithValue(context.Background(), c06HopKey, id), d)
			injErrs = append(injErrs, len(multierr.Errors(err)))
			if err != nil && w.failing == nil {
				out.Linef("viol sig=C06/graph/consume-error signal=%s %s", sg.name, vHex(err.Error()))
			}
			for _, p := range pipes {
				for _, s := range p.recv {
					if s == r {
						walk(p, "")
					}
				}
			}
		}
		// asynchronous work: after every payload has travelled through the whole graph, every declared-mutating exporter writes once
		// more to every object it still holds (C06_dag_async)
		for _, e := range leafNames() {
			if c06Mut(e) {
				for _, cl := range w.calls[e] {
					w.appendTag(cl.data, e)
				}
			}
		}
		for _, tag := range w.panics {
			out.Linef("viol sig=C06/graph/declared-mutator-got-readonly-data component=%s signal=%s", tag, sg.name)
		}
		// (2b) the WHOLE unfolded graph below every receiver against the whole-graph model (Dag.fan, C06_dag_refines): what
		// every exporter call was shown (content = trail, read-only flag) and what its object holds at the very end
		var tok func(p *c06Pipe, sb *[]string)
		tok = func(p *c06Pipe, sb *[]string) {
			*sb = append(*sb, "p", fmt.Sprint(len(p.procs)))
			for _, pr := range p.procs {
				*sb = append(*sb, c06ID(pr), fmt.Sprint(vB(c06Mut(pr))))
			}
			for _, e := range p.exps {
				if e[0] == 'c' {
					*sb = append(*sb, "c", c06ID(e), fmt.Sprint(vB(c06Mut(e))))
					for _, q := range byConn[e] {
						tok(q, sb)
					}
					*sb = append(*sb, "]")
				} else {
					*sb = append(*sb, "e", c06ID(e), fmt.Sprint(vB(c06Mut(e))))
				}
			}
			*sb = append(*sb, "]")
		}
		treeLeaves := 0
		type c06Journey struct {
			src  string // receiver or cross-signal connector
			inj  int
			ro   bool
			t0   string
			errs int
		}
		var journeys []c06Journey
		for ri, r := range recvNames {
			journeys = append(journeys, c06Journey{r, injIdx[ri], injRO[ri], "", injErrs[ri]})
		}
		for _, sb := range w.subs {
			journeys = append(journeys, c06Journey{sb.x, sb.inj, false, sb.t0, sb.errs})
		}
		for _, jn := range journeys {
			r := jn.src
			var toks []string
			var top []bool
			for _, p := range pipes {
				for _, s := range p.recv {
					if s == r {
						tok(p, &toks)
						top = append(top, implCap[p.name])
					}
				}
			}
			toks = append(toks, "]")
			var failIDs []string
			if w.failing != nil {
				for _, e := range expNames {
					if w.failing(e) {
						failIDs = append(failIDs, c06ID(e))
					}
				}
			}
			fl := "-"
			if len(failIDs) > 0 {
				fl = strings.Join(failIDs, ",")
			}
			out.Linef("op tree ro=%d fail=%s t0=%s %s", vB(jn.ro), fl, c06TrailIDs(jn.t0), strings.Join(toks, " "))
			out.Linef("obs caps %s", c06BoolBits(top))
			out.Linef("obs errs %d", jn.errs)
			var entries []string
			holders := map[uintptr]int{} // how many exporter calls of this payload's journey hold the same object
			for _, e := range leafNames() {
				for _, cl := range w.calls[e] {
					if cl.inj == jn.inj {
						holders[c06Ptr(cl.data)]++
					}
				}
			}
			for _, e := range leafNames() {
				for _, cl := range w.calls[e] {
					if cl.inj == jn.inj {
						entries = append(entries, fmt.Sprintf("%s:%d:%s:%s:%d", c06ID(e), vB(cl.ro), c06TrailIDs(cl.trail), c06TrailIDs(w.trail(cl.data)), holders[c06Ptr(cl.data)]))
					}
				}
			}
			sort.Strings(entries)
			treeLeaves += len(entries)
			if len(entries) == 0 {
				out.Linef("obs leaves -")
			} else {
				out.Linef("obs leaves %s", strings.Join(entries, ","))
			}
		}
		// every fan-out call against the model, consumers in name order
		nfans := 0
		for _, id := range w.fanOrder {
			f := w.fans[id]
			if len(f.entries) == 0 {
				continue
			}
			nfans++
			es := append([]c06Entry{}, f.entries...)
			sort.SliceStable(es, func(i, j int) bool { return es[i].who < es[j].who })
			caps := make([]bool, len(es))
			ros := make([]bool, len(es))
			origMut := 0
			for i, e := range es {
				switch {
				case strings.HasPrefix(id, "hop:"):
					caps[i] = implCap[e.who]
				case e.who[0] == 'c':
					caps[i] = connCap(e.who)
				default:
					caps[i] = c06Mut(e.who)
				}
				ros[i] = e.ro
				if caps[i] && e.ptr == f.srcPtr {
					origMut++
				}
			}
			out.Linef("op hop caps=%s ro=%d", c06BoolBits(caps), vB(f.srcRO))
			out.Linef("obs hop ro=%s origmut=%d", c06BoolBits(ros), origMut)
			// identity oracles (C06_exclusive / C06_readonly_gets_orig): non-mutating consumers share the source's object,
			// a mutating consumer's object is held by nobody else in this call
			for i, e := range es {
				if !caps[i] && e.ptr != f.srcPtr {
					out.Linef("viol sig=C06/graph/non-mutating-consumer-not-handed-the-original fan=%s consumer=%s signal=%s", strings.SplitN(id, "#", 2)[0], e.who, sg.name)
				}
				if caps[i] {
					for j, e2 := range es {
						if j != i && e2.ptr == e.ptr {
							out.Linef("viol sig=C06/graph/mutating-consumer-shares-its-object fan=%s consumer=%s with=%s signal=%s", strings.SplitN(id, "#", 2)[0], e.who, e2.who, sg.name)
						}
					}
				}
			}
		}
		// (3) trails
		for _, e := range leafNames() {
			calls := w.calls[e]
			var seen []string
			for _, cl := range calls {
				seen = append(seen, cl.trail)
			}
			wantE := append([]string{}, want[e]...)
			sort.Strings(seen)
			sort.Strings(wantE)
			if len(seen) != len(wantE) {
				out.Linef("viol sig=C06/graph/exporter-call-count exporter=%s calls=%d want=%d signal=%s", e, len(seen), len(wantE), sg.name)
				continue
			}
			if strings.Join(seen, "|") != strings.Join(wantE, "|") {
				out.Linef("viol sig=C06/graph/exporter-sees-foreign-mutation-at-call exporter=%s signal=%s saw=%s want=%s", e, sg.name, vHex(strings.Join(seen, "|")), vHex(strings.Join(wantE, "|")))
			}
			for _, cl := range calls {
				after := w.trail(cl.data)
				wantAfter := cl.trail
				if c06Mut(e) {
					wantAfter += ">" + e + ">" + e // its write during the call and its asynchronous one
				}
				if after != wantAfter {
					out.Linef("viol sig=C06/graph/exporter-sees-foreign-mutation-later exporter=%s signal=%s saw=%s want=%s", e, sg.name, vHex(after), vHex(wantAfter))
				}
			}
		}
		if mixed && len(pipes) > 1 {
			out.Linef("nt")
		}
		out.Linef("stat pipelines %d", len(pipes))
		out.Linef("stat connectors %d", len(connNames))
		out.Linef("stat signal_%s 1", sg.name)
		out.Linef("stat fanout_calls %d", nfans)
		out.Linef("stat tree_exporter_calls %d", treeLeaves)
		out.Linef("stat failing_exporters %d", vB(w.failing != nil))
		out.Linef("stat cross_signal %d", vB(cross))
		if cross {
			out.Linef("stat cross_%s_to_%s 1", sg.name, sgB.name)
		}
		out.Linef("stat cross_signal_payloads %d", len(w.subs))
		out.Linef("end")
		out.Flush()
	}
}
