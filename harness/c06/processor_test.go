//go:build verif

package processorhelper

import (
	"context"
	"strings"
	"testing"

	"go.opentelemetry.io/collector/component"
	"go.opentelemetry.io/collector/consumer"
	"go.opentelemetry.io/collector/consumer/consumertest"
	"go.opentelemetry.io/collector/pdata/plog"
	"go.opentelemetry.io/collector/pdata/pmetric"
	"go.opentelemetry.io/collector/pdata/ptrace"
	"go.opentelemetry.io/collector/processor/processortest"
)

// C06 glue at the processor stage: "a pipeline advertises itself as mutating exactly when one of its processors … may mutate it".
// What a processor advertises is decided by the processor helper: its own WithCapabilities options in order (the last one wins),
// and MutatesData=TRUE when it declares nothing (so that the fan-out in front of the pipeline gives it its own copy).
// Model: c06-exp, op proch (processorCapH with the defaults regenerated from processorhelper/processor.go and consumer/internal).
func TestVerifC06Processor(t *testing.T) {
	out := vOpen(t)
	defer out.Close()
	out.Linef("model c06-exp 1")
	ctx := context.Background()
	set := processortest.NewNopSettings(processortest.NopType)
	for _, c := range vCases(vN(200)) {
		rnd := vRand(c)
		out.Linef("case %d", c)
		for _, sig := range []string{"logs", "traces", "metrics"} {
			var toks []string
			var opts []Option
			decls := ""
			for k := rnd.IntN(4); k > 0; k-- {
				switch rnd.IntN(4) {
				case 0:
					toks = append(toks, "start")
					opts = append(opts, WithStart(func(context.Context, component.Host) error { return nil }))
				case 1:
					toks = append(toks, "shutdown")
					opts = append(opts, WithShutdown(func(context.Context) error { return nil }))
				default:
					m := rnd.IntN(2) == 0
					toks = append(toks, "cap"+map[bool]string{false: "0", true: "1"}[m])
					opts = append(opts, WithCapabilities(consumer.Capabilities{MutatesData: m}))
					decls += map[bool]string{false: "0", true: "1"}[m]
				}
			}
			if decls == "" {
				decls = "-"
			}
			if len(toks) == 0 {
				toks = []string{"-"}
			}
			out.Linef("op proch x=0 sig=%s decls=%s opts=%s", sig, decls, strings.Join(toks, ","))
			var caps consumer.Capabilities
			var err error
			switch sig {
			case "logs":
				var p interface{ Capabilities() consumer.Capabilities }
				p, err = NewLogs(ctx, set, &struct{}{}, consumertest.NewNop(), func(_ context.Context, d plog.Logs) (plog.Logs, error) { return d, nil }, opts...)
				if err == nil {
					caps = p.Capabilities()
				}
			case "traces":
				var p interface{ Capabilities() consumer.Capabilities }
				p, err = NewTraces(ctx, set, &struct{}{}, consumertest.NewNop(), func(_ context.Context, d ptrace.Traces) (ptrace.Traces, error) { return d, nil }, opts...)
				if err == nil {
					caps = p.Capabilities()
				}
			default:
				var p interface{ Capabilities() consumer.Capabilities }
				p, err = NewMetrics(ctx, set, &struct{}{}, consumertest.NewNop(), func(_ context.Context, d pmetric.Metrics) (pmetric.Metrics, error) { return d, nil }, opts...)
				if err == nil {
					caps = p.Capabilities()
				}
			}
			if err != nil {
				out.Linef("obs error")
				continue
			}
			out.Linef("obs cap %d", vB(caps.MutatesData))
			if decls == "-" && !caps.MutatesData {
				out.Linef("viol sig=C06/processor/undeclared-processor-not-advertised-mutating signal=%s opts=%s", sig, strings.Join(toks, ","))
			}
			if decls == "-" {
				out.Linef("stat undeclared 1")
			}
		}
		out.Linef("nt")
		out.Linef("end")
		out.Flush()
	}
}
