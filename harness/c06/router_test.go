//go:build verif

package connector

import (
	"context"
	"fmt"
	"testing"

	"go.opentelemetry.io/collector/consumer"
	"go.opentelemetry.io/collector/pdata/pcommon"
	"go.opentelemetry.io/collector/pdata/plog"
	"go.opentelemetry.io/collector/pdata/pmetric"
	"go.opentelemetry.io/collector/pdata/ptrace"
	"go.opentelemetry.io/collector/pipeline"
)

var _ = fmt.Sprint

func c06rSigs() []c06rSig {
	return []c06rSig{
		{
			name: "logs",
			newData: func() any {
				ld := plog.NewLogs()
				rl := ld.ResourceLogs().AppendEmpty()
				rl.Resource().Attributes().PutStr("k", "v")
				rl.ScopeLogs().AppendEmpty().LogRecords().AppendEmpty().Body().SetStr("b")
				return ld
			},
			marshal: func(d any) []byte { b, _ := (&plog.ProtoMarshaler{}).MarshalLogs(d.(plog.Logs)); return b },
			attrs:   func(d any) pcommon.Map { return d.(plog.Logs).ResourceLogs().At(0).Resource().Attributes() },
			markRO:  func(d any) { d.(plog.Logs).MarkReadOnly() },
			isRO:    func(d any) bool { return d.(plog.Logs).IsReadOnly() },
			route: func(all []bool, sel []int, cb func(int, any) error, later ...[]int) (func(any) error, bool, error) {
				ids := c06rIDs(pipeline.SignalLogs, len(all)+2)
				cm := map[pipeline.ID]consumer.Logs{}
				for i, m := range all {
					i := i
					c, _ := consumer.NewLogs(func(_ context.Context, ld plog.Logs) error { return cb(i, ld) }, consumer.WithCapabilities(consumer.Capabilities{MutatesData: m}))
					cm[ids[i]] = c
				}
				var s []pipeline.ID
				for _, i := range sel {
					s = append(s, ids[i])
				}
				rt := NewLogsRouter(cm)
				// the router must not keep using the caller's map: overwrite every entry with a foreign consumer (index -1)
				foreign, _ := consumer.NewLogs(func(_ context.Context, d plog.Logs) error { return cb(-1, d) })
				for k := range cm {
					cm[k] = foreign
				}
				c, err := rt.Consumer(s...)
				if err != nil {
					return nil, false, err
				}
				// further routes requested from the SAME router after this one (the consumer returned above is kept and used later)
				for _, l := range later {
					var ls []pipeline.ID
					for _, i := range l {
						ls = append(ls, ids[i])
					}
					_, _ = rt.Consumer(ls...)
				}
				return func(d any) error { return c.ConsumeLogs(context.Background(), d.(plog.Logs)) }, c.Capabilities().MutatesData, nil
			},
		},
		{
			name: "metrics",
			newData: func() any {
				md := pmetric.NewMetrics()
				rm := md.ResourceMetrics().AppendEmpty()
				rm.Resource().Attributes().PutStr("k", "v")
				rm.ScopeMetrics().AppendEmpty().Metrics().AppendEmpty().SetEmptyGauge().DataPoints().AppendEmpty().SetIntValue(1)
				return md
			},
			marshal: func(d any) []byte { b, _ := (&pmetric.ProtoMarshaler{}).MarshalMetrics(d.(pmetric.Metrics)); return b },
			attrs:   func(d any) pcommon.Map { return d.(pmetric.Metrics).ResourceMetrics().At(0).Resource().Attributes() },
			markRO:  func(d any) { d.(pmetric.Metrics).MarkReadOnly() },
			isRO:    func(d any) bool { return d.(pmetric.Metrics).IsReadOnly() },
			route: func(all []bool, sel []int, cb func(int, any) error, later ...[]int) (func(any) error, bool, error) {
				ids := c06rIDs(pipeline.SignalMetrics, len(all)+2)
				cm := map[pipeline.ID]consumer.Metrics{}
				for i, m := range all {
					i := i
					c, _ := consumer.NewMetrics(func(_ context.Context, md pmetric.Metrics) error { return cb(i, md) }, consumer.WithCapabilities(consumer.Capabilities{MutatesData: m}))
					cm[ids[i]] = c
				}
				var s []pipeline.ID
				for _, i := range sel {
					s = append(s, ids[i])
				}
				rt := NewMetricsRouter(cm)
				// the router must not keep using the caller's map: overwrite every entry with a foreign consumer (index -1)
				foreign, _ := consumer.NewMetrics(func(_ context.Context, d pmetric.Metrics) error { return cb(-1, d) })
				for k := range cm {
					cm[k] = foreign
				}
				c, err := rt.Consumer(s...)
				if err != nil {
					return nil, false, err
				}
				// further routes requested from the SAME router after this one (the consumer returned above is kept and used later)
				for _, l := range later {
					var ls []pipeline.ID
					for _, i := range l {
						ls = append(ls, ids[i])
					}
					_, _ = rt.Consumer(ls...)
				}
				return func(d any) error { return c.ConsumeMetrics(context.Background(), d.(pmetric.Metrics)) }, c.Capabilities().MutatesData, nil
			},
		},
		{
			name: "traces",
			newData: func() any {
				td := ptrace.NewTraces()
				rs := td.ResourceSpans().AppendEmpty()
				rs.Resource().Attributes().PutStr("k", "v")
				rs.ScopeSpans().AppendEmpty().Spans().AppendEmpty().SetName("s")
				return td
			},
			marshal: func(d any) []byte { b, _ := (&ptrace.ProtoMarshaler{}).MarshalTraces(d.(ptrace.Traces)); return b },
			attrs:   func(d any) pcommon.Map { return d.(ptrace.Traces).ResourceSpans().At(0).Resource().Attributes() },
			markRO:  func(d any) { d.(ptrace.Traces).MarkReadOnly() },
			isRO:    func(d any) bool { return d.(ptrace.Traces).IsReadOnly() },
			route: func(all []bool, sel []int, cb func(int, any) error, later ...[]int) (func(any) error, bool, error) {
				ids := c06rIDs(pipeline.SignalTraces, len(all)+2)
				cm := map[pipeline.ID]consumer.Traces{}
				for i, m := range all {
					i := i
					c, _ := consumer.NewTraces(func(_ context.Context, td ptrace.Traces) error { return cb(i, td) }, consumer.WithCapabilities(consumer.Capabilities{MutatesData: m}))
					cm[ids[i]] = c
				}
				var s []pipeline.ID
				for _, i := range sel {
					s = append(s, ids[i])
				}
				rt := NewTracesRouter(cm)
				// the router must not keep using the caller's map: overwrite every entry with a foreign consumer (index -1)
				foreign, _ := consumer.NewTraces(func(_ context.Context, d ptrace.Traces) error { return cb(-1, d) })
				for k := range cm {
					cm[k] = foreign
				}
				c, err := rt.Consumer(s...)
				if err != nil {
					return nil, false, err
				}
				// further routes requested from the SAME router after this one (the consumer returned above is kept and used later)
				for _, l := range later {
					var ls []pipeline.ID
					for _, i := range l {
						ls = append(ls, ids[i])
					}
					_, _ = rt.Consumer(ls...)
				}
				return func(d any) error { return c.ConsumeTraces(context.Background(), d.(ptrace.Traces)) }, c.Capabilities().MutatesData, nil
			},
		},
	}
}


func TestVerifC06Router(t *testing.T) { c06rMain(t, c06rSigs()) }
