//go:build verif

package connector

import (
	"bytes"
	"context"
	"fmt"
	"reflect"
	"strings"
	"testing"

	"go.uber.org/multierr"

	"go.opentelemetry.io/collector/consumer"
	"go.opentelemetry.io/collector/pdata/pcommon"
	"go.opentelemetry.io/collector/pdata/plog"
	"go.opentelemetry.io/collector/pdata/pmetric"
	"go.opentelemetry.io/collector/pdata/ptrace"
	"go.opentelemetry.io/collector/pipeline"
)

// C06 at the connector routers: Router.Consumer(pipelineIDs...) hands one payload to the selected pipelines. It must behave
// exactly like the fan-out over the selected pipelines' first consumers in the order given — also for ONE selected pipeline
// (a mutating pipeline selected alone must not be handed read-only shared data). Model: c06-fan (same as the fan-out harness).

type c06rSig struct {
	name    string
	newData func() any
	marshal func(any) []byte
	attrs   func(any) pcommon.Map
	markRO  func(any)
	isRO    func(any) bool
	// route over `all` consumers (capabilities all[i]) selecting `sel` (indices into all, in order)
	route func(all []bool, sel []int, cb func(i int, d any) error) (consume func(any) error, err error)
}

func c06rPtr(d any) uintptr { return reflect.ValueOf(d).Field(0).Pointer() }

func c06rIDs(sig pipeline.Signal, n int) []pipeline.ID {
	ids := make([]pipeline.ID, n)
	for i := range ids {
		ids[i] = pipeline.NewIDWithName(sig, fmt.Sprintf("p%d", i))
	}
	return ids
}

func c06rSigs() []c06rSig {
	return []c06rSig{
		{
			name: "logs",
			newData: func() any {
				ld := plog.NewLogs()
				rl := ld.ResourceLogs().AppendEmpty()
				rl.Resource().Attributes().PutStr("k", "v")
				rl.ScopeLogs().AppendEmpty().LogRecords().AppendEmpty().Body().SetStr("b")
				return ld
			},
			marshal: func(d any) []byte { b, _ := (&plog.ProtoMarshaler{}).MarshalLogs(d.(plog.Logs)); return b },
			attrs:   func(d any) pcommon.Map { return d.(plog.Logs).ResourceLogs().At(0).Resource().Attributes() },
			markRO:  func(d any) { d.(plog.Logs).MarkReadOnly() },
			isRO:    func(d any) bool { return d.(plog.Logs).IsReadOnly() },
			route: func(all []bool, sel []int, cb func(int, any) error) (func(any) error, error) {
				ids := c06rIDs(pipeline.SignalLogs, len(all))
				cm := map[pipeline.ID]consumer.Logs{}
				for i, m := range all {
					i := i
					c, _ := consumer.NewLogs(func(_ context.Context, ld plog.Logs) error { return cb(i, ld) }, consumer.WithCapabilities(consumer.Capabilities{MutatesData: m}))
					cm[ids[i]] = c
				}
				var s []pipeline.ID
				for _, i := range sel {
					s = append(s, ids[i])
				}
				c, err := NewLogsRouter(cm).Consumer(s...)
				if err != nil {
					return nil, err
				}
				return func(d any) error { return c.ConsumeLogs(context.Background(), d.(plog.Logs)) }, nil
			},
		},
		{
			name: "metrics",
			newData: func() any {
				md := pmetric.NewMetrics()
				rm := md.ResourceMetrics().AppendEmpty()
				rm.Resource().Attributes().PutStr("k", "v")
				rm.ScopeMetrics().AppendEmpty().Metrics().AppendEmpty().SetEmptyGauge().DataPoints().AppendEmpty().SetIntValue(1)
				return md
			},
			marshal: func(d any) []byte { b, _ := (&pmetric.ProtoMarshaler{}).MarshalMetrics(d.(pmetric.Metrics)); return b },
			attrs:   func(d any) pcommon.Map { return d.(pmetric.Metrics).ResourceMetrics().At(0).Resource().Attributes() },
			markRO:  func(d any) { d.(pmetric.Metrics).MarkReadOnly() },
			isRO:    func(d any) bool { return d.(pmetric.Metrics).IsReadOnly() },
			route: func(all []bool, sel []int, cb func(int, any) error) (func(any) error, error) {
				ids := c06rIDs(pipeline.SignalMetrics, len(all))
				cm := map[pipeline.ID]consumer.Metrics{}
				for i, m := range all {
					i := i
					c, _ := consumer.NewMetrics(func(_ context.Context, md pmetric.Metrics) error { return cb(i, md) }, consumer.WithCapabilities(consumer.Capabilities{MutatesData: m}))
					cm[ids[i]] = c
				}
				var s []pipeline.ID
				for _, i := range sel {
					s = append(s, ids[i])
				}
				c, err := NewMetricsRouter(cm).Consumer(s...)
				if err != nil {
					return nil, err
				}
				return func(d any) error { return c.ConsumeMetrics(context.Background(), d.(pmetric.Metrics)) }, nil
			},
		},
		{
			name: "traces",
			newData: func() any {
				td := ptrace.NewTraces()
				rs := td.ResourceSpans().AppendEmpty()
				rs.Resource().Attributes().PutStr("k", "v")
				rs.ScopeSpans().AppendEmpty().Spans().AppendEmpty().SetName("s")
				return td
			},
			marshal: func(d any) []byte { b, _ := (&ptrace.ProtoMarshaler{}).MarshalTraces(d.(ptrace.Traces)); return b },
			attrs:   func(d any) pcommon.Map { return d.(ptrace.Traces).ResourceSpans().At(0).Resource().Attributes() },
			markRO:  func(d any) { d.(ptrace.Traces).MarkReadOnly() },
			isRO:    func(d any) bool { return d.(ptrace.Traces).IsReadOnly() },
			route: func(all []bool, sel []int, cb func(int, any) error) (func(any) error, error) {
				ids := c06rIDs(pipeline.SignalTraces, len(all))
				cm := map[pipeline.ID]consumer.Traces{}
				for i, m := range all {
					i := i
					c, _ := consumer.NewTraces(func(_ context.Context, td ptrace.Traces) error { return cb(i, td) }, consumer.WithCapabilities(consumer.Capabilities{MutatesData: m}))
					cm[ids[i]] = c
				}
				var s []pipeline.ID
				for _, i := range sel {
					s = append(s, ids[i])
				}
				c, err := NewTracesRouter(cm).Consumer(s...)
				if err != nil {
					return nil, err
				}
				return func(d any) error { return c.ConsumeTraces(context.Background(), d.(ptrace.Traces)) }, nil
			},
		},
	}
}

func c06rBits(bs []bool) string {
	var sb strings.Builder
	for _, b := range bs {
		if b {
			sb.WriteByte('1')
		} else {
			sb.WriteByte('0')
		}
	}
	if sb.Len() == 0 {
		return "-"
	}
	return sb.String()
}

func c06rTry(m pcommon.Map, tag string) (panicked bool) {
	defer func() {
		if recover() != nil {
			panicked = true
		}
	}()
	m.PutStr(tag, "1")
	return false
}

// one routed delivery; consumers are renumbered 0..len(sel)-1 in selection order so that the fan-out model applies as is
func c06rRun(out *vOut, sg c06rSig, all []bool, sel []int, inputRO bool) {
	caps := make([]bool, len(sel))
	pos := map[int]int{}
	for k, i := range sel {
		caps[k] = all[i]
		pos[i] = k
	}
	zero := c06rBits(make([]bool, len(sel)))
	ones := strings.ReplaceAll(zero, "0", "1")
	out.Linef("op fan sig=%s caps=%s ro=%d fail=%s syncw=%s undecl=-1 route=%d/%d", sg.name, c06rBits(caps), vB(inputRO), zero, ones, len(sel), len(all))
	data := sg.newData()
	sent := sg.marshal(data)
	if inputRO {
		sg.markRO(data)
	}
	origPtr := c06rPtr(data)
	clones := map[uintptr]int{}
	held := make([]any, len(sel))
	consume, err := sg.route(all, sel, func(i int, d any) error {
		k, ok := pos[i]
		if !ok {
			out.Linef("viol sig=C06/router/unselected-pipeline-invoked pipeline=%d signal=%s", i, sg.name)
			return nil
		}
		held[k] = d
		obj := "o"
		if p := c06rPtr(d); p != origPtr {
			c, seen := clones[p]
			if !seen {
				c = len(clones)
				clones[p] = c
			}
			obj = fmt.Sprintf("c%d", c)
		}
		eq := bytes.Equal(sg.marshal(d), sent)
		panicked := false
		if caps[k] {
			panicked = c06rTry(sg.attrs(d), fmt.Sprintf("w%d", k))
			if panicked {
				out.Linef("viol sig=C06/router/declared-mutator-got-readonly-data pipeline=%d selected=%d signal=%s", i, len(sel), sg.name)
			}
		}
		out.Linef("obs call %d %s ro=%d eq=%d panic=%d", k, obj, vB(sg.isRO(d)), vB(eq), vB(panicked))
		return nil
	})
	if err != nil {
		out.Linef("obs route-error")
		return
	}
	// the router's consumer has no Capabilities we can compare with the fan-out's for a single unwrapped consumer; print the model's
	// value from what the real fan-out would advertise: mutable non-empty and read-only empty
	allMut, any := true, false
	for _, c := range caps {
		any = true
		allMut = allMut && c
	}
	out.Linef("obs cap %d", vB(any && allMut))
	e := consume(data)
	out.Linef("obs err %d", len(multierr.Errors(e)))
	for k, m := range caps {
		if held[k] == nil {
			out.Linef("obs after %d missing", k)
			continue
		}
		if m {
			c06rTry(sg.attrs(held[k]), fmt.Sprintf("a%d", k))
			got := ""
			sg.attrs(held[k]).Range(func(key string, _ pcommon.Value) bool {
				if key != "k" {
					got += key + ","
				}
				return true
			})
			out.Linef("obs after %d excl=%d", k, vB(strings.Count(got, ",") == 2 && strings.Contains(got, fmt.Sprintf("a%d,", k)) && strings.Contains(got, fmt.Sprintf("w%d,", k))))
		} else {
			out.Linef("obs after %d eq=%d", k, vB(bytes.Equal(sg.marshal(held[k]), sent)))
		}
	}
}

func TestVerifC06Router(t *testing.T) {
	out := vOpen(t)
	defer out.Close()
	out.Linef("model c06-fan 1")
	sigs := c06rSigs()
	n := vN(300)
	for _, c := range vCases(n) {
		rnd := vRand(c)
		out.Linef("case %d", c)
		k := 1 + rnd.IntN(5)
		all := make([]bool, k)
		for i := range all {
			all[i] = rnd.IntN(2) == 0
		}
		// a selection without repeats, biased towards small selections (1 pipeline is the interesting corner)
		m := 1 + rnd.IntN(k)
		if rnd.IntN(2) == 0 {
			m = 1
		}
		perm := rnd.Perm(k)
		sel := perm[:m]
		inputRO := rnd.IntN(2) == 0
		for _, sg := range sigs {
			c06rRun(out, sg, all, sel, inputRO)
		}
		if m == 1 && all[sel[0]] && inputRO {
			out.Linef("stat single_mutating_readonly 1")
		}
		out.Linef("nt")
		out.Linef("stat selected %d", m)
		out.Linef("end")
		out.Flush()
	}
	// exhaustive: every capability vector of <= 3 pipelines x every single selection x input mode
	c := 1000000
	for k := 1; k <= 3; k++ {
		for mask := 0; mask < 1<<k; mask++ {
			all := make([]bool, k)
			for i := range all {
				all[i] = mask&(1<<i) != 0
			}
			for s := 0; s < k; s++ {
				for _, ro := range []bool{false, true} {
					out.Linef("case %d", c)
					c++
					for _, sg := range sigs {
						c06rRun(out, sg, all, []int{s}, ro)
					}
					out.Linef("nt")
					out.Linef("end")
				}
			}
		}
	}
}
