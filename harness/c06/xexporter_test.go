//go:build verif

package xexporterhelper

import (
	"context"
	"strings"
	"testing"
	"time"

	"go.opentelemetry.io/collector/component"
	"go.opentelemetry.io/collector/consumer"
	"go.opentelemetry.io/collector/exporter/exporterhelper"
	"go.opentelemetry.io/collector/exporter/exportertest"
	"go.opentelemetry.io/collector/pdata/pprofile"
)

// the profiles flavour of TestVerifC06Exporter: exporters built with xexporterhelper.NewProfilesExporter from random option lists
// (own declarations in option order, batching through the sending queue's batch section or the legacy batcher, disabled variants)
func TestVerifC06XExporter(t *testing.T) {
	out := vOpen(t)
	defer out.Close()
	out.Linef("model c06-exp 1")
	ctx := context.Background()
	set := exportertest.NewNopSettings(component.MustNewType("c06xexp"))
	for _, c := range vCases(vN(200)) {
		rnd := vRand(c)
		out.Linef("case %d", c)
		for rep := 0; rep < 2; rep++ {
			type opt struct {
				tok string
				o   exporterhelper.Option
			}
			var opts []opt
			for k := rnd.IntN(3); k > 0; k-- {
				m := rnd.IntN(2) == 0
				opts = append(opts, opt{"cap" + map[bool]string{false: "0", true: "1"}[m], exporterhelper.WithCapabilities(consumer.Capabilities{MutatesData: m})})
			}
			batching := false
			switch rnd.IntN(7) {
			case 0:
				q := exporterhelper.NewDefaultQueueConfig()
				q.Batch = &exporterhelper.BatchConfig{FlushTimeout: time.Hour, MinSize: 100, MaxSize: 0}
				q.Sizer = exporterhelper.RequestSizerTypeItems
				opts = append(opts, opt{"queuebatch", exporterhelper.WithQueue(q)})
				batching = true
			case 1:
				b := exporterhelper.NewDefaultBatcherConfig() //nolint:staticcheck
				opts = append(opts, opt{"batcher", exporterhelper.WithBatcher(b)})
				batching = b.Enabled
			case 2:
				opts = append(opts, opt{"queue", exporterhelper.WithQueue(exporterhelper.NewDefaultQueueConfig())})
			case 3:
				q := exporterhelper.NewDefaultQueueConfig()
				q.Enabled = false
				q.Batch = &exporterhelper.BatchConfig{FlushTimeout: time.Hour, MinSize: 100, MaxSize: 0}
				q.Sizer = exporterhelper.RequestSizerTypeItems
				opts = append(opts, opt{"queueoff+batch", exporterhelper.WithQueue(q)})
			case 4:
				b := exporterhelper.NewDefaultBatcherConfig()
				b.Enabled = false
				opts = append(opts, opt{"batcheroff", exporterhelper.WithBatcher(b)})
			}
			if rnd.IntN(2) == 0 {
				opts = append(opts, opt{"timeout", exporterhelper.WithTimeout(exporterhelper.TimeoutConfig{Timeout: time.Second})})
			}
			rnd.Shuffle(len(opts), func(i, j int) { opts[i], opts[j] = opts[j], opts[i] })
			var toks []string
			var os []exporterhelper.Option
			decls := ""
			for _, o := range opts {
				toks = append(toks, o.tok)
				os = append(os, o.o)
				if strings.HasPrefix(o.tok, "cap") {
					decls += o.tok[3:]
				}
			}
			if len(toks) == 0 {
				toks = []string{"-"}
			}
			if decls == "" {
				decls = "-"
			}
			out.Linef("op exph sig=profiles decls=%s batching=%d opts=%s", decls, vB(batching), strings.Join(toks, ","))
			e, err := NewProfilesExporter(ctx, set, &struct{}{}, func(context.Context, pprofile.Profiles) error { return nil }, os...)
			if err != nil {
				out.Linef("obs error %s", vHex(err.Error()))
				continue
			}
			caps := e.Capabilities()
			out.Linef("obs cap %d", vB(caps.MutatesData))
			if batching && !caps.MutatesData {
				out.Linef("viol sig=C06/exporter/batching-exporter-not-advertised-mutating signal=profiles opts=%s", strings.Join(toks, ","))
			}
			if batching {
				out.Linef("stat batching 1")
			}
		}
		out.Linef("nt")
		out.Linef("end")
		out.Flush()
	}
}
