//go:build verif

package xprocessorhelper

import (
	"context"
	"strings"
	"testing"

	"go.opentelemetry.io/collector/component"
	"go.opentelemetry.io/collector/consumer"
	"go.opentelemetry.io/collector/consumer/consumertest"
	"go.opentelemetry.io/collector/pdata/pprofile"
	"go.opentelemetry.io/collector/processor/processortest"
)

// the profiles flavour of TestVerifC06Processor (xprocessorhelper has its own copy of fromOptions / WithCapabilities)
func TestVerifC06XProcessor(t *testing.T) {
	out := vOpen(t)
	defer out.Close()
	out.Linef("model c06-exp 1")
	ctx := context.Background()
	set := processortest.NewNopSettings(processortest.NopType)
	for _, c := range vCases(vN(200)) {
		rnd := vRand(c)
		out.Linef("case %d", c)
		for rep := 0; rep < 3; rep++ {
			var toks []string
			var opts []Option
			decls := ""
			for k := rnd.IntN(4); k > 0; k-- {
				switch rnd.IntN(4) {
				case 0:
					toks = append(toks, "start")
					opts = append(opts, WithStart(func(context.Context, component.Host) error { return nil }))
				case 1:
					toks = append(toks, "shutdown")
					opts = append(opts, WithShutdown(func(context.Context) error { return nil }))
				default:
					m := rnd.IntN(2) == 0
					toks = append(toks, "cap"+map[bool]string{false: "0", true: "1"}[m])
					opts = append(opts, WithCapabilities(consumer.Capabilities{MutatesData: m}))
					decls += map[bool]string{false: "0", true: "1"}[m]
				}
			}
			if decls == "" {
				decls = "-"
			}
			if len(toks) == 0 {
				toks = []string{"-"}
			}
			out.Linef("op proch x=1 sig=profiles decls=%s opts=%s", decls, strings.Join(toks, ","))
			p, err := NewProfiles(ctx, set, &struct{}{}, consumertest.NewNop(), func(_ context.Context, d pprofile.Profiles) (pprofile.Profiles, error) { return d, nil }, opts...)
			if err != nil {
				out.Linef("obs error")
				continue
			}
			caps := p.Capabilities()
			out.Linef("obs cap %d", vB(caps.MutatesData))
			if decls == "-" && !caps.MutatesData {
				out.Linef("viol sig=C06/processor/undeclared-processor-not-advertised-mutating signal=profiles opts=%s", strings.Join(toks, ","))
			}
			if decls == "-" {
				out.Linef("stat undeclared 1")
			}
		}
		out.Linef("nt")
		out.Linef("end")
		out.Flush()
	}
}
