//go:build verif

package xconnector

import (
	"context"
	"testing"

	"go.opentelemetry.io/collector/consumer"
	"go.opentelemetry.io/collector/consumer/xconsumer"
	"go.opentelemetry.io/collector/pdata/pcommon"
	"go.opentelemetry.io/collector/pdata/pprofile"
	"go.opentelemetry.io/collector/pipeline"
	"go.opentelemetry.io/collector/pipeline/xpipeline"
)

func c06rSigs() []c06rSig {
	return []c06rSig{
		{
			name: "profiles",
			newData: func() any {
				pd := pprofile.NewProfiles()
				rp := pd.ResourceProfiles().AppendEmpty()
				rp.Resource().Attributes().PutStr("k", "v")
				rp.ScopeProfiles().AppendEmpty().Profiles().AppendEmpty().Sample().AppendEmpty()
				return pd
			},
			marshal: func(d any) []byte { b, _ := (&pprofile.ProtoMarshaler{}).MarshalProfiles(d.(pprofile.Profiles)); return b },
			attrs:   func(d any) pcommon.Map { return d.(pprofile.Profiles).ResourceProfiles().At(0).Resource().Attributes() },
			markRO:  func(d any) { d.(pprofile.Profiles).MarkReadOnly() },
			isRO:    func(d any) bool { return d.(pprofile.Profiles).IsReadOnly() },
			route: func(all []bool, sel []int, cb func(int, any) error, later ...[]int) (func(any) error, bool, error) {
				ids := c06rIDs(xpipeline.SignalProfiles, len(all)+2)
				cm := map[pipeline.ID]xconsumer.Profiles{}
				for i, m := range all {
					i := i
					c, _ := xconsumer.NewProfiles(func(_ context.Context, pd pprofile.Profiles) error { return cb(i, pd) }, consumer.WithCapabilities(consumer.Capabilities{MutatesData: m}))
					cm[ids[i]] = c
				}
				var s []pipeline.ID
				for _, i := range sel {
					s = append(s, ids[i])
				}
				rt := NewProfilesRouter(cm)
				// the router must not keep using the caller's map: overwrite every entry with a foreign consumer (index -1)
				foreign, _ := xconsumer.NewProfiles(func(_ context.Context, d pprofile.Profiles) error { return cb(-1, d) })
				for k := range cm {
					cm[k] = foreign
				}
				c, err := rt.Consumer(s...)
				if err != nil {
					return nil, false, err
				}
				// further routes requested from the SAME router after this one (the consumer returned above is kept and used later)
				for _, l := range later {
					var ls []pipeline.ID
					for _, i := range l {
						ls = append(ls, ids[i])
					}
					_, _ = rt.Consumer(ls...)
				}
				return func(d any) error { return c.ConsumeProfiles(context.Background(), d.(pprofile.Profiles)) }, c.Capabilities().MutatesData, nil
			},
		},
	}
}

func TestVerifC06XRouter(t *testing.T) { c06rMain(t, c06rSigs()) }
