//go:build verif

package plog

import (
	"bytes"
	"fmt"
	"math"
	"reflect"
	"sort"
	"strings"
	"testing"
	"unsafe"

	"go.opentelemetry.io/collector/pdata/pcommon"
	"go.opentelemetry.io/collector/pdata/pmetric"
	"go.opentelemetry.io/collector/pdata/ptrace"
)

// ALL generated message structs and the payload types, driven by REFLECTION over the public API (no per-type code):
// a generic canonical dump (every getter, recursively through slices, maps, values, nested messages) and a generic
// random fill (every setter, one-of selectors, optional removers, AppendEmpty / RemoveIf / EnsureCapacity on slices,
// Put / Remove on maps, FromRaw on primitive slices and TraceState).  Exact oracles, per case and type:
//   copy     src.CopyTo(dst) into an ARBITRARILY pre-filled dst: dump(dst) == dump(src) before, source unchanged;
//            then re-filling the source must not change the copy, and vice versa (independence);
//   move     src.MoveTo(dst): dump(dst) == dump(src) before, dump(src) == dump(New()); then independence both ways;
//   readonly (payload types) fill, MarkReadOnly, then random mutators at random positions reached through the accessors:
//            every one must panic, the payload's dump must not change, all readers keep working.
// lib/props/c07.py checks the `type=` names of the run against the regenerated Gen/PdataMsg.lean.

// ---- table

var g7table = []struct {
	name string
	mk   func() any
}{
	{"pcommon.InstrumentationScope", func() any { return pcommon.NewInstrumentationScope() }},
	{"pcommon.Resource", func() any { return pcommon.NewResource() }},
	{"pcommon.TraceState", func() any { return pcommon.NewTraceState() }},
	{"plog.LogRecord", func() any { return NewLogRecord() }},
	{"plog.ResourceLogs", func() any { return NewResourceLogs() }},
	{"plog.ScopeLogs", func() any { return NewScopeLogs() }},
	{"plog.Logs", func() any { return NewLogs() }},
	{"pmetric.Exemplar", func() any { return pmetric.NewExemplar() }},
	{"pmetric.ExponentialHistogram", func() any { return pmetric.NewExponentialHistogram() }},
	{"pmetric.ExponentialHistogramDataPoint", func() any { return pmetric.NewExponentialHistogramDataPoint() }},
	{"pmetric.ExponentialHistogramDataPointBuckets", func() any { return pmetric.NewExponentialHistogramDataPointBuckets() }},
	{"pmetric.Gauge", func() any { return pmetric.NewGauge() }},
	{"pmetric.Histogram", func() any { return pmetric.NewHistogram() }},
	{"pmetric.HistogramDataPoint", func() any { return pmetric.NewHistogramDataPoint() }},
	{"pmetric.Metric", func() any { return pmetric.NewMetric() }},
	{"pmetric.NumberDataPoint", func() any { return pmetric.NewNumberDataPoint() }},
	{"pmetric.ResourceMetrics", func() any { return pmetric.NewResourceMetrics() }},
	{"pmetric.ScopeMetrics", func() any { return pmetric.NewScopeMetrics() }},
	{"pmetric.Sum", func() any { return pmetric.NewSum() }},
	{"pmetric.Summary", func() any { return pmetric.NewSummary() }},
	{"pmetric.SummaryDataPoint", func() any { return pmetric.NewSummaryDataPoint() }},
	{"pmetric.SummaryDataPointValueAtQuantile", func() any { return pmetric.NewSummaryDataPointValueAtQuantile() }},
	{"pmetric.Metrics", func() any { return pmetric.NewMetrics() }},
	{"ptrace.ResourceSpans", func() any { return ptrace.NewResourceSpans() }},
	{"ptrace.ScopeSpans", func() any { return ptrace.NewScopeSpans() }},
	{"ptrace.Span", func() any { return ptrace.NewSpan() }},
	{"ptrace.SpanEvent", func() any { return ptrace.NewSpanEvent() }},
	{"ptrace.SpanLink", func() any { return ptrace.NewSpanLink() }},
	{"ptrace.Status", func() any { return ptrace.NewStatus() }},
	{"ptrace.Traces", func() any { return ptrace.NewTraces() }},
}

// ---- end of table

type g7rnd interface{ IntN(int) int }

var g7skip = map[string]bool{"All": true, "IsReadOnly": true, "MarkReadOnly": true, "Range": true, "AsString": true}

func g7has(t reflect.Type, m string) bool { _, ok := t.MethodByName(m); return ok }

// pcommon leaf containers are dumped / filled through their raw form
func g7leaf(t reflect.Type) bool {
	return strings.HasSuffix(t.PkgPath(), "pdata/pcommon") && (t.Name() == "Map" || t.Name() == "Value" || t.Name() == "Slice" ||
		t.Name() == "TraceState" || (strings.HasSuffix(t.Name(), "Slice") && g7has(t, "FromRaw")))
}

func g7wrapper(t reflect.Type) bool {
	return t.Kind() == reflect.Struct && strings.Contains(t.PkgPath(), "collector/pdata") && (g7has(t, "CopyTo") || g7has(t, "MoveTo"))
}

func g7basic(t reflect.Type) bool {
	switch k := t.Kind(); {
	case k == reflect.Bool, k >= reflect.Int && k <= reflect.Float64, k == reflect.String:
		return true
	case k == reflect.Array && t.Elem().Kind() == reflect.Uint8:
		return true
	}
	return false
}

func g7methods(t reflect.Type) []string {
	var ns []string
	for i := 0; i < t.NumMethod(); i++ {
		ns = append(ns, t.Method(i).Name)
	}
	sort.Strings(ns)
	return ns
}

func g7dump(sb *strings.Builder, v reflect.Value, depth int) {
	defer func() {
		if r := recover(); r != nil {
			sb.WriteString("!") // a getter of a one-of alternative that is not the current one
		}
	}()
	t := v.Type()
	if depth > 12 {
		sb.WriteString("<deep>")
		return
	}
	if g7leaf(t) {
		fmt.Fprintf(sb, "%v", v.MethodByName("AsRaw").Call(nil)[0].Interface())
		return
	}
	if g7has(t, "Len") && g7has(t, "At") {
		n := int(v.MethodByName("Len").Call(nil)[0].Int())
		sb.WriteString("[")
		for i := 0; i < n; i++ {
			g7dump(sb, v.MethodByName("At").Call([]reflect.Value{reflect.ValueOf(i)})[0], depth+1)
			sb.WriteString(";")
		}
		sb.WriteString("]")
		return
	}
	sb.WriteString(t.Name() + "{")
	for _, n := range g7methods(t) {
		m := v.MethodByName(n)
		if g7skip[n] || m.Type().NumIn() != 0 || m.Type().NumOut() != 1 || strings.HasPrefix(n, "SetEmpty") || strings.HasPrefix(n, "AppendEmpty") {
			continue
		}
		ot := m.Type().Out(0)
		switch {
		case g7basic(ot):
			fmt.Fprintf(sb, "%s=%v,", n, m.Call(nil)[0].Interface())
		case g7leaf(ot) || g7wrapper(ot):
			sb.WriteString(n + "=")
			var in strings.Builder
			g7dump(&in, m.Call(nil)[0], depth+1)
			sb.WriteString(in.String() + ",")
		}
	}
	sb.WriteString("}")
}

func g7str(v reflect.Value) string {
	var sb strings.Builder
	g7dump(&sb, v, 0)
	return sb.String()
}

// g7rand: a random scalar; one draw in three is an EXTREME of its kind (0, 1, -1, min / max of the width, MaxInt64 and
// MaxInt64+1 as unsigned, NaN, +-Inf, -0.0, the largest and smallest floats, the empty and a very long string)
func g7rand(r g7rnd, t reflect.Type) reflect.Value {
	x := reflect.New(t).Elem()
	extreme := r.IntN(3) == 0
	switch k := t.Kind(); {
	case k == reflect.Bool:
		x.SetBool(r.IntN(2) == 0)
	case k >= reflect.Int && k <= reflect.Int64:
		if extreme {
			bits := uint(t.Bits())
			max := int64(1)<<(bits-1) - 1
			x.SetInt([]int64{0, 1, -1, max, -max - 1, max - 1}[r.IntN(6)])
		} else {
			x.SetInt(int64(r.IntN(4)))
		}
	case k >= reflect.Uint && k <= reflect.Uintptr:
		if extreme {
			bits := uint(t.Bits())
			all := ^uint64(0) >> (64 - bits)
			x.SetUint([]uint64{0, 1, all, all >> 1, all>>1 + 1, all - 1}[r.IntN(6)])
		} else {
			x.SetUint(uint64(r.IntN(50)))
		}
	case k == reflect.Float32, k == reflect.Float64:
		if extreme {
			x.SetFloat([]float64{math.NaN(), math.Inf(1), math.Inf(-1), math.Copysign(0, -1), math.MaxFloat64, math.SmallestNonzeroFloat64, -1}[r.IntN(7)])
		} else {
			x.SetFloat(float64(r.IntN(50)) / 2)
		}
	case k == reflect.String:
		if extreme {
			x.SetString([]string{"", strings.Repeat("long-", 400), "\u00e9\u4e16\x00 "}[r.IntN(3)])
		} else {
			x.SetString(fmt.Sprint("s", r.IntN(9)))
		}
	case k == reflect.Array:
		if extreme {
			for i := 0; i < x.Len(); i++ {
				x.Index(i).SetUint([]uint64{0, 255}[r.IntN(2)])
			}
		} else {
			x.Index(0).SetUint(uint64(1 + r.IntN(200)))
		}
	}
	return x
}

// g7orig: the protobuf struct behind a wrapper, writable (reflection through the unexported `orig` field)
func g7orig(v reflect.Value) (o reflect.Value, ok bool) {
	defer func() {
		if recover() != nil {
			ok = false
		}
	}()
	if v.Kind() != reflect.Struct {
		return o, false
	}
	f := v.FieldByName("orig")
	if !f.IsValid() || f.Kind() != reflect.Ptr || f.IsNil() || f.Elem().Kind() != reflect.Struct {
		return o, false
	}
	e := f.Elem()
	return reflect.NewAt(e.Type(), unsafe.Pointer(e.UnsafeAddr())).Elem(), true
}

// g7poke plants scalar values DIRECTLY in the protobuf struct (what arrives from the wire): values a setter would
// reject, clamp or cannot express — negative nanoseconds behind an unsigned Timestamp, out-of-range enums, negative
// indices — are then present at a copy's source.
var g7poked int // fields written by g7poke since the last report

func g7poke(r g7rnd, v reflect.Value) {
	o, ok := g7orig(v)
	if !ok {
		return
	}
	for i := 0; i < o.NumField(); i++ {
		f := o.Field(i)
		if !o.Type().Field(i).IsExported() || r.IntN(2) == 0 {
			continue
		}
		switch k := f.Kind(); {
		case k >= reflect.Int && k <= reflect.Int64, k >= reflect.Uint && k <= reflect.Uint64, k == reflect.Float32, k == reflect.Float64, k == reflect.String:
			x := g7rand(r, f.Type())
			for tries := 0; tries < 4 && r.IntN(2) == 0; tries++ { // lean towards the extremes
				x = g7rand(r, f.Type())
			}
			f.Set(x)
			g7poked++
		}
	}
}

// g7bytes: the canonical protobuf encoding of the struct behind a wrapper (nil if it has none)
func g7bytes(v reflect.Value) (b []byte) {
	defer func() {
		if recover() != nil {
			b = nil
		}
	}()
	o, ok := g7orig(v)
	if !ok {
		return nil
	}
	m := o.Addr().MethodByName("Marshal")
	if !m.IsValid() {
		return nil
	}
	out := m.Call(nil)
	if !out[1].IsNil() {
		return nil
	}
	return out[0].Bytes()
}

func g7raw(r g7rnd, depth int) any {
	switch q := r.IntN(7); {
	case q == 0 && depth < 2:
		return map[string]any{fmt.Sprint("k", r.IntN(3)): g7raw(r, depth+1), "b": []byte{byte(r.IntN(200))}}
	case q == 1 && depth < 2:
		return []any{g7raw(r, depth+1), "x"}
	case q == 2:
		return []byte{byte(r.IntN(200)), byte(r.IntN(200))}
	case q == 3:
		return int64(r.IntN(50))
	default:
		return fmt.Sprint("v", r.IntN(9))
	}
}

func g7fillLeaf(r g7rnd, v reflect.Value) {
	switch x := v.Interface().(type) {
	case pcommon.Map:
		for i := r.IntN(4); i > 0; i-- {
			_ = x.PutEmpty(fmt.Sprint("k", r.IntN(5))).FromRaw(g7raw(r, 0))
		}
		if r.IntN(3) == 0 {
			x.Remove(fmt.Sprint("k", r.IntN(5)))
		}
		if r.IntN(4) == 0 {
			x.EnsureCapacity(x.Len() + r.IntN(3))
		}
	case pcommon.Value:
		_ = x.FromRaw(g7raw(r, 0))
	case pcommon.Slice:
		for i := r.IntN(3); i > 0; i-- {
			_ = x.AppendEmpty().FromRaw(g7raw(r, 0))
		}
		if r.IntN(3) == 0 {
			k := 0
			x.RemoveIf(func(pcommon.Value) bool { k++; return k == 1 })
		}
	case pcommon.TraceState:
		x.FromRaw(fmt.Sprintf("k%d=v%d", r.IntN(5), r.IntN(5)))
	default: // primitive slices
		fr := v.MethodByName("FromRaw")
		st := fr.Type().In(0)
		n := r.IntN(4)
		raw := reflect.MakeSlice(st, n, n)
		for i := 0; i < n; i++ {
			raw.Index(i).Set(g7rand(r, st.Elem()))
		}
		fr.Call([]reflect.Value{raw})
	}
}

// g7force: populate everything (every slice gets an element, every one-of an alternative, every container is entered)
var g7force bool

// g7fill mutates v at random through every public mutator it finds (recursively)
func g7fill(r g7rnd, v reflect.Value, depth int) {
	defer func() { _ = recover() }() // invalid one-of wrappers
	t := v.Type()
	if g7leaf(t) {
		g7fillLeaf(r, v)
		return
	}
	if g7has(t, "Len") && g7has(t, "At") { // element slice
		if r.IntN(4) == 0 && g7has(t, "RemoveIf") {
			rm := v.MethodByName("RemoveIf")
			k := 0
			rm.Call([]reflect.Value{reflect.MakeFunc(rm.Type().In(0), func([]reflect.Value) []reflect.Value {
				k++
				return []reflect.Value{reflect.ValueOf(k%2 == 1)}
			})})
		}
		if r.IntN(4) == 0 {
			n := int(v.MethodByName("Len").Call(nil)[0].Int())
			v.MethodByName("EnsureCapacity").Call([]reflect.Value{reflect.ValueOf(n + r.IntN(3))})
		}
		if depth < 13 {
			k := r.IntN(3)
			if depth >= 7 && k > 1 { // keep deep payload trees small
				k = 1
			}
			if k == 0 && int(v.MethodByName("Len").Call(nil)[0].Int()) == 0 && (g7force || r.IntN(4) != 0) {
				k = 1
			}
			for i := k; i > 0; i-- {
				v.MethodByName("AppendEmpty").Call(nil)
			}
		}
		n := int(v.MethodByName("Len").Call(nil)[0].Int())
		for i := 0; i < n; i++ {
			if g7force || r.IntN(3) != 0 {
				g7fill(r, v.MethodByName("At").Call([]reflect.Value{reflect.ValueOf(i)})[0], depth+1)
			}
		}
		return
	}
	names := g7methods(t)
	var selectors []string
	defer func() { // last: wire-level values that no setter produces
		if r.IntN(3) == 0 {
			g7poke(r, v)
		}
	}()
	for _, n := range names { // setters, one-of selectors, optional removers
		m := v.MethodByName(n)
		switch {
		case strings.HasPrefix(n, "SetEmpty") && m.Type().NumIn() == 0:
			selectors = append(selectors, n)
		case strings.HasPrefix(n, "Set") && m.Type().NumIn() == 1 && g7basic(m.Type().In(0)):
			if r.IntN(3) != 0 {
				m.Call([]reflect.Value{g7rand(r, m.Type().In(0))})
			}
		case strings.HasPrefix(n, "Remove") && m.Type().NumIn() == 0:
			if r.IntN(4) == 0 {
				m.Call(nil)
			}
		}
	}
	if len(selectors) > 0 && (g7force || r.IntN(2) == 0) { // one-of: select ONE alternative at random
		v.MethodByName(selectors[r.IntN(len(selectors))]).Call(nil)
	}
	for _, n := range names { // owned containers and nested messages
		m := v.MethodByName(n)
		if g7skip[n] || m.Type().NumIn() != 0 || m.Type().NumOut() != 1 || strings.HasPrefix(n, "SetEmpty") || strings.HasPrefix(n, "AppendEmpty") {
			continue
		}
		if ot := m.Type().Out(0); (g7leaf(ot) || g7wrapper(ot)) && (g7force || r.IntN(4) != 0) {
			func() {
				defer func() { _ = recover() }()
				g7fill(r, m.Call(nil)[0], depth+1)
			}()
		}
	}
}

func g7panics(f func()) (p bool) {
	defer func() {
		if recover() != nil {
			p = true
		}
	}()
	f()
	return false
}

var g7mut = []string{"Set", "Put", "Remove", "Append", "MoveTo", "MoveAndAppendTo", "CopyTo", "EnsureCapacity", "Sort", "Clear", "FromRaw"}

// g7valid: the wrapper is backed by data (a getter of a one-of alternative that is not the current one returns a wrapper
// without orig: its own readers panic)
func g7valid(c reflect.Value) bool {
	t := c.Type()
	return !g7panics(func() {
		if g7has(t, "Len") {
			c.MethodByName("Len").Call(nil)
		}
		if g7leaf(t) {
			c.MethodByName("AsRaw").Call(nil)
			return
		}
		for _, n := range g7methods(t) {
			m := c.MethodByName(n)
			if g7skip[n] || m.Type().NumIn() != 0 || m.Type().NumOut() != 1 || strings.HasPrefix(n, "SetEmpty") || strings.HasPrefix(n, "AppendEmpty") {
				continue
			}
			if ot := m.Type().Out(0); g7basic(ot) || g7leaf(ot) || g7wrapper(ot) { // an accessor of a wrapper without orig dereferences nil
				m.Call(nil)
			}
		}
	})
}

// g7children: the positions reachable from v through one accessor (every getter of a wrapper, first and last
// element of a slice, every value of a map, the container of a value)
func g7children(v reflect.Value) (next []reflect.Value, labels []string) {
	t := v.Type()
	if g7has(t, "Len") && g7has(t, "At") && !g7leaf(t) {
		n := int(v.MethodByName("Len").Call(nil)[0].Int())
		for _, i := range []int{0, n - 1} {
			if i >= 0 && i < n && (i == 0 || n > 1) {
				next = append(next, v.MethodByName("At").Call([]reflect.Value{reflect.ValueOf(i)})[0])
				labels = append(labels, fmt.Sprint("At(", i, ")"))
			}
		}
	} else if !g7leaf(t) {
		for _, n := range g7methods(t) {
			m := v.MethodByName(n)
			if g7skip[n] || m.Type().NumIn() != 0 || m.Type().NumOut() != 1 || strings.HasPrefix(n, "SetEmpty") || strings.HasPrefix(n, "AppendEmpty") {
				continue
			}
			if ot := m.Type().Out(0); g7leaf(ot) || g7wrapper(ot) {
				var c reflect.Value
				if !g7panics(func() { c = m.Call(nil)[0] }) && g7valid(c) {
					next = append(next, c)
					labels = append(labels, n+"()")
				}
			}
		}
	} else if mp, ok := v.Interface().(pcommon.Map); ok {
		mp.Range(func(k string, x pcommon.Value) bool {
			next = append(next, reflect.ValueOf(x))
			labels = append(labels, "Get("+k+")")
			return true
		})
	} else if val, ok := v.Interface().(pcommon.Value); ok {
		switch val.Type() {
		case pcommon.ValueTypeMap:
			next, labels = append(next, reflect.ValueOf(val.Map())), append(labels, "Map()")
		case pcommon.ValueTypeSlice:
			next, labels = append(next, reflect.ValueOf(val.Slice())), append(labels, "Slice()")
		case pcommon.ValueTypeBytes:
			next, labels = append(next, reflect.ValueOf(val.Bytes())), append(labels, "Bytes()")
		}
	} else if sl, ok := v.Interface().(pcommon.Slice); ok {
		for i := 0; i < sl.Len(); i++ {
			next, labels = append(next, reflect.ValueOf(sl.At(i))), append(labels, fmt.Sprint("At(", i, ")"))
		}
	}
	return next, labels
}

// g7mutators: every public mutator of the value at a position, as a thunk; a CopyTo is called with the position as DESTINATION
func g7mutators(r g7rnd, v reflect.Value) (names []string, calls []func()) {
	t := v.Type()
	for _, n := range g7methods(t) {
		isMut := false
		for _, p := range g7mut {
			if strings.HasPrefix(n, p) {
				isMut = true
			}
		}
		if !isMut {
			continue
		}
		m := v.MethodByName(n)
		recv, args := m, []reflect.Value{}
		ok := true
		for i := 0; i < m.Type().NumIn(); i++ {
			it := m.Type().In(i)
			mk, found := g7ctor[t]
			switch {
			case it == t && n == "CopyTo":
				if found {
					recv, args = reflect.ValueOf(mk()).MethodByName("CopyTo"), []reflect.Value{v}
				} else {
					ok = false
				}
			case it == t:
				if found {
					args = append(args, reflect.ValueOf(mk()))
				} else {
					ok = false
				}
			case it.Kind() == reflect.Func:
				args = append(args, reflect.MakeFunc(it, func([]reflect.Value) []reflect.Value { return []reflect.Value{reflect.ValueOf(false)} }))
			case it.Kind() == reflect.Slice && m.Type().IsVariadic():
				args = append(args, g7rand(r, it.Elem()))
			case it.Kind() == reflect.Slice:
				args = append(args, reflect.MakeSlice(it, 1, 1))
			case it.Kind() == reflect.Interface:
				args = append(args, reflect.ValueOf("raw"))
			case it.Kind() == reflect.Map:
				args = append(args, reflect.ValueOf(map[string]any{"a": "b"}))
			case g7basic(it):
				args = append(args, g7rand(r, it))
			default:
				ok = false
			}
		}
		if ok {
			recv, args := recv, args
			names = append(names, n)
			calls = append(calls, func() { recv.Call(args) })
			if mk, found := g7ctor[t]; found && (n == "MoveTo" || n == "MoveAndAppendTo") { // also with the position as DESTINATION
				fresh := reflect.ValueOf(mk())
				names = append(names, n+"[as destination]")
				calls = append(calls, func() { fresh.MethodByName(n).Call([]reflect.Value{v}) })
			}
		}
	}
	return names, calls
}

var g7visited = map[string]int{}

// g7roSweep: EVERY mutator at EVERY position reachable through the accessors of a read-only payload must panic
func g7roSweep(r g7rnd, v reflect.Value, path string, depth int, report func(sig, call string), count *int) {
	if depth > 16 {
		return
	}
	t := v.Type()
	tn := t.Name()
	own := func() string { return g7str(v) }
	small := len(own()) < 6000
	// (1) every mutator at this position must panic and change nothing
	names, calls := g7mutators(r, v)
	g7visited[tn] += len(calls)
	before := own()
	for i, c := range calls {
		*count++
		panicked := g7panics(c)
		if g7hook != nil {
			role, nm := "recv", names[i]
			if strings.HasSuffix(nm, "[as destination]") {
				role, nm = "dest", strings.TrimSuffix(nm, "[as destination]")
			} else if nm == "CopyTo" {
				role = "dest"
			}
			g7hook(t, nm, role, "mut", panicked)
		}
		if !panicked {
			report("C07/allmsgs/mutator-on-read-only-did-not-panic", path+"."+names[i])
		}
		if small {
			if now := own(); now != before {
				report("C07/readonly/panicking-op-changed-something/"+tn+"."+names[i], path+"."+names[i])
				before = now
			}
		}
	}
	if !small && own() != before {
		report("C07/readonly/panicking-op-changed-something/"+tn+".*", path)
	}
	// (2) readers keep working: every getter of a valid position, and CopyTo FROM the read-only value into a mutable,
	// arbitrarily pre-filled destination (how a consumer gets its mutable clone): must not panic, must yield an equal copy;
	// if it does panic it must at least have left the destination alone
	if !g7leaf(t) && !(g7has(t, "Len") && g7has(t, "At")) {
		for _, n := range g7methods(t) {
			m := v.MethodByName(n)
			if !g7skip[n] && m.Type().NumIn() == 0 && m.Type().NumOut() == 1 && g7basic(m.Type().Out(0)) {
				panicked := g7panics(func() { m.Call(nil) })
				if g7hook != nil {
					g7hook(t, n, "recv", "read", panicked)
				}
				if panicked {
					report("C07/readonly/reader-panicked/"+tn+"."+n, path+"."+n)
				}
			}
		}
	}
	if mk, found := g7ctor[t]; found && g7has(t, "CopyTo") {
		dst := reflect.ValueOf(mk())
		g7fill(r, dst, 8)
		d0 := g7str(dst)
		g7copied[tn]++
		cpPanicked := g7panics(func() { v.MethodByName("CopyTo").Call([]reflect.Value{dst}) })
		if g7hook != nil {
			g7hook(t, "CopyTo", "src", "read", cpPanicked)
		}
		if cpPanicked {
			report("C07/readonly/reader-panicked/"+tn+".CopyTo", path+".CopyTo(<mutable destination>)")
			if g7str(dst) != d0 {
				report("C07/readonly/panicking-op-changed-something/"+tn+".CopyTo", path+".CopyTo(<mutable destination>)")
			}
		} else if got := g7str(dst); got != before {
			report("C07/allmsgs/copy-from-read-only-differs-from-source/"+tn, path+".CopyTo want="+before+" got="+got)
		} else if a, b := g7bytes(v), g7bytes(dst); a != nil && b != nil && !bytes.Equal(a, b) {
			report("C07/allmsgs/copy-from-read-only-marshals-differently/"+tn, path+".CopyTo")
		} else if g7panics(func() { g7fill(r, dst, 8) }) { // the clone is mutable
			report("C07/allmsgs/clone-of-read-only-is-not-mutable/"+tn, path)
		}
		if own() != before {
			report("C07/readonly/reader-changed-read-only-data/"+tn+".CopyTo", path)
		}
	}
	next, labels := g7children(v)
	for i, c := range next {
		if strings.HasPrefix(labels[i], "Exemplars") {
			g7copied["exemplars_under_"+tn]++
		}
		acc := labels[i]
		if k := strings.Index(acc, "("); k >= 0 {
			acc = acc[:k]
		}
		g7stack = append(g7stack, acc)
		g7roSweep(r, c, path+"."+labels[i], depth+1, report, count)
		g7stack = g7stack[:len(g7stack)-1]
	}
}

// g7hook, when set, is told of EVERY call the read-only sweep makes (type at the position, method, role of the position in the
// call, mutator or reader, did it panic); g7stack = the accessor names leading from the payload to the position
var g7hook func(t reflect.Type, meth, role, kind string, panicked bool)
var g7stack []string

// TestVerifC07RoState: the read-only sweep as a differential against the Lean state-propagation model (model c07-state): the Lean side
// follows the same accessor path through the method table regenerated from the source (whose state each child wrapper gets) and
// runs the leading AssertMutable statements of the called method (whose state each checks)
func TestVerifC07RoState(t *testing.T) {
	out := vOpen(t)
	defer out.Close()
	out.Linef("model c07-state 1")
	g7init()
	type g7entry = struct {
		name string
		mk   func() any
	}
	var payloads []g7entry
	for _, e := range g7table {
		if g7has(reflect.TypeOf(e.mk()), "MarkReadOnly") {
			payloads = append(payloads, e)
		}
	}
	n := vN(len(payloads) * 3)
	for _, c := range vCases(n) {
		rnd := vRand(c)
		ent := payloads[c%len(payloads)]
		out.Linef("case %d type=%s", c, ent.name)
		p := reflect.ValueOf(ent.mk())
		for i := 0; i < 2; i++ {
			g7fill(rnd, p, 0)
		}
		g7force = true
		g7fill(rnd, p, 0)
		g7force = false
		before := g7str(p)
		p.MethodByName("MarkReadOnly").Call(nil)
		calls := 0
		g7stack = g7stack[:0]
		g7hook = func(t reflect.Type, meth, role, kind string, panicked bool) {
			path := "-"
			if len(g7stack) > 0 {
				path = strings.Join(g7stack, "/")
			}
			out.Linef("op call root=%s path=%s type=%s meth=%s role=%s kind=%s", ent.name, path, t.String(), meth, role, kind)
			out.Linef("obs panicked=%d", map[bool]int{false: 0, true: 1}[panicked])
			calls++
		}
		count := 0
		g7roSweep(rnd, p, p.Type().Name(), 0, func(sig, call string) { out.Linef("viol sig=%s type=%s call=%s", sig, ent.name, call) }, &count)
		g7hook = nil
		if got := g7str(p); got != before {
			out.Linef("viol sig=C07/state/read-only-payload-changed type=%s", ent.name)
		}
		out.Linef("stat state_calls %d", calls)
		g7visited = map[string]int{}
		g7copied = map[string]int{}
		if calls > 0 {
			out.Linef("nt")
		}
		out.Linef("end")
		out.Flush()
	}
}

var g7copied = map[string]int{}

// constructors of values needed as arguments (fresh sources / destinations)
var g7ctor = map[reflect.Type]func() any{}

func g7register(mk func() any) {
	v := reflect.ValueOf(mk())
	g7ctor[v.Type()] = mk
}

func g7init() {
	for _, e := range g7table {
		g7register(e.mk)
	}
	for _, mk := range []func() any{
		func() any { return pcommon.NewMap() }, func() any { return pcommon.NewSlice() }, func() any { return pcommon.NewValueEmpty() },
		func() any { return pcommon.NewByteSlice() }, func() any { return pcommon.NewFloat64Slice() }, func() any { return pcommon.NewUInt64Slice() },
		func() any { return pcommon.NewInt32Slice() }, func() any { return pcommon.NewInt64Slice() }, func() any { return pcommon.NewStringSlice() },
	} {
		g7register(mk)
	}
	for _, e := range a7table { // the generated slices (table of the allslices harness, same package)
		g7register(e.mk)
	}
}

func TestVerifC07AllMsgs(t *testing.T) {
	out := vOpen(t)
	defer out.Close()
	out.Linef("model c07-allmsgs 1")
	g7init()
	n := vN(len(g7table) * 10)
	for _, c := range vCases(n) {
		rnd := vRand(c)
		ent := g7table[c%len(g7table)]
		out.Linef("case %d type=%s", c, ent.name)
		out.Linef("op msg %s %d", ent.name, c/len(g7table))
		viol := func(sig, detail string) { out.Linef("viol sig=C07/allmsgs/%s type=%s %s", sig, ent.name, detail) }
		src, dst := reflect.ValueOf(ent.mk()), reflect.ValueOf(ent.mk())
		g7fill(rnd, src, 0)
		g7fill(rnd, dst, 0)
		if g7has(src.Type(), "CopyTo") {
			before := g7str(src)
			beforeB := g7bytes(src)
			if g7panics(func() { src.MethodByName("CopyTo").Call([]reflect.Value{dst}) }) {
				viol("copy-unexpected-panic", "")
			} else {
				if got := g7str(dst); got != before {
					viol("copy-differs-from-source", "want="+before+" got="+got)
				} else if gotB := g7bytes(dst); beforeB != nil && gotB != nil && !bytes.Equal(gotB, beforeB) {
					viol("copy-marshals-differently-from-source", fmt.Sprintf("want=%x got=%x", beforeB, gotB))
				}
				if beforeB != nil {
					out.Linef("stat copies_compared_by_bytes 1")
				}
				if g7str(src) != before {
					viol("copy-changed-source", "")
				}
				g7fill(rnd, src, 0)
				if g7str(dst) != before {
					viol("mutating-source-changed-copy", "")
				}
				s2 := g7str(src)
				g7fill(rnd, dst, 0)
				if g7str(src) != s2 {
					viol("mutating-copy-changed-source", "")
				}
			}
			out.Linef("stat copies 1")
			out.Linef("stat structs_poked %d", g7poked)
			g7poked = 0
		}
		if g7has(src.Type(), "MoveTo") {
			g7fill(rnd, src, 0)
			before, fresh := g7str(src), g7str(reflect.ValueOf(ent.mk()))
			beforeB := g7bytes(src)
			if g7panics(func() { src.MethodByName("MoveTo").Call([]reflect.Value{dst}) }) {
				viol("move-unexpected-panic", "")
			} else {
				if got := g7str(dst); got != before {
					viol("move-destination-differs-from-source", "want="+before+" got="+got)
				} else if gotB := g7bytes(dst); beforeB != nil && gotB != nil && !bytes.Equal(gotB, beforeB) {
					viol("move-marshals-differently-from-source", fmt.Sprintf("want=%x got=%x", beforeB, gotB))
				}
				if got := g7str(src); got != fresh {
					viol("move-source-not-empty", "got="+got)
				}
				g7fill(rnd, src, 0)
				if g7str(dst) != before {
					viol("refilling-moved-from-source-changed-destination", "")
				}
				s2 := g7str(src)
				g7fill(rnd, dst, 0)
				if g7str(src) != s2 {
					viol("editing-destination-changed-moved-from-source", "")
				}
			}
			out.Linef("stat moves 1")
		}
		if g7has(src.Type(), "MarkReadOnly") { // payload: random mutators at random positions of a read-only payload
			for inst := 0; inst < 1; inst++ {
				p := reflect.ValueOf(ent.mk())
				for i := 0; i < 2; i++ {
					g7fill(rnd, p, 0)
				}
				g7force = true // then populate everything, so that every accessor of the tree leads somewhere
				g7fill(rnd, p, 0)
				g7force = false
				before := g7str(p)
				p.MethodByName("MarkReadOnly").Call(nil)
				count := 0
				g7roSweep(rnd, p, p.Type().Name(), 0, func(sig, call string) { out.Linef("viol sig=%s type=%s call=%s", sig, ent.name, call) }, &count)
				out.Linef("stat ro_mutator_calls %d", count)
				if got := g7str(p); got != before {
					viol("read-only-payload-changed", "")
				}
			}
			for k, n := range g7visited {
				out.Linef("stat ro_at_%s %d", k, n)
			}
			g7visited = map[string]int{}
			for k, n := range g7copied {
				out.Linef("stat ro_copy_from_%s %d", k, n)
			}
			g7copied = map[string]int{}
		}
		out.Linef("nt")
		out.Linef("end")
		out.Flush()
	}
}
