//go:build verif

package pcommon

import (
	"fmt"
	"reflect"
	"strconv"
	"strings"
	"testing"
)

// ALL primitive slices, driven by reflection through the part-D differential (model `c07-prim`): Append, SetAt,
// EnsureCapacity, FromRaw, CopyTo, MoveTo over 2-4 handles of ONE primitive slice type per case (the case index
// selects the type); content and capacity of every handle after every op.  lib/props/c07.py checks the `type=`
// names of the run against the regenerated Gen/PdataSlices.lean.

var q7table = []struct {
	name string
	mk   func() any
}{
	{"ByteSlice", func() any { return NewByteSlice() }},
	{"Float64Slice", func() any { return NewFloat64Slice() }},
	{"Int32Slice", func() any { return NewInt32Slice() }},
	{"Int64Slice", func() any { return NewInt64Slice() }},
	{"IntSlice", func() any { return NewIntSlice() }},
	{"StringSlice", func() any { return NewStringSlice() }},
	{"UInt64Slice", func() any { return NewUInt64Slice() }},
}

func q7item(t reflect.Type, v int) reflect.Value {
	x := reflect.New(t).Elem()
	switch k := t.Kind(); {
	case k >= reflect.Int && k <= reflect.Int64:
		x.SetInt(int64(v))
	case k >= reflect.Uint && k <= reflect.Uint64:
		x.SetUint(uint64(v))
	case k == reflect.Float64:
		x.SetFloat(float64(v))
	default:
		x.SetString(strconv.Itoa(v))
	}
	return x
}

func q7read(x reflect.Value) uint64 {
	switch k := x.Kind(); {
	case k >= reflect.Int && k <= reflect.Int64:
		return uint64(x.Int())
	case k >= reflect.Uint && k <= reflect.Uint64:
		return x.Uint()
	case k == reflect.Float64:
		return uint64(x.Float())
	default:
		n, _ := strconv.Atoi(x.String())
		return uint64(n)
	}
}

func TestVerifC07AllPrims(t *testing.T) {
	out := vOpen(t)
	defer out.Close()
	out.Linef("model c07-prim 1")
	n := vN(len(q7table) * 50)
	for _, c := range vCases(n) {
		rnd := vRand(c)
		ent := q7table[c%len(q7table)]
		h := 2 + rnd.IntN(3)
		out.Linef("case %d h=%d type=%s", c, h, ent.name)
		sl := make([]reflect.Value, h)
		for i := range sl {
			sl[i] = reflect.ValueOf(ent.mk())
		}
		at, _ := sl[0].Type().MethodByName("At")
		itemT := at.Type.Out(0)
		capOf := func(s reflect.Value) int { return s.FieldByName("orig").Elem().Cap() }
		vals := func(xs []int) string {
			if len(xs) == 0 {
				return "-"
			}
			ss := make([]string, len(xs))
			for i, x := range xs {
				ss[i] = strconv.Itoa(x)
			}
			return strings.Join(ss, ",")
		}
		rawOf := func(xs []int) reflect.Value {
			r := reflect.MakeSlice(reflect.SliceOf(itemT), len(xs), len(xs))
			for i, x := range xs {
				r.Index(i).Set(q7item(itemT, x))
			}
			return r
		}
		nt := false
		stat := map[string]int{}
		length := 1 + rnd.IntN(40)
		for k := 0; k < length; k++ {
			a := rnd.IntN(h)
			b := (a + 1 + rnd.IntN(h-1)) % h
			la := int(sl[a].MethodByName("Len").Call(nil)[0].Int())
			xs := make([]int, rnd.IntN(4))
			for i := range xs {
				xs[i] = rnd.IntN(99)
			}
			var line string
			capIdx := -1
			func() {
				defer func() { _ = recover() }()
				switch r := rnd.IntN(100); {
				case r < 26:
					line, capIdx = fmt.Sprintf("op append %d %s cap=", a, vals(xs)), a
					sl[a].MethodByName("Append").CallSlice([]reflect.Value{rawOf(xs)})
				case r < 40 && la > 0:
					i, v := rnd.IntN(la), rnd.IntN(99)
					line = fmt.Sprintf("op setat %d %d %d", a, i, v)
					sl[a].MethodByName("SetAt").Call([]reflect.Value{reflect.ValueOf(i), q7item(itemT, v)})
				case r < 50:
					nn := rnd.IntN(10)
					line = fmt.Sprintf("op ensurecap %d %d", a, nn)
					sl[a].MethodByName("EnsureCapacity").Call([]reflect.Value{reflect.ValueOf(nn)})
				case r < 65:
					line, capIdx = fmt.Sprintf("op fromraw %d %s cap=", a, vals(xs)), a
					sl[a].MethodByName("FromRaw").Call([]reflect.Value{rawOf(xs)})
				case r < 90:
					line, capIdx = fmt.Sprintf("op copy %d %d cap=", a, b), b
					if capOf(sl[b]) > la {
						nt = true
					}
					sl[a].MethodByName("CopyTo").Call([]reflect.Value{sl[b]})
				default:
					line = fmt.Sprintf("op move %d %d", a, b)
					sl[a].MethodByName("MoveTo").Call([]reflect.Value{sl[b]})
				}
			}()
			if capIdx >= 0 {
				line += fmt.Sprint(capOf(sl[capIdx]))
			}
			out.Linef("%s", line)
			var sb strings.Builder
			sb.WriteString("obs ok")
			for _, s := range sl {
				ln := int(s.MethodByName("Len").Call(nil)[0].Int())
				cur := make([]int, ln)
				for i := range cur {
					cur[i] = int(q7read(s.MethodByName("At").Call([]reflect.Value{reflect.ValueOf(i)})[0]))
				}
				fmt.Fprintf(&sb, " %s/%d", vals(cur), capOf(s))
			}
			out.Linef("%s", sb.String())
			stat["op_"+strings.Fields(line)[1]]++
		}
		if nt {
			out.Linef("nt")
		}
		for k, v := range stat {
			out.Linef("stat %s %d", k, v)
		}
		out.Linef("end")
		out.Flush()
	}
}
