//go:build verif

package pprofile

import (
	"fmt"
	"reflect"
	"sort"
	"strconv"
	"strings"
	"testing"
)

// GENERATED from allslices_test.go by replacing the table block.
// ALL generated element slices, driven by reflection through the part-A differential (model `c07-ptrslice`):
// random programs of AppendEmpty / At(i).Set<scalar> / RemoveIf / EnsureCapacity / Sort (slices of pointers) /
// CopyTo / MoveAndAppendTo over 2-4 handles of ONE slice type per case; the case index selects the type, so every
// type of the table is run equally often.  Content (one scalar field of the element, chosen by reflection) and
// capacity (the unexported `orig` field, read by reflection) of every handle after every op against the Lean model.
// The table must list every generated slice of these packages: lib/props/c07.py compares the `type=` names of the
// run with the regenerated Gen/PdataSlices.lean and fails if one is missing.

// ---- table

var a7table = []struct {
	name string
	mk   func() any
}{
	{"pprofile.AttributeTableSlice", func() any { return NewAttributeTableSlice() }},
	{"pprofile.AttributeUnitSlice", func() any { return NewAttributeUnitSlice() }},
	{"pprofile.FunctionSlice", func() any { return NewFunctionSlice() }},
	{"pprofile.LineSlice", func() any { return NewLineSlice() }},
	{"pprofile.LinkSlice", func() any { return NewLinkSlice() }},
	{"pprofile.LocationSlice", func() any { return NewLocationSlice() }},
	{"pprofile.MappingSlice", func() any { return NewMappingSlice() }},
	{"pprofile.ProfilesSlice", func() any { return NewProfilesSlice() }},
	{"pprofile.ResourceProfilesSlice", func() any { return NewResourceProfilesSlice() }},
	{"pprofile.SampleSlice", func() any { return NewSampleSlice() }},
	{"pprofile.ScopeProfilesSlice", func() any { return NewScopeProfilesSlice() }},
	{"pprofile.ValueTypeSlice", func() any { return NewValueTypeSlice() }},
}

// ---- end of table

type a7field struct {
	set, get string
	kind     reflect.Kind
	typ      reflect.Type
}

// a7scalar: the first (by name) Set<X>(v) / <X>() pair of the element whose type is an integer, float, string or byte array
func a7scalar(elem reflect.Type) (a7field, bool) {
	var names []string
	for i := 0; i < elem.NumMethod(); i++ {
		names = append(names, elem.Method(i).Name)
	}
	sort.Strings(names)
	for _, n := range names {
		if !strings.HasPrefix(n, "Set") || strings.HasPrefix(n, "SetEmpty") {
			continue
		}
		m, _ := elem.MethodByName(n)
		if m.Type.NumIn() != 2 {
			continue
		}
		g, ok := elem.MethodByName(strings.TrimPrefix(n, "Set"))
		if !ok || g.Type.NumIn() != 1 || g.Type.NumOut() != 1 || g.Type.Out(0) != m.Type.In(1) {
			continue
		}
		t := m.Type.In(1)
		switch k := t.Kind(); {
		case k >= reflect.Int && k <= reflect.Int64, k >= reflect.Uint && k <= reflect.Uint64, k == reflect.Float32, k == reflect.Float64, k == reflect.String:
			return a7field{n, g.Name, k, t}, true
		case k == reflect.Array && t.Elem().Kind() == reflect.Uint8:
			return a7field{n, g.Name, k, t}, true
		}
	}
	return a7field{}, false
}

func (f a7field) write(e reflect.Value, v int) {
	x := reflect.New(f.typ).Elem()
	switch k := f.kind; {
	case k >= reflect.Int && k <= reflect.Int64:
		x.SetInt(int64(v))
	case k >= reflect.Uint && k <= reflect.Uint64:
		x.SetUint(uint64(v))
	case k == reflect.Float32, k == reflect.Float64:
		x.SetFloat(float64(v))
	case k == reflect.String:
		x.SetString(strconv.Itoa(v))
	default:
		x.Index(0).SetUint(uint64(v))
	}
	e.MethodByName(f.set).Call([]reflect.Value{x})
}

func (f a7field) read(e reflect.Value) uint64 {
	x := e.MethodByName(f.get).Call(nil)[0]
	switch k := f.kind; {
	case k >= reflect.Int && k <= reflect.Int64:
		return uint64(x.Int())
	case k >= reflect.Uint && k <= reflect.Uint64:
		return x.Uint()
	case k == reflect.Float32, k == reflect.Float64:
		return uint64(x.Float())
	case k == reflect.String:
		n, _ := strconv.Atoi(x.String())
		return uint64(n)
	default:
		return x.Index(0).Uint()
	}
}

func a7cap(s reflect.Value) int { return s.FieldByName("orig").Elem().Cap() }

func a7mask(m []bool) string {
	if len(m) == 0 {
		return "-"
	}
	var sb strings.Builder
	for _, b := range m {
		if b {
			sb.WriteByte('1')
		} else {
			sb.WriteByte('0')
		}
	}
	return sb.String()
}

func TestVerifC07AllSlicesProfile(t *testing.T) {
	out := vOpen(t)
	defer out.Close()
	out.Linef("model c07-ptrslice 1")
	n := vN(len(a7table) * 20)
	for _, c := range vCases(n) {
		rnd := vRand(c)
		ent := a7table[c%len(a7table)]
		h := 2 + rnd.IntN(3)
		out.Linef("case %d h=%d type=%s", c, h, ent.name)
		sl := make([]reflect.Value, h)
		for i := range sl {
			sl[i] = reflect.ValueOf(ent.mk())
		}
		elemT, _ := sl[0].Type().MethodByName("At")
		f, ok := a7scalar(elemT.Type.Out(0))
		if !ok {
			out.Linef("viol sig=C07/allslices/no-scalar-field-found type=%s", ent.name)
			out.Linef("end")
			continue
		}
		_, hasSort := sl[0].Type().MethodByName("Sort")
		stat := map[string]int{}
		nt := false
		obs := func(panicked bool) string {
			var sb strings.Builder
			if panicked {
				sb.WriteString("obs panic")
			} else {
				sb.WriteString("obs ok")
			}
			for _, s := range sl {
				sb.WriteByte(' ')
				ln := int(s.MethodByName("Len").Call(nil)[0].Int())
				if ln == 0 {
					sb.WriteByte('-')
				}
				for i := 0; i < ln; i++ {
					if i > 0 {
						sb.WriteByte(',')
					}
					e := s.MethodByName("At").Call([]reflect.Value{reflect.ValueOf(i)})[0]
					fmt.Fprintf(&sb, "%d", f.read(e))
				}
				fmt.Fprintf(&sb, "/%d", a7cap(s))
			}
			return sb.String()
		}
		length := 1 + rnd.IntN(40)
		for k := 0; k < length; k++ {
			a := rnd.IntN(h)
			b := (a + 1 + rnd.IntN(h-1)) % h
			la := int(sl[a].MethodByName("Len").Call(nil)[0].Int())
			var line string
			var capOf = -1
			panicked := false
			func() {
				defer func() {
					if r := recover(); r != nil {
						panicked = true
					}
				}()
				switch r := rnd.IntN(100); {
				case r < 24:
					line, capOf = fmt.Sprintf("op append %d cap=", a), a
					sl[a].MethodByName("AppendEmpty").Call(nil)
				case r < 40 && la > 0:
					i, v := rnd.IntN(la), 1+rnd.IntN(99)
					line = fmt.Sprintf("op set %d %d %d", a, i, v)
					f.write(sl[a].MethodByName("At").Call([]reflect.Value{reflect.ValueOf(i)})[0], v)
				case r < 54 && la > 0:
					m := make([]bool, la)
					for i := range m {
						m[i] = rnd.IntN(3) == 0
					}
					line = fmt.Sprintf("op removeif %d mask=%s", a, a7mask(m))
					rm := sl[a].MethodByName("RemoveIf")
					i := 0
					fn := reflect.MakeFunc(rm.Type().In(0), func([]reflect.Value) []reflect.Value {
						x := i < len(m) && m[i]
						i++
						return []reflect.Value{reflect.ValueOf(x)}
					})
					rm.Call([]reflect.Value{fn})
				case r < 62:
					nn := rnd.IntN(12)
					line = fmt.Sprintf("op ensurecap %d %d", a, nn)
					sl[a].MethodByName("EnsureCapacity").Call([]reflect.Value{reflect.ValueOf(nn)})
				case r < 68 && hasSort:
					line = fmt.Sprintf("op sort %d", a)
					sm := sl[a].MethodByName("Sort")
					fn := reflect.MakeFunc(sm.Type().In(0), func(in []reflect.Value) []reflect.Value {
						return []reflect.Value{reflect.ValueOf(f.read(in[0]) < f.read(in[1]))}
					})
					sm.Call([]reflect.Value{fn})
				case r < 88:
					line = fmt.Sprintf("op copy %d %d", a, b)
					if a7cap(sl[b]) > int(sl[b].MethodByName("Len").Call(nil)[0].Int()) {
						nt = true
					}
					sl[a].MethodByName("CopyTo").Call([]reflect.Value{sl[b]})
				default:
					line, capOf = fmt.Sprintf("op moveappend %d %d cap=", a, b), b
					nt = true
					sl[a].MethodByName("MoveAndAppendTo").Call([]reflect.Value{sl[b]})
				}
			}()
			if capOf >= 0 {
				line += fmt.Sprint(a7cap(sl[capOf]))
			}
			out.Linef("%s", line)
			out.Linef("%s", obs(panicked))
			stat["op_"+strings.Fields(line)[1]]++
		}
		if nt {
			out.Linef("nt")
		}
		stat["field_"+f.set]++
		for k, v := range stat {
			out.Linef("stat %s %d", k, v)
		}
		out.Linef("end")
		out.Flush()
	}
}
