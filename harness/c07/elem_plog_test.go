//go:build verif

package plog

import (
	"encoding/hex"
	"fmt"
	"strings"
	"testing"

	"go.opentelemetry.io/collector/pdata/internal"
	otlpcommon "go.opentelemetry.io/collector/pdata/internal/data/protogen/common/v1"
	"go.opentelemetry.io/collector/pdata/pcommon"
)

// Element differential (model `c07-nest` through the RECORD EMBEDDING): slices whose elements are
// generated message structs that OWN containers.  An element is embedded in the nested Lean model as a
// fixed-arity array container whose slots are its fields [scalar field, field 1, attribute map]; the
// slice is an array container of such records.  Slice-level CopyTo / MoveAndAppendTo / RemoveIf /
// EnsureCapacity, element CopyTo, and every operation on the owned containers are model operations at the
// corresponding paths; `appendrec` (AppendEmpty) is expanded by the driver.  After every op the dump of
// every slice — elements, their fields, nested values, and the capacity of EVERY container — must equal
// the model's.

// ---- adapter: plog.LogRecordSlice, element = [Timestamp, Body (a pcommon.Value), Attributes]

type e7slice = LogRecordSlice
type e7elem = LogRecord

const e7typeName = "plog.LogRecordSlice"

const e7f1IsValue = true

func e7newRoot() (e7slice, func()) {
	ld := NewLogs()
	return ld.ResourceLogs().AppendEmpty().ScopeLogs().AppendEmpty().LogRecords(), ld.MarkReadOnly
}
func e7cap(s e7slice) int              { return cap(*s.orig) }
func e7ts(e e7elem) uint64             { return uint64(e.Timestamp()) }
func e7setTs(e e7elem, v uint64)       { e.SetTimestamp(pcommon.Timestamp(v)) }
func e7attrs(e e7elem) pcommon.Map     { return e.Attributes() }
func e7f1Value(e e7elem) pcommon.Value { return e.Body() }
func e7f1Set(e e7elem, nv string)      { e7setValue(e.Body(), nv) }
func e7f1Dump(sb *strings.Builder, e e7elem) {
	e7dumpAny(sb, internal.GetOrigValue(internal.Value(e.Body())))
}
func e7f1Choices(r interface{ IntN(int) int }) string { return e7randNV(r, true) }

// ---- end of adapter

func e7randNV(r interface{ IntN(int) int }, containers bool) string {
	switch q := r.IntN(10); {
	case q < 2 && containers:
		return "m"
	case q < 3 && containers:
		return "a"
	case q < 5:
		return "b" + hex.EncodeToString([]byte{byte(r.IntN(200)), byte(r.IntN(200))}[:r.IntN(3)])
	case q < 6:
		return "n"
	case q < 8:
		return fmt.Sprint("c1.", r.IntN(50))
	default:
		return fmt.Sprint("c0.", r.IntN(50))
	}
}

func e7setValue(v pcommon.Value, nv string) {
	switch {
	case nv == "n":
		_ = v.FromRaw(nil)
	case nv == "m":
		v.SetEmptyMap()
	case nv == "a":
		v.SetEmptySlice()
	case strings.HasPrefix(nv, "c0."):
		var x int64
		fmt.Sscanf(nv, "c0.%d", &x)
		v.SetInt(x)
	case strings.HasPrefix(nv, "c1."):
		v.SetStr(nv[3:])
	case strings.HasPrefix(nv, "b"):
		b, _ := hex.DecodeString(nv[1:])
		v.SetEmptyBytes().FromRaw(b)
	}
}

func e7put(m pcommon.Map, key string, nv string) {
	switch {
	case nv == "n":
		m.PutEmpty(key)
	case nv == "m":
		m.PutEmptyMap(key)
	case nv == "a":
		m.PutEmptySlice(key)
	case strings.HasPrefix(nv, "c0."):
		var x int64
		fmt.Sscanf(nv, "c0.%d", &x)
		m.PutInt(key, x)
	case strings.HasPrefix(nv, "c1."):
		m.PutStr(key, nv[3:])
	case strings.HasPrefix(nv, "b"):
		b, _ := hex.DecodeString(nv[1:])
		m.PutEmptyBytes(key).FromRaw(b)
	}
}

func e7dumpKVs(sb *strings.Builder, kvs []otlpcommon.KeyValue) {
	fmt.Fprintf(sb, "{%d|", cap(kvs))
	for i := range kvs {
		if i > 0 {
			sb.WriteByte(',')
		}
		sb.WriteString(strings.TrimPrefix(kvs[i].Key, "k"))
		sb.WriteByte('=')
		e7dumpAny(sb, &kvs[i].Value)
	}
	sb.WriteByte('}')
}

func e7dumpAny(sb *strings.Builder, av *otlpcommon.AnyValue) {
	switch w := av.Value.(type) {
	case nil:
		sb.WriteByte('n')
	case *otlpcommon.AnyValue_IntValue:
		fmt.Fprintf(sb, "c0.%d", w.IntValue)
	case *otlpcommon.AnyValue_StringValue:
		fmt.Fprintf(sb, "c1.%s", w.StringValue)
	case *otlpcommon.AnyValue_BytesValue:
		sb.WriteByte('b')
		sb.WriteString(hex.EncodeToString(w.BytesValue))
	case *otlpcommon.AnyValue_KvlistValue:
		e7dumpKVs(sb, w.KvlistValue.Values)
	case *otlpcommon.AnyValue_ArrayValue:
		vs := w.ArrayValue.Values
		fmt.Fprintf(sb, "[%d|", cap(vs))
		for i := range vs {
			if i > 0 {
				sb.WriteByte(',')
			}
			e7dumpAny(sb, &vs[i])
		}
		sb.WriteByte(']')
	default:
		sb.WriteByte('?')
	}
}

func e7dump(sl []e7slice, ready int, panicked bool) string {
	var sb strings.Builder
	if panicked {
		sb.WriteString("obs panic")
	} else {
		sb.WriteString("obs ok")
	}
	for ri, s := range sl {
		if ri >= ready { // the model's root is still the nil value until its `setroot`
			sb.WriteString(" n")
			continue
		}
		fmt.Fprintf(&sb, " [%d|", e7cap(s))
		for i := 0; i < s.Len(); i++ {
			if i > 0 {
				sb.WriteByte(',')
			}
			e := s.At(i)
			fmt.Fprintf(&sb, "[3|c0.%d,", e7ts(e))
			e7f1Dump(&sb, e)
			sb.WriteByte(',')
			e7dumpKVs(&sb, *internal.GetOrigMap(internal.Map(e7attrs(e))))
			sb.WriteByte(']')
		}
		sb.WriteByte(']')
	}
	return sb.String()
}

func e7mask(m []bool) string {
	if len(m) == 0 {
		return "-"
	}
	var sb strings.Builder
	for _, b := range m {
		if b {
			sb.WriteByte('1')
		} else {
			sb.WriteByte('0')
		}
	}
	return sb.String()
}

func e7mapCap(m pcommon.Map) int { return cap(*internal.GetOrigMap(internal.Map(m))) }

func TestVerifC07Elem(t *testing.T) {
	out := vOpen(t)
	defer out.Close()
	out.Linef("model c07-nest 1")
	n := vN(1000)
	for _, c := range vCases(n) {
		rnd := vRand(c)
		h := 2 + rnd.IntN(2)
		out.Linef("case %d h=%d", c, h)
		sl := make([]e7slice, h)
		markRO := make([]func(), h)
		stat := map[string]int{}
		nt := false
		ready := 0
		ro := make([]bool, h)
		// judge: the harness's own read-only oracle.  A mutator targeting a read-only payload must panic; nothing else may
		// (in particular CopyTo FROM a read-only source into a mutable destination is a READER); a panicking call changes nothing.
		judge := func(line string, panicked bool, before, after string) {
			f := strings.Fields(line)
			if len(f) < 3 {
				return
			}
			op := f[1]
			idx := func(i int) int { n := 0; fmt.Sscanf(f[i], "%d", &n); return n }
			expect, reader := false, false
			switch op {
			case "copylist", "copyval":
				expect = ro[idx(4)]
				reader = ro[idx(2)] && !expect
			case "moveappend":
				expect = ro[idx(2)] || ro[idx(4)]
			case "markro", "setroot":
			default:
				expect = ro[idx(2)]
			}
			what := map[string]string{"copylist": "CopyTo", "copyval": "CopyTo[element]", "moveappend": "MoveAndAppendTo", "appendrec": "AppendEmpty",
				"removeif": "RemoveIf", "ensurecap": "EnsureCapacity", "remove": "Remove", "clear": "Clear", "setslot": "Set", "bapp": "Append"}[op]
			if op == "copylist" && len(f) > 3 && f[3] != "-" {
				what = "CopyTo[owned map]"
			}
			switch {
			case panicked && reader:
				out.Linef("viol sig=C07/readonly/reader-panicked/%s.%s %s", e7typeName, what, line)
			case panicked && !expect:
				out.Linef("viol sig=C07/elem/%s-unexpected-panic/%s %s", op, e7typeName, line)
			case !panicked && expect:
				out.Linef("viol sig=C07/elem/%s-missing-panic-on-read-only/%s %s", op, e7typeName, line)
			}
			if panicked && before != after {
				out.Linef("viol sig=C07/readonly/panicking-op-changed-something/%s.%s %s", e7typeName, what, line)
			}
			if op == "markro" {
				ro[idx(2)] = true
			}
		}
		emit := func(line string, f func()) {
			panicked := false
			beforeDump := e7dump(sl, ready, false)
			func() {
				defer func() {
					if r := recover(); r != nil {
						panicked = true
					}
				}()
				f()
			}()
			out.Linef("%s", line)
			out.Linef("%s", e7dump(sl, ready, panicked))
			judge(line, panicked, beforeDump, e7dump(sl, ready, false))
			stat["op_"+strings.Fields(line)[1]]++
			if panicked {
				stat["panics"]++
			}
		}
		// emitCap: the op line needs a capacity observed AFTER the call
		emitCap := func(prefix string, capOf func() int, f func()) {
			panicked := false
			beforeDump := e7dump(sl, ready, false)
			func() {
				defer func() {
					if r := recover(); r != nil {
						panicked = true
					}
				}()
				f()
			}()
			cp := 0
			func() {
				defer func() { _ = recover() }()
				cp = capOf()
			}()
			out.Linef("%s cap=%d", prefix, cp)
			out.Linef("%s", e7dump(sl, ready, panicked))
			judge(prefix, panicked, beforeDump, e7dump(sl, ready, false))
			stat["op_"+strings.Fields(prefix)[1]]++
			if panicked {
				stat["panics"]++
			}
		}
		for i := range sl {
			sl[i], markRO[i] = e7newRoot()
		}
		for i := range sl {
			ready = i + 1
			emit(fmt.Sprintf("op setroot %d a", i), func() {})
		}
		length := 8 + rnd.IntN(40)
		for step := 0; step < length; step++ {
			a := rnd.IntN(h)
			b := (a + 1 + rnd.IntN(h-1)) % h
			la, lb := sl[a].Len(), sl[b].Len()
			r := rnd.IntN(100)
			if la == 0 && r < 60 {
				r = 0
			}
			switch {
			case r < 14: // AppendEmpty
				emitCap(fmt.Sprintf("op appendrec %d - fields=c0.0;n;m", a), func() int { return e7cap(sl[a]) }, func() { sl[a].AppendEmpty() })
			case r < 20 && la > 0:
				k, v := rnd.IntN(la), uint64(rnd.IntN(99))
				if rnd.IntN(3) == 0 { // the extremes of the field: a Timestamp is unsigned, some stores behind it are signed
					v = []uint64{0, 1, 1<<63 - 1, 1 << 63, ^uint64(0), ^uint64(0) - 1}[rnd.IntN(6)]
				}
				emit(fmt.Sprintf("op setslot %d i%d i0 c0.%d cap=3", a, k, v), func() { e7setTs(sl[a].At(k), v) })
			case r < 30 && la > 0:
				k, nv := rnd.IntN(la), e7f1Choices(rnd)
				emit(fmt.Sprintf("op setslot %d i%d i1 %s cap=3", a, k, nv), func() { e7f1Set(sl[a].At(k), nv) })
			case r < 46 && la > 0: // put into the attribute map
				k, key, nv := rnd.IntN(la), fmt.Sprint("k", 1+rnd.IntN(4)), e7randNV(rnd, true)
				emitCap(fmt.Sprintf("op setslot %d i%d/i2 %s %s", a, k, key, nv), func() int { return e7mapCap(e7attrs(sl[a].At(k))) },
					func() { e7put(e7attrs(sl[a].At(k)), key, nv) })
			case r < 54 && la > 0: // put into a map nested in the attribute map / append bytes there
				k := rnd.IntN(la)
				m := e7attrs(sl[a].At(k))
				done := false
				m.Range(func(key string, v pcommon.Value) bool {
					switch {
					case v.Type() == pcommon.ValueTypeMap && rnd.IntN(2) == 0:
						k2, nv := fmt.Sprint("k", 1+rnd.IntN(3)), e7randNV(rnd, false)
						emitCap(fmt.Sprintf("op setslot %d i%d/i2/%s %s %s", a, k, key, k2, nv), func() int { return e7mapCap(v.Map()) },
							func() { e7put(v.Map(), k2, nv) })
						done = true
					case v.Type() == pcommon.ValueTypeBytes && rnd.IntN(2) == 0:
						x := rnd.IntN(200)
						emit(fmt.Sprintf("op bapp %d i%d/i2/%s %d", a, k, key, x), func() { v.Bytes().Append(byte(x)) })
						done = true
					}
					return !done
				})
			case r < 62 && la > 0: // remove / remove-if / ensure-capacity / clear on the attribute map
				k := rnd.IntN(la)
				m := e7attrs(sl[a].At(k))
				switch q := rnd.IntN(8); {
				case q < 3:
					key := 1 + rnd.IntN(4)
					emit(fmt.Sprintf("op remove %d i%d/i2 %d", a, k, key), func() { m.Remove(fmt.Sprint("k", key)) })
				case q < 6:
					mask := make([]bool, m.Len())
					for j := range mask {
						mask[j] = rnd.IntN(3) == 0
					}
					emit(fmt.Sprintf("op removeif %d i%d/i2 mask=%s", a, k, e7mask(mask)), func() {
						j := 0
						m.RemoveIf(func(string, pcommon.Value) bool { x := j < len(mask) && mask[j]; j++; return x })
					})
				case q < 7:
					nn := rnd.IntN(7)
					emit(fmt.Sprintf("op ensurecap %d i%d/i2 %d", a, k, nn), func() { m.EnsureCapacity(nn) })
				default:
					emit(fmt.Sprintf("op clear %d i%d/i2", a, k), func() { m.Clear() })
				}
			case r < 70: // slice-level remove-if / ensure-capacity
				if rnd.IntN(3) == 0 {
					nn := rnd.IntN(8)
					emit(fmt.Sprintf("op ensurecap %d - %d", a, nn), func() { sl[a].EnsureCapacity(nn) })
				} else {
					mask := make([]bool, la)
					for j := range mask {
						mask[j] = rnd.IntN(3) == 0
					}
					emit(fmt.Sprintf("op removeif %d - mask=%s", a, e7mask(mask)), func() {
						j := 0
						sl[a].RemoveIf(func(e7elem) bool { x := j < len(mask) && mask[j]; j++; return x })
					})
				}
			case r < 80: // slice CopyTo
				nt = true
				emit(fmt.Sprintf("op copylist %d - %d -", a, b), func() { sl[a].CopyTo(sl[b]) })
			case r < 87 && la > 0 && lb > 0: // element CopyTo (re-uses the destination element's containers)
				k, j := rnd.IntN(la), rnd.IntN(lb)
				nt = true
				emit(fmt.Sprintf("op copyval %d i%d %d i%d", a, k, b, j), func() { sl[a].At(k).CopyTo(sl[b].At(j)) })
			case r < 92 && la > 0 && lb > 0: // Map.CopyTo between the attribute maps of two elements / field-1 value copy
				k, j := rnd.IntN(la), rnd.IntN(lb)
				nt = true
				if e7f1IsValue && rnd.IntN(2) == 0 {
					emit(fmt.Sprintf("op copyval %d i%d/i1 %d i%d/i1", a, k, b, j), func() { e7f1Value(sl[a].At(k)).CopyTo(e7f1Value(sl[b].At(j))) })
				} else {
					emit(fmt.Sprintf("op copylist %d i%d/i2 %d i%d/i2", a, k, b, j), func() { e7attrs(sl[a].At(k)).CopyTo(e7attrs(sl[b].At(j))) })
				}
			case r < 97: // MoveAndAppendTo
				nt = true
				if e7cap(sl[b]) == 0 {
					stat["moveappend_into_never_used"]++
				}
				emitCap(fmt.Sprintf("op moveappend %d - %d -", a, b), func() int { return e7cap(sl[b]) }, func() { sl[a].MoveAndAppendTo(sl[b]) })
			case step > length/2 && rnd.IntN(2) == 0:
				emit(fmt.Sprintf("op markro %d", a), func() { markRO[a]() })
			}
		}
		if nt {
			out.Linef("nt")
		}
		for k, v := range stat {
			out.Linef("stat %s %d", k, v)
		}
		out.Linef("end")
		out.Flush()
	}
}
