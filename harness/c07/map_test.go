//go:build verif

package pcommon

import (
	"encoding/hex"
	"fmt"
	"strings"
	"testing"

	"go.opentelemetry.io/collector/pdata/internal"
)

// Map differential (model `c07-map`): random programs over 2-4 pcommon.Map handles with empty, scalar
// (int = kind 0, string = kind 1) and bytes values; after every op the entries (in Range order) and the
// capacity of every handle are compared with the Lean heap model, and the Lean oracle judges the
// implementation's observations against plain association lists.  Keys are "k<n>", n >= 1.

type m7op struct {
	kind    string // put putempty putb bapp remove removeif ensurecap clear copy move markro
	a, b, k int
	vk, v   int
	bs      []byte
	mask    []bool
}

type m7st struct {
	maps   []Map
	states []*internal.State
}

var m7pool = make([]byte, 0, 8)
var m7flip bool

func m7key(k int) string { return fmt.Sprint("k", k) }

func newM7(h int) *m7st {
	st := &m7st{}
	for i := 0; i < h; i++ {
		m := NewMap()
		st.maps = append(st.maps, m)
		st.states = append(st.states, m.getState())
	}
	return st
}

func m7hex(b []byte) string {
	if len(b) == 0 {
		return "-"
	}
	return hex.EncodeToString(b)
}

func m7mask(m []bool) string {
	if len(m) == 0 {
		return "-"
	}
	var sb strings.Builder
	for _, b := range m {
		if b {
			sb.WriteByte('1')
		} else {
			sb.WriteByte('0')
		}
	}
	return sb.String()
}

func (st *m7st) apply(o m7op) (line string, panicked bool) {
	m := st.maps[o.a]
	defer func() {
		if r := recover(); r != nil {
			panicked = true
		}
		c := cap(*m.getOrig())
		switch o.kind {
		case "put":
			line = fmt.Sprintf("op put %d %d %d %d cap=%d", o.a, o.k, o.vk, o.v, c)
		case "putempty":
			line = fmt.Sprintf("op putempty %d %d cap=%d", o.a, o.k, c)
		case "putb":
			line = fmt.Sprintf("op putb %d %d %s cap=%d", o.a, o.k, m7hex(o.bs), c)
		}
	}()
	switch o.kind {
	case "put":
		if o.vk == 0 {
			m.PutInt(m7key(o.k), int64(o.v))
		} else {
			m.PutStr(m7key(o.k), fmt.Sprint(o.v))
		}
	case "putempty":
		m.PutEmpty(m7key(o.k))
	case "putb":
		if m7flip = !m7flip; m7flip { // through a buffer the caller keeps and re-uses: Value.FromRaw([]byte) must copy
			m7pool = append(m7pool[:0], o.bs...)
			_ = m.PutEmpty(m7key(o.k)).FromRaw(m7pool)
		} else {
			m.PutEmptyBytes(m7key(o.k)).FromRaw(o.bs)
		}
	case "bapp":
		line = fmt.Sprintf("op bapp %d %d %d", o.a, o.k, o.v)
		v, _ := m.Get(m7key(o.k))
		v.Bytes().Append(byte(o.v))
	case "remove":
		line = fmt.Sprintf("op remove %d %d", o.a, o.k)
		m.Remove(m7key(o.k))
	case "removeif":
		line = fmt.Sprintf("op removeif %d mask=%s", o.a, m7mask(o.mask))
		i := 0
		m.RemoveIf(func(string, Value) bool { r := i < len(o.mask) && o.mask[i]; i++; return r })
	case "ensurecap":
		line = fmt.Sprintf("op ensurecap %d %d", o.a, o.v)
		m.EnsureCapacity(o.v)
	case "clear":
		line = fmt.Sprintf("op clear %d", o.a)
		m.Clear()
	case "copy":
		line = fmt.Sprintf("op copy %d %d", o.a, o.b)
		m.CopyTo(st.maps[o.b])
	case "move":
		line = fmt.Sprintf("op move %d %d", o.a, o.b)
		m.MoveTo(st.maps[o.b])
	case "markro":
		line = fmt.Sprintf("op markro %d", o.a)
		*st.states[o.a] = internal.StateReadOnly
	}
	return line, false
}

func (st *m7st) obs(panicked bool) string {
	var sb strings.Builder
	if panicked {
		sb.WriteString("obs panic")
	} else {
		sb.WriteString("obs ok")
	}
	for _, m := range st.maps {
		sb.WriteByte(' ')
		if m.Len() == 0 {
			sb.WriteByte('-')
		}
		first := true
		m.Range(func(k string, v Value) bool {
			if !first {
				sb.WriteByte(',')
			}
			first = false
			sb.WriteString(strings.TrimPrefix(k, "k"))
			sb.WriteByte(':')
			switch v.Type() {
			case ValueTypeEmpty:
				sb.WriteByte('n')
			case ValueTypeInt:
				fmt.Fprintf(&sb, "c0.%d", v.Int())
			case ValueTypeStr:
				fmt.Fprintf(&sb, "c1.%s", v.Str())
			case ValueTypeBytes:
				sb.WriteByte('b')
				sb.WriteString(hex.EncodeToString(v.Bytes().AsRaw()))
			default:
				sb.WriteString("?")
			}
			return true
		})
		fmt.Fprintf(&sb, "/%d", cap(*m.getOrig()))
	}
	return sb.String()
}

func m7corpus() [][]m7op {
	put := func(a, k, v int) m7op { return m7op{kind: "put", a: a, k: k, v: v} }
	putb := func(a, k int, b ...byte) m7op { return m7op{kind: "putb", a: a, k: k, bs: b} }
	return [][]m7op{
		// Remove (swap with last) leaves a stale bytes wrapper beyond len; CopyTo of a longer map re-exposes it
		{putb(1, 1, 1), put(1, 2, 5), putb(1, 3, 3), {kind: "remove", a: 1, k: 1},
			putb(0, 4, 4), put(0, 5, 6), putb(0, 6, 6), {kind: "copy", a: 0, b: 1},
			{kind: "bapp", a: 1, k: 4, v: 9}, {kind: "bapp", a: 0, k: 6, v: 7}},
		// RemoveIf, then CopyTo, then edit one entry of the copy
		{putb(1, 1, 1), putb(1, 2, 2), putb(1, 3, 3), {kind: "removeif", a: 1, mask: []bool{true, false, false}},
			put(0, 7, 1), putb(0, 8, 8), putb(0, 9, 9), {kind: "copy", a: 0, b: 1}, {kind: "bapp", a: 1, k: 8, v: 1}},
		// copy of a scalar, then overwrite with the same scalar type on either side
		{put(0, 1, 1), put(1, 1, 7), {kind: "copy", a: 0, b: 1}, put(0, 1, 2), put(1, 1, 3),
			{kind: "put", a: 0, k: 2, vk: 1, v: 4}, {kind: "copy", a: 0, b: 1}, {kind: "put", a: 1, k: 2, vk: 1, v: 5}},
		// pre-sized destination, move, read-only
		{put(0, 1, 1), putb(0, 2, 2), {kind: "ensurecap", a: 1, v: 5}, {kind: "copy", a: 0, b: 1}, {kind: "move", a: 1, b: 2},
			{kind: "markro", a: 2}, {kind: "move", a: 2, b: 0}, {kind: "copy", a: 2, b: 1}, {kind: "bapp", a: 2, k: 2, v: 1},
			{kind: "clear", a: 2}, {kind: "bapp", a: 1, k: 2, v: 3}},
	}
}

func TestVerifC07Map(t *testing.T) {
	out := vOpen(t)
	defer out.Close()
	out.Linef("model c07-map 1")
	n := vN(1000)
	corpus := m7corpus()
	for _, c := range vCases(n) {
		rnd := vRand(c)
		h := 2 + rnd.IntN(3)
		if c < len(corpus) {
			h = 3
		}
		out.Linef("case %d h=%d", c, h)
		st := newM7(h)
		filtered := make([]bool, h)
		nt := false
		stat := map[string]int{}
		step := func(o m7op) {
			if o.kind == "copy" || o.kind == "move" {
				d := st.maps[o.b]
				switch {
				case cap(*d.getOrig()) == 0:
					stat["dest_nil"]++
				case filtered[o.b]:
					stat["dest_filtered"]++
					nt = true
				case cap(*d.getOrig()) > d.Len():
					stat["dest_spare_capacity"]++
					nt = true
				default:
					stat["dest_full"]++
				}
				if o.kind == "copy" && st.maps[o.a].Len() < d.Len() {
					filtered[o.b] = true
				}
			}
			if (o.kind == "remove" || o.kind == "removeif") && st.maps[o.a].Len() > 0 {
				filtered[o.a] = true
			}
			line, panicked := st.apply(o)
			out.Linef("%s", line)
			out.Linef("%s", st.obs(panicked))
			stat["op_"+o.kind]++
			if panicked {
				stat["panics"]++
			}
		}
		if c < len(corpus) {
			for _, o := range corpus[c] {
				step(o)
			}
		} else {
			length := 1 + rnd.IntN(40)
			for i := 0; i < length; i++ {
				a := rnd.IntN(h)
				b := (a + 1 + rnd.IntN(h-1)) % h
				m := st.maps[a]
				k := 1 + rnd.IntN(6)
				var o m7op
				switch r := rnd.IntN(100); {
				case r < 16:
					o = m7op{kind: "put", a: a, k: k, vk: rnd.IntN(2), v: rnd.IntN(50)}
				case r < 30:
					o = m7op{kind: "putb", a: a, k: k, bs: []byte{byte(rnd.IntN(200)), byte(rnd.IntN(200))}[:rnd.IntN(3)]}
				case r < 34:
					o = m7op{kind: "putempty", a: a, k: k}
				case r < 46:
					// append to a bytes entry if the map has one
					o = m7op{kind: "put", a: a, k: k, v: rnd.IntN(50)}
					m.Range(func(key string, v Value) bool {
						if v.Type() == ValueTypeBytes && rnd.IntN(2) == 0 {
							var kk int
							fmt.Sscanf(key, "k%d", &kk)
							o = m7op{kind: "bapp", a: a, k: kk, v: rnd.IntN(200)}
							return false
						}
						return true
					})
				case r < 54:
					o = m7op{kind: "remove", a: a, k: k}
				case r < 62:
					mask := make([]bool, m.Len())
					for j := range mask {
						mask[j] = rnd.IntN(3) == 0
					}
					o = m7op{kind: "removeif", a: a, mask: mask}
				case r < 68:
					o = m7op{kind: "ensurecap", a: a, v: rnd.IntN(10)}
				case r < 70:
					o = m7op{kind: "clear", a: a}
				case r < 90:
					o = m7op{kind: "copy", a: a, b: b}
				case r < 97:
					o = m7op{kind: "move", a: a, b: b}
				case r < 99 && i > length/2:
					o = m7op{kind: "markro", a: a}
				default:
					o = m7op{kind: "put", a: a, k: k, v: rnd.IntN(50)}
				}
				step(o)
			}
		}
		if nt {
			out.Linef("nt")
		}
		for k, v := range stat {
			out.Linef("stat %s %d", k, v)
		}
		out.Linef("end")
		out.Flush()
	}
}
