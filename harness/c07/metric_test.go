//go:build verif

package plog

import (
	"bytes"
	"fmt"
	"testing"

	"go.opentelemetry.io/collector/pdata/pcommon"
	"go.opentelemetry.io/collector/pdata/pmetric"
)

// Message structs with optional and one-of fields (pmetric): CopyTo into an arbitrarily pre-filled
// destination must make the destination equal to the source (canonical protobuf encoding), and the
// two must be independent afterwards.  dst starts as an independent clone of src (marshal/unmarshal),
// the position under test is scrambled on dst, then src.P.CopyTo(dst.P): whole payloads must be equal again.

type m7r interface{ IntN(int) int }

func m7attrs(r m7r, m pcommon.Map) {
	for i := r.IntN(3); i > 0; i-- {
		switch k := t7keys[r.IntN(len(t7keys))]; r.IntN(4) {
		case 0:
			m.PutEmptyMap(k).PutInt("n", int64(r.IntN(9)))
		case 1:
			m.PutEmptyBytes(k).Append(byte(r.IntN(9)))
		case 2:
			m.PutStr(k, fmt.Sprint(r.IntN(9)))
		default:
			m.PutInt(k, int64(r.IntN(9)))
		}
	}
	if r.IntN(4) == 0 && m.Len() > 0 {
		n := 0
		m.RemoveIf(func(string, pcommon.Value) bool { n++; return n == 1 })
	}
}

func m7exemplars(r m7r, es pmetric.ExemplarSlice) {
	for i := r.IntN(4); i > 0; i-- {
		e := es.AppendEmpty()
		switch r.IntN(3) {
		case 0:
			e.SetIntValue(int64(r.IntN(9)))
		case 1:
			e.SetDoubleValue(float64(r.IntN(9)))
		}
		e.SetTimestamp(pcommon.Timestamp(r.IntN(9)))
		m7attrs(r, e.FilteredAttributes())
	}
	if r.IntN(3) == 0 && es.Len() > 0 {
		n := 0
		es.RemoveIf(func(pmetric.Exemplar) bool { n++; return n == 1 })
	}
	if r.IntN(4) == 0 {
		es.EnsureCapacity(es.Len() + r.IntN(3))
	}
}

func m7opt(r m7r, set func(float64), remove func()) {
	if r.IntN(2) == 0 {
		set(float64(r.IntN(9)))
	} else {
		remove()
	}
}

func m7number(r m7r, dp pmetric.NumberDataPoint) {
	switch r.IntN(3) {
	case 0:
		dp.SetIntValue(int64(r.IntN(9)))
	case 1:
		dp.SetDoubleValue(float64(r.IntN(9)))
	}
	dp.SetTimestamp(pcommon.Timestamp(r.IntN(9)))
	dp.SetFlags(pmetric.DataPointFlags(r.IntN(2)))
	m7attrs(r, dp.Attributes())
	m7exemplars(r, dp.Exemplars())
}

func m7hist(r m7r, dp pmetric.HistogramDataPoint) {
	dp.SetCount(uint64(r.IntN(9)))
	m7opt(r, dp.SetSum, dp.RemoveSum)
	m7opt(r, dp.SetMin, dp.RemoveMin)
	m7opt(r, dp.SetMax, dp.RemoveMax)
	dp.BucketCounts().FromRaw([]uint64{uint64(r.IntN(9)), uint64(r.IntN(9))}[:r.IntN(3)])
	dp.ExplicitBounds().FromRaw([]float64{1, 2}[:r.IntN(3)])
	m7attrs(r, dp.Attributes())
	m7exemplars(r, dp.Exemplars())
}

func m7exp(r m7r, dp pmetric.ExponentialHistogramDataPoint) {
	dp.SetCount(uint64(r.IntN(9)))
	dp.SetScale(int32(r.IntN(4)))
	m7opt(r, dp.SetSum, dp.RemoveSum)
	m7opt(r, dp.SetMin, dp.RemoveMin)
	m7opt(r, dp.SetMax, dp.RemoveMax)
	dp.Positive().BucketCounts().FromRaw([]uint64{uint64(r.IntN(9)), 3}[:r.IntN(3)])
	dp.Negative().SetOffset(int32(r.IntN(3)))
	m7attrs(r, dp.Attributes())
	m7exemplars(r, dp.Exemplars())
}

func m7summary(r m7r, dp pmetric.SummaryDataPoint) {
	dp.SetCount(uint64(r.IntN(9)))
	dp.SetSum(float64(r.IntN(9)))
	for i := r.IntN(3); i > 0; i-- {
		q := dp.QuantileValues().AppendEmpty()
		q.SetQuantile(float64(r.IntN(9)) / 10)
		q.SetValue(float64(r.IntN(9)))
	}
	m7attrs(r, dp.Attributes())
}

// m7metric gives m a random type (possibly none) and random points
func m7metric(r m7r, m pmetric.Metric, allowEmpty bool) {
	m.SetName(fmt.Sprint("m", r.IntN(9)))
	m.SetUnit(fmt.Sprint("u", r.IntN(3)))
	m7attrs(r, m.Metadata())
	k := r.IntN(6)
	if k == 5 && !allowEmpty {
		k = 0
	}
	switch k {
	case 0:
		g := m.SetEmptyGauge()
		for i := r.IntN(3); i > 0; i-- {
			m7number(r, g.DataPoints().AppendEmpty())
		}
	case 1:
		s := m.SetEmptySum()
		s.SetIsMonotonic(r.IntN(2) == 0)
		s.SetAggregationTemporality(pmetric.AggregationTemporality(r.IntN(3)))
		for i := r.IntN(3); i > 0; i-- {
			m7number(r, s.DataPoints().AppendEmpty())
		}
	case 2:
		h := m.SetEmptyHistogram()
		h.SetAggregationTemporality(pmetric.AggregationTemporality(r.IntN(3)))
		for i := r.IntN(3); i > 0; i-- {
			m7hist(r, h.DataPoints().AppendEmpty())
		}
	case 3:
		h := m.SetEmptyExponentialHistogram()
		for i := r.IntN(3); i > 0; i-- {
			m7exp(r, h.DataPoints().AppendEmpty())
		}
	case 4:
		s := m.SetEmptySummary()
		for i := r.IntN(3); i > 0; i-- {
			m7summary(r, s.DataPoints().AppendEmpty())
		}
	}
}

func m7bytes(md pmetric.Metrics) []byte {
	b, err := (&pmetric.ProtoMarshaler{}).MarshalMetrics(md)
	if err != nil {
		panic(err)
	}
	return b
}

func TestVerifC07Metric(t *testing.T) {
	out := vOpen(t)
	defer out.Close()
	out.Linef("model c07-metric 1")
	n := vN(1000)
	for _, c := range vCases(n) {
		r := vRand(c)
		out.Linef("case %d", c)
		src := pmetric.NewMetrics()
		sms := src.ResourceMetrics().AppendEmpty().ScopeMetrics().AppendEmpty().Metrics()
		for i := 1 + r.IntN(3); i > 0; i-- {
			// metrics that never had a type exist too (AppendEmpty + name only)
			m7metric(r, sms.AppendEmpty(), true)
		}
		srcB := m7bytes(src)
		dst, err := (&pmetric.ProtoUnmarshaler{}).UnmarshalMetrics(srcB)
		if err != nil {
			t.Fatal(err)
		}
		dms := dst.ResourceMetrics().At(0).ScopeMetrics().At(0).Metrics()
		i := r.IntN(sms.Len())
		sm, dm := sms.At(i), dms.At(i)
		level := "metric"
		var viol string
		func() {
			defer func() {
				if e := recover(); e != nil {
					viol = fmt.Sprintf("sig=C07/message/copy-%s-unexpected-panic type=%s", level, sm.Type())
				}
			}()
			dpLevel := r.IntN(2) == 0
			switch {
			case dpLevel && sm.Type() == pmetric.MetricTypeGauge && sm.Gauge().DataPoints().Len() > 0:
				level = "numberdatapoint"
				j := r.IntN(sm.Gauge().DataPoints().Len())
				m7number(r, dm.Gauge().DataPoints().At(j))
				sm.Gauge().DataPoints().At(j).CopyTo(dm.Gauge().DataPoints().At(j))
			case dpLevel && sm.Type() == pmetric.MetricTypeHistogram && sm.Histogram().DataPoints().Len() > 0:
				level = "histogramdatapoint"
				j := r.IntN(sm.Histogram().DataPoints().Len())
				m7hist(r, dm.Histogram().DataPoints().At(j))
				sm.Histogram().DataPoints().At(j).CopyTo(dm.Histogram().DataPoints().At(j))
			case dpLevel && sm.Type() == pmetric.MetricTypeExponentialHistogram && sm.ExponentialHistogram().DataPoints().Len() > 0:
				level = "exponentialhistogramdatapoint"
				j := r.IntN(sm.ExponentialHistogram().DataPoints().Len())
				m7exp(r, dm.ExponentialHistogram().DataPoints().At(j))
				sm.ExponentialHistogram().DataPoints().At(j).CopyTo(dm.ExponentialHistogram().DataPoints().At(j))
			case dpLevel && sm.Type() == pmetric.MetricTypeSummary && sm.Summary().DataPoints().Len() > 0:
				level = "summarydatapoint"
				j := r.IntN(sm.Summary().DataPoints().Len())
				m7summary(r, dm.Summary().DataPoints().At(j))
				sm.Summary().DataPoints().At(j).CopyTo(dm.Summary().DataPoints().At(j))
			default:
				m7metric(r, dm, false) // destination of any other (or the same) type, arbitrary points
				sm.CopyTo(dm)
			}
		}()
		out.Linef("op copy level=%s srctype=%s seedcase=%d", level, sm.Type(), c)
		if viol == "" && !bytes.Equal(m7bytes(dst), srcB) {
			viol = fmt.Sprintf("sig=C07/message/copy-%s-differs-from-source srctype=%s", level, sm.Type())
		}
		if viol == "" {
			// independence: scramble the source position, the copy must not move; then the other way round
			dstB := m7bytes(dst)
			m7metric(r, sm, false)
			if !bytes.Equal(m7bytes(dst), dstB) {
				viol = fmt.Sprintf("sig=C07/message/mutating-source-changed-copy level=%s", level)
			}
			srcB2 := m7bytes(src)
			m7metric(r, dm, false)
			if !bytes.Equal(m7bytes(src), srcB2) {
				viol = fmt.Sprintf("sig=C07/message/mutating-copy-changed-source level=%s", level)
			}
		}
		if viol != "" {
			out.Linef("viol %s", viol)
		}
		out.Linef("nt")
		out.Linef("stat level_%s 1", level)
		out.Linef("stat srctype_%s 1", sm.Type())
		out.Linef("end")
		out.Flush()
	}
}
