//go:build verif

package pcommon

import (
	"encoding/hex"
	"fmt"
	"reflect"
	"sort"
	"strings"
	"testing"

	"go.opentelemetry.io/collector/pdata/internal"
	otlpcommon "go.opentelemetry.io/collector/pdata/internal/data/protogen/common/v1"
)

// Nested differential (model `c07-nest`): random programs over 2-4 root pcommon.Values holding
// arbitrarily nested maps / slices / bytes / scalars.  Positions are named by paths from a root
// (`k<key>` map entry, `i<index>` slice element); after every op the full dump of every root INCLUDING
// the capacity of every container must equal the Lean heap model's.

type n7op struct {
	kind    string // setroot setslot bapp remove removeif ensurecap clear copyval copylist moveroot markro
	r, r2   int
	p, p2   string // paths ("-" = the root value itself)
	sel     string // k<n> | i<n> | push
	nv      string // n | c0.<v> | c1.<v> | b<hex> | m | a
	k, x, n int
	mask    []bool
	raw     any // fromraw: nil | int64 | string | []byte | map[string]any | []any, nested
}

type n7pos struct {
	r     int
	path  string
	v     Value
	depth int
}

type n7st struct {
	roots  []Value
	states []*internal.State
	// byte arrays of raw inputs the CALLER keeps after Value.FromRaw (must never be reachable from a value)
	rawBytes [][]byte
}

// n7encRaw: the raw input in prefix form `n | c0.<v> | c1.<v> | b<hex> | m<n>,k<key>,<raw>,… | a<n>,<raw>,…`; the entries of a map in the
// order the filled value shows them (res; Go's map iteration order is an input of the model), sorted when there is no result to read
func n7encRaw(sb *strings.Builder, raw any, res *Value) {
	switch x := raw.(type) {
	case nil:
		sb.WriteString("n")
	case int64:
		fmt.Fprintf(sb, "c0.%d", x)
	case string:
		fmt.Fprintf(sb, "c1.%s", x)
	case []byte:
		sb.WriteString("b" + hex.EncodeToString(x))
	case map[string]any:
		var keys []string
		if res != nil && res.Type() == ValueTypeMap && res.Map().Len() == len(x) {
			res.Map().Range(func(k string, _ Value) bool { keys = append(keys, k); return true })
		}
		ok := len(keys) == len(x)
		for _, k := range keys {
			if _, has := x[k]; !has {
				ok = false
			}
		}
		if !ok {
			keys = keys[:0]
			for k := range x {
				keys = append(keys, k)
			}
			sort.Strings(keys)
			res = nil
		}
		fmt.Fprintf(sb, "m%d", len(keys))
		for _, k := range keys {
			sb.WriteString("," + k + ",")
			var sub *Value
			if res != nil {
				if v, has := res.Map().Get(k); has {
					sub = &v
				}
			}
			n7encRaw(sb, x[k], sub)
		}
	case []any:
		fmt.Fprintf(sb, "a%d", len(x))
		for i, e := range x {
			sb.WriteString(",")
			var sub *Value
			if res != nil && res.Type() == ValueTypeSlice && i < res.Slice().Len() {
				v := res.Slice().At(i)
				sub = &v
			}
			n7encRaw(sb, e, sub)
		}
	}
}

// n7canon: canonical form (map entries sorted, no capacities) of a raw input / of what the readers show of a value: the direct
// oracle of from-raw ("the value reads exactly as the raw input")
func n7canonRaw(sb *strings.Builder, raw any) {
	switch x := raw.(type) {
	case nil:
		sb.WriteString("n")
	case int64:
		fmt.Fprintf(sb, "c0.%d", x)
	case string:
		fmt.Fprintf(sb, "c1.%s", x)
	case []byte:
		sb.WriteString("b" + hex.EncodeToString(x))
	case map[string]any:
		keys := make([]string, 0, len(x))
		for k := range x {
			keys = append(keys, k)
		}
		sort.Strings(keys)
		sb.WriteString("{")
		for _, k := range keys {
			sb.WriteString(k + "=")
			n7canonRaw(sb, x[k])
			sb.WriteString(";")
		}
		sb.WriteString("}")
	case []any:
		sb.WriteString("[")
		for _, e := range x {
			n7canonRaw(sb, e)
			sb.WriteString(";")
		}
		sb.WriteString("]")
	}
}

func n7canonVal(sb *strings.Builder, v Value) {
	switch v.Type() {
	case ValueTypeEmpty:
		sb.WriteString("n")
	case ValueTypeInt:
		fmt.Fprintf(sb, "c0.%d", v.Int())
	case ValueTypeStr:
		fmt.Fprintf(sb, "c1.%s", v.Str())
	case ValueTypeBytes:
		sb.WriteString("b" + hex.EncodeToString(v.Bytes().AsRaw()))
	case ValueTypeMap:
		var keys []string
		sub := map[string]Value{}
		v.Map().Range(func(k string, c Value) bool { keys = append(keys, k); sub[k] = c; return true })
		sort.Strings(keys)
		sb.WriteString("{")
		for _, k := range keys {
			sb.WriteString(k + "=")
			n7canonVal(sb, sub[k])
			sb.WriteString(";")
		}
		sb.WriteString("}")
	case ValueTypeSlice:
		sb.WriteString("[")
		for i := 0; i < v.Slice().Len(); i++ {
			n7canonVal(sb, v.Slice().At(i))
			sb.WriteString(";")
		}
		sb.WriteString("]")
	default:
		sb.WriteString("?")
	}
}

// n7rawViol: set by a from-raw op whose target does not read as the raw input afterwards
var n7rawViol string

func n7checkRaw(kind string, raw any, v Value) {
	var a, b strings.Builder
	n7canonRaw(&a, raw)
	n7canonVal(&b, v)
	if a.String() != b.String() {
		n7rawViol = fmt.Sprintf("sig=C07/nest/%s-value-differs-from-raw-input want=%s got=%s", kind, a.String(), b.String())
	}
}

// n7scribble: what a caller that KEEPS the raw input may do to it after FromRaw: none of it may show in the value
func (st *n7st) n7scribble(raw any) {
	switch x := raw.(type) {
	case []byte:
		for i := range x {
			x[i] ^= 0xff
		}
		if cap(x) > 0 {
			st.rawBytes = append(st.rawBytes, x)
		}
	case map[string]any:
		for _, e := range x {
			st.n7scribble(e)
		}
		x["k1"] = int64(777)
		delete(x, "k2")
	case []any:
		for i, e := range x {
			st.n7scribble(e)
			x[i] = "scribbled"
		}
	}
}

func newN7(h int) *n7st {
	st := &n7st{}
	for i := 0; i < h; i++ {
		v := NewValueEmpty()
		st.roots = append(st.roots, v)
		st.states = append(st.states, v.getState())
	}
	return st
}

func n7join(p, seg string) string {
	if p == "-" {
		return seg
	}
	return p + "/" + seg
}

func n7walk(r int, path string, v Value, depth int, out *[]n7pos) {
	*out = append(*out, n7pos{r, path, v, depth})
	switch v.Type() {
	case ValueTypeMap:
		v.Map().Range(func(k string, c Value) bool {
			n7walk(r, n7join(path, k), c, depth+1, out)
			return true
		})
	case ValueTypeSlice:
		for i := 0; i < v.Slice().Len(); i++ {
			n7walk(r, n7join(path, fmt.Sprint("i", i)), v.Slice().At(i), depth+1, out)
		}
	}
}

func (st *n7st) positions() []n7pos {
	var out []n7pos
	for r, v := range st.roots {
		n7walk(r, "-", v, 0, &out)
	}
	return out
}

func (st *n7st) at(r int, path string) Value {
	v := st.roots[r]
	if path == "-" {
		return v
	}
	for _, seg := range strings.Split(path, "/") {
		if seg[0] == 'k' {
			v, _ = v.Map().Get(seg)
		} else {
			var i int
			fmt.Sscanf(seg, "i%d", &i)
			v = v.Slice().At(i)
		}
	}
	return v
}

func n7height(v Value) int {
	h := 0
	switch v.Type() {
	case ValueTypeMap:
		v.Map().Range(func(_ string, c Value) bool {
			if x := 1 + n7height(c); x > h {
				h = x
			}
			return true
		})
		if h == 0 {
			h = 1
		}
	case ValueTypeSlice:
		h = 1
		for i := 0; i < v.Slice().Len(); i++ {
			if x := 1 + n7height(v.Slice().At(i)); x > h {
				h = x
			}
		}
	}
	return h
}

func n7dump(sb *strings.Builder, v Value) {
	switch v.Type() {
	case ValueTypeEmpty:
		sb.WriteByte('n')
	case ValueTypeInt:
		fmt.Fprintf(sb, "c0.%d", v.Int())
	case ValueTypeStr:
		fmt.Fprintf(sb, "c1.%s", v.Str())
	case ValueTypeBytes:
		sb.WriteByte('b')
		sb.WriteString(hex.EncodeToString(v.Bytes().AsRaw()))
	case ValueTypeMap:
		m := v.Map()
		fmt.Fprintf(sb, "{%d|", cap(*m.getOrig()))
		first := true
		m.Range(func(k string, c Value) bool {
			if !first {
				sb.WriteByte(',')
			}
			first = false
			sb.WriteString(strings.TrimPrefix(k, "k"))
			sb.WriteByte('=')
			n7dump(sb, c)
			return true
		})
		sb.WriteByte('}')
	case ValueTypeSlice:
		s := v.Slice()
		fmt.Fprintf(sb, "[%d|", cap(*s.getOrig()))
		for i := 0; i < s.Len(); i++ {
			if i > 0 {
				sb.WriteByte(',')
			}
			n7dump(sb, s.At(i))
		}
		sb.WriteByte(']')
	default:
		sb.WriteByte('?')
	}
}

func (st *n7st) obs(panicked bool) string {
	var sb strings.Builder
	if panicked {
		sb.WriteString("obs panic")
	} else {
		sb.WriteString("obs ok")
	}
	for _, v := range st.roots {
		sb.WriteByte(' ')
		n7dump(&sb, v)
	}
	return sb.String()
}

// n7pool: a byte buffer the CALLER keeps and re-uses for every from-raw of bytes: from-raw copies, so writing the
// next content into it must never show in a value filled earlier (half of the bytes ops go through it)
var n7pool = make([]byte, 0, 8)
var n7flip bool

func n7viaPool() bool { n7flip = !n7flip; return n7flip }

// n7set stores the new interface field nv into value v (Set*)
func n7set(v Value, nv string) {
	switch {
	case nv == "n":
		_ = v.FromRaw(nil)
	case nv == "m":
		v.SetEmptyMap()
	case nv == "a":
		v.SetEmptySlice()
	case strings.HasPrefix(nv, "c0."):
		var x int64
		fmt.Sscanf(nv, "c0.%d", &x)
		v.SetInt(x)
	case strings.HasPrefix(nv, "c1."):
		v.SetStr(nv[3:])
	case strings.HasPrefix(nv, "b"):
		b, _ := hex.DecodeString(nv[1:])
		if n7viaPool() {
			n7pool = append(n7pool[:0], b...)
			_ = v.FromRaw(n7pool) // Value.FromRaw([]byte) must copy
		} else {
			v.SetEmptyBytes().FromRaw(b)
		}
	}
}

func n7put(m Map, key string, nv string) {
	switch {
	case nv == "n":
		m.PutEmpty(key)
	case nv == "m":
		m.PutEmptyMap(key)
	case nv == "a":
		m.PutEmptySlice(key)
	case strings.HasPrefix(nv, "c0."):
		var x int64
		fmt.Sscanf(nv, "c0.%d", &x)
		m.PutInt(key, x)
	case strings.HasPrefix(nv, "c1."):
		m.PutStr(key, nv[3:])
	case strings.HasPrefix(nv, "b"):
		b, _ := hex.DecodeString(nv[1:])
		if n7viaPool() {
			n7pool = append(n7pool[:0], b...)
			_ = m.PutEmpty(key).FromRaw(n7pool)
		} else {
			m.PutEmptyBytes(key).FromRaw(b)
		}
	}
}

func n7mask(m []bool) string {
	if len(m) == 0 {
		return "-"
	}
	var sb strings.Builder
	for _, b := range m {
		if b {
			sb.WriteByte('1')
		} else {
			sb.WriteByte('0')
		}
	}
	return sb.String()
}

func (st *n7st) apply(o n7op) (line string, panicked bool) {
	defer func() {
		if r := recover(); r != nil {
			panicked = true
		}
		if o.kind == "setslot" {
			c := 0
			func() {
				defer func() { _ = recover() }()
				switch v := st.at(o.r, o.p); v.Type() {
				case ValueTypeMap:
					c = cap(*v.Map().getOrig())
				case ValueTypeSlice:
					c = cap(*v.Slice().getOrig())
				}
			}()
			line = fmt.Sprintf("op setslot %d %s %s %s cap=%d", o.r, o.p, o.sel, o.nv, c)
		}
	}()
	switch o.kind {
	case "setroot":
		line = fmt.Sprintf("op setroot %d %s", o.r, o.nv)
		n7set(st.roots[o.r], o.nv)
	case "setslot":
		v := st.at(o.r, o.p)
		switch {
		case o.sel == "push":
			v.Slice().AppendEmpty()
		case o.sel[0] == 'k':
			n7put(v.Map(), o.sel, o.nv)
		default:
			var i int
			fmt.Sscanf(o.sel, "i%d", &i)
			n7set(v.Slice().At(i), o.nv)
		}
	case "bapp":
		line = fmt.Sprintf("op bapp %d %s %d", o.r, o.p, o.x)
		st.at(o.r, o.p).Bytes().Append(byte(o.x))
	case "remove":
		line = fmt.Sprintf("op remove %d %s %d", o.r, o.p, o.k)
		st.at(o.r, o.p).Map().Remove(fmt.Sprint("k", o.k))
	case "removeif":
		line = fmt.Sprintf("op removeif %d %s mask=%s", o.r, o.p, n7mask(o.mask))
		i := 0
		next := func() bool { b := i < len(o.mask) && o.mask[i]; i++; return b }
		if v := st.at(o.r, o.p); v.Type() == ValueTypeMap {
			v.Map().RemoveIf(func(string, Value) bool { return next() })
		} else {
			v.Slice().RemoveIf(func(Value) bool { return next() })
		}
	case "ensurecap":
		line = fmt.Sprintf("op ensurecap %d %s %d", o.r, o.p, o.n)
		if v := st.at(o.r, o.p); v.Type() == ValueTypeMap {
			v.Map().EnsureCapacity(o.n)
		} else {
			v.Slice().EnsureCapacity(o.n)
		}
	case "clear":
		line = fmt.Sprintf("op clear %d %s", o.r, o.p)
		st.at(o.r, o.p).Map().Clear()
	case "copyval":
		line = fmt.Sprintf("op copyval %d %s %d %s", o.r, o.p, o.r2, o.p2)
		st.at(o.r, o.p).CopyTo(st.at(o.r2, o.p2))
	case "copylist":
		line = fmt.Sprintf("op copylist %d %s %d %s", o.r, o.p, o.r2, o.p2)
		if a, b := st.at(o.r, o.p), st.at(o.r2, o.p2); a.Type() == ValueTypeMap {
			a.Map().CopyTo(b.Map())
		} else {
			a.Slice().CopyTo(b.Slice())
		}
	case "moveappend":
		line = fmt.Sprintf("op moveappend %d %s %d %s cap=", o.r, o.p, o.r2, o.p2)
		defer func() {
			c := 0
			func() {
				defer func() { _ = recover() }()
				c = cap(*st.at(o.r2, o.p2).Slice().getOrig())
			}()
			line += fmt.Sprint(c)
		}()
		st.at(o.r, o.p).Slice().MoveAndAppendTo(st.at(o.r2, o.p2).Slice())
	case "fromraw":
		// the line is written after the call: the order of every map level is read from the result
		enc := func(res *Value) string {
			var sb strings.Builder
			n7encRaw(&sb, o.raw, res)
			return fmt.Sprintf("op fromraw %d %s %s", o.r, o.p, sb.String())
		}
		line = enc(nil)
		v := st.at(o.r, o.p)
		_ = v.FromRaw(o.raw)
		line = enc(&v)
		n7checkRaw("fromraw", o.raw, v)
		st.n7scribble(o.raw)
	case "fromrawlist":
		// Map.FromRaw / Slice.FromRaw on an EXISTING container (whatever it holds, whatever its capacity)
		enc := func(res *Value) string {
			var sb strings.Builder
			n7encRaw(&sb, o.raw, res)
			return fmt.Sprintf("op fromrawlist %d %s %s", o.r, o.p, sb.String())
		}
		line = enc(nil)
		v := st.at(o.r, o.p)
		if m, ok := o.raw.(map[string]any); ok {
			_ = v.Map().FromRaw(m)
		} else {
			_ = v.Slice().FromRaw(o.raw.([]any))
		}
		line = enc(&v)
		n7checkRaw("fromrawlist", o.raw, v)
		st.n7scribble(o.raw)
	case "moveroot":
		line = fmt.Sprintf("op moveroot %d %d", o.r, o.r2)
		st.roots[o.r].MoveTo(st.roots[o.r2])
	case "markro":
		line = fmt.Sprintf("op markro %d", o.r)
		*st.states[o.r] = internal.StateReadOnly
	}
	return line, false
}

func n7corpus() [][]n7op {
	ss := func(r int, p, sel, nv string) n7op { return n7op{kind: "setslot", r: r, p: p, sel: sel, nv: nv} }
	return [][]n7op{
		// MoveAndAppendTo into a NEVER-USED destination (nil array: the whole vector is handed over), then the
		// emptied source is refilled and the destination edited: they must not share the backing array.
		// Top level, and nested (a slice inside a map value).
		{{kind: "setroot", r: 0, nv: "a"}, ss(0, "-", "push", "n"), ss(0, "-", "i0", "c0.1"), ss(0, "-", "push", "n"), ss(0, "-", "i1", "c0.2"),
			{kind: "setroot", r: 1, nv: "a"}, {kind: "moveappend", r: 0, p: "-", r2: 1, p2: "-"},
			ss(0, "-", "push", "n"), ss(0, "-", "i0", "c1.9"), ss(1, "-", "i1", "c0.7"), ss(0, "-", "push", "n"),
			{kind: "setroot", r: 2, nv: "m"}, ss(2, "-", "k1", "a"), ss(2, "k1", "push", "n"), ss(2, "k1", "i0", "b01"), ss(2, "-", "k2", "a"),
			{kind: "moveappend", r: 2, p: "k1", r2: 2, p2: "k2"}, ss(2, "k1", "push", "n"), ss(2, "k1", "i0", "c0.5"),
			{kind: "bapp", r: 2, p: "k2/i0", x: 3}, {kind: "moveappend", r: 1, p: "-", r2: 2, p2: "k2"}, ss(1, "-", "push", "n")},
		// Map.Remove leaves a stale slot aliasing a live NESTED map; CopyTo of a longer map re-exposes it
		{{kind: "setroot", r: 1, nv: "m"}, ss(1, "-", "k1", "m"), ss(1, "k1", "k1", "b01"), ss(1, "-", "k2", "c0.5"), ss(1, "-", "k3", "m"),
			ss(1, "k3", "k1", "b03"), {kind: "remove", r: 1, p: "-", k: 1},
			{kind: "setroot", r: 0, nv: "m"}, ss(0, "-", "k4", "m"), ss(0, "k4", "k1", "b04"), ss(0, "-", "k5", "c0.6"), ss(0, "-", "k6", "m"),
			ss(0, "k6", "k1", "b06"), {kind: "copylist", r: 0, p: "-", r2: 1, p2: "-"},
			{kind: "bapp", r: 1, p: "k4/k1", x: 9}, {kind: "bapp", r: 0, p: "k6/k1", x: 7}, ss(1, "k6", "k2", "c1.1")},
		// Slice.RemoveIf (value slice: struct copies) then Value.CopyTo of a longer slice, then edits on both sides
		{{kind: "setroot", r: 1, nv: "a"}, ss(1, "-", "push", "n"), ss(1, "-", "i0", "m"), ss(1, "-", "push", "n"), ss(1, "-", "i1", "c1.3"),
			ss(1, "-", "push", "n"), ss(1, "-", "i2", "m"), ss(1, "i2", "k1", "a"), {kind: "removeif", r: 1, p: "-", mask: []bool{true, false, false}},
			{kind: "setroot", r: 0, nv: "a"}, ss(0, "-", "push", "n"), ss(0, "-", "i0", "c0.7"), ss(0, "-", "push", "n"), ss(0, "-", "i1", "m"),
			ss(0, "i1", "k1", "c0.1"), ss(0, "-", "push", "n"), ss(0, "-", "i2", "m"), ss(0, "i2", "k2", "b02"),
			{kind: "copyval", r: 0, p: "-", r2: 1, p2: "-"}, ss(1, "i1", "k9", "c0.9"), {kind: "bapp", r: 0, p: "i2/k2", x: 5},
			{kind: "copyval", r: 1, p: "i1", r2: 1, p2: "i2/k2"}, {kind: "moveroot", r: 1, r2: 2}, {kind: "markro", r: 2},
			ss(2, "i1", "k1", "c0.0"), {kind: "copyval", r: 2, p: "i1", r2: 0, p2: "i0"}, {kind: "copyval", r: 0, p: "-", r2: 2, p2: "i0"}},
	}
}

// direct separation oracle on the implementation: every non-scalar one-of wrapper and every backing
// array (also of an emptied slice that kept its capacity) is reachable at most once from the roots
func n7note(seen map[uintptr]string, p any, where string) string {
	a := reflect.ValueOf(p).Pointer()
	if a == 0 {
		return ""
	}
	if w, ok := seen[a]; ok {
		return fmt.Sprintf("first=%s again=%s", w, where)
	}
	seen[a] = where
	return ""
}

func n7ids(av *otlpcommon.AnyValue, where string, seen map[uintptr]string, depth int) string {
	if depth > 60 {
		return "too-deep=" + where
	}
	switch w := av.Value.(type) {
	case *otlpcommon.AnyValue_KvlistValue:
		if d := n7note(seen, w, where+":kvlist"); d != "" {
			return d
		}
		if w.KvlistValue != nil {
			kvs := w.KvlistValue.Values
			if cap(kvs) > 0 {
				if d := n7note(seen, &kvs[:1][0], where+":kv[]"); d != "" {
					return d
				}
			}
			for i := range kvs {
				if d := n7ids(&kvs[i].Value, where+"/"+kvs[i].Key, seen, depth+1); d != "" {
					return d
				}
			}
		}
	case *otlpcommon.AnyValue_ArrayValue:
		if d := n7note(seen, w, where+":array"); d != "" {
			return d
		}
		if w.ArrayValue != nil {
			vs := w.ArrayValue.Values
			if cap(vs) > 0 {
				if d := n7note(seen, &vs[:1][0], where+":arr[]"); d != "" {
					return d
				}
			}
			for i := range vs {
				if d := n7ids(&vs[i], fmt.Sprint(where, "/i", i), seen, depth+1); d != "" {
					return d
				}
			}
		}
	case *otlpcommon.AnyValue_BytesValue:
		if d := n7note(seen, w, where+":bytes"); d != "" {
			return d
		}
		if cap(w.BytesValue) > 0 {
			return n7note(seen, &w.BytesValue[:1][0], where+":byte[]")
		}
	}
	return ""
}

func (st *n7st) aliasing() string {
	seen := map[uintptr]string{}
	n7note(seen, &n7pool[:1][0], "raw-input")
	for i, b := range st.rawBytes {
		n7note(seen, &b[:1][0], fmt.Sprint("raw-input-bytes-", i))
	}
	for r, v := range st.roots {
		if d := n7ids(v.getOrig(), fmt.Sprint("r", r), seen, 0); d != "" {
			return d
		}
	}
	return ""
}

func n7disjoint(a, b n7pos) bool {
	if a.r != b.r {
		return true
	}
	if a.path == "-" || b.path == "-" {
		return false
	}
	pa, pb := a.path+"/", b.path+"/"
	return !strings.HasPrefix(pa, pb) && !strings.HasPrefix(pb, pa)
}

func TestVerifC07Nest(t *testing.T) {
	out := vOpen(t)
	defer out.Close()
	out.Linef("model c07-nest 1")
	n := vN(1000)
	corpus := n7corpus()
	const maxDepth = 5
	for _, c := range vCases(n) {
		rnd := vRand(c)
		h := 2 + rnd.IntN(3)
		if c < len(corpus) {
			h = 3
		}
		out.Linef("case %d h=%d", c, h)
		st := newN7(h)
		stat := map[string]int{}
		nt := false
		broken := false
		step := func(o n7op) {
			if broken {
				return
			}
			n7rawViol = ""
			line, panicked := st.apply(o)
			out.Linef("%s", line)
			if n7rawViol != "" {
				out.Linef("viol %s", n7rawViol)
			}
			if d := st.aliasing(); d != "" {
				// stop the case here: a later CopyTo could recurse forever through aliased data
				out.Linef("obs aliased")
				out.Linef("viol sig=C07/nest/%s-aliasing-created %s", o.kind, d)
				broken = true
				return
			}
			out.Linef("%s", st.obs(panicked))
			stat["op_"+o.kind]++
			if panicked {
				stat["panics"]++
			}
		}
		randNV := func(depth int) string {
			switch r := rnd.IntN(10); {
			case r < 3 && depth < maxDepth:
				return "m"
			case r < 5 && depth < maxDepth:
				return "a"
			case r < 6:
				return "b" + hex.EncodeToString([]byte{byte(rnd.IntN(200)), byte(rnd.IntN(200))}[:rnd.IntN(3)])
			case r < 7:
				return "n"
			case r < 8:
				return fmt.Sprint("c1.", rnd.IntN(50))
			default:
				return fmt.Sprint("c0.", rnd.IntN(50))
			}
		}
		var randRaw func(depth int) any
		randRaw = func(depth int) any {
			switch r := rnd.IntN(10); {
			case r < 3 && depth < 3:
				m := map[string]any{}
				for j, n := 0, rnd.IntN(4); j < n; j++ {
					m[fmt.Sprint("k", 1+rnd.IntN(5))] = randRaw(depth + 1)
				}
				return m
			case r < 5 && depth < 3:
				a := make([]any, rnd.IntN(4))
				for j := range a {
					a[j] = randRaw(depth + 1)
				}
				return a
			case r < 7:
				b := make([]byte, rnd.IntN(3), 4)
				for j := range b {
					b[j] = byte(rnd.IntN(200))
				}
				return b
			case r < 8:
				return nil
			case r < 9:
				return fmt.Sprint(rnd.IntN(50))
			default:
				return int64(rnd.IntN(50))
			}
		}
		if c < len(corpus) {
			for _, o := range corpus[c] {
				step(o)
			}
			nt = true
		} else {
			length := 5 + rnd.IntN(45)
			for i := 0; i < length && !broken; i++ {
				all := st.positions()
				x := all[rnd.IntN(len(all))]
				var conts, byts []n7pos
				for _, p := range all {
					switch p.v.Type() {
					case ValueTypeMap, ValueTypeSlice:
						conts = append(conts, p)
					case ValueTypeBytes:
						byts = append(byts, p)
					}
				}
				var o n7op
				r := rnd.IntN(100)
				if len(conts) < 2 && r < 70 { // build structure first
					r = 0
				}
				switch {
				case r < 6:
					o = n7op{kind: "setroot", r: rnd.IntN(h), nv: []string{"m", "a", "m", "a", randNV(0)}[rnd.IntN(5)]}
				case r < 13 && x.depth+3 <= 2*maxDepth: // Value.FromRaw with a nested raw input at any position; the caller keeps and scribbles on the input
					raw := randRaw(0)
					if rnd.IntN(2) == 0 { // mostly structured
						raw = map[string]any{"k1": randRaw(1), fmt.Sprint("k", 2+rnd.IntN(4)): randRaw(1), "k3": []any{randRaw(2), []byte{1, 2}}}
					}
					o = n7op{kind: "fromraw", r: x.r, p: x.path, raw: raw}
					stat["fromraw_nested"]++
					nt = true
					if len(conts) > 0 && rnd.IntN(3) == 0 { // Map.FromRaw / Slice.FromRaw directly on an existing container, one time in four with an EMPTY input
						p := conts[rnd.IntN(len(conts))]
						if p.depth+3 <= 2*maxDepth {
							var lraw any
							if p.v.Type() == ValueTypeMap {
								m := map[string]any{}
								for j, n := 0, rnd.IntN(4); j < n; j++ {
									m[fmt.Sprint("k", 1+rnd.IntN(5))] = randRaw(1)
								}
								lraw = m
							} else {
								a := make([]any, rnd.IntN(4))
								for j := range a {
									a[j] = randRaw(1)
								}
								lraw = a
							}
							o = n7op{kind: "fromrawlist", r: p.r, p: p.path, raw: lraw}
							stat["fromraw_on_existing_container"]++
						}
					}
				case r < 44 && len(conts) > 0:
					p := conts[rnd.IntN(len(conts))]
					o = n7op{kind: "setslot", r: p.r, p: p.path, nv: randNV(p.depth + 1)}
					if p.v.Type() == ValueTypeMap {
						o.sel = fmt.Sprint("k", 1+rnd.IntN(5))
					} else if l := p.v.Slice().Len(); l == 0 || rnd.IntN(2) == 0 {
						o.sel, o.nv = "push", "n"
					} else {
						o.sel = fmt.Sprint("i", rnd.IntN(l))
					}
				case r < 52 && len(byts) > 0:
					p := byts[rnd.IntN(len(byts))]
					o = n7op{kind: "bapp", r: p.r, p: p.path, x: rnd.IntN(200)}
				case r < 66 && len(conts) > 0:
					p := conts[rnd.IntN(len(conts))]
					isMap := p.v.Type() == ValueTypeMap
					ln := 0
					if isMap {
						ln = p.v.Map().Len()
					} else {
						ln = p.v.Slice().Len()
					}
					switch q := rnd.IntN(10); {
					case q < 3 && isMap:
						o = n7op{kind: "remove", r: p.r, p: p.path, k: 1 + rnd.IntN(5)}
					case q < 7:
						m := make([]bool, ln)
						for j := range m {
							m[j] = rnd.IntN(3) == 0
						}
						o = n7op{kind: "removeif", r: p.r, p: p.path, mask: m}
					case q < 9:
						o = n7op{kind: "ensurecap", r: p.r, p: p.path, n: rnd.IntN(9)}
					case isMap:
						o = n7op{kind: "clear", r: p.r, p: p.path}
					default:
						o = n7op{kind: "ensurecap", r: p.r, p: p.path, n: rnd.IntN(9)}
					}
				case r < 84: // Value.CopyTo between disjoint positions
					var cands []n7pos
					for _, p := range all {
						if n7disjoint(x, p) && p.depth+n7height(x.v) <= 2*maxDepth {
							cands = append(cands, p)
						}
					}
					if len(cands) == 0 {
						continue
					}
					y := cands[rnd.IntN(len(cands))]
					o = n7op{kind: "copyval", r: x.r, p: x.path, r2: y.r, p2: y.path}
					nt = true
				case r < 93 && len(conts) > 1: // Map.CopyTo / Slice.CopyTo between disjoint containers of one kind
					a := conts[rnd.IntN(len(conts))]
					var cands []n7pos
					for _, p := range conts {
						if p.v.Type() == a.v.Type() && n7disjoint(a, p) && p.depth+n7height(a.v) <= 2*maxDepth {
							cands = append(cands, p)
						}
					}
					if len(cands) == 0 {
						continue
					}
					b := cands[rnd.IntN(len(cands))]
					o = n7op{kind: "copylist", r: a.r, p: a.path, r2: b.r, p2: b.path}
					nt = true
				case r < 97 && len(conts) > 1: // Slice.MoveAndAppendTo between disjoint slices (often into a never-used one)
					var arrs []n7pos
					for _, p := range conts {
						if p.v.Type() == ValueTypeSlice {
							arrs = append(arrs, p)
						}
					}
					if len(arrs) < 2 {
						continue
					}
					a := arrs[rnd.IntN(len(arrs))]
					var cands []n7pos
					for _, p := range arrs {
						if n7disjoint(a, p) && p.depth+n7height(a.v) <= 2*maxDepth {
							cands = append(cands, p)
						}
					}
					if len(cands) == 0 {
						continue
					}
					b := cands[rnd.IntN(len(cands))]
					if cap(*b.v.Slice().getOrig()) == 0 {
						stat["moveappend_into_never_used"]++
					}
					o = n7op{kind: "moveappend", r: a.r, p: a.path, r2: b.r, p2: b.path}
					nt = true
				case r < 98:
					a := rnd.IntN(h)
					o = n7op{kind: "moveroot", r: a, r2: (a + 1 + rnd.IntN(h-1)) % h}
				case r < 100 && i > 2*length/3 && rnd.IntN(2) == 0:
					o = n7op{kind: "markro", r: rnd.IntN(h)}
				default:
					o = n7op{kind: "setroot", r: rnd.IntN(h), nv: randNV(0)}
				}
				step(o)
			}
		}
		if nt {
			out.Linef("nt")
		}
		for k, v := range stat {
			out.Linef("stat %s %d", k, v)
		}
		out.Linef("end")
		out.Flush()
	}
}
