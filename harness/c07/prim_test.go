//go:build verif

package pcommon

import (
	"fmt"
	"strings"
	"testing"

	"go.opentelemetry.io/collector/pdata/internal"
)

// Primitive-slice differential (model `c07-prim`): random programs over 2-4 pcommon.UInt64Slice
// handles (Append, SetAt, EnsureCapacity, FromRaw, CopyTo, MoveTo, read-only); content and capacity
// of every handle after every op against the Lean model, Lean oracle on the observations.

func p7vals(v []uint64) string {
	if len(v) == 0 {
		return "-"
	}
	s := make([]string, len(v))
	for i, x := range v {
		s[i] = fmt.Sprint(x)
	}
	return strings.Join(s, ",")
}

func TestVerifC07Prim(t *testing.T) {
	out := vOpen(t)
	defer out.Close()
	out.Linef("model c07-prim 1")
	n := vN(1000)
	for _, c := range vCases(n) {
		rnd := vRand(c)
		h := 2 + rnd.IntN(3)
		out.Linef("case %d h=%d", c, h)
		sl := make([]UInt64Slice, h)
		states := make([]*internal.State, h)
		for i := range sl {
			sl[i] = NewUInt64Slice()
			states[i] = sl[i].getState()
		}
		stat := map[string]int{}
		nt := false
		length := 1 + rnd.IntN(40)
		if c == 0 { // corpus: copy into a longer slice re-uses the array; the source stays independent
			length = 0
			prog := []func() string{
				func() string {
					sl[0].Append(1, 2, 3)
					return fmt.Sprintf("op append 0 1,2,3 cap=%d", cap(*sl[0].getOrig()))
				},
				func() string {
					sl[1].FromRaw([]uint64{7})
					return fmt.Sprintf("op fromraw 1 7 cap=%d", cap(*sl[1].getOrig()))
				},
				func() string { sl[1].CopyTo(sl[0]); return fmt.Sprintf("op copy 1 0 cap=%d", cap(*sl[0].getOrig())) },
				func() string { sl[0].Append(9); return fmt.Sprintf("op append 0 9 cap=%d", cap(*sl[0].getOrig())) },
				func() string { sl[1].SetAt(0, 5); return "op setat 1 0 5" },
				func() string { sl[0].MoveTo(sl[1]); return "op move 0 1" },
			}
			for _, f := range prog {
				out.Linef("%s", f())
				var sb strings.Builder
				sb.WriteString("obs ok")
				for _, s := range sl {
					fmt.Fprintf(&sb, " %s/%d", p7vals(*s.getOrig()), cap(*s.getOrig()))
				}
				out.Linef("%s", sb.String())
			}
			nt = true
		}
		for k := 0; k < length; k++ {
			a := rnd.IntN(h)
			b := (a + 1 + rnd.IntN(h-1)) % h
			xs := make([]uint64, rnd.IntN(4))
			for i := range xs {
				xs[i] = uint64(rnd.IntN(99))
			}
			var line string
			panicked := false
			func() {
				defer func() {
					if r := recover(); r != nil {
						panicked = true
					}
				}()
				switch r := rnd.IntN(100); {
				case r < 25:
					line = fmt.Sprintf("op append %d %s cap=", a, p7vals(xs))
					stat["op_append"]++
					defer func() { line += fmt.Sprint(cap(*sl[a].getOrig())) }()
					sl[a].Append(xs...)
				case r < 38 && sl[a].Len() > 0:
					i, v := rnd.IntN(sl[a].Len()), rnd.IntN(99)
					line = fmt.Sprintf("op setat %d %d %d", a, i, v)
					stat["op_setat"]++
					sl[a].SetAt(i, uint64(v))
				case r < 48:
					nn := rnd.IntN(10)
					line = fmt.Sprintf("op ensurecap %d %d", a, nn)
					stat["op_ensurecap"]++
					sl[a].EnsureCapacity(nn)
				case r < 62:
					line = fmt.Sprintf("op fromraw %d %s cap=", a, p7vals(xs))
					stat["op_fromraw"]++
					defer func() { line += fmt.Sprint(cap(*sl[a].getOrig())) }()
					sl[a].FromRaw(xs)
				case r < 86:
					line = fmt.Sprintf("op copy %d %d cap=", a, b)
					stat["op_copy"]++
					if cap(*sl[b].getOrig()) > sl[a].Len() {
						nt = true
					}
					defer func() { line += fmt.Sprint(cap(*sl[b].getOrig())) }()
					sl[a].CopyTo(sl[b])
				case r < 96:
					line = fmt.Sprintf("op move %d %d", a, b)
					stat["op_move"]++
					sl[a].MoveTo(sl[b])
				case k > length/2:
					line = fmt.Sprintf("op markro %d", a)
					stat["op_markro"]++
					*states[a] = internal.StateReadOnly
				default:
					line = fmt.Sprintf("op ensurecap %d 0", a)
					sl[a].EnsureCapacity(0)
				}
			}()
			out.Linef("%s", line)
			var sb strings.Builder
			if panicked {
				sb.WriteString("obs panic")
				stat["panics"]++
			} else {
				sb.WriteString("obs ok")
			}
			for _, s := range sl {
				fmt.Fprintf(&sb, " %s/%d", p7vals(*s.getOrig()), cap(*s.getOrig()))
			}
			out.Linef("%s", sb.String())
		}
		if nt {
			out.Linef("nt")
		}
		for k, v := range stat {
			out.Linef("stat %s %d", k, v)
		}
		out.Linef("end")
		out.Flush()
	}
}
