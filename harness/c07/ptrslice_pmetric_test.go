//go:build verif

package pmetric

import (
	"fmt"
	"strings"
	"testing"

	"go.opentelemetry.io/collector/pdata/pcommon"
)

// GENERATED from ptrslice_test.go by substitution (see docs/reports/C07.md) — pmetric.NumberDataPointSlice
// One op of a pointer-slice program. Handles are NumberDataPointSlices, each owned by its own pmetric.Metrics
// (so MarkReadOnly goes through the public API); the scalar field of an element is Timestamp.
type v7op struct {
	kind string // append set removeif ensurecap sort copy moveappend markro
	a, b int
	i, v int
	mask []bool
}

type v7ps struct {
	logs []Metrics
	sl   []NumberDataPointSlice
}

func newV7ps(h int) *v7ps {
	p := &v7ps{}
	for k := 0; k < h; k++ {
		ld := NewMetrics()
		s := ld.ResourceMetrics().AppendEmpty().ScopeMetrics().AppendEmpty().Metrics().AppendEmpty().SetEmptyGauge().DataPoints()
		p.logs = append(p.logs, ld)
		p.sl = append(p.sl, s)
	}
	return p
}

func v7mask(m []bool) string {
	if len(m) == 0 {
		return "-"
	}
	var sb strings.Builder
	for _, b := range m {
		if b {
			sb.WriteByte('1')
		} else {
			sb.WriteByte('0')
		}
	}
	return sb.String()
}

// apply runs one op on the real code, returns the op line (with observed inputs) and whether it panicked.
func (p *v7ps) apply(o v7op) (line string, panicked bool) {
	defer func() {
		if r := recover(); r != nil {
			panicked = true
		}
		switch o.kind {
		case "append":
			line = fmt.Sprintf("op append %d cap=%d", o.a, cap(*p.sl[o.a].orig))
		case "moveappend":
			line = fmt.Sprintf("op moveappend %d %d cap=%d", o.a, o.b, cap(*p.sl[o.b].orig))
		}
	}()
	switch o.kind {
	case "append":
		p.sl[o.a].AppendEmpty()
	case "set":
		line = fmt.Sprintf("op set %d %d %d", o.a, o.i, o.v)
		p.sl[o.a].At(o.i).SetTimestamp(pcommon.Timestamp(o.v))
	case "removeif":
		line = fmt.Sprintf("op removeif %d mask=%s", o.a, v7mask(o.mask))
		k := 0
		p.sl[o.a].RemoveIf(func(NumberDataPoint) bool {
			r := k < len(o.mask) && o.mask[k]
			k++
			return r
		})
	case "ensurecap":
		line = fmt.Sprintf("op ensurecap %d %d", o.a, o.v)
		p.sl[o.a].EnsureCapacity(o.v)
	case "sort":
		line = fmt.Sprintf("op sort %d", o.a)
		p.sl[o.a].Sort(func(x, y NumberDataPoint) bool { return x.Timestamp() < y.Timestamp() })
	case "copy":
		line = fmt.Sprintf("op copy %d %d", o.a, o.b)
		p.sl[o.a].CopyTo(p.sl[o.b])
	case "moveappend":
		p.sl[o.a].MoveAndAppendTo(p.sl[o.b])
	case "markro":
		line = fmt.Sprintf("op markro %d", o.a)
		p.logs[o.a].MarkReadOnly()
	}
	return line, false
}

// obs: content of every handle through the public readers (a nil element, which only a defect can
// expose, reads as "nil" and makes the observation unparsable for the oracle on purpose) + cap.
func (p *v7ps) obs(panicked bool) string {
	var sb strings.Builder
	if panicked {
		sb.WriteString("obs panic")
	} else {
		sb.WriteString("obs ok")
	}
	for _, s := range p.sl {
		sb.WriteByte(' ')
		if s.Len() == 0 {
			sb.WriteByte('-')
		}
		for i := 0; i < s.Len(); i++ {
			if i > 0 {
				sb.WriteByte(',')
			}
			if (*s.orig)[i] == nil {
				sb.WriteString("nil")
			} else {
				fmt.Fprintf(&sb, "%d", uint64(s.At(i).Timestamp()))
			}
		}
		fmt.Fprintf(&sb, "/%d", cap(*s.orig))
	}
	return sb.String()
}

// corpus: the design's reproduced witnesses, as programs over 2 handles
func v7corpus() [][]v7op {
	fill := func(a int, vals ...int) []v7op {
		var r []v7op
		for i, v := range vals {
			r = append(r, v7op{kind: "append", a: a}, v7op{kind: "set", a: a, i: i, v: v})
		}
		return r
	}
	var c [][]v7op
	// CopyTo into a previously filtered slice: stale pointer re-exposed, [1,2,3] arrives as [1,3,3]
	c = append(c, append(append(fill(0, 1, 2, 3), fill(1, 4, 5, 6)...),
		v7op{kind: "removeif", a: 1, mask: []bool{false, true, false}}, v7op{kind: "copy", a: 0, b: 1},
		v7op{kind: "set", a: 1, i: 1, v: 9}))
	// CopyTo into a pre-sized slice: nil slot dereferenced
	c = append(c, append(fill(0, 1, 2), v7op{kind: "ensurecap", a: 1, v: 4}, v7op{kind: "copy", a: 0, b: 1}))
	// CopyTo shrinks, then grows again within capacity (slots beyond len are the destination's own old elements)
	c = append(c, append(append(fill(0, 1, 2, 3), fill(1, 4)...),
		v7op{kind: "copy", a: 1, b: 0}, v7op{kind: "copy", a: 0, b: 2}, v7op{kind: "append", a: 1}, v7op{kind: "append", a: 1},
		v7op{kind: "copy", a: 1, b: 0}, v7op{kind: "set", a: 0, i: 2, v: 7}))
	// move-and-append into an emptied (non-nil) destination, then copy back into the moved-from source
	c = append(c, append(append(fill(0, 1, 2), fill(1, 3, 4)...),
		v7op{kind: "removeif", a: 1, mask: []bool{true, true}}, v7op{kind: "moveappend", a: 0, b: 1},
		v7op{kind: "copy", a: 1, b: 0}, v7op{kind: "set", a: 0, i: 0, v: 8}, v7op{kind: "markro", a: 1},
		v7op{kind: "set", a: 1, i: 0, v: 5}, v7op{kind: "copy", a: 1, b: 0}, v7op{kind: "copy", a: 0, b: 1}))
	return c
}

// exhaustive small scope (thorough): all programs of v7exhLen ops from a 14-op alphabet after a fixed prefix
const v7exhLen = 4

func v7alphabet() []v7op {
	return []v7op{
		{kind: "removeif", a: 1, mask: []bool{false, true, false}},
		{kind: "removeif", a: 1, mask: []bool{true, true, false}},
		{kind: "removeif", a: 0, mask: []bool{true, false, false}},
		{kind: "ensurecap", a: 1, v: 5},
		{kind: "copy", a: 0, b: 1},
		{kind: "copy", a: 1, b: 0},
		{kind: "moveappend", a: 0, b: 1},
		{kind: "moveappend", a: 1, b: 0},
		{kind: "append", a: 0},
		{kind: "append", a: 1},
		{kind: "set", a: 0, i: 0, v: 9},
		{kind: "set", a: 1, i: 1, v: 8},
		{kind: "sort", a: 0},
		{kind: "markro", a: 1},
	}
}

func v7exhCount() int {
	n := 1
	for k := 0; k < v7exhLen; k++ {
		n *= len(v7alphabet())
	}
	return n
}

func TestVerifC07PtrSliceMetric(t *testing.T) {
	out := vOpen(t)
	defer out.Close()
	out.Linef("model c07-ptrslice 1")
	n := vN(1000)
	corpus := v7corpus()
	total := n
	if vThorough() {
		total += v7exhCount()
	}
	for _, c := range vCases(total) {
		rnd := vRand(c)
		h := 2 + rnd.IntN(3)
		var prog []v7op
		scripted := false
		switch {
		case c < len(corpus):
			prog, h, scripted = corpus[c], 3, true
		case c >= n:
			// exhaustive: decode c-n in base |alphabet|
			h, scripted = 2, true
			for i, v := range []int{1, 2, 3} {
				prog = append(prog, v7op{kind: "append", a: 0}, v7op{kind: "set", a: 0, i: i, v: v})
			}
			for i, v := range []int{4, 5, 6} {
				prog = append(prog, v7op{kind: "append", a: 1}, v7op{kind: "set", a: 1, i: i, v: v})
			}
			al := v7alphabet()
			x := c - n
			for k := 0; k < v7exhLen; k++ {
				prog = append(prog, al[x%len(al)])
				x /= len(al)
			}
		}
		out.Linef("case %d h=%d", c, h)
		p := newV7ps(h)
		filtered := make([]bool, h) // had elements removed / was re-sliced shorter since its array was allocated
		nt := false
		stat := map[string]int{}
		step := func(o v7op) {
			if o.kind == "copy" || o.kind == "moveappend" {
				d := p.sl[o.b]
				switch {
				case cap(*d.orig) == 0:
					stat["dest_nil"]++
				case filtered[o.b]:
					stat["dest_filtered"]++
					nt = true
				case cap(*d.orig) > d.Len():
					stat["dest_spare_capacity"]++
					nt = true
				default:
					stat["dest_full"]++
				}
				if o.kind == "copy" {
					switch sl, dl := p.sl[o.a].Len(), d.Len(); {
					case sl < dl:
						stat["copy_into_longer"]++
						filtered[o.b] = true
					case sl > dl:
						stat["copy_into_shorter"]++
					default:
						stat["copy_same_len"]++
					}
				}
			}
			if o.kind == "removeif" {
				for k, b := range o.mask {
					if b && k < p.sl[o.a].Len() {
						filtered[o.a] = true
					}
				}
			}
			line, panicked := p.apply(o)
			out.Linef("%s", line)
			out.Linef("%s", p.obs(panicked))
			stat["op_"+o.kind]++
			if panicked {
				stat["panics"]++
			}
		}
		if scripted {
			for _, o := range prog {
				step(o)
			}
		} else {
			length := 1 + rnd.IntN(40)
			for k := 0; k < length; k++ {
				a := rnd.IntN(h)
				b := (a + 1 + rnd.IntN(h-1)) % h
				la := p.sl[a].Len()
				var o v7op
				switch r := rnd.IntN(100); {
				case r < 24:
					o = v7op{kind: "append", a: a}
				case r < 40 && la > 0:
					o = v7op{kind: "set", a: a, i: rnd.IntN(la), v: 1 + rnd.IntN(99)}
				case r < 54 && la > 0:
					m := make([]bool, la)
					switch pat := rnd.IntN(5); pat {
					case 0: // every other element
						for i := range m {
							m[i] = i%2 == 0
						}
					case 1: // a prefix
						for i := 0; i < 1+rnd.IntN(la); i++ {
							m[i] = true
						}
					case 2: // everything
						for i := range m {
							m[i] = true
						}
					default:
						for i := range m {
							m[i] = rnd.IntN(3) == 0
						}
					}
					o = v7op{kind: "removeif", a: a, mask: m}
				case r < 62:
					o = v7op{kind: "ensurecap", a: a, v: rnd.IntN(12)}
				case r < 68:
					o = v7op{kind: "sort", a: a}
				case r < 88:
					o = v7op{kind: "copy", a: a, b: b}
				case r < 97:
					o = v7op{kind: "moveappend", a: a, b: b}
				case r < 99 && k > length/2:
					o = v7op{kind: "markro", a: a}
				default:
					o = v7op{kind: "append", a: a}
				}
				step(o)
			}
		}
		if nt {
			out.Linef("nt")
		}
		for k, v := range stat {
			out.Linef("stat %s %d", k, v)
		}
		out.Linef("end")
		out.Flush()
	}
}
