//go:build verif

package plog

import (
	"encoding/hex"
	"fmt"
	"reflect"
	"sort"
	"strconv"
	"strings"
	"testing"

	"go.opentelemetry.io/collector/pdata/internal"
	otlpcommon "go.opentelemetry.io/collector/pdata/internal/data/protogen/common/v1"
	"go.opentelemetry.io/collector/pdata/pcommon"
)

// Tree harness: random programs of public operations at random positions of 2-3 plog.Logs payloads
// (resource/scope/record slices and messages, attribute maps, values, value slices, byte slices),
// checked after EVERY step against a plain-Go reference model: trees with assignment semantics.
// Every op (copy / move / move-and-append / remove / remove-if / append AND the plain setters Set*,
// Put*, FromRaw, Clear, bytes append) is computed on the reference alone from its arguments; nothing is
// ever re-read from the implementation, so a wrong result on the target itself and aliasing (an
// unrelated change) both show.

type t7node struct {
	leaf  string
	key   string // entry key when the parent is a map
	isMap bool
	kids  []*t7node
}

func t7clone(n *t7node) *t7node {
	c := &t7node{leaf: n.leaf, key: n.key, isMap: n.isMap}
	for _, k := range n.kids {
		c.kids = append(c.kids, t7clone(k))
	}
	return c
}

func t7sorted(n *t7node) []*t7node {
	if !n.isMap {
		return n.kids
	}
	ks := append([]*t7node(nil), n.kids...)
	sort.SliceStable(ks, func(i, j int) bool { return ks[i].key < ks[j].key })
	return ks
}

// t7diff returns the path of the first difference ("" if equal)
func t7diff(a, b *t7node, path string) string {
	if a.leaf != b.leaf || a.isMap != b.isMap || len(a.kids) != len(b.kids) {
		return path + "!"
	}
	ak, bk := t7sorted(a), t7sorted(b)
	for i := range ak {
		if ak[i].key != bk[i].key {
			return path + "!"
		}
		seg := fmt.Sprint(i)
		if a.isMap {
			seg = "k" + ak[i].key
		}
		if d := t7diff(ak[i], bk[i], path+"/"+seg); d != "" {
			return d
		}
	}
	return ""
}

// ---- dump of the implementation through the public readers

// a defect can make the data cyclic (a value aliased into its own descendant): bound the walk
var t7depth int

func t7val(v pcommon.Value) *t7node {
	t7depth++
	defer func() { t7depth-- }()
	if t7depth > 100 {
		return &t7node{leaf: "too-deep"}
	}
	switch v.Type() {
	case pcommon.ValueTypeMap:
		return &t7node{leaf: "map", kids: []*t7node{t7map(v.Map())}}
	case pcommon.ValueTypeSlice:
		return &t7node{leaf: "slice", kids: []*t7node{t7vslice(v.Slice())}}
	case pcommon.ValueTypeBytes:
		return &t7node{leaf: "bytes:" + hex.EncodeToString(v.Bytes().AsRaw())}
	default:
		return &t7node{leaf: v.Type().String() + ":" + v.AsString()}
	}
}

func t7map(m pcommon.Map) *t7node {
	n := &t7node{leaf: "M", isMap: true}
	m.Range(func(k string, v pcommon.Value) bool {
		c := t7val(v)
		c.key = k
		n.kids = append(n.kids, c)
		return true
	})
	return n
}

func t7vslice(s pcommon.Slice) *t7node {
	n := &t7node{leaf: "S"}
	for i := 0; i < s.Len(); i++ {
		n.kids = append(n.kids, t7val(s.At(i)))
	}
	return n
}

func t7lrLeaf(lr LogRecord) string {
	return fmt.Sprintf("lr ts=%d ots=%d sn=%d st=%q fl=%d tid=%s sid=%s ev=%q dr=%d", lr.Timestamp(), lr.ObservedTimestamp(),
		lr.SeverityNumber(), lr.SeverityText(), lr.Flags(), lr.TraceID(), lr.SpanID(), lr.EventName(), lr.DroppedAttributesCount())
}

func t7lr(lr LogRecord) *t7node {
	return &t7node{leaf: t7lrLeaf(lr), kids: []*t7node{t7val(lr.Body()), t7map(lr.Attributes())}}
}

func t7lrs(s LogRecordSlice) *t7node {
	n := &t7node{leaf: "LRS"}
	for i := 0; i < s.Len(); i++ {
		n.kids = append(n.kids, t7lr(s.At(i)))
	}
	return n
}

func t7slLeaf(sl ScopeLogs) string {
	return fmt.Sprintf("sl url=%q name=%q ver=%q dr=%d", sl.SchemaUrl(), sl.Scope().Name(), sl.Scope().Version(), sl.Scope().DroppedAttributesCount())
}

func t7sl(sl ScopeLogs) *t7node {
	return &t7node{leaf: t7slLeaf(sl), kids: []*t7node{t7map(sl.Scope().Attributes()), t7lrs(sl.LogRecords())}}
}

func t7sls(s ScopeLogsSlice) *t7node {
	n := &t7node{leaf: "SLS"}
	for i := 0; i < s.Len(); i++ {
		n.kids = append(n.kids, t7sl(s.At(i)))
	}
	return n
}

func t7rlLeaf(rl ResourceLogs) string {
	return fmt.Sprintf("rl url=%q dr=%d", rl.SchemaUrl(), rl.Resource().DroppedAttributesCount())
}

func t7rl(rl ResourceLogs) *t7node {
	return &t7node{leaf: t7rlLeaf(rl), kids: []*t7node{t7map(rl.Resource().Attributes()), t7sls(rl.ScopeLogs())}}
}

func t7rls(s ResourceLogsSlice) *t7node {
	n := &t7node{leaf: "RLS"}
	for i := 0; i < s.Len(); i++ {
		n.kids = append(n.kids, t7rl(s.At(i)))
	}
	return n
}

func t7dump(kind string, real any) *t7node {
	switch kind {
	case "rls":
		return t7rls(real.(ResourceLogsSlice))
	case "rl":
		return t7rl(real.(ResourceLogs))
	case "sls":
		return t7sls(real.(ScopeLogsSlice))
	case "sl":
		return t7sl(real.(ScopeLogs))
	case "lrs":
		return t7lrs(real.(LogRecordSlice))
	case "lr":
		return t7lr(real.(LogRecord))
	case "map":
		return t7map(real.(pcommon.Map))
	case "val":
		return t7val(real.(pcommon.Value))
	case "vslice":
		return t7vslice(real.(pcommon.Slice))
	}
	panic("kind " + kind)
}

func t7empty(kind string) *t7node {
	switch kind {
	case "rl":
		return t7rl(NewResourceLogs())
	case "sl":
		return t7sl(NewScopeLogs())
	case "lr":
		return t7lr(NewLogRecord())
	case "map":
		return t7map(pcommon.NewMap())
	case "val":
		return t7val(pcommon.NewValueEmpty())
	}
	panic("empty " + kind)
}

var t7elem = map[string]string{"rls": "rl", "sls": "sl", "lrs": "lr", "vslice": "val"}

// ---- cursors: a position in the implementation together with the reference node for it

type t7cur struct {
	kind string
	real any
	ref  *t7node
	top  int
	path string
}

func (c t7cur) kidsCur() []t7cur {
	mk := func(i int, seg string, kind string, real any) t7cur {
		return t7cur{kind: kind, real: real, ref: c.ref.kids[i], top: c.top, path: c.path + "/" + seg}
	}
	var out []t7cur
	switch c.kind {
	case "rls":
		s := c.real.(ResourceLogsSlice)
		for i := range c.ref.kids {
			out = append(out, mk(i, fmt.Sprint(i), "rl", s.At(i)))
		}
	case "rl":
		rl := c.real.(ResourceLogs)
		out = append(out, mk(0, "0", "map", rl.Resource().Attributes()), mk(1, "1", "sls", rl.ScopeLogs()))
	case "sls":
		s := c.real.(ScopeLogsSlice)
		for i := range c.ref.kids {
			out = append(out, mk(i, fmt.Sprint(i), "sl", s.At(i)))
		}
	case "sl":
		sl := c.real.(ScopeLogs)
		out = append(out, mk(0, "0", "map", sl.Scope().Attributes()), mk(1, "1", "lrs", sl.LogRecords()))
	case "lrs":
		s := c.real.(LogRecordSlice)
		for i := range c.ref.kids {
			out = append(out, mk(i, fmt.Sprint(i), "lr", s.At(i)))
		}
	case "lr":
		lr := c.real.(LogRecord)
		out = append(out, mk(0, "0", "val", lr.Body()), mk(1, "1", "map", lr.Attributes()))
	case "map":
		m := c.real.(pcommon.Map)
		for i, k := range c.ref.kids {
			v, _ := m.Get(k.key)
			out = append(out, mk(i, "k"+k.key, "val", v))
		}
	case "val":
		v := c.real.(pcommon.Value)
		switch c.ref.leaf {
		case "map":
			out = append(out, mk(0, "0", "map", v.Map()))
		case "slice":
			out = append(out, mk(0, "0", "vslice", v.Slice()))
		}
	case "vslice":
		s := c.real.(pcommon.Slice)
		for i := range c.ref.kids {
			out = append(out, mk(i, fmt.Sprint(i), "val", s.At(i)))
		}
	}
	return out
}

func t7collect(c t7cur, out *[]t7cur) {
	*out = append(*out, c)
	for _, k := range c.kidsCur() {
		t7collect(k, out)
	}
}

func t7disjoint(a, b t7cur) bool {
	if a.top != b.top {
		return true
	}
	pa, pb := a.path+"/", b.path+"/"
	return !strings.HasPrefix(pa, pb) && !strings.HasPrefix(pb, pa)
}

type t7rnd interface{ IntN(int) int }

var t7keys = []string{"a", "b", "c", "d", "e"}

// t7pool: raw Go values (containing []byte directly and nested) that the CALLER keeps for the whole case: the
// same raw value is used for several from-raw ops and its bytes are scribbled on by the caller in between.
// Value semantics: from-raw copies, so neither may ever show in a payload.
var t7pool []any

func t7newPool(r t7rnd) []any {
	b := func() []byte { return []byte{byte(r.IntN(200)), byte(r.IntN(200)), byte(r.IntN(200))}[:1+r.IntN(3)] }
	return []any{
		b(),
		map[string]any{"p": b(), "q": []any{b(), "x"}, "i": int64(r.IntN(50))},
		[]any{b(), map[string]any{"r": b()}},
	}
}

// t7refFromRaw: the node the reference expects for a value filled from raw (as raw reads NOW)
func t7refFromRaw(raw any) *t7node {
	switch tv := raw.(type) {
	case []byte:
		return &t7node{leaf: "bytes:" + hex.EncodeToString(tv)}
	case string:
		return &t7node{leaf: "Str:" + tv}
	case int64:
		return &t7node{leaf: fmt.Sprint("Int:", tv)}
	case map[string]any:
		mn := &t7node{leaf: "M", isMap: true}
		for k, x := range tv {
			c := t7refFromRaw(x)
			c.key = k
			mn.kids = append(mn.kids, c)
		}
		return &t7node{leaf: "map", kids: []*t7node{mn}}
	case []any:
		sn := &t7node{leaf: "S"}
		for _, x := range tv {
			sn.kids = append(sn.kids, t7refFromRaw(x))
		}
		return &t7node{leaf: "slice", kids: []*t7node{sn}}
	}
	return &t7node{leaf: "Empty:"}
}

// t7rawBytes: every []byte inside a raw value
func t7rawBytes(raw any, out *[][]byte) {
	switch tv := raw.(type) {
	case []byte:
		*out = append(*out, tv)
	case map[string]any:
		for _, x := range tv {
			t7rawBytes(x, out)
		}
	case []any:
		for _, x := range tv {
			t7rawBytes(x, out)
		}
	}
}

// t7setVal applies a plain setter to a value and returns the node the REFERENCE expects afterwards,
// computed from the drawn arguments alone (old = the reference node before; nil when filling).
func t7setVal(r t7rnd, v pcommon.Value, old *t7node) (string, *t7node) {
	intNode := func(x int) *t7node { return &t7node{leaf: fmt.Sprint("Int:", x)} }
	switch r.IntN(12) {
	case 0:
		x := r.IntN(50)
		v.SetStr(fmt.Sprint("s", x))
		return "setstr", &t7node{leaf: fmt.Sprint("Str:s", x)}
	case 1:
		x := r.IntN(50)
		v.SetInt(int64(x))
		return "setint", intNode(x)
	case 2:
		b := r.IntN(2) == 0
		v.SetBool(b)
		return "setbool", &t7node{leaf: fmt.Sprint("Bool:", b)}
	case 3:
		x := r.IntN(50)
		v.SetDouble(float64(x) / 2)
		return "setdouble", &t7node{leaf: "Double:" + strconv.FormatFloat(float64(x)/2, 'f', -1, 64)}
	case 4:
		m := v.SetEmptyMap()
		mn := &t7node{leaf: "M", isMap: true}
		for i := r.IntN(3); i > 0; i-- {
			k, x := t7keys[r.IntN(len(t7keys))], r.IntN(50)
			m.PutInt(k, int64(x))
			t7refPut(mn, k, intNode(x))
		}
		return "setmap", &t7node{leaf: "map", kids: []*t7node{mn}}
	case 5:
		s := v.SetEmptySlice()
		sn := &t7node{leaf: "S"}
		for i := r.IntN(3); i > 0; i-- {
			x := r.IntN(50)
			s.AppendEmpty().SetInt(int64(x))
			sn.kids = append(sn.kids, intNode(x))
		}
		return "setslice", &t7node{leaf: "slice", kids: []*t7node{sn}}
	case 6:
		b := []byte{byte(r.IntN(200)), byte(r.IntN(200))}
		v.SetEmptyBytes().FromRaw(b)
		return "setbytes", &t7node{leaf: "bytes:" + hex.EncodeToString(b)}
	case 7:
		if v.Type() == pcommon.ValueTypeBytes {
			b := byte(r.IntN(200))
			v.Bytes().Append(b)
			leaf := "bytes:" + hex.EncodeToString(append(v.Bytes().AsRaw()[:0:0], v.Bytes().AsRaw()...))
			if old != nil {
				leaf = old.leaf + hex.EncodeToString([]byte{b})
			}
			return "bytesappend", &t7node{leaf: leaf}
		}
		x := r.IntN(50)
		v.SetInt(int64(x))
		return "setint", intNode(x)
	case 8, 9: // from-raw out of the caller-kept pool (the same raw input serves many values)
		if len(t7pool) > 0 {
			raw := t7pool[r.IntN(len(t7pool))]
			_ = v.FromRaw(raw)
			return "fromrawpool", t7refFromRaw(raw)
		}
		_ = v.FromRaw(nil)
		return "fromrawnil", &t7node{leaf: "Empty:"}
	case 10: // in-place byte edit: SetAt, or FromRaw / CopyTo of a length that fits the buffer
		if v.Type() == pcommon.ValueTypeBytes && v.Bytes().Len() > 0 && old != nil {
			cur, _ := hex.DecodeString(strings.TrimPrefix(old.leaf, "bytes:"))
			if len(cur) == v.Bytes().Len() {
				switch r.IntN(3) {
				case 0:
					i, x := r.IntN(len(cur)), byte(r.IntN(200))
					v.Bytes().SetAt(i, x)
					cur[i] = x
					return "bytessetat", &t7node{leaf: "bytes:" + hex.EncodeToString(cur)}
				case 1:
					nb := make([]byte, len(cur))
					for i := range nb {
						nb[i] = byte(r.IntN(200))
					}
					v.Bytes().FromRaw(nb)
					return "bytesfromrawfit", &t7node{leaf: "bytes:" + hex.EncodeToString(nb)}
				default:
					nb := make([]byte, len(cur))
					for i := range nb {
						nb[i] = byte(r.IntN(200))
					}
					o := pcommon.NewByteSlice()
					o.FromRaw(nb)
					o.CopyTo(v.Bytes())
					return "bytescopytofit", &t7node{leaf: "bytes:" + hex.EncodeToString(nb)}
				}
			}
		}
		x := r.IntN(50)
		v.SetInt(int64(x))
		return "setint", intNode(x)
	default:
		_ = v.FromRaw(nil)
		return "fromrawnil", &t7node{leaf: "Empty:"}
	}
}

// t7refPut: reference semantics of Map.Put*: replace the entry with that key or add one
func t7refPut(m *t7node, key string, val *t7node) {
	val.key = key
	for i, k := range m.kids {
		if k.key == key {
			m.kids[i] = val
			return
		}
	}
	m.kids = append(m.kids, val)
}

type t7state struct {
	logs []Logs
	refs []*t7node
	ro   []bool
}

func (st *t7state) roots() []t7cur {
	var out []t7cur
	for i, ld := range st.logs {
		out = append(out, t7cur{kind: "rls", real: ld.ResourceLogs(), ref: st.refs[i], top: i, path: fmt.Sprint("h", i)})
	}
	return out
}

// t7fill builds arbitrary initial content through the public API
func t7fill(r t7rnd, ld Logs) {
	for i := r.IntN(3); i > 0; i-- {
		rl := ld.ResourceLogs().AppendEmpty()
		rl.SetSchemaUrl(fmt.Sprint("u", r.IntN(9)))
		for j := r.IntN(3); j > 0; j-- {
			t7setVal(r, rl.Resource().Attributes().PutEmpty(t7keys[r.IntN(len(t7keys))]), nil)
		}
		for j := r.IntN(3); j > 0; j-- {
			sl := rl.ScopeLogs().AppendEmpty()
			sl.Scope().SetName(fmt.Sprint("n", r.IntN(9)))
			for k := r.IntN(4); k > 0; k-- {
				lr := sl.LogRecords().AppendEmpty()
				lr.SetTimestamp(pcommon.Timestamp(r.IntN(99)))
				t7setVal(r, lr.Body(), nil)
				for l := r.IntN(4); l > 0; l-- {
					t7setVal(r, lr.Attributes().PutEmpty(t7keys[r.IntN(len(t7keys))]), nil)
				}
			}
		}
	}
}

type t7result struct {
	name     string
	targets  []t7cur // subtrees the op may change
	mutTops  []int   // payloads that must be mutable
	panicked bool
}

// t7step picks and runs one random op on implementation and reference
func (st *t7state) t7step(r t7rnd, stat map[string]int) (res t7result, ok bool) {
	var all []t7cur
	for _, c := range st.roots() {
		t7collect(c, &all)
	}
	x := all[r.IntN(len(all))]
	pickY := func() (t7cur, bool) {
		var cands []t7cur
		for _, c := range all {
			if c.kind == x.kind && t7disjoint(x, c) {
				cands = append(cands, c)
			}
		}
		if len(cands) == 0 {
			return t7cur{}, false
		}
		return cands[r.IntN(len(cands))], true
	}
	run := func(f func()) {
		defer func() {
			if e := recover(); e != nil {
				res.panicked = true
			}
		}()
		f()
	}
	willPanic := func(tops ...int) bool {
		for _, t := range tops {
			if st.ro[t] {
				return true
			}
		}
		return false
	}
	isSlice := t7elem[x.kind] != ""
	choice := r.IntN(100)
	switch {
	case choice < 3:
		t := r.IntN(len(st.logs))
		st.logs[t].MarkReadOnly()
		st.ro[t] = true
		return t7result{name: "markro"}, true
	case choice < 8: // the caller scribbles on the raw input it kept: no payload may change
		var bs [][]byte
		for _, raw := range t7pool {
			t7rawBytes(raw, &bs)
		}
		if len(bs) == 0 {
			return res, false
		}
		b := bs[r.IntN(len(bs))]
		b[r.IntN(len(b))] ^= byte(1 + r.IntN(200))
		return t7result{name: "mutateraw"}, true
	case choice < 38: // copy
		y, found := pickY()
		if !found {
			return res, false
		}
		res = t7result{name: "copy-" + x.kind, targets: []t7cur{y}, mutTops: []int{y.top}}
		switch {
		case len(y.ref.kids) < len(x.ref.kids):
			stat["copy_into_shorter"]++
		case len(y.ref.kids) > len(x.ref.kids):
			stat["copy_into_longer"]++
		}
		run(func() {
			switch x.kind {
			case "rls":
				x.real.(ResourceLogsSlice).CopyTo(y.real.(ResourceLogsSlice))
			case "rl":
				x.real.(ResourceLogs).CopyTo(y.real.(ResourceLogs))
			case "sls":
				x.real.(ScopeLogsSlice).CopyTo(y.real.(ScopeLogsSlice))
			case "sl":
				x.real.(ScopeLogs).CopyTo(y.real.(ScopeLogs))
			case "lrs":
				x.real.(LogRecordSlice).CopyTo(y.real.(LogRecordSlice))
			case "lr":
				x.real.(LogRecord).CopyTo(y.real.(LogRecord))
			case "map":
				x.real.(pcommon.Map).CopyTo(y.real.(pcommon.Map))
			case "val":
				x.real.(pcommon.Value).CopyTo(y.real.(pcommon.Value))
			case "vslice":
				x.real.(pcommon.Slice).CopyTo(y.real.(pcommon.Slice))
			}
		})
		if !willPanic(res.mutTops...) {
			n := t7clone(x.ref)
			n.key = y.ref.key
			*y.ref = *n
		}
	case choice < 50: // move
		y, found := pickY()
		if !found {
			return res, false
		}
		res = t7result{name: "move-" + x.kind, targets: []t7cur{x, y}, mutTops: []int{x.top, y.top}}
		run(func() {
			switch x.kind {
			case "rls":
				x.real.(ResourceLogsSlice).MoveAndAppendTo(y.real.(ResourceLogsSlice))
			case "sls":
				x.real.(ScopeLogsSlice).MoveAndAppendTo(y.real.(ScopeLogsSlice))
			case "lrs":
				x.real.(LogRecordSlice).MoveAndAppendTo(y.real.(LogRecordSlice))
			case "vslice":
				x.real.(pcommon.Slice).MoveAndAppendTo(y.real.(pcommon.Slice))
			case "rl":
				x.real.(ResourceLogs).MoveTo(y.real.(ResourceLogs))
			case "sl":
				x.real.(ScopeLogs).MoveTo(y.real.(ScopeLogs))
			case "lr":
				x.real.(LogRecord).MoveTo(y.real.(LogRecord))
			case "map":
				x.real.(pcommon.Map).MoveTo(y.real.(pcommon.Map))
			case "val":
				x.real.(pcommon.Value).MoveTo(y.real.(pcommon.Value))
			}
		})
		if !willPanic(res.mutTops...) {
			if isSlice {
				y.ref.kids = append(y.ref.kids, x.ref.kids...)
				x.ref.kids = nil
			} else {
				n := t7clone(x.ref)
				n.key = y.ref.key
				*y.ref = *n
				e := t7empty(x.kind)
				e.key = x.ref.key
				*x.ref = *e
			}
		}
	case choice < 62 && (isSlice || x.kind == "map"): // remove-if / remove
		res = t7result{name: "removeif-" + x.kind, targets: []t7cur{x}, mutTops: []int{x.top}}
		n := len(x.ref.kids)
		mask := make([]bool, n)
		for i := range mask {
			mask[i] = r.IntN(3) == 0
		}
		single := x.kind == "map" && n > 0 && r.IntN(2) == 0
		if single { // Map.Remove(key): swap-with-last
			res.name = "remove-map"
			mask = make([]bool, n)
			mask[r.IntN(n)] = true
		}
		rm := map[string]bool{}
		for i, k := range x.ref.kids {
			if mask[i] {
				rm[k.key] = true
			}
		}
		run(func() {
			k := 0
			next := func() bool { b := k < n && mask[k]; k++; return b }
			switch x.kind {
			case "rls":
				x.real.(ResourceLogsSlice).RemoveIf(func(ResourceLogs) bool { return next() })
			case "sls":
				x.real.(ScopeLogsSlice).RemoveIf(func(ScopeLogs) bool { return next() })
			case "lrs":
				x.real.(LogRecordSlice).RemoveIf(func(LogRecord) bool { return next() })
			case "vslice":
				x.real.(pcommon.Slice).RemoveIf(func(pcommon.Value) bool { return next() })
			case "map":
				if single {
					for key := range rm {
						x.real.(pcommon.Map).Remove(key)
					}
				} else {
					x.real.(pcommon.Map).RemoveIf(func(key string, _ pcommon.Value) bool { return rm[key] })
				}
			}
		})
		if !willPanic(res.mutTops...) {
			var kept []*t7node
			for i, k := range x.ref.kids {
				if !mask[i] {
					kept = append(kept, k)
				}
			}
			x.ref.kids = kept
		}
	case choice < 70 && (isSlice || x.kind == "map"): // ensure-capacity
		res = t7result{name: "ensurecap-" + x.kind, targets: nil, mutTops: []int{x.top}}
		c := r.IntN(10)
		run(func() {
			switch x.kind {
			case "rls":
				x.real.(ResourceLogsSlice).EnsureCapacity(c)
			case "sls":
				x.real.(ScopeLogsSlice).EnsureCapacity(c)
			case "lrs":
				x.real.(LogRecordSlice).EnsureCapacity(c)
			case "vslice":
				x.real.(pcommon.Slice).EnsureCapacity(c)
			case "map":
				x.real.(pcommon.Map).EnsureCapacity(c)
			}
		})
	case choice < 80 && isSlice: // append
		res = t7result{name: "append-" + x.kind, targets: []t7cur{x}, mutTops: []int{x.top}}
		run(func() {
			switch x.kind {
			case "rls":
				x.real.(ResourceLogsSlice).AppendEmpty()
			case "sls":
				x.real.(ScopeLogsSlice).AppendEmpty()
			case "lrs":
				x.real.(LogRecordSlice).AppendEmpty()
			case "vslice":
				x.real.(pcommon.Slice).AppendEmpty()
			}
		})
		if !willPanic(res.mutTops...) {
			x.ref.kids = append(x.ref.kids, t7empty(t7elem[x.kind]))
		}
	default: // plain setter on the target: the expected subtree is computed from the arguments alone
		res = t7result{targets: []t7cur{x}, mutTops: []int{x.top}}
		before := t7clone(x.ref)
		exp := t7clone(x.ref)
		run(func() {
			switch x.kind {
			case "rl":
				res.name = "set-rl"
				u, d := r.IntN(9), r.IntN(9)
				exp.leaf = fmt.Sprintf("rl url=%q dr=%d", fmt.Sprint("u", u), d)
				x.real.(ResourceLogs).SetSchemaUrl(fmt.Sprint("u", u))
				x.real.(ResourceLogs).Resource().SetDroppedAttributesCount(uint32(d))
			case "sl":
				res.name = "set-sl"
				n, u, ve, d := r.IntN(9), r.IntN(9), r.IntN(9), r.IntN(9)
				exp.leaf = fmt.Sprintf("sl url=%q name=%q ver=%q dr=%d", fmt.Sprint("u", u), fmt.Sprint("n", n), fmt.Sprint("v", ve), d)
				sl := x.real.(ScopeLogs)
				sl.Scope().SetName(fmt.Sprint("n", n))
				sl.SetSchemaUrl(fmt.Sprint("u", u))
				sl.Scope().SetVersion(fmt.Sprint("v", ve))
				sl.Scope().SetDroppedAttributesCount(uint32(d))
			case "lr":
				res.name = "set-lr"
				lr := x.real.(LogRecord)
				ts, ots, sn, st, fl, ti, si, ev, dr := r.IntN(99), r.IntN(99), r.IntN(20), r.IntN(9), r.IntN(4), r.IntN(9), r.IntN(9), r.IntN(9), r.IntN(9)
				exp.leaf = fmt.Sprintf("lr ts=%d ots=%d sn=%d st=%q fl=%d tid=%s sid=%s ev=%q dr=%d", ts, ots, SeverityNumber(sn),
					fmt.Sprint("t", st), LogRecordFlags(fl), pcommon.TraceID{byte(ti)}, pcommon.SpanID{byte(si)}, fmt.Sprint("e", ev), dr)
				lr.SetTimestamp(pcommon.Timestamp(ts))
				lr.SetSeverityText(fmt.Sprint("t", st))
				lr.SetSeverityNumber(SeverityNumber(sn))
				lr.SetEventName(fmt.Sprint("e", ev))
				lr.SetTraceID(pcommon.TraceID{byte(ti)})
				lr.SetSpanID(pcommon.SpanID{byte(si)})
				lr.SetFlags(LogRecordFlags(fl))
				lr.SetObservedTimestamp(pcommon.Timestamp(ots))
				lr.SetDroppedAttributesCount(uint32(dr))
			case "val":
				res.name = "set-val"
				var nm string
				nm, exp = t7setVal(r, x.real.(pcommon.Value), before)
				res.name = "val-" + nm
			case "map":
				m := x.real.(pcommon.Map)
				key := t7keys[r.IntN(len(t7keys))]
				switch r.IntN(8) {
				case 0:
					res.name = "map-clear"
					exp.kids = nil
					m.Clear()
				case 1:
					if pm, ok := t7pool[1].(map[string]any); ok && r.IntN(2) == 0 {
						res.name = "map-fromrawpool"
						exp.kids = t7refFromRaw(pm).kids[0].kids
						_ = m.FromRaw(pm)
						break
					}
					res.name = "map-fromraw"
					v := r.IntN(50)
					exp.kids = nil
					t7refPut(exp, key, &t7node{leaf: fmt.Sprint("Int:", v)})
					t7refPut(exp, "z", &t7node{leaf: "slice", kids: []*t7node{{leaf: "S", kids: []*t7node{{leaf: "Str:q"},
						{leaf: "map", kids: []*t7node{{leaf: "M", isMap: true, kids: []*t7node{{leaf: "Int:1", key: "w"}}}}}}}}})
					_ = m.FromRaw(map[string]any{key: int64(v), "z": []any{"q", map[string]any{"w": 1}}})
				case 2:
					res.name = "map-putstr"
					v := r.IntN(50)
					t7refPut(exp, key, &t7node{leaf: fmt.Sprint("Str:s", v)})
					m.PutStr(key, fmt.Sprint("s", v))
				case 3:
					res.name = "map-putemptymap"
					v := r.IntN(50)
					t7refPut(exp, key, &t7node{leaf: "map", kids: []*t7node{{leaf: "M", isMap: true, kids: []*t7node{{leaf: fmt.Sprint("Int:", v), key: "n"}}}}})
					m.PutEmptyMap(key).PutInt("n", int64(v))
				case 4:
					res.name = "map-putemptyslice"
					t7refPut(exp, key, &t7node{leaf: "slice", kids: []*t7node{{leaf: "S", kids: []*t7node{{leaf: "Str:x"}}}}})
					m.PutEmptySlice(key).AppendEmpty().SetStr("x")
				case 5:
					res.name = "map-putemptybytes"
					b := byte(r.IntN(200))
					t7refPut(exp, key, &t7node{leaf: "bytes:" + hex.EncodeToString([]byte{b})})
					m.PutEmptyBytes(key).Append(b)
				case 6:
					res.name = "map-putempty"
					t7refPut(exp, key, &t7node{leaf: "Empty:"})
					m.PutEmpty(key)
				default:
					res.name = "map-putint"
					v := r.IntN(50)
					t7refPut(exp, key, &t7node{leaf: fmt.Sprint("Int:", v)})
					m.PutInt(key, int64(v))
				}
			default:
				res.name = "noop-" + x.kind
			}
		})
		if strings.HasPrefix(res.name, "noop") || res.name == "" {
			return res, false
		}
		if !willPanic(res.mutTops...) {
			exp.key = x.ref.key
			*x.ref = *exp
			// overwrite of a scalar by a scalar of the same type after a copy is the case where a shared
			// one-of wrapper would show: counted so the distribution proves the generator reaches it
			if x.kind == "val" && len(before.kids) == 0 && len(x.ref.kids) == 0 &&
				strings.SplitN(before.leaf, ":", 2)[0] == strings.SplitN(x.ref.leaf, ":", 2)[0] {
				stat["scalar_overwrite_same_type"]++
			}
		}
	}
	return res, true
}

func TestVerifC07Tree(t *testing.T) {
	out := vOpen(t)
	defer out.Close()
	out.Linef("model c07-tree 1")
	n := vN(500)
	for _, c := range vCases(n) {
		rnd := vRand(c)
		out.Linef("case %d", c)
		st := &t7state{}
		t7pool = t7newPool(rnd)
		h := 2 + rnd.IntN(2)
		for i := 0; i < h; i++ {
			ld := NewLogs()
			t7fill(rnd, ld)
			if ld.ResourceLogs().Len() == 0 {
				ld.ResourceLogs().AppendEmpty().ScopeLogs().AppendEmpty().LogRecords().AppendEmpty()
			}
			st.logs = append(st.logs, ld)
			st.refs = append(st.refs, t7rls(ld.ResourceLogs()))
			st.ro = append(st.ro, false)
		}
		stat := map[string]int{}
		length := 5 + rnd.IntN(40)
		{ // the initial content (partly filled from the raw pool) must already be separated
			seen := map[uintptr]string{}
			var rawArrays [][]byte
			for _, raw := range t7pool {
				t7rawBytes(raw, &rawArrays)
			}
			for _, b := range rawArrays {
				if cap(b) > 0 {
					t7note(seen, &b[:1][0], "raw-input")
				}
			}
			for i, ld := range st.logs {
				if dup := t7identities(ld, fmt.Sprint("h", i), seen); dup != "" {
					out.Linef("viol sig=C07/tree/initial-fromraw-fill-aliasing-created %s", dup)
					length = 0
					break
				}
			}
		}
		nt := false
		var trace []string
		for k := 0; k < length; k++ {
			res, ok := st.t7step(rnd, stat)
			if !ok {
				continue
			}
			trace = append(trace, res.name)
			stat["op_"+strings.SplitN(res.name, "-", 2)[0]]++
			if strings.Contains(res.name, "raw") || strings.Contains(res.name, "bytes") {
				stat["n_"+res.name]++
			}
			if strings.HasPrefix(res.name, "copy") || strings.HasPrefix(res.name, "move") {
				nt = true
			}
			expectPanic := false
			for _, tp := range res.mutTops {
				expectPanic = expectPanic || st.ro[tp]
			}
			if expectPanic {
				stat["ro_mutator_calls"]++
			}
			bad := ""
			switch {
			case res.panicked && !expectPanic:
				bad = fmt.Sprintf("viol sig=C07/tree/%s-unexpected-panic step=%d", res.name, k)
			case !res.panicked && expectPanic:
				bad = fmt.Sprintf("viol sig=C07/tree/%s-missing-panic-on-read-only step=%d", res.name, k)
			}
			for i, ld := range st.logs {
				if bad != "" {
					break
				}
				if d := t7diff(st.refs[i], t7rls(ld.ResourceLogs()), fmt.Sprint("h", i)); d != "" {
					inTarget := false
					for _, tg := range res.targets {
						if strings.HasPrefix(d, tg.path) && !expectPanic {
							inTarget = true
						}
					}
					switch {
					case expectPanic && st.ro[i]:
						bad = fmt.Sprintf("viol sig=C07/tree/%s-read-only-data-changed step=%d at=%s", res.name, k, d)
					case expectPanic:
						bad = fmt.Sprintf("viol sig=C07/tree/%s-panicking-call-changed-mutable-data step=%d at=%s", res.name, k, d)
					case inTarget:
						bad = fmt.Sprintf("viol sig=C07/tree/%s-result-differs step=%d at=%s", res.name, k, d)
					default:
						bad = fmt.Sprintf("viol sig=C07/tree/%s-changed-unrelated-value step=%d at=%s", res.name, k, d)
					}
				}
			}
			if bad == "" {
				// direct separation oracle on the implementation: no element, one-of wrapper or backing array
				// is reachable twice (also keeps a later op from recursing forever through aliased data)
				seen := map[uintptr]string{}
				var rawArrays [][]byte
				for _, raw := range t7pool {
					t7rawBytes(raw, &rawArrays)
				}
				for _, b := range rawArrays { // the caller's own arrays: no payload may hold one
					if cap(b) > 0 {
						t7note(seen, &b[:1][0], "raw-input")
					}
				}
				for i, ld := range st.logs {
					if dup := t7identities(ld, fmt.Sprint("h", i), seen); dup != "" {
						bad = fmt.Sprintf("viol sig=C07/tree/%s-aliasing-created step=%d %s", res.name, k, dup)
						break
					}
				}
			}
			if bad != "" {
				out.Linef("%s trace=%s", bad, strings.Join(trace, ","))
				break
			}
		}
		out.Linef("op prog %s", vHex(strings.Join(trace, ",")))
		if nt {
			out.Linef("nt")
		}
		for k, v := range stat {
			out.Linef("stat %s %d", k, v)
		}
		out.Linef("end")
		out.Flush()
	}
}

// ---- identity walk (in-package / pdata-internal access): every element pointer, every non-scalar
// one-of wrapper and every non-empty backing array reachable from a payload, with where it was seen

func t7note(seen map[uintptr]string, p any, where string) string {
	a := reflect.ValueOf(p).Pointer()
	if a == 0 {
		return ""
	}
	if w, ok := seen[a]; ok {
		return fmt.Sprintf("first=%s again=%s", w, where)
	}
	seen[a] = where
	return ""
}

func t7idVal(av *otlpcommon.AnyValue, where string, seen map[uintptr]string, depth int) string {
	if depth > 100 {
		return "too-deep=" + where
	}
	switch w := av.Value.(type) {
	case *otlpcommon.AnyValue_KvlistValue:
		if d := t7note(seen, w, where+":kvlist"); d != "" {
			return d
		}
		if w.KvlistValue != nil {
			if d := t7note(seen, w.KvlistValue, where+":kvlist*"); d != "" {
				return d
			}
			return t7idKVs(w.KvlistValue.Values, where, seen, depth+1)
		}
	case *otlpcommon.AnyValue_ArrayValue:
		if d := t7note(seen, w, where+":array"); d != "" {
			return d
		}
		if w.ArrayValue != nil {
			if d := t7note(seen, w.ArrayValue, where+":array*"); d != "" {
				return d
			}
			vs := w.ArrayValue.Values
			if cap(vs) > 0 { // the backing array, also of an emptied slice that kept its capacity
				if d := t7note(seen, &vs[:1][0], where+":arr[]"); d != "" {
					return d
				}
			}
			for i := range vs {
				if d := t7idVal(&vs[i], fmt.Sprint(where, "/", i), seen, depth+1); d != "" {
					return d
				}
			}
		}
	case *otlpcommon.AnyValue_BytesValue:
		if d := t7note(seen, w, where+":bytes"); d != "" {
			return d
		}
		if cap(w.BytesValue) > 0 { // the byte array itself: shared by nobody, least of all a raw input
			return t7note(seen, &w.BytesValue[:1][0], where+":byte[]")
		}
	}
	return ""
}

func t7idKVs(kvs []otlpcommon.KeyValue, where string, seen map[uintptr]string, depth int) string {
	if cap(kvs) > 0 {
		if d := t7note(seen, &kvs[:1][0], where+":kv[]"); d != "" {
			return d
		}
	}
	for i := range kvs {
		if d := t7idVal(&kvs[i].Value, where+"/k"+kvs[i].Key, seen, depth); d != "" {
			return d
		}
	}
	return ""
}

func t7idMap(m pcommon.Map, where string, seen map[uintptr]string) string {
	return t7idKVs(*internal.GetOrigMap(internal.Map(m)), where, seen, 0)
}

func t7identities(ld Logs, where string, seen map[uintptr]string) string {
	rls := ld.ResourceLogs()
	if cap(*rls.orig) > 0 {
		if d := t7note(seen, &(*rls.orig)[:1][0], where+":rl[]"); d != "" {
			return d
		}
	}
	for i := 0; i < rls.Len(); i++ {
		wi := fmt.Sprint(where, "/", i)
		if d := t7note(seen, (*rls.orig)[i], wi); d != "" {
			return d
		}
		rl := rls.At(i)
		if d := t7idMap(rl.Resource().Attributes(), wi+"/0", seen); d != "" {
			return d
		}
		sls := rl.ScopeLogs()
		if cap(*sls.orig) > 0 {
			if d := t7note(seen, &(*sls.orig)[:1][0], wi+"/1:sl[]"); d != "" {
				return d
			}
		}
		for j := 0; j < sls.Len(); j++ {
			wj := fmt.Sprint(wi, "/1/", j)
			if d := t7note(seen, (*sls.orig)[j], wj); d != "" {
				return d
			}
			sl := sls.At(j)
			if d := t7idMap(sl.Scope().Attributes(), wj+"/0", seen); d != "" {
				return d
			}
			lrs := sl.LogRecords()
			if cap(*lrs.orig) > 0 {
				if d := t7note(seen, &(*lrs.orig)[:1][0], wj+"/1:lr[]"); d != "" {
					return d
				}
			}
			for k := 0; k < lrs.Len(); k++ {
				wk := fmt.Sprint(wj, "/1/", k)
				if d := t7note(seen, (*lrs.orig)[k], wk); d != "" {
					return d
				}
				lr := lrs.At(k)
				if d := t7idVal(internal.GetOrigValue(internal.Value(lr.Body())), wk+"/0", seen, 0); d != "" {
					return d
				}
				if d := t7idMap(lr.Attributes(), wk+"/1", seen); d != "" {
					return d
				}
			}
		}
	}
	return ""
}
