//go:build verif

package plog

import (
	"fmt"
	"reflect"
	"testing"

	"go.opentelemetry.io/collector/pdata/pcommon"
	"go.opentelemetry.io/collector/pdata/pmetric"
	"go.opentelemetry.io/collector/pdata/ptrace"
)

// Scripted witnesses (corpus): the reading-time defects and the seeded-change targets, each with a
// direct oracle. One case per script; a script returns the violations it saw.

func w7raw(v any) string { return fmt.Sprintf("%v", v) }

func w7panics(f func()) (p bool) {
	defer func() {
		if recover() != nil {
			p = true
		}
	}()
	f()
	return false
}

func w7scripts() []func() []string {
	three := func() pcommon.Map { // [map, str, map]
		m := pcommon.NewMap()
		m.PutEmptyMap("a").PutInt("x", 1)
		m.PutStr("b", "v")
		m.PutEmptyMap("c").PutInt("y", 2)
		return m
	}
	src3 := func() pcommon.Map { // [str, map, map]
		m := pcommon.NewMap()
		m.PutStr("q", "q")
		m.PutEmptyMap("p").PutInt("p1", 1)
		m.PutEmptyMap("r").PutInt("r1", 3)
		return m
	}
	return []func() []string{
		func() (v []string) { // Map.Remove (swap with last) then CopyTo re-exposes the stale last slot
			dst, src := three(), pcommon.NewMap()
			src.PutEmptyMap("p").PutInt("p1", 1)
			src.PutStr("q", "q")
			src.PutEmptyMap("r").PutInt("r1", 3)
			dst.Remove("a")
			src.CopyTo(dst)
			if !reflect.DeepEqual(dst.AsRaw(), src.AsRaw()) {
				v = append(v, "sig=C07/map/copy-after-remove-differs-from-source got="+w7raw(dst.AsRaw()))
			}
			return v
		},
		func() (v []string) { // Map.RemoveIf then CopyTo, then mutate one entry of the copy
			dst, src := three(), src3()
			dst.RemoveIf(func(k string, _ pcommon.Value) bool { return k == "a" })
			src.CopyTo(dst)
			if !reflect.DeepEqual(dst.AsRaw(), src.AsRaw()) {
				v = append(v, "sig=C07/map/copy-after-removeif-differs-from-source got="+w7raw(dst.AsRaw()))
			}
			before := w7raw(src.AsRaw())
			pv, _ := dst.Get("p")
			pv.Map().PutInt("new", 9)
			rv, _ := dst.Get("r")
			if _, shared := rv.Map().Get("new"); shared {
				v = append(v, "sig=C07/map/copy-after-removeif-entries-alias")
			}
			if w7raw(src.AsRaw()) != before {
				v = append(v, "sig=C07/map/mutating-copy-changed-source")
			}
			return v
		},
		func() (v []string) { // pcommon.Slice.RemoveIf then CopyTo
			dst, src := pcommon.NewSlice(), pcommon.NewSlice()
			dst.AppendEmpty().SetEmptyMap().PutInt("x", 1)
			dst.AppendEmpty().SetStr("s")
			dst.AppendEmpty().SetEmptyMap().PutInt("y", 2)
			k := 0
			dst.RemoveIf(func(pcommon.Value) bool { k++; return k == 1 })
			src.AppendEmpty().SetInt(7)
			src.AppendEmpty().SetEmptyMap().PutInt("p", 1)
			src.AppendEmpty().SetEmptyMap().PutInt("r", 3)
			src.CopyTo(dst)
			if !reflect.DeepEqual(dst.AsRaw(), src.AsRaw()) {
				v = append(v, "sig=C07/slice/copy-after-removeif-differs-from-source got="+w7raw(dst.AsRaw()))
			}
			return v
		},
		func() (v []string) { // bytes one-of wrapper reuse after RemoveIf
			dst, src := pcommon.NewSlice(), pcommon.NewSlice()
			dst.AppendEmpty().SetStr("s")
			dst.AppendEmpty().SetEmptyBytes().FromRaw([]byte{1})
			k := 0
			dst.RemoveIf(func(pcommon.Value) bool { k++; return k == 1 })
			src.AppendEmpty().SetEmptyBytes().FromRaw([]byte{5})
			src.AppendEmpty().SetEmptyBytes().FromRaw([]byte{6})
			src.CopyTo(dst)
			if !reflect.DeepEqual(dst.AsRaw(), src.AsRaw()) {
				v = append(v, "sig=C07/slice/copy-after-removeif-differs-from-source got="+w7raw(dst.AsRaw()))
			}
			return v
		},
		func() (v []string) { // copy of a primitive entry, then overwrite with the same primitive type on either side
			src, dst := pcommon.NewMap(), pcommon.NewMap()
			src.PutInt("k", 1)
			src.PutStr("s", "a")
			src.PutBool("b", true)
			src.PutDouble("d", 1.5)
			dst.PutInt("k", 7)
			src.CopyTo(dst)
			src.PutInt("k", 2)
			src.PutStr("s", "b")
			src.PutBool("b", false)
			src.PutDouble("d", 2.5)
			if w7raw(dst.AsRaw()) != "map[b:true d:1.5 k:1 s:a]" {
				v = append(v, "sig=C07/value/overwriting-source-scalar-changed-copy got="+w7raw(dst.AsRaw()))
			}
			dst.PutInt("k", 3)
			dst.PutStr("s", "c")
			dst.PutBool("b", true)
			dst.PutDouble("d", 3.5)
			if w7raw(src.AsRaw()) != "map[b:false d:2.5 k:2 s:b]" {
				v = append(v, "sig=C07/value/overwriting-copy-scalar-changed-source got="+w7raw(src.AsRaw()))
			}
			a, b := pcommon.NewValueInt(1), pcommon.NewValueInt(5)
			a.CopyTo(b)
			a.SetInt(2)
			if b.Int() != 1 {
				v = append(v, "sig=C07/value/overwriting-source-scalar-changed-copy")
			}
			b.SetInt(3)
			if a.Int() != 2 {
				v = append(v, "sig=C07/value/overwriting-copy-scalar-changed-source")
			}
			a.SetStr("x")
			a.CopyTo(b)
			b.SetStr("y")
			if a.Str() != "x" {
				v = append(v, "sig=C07/value/overwriting-copy-scalar-changed-source")
			}
			return v
		},
		func() (v []string) { // MoveTo from a read-only source into a mutable destination: panic, nothing changes
			ro, rw := NewLogs(), NewLogs()
			for _, ld := range []Logs{ro, rw} {
				lr := ld.ResourceLogs().AppendEmpty().ScopeLogs().AppendEmpty().LogRecords().AppendEmpty()
				lr.Attributes().PutStr("k", "v")
				lr.Body().SetStr("body")
			}
			rw.ResourceLogs().At(0).Resource().Attributes().PutStr("dest", "kept")
			ro.MarkReadOnly()
			m := &ProtoMarshaler{}
			roB, _ := m.MarshalLogs(ro)
			rwB, _ := m.MarshalLogs(rw)
			rol, rwl := ro.ResourceLogs().At(0).ScopeLogs().At(0).LogRecords().At(0), rw.ResourceLogs().At(0).ScopeLogs().At(0).LogRecords().At(0)
			moves := map[string]func(){
				"resourcelogs": func() { ro.ResourceLogs().At(0).MoveTo(rw.ResourceLogs().At(0)) },
				"scopelogs":    func() { ro.ResourceLogs().At(0).ScopeLogs().At(0).MoveTo(rw.ResourceLogs().At(0).ScopeLogs().At(0)) },
				"logrecord":    func() { rol.MoveTo(rwl) },
				"map":          func() { rol.Attributes().MoveTo(rwl.Attributes()) },
				"value":        func() { rol.Body().MoveTo(rwl.Body()) },
				"resource":     func() { ro.ResourceLogs().At(0).Resource().MoveTo(rw.ResourceLogs().At(0).Resource()) },
				"scope": func() {
					ro.ResourceLogs().At(0).ScopeLogs().At(0).Scope().MoveTo(rw.ResourceLogs().At(0).ScopeLogs().At(0).Scope())
				},
				"moveandappend": func() { ro.ResourceLogs().MoveAndAppendTo(rw.ResourceLogs()) },
				"moveandappend2": func() {
					ro.ResourceLogs().At(0).ScopeLogs().At(0).LogRecords().MoveAndAppendTo(rw.ResourceLogs().At(0).ScopeLogs().At(0).LogRecords())
				},
			}
			for name, f := range moves {
				if !w7panics(f) {
					v = append(v, "sig=C07/readonly/move-from-read-only-source-did-not-panic kind="+name)
				}
				a, _ := m.MarshalLogs(ro)
				b, _ := m.MarshalLogs(rw)
				if string(a) != string(roB) {
					v = append(v, "sig=C07/readonly/move-from-read-only-source-changed-source kind="+name)
				}
				if string(b) != string(rwB) {
					v = append(v, "sig=C07/readonly/move-from-read-only-source-changed-destination kind="+name)
				}
			}
			// a copy FROM read-only data works and the copy is mutable
			if w7panics(func() { ro.CopyTo(rw) }) {
				v = append(v, "sig=C07/readonly/copy-from-read-only-panicked")
			}
			if w7panics(func() { _ = rol.Body().FromRaw(nil) }) == false {
				v = append(v, "sig=C07/readonly/value-fromraw-nil-missing-panic")
			}
			if a, _ := m.MarshalLogs(ro); string(a) != string(roB) {
				v = append(v, "sig=C07/readonly/value-fromraw-nil-changed-read-only-data")
			}
			return v
		},
		func() (v []string) { // move into a NEVER-USED destination, refill the emptied source, read / edit the destination
			// pcommon.Slice, top level
			src, dst := pcommon.NewSlice(), pcommon.NewSlice()
			src.AppendEmpty().SetStr("a")
			src.AppendEmpty().SetStr("b")
			src.MoveAndAppendTo(dst)
			src.AppendEmpty().SetStr("x")
			if w7raw(dst.AsRaw()) != "[a b]" {
				v = append(v, "sig=C07/move/refilling-moved-from-slice-changed-destination kind=pcommon.Slice got="+w7raw(dst.AsRaw()))
			}
			dst.At(0).SetStr("d")
			if w7raw(src.AsRaw()) != "[x]" {
				v = append(v, "sig=C07/move/editing-destination-changed-moved-from-slice kind=pcommon.Slice got="+w7raw(src.AsRaw()))
			}
			// nested: a slice inside a map value, destination created by PutEmptySlice
			m := pcommon.NewMap()
			in := m.PutEmptySlice("in")
			in.AppendEmpty().SetInt(1)
			in.AppendEmpty().SetInt(2)
			in.MoveAndAppendTo(m.PutEmptySlice("out"))
			in.AppendEmpty().SetInt(9)
			if ov, _ := m.Get("out"); w7raw(ov.Slice().AsRaw()) != "[1 2]" {
				v = append(v, "sig=C07/move/refilling-moved-from-slice-changed-destination kind=nested-pcommon.Slice got="+w7raw(ov.Slice().AsRaw()))
			}
			// generated pointer slice
			ls, ld := NewLogRecordSlice(), NewLogRecordSlice()
			ls.AppendEmpty().SetSeverityText("a")
			ls.AppendEmpty().SetSeverityText("b")
			ls.MoveAndAppendTo(ld)
			ls.AppendEmpty().SetSeverityText("x")
			if ld.Len() != 2 || ld.At(0).SeverityText() != "a" || ld.At(1).SeverityText() != "b" {
				v = append(v, "sig=C07/move/refilling-moved-from-slice-changed-destination kind=LogRecordSlice")
			}
			if cap(*ls.orig) > 0 && cap(*ld.orig) > 0 && &(*ls.orig)[:1][0] == &(*ld.orig)[:1][0] {
				v = append(v, "sig=C07/move/source-and-destination-share-backing-array kind=LogRecordSlice")
			}
			// primitive slices and maps: MoveTo, then refill the source
			us, ud := pcommon.NewUInt64Slice(), pcommon.NewUInt64Slice()
			us.Append(1, 2, 3)
			us.MoveTo(ud)
			us.Append(9)
			if w7raw(ud.AsRaw()) != "[1 2 3]" {
				v = append(v, "sig=C07/move/refilling-moved-from-slice-changed-destination kind=UInt64Slice got="+w7raw(ud.AsRaw()))
			}
			bs, bd := pcommon.NewByteSlice(), pcommon.NewByteSlice()
			bs.Append(1, 2, 3)
			bs.MoveTo(bd)
			bs.Append(9)
			if w7raw(bd.AsRaw()) != "[1 2 3]" {
				v = append(v, "sig=C07/move/refilling-moved-from-slice-changed-destination kind=ByteSlice got="+w7raw(bd.AsRaw()))
			}
			ms, md := pcommon.NewMap(), pcommon.NewMap()
			ms.PutStr("a", "1")
			ms.PutStr("b", "2")
			ms.MoveTo(md)
			ms.PutStr("c", "3")
			if w7raw(md.AsRaw()) != "map[a:1 b:2]" {
				v = append(v, "sig=C07/move/refilling-moved-from-map-changed-destination got="+w7raw(md.AsRaw()))
			}
			return v
		},
		func() (v []string) { // from-raw / as-raw copy: values filled from ONE raw input, then in-place byte edits
			mkraw := func() map[string]any {
				return map[string]any{"b": []byte{1, 2, 3}, "m": map[string]any{"nb": []byte{4, 5}}, "s": []any{[]byte{6, 7}, "x"}}
			}
			want := w7raw(mkraw())
			chk := func(sig string, got any) {
				if w7raw(got) != want {
					v = append(v, "sig="+sig+" got="+w7raw(got))
				}
			}
			bytesAt := func(m pcommon.Map, path ...string) pcommon.ByteSlice {
				val, _ := m.Get(path[0])
				for _, k := range path[1:] {
					val, _ = val.Map().Get(k)
				}
				return val.Bytes()
			}
			// (1) two Maps from the same raw input; in-place edits on one (SetAt, fitting FromRaw, fitting CopyTo)
			raw := mkraw()
			m1, m2 := pcommon.NewMap(), pcommon.NewMap()
			_ = m1.FromRaw(raw)
			_ = m2.FromRaw(raw)
			bytesAt(m1, "b").SetAt(0, 99)
			bytesAt(m1, "m", "nb").FromRaw([]byte{9, 9})
			sv, _ := m1.Get("s")
			other := pcommon.NewByteSlice()
			other.FromRaw([]byte{8, 8})
			other.CopyTo(sv.Slice().At(0).Bytes())
			chk("C07/fromraw/editing-one-value-changed-another-filled-from-the-same-raw kind=Map", m2.AsRaw())
			chk("C07/fromraw/editing-a-value-changed-the-raw-input kind=Map", raw)
			// (2) the caller keeps the raw input and mutates it afterwards
			raw = mkraw()
			v1 := pcommon.NewValueEmpty()
			_ = v1.FromRaw(raw)
			s1 := pcommon.NewSlice()
			_ = s1.FromRaw([]any{raw})
			direct := []byte{1, 2, 3}
			v2 := pcommon.NewValueEmpty()
			_ = v2.FromRaw(direct)
			raw["b"].([]byte)[1] = 77
			raw["m"].(map[string]any)["nb"].([]byte)[0] = 77
			raw["s"].([]any)[0].([]byte)[1] = 77
			direct[0] = 77
			chk("C07/fromraw/mutating-the-raw-input-changed-the-value kind=Value", v1.AsRaw())
			chk("C07/fromraw/mutating-the-raw-input-changed-the-value kind=Slice", s1.At(0).AsRaw())
			if w7raw(v2.Bytes().AsRaw()) != "[1 2 3]" {
				v = append(v, "sig=C07/fromraw/mutating-the-raw-input-changed-the-value kind=Value-bytes got="+w7raw(v2.Bytes().AsRaw()))
			}
			// (3) a read-only payload filled from raw must not change when another value from the same raw is edited
			raw = mkraw()
			ro, rw := NewLogs(), pcommon.NewValueEmpty()
			_ = ro.ResourceLogs().AppendEmpty().ScopeLogs().AppendEmpty().LogRecords().AppendEmpty().Body().FromRaw(raw)
			_ = ro.ResourceLogs().At(0).Resource().Attributes().FromRaw(raw)
			_ = rw.FromRaw(raw)
			ro.MarkReadOnly()
			pm := &ProtoMarshaler{}
			before, _ := pm.MarshalLogs(ro)
			bytesAt(rw.Map(), "b").SetAt(2, 55)
			bytesAt(rw.Map(), "m", "nb").SetAt(1, 55)
			raw["b"].([]byte)[0] = 56
			if after, _ := pm.MarshalLogs(ro); string(after) != string(before) {
				v = append(v, "sig=C07/fromraw/read-only-payload-changed-through-shared-raw-bytes")
			}
			// (4) as-raw: the returned raw value is a copy both ways (Value, Map, Slice, ByteSlice, primitive slices)
			src := pcommon.NewValueEmpty()
			_ = src.FromRaw(mkraw())
			r := src.AsRaw().(map[string]any)
			r["b"].([]byte)[0] = 42
			r["m"].(map[string]any)["nb"].([]byte)[0] = 42
			r["s"].([]any)[0].([]byte)[0] = 42
			chk("C07/asraw/mutating-the-returned-raw-changed-the-value kind=Value", src.AsRaw())
			r2 := src.AsRaw()
			bytesAt(src.Map(), "b").SetAt(0, 43)
			chk("C07/asraw/editing-the-value-changed-the-returned-raw kind=Value", r2)
			bs := pcommon.NewByteSlice()
			bs.FromRaw([]byte{1, 2, 3})
			rb := bs.AsRaw()
			rb[0] = 9
			bs.SetAt(1, 9)
			if w7raw(bs.AsRaw()) != "[1 9 3]" || w7raw(rb) != "[9 2 3]" {
				v = append(v, "sig=C07/asraw/byteslice-raw-aliases got="+w7raw(bs.AsRaw())+w7raw(rb))
			}
			us := pcommon.NewUInt64Slice()
			in := []uint64{1, 2, 3}
			us.FromRaw(in)
			in[0] = 9
			ru := us.AsRaw()
			ru[1] = 9
			us.SetAt(2, 9)
			if w7raw(us.AsRaw()) != "[1 2 9]" || w7raw(ru) != "[1 9 3]" {
				v = append(v, "sig=C07/asraw/primitive-slice-raw-aliases got="+w7raw(us.AsRaw())+w7raw(ru))
			}
			bin := []byte{1, 2, 3}
			bs.FromRaw(bin) // fits the buffer
			bin[0] = 7
			if w7raw(bs.AsRaw()) != "[1 2 3]" {
				v = append(v, "sig=C07/fromraw/mutating-the-raw-input-changed-the-value kind=ByteSlice got="+w7raw(bs.AsRaw()))
			}
			return v
		},
		func() (v []string) { // pcommon.TraceState (hand-written CopyTo / MoveTo / FromRaw): copy, move, from-raw, read-only
			a, b := pcommon.NewTraceState(), pcommon.NewTraceState()
			a.FromRaw("a=b")
			b.FromRaw("old=1")
			a.CopyTo(b)
			a.FromRaw("c=d")
			if b.AsRaw() != "a=b" || a.AsRaw() != "c=d" {
				v = append(v, "sig=C07/tracestate/copy-not-independent got="+a.AsRaw()+"|"+b.AsRaw())
			}
			a.MoveTo(b)
			if b.AsRaw() != "c=d" || a.AsRaw() != "" {
				v = append(v, "sig=C07/tracestate/move-does-not-transfer-and-empty got="+a.AsRaw()+"|"+b.AsRaw())
			}
			a.FromRaw("e=f")
			if b.AsRaw() != "c=d" {
				v = append(v, "sig=C07/tracestate/refilling-moved-from-source-changed-destination")
			}
			td := ptrace.NewTraces()
			sp := td.ResourceSpans().AppendEmpty().ScopeSpans().AppendEmpty().Spans().AppendEmpty()
			sp.TraceState().FromRaw("ro=1")
			lk := sp.Links().AppendEmpty()
			lk.TraceState().FromRaw("ro=2")
			td.MarkReadOnly()
			rw := pcommon.NewTraceState()
			rw.FromRaw("rw=1")
			for name, f := range map[string]func(){
				"span-fromraw":    func() { sp.TraceState().FromRaw("x=y") },
				"link-fromraw":    func() { lk.TraceState().FromRaw("x=y") },
				"move-from-ro":    func() { sp.TraceState().MoveTo(rw) },
				"move-into-ro":    func() { rw.MoveTo(lk.TraceState()) },
				"copy-into-ro":    func() { rw.CopyTo(sp.TraceState()) },
				"span-copy-to-ro": func() { ptrace.NewSpan().CopyTo(sp) },
			} {
				if !w7panics(f) {
					v = append(v, "sig=C07/tracestate/mutator-on-read-only-did-not-panic call="+name)
				}
			}
			if sp.TraceState().AsRaw() != "ro=1" || lk.TraceState().AsRaw() != "ro=2" || rw.AsRaw() != "rw=1" {
				v = append(v, "sig=C07/tracestate/panicking-call-changed-something got="+sp.TraceState().AsRaw()+"|"+lk.TraceState().AsRaw()+"|"+rw.AsRaw())
			}
			if w7panics(func() { sp.TraceState().CopyTo(rw) }) || rw.AsRaw() != "ro=1" {
				v = append(v, "sig=C07/tracestate/copy-from-read-only-failed")
			}
			return v
		},
		func() (v []string) { // value slice (pmetric.ExemplarSlice): RemoveIf then CopyTo
			dst, src := pmetric.NewExemplarSlice(), pmetric.NewExemplarSlice()
			for i := 0; i < 3; i++ {
				e := dst.AppendEmpty()
				e.SetIntValue(int64(i))
				e.FilteredAttributes().PutEmptyMap("m").PutInt("i", int64(i))
				s := src.AppendEmpty()
				s.SetIntValue(int64(10 + i))
				s.FilteredAttributes().PutEmptyMap("m").PutInt("i", int64(10+i))
			}
			k := 0
			dst.RemoveIf(func(pmetric.Exemplar) bool { k++; return k == 1 })
			src.CopyTo(dst)
			for i := 0; i < 3; i++ {
				if !reflect.DeepEqual(dst.At(i).FilteredAttributes().AsRaw(), src.At(i).FilteredAttributes().AsRaw()) {
					v = append(v, fmt.Sprintf("sig=C07/valueslice/copy-after-removeif-differs-from-source i=%d got=%v", i, dst.At(i).FilteredAttributes().AsRaw()))
					break
				}
			}
			return v
		},
	}
}

func TestVerifC07Witness(t *testing.T) {
	out := vOpen(t)
	defer out.Close()
	out.Linef("model c07-witness 1")
	scripts := w7scripts()
	for _, c := range vCases(len(scripts)) {
		if c >= len(scripts) {
			continue
		}
		out.Linef("case %d", c)
		out.Linef("op script %d", c)
		var viols []string
		if w7panics(func() { viols = scripts[c]() }) {
			viols = append(viols, fmt.Sprintf("sig=C07/witness/script-%d-panicked", c))
		}
		for _, v := range viols {
			out.Linef("viol %s", v)
		}
		out.Linef("nt")
		out.Linef("stat scripts 1")
		out.Linef("end")
		out.Flush()
	}
}
