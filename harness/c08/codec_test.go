//go:build verif

// C08 correspondence harness (SPEC: /verif/.scratch/C08/SPEC.md §0,2,3,4,5): drives the REAL public OTLP protobuf and
// JSON marshalers / unmarshalers of pdata (plog, pmetric, ptrace, pprofile and the four p*otlp request/response
// wrappers) with type-directed generated payloads, prints the line protocol for the Lean model (`model c08-codec 1`)
// and evaluates the direct oracles (`viol`). Generic machinery (schema, generator, JSON writer, mutations): gen_test.go.
package pprofileotlp

import (
	"bytes"
	"encoding/hex"
	"encoding/json"
	"fmt"
	"math"
	"math/rand/v2"
	"os"
	"reflect"
	"regexp"
	"runtime"
	"sort"
	"strconv"
	"strings"
	"sync"
	"testing"
	"time"

	"go.opentelemetry.io/collector/pdata/internal"
	otlpcollectorlog "go.opentelemetry.io/collector/pdata/internal/data/protogen/collector/logs/v1"
	otlpcollectormetrics "go.opentelemetry.io/collector/pdata/internal/data/protogen/collector/metrics/v1"
	otlpcollectorprofile "go.opentelemetry.io/collector/pdata/internal/data/protogen/collector/profiles/v1development"
	otlpcollectortrace "go.opentelemetry.io/collector/pdata/internal/data/protogen/collector/trace/v1"
	otlplogs "go.opentelemetry.io/collector/pdata/internal/data/protogen/logs/v1"
	otlpmetrics "go.opentelemetry.io/collector/pdata/internal/data/protogen/metrics/v1"
	otlpprofiles "go.opentelemetry.io/collector/pdata/internal/data/protogen/profiles/v1development"
	otlptrace "go.opentelemetry.io/collector/pdata/internal/data/protogen/trace/v1"
	"go.opentelemetry.io/collector/pdata/plog"
	"go.opentelemetry.io/collector/pdata/plog/plogotlp"
	"go.opentelemetry.io/collector/pdata/pmetric"
	"go.opentelemetry.io/collector/pdata/pmetric/pmetricotlp"
	"go.opentelemetry.io/collector/pdata/pprofile"
	"go.opentelemetry.io/collector/pdata/ptrace"
	"go.opentelemetry.io/collector/pdata/ptrace/ptraceotlp"
)

// =============================================================================================
// real entry points per root, guarded calls, clone
// =============================================================================================

type c8Root struct {
	name    string
	signal  string // logs | metrics | traces | profiles
	m       *c8MsgInfo
	hasSize bool
	enc     func(x any) ([]byte, int, error)
	dec     func(b []byte) (any, error)
	jenc    func(x any) ([]byte, error)
	jdec    func(b []byte) (any, error)
}

// c8Wire is the common method set of the p*otlp ExportRequest / ExportResponse wrappers.
type c8Wire interface {
	MarshalProto() ([]byte, error)
	UnmarshalProto([]byte) error
	MarshalJSON() ([]byte, error)
	UnmarshalJSON([]byte) error
}

func c8WireRoot(name, signal string, zero any, mk func(x any) c8Wire, fresh func() c8Wire, back func(w c8Wire) any) *c8Root {
	return &c8Root{
		name: name, signal: signal, m: c8MsgOf(reflect.TypeOf(zero)),
		enc: func(x any) ([]byte, int, error) { b, err := mk(x).MarshalProto(); return b, -1, err },
		dec: func(b []byte) (any, error) {
			w := fresh()
			if err := w.UnmarshalProto(b); err != nil {
				return nil, err
			}
			return back(w), nil
		},
		jenc: func(x any) ([]byte, error) { return mk(x).MarshalJSON() },
		jdec: func(b []byte) (any, error) {
			w := fresh()
			if err := w.UnmarshalJSON(b); err != nil {
				return nil, err
			}
			return back(w), nil
		},
	}
}

func c8LogsOf(x *otlplogs.LogsData) plog.Logs {
	st := internal.StateMutable
	return plog.Logs(internal.NewLogs(&otlpcollectorlog.ExportLogsServiceRequest{ResourceLogs: x.ResourceLogs}, &st))
}

func c8MetricsOf(x *otlpmetrics.MetricsData) pmetric.Metrics {
	st := internal.StateMutable
	return pmetric.Metrics(internal.NewMetrics(&otlpcollectormetrics.ExportMetricsServiceRequest{ResourceMetrics: x.ResourceMetrics}, &st))
}

func c8TracesOf(x *otlptrace.TracesData) ptrace.Traces {
	st := internal.StateMutable
	return ptrace.Traces(internal.NewTraces(&otlpcollectortrace.ExportTraceServiceRequest{ResourceSpans: x.ResourceSpans}, &st))
}

func c8ProfilesOf(x *otlpprofiles.ProfilesData) pprofile.Profiles {
	st := internal.StateMutable
	return pprofile.Profiles(internal.NewProfiles(&otlpcollectorprofile.ExportProfilesServiceRequest{ResourceProfiles: x.ResourceProfiles}, &st))
}

func c8BuildRoots() map[string]*c8Root {
	roots := map[string]*c8Root{}
	add := func(r *c8Root) { roots[r.name] = r }

	// ---- logs
	add(&c8Root{
		name: "logs", signal: "logs", m: c8MsgOf(reflect.TypeOf(otlplogs.LogsData{})), hasSize: true,
		enc: func(x any) ([]byte, int, error) {
			ld := c8LogsOf(x.(*otlplogs.LogsData))
			m := &plog.ProtoMarshaler{}
			b, err := m.MarshalLogs(ld)
			return b, m.LogsSize(ld), err
		},
		dec: func(b []byte) (any, error) {
			ld, err := (&plog.ProtoUnmarshaler{}).UnmarshalLogs(b)
			if err != nil {
				return nil, err
			}
			pb := internal.LogsToProto(internal.Logs(ld))
			return &pb, nil
		},
		jenc: func(x any) ([]byte, error) {
			return (&plog.JSONMarshaler{}).MarshalLogs(c8LogsOf(x.(*otlplogs.LogsData)))
		},
		jdec: func(b []byte) (any, error) {
			ld, err := (&plog.JSONUnmarshaler{}).UnmarshalLogs(b)
			if err != nil {
				return nil, err
			}
			pb := internal.LogsToProto(internal.Logs(ld))
			return &pb, nil
		},
	})
	add(c8WireRoot("logsreq", "logs", otlpcollectorlog.ExportLogsServiceRequest{},
		func(x any) c8Wire {
			st := internal.StateMutable
			return plogotlp.NewExportRequestFromLogs(plog.Logs(internal.NewLogs(x.(*otlpcollectorlog.ExportLogsServiceRequest), &st)))
		},
		func() c8Wire { return plogotlp.NewExportRequest() },
		func(w c8Wire) any { return internal.GetOrigLogs(internal.Logs(w.(plogotlp.ExportRequest).Logs())) }))
	add(c8WireRoot("logsresp", "logs", otlpcollectorlog.ExportLogsServiceResponse{},
		func(x any) c8Wire {
			p := x.(*otlpcollectorlog.ExportLogsServiceResponse)
			r := plogotlp.NewExportResponse()
			r.PartialSuccess().SetRejectedLogRecords(p.PartialSuccess.RejectedLogRecords)
			r.PartialSuccess().SetErrorMessage(p.PartialSuccess.ErrorMessage)
			return r
		},
		func() c8Wire { return plogotlp.NewExportResponse() },
		func(w c8Wire) any {
			ps := w.(plogotlp.ExportResponse).PartialSuccess()
			return &otlpcollectorlog.ExportLogsServiceResponse{PartialSuccess: otlpcollectorlog.ExportLogsPartialSuccess{
				RejectedLogRecords: ps.RejectedLogRecords(), ErrorMessage: ps.ErrorMessage()}}
		}))

	// ---- metrics
	add(&c8Root{
		name: "metrics", signal: "metrics", m: c8MsgOf(reflect.TypeOf(otlpmetrics.MetricsData{})), hasSize: true,
		enc: func(x any) ([]byte, int, error) {
			md := c8MetricsOf(x.(*otlpmetrics.MetricsData))
			m := &pmetric.ProtoMarshaler{}
			b, err := m.MarshalMetrics(md)
			return b, m.MetricsSize(md), err
		},
		dec: func(b []byte) (any, error) {
			md, err := (&pmetric.ProtoUnmarshaler{}).UnmarshalMetrics(b)
			if err != nil {
				return nil, err
			}
			pb := internal.MetricsToProto(internal.Metrics(md))
			return &pb, nil
		},
		jenc: func(x any) ([]byte, error) {
			return (&pmetric.JSONMarshaler{}).MarshalMetrics(c8MetricsOf(x.(*otlpmetrics.MetricsData)))
		},
		jdec: func(b []byte) (any, error) {
			md, err := (&pmetric.JSONUnmarshaler{}).UnmarshalMetrics(b)
			if err != nil {
				return nil, err
			}
			pb := internal.MetricsToProto(internal.Metrics(md))
			return &pb, nil
		},
	})
	add(c8WireRoot("metricsreq", "metrics", otlpcollectormetrics.ExportMetricsServiceRequest{},
		func(x any) c8Wire {
			st := internal.StateMutable
			return pmetricotlp.NewExportRequestFromMetrics(pmetric.Metrics(internal.NewMetrics(x.(*otlpcollectormetrics.ExportMetricsServiceRequest), &st)))
		},
		func() c8Wire { return pmetricotlp.NewExportRequest() },
		func(w c8Wire) any {
			return internal.GetOrigMetrics(internal.Metrics(w.(pmetricotlp.ExportRequest).Metrics()))
		}))
	add(c8WireRoot("metricsresp", "metrics", otlpcollectormetrics.ExportMetricsServiceResponse{},
		func(x any) c8Wire {
			p := x.(*otlpcollectormetrics.ExportMetricsServiceResponse)
			r := pmetricotlp.NewExportResponse()
			r.PartialSuccess().SetRejectedDataPoints(p.PartialSuccess.RejectedDataPoints)
			r.PartialSuccess().SetErrorMessage(p.PartialSuccess.ErrorMessage)
			return r
		},
		func() c8Wire { return pmetricotlp.NewExportResponse() },
		func(w c8Wire) any {
			ps := w.(pmetricotlp.ExportResponse).PartialSuccess()
			return &otlpcollectormetrics.ExportMetricsServiceResponse{PartialSuccess: otlpcollectormetrics.ExportMetricsPartialSuccess{
				RejectedDataPoints: ps.RejectedDataPoints(), ErrorMessage: ps.ErrorMessage()}}
		}))

	// ---- traces
	add(&c8Root{
		name: "traces", signal: "traces", m: c8MsgOf(reflect.TypeOf(otlptrace.TracesData{})), hasSize: true,
		enc: func(x any) ([]byte, int, error) {
			td := c8TracesOf(x.(*otlptrace.TracesData))
			m := &ptrace.ProtoMarshaler{}
			b, err := m.MarshalTraces(td)
			return b, m.TracesSize(td), err
		},
		dec: func(b []byte) (any, error) {
			td, err := (&ptrace.ProtoUnmarshaler{}).UnmarshalTraces(b)
			if err != nil {
				return nil, err
			}
			pb := internal.TracesToProto(internal.Traces(td))
			return &pb, nil
		},
		jenc: func(x any) ([]byte, error) {
			return (&ptrace.JSONMarshaler{}).MarshalTraces(c8TracesOf(x.(*otlptrace.TracesData)))
		},
		jdec: func(b []byte) (any, error) {
			td, err := (&ptrace.JSONUnmarshaler{}).UnmarshalTraces(b)
			if err != nil {
				return nil, err
			}
			pb := internal.TracesToProto(internal.Traces(td))
			return &pb, nil
		},
	})
	add(c8WireRoot("tracesreq", "traces", otlpcollectortrace.ExportTraceServiceRequest{},
		func(x any) c8Wire {
			st := internal.StateMutable
			return ptraceotlp.NewExportRequestFromTraces(ptrace.Traces(internal.NewTraces(x.(*otlpcollectortrace.ExportTraceServiceRequest), &st)))
		},
		func() c8Wire { return ptraceotlp.NewExportRequest() },
		func(w c8Wire) any {
			return internal.GetOrigTraces(internal.Traces(w.(ptraceotlp.ExportRequest).Traces()))
		}))
	add(c8WireRoot("tracesresp", "traces", otlpcollectortrace.ExportTraceServiceResponse{},
		func(x any) c8Wire {
			p := x.(*otlpcollectortrace.ExportTraceServiceResponse)
			r := ptraceotlp.NewExportResponse()
			r.PartialSuccess().SetRejectedSpans(p.PartialSuccess.RejectedSpans)
			r.PartialSuccess().SetErrorMessage(p.PartialSuccess.ErrorMessage)
			return r
		},
		func() c8Wire { return ptraceotlp.NewExportResponse() },
		func(w c8Wire) any {
			ps := w.(ptraceotlp.ExportResponse).PartialSuccess()
			return &otlpcollectortrace.ExportTraceServiceResponse{PartialSuccess: otlpcollectortrace.ExportTracePartialSuccess{
				RejectedSpans: ps.RejectedSpans(), ErrorMessage: ps.ErrorMessage()}}
		}))

	// ---- profiles (this package is pprofileotlp)
	add(&c8Root{
		name: "profiles", signal: "profiles", m: c8MsgOf(reflect.TypeOf(otlpprofiles.ProfilesData{})), hasSize: true,
		enc: func(x any) ([]byte, int, error) {
			pd := c8ProfilesOf(x.(*otlpprofiles.ProfilesData))
			m := &pprofile.ProtoMarshaler{}
			b, err := m.MarshalProfiles(pd)
			return b, m.ProfilesSize(pd), err
		},
		dec: func(b []byte) (any, error) {
			pd, err := (&pprofile.ProtoUnmarshaler{}).UnmarshalProfiles(b)
			if err != nil {
				return nil, err
			}
			pb := internal.ProfilesToProto(internal.Profiles(pd))
			return &pb, nil
		},
		jenc: func(x any) ([]byte, error) {
			return (&pprofile.JSONMarshaler{}).MarshalProfiles(c8ProfilesOf(x.(*otlpprofiles.ProfilesData)))
		},
		jdec: func(b []byte) (any, error) {
			pd, err := (&pprofile.JSONUnmarshaler{}).UnmarshalProfiles(b)
			if err != nil {
				return nil, err
			}
			pb := internal.ProfilesToProto(internal.Profiles(pd))
			return &pb, nil
		},
	})
	add(c8WireRoot("profilesreq", "profiles", otlpcollectorprofile.ExportProfilesServiceRequest{},
		func(x any) c8Wire {
			st := internal.StateMutable
			return NewExportRequestFromProfiles(pprofile.Profiles(internal.NewProfiles(x.(*otlpcollectorprofile.ExportProfilesServiceRequest), &st)))
		},
		func() c8Wire { return NewExportRequest() },
		func(w c8Wire) any { return internal.GetOrigProfiles(internal.Profiles(w.(ExportRequest).Profiles())) }))
	add(c8WireRoot("profilesresp", "profiles", otlpcollectorprofile.ExportProfilesServiceResponse{},
		func(x any) c8Wire {
			p := x.(*otlpcollectorprofile.ExportProfilesServiceResponse)
			r := NewExportResponse()
			r.PartialSuccess().SetRejectedProfiles(p.PartialSuccess.RejectedProfiles)
			r.PartialSuccess().SetErrorMessage(p.PartialSuccess.ErrorMessage)
			return r
		},
		func() c8Wire { return NewExportResponse() },
		func(w c8Wire) any {
			ps := w.(ExportResponse).PartialSuccess()
			return &otlpcollectorprofile.ExportProfilesServiceResponse{PartialSuccess: otlpcollectorprofile.ExportProfilesPartialSuccess{
				RejectedProfiles: ps.RejectedProfiles(), ErrorMessage: ps.ErrorMessage()}}
		}))
	return roots
}

// ---------------------------------------------------------------------------------------------
// guarded calls

type c8Res struct {
	x     any
	b     []byte
	n     int
	err   error
	panic string // non-empty: the call panicked
	hung  bool
}

const c8Timeout = 10 * time.Second

// c8Guard runs f in its own goroutine with recover; gives up after 10 s (the goroutine is then leaked on purpose).
func c8Guard(f func() c8Res) c8Res {
	ch := make(chan c8Res, 1)
	go func() {
		defer func() {
			if p := recover(); p != nil {
				ch <- c8Res{panic: fmt.Sprint(p), err: fmt.Errorf("panic")}
			}
		}()
		ch <- f()
	}()
	t := time.NewTimer(c8Timeout)
	defer t.Stop()
	select {
	case r := <-ch:
		return r
	case <-t.C:
		return c8Res{hung: true, err: fmt.Errorf("timeout")}
	}
}

// ---------------------------------------------------------------------------------------------
// deep copy with optional NaN normalisation

func c8CloneV(v reflect.Value, norm bool) reflect.Value {
	switch v.Kind() {
	case reflect.Ptr:
		if v.IsNil() {
			return v
		}
		n := reflect.New(v.Type().Elem())
		n.Elem().Set(c8CloneV(v.Elem(), norm))
		return n
	case reflect.Interface:
		if v.IsNil() {
			return v
		}
		n := reflect.New(v.Type()).Elem()
		n.Set(c8CloneV(v.Elem(), norm))
		return n
	case reflect.Struct:
		n := reflect.New(v.Type()).Elem()
		for i := 0; i < v.NumField(); i++ {
			if n.Field(i).CanSet() {
				n.Field(i).Set(c8CloneV(v.Field(i), norm))
			}
		}
		return n
	case reflect.Slice:
		if v.IsNil() {
			return v
		}
		n := reflect.MakeSlice(v.Type(), v.Len(), v.Len())
		for i := 0; i < v.Len(); i++ {
			n.Index(i).Set(c8CloneV(v.Index(i), norm))
		}
		return n
	case reflect.Float64:
		if norm && v.Float() != v.Float() {
			n := reflect.New(v.Type()).Elem()
			n.SetFloat(math.Float64frombits(c8CanonNaN))
			return n
		}
		return v
	default:
		return v
	}
}

// c8Clone deep-copies the message pointed to by x.
func c8Clone(x any, normNaN bool) any {
	return c8CloneV(reflect.ValueOf(x), normNaN).Interface()
}

// =============================================================================================
// ops, oracles, cases, test
// =============================================================================================

const c8ExhBase = 10_000_000
const c8RespBase = 5_000_000
const c8BadBase = 6_000_000
const c8IDBase = 7_000_000
const c8OwnBase = 8_000_000
const c8APIBase = 9_000_000
const c8DeepBase = 9_500_000
const c8IntBase = 9_700_000
const c8SizeBase = 9_800_000
const c8TxtBase = 9_900_000
const c8SkipBase = 9_950_000

type c8Run struct {
	out   *vOut
	roots map[string]*c8Root
	stats map[string]int // per case
	viols map[string]bool
	vlist []string // viol lines of the case, printed after its op/obs stream
	// harness self-check: our own canonical JSON writer must spell documents exactly like the real marshaler
	// (modulo member order); otherwise the variant documents no longer vary only what they claim to vary.
	selfBad   int
	selfFirst string
	// API-built payloads: a non-nil empty slice is the same value as a nil one (JSON `"k":[]` ≡ member omitted)
	emptyIsNil bool
}

func (h *c8Run) stat(k string) { h.stats[k]++ }

// viol prints a direct-oracle violation once per (signature, detail) and case.
func (h *c8Run) viol(sig, detail string) {
	k := sig + " " + detail
	if h.viols[k] {
		return
	}
	h.viols[k] = true
	h.vlist = append(h.vlist, strings.TrimRight("viol sig="+sig+" "+detail, " "))
}

func (h *c8Run) begin(c int, kind, root string) {
	h.stats = map[string]int{}
	h.viols = map[string]bool{}
	h.vlist = nil
	h.out.Linef("case %d kind=%s root=%s", c, kind, root)
	h.stat("kind." + kind)
	h.stat("root." + root)
}

func (h *c8Run) end(nt bool) {
	for _, l := range h.vlist {
		h.out.Linef("%s", l)
	}
	if nt {
		h.out.Linef("nt")
	}
	keys := make([]string, 0, len(h.stats))
	for k := range h.stats {
		keys = append(keys, k)
	}
	sort.Strings(keys)
	for _, k := range keys {
		h.out.Linef("stat %s %d", k, h.stats[k])
	}
	h.out.Linef("end")
	h.out.Flush()
}

func c8Hex(b []byte) string {
	if len(b) == 0 {
		return "-"
	}
	return hex.EncodeToString(b)
}

// c8HexCap: hex for viol details, capped (the case replays from its index anyway).
func c8HexCap(b []byte) string {
	if len(b) > 256 {
		return hex.EncodeToString(b[:256]) + "..."
	}
	return c8Hex(b)
}

func c8Short(s string) string {
	s = strings.Map(func(r rune) rune {
		if r <= ' ' || r > '~' {
			return '_'
		}
		return r
	}, s)
	if len(s) > 120 {
		s = s[:120]
	}
	return s
}

// ---- guarded wrappers around the code under test; totality oracles live here -------------------------------

func (h *c8Run) enc(r *c8Root, x any) c8Res {
	res := c8Guard(func() c8Res { b, n, err := r.enc(x); return c8Res{b: b, n: n, err: err} })
	if res.panic != "" {
		h.viol("C08/total/panic-marshal-pb/"+r.name, "panic="+c8Short(res.panic))
	}
	if res.hung {
		h.viol("C08/total/hang-marshal-pb/"+r.name, "")
	}
	return res
}

func (h *c8Run) jenc(r *c8Root, x any) c8Res {
	res := c8Guard(func() c8Res { b, err := r.jenc(x); return c8Res{b: b, err: err} })
	if res.panic != "" {
		h.viol("C08/total/panic-marshal-json/"+r.name, "panic="+c8Short(res.panic))
	}
	if res.hung {
		h.viol("C08/total/hang-marshal-json/"+r.name, "")
	}
	return res
}

func (h *c8Run) dec(r *c8Root, b []byte) c8Res {
	in := append([]byte(nil), b...) // the unmarshaler must not see our buffer mutated later, nor we its aliasing
	res := c8Guard(func() c8Res { x, err := r.dec(in); return c8Res{x: x, err: err} })
	if res.panic != "" {
		h.viol("C08/total/panic-pb/"+r.name, "in="+c8HexCap(b)+" panic="+c8Short(res.panic))
	}
	if res.hung {
		h.viol("C08/total/hang-pb/"+r.name, "in="+c8HexCap(b))
	}
	return res
}

func (h *c8Run) jdec(r *c8Root, b []byte) c8Res {
	in := append([]byte(nil), b...)
	res := c8Guard(func() c8Res { x, err := r.jdec(in); return c8Res{x: x, err: err} })
	if res.panic != "" {
		h.viol("C08/total/panic-json/"+r.name, "in="+c8HexCap(b)+" panic="+c8Short(res.panic))
	}
	if res.hung {
		h.viol("C08/total/hang-json/"+r.name, "in="+c8HexCap(b))
	}
	return res
}

// ---- ops ------------------------------------------------------------------------------------------------

// opDec prints `op dec` + obs and runs the fixed point oracle. Returns the decoded payload (nil on error).
func (h *c8Run) opDec(r *c8Root, b []byte) any {
	h.out.Linef("op dec %s %s", r.name, c8Hex(b))
	res := h.dec(r, b)
	if res.err != nil {
		h.out.Linef("obs err")
		h.stat("dec.err")
		return nil
	}
	h.out.Linef("obs ok %s", c8ToVal(res.x, c8ValOpt{}))
	h.stat("dec.ok")
	h.fixpointPB(r, res.x)
	return res.x
}

func (h *c8Run) fixpointPB(r *c8Root, v any) {
	e1 := h.enc(r, v)
	if e1.err != nil {
		h.viol("C08/total/not-a-fixpoint-pb/"+r.name, "step=marshal-of-decoded err="+c8Short(e1.err.Error()))
		return
	}
	d1 := h.dec(r, e1.b)
	if d1.err != nil {
		h.viol("C08/total/not-a-fixpoint-pb/"+r.name, "step=unmarshal-of-remarshalled b1="+c8HexCap(e1.b))
		return
	}
	e2 := h.enc(r, d1.x)
	if e2.err != nil || !bytes.Equal(e1.b, e2.b) {
		h.viol("C08/total/not-a-fixpoint-pb/"+r.name+c8Sub(c8Diff(v, d1.x, c8ValOpt{}).path), "step=second-marshal b1="+c8HexCap(e1.b))
	}
}

func (h *c8Run) fixpointJSON(r *c8Root, v any) {
	e1 := h.jenc(r, v)
	if e1.err != nil {
		h.viol("C08/total/not-a-fixpoint-json/"+r.name, "step=marshal-of-decoded err="+c8Short(e1.err.Error()))
		return
	}
	d1 := h.jdec(r, e1.b)
	if d1.err != nil {
		h.viol("C08/total/not-a-fixpoint-json/"+r.name, "step=unmarshal-of-remarshalled err="+c8Short(d1.err.Error())+" d1="+c8HexCap(e1.b))
		return
	}
	e2 := h.jenc(r, d1.x)
	if e2.err != nil || !bytes.Equal(e1.b, e2.b) {
		// encoding/json writes the six characters `\ufffd` only for bytes that are not valid UTF-8 (a real U+FFFD is written raw):
		// the decoded payload held a string that is not UTF-8 (no decoder validates), the marshaler replaced the bytes.
		if e2.err == nil && bytes.Contains(e1.b, []byte(`\ufffd`)) && !bytes.Contains(e2.b, []byte(`\ufffd`)) {
			h.viol("C08/total/not-a-fixpoint-json/invalid-utf8-string", "root="+r.name+" field="+c8Diff(v, d1.x, c8ValOpt{}).path+" d1="+c8HexCap(e1.b))
			return
		}
		h.viol("C08/total/not-a-fixpoint-json/"+r.name+c8Sub(c8Diff(v, d1.x, c8ValOpt{}).path), "step=second-marshal d1="+c8HexCap(e1.b))
	}
}

// opJdec prints `op jdec` + obs for the document (text, J) and runs the JSON fixed point oracle.
func (h *c8Run) opJdec(r *c8Root, txt []byte, j string, pf map[string]uint64) (any, error) {
	h.out.Linef("op jdec %s %s pf=%s", r.name, j, c8PFString(pf))
	res := h.jdec(r, txt)
	if res.err != nil {
		h.out.Linef("obs err")
		h.stat("jdec.err")
		return nil, res.err
	}
	h.out.Linef("obs ok %s", c8ToVal(res.x, c8ValOpt{}))
	h.stat("jdec.ok")
	h.fixpointJSON(r, res.x)
	return res.x, nil
}

func (h *c8Run) roundtripViol(area string, r *c8Root, d c8DiffRes, extra string) {
	if d.nilBytes {
		h.viol("C08/"+area+"/oneof-nil-bytes-not-encoded", "root="+r.name+" field="+d.path+extra)
		return
	}
	h.viol("C08/"+area+"/"+d.path, "root="+r.name+extra)
}

// runValue: ops enc, dec, jenc, jdec(of the marshaler's document) + every oracle of SPEC §4.
func (h *c8Run) runValue(r *c8Root, x any) {
	val := c8ToVal(x, c8ValOpt{})

	// --- protobuf
	h.out.Linef("op enc %s %s", r.name, val)
	e := h.enc(r, x)
	if e.err != nil {
		h.out.Linef("obs err")
	} else {
		sz := "-"
		if r.hasSize {
			sz = strconv.Itoa(e.n)
			if e.n != len(e.b) {
				h.viol("C08/pb/size-mismatch/"+r.name, "size="+sz+" len="+strconv.Itoa(len(e.b)))
			}
		}
		h.out.Linef("obs pb %s %s", c8Hex(e.b), sz)
		y := h.opDec(r, e.b)
		if y == nil {
			h.viol("C08/pb/roundtrip/unmarshal-error", "root="+r.name+" b="+c8HexCap(e.b))
		} else if d := c8Diff(x, y, c8ValOpt{}); d.path != "" {
			h.roundtripViol("pb/roundtrip", r, d, "")
		}
	}

	// --- JSON
	ft, pf, finite := c8Tables(x)
	// the four equations of the FloatLaws hypothesis of the JSON theorems, checked on every double this case uses:
	//   ParseFloat(json.Marshal(f)) = f for finite f;  ParseFloat("NaN") = math.NaN();  ParseFloat("±Infinity") = ±Inf
	// (that jsoniter's ReadFloat64 agrees with ParseFloat is what the exact `jdec` differential checks)
	for _, b := range finite {
		f := math.Float64frombits(b)
		t, _ := json.Marshal(f)
		h.stat("floattext.checked")
		if g, err := strconv.ParseFloat(string(t), 64); err != nil || math.Float64bits(g) != b {
			h.viol("C08/floattext/"+strconv.FormatUint(b, 10), "text="+string(t))
		}
	}
	for txt, want := range map[string]uint64{"NaN": 0x7FF8000000000001, "Infinity": 0x7FF0000000000000, "-Infinity": 0xFFF0000000000000} {
		if g, err := strconv.ParseFloat(txt, 64); err != nil || math.Float64bits(g) != want {
			h.viol("C08/floattext/special-"+txt, "got="+strconv.FormatUint(math.Float64bits(g), 16))
		}
	}
	h.out.Linef("op jenc %s %s ft=%s", r.name, val, ft)
	je := h.jenc(r, x)
	if je.err != nil {
		h.out.Linef("obs err")
		return
	}
	jPlain, jSorted, perr := c8DocJ(je.b)
	if perr != nil {
		h.out.Linef("obs js-unparsable")
		h.viol("C08/json/marshal-invalid-json/"+r.name, "err="+c8Short(perr.Error())+" doc="+c8HexCap(je.b))
		return
	}
	if h.emptyIsNil {
		// API-built payloads may hold NON-nil empty slices (e.g. FromRaw(nonempty) then FromRaw(empty)); jsonpb writes them as `[]`,
		// which reads back as empty: the canonical form nil ≡ empty slice, carried over to the document (`"k":[]` ≡ member omitted)
		jSorted = c8EmptyArrMember.ReplaceAllString(jSorted, "")
	}
	h.out.Linef("obs js %s", jSorted)
	if own, _, _, _ := c8WriteJSON(x, "canon", nil); true {
		if _, ownSorted, err := c8DocJ([]byte(own)); err != nil || (ownSorted != jSorted && !h.emptyIsNil) ||
			(h.emptyIsNil && c8EmptyArrMember.ReplaceAllString(ownSorted, "") != jSorted) {
			if h.selfBad == 0 {
				h.selfFirst = "own=" + own + " real=" + string(je.b)
			}
			h.selfBad++
		}
	}
	z, zerr := h.opJdec(r, je.b, jPlain, pf)
	if zerr != nil {
		h.viol("C08/json/roundtrip/unmarshal-error-"+c8ErrOp(zerr), "root="+r.name+" err="+c8Short(zerr.Error()))
		return
	}
	jopt := c8ValOpt{normNaN: true, nilBytesEmpty: true}
	if d := c8Diff(x, z, jopt); d.path != "" {
		h.roundtripViol("json/roundtrip", r, d, "")
	}
	// consistency: Marshal(UnmarshalJSON(MarshalJSON x)) = Marshal(normNaN x)
	xn := c8Clone(x, true)
	ez, en := h.enc(r, z), h.enc(r, xn)
	if ez.err != nil || en.err != nil || !bytes.Equal(ez.b, en.b) {
		d := c8Diff(xn, z, c8ValOpt{})
		if d.path == "" {
			d.path = "bytes-differ"
		}
		h.roundtripViol("json/pb-inconsistent", r, d, "")
	}
}

// c8Sub makes a signature suffix out of a field path ("" stays "").
func c8Sub(path string) string {
	if path == "" {
		return ""
	}
	return "/" + path
}

func c8ErrOp(err error) string {
	s := err.Error()
	if i := strings.IndexByte(s, ':'); i > 0 {
		s = s[:i]
	}
	s = strings.Map(func(r rune) rune {
		if (r >= 'a' && r <= 'z') || (r >= 'A' && r <= 'Z') || (r >= '0' && r <= '9') || r == '.' {
			return r
		}
		return -1
	}, s)
	if len(s) > 32 {
		s = s[:32]
	}
	if s == "" {
		s = "unknown"
	}
	return s
}

var c8VariantKinds = []string{"snake", "i64num", "i64str", "enumname", "enumnum", "mixed"}

// runVariant: op jdec of a variant document + the variants oracle.
func (h *c8Run) runVariant(r *c8Root, x any, kind string, rnd *rand.Rand) {
	h.stat("variant." + kind)
	txt, j, pf, hasDup := c8WriteJSON(x, kind, rnd)
	zv, verr := h.opJdec(r, []byte(txt), j, pf)
	// reference: what the marshaler's own document decodes to
	je := h.jenc(r, x)
	if je.err != nil {
		return
	}
	ref := h.jdec(r, je.b)
	if ref.err != nil {
		return
	}
	if verr != nil {
		h.viol("C08/json/variant-"+kind+"/decode-error-"+c8ErrOp(verr), "root="+r.name+" err="+c8Short(verr.Error()))
		return
	}
	if hasDup {
		h.stat("variant.dup")
		return // a duplicated member legitimately changes repeated fields
	}
	if d := c8Diff(ref.x, zv, c8ValOpt{}); d.path != "" {
		h.viol("C08/json/variant-"+kind+"/"+d.path, "root="+r.name)
	}
}

func (h *c8Run) runMutate(r *c8Root, x, x2 any, rnd *rand.Rand) {
	e := h.enc(r, x)
	if e.err != nil {
		h.out.Linef("op enc %s %s", r.name, c8ToVal(x, c8ValOpt{}))
		h.out.Linef("obs err")
		return
	}
	var other []byte
	if e2 := h.enc(r, x2); e2.err == nil {
		other = e2.b
	}
	b := e.b
	for k := 1 + rnd.IntN(2); k > 0; k-- {
		var label string
		b, label = c8Mutate(rnd, b, r.m, other, 0)
		h.stat("mut." + label)
	}
	if len(b) > 4096 {
		b = b[:4096]
	}
	h.opDec(r, b)
}

func (h *c8Run) runRandom(r *c8Root, x any, rnd *rand.Rand) {
	b := make([]byte, rnd.IntN(65))
	for i := range b {
		switch rnd.IntN(4) {
		case 0:
			b[i] = byte(rnd.IntN(16)) // small numbers: plausible tags / lengths
		case 1:
			b[i] = []byte{0x0a, 0x12, 0x1a, 0x22, 0x09, 0x11, 0x08, 0x10, 0x00, 0xff, 0x80}[rnd.IntN(11)]
		default:
			b[i] = byte(rnd.UintN(256))
		}
	}
	h.opDec(r, b)
	var base []byte
	if je := h.jenc(r, x); je.err == nil {
		base = je.b
	}
	doc := c8FuzzJSON(rnd, base)
	if len(doc) > 4096 {
		doc = doc[:4096]
	}
	h.fuzzDoc(r, doc)
	// tree-level mutation of the marshaler's own document: always well-formed JSON, so the model is always consulted
	if base != nil {
		if d2 := c8MutateJSONTree(rnd, base); d2 != nil {
			h.stat("fuzz.json.tree")
			h.fuzzDoc(r, d2)
		}
	}
}

// fuzzDoc offers a free-form JSON document to the real unmarshaler. Whenever the document is well-formed JSON (encoding/json
// parses it completely, valid UTF-8, no surrogate escapes — the cases in which the tree the model works on is unambiguous) it is
// ALSO given to the model (`op jdec`): error-vs-value and the decoded value are diffed exactly. Otherwise (`op fuzz`) only the
// direct oracles apply (no panic, no hang, fixed point).
func (h *c8Run) fuzzDoc(r *c8Root, doc []byte) {
	lower := bytes.ToLower(doc)
	if plain, _, err := c8DocJ(doc); err == nil && !bytes.Contains(lower, []byte(`\ud`)) {
		h.stat("fuzz.json.modelled")
		h.opJdec(r, doc, plain, c8DocPF(doc))
		return
	}
	h.out.Linef("op fuzz %s json %s", r.name, c8Hex(doc))
	res := h.jdec(r, doc)
	if res.err == nil {
		h.stat("fuzz.json.ok")
		h.fixpointJSON(r, res.x)
	} else {
		h.stat("fuzz.json.err")
	}
	h.out.Linef("obs done")
}

// ---- size ops over sub-messages -----------------------------------------------------------------------------

type c8Marshaler interface {
	Marshal() ([]byte, error)
}

func (h *c8Run) opSize(orig c8Marshaler, size func() int) {
	mi := c8MsgOf(reflect.TypeOf(orig).Elem())
	h.out.Linef("op size %s %s", mi.name, c8ToVal(orig, c8ValOpt{}))
	res := c8Guard(func() c8Res { return c8Res{n: size()} })
	if res.err != nil {
		h.out.Linef("obs err")
		h.viol("C08/total/panic-size/"+mi.name, "panic="+c8Short(res.panic))
		return
	}
	h.out.Linef("obs sz %d", res.n)
	h.stat("size." + mi.goType)
	b, err := orig.Marshal()
	if err != nil || len(b) != res.n {
		h.viol("C08/pb/size-mismatch/"+mi.name, "size="+strconv.Itoa(res.n)+" len="+strconv.Itoa(len(b)))
	}
}

func (h *c8Run) runSize(r *c8Root, x any, rnd *rand.Rand) {
	budget := 8
	take := func() bool { budget--; return budget >= 0 }
	switch p := x.(type) {
	case *otlplogs.LogsData:
		ld := c8LogsOf(p)
		m := &plog.ProtoMarshaler{}
		for i, rl := range p.ResourceLogs {
			w := ld.ResourceLogs().At(i)
			if take() {
				h.opSize(rl, func() int { return m.ResourceLogsSize(w) })
			}
			for j, sl := range rl.ScopeLogs {
				ws := w.ScopeLogs().At(j)
				if take() {
					h.opSize(sl, func() int { return m.ScopeLogsSize(ws) })
				}
				for k, lr := range sl.LogRecords {
					wl := ws.LogRecords().At(k)
					if take() {
						h.opSize(lr, func() int { return m.LogRecordSize(wl) })
					}
				}
			}
		}
	case *otlptrace.TracesData:
		td := c8TracesOf(p)
		m := &ptrace.ProtoMarshaler{}
		for i, rs := range p.ResourceSpans {
			w := td.ResourceSpans().At(i)
			if take() {
				h.opSize(rs, func() int { return m.ResourceSpansSize(w) })
			}
			for j, ss := range rs.ScopeSpans {
				ws := w.ScopeSpans().At(j)
				if take() {
					h.opSize(ss, func() int { return m.ScopeSpansSize(ws) })
				}
				for k, sp := range ss.Spans {
					wsp := ws.Spans().At(k)
					if take() {
						h.opSize(sp, func() int { return m.SpanSize(wsp) })
					}
				}
			}
		}
	case *otlpprofiles.ProfilesData:
		pd := c8ProfilesOf(p)
		m := &pprofile.ProtoMarshaler{}
		for i, rp := range p.ResourceProfiles {
			w := pd.ResourceProfiles().At(i)
			if take() {
				h.opSize(rp, func() int { return m.ResourceProfilesSize(w) })
			}
			for j, sp := range rp.ScopeProfiles {
				ws := w.ScopeProfiles().At(j)
				if take() {
					h.opSize(sp, func() int { return m.ScopeProfilesSize(ws) })
				}
				for k, pr := range sp.Profiles {
					wp := ws.Profiles().At(k)
					if take() {
						h.opSize(pr, func() int { return m.ProfileSize(wp) })
					}
				}
			}
		}
	case *otlpmetrics.MetricsData:
		md := c8MetricsOf(p)
		m := &pmetric.ProtoMarshaler{}
		for i, rm := range p.ResourceMetrics {
			w := md.ResourceMetrics().At(i)
			if rnd.IntN(2) == 0 && take() {
				h.opSize(rm, func() int { return m.ResourceMetricsSize(w) })
			}
			for j, sm := range rm.ScopeMetrics {
				ws := w.ScopeMetrics().At(j)
				if rnd.IntN(2) == 0 && take() {
					h.opSize(sm, func() int { return m.ScopeMetricsSize(ws) })
				}
				for k, me := range sm.Metrics {
					wm := ws.Metrics().At(k)
					if rnd.IntN(2) == 0 && take() {
						h.opSize(me, func() int { return m.MetricSize(wm) })
					}
					switch d := me.Data.(type) {
					case *otlpmetrics.Metric_Gauge:
						for q, dp := range d.Gauge.DataPoints {
							wd := wm.Gauge().DataPoints().At(q)
							if take() {
								h.opSize(dp, func() int { return m.NumberDataPointSize(wd) })
							}
						}
					case *otlpmetrics.Metric_Sum:
						for q, dp := range d.Sum.DataPoints {
							wd := wm.Sum().DataPoints().At(q)
							if take() {
								h.opSize(dp, func() int { return m.NumberDataPointSize(wd) })
							}
						}
					case *otlpmetrics.Metric_Histogram:
						for q, dp := range d.Histogram.DataPoints {
							wd := wm.Histogram().DataPoints().At(q)
							if take() {
								h.opSize(dp, func() int { return m.HistogramDataPointSize(wd) })
							}
						}
					case *otlpmetrics.Metric_ExponentialHistogram:
						for q, dp := range d.ExponentialHistogram.DataPoints {
							wd := wm.ExponentialHistogram().DataPoints().At(q)
							if take() {
								h.opSize(dp, func() int { return m.ExponentialHistogramDataPointSize(wd) })
							}
						}
					case *otlpmetrics.Metric_Summary:
						for q, dp := range d.Summary.DataPoints {
							wd := wm.Summary().DataPoints().At(q)
							if take() {
								h.opSize(dp, func() int { return m.SummaryDataPointSize(wd) })
							}
						}
					}
				}
			}
		}
	}
}

// ---- corpus -------------------------------------------------------------------------------------------------

func c8LogsWith(lr *otlplogs.LogRecord) *otlplogs.LogsData {
	return &otlplogs.LogsData{ResourceLogs: []*otlplogs.ResourceLogs{{ScopeLogs: []*otlplogs.ScopeLogs{{LogRecords: []*otlplogs.LogRecord{lr}}}}}}
}

func c8ProfilesWith(p *otlpprofiles.Profile) *otlpprofiles.ProfilesData {
	return &otlpprofiles.ProfilesData{ResourceProfiles: []*otlpprofiles.ResourceProfiles{{ScopeProfiles: []*otlpprofiles.ScopeProfiles{{Profiles: []*otlpprofiles.Profile{p}}}}}}
}

func (h *c8Run) corpus(c int) {
	R := h.roots
	switch c {
	case 0:
		h.begin(c, "value", "logs")
		h.runValue(R["logs"], c8LogsWith(&otlplogs.LogRecord{EventName: "evt"}))
		h.stat("field.LogRecord.EventName")
		h.stats["schema.msgs"] = len(c8Msgs)
		h.stats["schema.fieldkeys"] = len(c8AllFieldKeys())
		h.end(true)
	case 1:
		h.begin(c, "value", "logs")
		ld := plog.NewLogs()
		lrs := ld.ResourceLogs().AppendEmpty().ScopeLogs().AppendEmpty().LogRecords()
		lrs.AppendEmpty().Body().SetEmptyBytes()
		lr2 := lrs.AppendEmpty()
		lr2.Attributes().PutEmptyBytes("k")
		pb := internal.LogsToProto(internal.Logs(ld))
		h.runValue(R["logs"], &pb)
		h.stat("field.AnyValue.BytesValue")
		h.end(true)
	case 2:
		h.begin(c, "value", "profiles")
		h.runValue(R["profiles"], c8ProfilesWith(&otlpprofiles.Profile{OriginalPayload: []byte{1, 2, 3, 255}, OriginalPayloadFormat: "x"}))
		h.stat("field.Profile.OriginalPayload")
		h.end(true)
	case 3:
		h.begin(c, "variant", "profiles")
		x := c8ProfilesWith(&otlpprofiles.Profile{SampleType: []*otlpprofiles.ValueType{{AggregationTemporality: 1}}})
		h.runVariant(R["profiles"], x, "enumname", vRand(c))
		h.stat("field.ValueType.AggregationTemporality")
		h.end(true)
	case 4:
		h.begin(c, "value", "metrics")
		negz := math.Copysign(0, -1)
		x := &otlpmetrics.MetricsData{ResourceMetrics: []*otlpmetrics.ResourceMetrics{{ScopeMetrics: []*otlpmetrics.ScopeMetrics{{Metrics: []*otlpmetrics.Metric{{
			Data: &otlpmetrics.Metric_Summary{Summary: &otlpmetrics.Summary{DataPoints: []*otlpmetrics.SummaryDataPoint{{
				Sum: negz, QuantileValues: []*otlpmetrics.SummaryDataPoint_ValueAtQuantile{{Quantile: negz, Value: 1.5}}}}}}}}}}}}}
		h.runValue(R["metrics"], x)
		h.stat("field.SummaryDataPoint.Sum")
		// the same through the PUBLIC API, compared bit for bit (runValue above compares the canonical form, in which
		// -0.0 ≡ +0.0 for plain double fields, exactly like Go's ==): is math.Signbit preserved? (observation only)
		{
			md := pmetric.NewMetrics()
			ms := md.ResourceMetrics().AppendEmpty().ScopeMetrics().AppendEmpty().Metrics()
			ms.AppendEmpty().SetEmptyExponentialHistogram().DataPoints().AppendEmpty().SetZeroThreshold(negz)
			ms.AppendEmpty().SetEmptySummary().DataPoints().AppendEmpty().SetSum(negz)
			signs := func(m pmetric.Metrics) (bool, bool) {
				l := m.ResourceMetrics().At(0).ScopeMetrics().At(0).Metrics()
				return math.Signbit(l.At(0).ExponentialHistogram().DataPoints().At(0).ZeroThreshold()),
					math.Signbit(l.At(1).Summary().DataPoints().At(0).Sum())
			}
			res := c8Guard(func() c8Res {
				out := ""
				if b, err := (&pmetric.ProtoMarshaler{}).MarshalMetrics(md); err == nil {
					if back, err := (&pmetric.ProtoUnmarshaler{}).UnmarshalMetrics(b); err == nil {
						if z, s := signs(back); !z || !s {
							out += "pb "
						}
					}
				}
				if b, err := (&pmetric.JSONMarshaler{}).MarshalMetrics(md); err == nil {
					if back, err := (&pmetric.JSONUnmarshaler{}).UnmarshalMetrics(b); err == nil {
						if z, s := signs(back); !z || !s {
							out += "json "
						}
					}
				}
				return c8Res{panic: "", b: []byte(out)}
			})
			// OBSERVATION, not a violation: payload equality is Go's == / reflect.DeepEqual, under which -0.0 == +0.0 (proto3 does not
			// serialise a zero default); the sign of zero of a plain double field is not preserved by either codec. Counted in the evidence.
			if strings.Contains(string(res.b), "pb") {
				h.stat("negative_zero_sign_lost.pb")
				h.out.Linef("tr negative_zero_sign_lost codec=pb fields=ExponentialHistogramDataPoint.ZeroThreshold,SummaryDataPoint.Sum")
			}
			if strings.Contains(string(res.b), "json") {
				h.stat("negative_zero_sign_lost.json")
				h.out.Linef("tr negative_zero_sign_lost codec=json fields=ExponentialHistogramDataPoint.ZeroThreshold,SummaryDataPoint.Sum")
			}
		}
		h.end(true)
	case 5:
		h.begin(c, "deprecated", "logs")
		x := &otlplogs.LogsData{ResourceLogs: []*otlplogs.ResourceLogs{{SchemaUrl: "s", DeprecatedScopeLogs: []*otlplogs.ScopeLogs{{SchemaUrl: "d",
			LogRecords: []*otlplogs.LogRecord{{SeverityText: "x"}}}}}}}
		h.deprecated("logs", "logsreq", x)
		h.end(true)
	case 6:
		h.begin(c, "deprecated", "metrics")
		x := &otlpmetrics.MetricsData{ResourceMetrics: []*otlpmetrics.ResourceMetrics{{SchemaUrl: "s", DeprecatedScopeMetrics: []*otlpmetrics.ScopeMetrics{{SchemaUrl: "d",
			Metrics: []*otlpmetrics.Metric{{Name: "m"}}}}}}}
		h.deprecated("metrics", "metricsreq", x)
		h.end(true)
	case 7:
		h.begin(c, "deprecated", "traces")
		x := &otlptrace.TracesData{ResourceSpans: []*otlptrace.ResourceSpans{{SchemaUrl: "s", DeprecatedScopeSpans: []*otlptrace.ScopeSpans{{SchemaUrl: "d",
			Spans: []*otlptrace.Span{{Name: "sp"}}}}}}}
		h.deprecated("traces", "tracesreq", x)
		h.end(true)
	}
}

// deprecated: bytes with only field 1000 set → dec on the data root (no migration) and on the request root (migration).
func (h *c8Run) deprecated(dataRoot, reqRoot string, x any) {
	r, rq := h.roots[dataRoot], h.roots[reqRoot]
	h.out.Linef("op enc %s %s", r.name, c8ToVal(x, c8ValOpt{}))
	e := h.enc(r, x)
	if e.err != nil {
		h.out.Linef("obs err")
		return
	}
	h.out.Linef("obs pb %s %d", c8Hex(e.b), e.n)
	// every decode path migrates: the plain ProtoUnmarshaler as well as the request wrapper
	for _, rt := range []*c8Root{r, rq} {
		z := h.opDec(rt, e.b)
		if z == nil {
			h.viol("C08/pb/migrate/decode-error", "root="+rt.name)
			continue
		}
		// direct oracle of the migration: the deprecated list moved into the regular one
		res := reflect.ValueOf(z).Elem().Field(0) // []*ResourceX
		src := reflect.ValueOf(x).Elem().Field(0)
		for i := 0; i < res.Len() && i < src.Len(); i++ {
			got, want := res.Index(i).Elem(), src.Index(i).Elem()
			var dep, reg, wdep reflect.Value
			for k := 0; k < got.NumField(); k++ {
				n := got.Type().Field(k).Name
				if strings.HasPrefix(n, "Deprecated") {
					dep, wdep = got.Field(k), want.Field(k)
					reg = got.FieldByName(strings.TrimPrefix(n, "Deprecated"))
				}
			}
			if !dep.IsValid() || !reg.IsValid() {
				continue
			}
			if dep.Len() != 0 || reg.Len() != wdep.Len() {
				h.viol("C08/pb/migrate/"+got.Type().Name(), "root="+rt.name+" deprecated="+strconv.Itoa(dep.Len())+" regular="+strconv.Itoa(reg.Len()))
			}
		}
		// the property itself on the payload the API hands out: JSON round trip and protobuf/JSON consistency
		if je := h.jenc(rt, z); je.err == nil {
			if back := h.jdec(rt, je.b); back.err == nil {
				if d := c8Diff(z, back.x, c8ValOpt{normNaN: true}); d.path != "" {
					h.roundtripViol("json/roundtrip", rt, d, " decoded-from-deprecated-bytes")
				}
			}
		}
	}
}

// ---- generated cases ----------------------------------------------------------------------------------------

var c8EmptyArrMember = regexp.MustCompile(`[0-9a-f]*:\[\]`)

var c8Signals = []string{"logs", "metrics", "traces", "profiles"}

func (h *c8Run) pickRoot(rnd *rand.Rand, c int, allowWire bool) *c8Root {
	sig := c8Signals[(c/10+rnd.IntN(2)*rnd.IntN(4))%4]
	if allowWire {
		switch k := rnd.IntN(10); {
		case k < 2:
			return h.roots[sig+"req"]
		case k < 3:
			return h.roots[sig+"resp"]
		}
	}
	return h.roots[sig]
}

func (h *c8Run) fieldStats(g *c8Gen) {
	for k := range g.set {
		h.stat("field." + k)
	}
}

func (h *c8Run) generated(c int) {
	rnd := vRand(c)
	switch c % 10 {
	case 0, 1, 2, 3:
		r := h.pickRoot(rnd, c, true)
		g := c8NewGen(rnd, rnd.IntN(12) == 0)
		x := g.root(r.m)
		h.begin(c, "value", r.name)
		if g.raw {
			h.stat("shape.raw")
		}
		h.runValue(r, x)
		h.fieldStats(g)
		h.end(len(g.set) > 0)
	case 4, 5:
		r := h.pickRoot(rnd, c, true)
		g := c8NewGen(rnd, false)
		x := g.root(r.m)
		kind := c8VariantKinds[rnd.IntN(len(c8VariantKinds))]
		if rnd.IntN(3) == 0 {
			kind = "mixed"
		}
		h.begin(c, "variant", r.name)
		h.runVariant(r, x, kind, rnd)
		h.fieldStats(g)
		h.end(len(g.set) > 0)
	case 6, 7:
		r := h.pickRoot(rnd, c, true)
		g := c8NewGen(rnd, true)
		g.dep = true
		x := g.root(r.m)
		g2 := c8NewGen(rnd, false)
		g2.budget = 6
		x2 := g2.root(r.m)
		h.begin(c, "mutate", r.name)
		h.runMutate(r, x, x2, rnd)
		h.fieldStats(g)
		h.end(true)
	case 8:
		r := h.pickRoot(rnd, c, true)
		g := c8NewGen(rnd, false)
		x := g.root(r.m)
		h.begin(c, "random", r.name)
		h.runRandom(r, x, rnd)
		h.end(true)
	case 9:
		r := h.pickRoot(rnd, c, false)
		g := c8NewGen(rnd, rnd.IntN(12) == 0)
		g.budget += 10
		x := g.root(r.m)
		h.begin(c, "size", r.name)
		h.runSize(r, x, rnd)
		h.fieldStats(g)
		h.end(len(g.set) > 0)
	}
}

// apiBlock: `per` random API programs per signal.
func (h *c8Run) apiBlock(replay, per int) {
	idx := c8APIBase
	for _, sig := range c8Signals {
		r := h.roots[sig]
		for k := 0; k < per; k++ {
			c := idx
			idx++
			if replay >= 0 && replay != c {
				continue
			}
			rnd := vRand(c)
			a := &c8API{r: rnd, g: c8NewGen(rnd, false), budget: 40 + rnd.IntN(160)}
			var x any
			switch sig {
			case "logs":
				w := plog.NewLogs()
				a.drive(reflect.ValueOf(w), 0)
				pb := internal.LogsToProto(internal.Logs(w))
				x = &pb
			case "metrics":
				w := pmetric.NewMetrics()
				a.drive(reflect.ValueOf(w), 0)
				pb := internal.MetricsToProto(internal.Metrics(w))
				x = &pb
			case "traces":
				w := ptrace.NewTraces()
				a.drive(reflect.ValueOf(w), 0)
				pb := internal.TracesToProto(internal.Traces(w))
				x = &pb
			default:
				w := pprofile.NewProfiles()
				a.drive(reflect.ValueOf(w), 0)
				pb := internal.ProfilesToProto(internal.Profiles(w))
				x = &pb
			}
			h.begin(c, "value", r.name)
			h.emptyIsNil = true
			h.stat("api.program")
			h.stats["api.calls"] += a.calls
			h.stats["api.panics"] += a.panics
			h.runValue(r, x)
			h.emptyIsNil = false
			h.end(a.calls > 3)
		}
	}
}

// ---- deep nesting -----------------------------------------------------------------------------------------------

func c8DeepUvarint(b []byte, v uint64) []byte {
	for v >= 0x80 {
		b = append(b, byte(v)|0x80)
		v >>= 7
	}
	return append(b, byte(v))
}

func c8SovN(v int) int { return len(c8DeepUvarint(nil, uint64(v))) }

// c8DeepAny: an AnyValue nested `depth` levels through array_value (kv=false: AnyValue{5: ArrayValue{1: AnyValue…}}) or
// kvlist_value (kv=true: AnyValue{6: KeyValueList{1: KeyValue{2: AnyValue…}}}), written outside-in from precomputed sizes (linear).
func c8DeepAny(depth int, kv bool) []byte {
	leaf := []byte{0x0a, 0x01, 'x'} // string_value "x"
	sz := make([]int, depth+1)
	sz[0] = len(leaf)
	for k := 1; k <= depth; k++ {
		inner := 1 + c8SovN(sz[k-1]) + sz[k-1] // values(1) / value(2) entry holding the AnyValue
		if kv {
			inner = 1 + c8SovN(inner) + inner // KeyValueList.values(1) entry holding the KeyValue
		}
		sz[k] = 1 + c8SovN(inner) + inner
	}
	out := make([]byte, 0, sz[depth])
	for k := depth; k >= 1; k-- {
		e := 1 + c8SovN(sz[k-1]) + sz[k-1]
		if kv {
			out = append(out, 0x32) // kvlist_value
			out = c8DeepUvarint(out, uint64(1+c8SovN(e)+e))
			out = append(out, 0x0a) // KeyValueList.values
			out = c8DeepUvarint(out, uint64(e))
			out = append(out, 0x12) // KeyValue.value
		} else {
			out = append(out, 0x2a) // array_value
			out = c8DeepUvarint(out, uint64(e))
			out = append(out, 0x0a) // ArrayValue.values
		}
		out = c8DeepUvarint(out, uint64(sz[k-1]))
	}
	return append(out, leaf...)
}

func c8WrapLD(field int, p []byte) []byte {
	out := c8DeepUvarint(nil, uint64(field)<<3|2)
	out = c8DeepUvarint(out, uint64(len(p)))
	return append(out, p...)
}

// deepBlock: each case is one deep input offered to one unmarshaler under the guard; `full` also runs the fixed-point oracle
// (re-marshalling is quadratic in the depth for nested one-ofs in gogo, so only the moderate depths do that).
func (h *c8Run) deepBlock(replay int) {
	idx := c8DeepBase
	run := func(root, what string, json bool, doc []byte, full bool) {
		c := idx
		idx++
		if replay >= 0 && replay != c {
			return
		}
		r := h.roots[root]
		h.begin(c, "deep", r.name)
		h.out.Linef("op fuzz %s deep %s", r.name, what)
		var res c8Res
		if json {
			res = h.jdec(r, doc)
		} else {
			res = h.dec(r, doc)
		}
		if res.err == nil && !res.hung && res.panic == "" {
			h.stat("deep.ok")
			if full {
				if json {
					h.fixpointJSON(r, res.x)
				} else {
					h.fixpointPB(r, res.x)
				}
			}
		} else {
			h.stat("deep.err")
		}
		h.stats["deep.bytes"] += len(doc)
		h.out.Linef("obs done")
		h.end(true)
	}
	logsWithBody := func(anyv []byte) []byte { // LogsData{resource_logs{scope_logs{log_records{body}}}}
		return c8WrapLD(1, c8WrapLD(2, c8WrapLD(2, c8WrapLD(5, anyv))))
	}
	spansWithAttr := func(anyv []byte) []byte { // TracesData{resource_spans{scope_spans{spans{attributes{key,value}}}}}
		kv := append([]byte{0x0a, 0x01, 'k'}, c8WrapLD(2, anyv)...)
		return c8WrapLD(1, c8WrapLD(2, c8WrapLD(2, c8WrapLD(9, kv))))
	}
	for _, d := range []int{1000, 3000, 100000} {
		ds := strconv.Itoa(d)
		full := d <= 3000
		run("logs", "pb-array-"+ds, false, logsWithBody(c8DeepAny(d, false)), full)
		run("logs", "pb-kvlist-"+ds, false, logsWithBody(c8DeepAny(d, true)), full)
		run("traces", "pb-attr-array-"+ds, false, spansWithAttr(c8DeepAny(d, false)), full)
		run("logsreq", "pb-array-"+ds, false, logsWithBody(c8DeepAny(d, false)), full)
		// unknown groups nested d deep: d start-group tags of field 99, then d end-group tags — at top level and inside a record
		g := bytes.Repeat([]byte{0x9b, 0x06}, d)
		g = append(g, bytes.Repeat([]byte{0x9c, 0x06}, d)...)
		run("logs", "pb-groups-top-"+ds, false, g, full)
		run("metrics", "pb-groups-record-"+ds, false, c8WrapLD(1, c8WrapLD(2, g)), full)
		run("profiles", "pb-groups-unbalanced-"+ds, false, bytes.Repeat([]byte{0x9b, 0x06}, d), false)
		// JSON
		arr := strings.Repeat(`{"arrayValue":{"values":[`, d) + `{"stringValue":"x"}` + strings.Repeat(`]}}`, d)
		kvl := strings.Repeat(`{"kvlistValue":{"values":[{"key":"k","value":`, d) + `{"intValue":"1"}` + strings.Repeat(`}]}}`, d)
		body := func(v string) []byte {
			return []byte(`{"resourceLogs":[{"scopeLogs":[{"logRecords":[{"body":` + v + `}]}]}]}`)
		}
		run("logs", "json-array-"+ds, true, body(arr), full)
		run("logs", "json-kvlist-"+ds, true, body(kvl), full)
		run("logsreq", "json-array-"+ds, true, body(arr), full)
		unkObj := `{"zzUnknown":` + strings.Repeat(`{"a":`, d) + `1` + strings.Repeat(`}`, d) + `,"resourceSpans":[]}`
		unkArr := `{"zzUnknown":` + strings.Repeat(`[`, d) + strings.Repeat(`]`, d) + `,"resourceMetrics":[]}`
		run("traces", "json-unknown-objects-"+ds, true, []byte(unkObj), full)
		run("metrics", "json-unknown-arrays-"+ds, true, []byte(unkArr), full)
		run("profiles", "json-unclosed-"+ds, true, []byte(`{"zz":`+strings.Repeat(`[{"a":`, d)), false)
	}
}

// ownBlock: for every root and both codecs, `seqReps` sequential cases (marshal A, keep the bytes, marshal B and C, compare the
// KEPT bytes with the snapshot taken right after the first call and decode them) and `concReps` concurrent cases (`gor`
// goroutines, each keeps its first result while it and the others marshal `iters` more payloads).
func (h *c8Run) ownBlock(replay, base, seqReps, concReps, gor, iters int) {
	idx := base
	names := []string{"logs", "metrics", "traces", "profiles", "logsreq", "metricsreq", "tracesreq", "profilesreq",
		"logsresp", "metricsresp", "tracesresp", "profilesresp"}
	type marshalFn func(x any) ([]byte, error)
	for _, name := range names {
		r := h.roots[name]
		codecs := []struct {
			name string
			m    marshalFn
		}{
			{"pb", func(x any) ([]byte, error) { b, _, err := r.enc(x); return b, err }},
			{"json", r.jenc},
		}
		for _, cd := range codecs {
			gen := func(rnd *rand.Rand, k int) []any {
				out := make([]any, k)
				for i := range out {
					g := c8NewGen(rnd, false)
					g.pDefault = 0.1
					g.budget += 10
					out[i] = g.root(r.m)
				}
				return out
			}
			sig := "C08/own/marshal-output-changed-after-later-marshal/" + cd.name + "/" + r.name
			for rep := 0; rep < seqReps+concReps; rep++ {
				c := idx
				idx++
				if replay >= 0 && replay != c {
					continue
				}
				rnd := vRand(c)
				conc := rep >= seqReps
				h.begin(c, "own", r.name)
				h.out.Linef("op fuzz %s own -", r.name)
				h.out.Linef("obs done")
				if !conc {
					xs := gen(rnd, 3)
					res := c8Guard(func() c8Res {
						a, err := cd.m(xs[0])
						if err != nil {
							return c8Res{err: err}
						}
						snap := append([]byte(nil), a...)
						for _, y := range xs[1:] {
							if _, err := cd.m(y); err != nil {
								return c8Res{err: err}
							}
						}
						if !bytes.Equal(a, snap) {
							return c8Res{b: snap, n: 1}
						}
						return c8Res{b: snap}
					})
					if res.panic != "" || res.hung {
						h.viol("C08/total/panic-marshal-"+cd.name+"/"+r.name, "own-sequential panic="+c8Short(res.panic))
					} else if res.err == nil && res.n == 1 {
						h.viol(sig, "mode=sequential first="+c8HexCap(res.b))
					}
					h.stat("own.seq." + cd.name)
				} else {
					xs := gen(rnd, gor)
					bad := make(chan string, gor)
					var wg sync.WaitGroup
					for i := 0; i < gor; i++ {
						wg.Add(1)
						go func(i int) {
							defer wg.Done()
							defer func() {
								if p := recover(); p != nil {
									bad <- "panic " + fmt.Sprint(p)
								}
							}()
							a, err := cd.m(xs[i])
							if err != nil {
								return
							}
							snap := append([]byte(nil), a...)
							for k := 0; k < iters; k++ {
								_, _ = cd.m(xs[(i+k+1)%gor])
								runtime.Gosched()
							}
							if !bytes.Equal(a, snap) {
								bad <- "goroutine=" + strconv.Itoa(i) + " first=" + c8HexCap(snap)
							}
						}(i)
					}
					wg.Wait()
					close(bad)
					for msg := range bad {
						h.viol(sig, "mode=concurrent "+msg)
						break
					}
					h.stat("own.conc." + cd.name)
				}
				h.end(true)
			}
		}
	}
}

// TestVerifC08OwnRace: the concurrent ownership block alone, more goroutine rounds; run with -race in the thorough tier.
// badBlock: for the four signals and the four request wrappers × classes × 2 values, a conforming document in which exactly ONE
// site of the class is replaced (c8WriteBadJSON); `op jdec` — the model predicts error vs value exactly.
func (h *c8Run) badBlock(replay, base int, classes []string, area string) {
	idx := base
	roots := []string{"logs", "metrics", "traces", "profiles", "logsreq", "metricsreq", "tracesreq", "profilesreq"}
	if area == "intspell" { // the export responses read their rejected_* count through json.ReadInt64 too (appended: indices of the others stay)
		roots = append(roots, "logsresp", "metricsresp", "tracesresp", "profilesresp")
	}
	for _, rootName := range roots {
		r := h.roots[rootName]
		for _, class := range classes {
			for rep := 0; rep < 2; rep++ {
				c := idx
				idx++
				if replay >= 0 && replay != c {
					continue
				}
				rnd := vRand(c)
				var txt, j, hit string
				var pf map[string]uint64
				ok := false
				for try := 0; try < 12 && !ok; try++ {
					g := c8NewGen(rnd, false)
					g.pDefault = 0.1
					g.budget += 20
					x := g.root(r.m)
					txt, j, pf, hit, ok = c8WriteBadJSON(x, class, rnd)
				}
				h.begin(c, area, r.name)
				h.stat(area + "." + class)
				if !ok {
					h.stat(area + ".nosite")
					h.end(false)
					continue
				}
				h.stat(area + ".site." + hit)
				h.opJdec(r, []byte(txt), j, pf)
				h.end(true)
			}
		}
	}
}

// skipBlock: see TestVerifC08Codec. One document per (root, literal, position).
func (h *c8Run) skipBlock(replay int) {
	lits := []string{"1e400", "-1e400", "1E400", "1e+400", "1e309", "1.7976931348623159e308", "1.7976931348623157e308", "1e308", "1E+2", "1e2",
		"1e-400", "0e999", "0.1e-999", "5", "0", "-0", "-7", "2.5", "0.0", "12345678901234567890123", "-18446744073709551616",
		"123456789012345678901234567890.5",
		"1" + strings.Repeat("0", 70) + "e5", "1" + strings.Repeat("0", 70) + "e300", "1" + strings.Repeat("0", 400), "0." + strings.Repeat("0", 80) + "1e-5"}
	inner := map[string]string{"logs": "resourceLogs", "metrics": "resourceMetrics", "traces": "resourceSpans", "profiles": "resourceProfiles"}
	idx := c8SkipBase
	for _, name := range []string{"logs", "metrics", "traces", "profiles", "logsreq", "metricsreq", "tracesreq", "profilesreq",
		"logsresp", "metricsresp", "tracesresp", "profilesresp"} {
		r := h.roots[name]
		var docs []string
		for _, n := range lits {
			docs = append(docs, `{"zzUnknown":`+n+`}`, `{"zzUnknown":[true,"x",[`+n+`]]}`, `{"zzUnknown":{"a":null,"b":{"c":`+n+`}}}`)
			if strings.HasSuffix(name, "resp") {
				docs = append(docs, `{"partialSuccess":{"zzUnknown":`+n+`,"errorMessage":"m"}}`)
			} else {
				docs = append(docs, `{"`+inner[strings.TrimSuffix(name, "req")]+`":[{"schemaUrl":"s","zzUnknown":`+n+`},{"zzUnknown":[`+n+`],"schemaUrl":"t"}]}`)
			}
		}
		for _, doc := range docs {
			c := idx
			idx++
			if replay >= 0 && replay != c {
				continue
			}
			h.begin(c, "skipnum", r.name)
			h.stat("skipnum")
			plain, _, err := c8DocJ([]byte(doc))
			if err != nil {
				h.stat("skipnum.unparsable")
				h.end(false)
				continue
			}
			if _, err := h.opJdec(r, []byte(doc), plain, c8DocPF([]byte(doc))); err != nil {
				h.stat("skipnum.err")
			} else {
				h.stat("skipnum.ok")
			}
			h.end(true)
		}
	}
}

func TestVerifC08OwnRace(t *testing.T) {
	out := vOpen(t)
	defer out.Close()
	out.Linef("model c08-codec 1")
	h := &c8Run{out: out, roots: c8BuildRoots()}
	h.ownBlock(-1, c8OwnBase+100_000, 0, 2, 8, 40)
}

func TestVerifC08Codec(t *testing.T) {
	out := vOpen(t)
	defer out.Close()
	out.Linef("model c08-codec 1")
	h := &c8Run{out: out, roots: c8BuildRoots()}
	n := vN(1500)
	replay := -1
	if s := os.Getenv("VERIF_REPLAY_CASE"); s != "" {
		if v, err := strconv.Atoi(s); err == nil {
			replay = v
		}
	}
	for _, c := range vCases(n) {
		switch {
		case c >= c8RespBase:
		case c < 8:
			h.corpus(c)
		default:
			h.generated(c)
		}
	}
	// export-response wrappers: every combination of the partial-success fields, all four signals, canonical document and
	// every spelling variant (a reader fast path that skips error_message when rejected == 0, or reads the count through a
	// float, shows here). Case indices from c8RespBase; always run (also in quick).
	if replay < 0 || (replay >= c8RespBase && replay < c8BadBase) {
		idx := c8RespBase
		for _, sig := range c8Signals {
			r := h.roots[sig+"resp"]
			for _, rej := range []int64{0, 1, -1, 1<<53 + 1, math.MaxInt64, math.MinInt64} {
				for _, msg := range []string{"", "partial: 3 rejected"} {
					for _, kind := range []string{"canon", "snake", "i64num", "i64str", "mixed"} {
						c := idx
						idx++
						if replay >= 0 && replay != c {
							continue
						}
						pv := reflect.New(r.m.t)
						ps := pv.Elem().Field(0)
						for k := 0; k < ps.NumField(); k++ {
							switch ps.Field(k).Kind() {
							case reflect.Int64:
								ps.Field(k).SetInt(rej)
							case reflect.String:
								ps.Field(k).SetString(msg)
							}
						}
						h.begin(c, "response", r.name)
						if kind == "canon" {
							h.runValue(r, pv.Interface())
						} else {
							h.runVariant(r, pv.Interface(), kind, vRand(c))
						}
						h.stat("response." + kind)
						h.end(rej != 0 || msg != "")
					}
				}
			}
		}
	}
	// type-directed malformed JSON: for every field kind with a fixed-length or constrained text encoding, documents in which
	// exactly one such site is malformed (over-long / short / odd / non-hex / upper-case / empty ids, base64 without padding,
	// unknown enum names, out-of-range 64/32-bit integers, numbers where strings are expected and vice versa), all four signals
	// and the request wrappers. The unmarshaler must answer (error or value) — never panic or hang; the model predicts the answer.
	// Case indices from c8BadBase; always run (also in quick).
	if replay < 0 || (replay >= c8BadBase && replay < c8IDBase) {
		h.badBlock(replay, c8BadBase, c8BadClasses, "badjson")
	}
	// integer spellings beyond the canonical text (`+7`, `007`, `-0`, numbers whose overflow jsoniter does not notice, underscore, hex
	// prefix, exponent, …) at one 64-/32-bit integer site of a conforming document: both branches of json.ReadInt64/… against the
	// model's `parseNum` (jsoniter digit loop) / `parseInt` (strconv). Case indices from c8IntBase; always run.
	if replay < 0 || (replay >= c8IntBase && replay < c8SizeBase) {
		h.badBlock(replay, c8IntBase, c8IntSpellClasses, "intspell")
	}
	// length boundaries (128 / 16384: 2- and 3-byte length prefixes) of strings, bytes, packed lists and repeated messages, in a
	// message of every protogen package reachable from each root (each package has its own encodeVarint<X>/sov<X> copy); full
	// proto + JSON round trip, size, model differential. Case indices from c8SizeBase; always run (thorough: more lengths).
	if replay < 0 || (replay >= c8SizeBase && replay < c8TxtBase) {
		idx := c8SizeBase
		for _, name := range []string{"logs", "metrics", "traces", "profiles", "logsreq", "metricsreq", "tracesreq", "profilesreq",
			"logsresp", "metricsresp", "tracesresp", "profilesresp"} {
			r := h.roots[name]
			c8SizeCases(r.m, vThorough(), func(key string, x any) {
				c := idx
				idx++
				if replay >= 0 && replay != c {
					return
				}
				h.begin(c, "value", r.name)
				h.stat("sizeboundary")
				h.stat("sizeboundary." + key[:strings.IndexByte(key, '.')])
				h.runValue(r, x)
				h.end(true)
			})
		}
	}
	// boundary shapes of the fixed-size ids (values with a zero test): every id of the payload one-hot at each byte position,
	// high half zero (64-bit ids left-padded), low half zero — all signals and request wrappers, proto and JSON round trip.
	if replay < 0 || (replay >= c8IDBase && replay < c8OwnBase) {
		idx := c8IDBase
		shapes := []string{"hi0", "lo0"}
		for p := 0; p < 16; p++ {
			shapes = append(shapes, "hot"+strconv.Itoa(p))
		}
		for _, rootName := range []string{"logs", "metrics", "traces", "profiles", "logsreq", "metricsreq", "tracesreq", "profilesreq"} {
			r := h.roots[rootName]
			for _, shape := range shapes {
				c := idx
				idx++
				if replay >= 0 && replay != c {
					continue
				}
				rnd := vRand(c)
				var x any
				n := 0
				for try := 0; try < 16 && n == 0; try++ {
					g := c8NewGen(rnd, false)
					g.pDefault = 0.05
					g.budget += 30
					x = g.root(r.m)
					n = c8SetIDs(reflect.ValueOf(x), shape)
				}
				h.begin(c, "value", r.name)
				h.stat("idshape." + shape)
				h.stats["idshape.ids"] += n
				h.runValue(r, x)
				h.end(n > 0)
			}
		}
	}
	// ownership of the marshalers' output: the bytes returned for A must not change when B, C, … are marshalled later
	// (sequentially, and by other goroutines) — every marshaler, proto and JSON, all roots.
	if replay < 0 || (replay >= c8OwnBase && replay < c8APIBase) {
		h.ownBlock(replay, c8OwnBase, 2, 1, 8, 10)
	}
	// payloads built through the PUBLIC pdata API by random programs (Set*/Put*/SetEmpty*/AppendEmpty/FromRaw only): the driver
	// checks `prop apibuilt` (ApiBuilt ∧ jcov) on every canonical one — ties the model of the API surface to the real setters.
	if replay < 0 || (replay >= c8APIBase && replay < c8DeepBase) {
		h.apiBlock(replay, 40)
	}
	// totality under DEEP nesting (10^3 … 10^5 levels): nested ArrayValue / KvlistValue, nested unknown groups, nested unknown JSON —
	// the Go-side recursion of the generated Unmarshal and of jsoniter's Skip, under recover + timeout. The model is not consulted
	// (`op fuzz`): its theorems are unbounded, the driver's native recursion is not.
	if replay < 0 || (replay >= c8DeepBase && replay < c8IntBase) {
		h.deepBlock(replay)
	}
	// ids and base64 bytes exactly as the readers take them (hex either case / quoted / zero written out / odd, long, non-hex; base64 with
	// CR LF anywhere, url-safe alphabet, missing / misplaced padding, trailing bits): the model's idUnmarshalJSON / b64Read (theorems
	// C08_hexid_roundtrip, C08_base64_roundtrip) predict value vs error exactly. Case indices from c8TxtBase; always run.
	if replay < 0 || (replay >= c8TxtBase && replay < c8SkipBase) {
		h.badBlock(replay, c8TxtBase, c8TxtLeafClasses, "txtleaf")
	}
	// number literals inside UNKNOWN members: jsoniter's strict Skip scans digits and one dot itself and hands every other literal
	// (exponent forms) to ReadFloat64, so an unknown member holding `1e400` fails the whole document while `12345678901234567890123`
	// or `1e-400` do not — the model's `skipOk` (theorems C08_json_unknown_member, C08_json_skip_plain_number) predicts value vs
	// error exactly, at the top level, inside an unknown array / object, and inside a known sub-message, for every root.
	// Case indices from c8SkipBase; always run.
	if replay < 0 || (replay >= c8SkipBase && replay < c8ExhBase) {
		h.skipBlock(replay)
	}
	if (vThorough() && replay < 0) || replay >= c8ExhBase {
		idx := c8ExhBase
		for _, name := range []string{"logs", "metrics", "traces", "profiles", "logsresp", "metricsresp", "tracesresp", "profilesresp"} {
			r := h.roots[name]
			c8Exhaustive(r.m, func(ec c8ExhCase) {
				c := idx
				idx++
				if replay >= 0 && replay != c {
					return
				}
				h.begin(c, "exhaustive", r.name)
				h.runValue(r, ec.x)
				h.stat("field." + ec.key)
				h.end(true)
			})
		}
	}
	if h.selfBad > 0 {
		t.Errorf("c08 harness self-check: own canonical JSON writer differs from the real marshaler in %d documents; first: %s", h.selfBad, h.selfFirst)
	}
	// summary for humans (go test -v): how many distinct field keys exist
	t.Logf("c08: %d messages, %d field/alternative keys in the schema", len(c8Msgs), len(c8AllFieldKeys()))
}
