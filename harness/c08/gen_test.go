//go:build verif

// C08 harness, generic machinery (no code under test is called from this file):
//  1. reflection schema over the gogo-generated protogen structs (SPEC §0), canonical Val printer (SPEC §2) and the
//     parallel walk that names the first differing field for the direct oracles (SPEC §4);
//  2. type-directed random generator (SPEC §5) and the exhaustive small-scope enumeration of the thorough tier;
//  3. own reflection-based JSON writer (text for the real unmarshaler + canonical J token for the model), J of a document
//     produced by the real marshaler, float tables ft / pf;
//  4. protobuf wire-level mutations and JSON-ish fuzz inputs.
package pprofileotlp

import (
	"bytes"
	"encoding/base64"
	"encoding/hex"
	"encoding/json"
	"fmt"
	"io"
	"math"
	"math/rand/v2"
	"reflect"
	"sort"
	"strconv"
	"strings"
	"unicode/utf8"

	otlplogs "go.opentelemetry.io/collector/pdata/internal/data/protogen/logs/v1"
	otlpmetrics "go.opentelemetry.io/collector/pdata/internal/data/protogen/metrics/v1"
	otlpprofiles "go.opentelemetry.io/collector/pdata/internal/data/protogen/profiles/v1development"
	otlptrace "go.opentelemetry.io/collector/pdata/internal/data/protogen/trace/v1"
)

// =============================================================================================
// 1. schema, Val printer, diff walk
// =============================================================================================

type c8Kind int

const (
	c8U64 c8Kind = iota
	c8I64
	c8U32
	c8I32
	c8Bool
	c8Enum
	c8S32
	c8Fixed64
	c8Sfixed64
	c8Double
	c8Fixed32
	c8String
	c8Bytes
	c8ID
	c8Msg
)

type c8Card int

const (
	c8Opt c8Card = iota
	c8Req
	c8Rep
	c8Packed
)

type c8Field struct {
	owner   *c8MsgInfo
	num     int
	goName  string
	json    string
	orig    string
	kind    c8Kind
	card    c8Card
	idx     int          // struct field index (plain field) or 0 inside the wrapper (alternative)
	msg     *c8MsgInfo   // kind == c8Msg
	ptr     bool         // msg element/pointee stored through a pointer
	enum    *c8EnumInfo  // kind == c8Enum
	idLen   int          // kind == c8ID
	wrapper reflect.Type // alternative: the wrapper struct type (non pointer)
	oneof   bool
}

type c8EnumInfo struct {
	name   string
	byName map[string]int32
	names  []string // sorted
	vals   []int32  // sorted distinct
}

type c8Slot struct {
	oneof   bool
	f       *c8Field // plain
	goName  string   // one-of: Go name of the interface field
	idx     int      // one-of: struct field index
	alts    []*c8Field
	sortNum int
	goOrder int
}

type c8MsgInfo struct {
	name   string // <pkgdir>.<GoType>
	goType string
	t      reflect.Type
	slots  []*c8Slot // marshal order
	gorder []*c8Slot // Go struct field order (= jsonpb member order)
}

var (
	c8Msgs     = map[reflect.Type]*c8MsgInfo{}
	c8MsgNames = map[string]*c8MsgInfo{}
	c8EnumTab  = map[reflect.Type]map[string]int32{
		reflect.TypeOf(otlplogs.SeverityNumber(0)):             otlplogs.SeverityNumber_value,
		reflect.TypeOf(otlpmetrics.AggregationTemporality(0)):  otlpmetrics.AggregationTemporality_value,
		reflect.TypeOf(otlptrace.Span_SpanKind(0)):             otlptrace.Span_SpanKind_value,
		reflect.TypeOf(otlptrace.Status_StatusCode(0)):         otlptrace.Status_StatusCode_value,
		reflect.TypeOf(otlpprofiles.AggregationTemporality(0)): otlpprofiles.AggregationTemporality_value,
	}
	c8Enums = map[reflect.Type]*c8EnumInfo{}
)

func c8PkgDir(t reflect.Type) string {
	p := t.PkgPath()
	i := strings.Index(p, "/protogen/")
	if i < 0 {
		panic("c08: type outside protogen: " + t.String())
	}
	parts := strings.Split(p[i+len("/protogen/"):], "/")
	if parts[0] == "collector" {
		return "collector" + parts[1]
	}
	return parts[0]
}

func c8EnumOf(t reflect.Type) *c8EnumInfo {
	if e, ok := c8Enums[t]; ok {
		return e
	}
	m, ok := c8EnumTab[t]
	if !ok {
		panic("c08: enum type without value table: " + t.String())
	}
	e := &c8EnumInfo{name: c8PkgDir(t) + "." + t.Name(), byName: m}
	seen := map[int32]bool{}
	for n, v := range m {
		e.names = append(e.names, n)
		if !seen[v] {
			seen[v] = true
			e.vals = append(e.vals, v)
		}
	}
	sort.Strings(e.names)
	sort.Slice(e.vals, func(i, j int) bool { return e.vals[i] < e.vals[j] })
	c8Enums[t] = e
	return e
}

// c8ParseTag fills f from a `protobuf:"…"` tag and the Go type of the field.
func c8ParseTag(f *c8Field, tag string, gt reflect.Type) {
	parts := strings.Split(tag, ",")
	wire := parts[0]
	n, err := strconv.Atoi(parts[1])
	if err != nil {
		panic("c08: bad tag " + tag)
	}
	f.num = n
	rep, packed, enum, custom := false, false, false, ""
	for _, p := range parts[2:] {
		switch {
		case p == "rep":
			rep = true
		case p == "packed":
			packed = true
		case p == "oneof":
			f.oneof = true
		case strings.HasPrefix(p, "name="):
			f.orig = p[5:]
		case strings.HasPrefix(p, "json="):
			f.json = p[5:]
		case strings.HasPrefix(p, "enum="):
			enum = true
		case strings.HasPrefix(p, "customtype="):
			custom = p[len("customtype="):]
		}
	}
	if f.json == "" {
		f.json = f.orig
	}
	et := gt
	if rep {
		if gt.Kind() != reflect.Slice {
			panic("c08: rep field that is not a slice: " + tag)
		}
		et = gt.Elem()
	}
	bad := func() { panic(fmt.Sprintf("c08: unexpected shape wire=%s go=%s tag=%s", wire, gt, tag)) }
	switch wire {
	case "varint":
		switch {
		case enum:
			f.kind, f.enum = c8Enum, c8EnumOf(et)
		case et.Kind() == reflect.Uint64:
			f.kind = c8U64
		case et.Kind() == reflect.Int64:
			f.kind = c8I64
		case et.Kind() == reflect.Uint32:
			f.kind = c8U32
		case et.Kind() == reflect.Int32:
			f.kind = c8I32
		case et.Kind() == reflect.Bool:
			f.kind = c8Bool
		default:
			bad()
		}
	case "zigzag32":
		if et.Kind() != reflect.Int32 {
			bad()
		}
		f.kind = c8S32
	case "fixed64":
		switch et.Kind() {
		case reflect.Uint64:
			f.kind = c8Fixed64
		case reflect.Int64:
			f.kind = c8Sfixed64
		case reflect.Float64:
			f.kind = c8Double
		default:
			bad()
		}
	case "fixed32":
		if et.Kind() != reflect.Uint32 {
			bad()
		}
		f.kind = c8Fixed32
	case "bytes":
		switch {
		case custom != "":
			if et.Kind() != reflect.Array || et.Elem().Kind() != reflect.Uint8 {
				bad()
			}
			f.kind, f.idLen = c8ID, et.Len()
		case et.Kind() == reflect.String:
			f.kind = c8String
		case et.Kind() == reflect.Slice && et.Elem().Kind() == reflect.Uint8:
			f.kind = c8Bytes
		case et.Kind() == reflect.Struct:
			f.kind, f.msg = c8Msg, c8MsgOf(et)
		case et.Kind() == reflect.Ptr && et.Elem().Kind() == reflect.Struct:
			f.kind, f.msg, f.ptr = c8Msg, c8MsgOf(et.Elem()), true
		default:
			bad()
		}
	default:
		bad()
	}
	switch {
	case rep && packed:
		f.card = c8Packed
	case rep:
		f.card = c8Rep
	case f.kind == c8ID || (f.kind == c8Msg && !f.ptr):
		f.card = c8Req
	case f.kind == c8Msg && f.ptr && !f.oneof:
		bad()
	default:
		f.card = c8Opt
	}
}

// c8MsgOf builds (memoised) the schema of the message struct type t.
func c8MsgOf(t reflect.Type) *c8MsgInfo {
	if m, ok := c8Msgs[t]; ok {
		return m
	}
	m := &c8MsgInfo{name: c8PkgDir(t) + "." + t.Name(), goType: t.Name(), t: t}
	c8Msgs[t] = m
	c8MsgNames[m.name] = m
	var wrappers []reflect.Type // pointer types
	if w, ok := reflect.New(t).Interface().(interface{ XXX_OneofWrappers() []interface{} }); ok {
		for _, x := range w.XXX_OneofWrappers() {
			wrappers = append(wrappers, reflect.TypeOf(x))
		}
	}
	for i := 0; i < t.NumField(); i++ {
		sf := t.Field(i)
		if tag := sf.Tag.Get("protobuf"); tag != "" {
			f := &c8Field{owner: m, goName: sf.Name, idx: i}
			c8ParseTag(f, tag, sf.Type)
			s := &c8Slot{f: f, sortNum: f.num, goOrder: i}
			m.gorder = append(m.gorder, s)
		} else if sf.Tag.Get("protobuf_oneof") != "" {
			if sf.Type.Kind() != reflect.Interface {
				panic("c08: one-of field that is not an interface: " + m.name + "." + sf.Name)
			}
			s := &c8Slot{oneof: true, goName: sf.Name, idx: i, goOrder: i}
			for _, w := range wrappers {
				if !w.Implements(sf.Type) {
					continue
				}
				wt := w.Elem()
				if wt.NumField() != 1 {
					panic("c08: wrapper with != 1 field: " + wt.String())
				}
				wf := wt.Field(0)
				f := &c8Field{owner: m, goName: wf.Name, idx: 0, wrapper: wt}
				c8ParseTag(f, wf.Tag.Get("protobuf"), wf.Type)
				if !f.oneof {
					panic("c08: wrapper field without oneof tag: " + wt.String())
				}
				s.alts = append(s.alts, f)
				if f.num > s.sortNum {
					s.sortNum = f.num
				}
			}
			if len(s.alts) == 0 {
				panic("c08: one-of without alternatives: " + m.name + "." + sf.Name)
			}
			sort.Slice(s.alts, func(a, b int) bool { return s.alts[a].num < s.alts[b].num })
			m.gorder = append(m.gorder, s)
		}
	}
	if len(m.gorder) == 0 {
		panic("c08: struct without protobuf fields: " + t.String())
	}
	m.slots = append([]*c8Slot(nil), m.gorder...)
	sort.SliceStable(m.slots, func(a, b int) bool { return m.slots[a].sortNum < m.slots[b].sortNum })
	return m
}

// c8AllFieldKeys lists every `<GoMsg>.<GoField>` (fields and alternatives) reachable from the registered messages.
func c8AllFieldKeys() []string {
	var out []string
	for _, m := range c8Msgs {
		for _, s := range m.slots {
			if s.oneof {
				for _, a := range s.alts {
					out = append(out, m.goType+"."+a.goName)
				}
			} else {
				out = append(out, m.goType+"."+s.f.goName)
			}
		}
	}
	sort.Strings(out)
	return out
}

// ---------------------------------------------------------------------------------------------
// Val printer

const c8CanonNaN = uint64(0x7FF8000000000001)

type c8ValOpt struct {
	normNaN       bool // every NaN in a double field → canonical NaN
	nilBytesEmpty bool // a one-of holding a nil []byte counts as holding an empty one (JSON comparisons)
}

func c8ScalarVal(sb *strings.Builder, f *c8Field, v reflect.Value, plain bool, o c8ValOpt) {
	switch f.kind {
	case c8U64, c8Fixed64, c8U32, c8Fixed32:
		sb.WriteByte('n')
		sb.WriteString(strconv.FormatUint(v.Uint(), 10))
	case c8I64, c8Sfixed64:
		sb.WriteByte('n')
		sb.WriteString(strconv.FormatUint(uint64(v.Int()), 10))
	case c8I32, c8Enum, c8S32:
		sb.WriteByte('n')
		sb.WriteString(strconv.FormatUint(uint64(uint32(int32(v.Int()))), 10))
	case c8Bool:
		if v.Bool() {
			sb.WriteString("n1")
		} else {
			sb.WriteString("n0")
		}
	case c8Double:
		b := math.Float64bits(v.Float())
		if plain && b == 1<<63 {
			b = 0 // -0.0 in a plain double field is not written by the generated marshaler (SPEC §5 c=4)
		}
		if o.normNaN && v.Float() != v.Float() {
			b = c8CanonNaN
		}
		sb.WriteByte('n')
		sb.WriteString(strconv.FormatUint(b, 10))
	case c8String:
		sb.WriteByte('b')
		sb.WriteString(hex.EncodeToString([]byte(v.String())))
	case c8Bytes:
		sb.WriteByte('b')
		sb.WriteString(hex.EncodeToString(v.Bytes()))
	case c8ID:
		sb.WriteByte('b')
		zero := true
		bs := make([]byte, v.Len())
		for i := range bs {
			bs[i] = byte(v.Index(i).Uint())
			if bs[i] != 0 {
				zero = false
			}
		}
		if !zero {
			sb.WriteString(hex.EncodeToString(bs))
		}
	case c8Msg:
		if v.Kind() == reflect.Ptr {
			v = v.Elem()
		}
		c8MsgVal(sb, f.msg, v, o)
	}
}

func c8FieldVal(sb *strings.Builder, f *c8Field, v reflect.Value, o c8ValOpt) {
	switch f.card {
	case c8Rep, c8Packed:
		sb.WriteByte('[')
		for i := 0; i < v.Len(); i++ {
			if i > 0 {
				sb.WriteByte(',')
			}
			e := v.Index(i)
			if f.kind == c8Msg && f.ptr && e.IsNil() {
				sb.WriteString("[]") // never generated; keeps the printer total
				continue
			}
			c8ScalarVal(sb, f, e, false, o)
		}
		sb.WriteByte(']')
	default:
		c8ScalarVal(sb, f, v, true, o)
	}
}

// c8OneofGet returns the set alternative and its payload value (invalid Value when the interface is nil).
func c8OneofGet(s *c8Slot, iv reflect.Value) (*c8Field, reflect.Value) {
	if iv.IsNil() {
		return nil, reflect.Value{}
	}
	p := iv.Elem() // *Wrapper
	if p.Kind() != reflect.Ptr || p.IsNil() {
		return nil, reflect.Value{}
	}
	wt := p.Type().Elem()
	for _, a := range s.alts {
		if a.wrapper == wt {
			return a, p.Elem().Field(0)
		}
	}
	panic("c08: unknown one-of wrapper " + wt.String())
}

func c8MsgVal(sb *strings.Builder, m *c8MsgInfo, v reflect.Value, o c8ValOpt) {
	sb.WriteByte('[')
	for i, s := range m.slots {
		if i > 0 {
			sb.WriteByte(',')
		}
		if !s.oneof {
			c8FieldVal(sb, s.f, v.Field(s.f.idx), o)
			continue
		}
		a, pv := c8OneofGet(s, v.Field(s.idx))
		if a == nil {
			sb.WriteString("[]")
			continue
		}
		sb.WriteString("[n")
		sb.WriteString(strconv.Itoa(a.num))
		absent := (a.kind == c8Msg && pv.IsNil()) || (a.kind == c8Bytes && pv.IsNil() && !o.nilBytesEmpty)
		if !absent {
			sb.WriteByte(',')
			c8ScalarVal(sb, a, pv, false, o)
		}
		sb.WriteByte(']')
	}
	sb.WriteByte(']')
}

// c8ToVal prints the canonical Val of the message pointed to by x (x: pointer to a protogen struct).
func c8ToVal(x any, o c8ValOpt) string {
	v := reflect.ValueOf(x).Elem()
	var sb strings.Builder
	c8MsgVal(&sb, c8MsgOf(v.Type()), v, o)
	return sb.String()
}

// ---------------------------------------------------------------------------------------------
// first difference of two payloads by a parallel walk (no indices); "" when canonically equal.
// nilBytes reports that the difference is a one-of holding nil bytes on side a and an unset one-of on side b.

type c8DiffRes struct {
	path     string
	nilBytes bool
}

func c8Diff(a, b any, o c8ValOpt) c8DiffRes {
	va, vb := reflect.ValueOf(a).Elem(), reflect.ValueOf(b).Elem()
	return c8DiffMsg(c8MsgOf(va.Type()), va, vb, o)
}

func c8ScalarEq(f *c8Field, a, b reflect.Value, plain bool, o c8ValOpt) bool {
	var sa, sb strings.Builder
	c8ScalarVal(&sa, f, a, plain, o)
	c8ScalarVal(&sb, f, b, plain, o)
	return sa.String() == sb.String()
}

func c8DiffScalar(f *c8Field, a, b reflect.Value, plain bool, o c8ValOpt) c8DiffRes {
	if f.kind == c8Msg {
		if a.Kind() == reflect.Ptr {
			if a.IsNil() || b.IsNil() {
				if a.IsNil() != b.IsNil() {
					return c8DiffRes{path: f.owner.goType + "." + f.goName}
				}
				return c8DiffRes{}
			}
			a, b = a.Elem(), b.Elem()
		}
		return c8DiffMsg(f.msg, a, b, o)
	}
	if !c8ScalarEq(f, a, b, plain, o) {
		return c8DiffRes{path: f.owner.goType + "." + f.goName}
	}
	return c8DiffRes{}
}

func c8DiffMsg(m *c8MsgInfo, a, b reflect.Value, o c8ValOpt) c8DiffRes {
	for _, s := range m.slots {
		if !s.oneof {
			f := s.f
			fa, fb := a.Field(f.idx), b.Field(f.idx)
			if f.card == c8Rep || f.card == c8Packed {
				if fa.Len() != fb.Len() {
					return c8DiffRes{path: m.goType + "." + f.goName}
				}
				for i := 0; i < fa.Len(); i++ {
					if d := c8DiffScalar(f, fa.Index(i), fb.Index(i), false, o); d.path != "" {
						return d
					}
				}
				continue
			}
			if d := c8DiffScalar(f, fa, fb, true, o); d.path != "" {
				return d
			}
			continue
		}
		aa, pa := c8OneofGet(s, a.Field(s.idx))
		ab, pb := c8OneofGet(s, b.Field(s.idx))
		if aa != ab {
			d := c8DiffRes{path: m.goType + "." + s.goName}
			if aa != nil && ab == nil && aa.kind == c8Bytes && pa.IsNil() {
				d.nilBytes = true
			}
			return d
		}
		if aa == nil {
			continue
		}
		if aa.kind == c8Bytes && !o.nilBytesEmpty && pa.IsNil() != pb.IsNil() {
			return c8DiffRes{path: m.goType + "." + aa.goName, nilBytes: pa.IsNil()}
		}
		if d := c8DiffScalar(aa, pa, pb, false, o); d.path != "" {
			return d
		}
	}
	return c8DiffRes{}
}

// =============================================================================================
// 2. generator
// =============================================================================================

type c8Gen struct {
	r        *rand.Rand
	raw      bool            // non-api shape: a one-of may hold a nil []byte (what pcommon's SetEmptyBytes stores)
	dep      bool            // Deprecated* fields may be set (only used where no JSON oracle runs)
	set      map[string]bool // <GoMsg>.<GoField> set to a non-default
	budget   int             // remaining message nodes
	anyDepth int
	pDefault float64
}

func c8NewGen(r *rand.Rand, raw bool) *c8Gen {
	return &c8Gen{r: r, raw: raw, set: map[string]bool{}, budget: 14 + r.IntN(30), pDefault: 0.3}
}

var c8IntPool = []uint64{0, 1, 127, 128, 1<<31 - 1, 1 << 31, 1<<32 - 1, 1<<63 - 1, 1 << 63, 1<<64 - 1}

func (g *c8Gen) u64() uint64 {
	k := g.r.IntN(len(c8IntPool) + 4)
	if k < len(c8IntPool) {
		return c8IntPool[k]
	}
	switch k - len(c8IntPool) {
	case 0:
		return g.r.Uint64()
	case 1:
		return uint64(g.r.IntN(1000))
	case 2:
		return uint64(1) << uint(g.r.IntN(64))
	default:
		return uint64(1700000000000000000) + uint64(g.r.IntN(1000000000)) // plausible unix nanos
	}
}

var c8DoublePool = []uint64{
	0, 1 << 63, math.Float64bits(1.5), math.Float64bits(-1.5),
	0x7FF8000000000001, 0x7FF8000000000000, 0xFFF8000000000000, 0x7FF0000000000001, 0x7FFFFFFFFFFFFFFF, // NaNs with payloads
	0x7FF0000000000000, 0xFFF0000000000000, // ±Inf
	1, 0x000FFFFFFFFFFFFF, 0x8000000000000001, // subnormals (SmallestNonzero = bits 1)
	math.Float64bits(math.MaxFloat64), math.Float64bits(-math.MaxFloat64),
	math.Float64bits(0.1), math.Float64bits(1e21), math.Float64bits(1e-7), math.Float64bits(123456789012345678),
	math.Float64bits(1e20), math.Float64bits(1e-6), math.Float64bits(9007199254740993),
}

func (g *c8Gen) f64() float64 {
	k := g.r.IntN(len(c8DoublePool) + 8)
	if k < len(c8DoublePool) {
		return math.Float64frombits(c8DoublePool[k])
	}
	switch (k - len(c8DoublePool)) % 4 {
	case 0:
		return math.Float64frombits(g.r.Uint64())
	case 1:
		return float64(g.r.IntN(2001)-1000) / 8
	case 2:
		// decimal-looking literal with up to 17 significant digits and a decimal point anywhere (jsoniter's fast paths)
		nd := 1 + g.r.IntN(17)
		var sb strings.Builder
		if g.r.IntN(4) == 0 {
			sb.WriteByte('-')
		}
		dot := g.r.IntN(nd + 1)
		for i := 0; i < nd; i++ {
			if i == dot {
				if i == 0 {
					sb.WriteByte('0')
				}
				sb.WriteByte('.')
			}
			d := g.r.IntN(10)
			if i == 0 && d == 0 && dot != 0 {
				d = 1
			}
			sb.WriteByte(byte('0' + d))
		}
		f, err := strconv.ParseFloat(sb.String(), 64)
		if err != nil {
			return 2.5
		}
		return f
	default:
		// random mantissa, exponent near the integer/fraction boundary
		e := uint64(1023 + g.r.IntN(80) - 20)
		return math.Float64frombits(uint64(g.r.IntN(2))<<63 | e<<52 | g.r.Uint64()&(1<<52-1))
	}
}

var c8StrPool = []string{
	"", "a", "evt", "key", "x y", "\"", "\\", "a\"b\\c", "\n", "\t\r", "\x00", "\x01\x1f", "\x7f", "\u00e9", "\u65e5\u672c", "\U0001F600", "<&>", "\u2028", "\u2029",
	"http://schema/1.0", "/", "'", "\ufffd", "null", "0", "\u00ff", "\u0080",
}

func (g *c8Gen) str() string {
	switch g.r.IntN(6) {
	case 0, 1, 2:
		return c8StrPool[g.r.IntN(len(c8StrPool))]
	case 3:
		return c8StrPool[g.r.IntN(len(c8StrPool))] + c8StrPool[g.r.IntN(len(c8StrPool))]
	default:
		n := g.r.IntN(10)
		var sb strings.Builder
		for i := 0; i < n; i++ {
			switch g.r.IntN(8) {
			case 0:
				sb.WriteRune(rune(g.r.IntN(0x20)))
			case 1:
				sb.WriteRune(rune(0x80 + g.r.IntN(0x700)))
			case 2:
				sb.WriteRune(rune(0x800 + g.r.IntN(0xD000-0x800)))
			case 3:
				sb.WriteRune(rune(0x10000 + g.r.IntN(0x10000)))
			default:
				sb.WriteByte(byte(0x20 + g.r.IntN(0x5f)))
			}
		}
		return sb.String()
	}
}

func (g *c8Gen) bytes() []byte {
	var n int
	switch g.r.IntN(5) {
	case 0:
		n = 0
	case 1:
		n = 1
	default:
		n = g.r.IntN(9)
	}
	b := make([]byte, n)
	for i := range b {
		switch g.r.IntN(4) {
		case 0:
			b[i] = 0
		case 1:
			b[i] = 0xff
		default:
			b[i] = byte(g.r.UintN(256))
		}
	}
	return b
}

func (g *c8Gen) enumVal(e *c8EnumInfo) int32 {
	if g.r.IntN(5) != 0 {
		return e.vals[g.r.IntN(len(e.vals))]
	}
	return int32(uint32(g.u64()))
}

// scalar sets v (addressable, of the element type of f) to a random value of f's type.
func (g *c8Gen) scalar(f *c8Field, v reflect.Value) {
	switch f.kind {
	case c8U64, c8Fixed64:
		v.SetUint(g.u64())
	case c8U32, c8Fixed32:
		v.SetUint(uint64(uint32(g.u64())))
	case c8I64, c8Sfixed64:
		v.SetInt(int64(g.u64()))
	case c8I32, c8S32:
		v.SetInt(int64(int32(uint32(g.u64()))))
	case c8Enum:
		v.SetInt(int64(g.enumVal(f.enum)))
	case c8Bool:
		v.SetBool(g.r.IntN(4) != 0)
	case c8Double:
		v.SetFloat(g.f64())
	case c8String:
		v.SetString(g.str())
	case c8Bytes:
		b := g.bytes()
		if len(b) == 0 {
			b = nil
		}
		v.SetBytes(b)
	case c8ID:
		// ids are values with a zero test (IsEmpty decides whether they are written at all): besides all-zero and dense random
		// ids draw the boundary shapes — one half zero (64-bit Zipkin/B3 ids left-padded to 128 bit), a single non-zero byte
		n := v.Len()
		switch g.r.IntN(8) {
		case 0, 1: // all zero
		case 2, 3, 4:
			for i := 0; i < n; i++ {
				v.Index(i).SetUint(uint64(g.r.UintN(256)))
			}
		case 5: // high half zero
			for i := n / 2; i < n; i++ {
				v.Index(i).SetUint(uint64(1 + g.r.UintN(255)))
			}
		case 6: // low half zero
			for i := 0; i < n/2; i++ {
				v.Index(i).SetUint(uint64(1 + g.r.UintN(255)))
			}
		default: // one-hot
			v.Index(g.r.IntN(n)).SetUint(uint64(1 + g.r.UintN(255)))
		}
	case c8Msg:
		if f.ptr {
			p := reflect.New(f.msg.t)
			g.msg(f.msg, p.Elem())
			v.Set(p)
		} else {
			g.msg(f.msg, v)
		}
	}
}

func c8IsZero(f *c8Field, v reflect.Value) bool {
	switch f.kind {
	case c8Double:
		return math.Float64bits(v.Float()) == 0
	case c8Bytes:
		return v.Len() == 0
	case c8Msg:
		return false
	default:
		return v.IsZero()
	}
}

func (g *c8Gen) repLen(f *c8Field) int {
	if f.kind == c8Msg {
		if g.budget <= 0 {
			return 0
		}
		n := 1 + g.r.IntN(3)
		if g.r.IntN(4) == 0 {
			n = 1
		}
		if f.msg.goType == "AnyValue" || f.msg.goType == "KeyValue" {
			if g.r.IntN(60) == 0 {
				n = 20
			}
		}
		return n
	}
	if g.r.IntN(40) == 0 {
		return 20
	}
	return 1 + g.r.IntN(3)
}

// msg fills the (zero) struct v of message m.
func (g *c8Gen) msg(m *c8MsgInfo, v reflect.Value) {
	g.budget--
	isAny := m.goType == "AnyValue"
	if isAny {
		g.anyDepth++
		defer func() { g.anyDepth-- }()
	}
	perm := g.r.Perm(len(m.gorder))
	for _, pi := range perm {
		s := m.gorder[pi]
		if !s.oneof {
			f := s.f
			if strings.HasPrefix(f.goName, "Deprecated") && (!g.dep || g.r.IntN(3) != 0) {
				continue
			}
			fv := v.Field(f.idx)
			key := m.goType + "." + f.goName
			if f.card == c8Req && f.kind == c8Msg {
				// embedded message: always present; default with p by leaving it zero
				if g.r.Float64() < g.pDefault/2 {
					continue
				}
				g.msg(f.msg, fv)
				g.budget++ // embedded messages do not count against the node budget
				if !fv.IsZero() {
					g.set[key] = true
				}
				continue
			}
			if g.r.Float64() < g.pDefault {
				continue
			}
			switch f.card {
			case c8Rep, c8Packed:
				n := g.repLen(f)
				if n == 0 {
					continue
				}
				sl := reflect.MakeSlice(fv.Type(), n, n)
				for i := 0; i < n; i++ {
					if f.kind == c8Msg && i > 0 && g.budget <= 0 {
						sl = sl.Slice(0, i)
						break
					}
					g.scalar(f, sl.Index(i))
				}
				fv.Set(sl)
				g.set[key] = true
			default:
				g.scalar(f, fv)
				if !c8IsZero(f, fv) {
					g.set[key] = true
				}
			}
			continue
		}
		// one-of
		if g.r.Float64() < 0.2 {
			continue
		}
		alts := s.alts
		if isAny && (g.anyDepth >= 6 || g.budget <= 0) {
			alts = nil
			for _, a := range s.alts {
				if a.kind != c8Msg {
					alts = append(alts, a)
				}
			}
		}
		a := alts[g.r.IntN(len(alts))]
		w := reflect.New(a.wrapper)
		pv := w.Elem().Field(0)
		if g.r.IntN(6) != 0 { // else: alternative set to its zero value
			g.scalar(a, pv)
		}
		switch a.kind {
		case c8Msg:
			if pv.IsNil() {
				pv.Set(reflect.New(a.msg.t))
			}
		case c8Bytes:
			if pv.IsNil() && !(g.raw && g.r.IntN(2) == 0) {
				pv.SetBytes([]byte{})
			}
		}
		v.Field(s.idx).Set(w)
		g.set[m.goType+"."+a.goName] = true
	}
}

// c8GenRoot returns a pointer to a freshly generated value of message m.
func (g *c8Gen) root(m *c8MsgInfo) any {
	p := reflect.New(m.t)
	// the root always gets its repeated resource list (otherwise most cases would be empty)
	save := g.pDefault
	g.pDefault = 0.05
	g.msgTop(m, p.Elem())
	g.pDefault = save
	return p.Interface()
}

func (g *c8Gen) msgTop(m *c8MsgInfo, v reflect.Value) {
	// one level with a low default probability, the rest with the normal one
	if len(m.gorder) == 1 && !m.gorder[0].oneof && m.gorder[0].f.card == c8Rep && m.gorder[0].f.kind == c8Msg {
		f := m.gorder[0].f
		if g.r.Float64() < 0.05 {
			return
		}
		n := 1
		if g.r.IntN(4) == 0 {
			n = 2
		}
		sl := reflect.MakeSlice(v.Field(f.idx).Type(), n, n)
		g.pDefault = 0.3
		for i := 0; i < n; i++ {
			g.scalar(f, sl.Index(i))
		}
		v.Field(f.idx).Set(sl)
		g.set[m.goType+"."+f.goName] = true
		return
	}
	g.pDefault = 0.3
	g.msg(m, v)
}

// ---------------------------------------------------------------------------------------------
// exhaustive small scope (thorough): every field / alternative alone at each extreme value

type c8Step struct {
	slot *c8Slot
	alt  *c8Field // nil for a plain slot
}

// c8Paths: for every message reachable from root, the shortest chain of steps leading to it.
func c8Paths(root *c8MsgInfo) map[*c8MsgInfo][]c8Step {
	paths := map[*c8MsgInfo][]c8Step{root: {}}
	queue := []*c8MsgInfo{root}
	for len(queue) > 0 {
		m := queue[0]
		queue = queue[1:]
		visit := func(f *c8Field, st c8Step) {
			if f.kind != c8Msg {
				return
			}
			if _, ok := paths[f.msg]; ok {
				return
			}
			paths[f.msg] = append(append([]c8Step(nil), paths[m]...), st)
			queue = append(queue, f.msg)
		}
		for _, s := range m.slots {
			if s.oneof {
				for _, a := range s.alts {
					visit(a, c8Step{slot: s, alt: a})
				}
			} else if !strings.HasPrefix(s.f.goName, "Deprecated") {
				visit(s.f, c8Step{slot: s})
			}
		}
	}
	return paths
}

// c8Descend creates the minimal chain below v (struct of the path's first owner) and returns the struct at its end.
func c8Descend(v reflect.Value, path []c8Step) reflect.Value {
	for _, st := range path {
		var f *c8Field
		var fv reflect.Value
		if st.alt != nil {
			f = st.alt
			w := reflect.New(f.wrapper)
			v.Field(st.slot.idx).Set(w)
			fv = w.Elem().Field(0)
		} else {
			f = st.slot.f
			fv = v.Field(f.idx)
		}
		switch {
		case f.card == c8Rep:
			sl := reflect.MakeSlice(fv.Type(), 1, 1)
			fv.Set(sl)
			e := sl.Index(0)
			if f.ptr {
				e.Set(reflect.New(f.msg.t))
				e = e.Elem()
			}
			v = e
		case f.ptr:
			fv.Set(reflect.New(f.msg.t))
			v = fv.Elem()
		default:
			v = fv
		}
	}
	return v
}

// c8Extremes returns setters for the extreme values of one element of f.
func c8Extremes(f *c8Field) []func(v reflect.Value) {
	var out []func(v reflect.Value)
	switch f.kind {
	case c8U64, c8Fixed64, c8I64, c8Sfixed64, c8U32, c8Fixed32, c8I32, c8S32:
		seen := map[uint64]bool{}
		for _, x := range c8IntPool {
			x := x
			switch f.kind {
			case c8U32, c8Fixed32, c8I32, c8S32:
				x = uint64(uint32(x))
			}
			if seen[x] {
				continue
			}
			seen[x] = true
			out = append(out, func(v reflect.Value) {
				switch f.kind {
				case c8U64, c8Fixed64, c8U32, c8Fixed32:
					v.SetUint(x)
				case c8I64, c8Sfixed64:
					v.SetInt(int64(x))
				default:
					v.SetInt(int64(int32(uint32(x))))
				}
			})
		}
	case c8Enum:
		vals := append([]int32(nil), f.enum.vals...)
		vals = append(vals, 99, -1, math.MaxInt32, math.MinInt32)
		for _, x := range vals {
			x := x
			out = append(out, func(v reflect.Value) { v.SetInt(int64(x)) })
		}
	case c8Bool:
		out = append(out, func(v reflect.Value) { v.SetBool(false) }, func(v reflect.Value) { v.SetBool(true) })
	case c8Double:
		for _, b := range c8DoublePool {
			b := b
			out = append(out, func(v reflect.Value) { v.SetFloat(math.Float64frombits(b)) })
		}
	case c8String:
		for _, s := range c8StrPool {
			s := s
			out = append(out, func(v reflect.Value) { v.SetString(s) })
		}
	case c8Bytes:
		for _, b := range [][]byte{{}, {0}, {1, 2, 3, 255}, {0xff, 0xfe, 0xfd}} {
			b := b
			out = append(out, func(v reflect.Value) { v.SetBytes(append([]byte{}, b...)) })
		}
	case c8ID:
		for k := 0; k < 3; k++ {
			k := k
			out = append(out, func(v reflect.Value) {
				for i := 0; i < v.Len(); i++ {
					switch k {
					case 1:
						v.Index(i).SetUint(uint64(i + 1))
					case 2:
						if i == v.Len()-1 {
							v.Index(i).SetUint(1)
						}
					}
				}
			})
		}
	case c8Msg:
		out = append(out, func(v reflect.Value) {
			if v.Kind() == reflect.Ptr {
				v.Set(reflect.New(v.Type().Elem()))
			}
		})
	}
	return out
}

type c8ExhCase struct {
	key string
	x   any
}

// c8Exhaustive enumerates the small-scope payloads of root: calls yield for each.
func c8Exhaustive(root *c8MsgInfo, yield func(c8ExhCase)) {
	paths := c8Paths(root)
	var msgs []*c8MsgInfo
	for m := range paths {
		msgs = append(msgs, m)
	}
	// deterministic order
	for i := 0; i < len(msgs); i++ {
		for j := i + 1; j < len(msgs); j++ {
			if msgs[j].name < msgs[i].name {
				msgs[i], msgs[j] = msgs[j], msgs[i]
			}
		}
	}
	for _, m := range msgs {
		for _, s := range m.slots {
			fields := []*c8Field{s.f}
			if s.oneof {
				fields = s.alts
			}
			for _, f := range fields {
				if strings.HasPrefix(f.goName, "Deprecated") {
					continue
				}
				for _, set := range c8Extremes(f) {
					for rep := 1; rep <= 2; rep++ {
						if rep == 2 && f.card != c8Rep && f.card != c8Packed {
							continue
						}
						p := reflect.New(root.t)
						v := c8Descend(p.Elem(), paths[m])
						var fv reflect.Value
						if s.oneof {
							w := reflect.New(f.wrapper)
							v.Field(s.idx).Set(w)
							fv = w.Elem().Field(0)
						} else {
							fv = v.Field(f.idx)
						}
						if f.card == c8Rep || f.card == c8Packed {
							sl := reflect.MakeSlice(fv.Type(), rep, rep)
							for i := 0; i < rep; i++ {
								set(sl.Index(i))
							}
							fv.Set(sl)
						} else {
							set(fv)
							if f.kind == c8Bytes && !s.oneof && fv.Len() == 0 {
								fv.SetBytes(nil)
							}
						}
						yield(c8ExhCase{key: m.goType + "." + f.goName, x: p.Interface()})
					}
				}
			}
		}
	}
}

// c8SizeCases: LENGTH BOUNDARIES of the length-delimited encodings (round 2). Every *.pb.go has its own copy of
// encodeVarint<X> / sov<X>; a payload whose strings / bytes / packed lists / repeated messages are ≥ 128 (2-byte length) and
// ≥ 16384 (3-byte length) long exercises the copy of the field's own package and, through the enclosing lengths, the copies of
// every ancestor package. Per package reachable from root: the first message (by name) that has a field of the class
// (string, bytes, packed scalar list, repeated message), set through the minimal chain (c8Descend).
func c8SizeCases(root *c8MsgInfo, thorough bool, yield func(key string, x any)) {
	paths := c8Paths(root)
	var msgs []*c8MsgInfo
	for m := range paths {
		msgs = append(msgs, m)
	}
	sort.Slice(msgs, func(i, j int) bool { return msgs[i].name < msgs[j].name })
	type class struct {
		name string
		ok   func(f *c8Field) bool
		lens []int
	}
	strLens, otherLens := []int{128, 16384}, []int{130}
	if thorough {
		strLens, otherLens = []int{127, 128, 16383, 16384, 70000}, []int{127, 128, 2100}
	}
	classes := []class{
		{"string", func(f *c8Field) bool { return f.kind == c8String && f.card != c8Rep }, strLens},
		{"bytes", func(f *c8Field) bool { return f.kind == c8Bytes && f.card != c8Rep }, otherLens},
		{"packed", func(f *c8Field) bool { return f.card == c8Packed }, otherLens},
		{"repmsg", func(f *c8Field) bool { return f.kind == c8Msg && f.card == c8Rep }, otherLens},
	}
	for _, cl := range classes {
		donePkg := map[string]bool{}
		for _, m := range msgs {
			pkg := c8PkgDir(m.t)
			if donePkg[pkg] {
				continue
			}
			var s *c8Slot
			var f *c8Field
			for _, sl := range m.slots {
				fields := []*c8Field{sl.f}
				if sl.oneof {
					fields = sl.alts
				}
				for _, cand := range fields {
					if f == nil && !strings.HasPrefix(cand.goName, "Deprecated") && cl.ok(cand) {
						s, f = sl, cand
					}
				}
			}
			if f == nil {
				continue
			}
			donePkg[pkg] = true
			for _, L := range cl.lens {
				p := reflect.New(root.t)
				v := c8Descend(p.Elem(), paths[m])
				var fv reflect.Value
				if s.oneof {
					w := reflect.New(f.wrapper)
					v.Field(s.idx).Set(w)
					fv = w.Elem().Field(0)
				} else {
					fv = v.Field(f.idx)
				}
				switch cl.name {
				case "string":
					fv.SetString(strings.Repeat("x", L-1) + "y")
				case "bytes":
					b := make([]byte, L)
					for i := range b {
						b[i] = byte(i*7 + 1)
					}
					fv.SetBytes(b)
				case "packed":
					sl := reflect.MakeSlice(fv.Type(), L, L)
					for i := 0; i < L; i++ {
						e := sl.Index(i)
						switch e.Kind() {
						case reflect.Float64:
							e.SetFloat(float64(i%7) + 0.5)
						case reflect.Int32, reflect.Int64:
							e.SetInt(int64(i%300) - 3)
						default:
							e.SetUint(uint64(i % 300))
						}
					}
					fv.Set(sl)
				case "repmsg":
					sl := reflect.MakeSlice(fv.Type(), L, L)
					if f.ptr {
						for i := 0; i < L; i++ {
							sl.Index(i).Set(reflect.New(f.msg.t))
						}
					}
					fv.Set(sl)
				}
				yield(fmt.Sprintf("%s.%s.%s.%d", cl.name, pkg, m.goType+"."+f.goName, L), p.Interface())
			}
		}
	}
}

// =============================================================================================
// 3. JSON writer, J, float tables
// =============================================================================================

// c8MixedExtras: in `mixed` documents also spell 32-bit integers and doubles as JSON strings, write numbers in
// alternative float formats, emit some default-valued members explicitly and use alternative string escapes.
const c8MixedExtras = true

type c8JW struct {
	kind   string // canon | snake | i64num | i64str | enumname | enumnum | mixed
	r      *rand.Rand
	pf     map[string]uint64
	hasDup bool
	dups   int // remaining member duplications allowed in this document
	// type-directed malformed documents: corrupt exactly the badAt-th site (document order) that class `bad` applies to
	bad     string
	badAt   int // -1: only count the sites
	badSeen int
	badHit  string // <Msg>.<GoField> of the corrupted site
}

func (w *c8JW) coin(n int) bool { return w.kind == "mixed" && w.r.IntN(n) == 0 }

func c8HexS(s string) string { return hex.EncodeToString([]byte(s)) }

func c8JStr(s string) string { return "S" + c8HexS(s) + ";" }

func (w *c8JW) strText(s string) string {
	if c8MixedExtras && w.coin(3) {
		var sb strings.Builder
		sb.WriteByte('"')
		for _, r := range s {
			switch {
			case r == '"':
				sb.WriteString(`\"`)
			case r == '\\':
				sb.WriteString(`\\`)
			case r == '/':
				sb.WriteString(`\/`)
			case r == '\n':
				sb.WriteString(`\n`)
			case r == '\t':
				sb.WriteString(`\t`)
			case r == '\r':
				sb.WriteString(`\r`)
			case r == '\b':
				sb.WriteString(`\b`)
			case r == '\f':
				sb.WriteString(`\f`)
			case r < 0x20 || (r >= 0x7f && w.r.IntN(2) == 0 && r < 0x10000):
				fmt.Fprintf(&sb, `\u%04x`, r)
			case r >= 0x10000 && w.r.IntN(2) == 0:
				r -= 0x10000
				fmt.Fprintf(&sb, `\u%04x\u%04x`, 0xd800+(r>>10), 0xdc00+(r&0x3ff))
			default:
				sb.WriteRune(r)
			}
		}
		sb.WriteByte('"')
		return sb.String()
	}
	b, _ := json.Marshal(s)
	return string(b)
}

func (w *c8JW) str(s string) (string, string) { return w.strText(s), c8JStr(s) }

func c8Num(t string) (string, string) { return t, "N" + t + ";" }

func (w *c8JW) notePF(text string) {
	f, err := strconv.ParseFloat(text, 64)
	if err != nil {
		// out-of-range texts still return ±Inf; a syntax error cannot happen for our own texts
		if ne, ok := err.(*strconv.NumError); !ok || ne.Err != strconv.ErrRange {
			return
		}
	}
	w.pf[text] = math.Float64bits(f)
}

func c8FloatText(f float64) string {
	switch {
	case math.IsNaN(f):
		return "NaN"
	case math.IsInf(f, 1):
		return "Infinity"
	case math.IsInf(f, -1):
		return "-Infinity"
	}
	b, _ := json.Marshal(f)
	return string(b)
}

func (w *c8JW) double(f float64) (string, string) {
	if math.IsNaN(f) || math.IsInf(f, 0) {
		t := c8FloatText(f)
		w.notePF(t)
		return w.str(t)
	}
	t := c8FloatText(f)
	if c8MixedExtras && w.coin(5) {
		switch w.r.IntN(3) {
		case 0:
			t = strconv.FormatFloat(f, 'e', -1, 64)
		case 1:
			if a := math.Abs(f); a == 0 || (a > 1e-12 && a < 1e25) {
				t = strconv.FormatFloat(f, 'f', -1, 64)
			}
		default:
			t = strings.Replace(strconv.FormatFloat(f, 'e', 17, 64), "e", "E", 1)
		}
	}
	w.notePF(t)
	if c8MixedExtras && w.coin(6) {
		return w.str(t)
	}
	return c8Num(t)
}

// scalar returns (text, J) of one element of f.
func (w *c8JW) scalar(f *c8Field, v reflect.Value) (string, string) {
	if w.bad != "" {
		if t, j, ok := w.badScalar(f, v); ok {
			return t, j
		}
	}
	switch f.kind {
	case c8U64, c8Fixed64, c8I64, c8Sfixed64:
		var t string
		if f.kind == c8U64 || f.kind == c8Fixed64 {
			t = strconv.FormatUint(v.Uint(), 10)
		} else {
			t = strconv.FormatInt(v.Int(), 10)
		}
		if w.kind == "i64num" || w.coin(2) {
			return c8Num(t)
		}
		return w.str(t)
	case c8U32, c8Fixed32, c8I32, c8S32:
		var t string
		if f.kind == c8U32 || f.kind == c8Fixed32 {
			t = strconv.FormatUint(v.Uint(), 10)
		} else {
			t = strconv.FormatInt(v.Int(), 10)
		}
		// sint32 (`scale`, `offset`) is read with iter.ReadInt32() directly: numbers only. The property speaks of 64-bit
		// integers, so a string-spelled 32-bit value there is not offered (it would be asking more than the statement).
		if c8MixedExtras && f.kind != c8S32 && w.coin(5) {
			return w.str(t)
		}
		return c8Num(t)
	case c8Enum:
		x := int32(v.Int())
		if w.kind == "enumname" || w.coin(2) {
			for _, n := range f.enum.names {
				if f.enum.byName[n] == x {
					return w.str(n)
				}
			}
		}
		return c8Num(strconv.FormatInt(int64(x), 10))
	case c8Bool:
		if v.Bool() {
			return "true", "T"
		}
		return "false", "F"
	case c8Double:
		return w.double(v.Float())
	case c8String:
		return w.str(v.String())
	case c8Bytes:
		if v.IsNil() && f.oneof {
			return "null", "Z" // what jsonpb writes for a one-of holding a nil slice
		}
		return w.str(base64.StdEncoding.EncodeToString(v.Bytes()))
	case c8ID:
		bs := make([]byte, v.Len())
		zero := true
		for i := range bs {
			bs[i] = byte(v.Index(i).Uint())
			zero = zero && bs[i] == 0
		}
		if zero {
			return w.str("")
		}
		return w.str(hex.EncodeToString(bs))
	case c8Msg:
		if v.Kind() == reflect.Ptr {
			if v.IsNil() {
				return "null", "Z"
			}
			v = v.Elem()
		}
		return w.msg(f.msg, v)
	}
	panic("c08: unreachable kind")
}

func (w *c8JW) key(f *c8Field) string {
	if w.kind == "snake" || w.coin(2) {
		return f.orig
	}
	return f.json
}

type c8Member struct{ key, txt, j string }

func (w *c8JW) field(f *c8Field, v reflect.Value) c8Member {
	k := w.key(f)
	if f.card == c8Rep || f.card == c8Packed {
		var tb, jb strings.Builder
		tb.WriteByte('[')
		jb.WriteByte('[')
		for i := 0; i < v.Len(); i++ {
			if i > 0 {
				tb.WriteByte(',')
			}
			t, j := w.scalar(f, v.Index(i))
			tb.WriteString(t)
			jb.WriteString(j)
		}
		tb.WriteByte(']')
		jb.WriteByte(']')
		return c8Member{k, tb.String(), jb.String()}
	}
	t, j := w.scalar(f, v)
	return c8Member{k, t, j}
}

func c8JSONOmit(f *c8Field, v reflect.Value) bool {
	switch f.card {
	case c8Rep, c8Packed:
		return v.IsNil()
	case c8Req:
		return false
	}
	switch f.kind {
	case c8Double:
		return v.Float() == 0
	case c8Bytes:
		return v.IsNil()
	case c8String:
		return v.Len() == 0
	default:
		return v.IsZero()
	}
}

const c8UnknownTxt = `{"a":[1,"x",{"b":null}]}`
const c8UnknownJ = `{61:[N1;S78;{62:Z}]}`

func (w *c8JW) msg(m *c8MsgInfo, v reflect.Value) (string, string) {
	var ms []c8Member
	for _, s := range m.gorder {
		if s.oneof {
			a, pv := c8OneofGet(s, v.Field(s.idx))
			if a == nil {
				continue
			}
			ms = append(ms, w.field(a, pv))
			continue
		}
		fv := v.Field(s.f.idx)
		if c8JSONOmit(s.f, fv) {
			if !(c8MixedExtras && w.coin(12)) || strings.HasPrefix(s.f.goName, "Deprecated") {
				continue
			}
			// explicit default: 0 / "" / false / []
		}
		ms = append(ms, w.field(s.f, fv))
	}
	if w.kind == "mixed" {
		w.r.Shuffle(len(ms), func(i, j int) { ms[i], ms[j] = ms[j], ms[i] })
		if w.r.IntN(4) == 0 {
			at := w.r.IntN(len(ms) + 1)
			ms = append(ms[:at], append([]c8Member{{"zzUnknown", c8UnknownTxt, c8UnknownJ}}, ms[at:]...)...)
		}
		if len(ms) > 0 && w.dups > 0 && w.r.IntN(5) == 0 {
			w.dups--
			d := ms[w.r.IntN(len(ms))]
			at := w.r.IntN(len(ms) + 1)
			ms = append(ms[:at], append([]c8Member{d}, ms[at:]...)...)
			if d.key != "zzUnknown" {
				w.hasDup = true
			}
		}
	}
	var tb, jb strings.Builder
	tb.WriteByte('{')
	jb.WriteByte('{')
	for i, mm := range ms {
		if i > 0 {
			tb.WriteByte(',')
		}
		kb, _ := json.Marshal(mm.key)
		tb.Write(kb)
		tb.WriteByte(':')
		tb.WriteString(mm.txt)
		jb.WriteString(c8HexS(mm.key))
		jb.WriteByte(':')
		jb.WriteString(mm.j)
	}
	tb.WriteByte('}')
	jb.WriteByte('}')
	return tb.String(), jb.String()
}

// c8BadClasses: every field kind with a fixed-length or constrained text encoding gets its own malformed spellings.
// A class applies to the field kinds named in c8BadApplies; exactly one site of the document is corrupted.
var c8BadClasses = []string{
	"idlong2", "idlong4", "idlong32", "idshort2", "idodd", "idnonhex", "idupper", "idempty", "idnum", "idquoted",
	"b64nopad", "b64badchar", "b64len1", "b64num",
	"enumunknown", "enumbool", "enumrange",
	"i64strrange", "i64numrange", "i64float", "i64bool", "i64strjunk", "u64neg",
	"u32range", "u32neg",
	"strnum", "strobj", "boolstr", "dblstrjunk", "dblbool",
}

// integer SPELLINGS (block `intspell`): what the two branches of json.ReadInt64/ReadUint64/ReadInt32/ReadUint32 accept beyond the
// canonical decimal text — strconv.ParseInt's `+` sign and leading zeros, `-0`, jsoniter's digit loop whose overflow test misses a
// wrap-around to a larger value, and the texts both reject (underscore, space, hex prefix, exponent, empty, lone sign).
// Class "is<x>" picks a SIGNED site (int64 / sfixed64 / int32), "iu<x>" an UNSIGNED one (uint64 / fixed64 / uint32 / fixed32).
var c8IntSpellNames = []string{
	"plus", "zeros", "neg0s", "neg0n", "numwrap", "numwrap2", "strwrap",
	"under", "space", "hex", "exps", "expn", "empty", "minus", "numlead0s",
}

var c8IntSpellClasses = func() []string {
	var cs []string
	for _, n := range c8IntSpellNames {
		cs = append(cs, "is"+n, "iu"+n)
	}
	return cs
}()

// TEXT LEAVES as the code reads them (block `txtleaf`): ids through (*ID).UnmarshalJSON / bytesid.go (hex either case, one pair of
// literal quotes stripped, empty = zero id, len/2 must equal the id size, odd length / non-hex rejected by hex.Decode) and bytes
// through base64.StdEncoding.DecodeString (padding required, \r and \n ignored anywhere, std alphabet only, trailing bits tolerated).
var c8TxtLeafClasses = []string{
	"txidmixed", "txidzeros", "txidquotedup", "txidodd1", "txidnl", "txidquoteone", "txidquotedempty", "txidlong2n", "txidspace",
	"txb6nl", "txb6crlfend", "txb6nlpad", "txb6url", "txb6stdpm", "txb6trail", "txb6padmid", "txb6nopad2", "txb6pad3", "txb6extra",
	"txb6space", "txb6onlynl", "txb6mime", "txb6urlown",
}

func c8BadApplies(class string, k c8Kind) bool {
	switch {
	case strings.HasPrefix(class, "txid"):
		return k == c8ID
	case strings.HasPrefix(class, "txb6"):
		return k == c8Bytes
	case strings.HasPrefix(class, "is"):
		return k == c8I64 || k == c8Sfixed64 || k == c8I32
	case strings.HasPrefix(class, "iu"):
		return k == c8U64 || k == c8Fixed64 || k == c8U32 || k == c8Fixed32
	case strings.HasPrefix(class, "id"):
		return k == c8ID
	case strings.HasPrefix(class, "b64"):
		return k == c8Bytes
	case strings.HasPrefix(class, "enum"):
		return k == c8Enum
	case class == "u64neg":
		return k == c8U64 || k == c8Fixed64
	case strings.HasPrefix(class, "i64"):
		return k == c8U64 || k == c8Fixed64 || k == c8I64 || k == c8Sfixed64
	case class == "u32range":
		return k == c8U32 || k == c8Fixed32 || k == c8I32
	case class == "u32neg":
		return k == c8U32 || k == c8Fixed32
	case strings.HasPrefix(class, "str"):
		return k == c8String
	case class == "boolstr":
		return k == c8Bool
	case strings.HasPrefix(class, "dbl"):
		return k == c8Double
	}
	return false
}

func (w *c8JW) badScalar(f *c8Field, v reflect.Value) (string, string, bool) {
	if !c8BadApplies(w.bad, f.kind) {
		return "", "", false
	}
	w.badSeen++
	if w.badSeen-1 != w.badAt {
		return "", "", false
	}
	w.badHit = f.owner.goType + "." + f.goName
	s := func(t string) (string, string, bool) { a, b := w.str(t); return a, b, true }
	n := func(t string) (string, string, bool) { a, b := c8Num(t); return a, b, true }
	unsigned := f.kind == c8U64 || f.kind == c8Fixed64 || f.kind == c8U32 || f.kind == c8Fixed32
	is32 := f.kind == c8U32 || f.kind == c8Fixed32 || f.kind == c8I32
	class := w.bad
	if strings.HasPrefix(class, "iu") {
		class = "is" + class[2:]
	}
	if strings.HasPrefix(class, "txid") {
		bs := make([]byte, v.Len())
		zero := true
		for i := range bs {
			bs[i] = byte(v.Index(i).Uint())
			zero = zero && bs[i] == 0
		}
		if zero {
			for i := range bs {
				bs[i] = byte(0xa1 + 7*i)
			}
		}
		h := hex.EncodeToString(bs)
		switch class {
		case "txidmixed": // alternate upper / lower case digits
			m := []byte(h)
			for i := range m {
				if i%2 == 0 {
					m[i] = strings.ToUpper(string(m[i]))[0]
				}
			}
			return s(string(m))
		case "txidzeros": // the all-zero id written out in full
			return s(strings.Repeat("0", len(h)))
		case "txidquotedup":
			return s("\"" + strings.ToUpper(h) + "\"")
		case "txidodd1": // 2n+1 characters: passes `len(dst) != DecodedLen(len(src))`, fails in hex.Decode
			return s(h + "a")
		case "txidnl":
			return s(h[:4] + "\n" + h[5:])
		case "txidquoteone":
			return s("\"" + h)
		case "txidquotedempty":
			return s("\"\"")
		case "txidlong2n":
			return s(h + h)
		case "txidspace":
			return s(" " + h[1:])
		}
	}
	if strings.HasPrefix(class, "txb6") {
		switch class {
		case "txb6nl":
			return s("QU\nJD")
		case "txb6crlfend":
			return s("QUJD\r\n")
		case "txb6nlpad":
			return s("QQ=\n=")
		case "txb6url":
			return s("-_-_")
		case "txb6stdpm":
			return s("+/+/")
		case "txb6trail": // non-zero trailing bits
			return s("QR==")
		case "txb6padmid":
			return s("QQ==QUJD")
		case "txb6nopad2":
			return s("QUI")
		case "txb6pad3":
			return s("Q===")
		case "txb6extra":
			return s("QUJD=")
		case "txb6space":
			return s("QU JD")
		case "txb6onlynl":
			return s("\n")
		case "txb6mime", "txb6urlown": // the value's own encoding: folded MIME-style with CRLF every 4 characters / in the url-safe alphabet
			raw := append([]byte{0xfb, 0xff, 0xbf}, v.Bytes()...)
			if class == "txb6urlown" {
				return s(base64.URLEncoding.EncodeToString(raw)) // holds '-' / '_': rejected
			}
			e := base64.StdEncoding.EncodeToString(raw)
			var sb strings.Builder
			for i := 0; i < len(e); i += 4 {
				sb.WriteString(e[i:min(i+4, len(e))])
				sb.WriteString("\r\n")
			}
			return s(sb.String())
		}
	}
	switch class {
	case "isplus":
		return s("+7")
	case "iszeros":
		return s("007")
	case "isneg0s":
		return s("-0")
	case "isneg0n":
		return n("-0")
	case "isnumwrap": // > MaxUint, yet value*10+d wraps to a LARGER value: jsoniter's `value2 < value` does not fire
		if is32 {
			return n("6442450944") // reads as 2147483648 (uint32) / overflow (int32)
		}
		return n("27670116110564327420") // reads as 9223372036854775804 for uint64 AND int64
	case "isnumwrap2":
		if is32 {
			return n("6442450941") // reads as 2147483645: accepted by ReadInt32 too
		}
		return n("31359464925306237747") // wraps to a value ≥ 2^63: uint64 accepts, int64 says overflow
	case "isstrwrap":
		if is32 {
			return s("6442450944")
		}
		return s("27670116110564327420")
	case "isunder":
		return s("1_0")
	case "isspace":
		return s(" 5")
	case "ishex":
		return s("0x10")
	case "isexps":
		return s("1e2")
	case "isexpn":
		return n("1e2")
	case "isempty":
		return s("")
	case "isminus":
		return s("-")
	case "isnumlead0s": // a string may carry a sign AND leading zeros
		if unsigned {
			return s("000")
		}
		return s("-0012")
	case "idlong2", "idlong4", "idlong32", "idshort2", "idodd", "idnonhex", "idupper", "idquoted":
		bs := make([]byte, v.Len())
		zero := true
		for i := range bs {
			bs[i] = byte(v.Index(i).Uint())
			zero = zero && bs[i] == 0
		}
		if zero { // make it a non-zero id so that the text has the full length
			for i := range bs {
				bs[i] = byte(0xa1 + 7*i)
			}
		}
		h := hex.EncodeToString(bs)
		switch w.bad {
		case "idlong2":
			return s(h[:2] + h) // one hex pair duplicated
		case "idlong4":
			return s(h + h[len(h)-4:])
		case "idlong32":
			return s(h + strings.Repeat("ab", 16))
		case "idshort2":
			return s(h[:len(h)-2])
		case "idodd":
			return s(h[:len(h)-1])
		case "idnonhex":
			return s(h[:3] + "g" + h[4:])
		case "idupper":
			return s(strings.ToUpper(h))
		default: // idquoted: the reader strips one pair of literal quotes
			return s("\"" + h + "\"")
		}
	case "idempty":
		return s("")
	case "idnum":
		return n("5")
	case "b64nopad":
		return s("Bwg") // "Bwg=" without its padding
	case "b64badchar":
		return s("QU*D")
	case "b64len1":
		return s("Q")
	case "b64num":
		return n("12")
	case "enumunknown":
		return s("NOT_A_VALUE_OF_THIS_ENUM")
	case "enumbool":
		return "true", "T", true
	case "enumrange":
		return n("2147483648")
	case "i64strrange":
		if unsigned {
			return s("18446744073709551616")
		}
		return s("9223372036854775808")
	case "i64numrange":
		if unsigned {
			return n("18446744073709551616")
		}
		return n("-9223372036854775809")
	case "i64float":
		return n("1.5")
	case "i64bool":
		return "false", "F", true
	case "i64strjunk":
		return s("12x")
	case "u64neg":
		if w.r.IntN(2) == 0 {
			return s("-1")
		}
		return n("-1")
	case "u32range":
		if f.kind == c8I32 {
			return n("2147483648")
		}
		return n("4294967296")
	case "u32neg":
		return n("-1")
	case "strnum":
		return n("5")
	case "strobj":
		return "{}", "{}", true
	case "boolstr":
		return s("true")
	case "dblstrjunk":
		return s("1.5abc")
	case "dblbool":
		return "true", "T", true
	}
	return "", "", false
}

// c8WriteBadJSON: the canonical document of x with exactly one site of class `class` corrupted (the k-th, chosen by r).
// ok=false when the document has no site the class applies to.
func c8WriteBadJSON(x any, class string, r *rand.Rand) (txt, j string, pf map[string]uint64, hit string, ok bool) {
	v := reflect.ValueOf(x).Elem()
	m := c8MsgOf(v.Type())
	cnt := &c8JW{kind: "canon", r: r, pf: map[string]uint64{}, bad: class, badAt: -1}
	cnt.msg(m, v)
	if cnt.badSeen == 0 {
		return "", "", nil, "", false
	}
	w := &c8JW{kind: "canon", r: r, pf: map[string]uint64{}, bad: class, badAt: r.IntN(cnt.badSeen)}
	txt, j = w.msg(m, v)
	return txt, j, w.pf, w.badHit, true
}

// ---------------------------------------------------------------------------------------------
// payloads built through the PUBLIC pdata API by random programs
//
// c8APIProgram drives a pdata wrapper (plog.Logs, pmetric.Metrics, …) by reflection over its exported METHODS only — exactly the
// surface a user of the API has: Set<Name>(scalar), Put<Kind>(key, scalar), SetEmpty<Alt>() / PutEmpty<Kind>(key) (one-of
// alternatives and containers), AppendEmpty() on slices, FromRaw on primitive slices / trace state, and zero-argument accessors
// that return another pdata wrapper. Accessors of one-of alternatives (a SetEmpty<Name> exists) are only reached through
// SetEmpty<Name>. Every call runs under recover (a panic of the API itself is not C08's concern and is counted, not reported).
type c8API struct {
	r      *rand.Rand
	g      *c8Gen
	budget int
	calls  int
	panics int
}

var c8SkipAPI = map[string]bool{"CopyTo": true, "MoveTo": true, "MoveAndAppendTo": true, "RemoveIf": true, "Sort": true, "Range": true,
	"AsRaw": true, "AsString": true, "Equal": true, "MarkReadOnly": true, "IsReadOnly": true, "EnsureCapacity": true, "Clear": true,
	"Remove": true, "All": true, "At": true, "Len": true, "Get": true, "Type": true, "String": true, "IsEmpty": true, "SetAt": true}

func c8IsPdataWrapper(t reflect.Type) bool {
	return t.Kind() == reflect.Struct && strings.HasPrefix(t.PkgPath(), "go.opentelemetry.io/collector/pdata/") && t.NumMethod() > 0
}

func (a *c8API) arg(t reflect.Type) (reflect.Value, bool) {
	v := reflect.New(t).Elem()
	switch t.Kind() {
	case reflect.String:
		v.SetString(a.g.str())
	case reflect.Int64, reflect.Int32, reflect.Int:
		x := int64(a.g.u64())
		if t.Kind() == reflect.Int32 {
			x = int64(int32(x))
		}
		v.SetInt(x)
	case reflect.Uint64, reflect.Uint32:
		x := a.g.u64()
		if t.Kind() == reflect.Uint32 {
			x = uint64(uint32(x))
		}
		v.SetUint(x)
	case reflect.Float64:
		v.SetFloat(a.g.f64())
	case reflect.Bool:
		v.SetBool(a.r.IntN(2) == 0)
	case reflect.Array:
		if t.Elem().Kind() != reflect.Uint8 {
			return v, false
		}
		if a.r.IntN(4) != 0 {
			for i := 0; i < t.Len(); i++ {
				v.Index(i).SetUint(uint64(a.r.UintN(256)))
			}
		}
	case reflect.Slice:
		n := a.r.IntN(4)
		s := reflect.MakeSlice(t, n, n)
		for i := 0; i < n; i++ {
			e, ok := a.arg(t.Elem())
			if !ok {
				return v, false
			}
			s.Index(i).Set(e)
		}
		v.Set(s)
	default:
		return v, false
	}
	return v, true
}

func (a *c8API) call(m reflect.Value, args ...reflect.Value) (out []reflect.Value, ok bool) {
	defer func() {
		if p := recover(); p != nil {
			a.panics++
			ok = false
		}
	}()
	a.calls++
	return m.Call(args), true
}

// drive: a random API program on wrapper w.
func (a *c8API) drive(w reflect.Value, depth int) {
	t := w.Type()
	if (a.budget <= 0 || depth > 9) && t.Name() != "ByteSlice" {
		return
	}
	hasSetEmpty := map[string]bool{}
	for i := 0; i < t.NumMethod(); i++ {
		if n := t.Method(i).Name; strings.HasPrefix(n, "SetEmpty") {
			hasSetEmpty[strings.TrimPrefix(n, "SetEmpty")] = true
		}
	}
	// a bytes value: usually give it content (an API-built EMPTY bytes value is the open nil-bytes finding; keep it rare so that
	// most API programs stay inside the canonical form and `prop apibuilt` is evaluated on them)
	if t.Name() == "ByteSlice" {
		if m := w.MethodByName("FromRaw"); m.IsValid() && a.r.IntN(100) != 0 {
			b := make([]byte, 1+a.r.IntN(5))
			for i := range b {
				b[i] = byte(a.r.UintN(256))
			}
			a.budget--
			a.call(m, reflect.ValueOf(b))
		}
		return
	}
	// a slice wrapper: AppendEmpty a few elements and drive each
	if m := w.MethodByName("AppendEmpty"); m.IsValid() && m.Type().NumIn() == 0 {
		k := a.r.IntN(3)
		if depth < 6 { // resource / scope / record levels: never leave the payload empty
			k = 1 + a.r.IntN(2)
		}
		for ; k > 0 && a.budget > 0; k-- {
			a.budget--
			if out, ok := a.call(m); ok && len(out) == 1 && c8IsPdataWrapper(out[0].Type()) {
				a.drive(out[0], depth+1)
			}
		}
		return
	}
	oneofDone := false
	for _, i := range a.r.Perm(t.NumMethod()) {
		if a.budget <= 0 {
			return
		}
		name := t.Method(i).Name
		m := w.Method(i)
		mt := m.Type()
		if c8SkipAPI[name] || (depth > 1 && a.r.IntN(10) < 3) {
			continue
		}
		switch {
		case strings.HasPrefix(name, "SetEmpty") && mt.NumIn() == 0:
			if oneofDone && a.r.IntN(3) != 0 { // later SetEmpty* replaces the alternative: allowed, but rarer
				continue
			}
			oneofDone = true
			a.budget--
			if out, ok := a.call(m); ok && len(out) == 1 && c8IsPdataWrapper(out[0].Type()) {
				a.drive(out[0], depth+1)
			}
		case strings.HasPrefix(name, "PutEmpty") && mt.NumIn() == 1 && mt.In(0).Kind() == reflect.String:
			a.budget--
			if out, ok := a.call(m, reflect.ValueOf(a.g.str())); ok && len(out) == 1 && c8IsPdataWrapper(out[0].Type()) {
				a.drive(out[0], depth+1)
			}
		case strings.HasPrefix(name, "Put") && mt.NumIn() == 2 && mt.In(0).Kind() == reflect.String:
			if v, ok := a.arg(mt.In(1)); ok {
				a.budget--
				a.call(m, reflect.ValueOf(a.g.str()), v)
			}
		case (strings.HasPrefix(name, "Set") || name == "FromRaw") && mt.NumIn() == 1 && !mt.IsVariadic():
			if v, ok := a.arg(mt.In(0)); ok {
				a.budget--
				a.call(m, v)
			}
		case name == "Append" && mt.IsVariadic() && mt.NumIn() == 1:
			if v, ok := a.arg(mt.In(0)); ok {
				a.budget--
				func() {
					defer func() {
						if recover() != nil {
							a.panics++
						}
					}()
					m.CallSlice([]reflect.Value{v})
				}()
			}
		case mt.NumIn() == 0 && mt.NumOut() == 1 && c8IsPdataWrapper(mt.Out(0)) && !hasSetEmpty[name]:
			a.budget--
			if out, ok := a.call(m); ok {
				a.drive(out[0], depth+1)
			}
		}
	}
}

// c8SetIDs walks a payload and gives EVERY fixed-size id (TraceID / SpanID / ProfileID: arrays of bytes) the boundary shape
// `shape`: "hot<p>" = only byte p%len non-zero, "hi0" = high half zero, "lo0" = low half zero. Returns how many ids it set.
func c8SetIDs(v reflect.Value, shape string) int {
	switch v.Kind() {
	case reflect.Ptr, reflect.Interface:
		if v.IsNil() {
			return 0
		}
		return c8SetIDs(v.Elem(), shape)
	case reflect.Struct:
		n := 0
		for i := 0; i < v.NumField(); i++ {
			if v.Field(i).CanSet() {
				n += c8SetIDs(v.Field(i), shape)
			}
		}
		return n
	case reflect.Slice:
		if v.Type().Elem().Kind() == reflect.Uint8 {
			return 0
		}
		n := 0
		for i := 0; i < v.Len(); i++ {
			n += c8SetIDs(v.Index(i), shape)
		}
		return n
	case reflect.Array:
		if v.Type().Elem().Kind() != reflect.Uint8 {
			return 0
		}
		l := v.Len()
		for i := 0; i < l; i++ {
			v.Index(i).SetUint(0)
		}
		switch {
		case strings.HasPrefix(shape, "hot"):
			p, _ := strconv.Atoi(shape[3:])
			v.Index(p % l).SetUint(uint64(0x11 + p))
		case shape == "hi0":
			for i := l / 2; i < l; i++ {
				v.Index(i).SetUint(uint64(0x21 + i))
			}
		case shape == "lo0":
			for i := 0; i < l/2; i++ {
				v.Index(i).SetUint(uint64(0x31 + i))
			}
		}
		return 1
	}
	return 0
}

// c8WriteJSON renders x (pointer to a protogen struct) as a document of the given variant kind.
func c8WriteJSON(x any, kind string, r *rand.Rand) (txt, j string, pf map[string]uint64, hasDup bool) {
	v := reflect.ValueOf(x).Elem()
	w := &c8JW{kind: kind, r: r, pf: map[string]uint64{}}
	if kind == "mixed" && r.IntN(6) == 0 {
		w.dups = 1
	}
	txt, j = w.msg(c8MsgOf(v.Type()), v)
	return txt, j, w.pf, w.hasDup
}

// ---------------------------------------------------------------------------------------------
// J of an arbitrary JSON text (document produced by the real marshaler)

type c8JNode struct {
	tok  string // scalar token, or "" for containers
	obj  bool
	arr  bool
	keys []string
	kids []*c8JNode
}

func c8ParseJNode(dec *json.Decoder) (*c8JNode, error) {
	t, err := dec.Token()
	if err != nil {
		return nil, err
	}
	switch x := t.(type) {
	case json.Delim:
		switch x {
		case '{':
			n := &c8JNode{obj: true}
			for dec.More() {
				kt, err := dec.Token()
				if err != nil {
					return nil, err
				}
				k, ok := kt.(string)
				if !ok {
					return nil, fmt.Errorf("non-string key")
				}
				c, err := c8ParseJNode(dec)
				if err != nil {
					return nil, err
				}
				n.keys = append(n.keys, k)
				n.kids = append(n.kids, c)
			}
			if _, err := dec.Token(); err != nil {
				return nil, err
			}
			return n, nil
		case '[':
			n := &c8JNode{arr: true}
			for dec.More() {
				c, err := c8ParseJNode(dec)
				if err != nil {
					return nil, err
				}
				n.kids = append(n.kids, c)
			}
			if _, err := dec.Token(); err != nil {
				return nil, err
			}
			return n, nil
		}
		return nil, fmt.Errorf("unexpected delimiter %v", x)
	case string:
		return &c8JNode{tok: c8JStr(x)}, nil
	case json.Number:
		return &c8JNode{tok: "N" + string(x) + ";"}, nil
	case bool:
		if x {
			return &c8JNode{tok: "T"}, nil
		}
		return &c8JNode{tok: "F"}, nil
	case nil:
		return &c8JNode{tok: "Z"}, nil
	}
	return nil, fmt.Errorf("unexpected token %T", t)
}

func (n *c8JNode) print(sb *strings.Builder, sorted bool) {
	switch {
	case n.obj:
		idx := make([]int, len(n.keys))
		for i := range idx {
			idx[i] = i
		}
		if sorted {
			sort.SliceStable(idx, func(a, b int) bool { return n.keys[idx[a]] < n.keys[idx[b]] })
		}
		sb.WriteByte('{')
		for _, i := range idx {
			sb.WriteString(c8HexS(n.keys[i]))
			sb.WriteByte(':')
			n.kids[i].print(sb, sorted)
		}
		sb.WriteByte('}')
	case n.arr:
		sb.WriteByte('[')
		for _, c := range n.kids {
			c.print(sb, sorted)
		}
		sb.WriteByte(']')
	default:
		sb.WriteString(n.tok)
	}
}

// c8MutateJSONTree: 1–4 random TREE mutations of a well-formed document (result is well-formed): a value replaced by a value of
// another JSON type or an exotic spelling of a number, members deleted / renamed to another key of the document / swapped,
// values wrapped into arrays or objects, arrays emptied or doubled, null everywhere.
func c8MutateJSONTree(r *rand.Rand, base []byte) []byte {
	dec := json.NewDecoder(bytes.NewReader(base))
	dec.UseNumber()
	var root any
	if err := dec.Decode(&root); err != nil {
		return nil
	}
	var keys []string
	var collect func(v any)
	collect = func(v any) {
		switch x := v.(type) {
		case map[string]any:
			for k, c := range x {
				keys = append(keys, k)
				collect(c)
			}
		case []any:
			for _, c := range x {
				collect(c)
			}
		}
	}
	collect(root)
	sort.Strings(keys)
	scalars := []any{nil, true, false, "", "x", "AQID", "0011223344556677", "00112233445566778899aabbccddeeff", "NaN", "Infinity", "12", "-7",
		"SPAN_KIND_SERVER", "AGGREGATION_TEMPORALITY_DELTA", json.Number("0"), json.Number("-0"), json.Number("1"), json.Number("-1"),
		json.Number("1e2"), json.Number("1E+2"), json.Number("0.0"), json.Number("2.5"), json.Number("4294967296"), json.Number("9007199254740993"),
		json.Number("9223372036854775807"), json.Number("9223372036854775808"), json.Number("18446744073709551615"),
		json.Number("-9223372036854775808"), json.Number("1e400"), map[string]any{}, []any{}, []any{nil}, map[string]any{"values": []any{}}}
	var mutate func(v any, depth int) any
	mutate = func(v any, depth int) any {
		switch x := v.(type) {
		case map[string]any:
			if len(x) == 0 || r.IntN(8) == 0 {
				return scalars[r.IntN(len(scalars))]
			}
			ks := make([]string, 0, len(x))
			for k := range x {
				ks = append(ks, k)
			}
			sort.Strings(ks)
			k := ks[r.IntN(len(ks))]
			switch r.IntN(7) {
			case 0:
				delete(x, k)
			case 1:
				if len(keys) > 0 {
					nk := keys[r.IntN(len(keys))]
					x[nk] = x[k]
				}
			case 2:
				k2 := ks[r.IntN(len(ks))]
				x[k], x[k2] = x[k2], x[k]
			case 3:
				x[k] = []any{x[k]}
			case 4:
				x[k] = scalars[r.IntN(len(scalars))]
			default:
				x[k] = mutate(x[k], depth+1)
			}
			return x
		case []any:
			if len(x) == 0 || r.IntN(6) == 0 {
				return scalars[r.IntN(len(scalars))]
			}
			i := r.IntN(len(x))
			switch r.IntN(5) {
			case 0:
				return append(x, x...)
			case 1:
				return x[:i]
			case 2:
				x[i] = scalars[r.IntN(len(scalars))]
			default:
				x[i] = mutate(x[i], depth+1)
			}
			return x
		default:
			return scalars[r.IntN(len(scalars))]
		}
	}
	for k := 1 + r.IntN(4); k > 0; k-- {
		root = mutate(root, 0)
	}
	out, err := json.Marshal(root)
	if err != nil {
		return nil
	}
	return out
}

// c8DocPF: the float table of a free-form document — every number literal and every string of the document that
// strconv.ParseFloat accepts (type-blind superset of what the double readers may be asked to parse).
func c8DocPF(doc []byte) map[string]uint64 {
	pf := map[string]uint64{}
	dec := json.NewDecoder(bytes.NewReader(doc))
	dec.UseNumber()
	for {
		t, err := dec.Token()
		if err != nil {
			return pf
		}
		var txt string
		switch x := t.(type) {
		case json.Number:
			txt = string(x)
		case string:
			txt = x
		default:
			continue
		}
		// (long STRINGS are left out to keep the op line short; a number literal is always listed, whatever its length: the
		// model's `skipOk` asks the table about exponent literals in unknown members too)
		if _, isNum := t.(json.Number); !isNum && len(txt) > 256 {
			continue
		}
		if f, err := strconv.ParseFloat(txt, 64); err == nil {
			pf[txt] = math.Float64bits(f)
		}
	}
}

// c8DocJ parses a JSON text with encoding/json (UseNumber) and returns its J in document order and sorted.
func c8DocJ(doc []byte) (plain, sorted string, err error) {
	if !utf8.Valid(doc) {
		return "", "", fmt.Errorf("document is not valid UTF-8")
	}
	dec := json.NewDecoder(bytes.NewReader(doc))
	dec.UseNumber()
	n, err := c8ParseJNode(dec)
	if err != nil {
		return "", "", err
	}
	if _, err := dec.Token(); err != io.EOF {
		return "", "", fmt.Errorf("trailing data")
	}
	var a, b strings.Builder
	n.print(&a, false)
	n.print(&b, true)
	return a.String(), b.String(), nil
}

// ---------------------------------------------------------------------------------------------
// float tables

// c8Doubles collects the bit patterns of every double-typed field of the message value v.
func c8Doubles(m *c8MsgInfo, v reflect.Value, acc map[uint64]bool) {
	one := func(f *c8Field, e reflect.Value) {
		switch f.kind {
		case c8Double:
			acc[math.Float64bits(e.Float())] = true
		case c8Msg:
			if e.Kind() == reflect.Ptr {
				if e.IsNil() {
					return
				}
				e = e.Elem()
			}
			c8Doubles(f.msg, e, acc)
		}
	}
	for _, s := range m.slots {
		if s.oneof {
			if a, pv := c8OneofGet(s, v.Field(s.idx)); a != nil {
				one(a, pv)
			}
			continue
		}
		fv := v.Field(s.f.idx)
		if s.f.card == c8Rep || s.f.card == c8Packed {
			if s.f.kind != c8Double && s.f.kind != c8Msg {
				continue
			}
			for i := 0; i < fv.Len(); i++ {
				one(s.f, fv.Index(i))
			}
			continue
		}
		one(s.f, fv)
	}
}

// c8Tables returns ft (finite bit patterns → encoding/json text), pf of the marshaler's own texts, and the list of
// finite patterns for the float text law.
func c8Tables(x any) (ft string, pf map[string]uint64, finite []uint64) {
	v := reflect.ValueOf(x).Elem()
	acc := map[uint64]bool{}
	c8Doubles(c8MsgOf(v.Type()), v, acc)
	pf = map[string]uint64{}
	for b := range acc {
		f := math.Float64frombits(b)
		t := c8FloatText(f)
		if pfv, err := strconv.ParseFloat(t, 64); err == nil {
			pf[t] = math.Float64bits(pfv)
		}
		if !math.IsNaN(f) && !math.IsInf(f, 0) {
			finite = append(finite, b)
		}
	}
	sort.Slice(finite, func(i, j int) bool { return finite[i] < finite[j] })
	var sb strings.Builder
	for i, b := range finite {
		if i > 0 {
			sb.WriteByte(',')
		}
		sb.WriteString(strconv.FormatUint(b, 10))
		sb.WriteByte(':')
		sb.WriteString(c8HexS(c8FloatText(math.Float64frombits(b))))
	}
	ft = sb.String()
	if ft == "" {
		ft = "-"
	}
	return ft, pf, finite
}

func c8PFString(pf map[string]uint64) string {
	if len(pf) == 0 {
		return "-"
	}
	keys := make([]string, 0, len(pf))
	for k := range pf {
		keys = append(keys, k)
	}
	sort.Strings(keys)
	var sb strings.Builder
	for i, k := range keys {
		if i > 0 {
			sb.WriteByte(',')
		}
		sb.WriteString(c8HexS(k))
		sb.WriteByte(':')
		sb.WriteString(strconv.FormatUint(pf[k], 10))
	}
	return sb.String()
}

// =============================================================================================
// 4. mutations
// =============================================================================================

type c8Ent struct {
	start, lenStart, valStart, end int
	num                            uint64
	wt                             int
}

func c8Uvarint(b []byte, i int) (uint64, int, bool) {
	var x uint64
	for s := uint(0); s < 64; s += 7 {
		if i >= len(b) {
			return 0, 0, false
		}
		c := b[i]
		i++
		x |= uint64(c&0x7f) << s
		if c < 0x80 {
			return x, i, true
		}
	}
	return 0, 0, false
}

func c8PutUvarint(x uint64) []byte {
	var out []byte
	for x >= 0x80 {
		out = append(out, byte(x)|0x80)
		x >>= 7
	}
	return append(out, byte(x))
}

// c8Overlong encodes x on exactly n bytes (n ≥ minimal length) by padding with 0x80 continuation bytes.
func c8Overlong(x uint64, n int) []byte {
	out := make([]byte, 0, n)
	for i := 0; i < n-1; i++ {
		out = append(out, byte(x&0x7f)|0x80)
		x >>= 7
	}
	return append(out, byte(x&0x7f))
}

// c8Entries parses the top-level entries of a well-formed message (no groups); ok=false when it is not well formed.
func c8Entries(b []byte) ([]c8Ent, bool) {
	var out []c8Ent
	i := 0
	for i < len(b) {
		key, j, ok := c8Uvarint(b, i)
		if !ok {
			return out, false
		}
		e := c8Ent{start: i, lenStart: j, valStart: j, num: key >> 3, wt: int(key & 7)}
		switch e.wt {
		case 0:
			_, k, ok := c8Uvarint(b, j)
			if !ok {
				return out, false
			}
			e.end = k
		case 1:
			e.end = j + 8
		case 5:
			e.end = j + 4
		case 2:
			l, k, ok := c8Uvarint(b, j)
			if !ok || l > uint64(len(b)-k) {
				return out, false
			}
			e.valStart = k
			e.end = k + int(l)
		default:
			return out, false
		}
		if e.end > len(b) {
			return out, false
		}
		out = append(out, e)
		i = e.end
	}
	return out, true
}

func c8Key(num uint64, wt int) []byte { return c8PutUvarint(num<<3 | uint64(wt)) }

func c8Cat(parts ...[]byte) []byte {
	var out []byte
	for _, p := range parts {
		out = append(out, p...)
	}
	return out
}

// c8FieldByNum finds the schema field (plain or alternative) of message m with the given number.
func c8FieldByNum(m *c8MsgInfo, num uint64) *c8Field {
	if m == nil {
		return nil
	}
	for _, s := range m.slots {
		if s.oneof {
			for _, a := range s.alts {
				if uint64(a.num) == num {
					return a
				}
			}
		} else if uint64(s.f.num) == num {
			return s.f
		}
	}
	return nil
}

var c8UnknownNums = []uint64{15, 16, 99, 999, 2047, 1<<29 - 1}

func c8RandEntry(r *rand.Rand, wt int) []byte {
	num := c8UnknownNums[r.IntN(len(c8UnknownNums))]
	switch wt {
	case 0:
		return c8Cat(c8Key(num, 0), c8PutUvarint(c8IntPool[r.IntN(len(c8IntPool))]))
	case 1:
		return c8Cat(c8Key(num, 1), []byte{1, 2, 3, 4, 5, 6, 7, 8})
	case 5:
		return c8Cat(c8Key(num, 5), []byte{1, 2, 3, 4})
	default:
		n := r.IntN(5)
		p := make([]byte, n)
		for i := range p {
			p[i] = byte(r.UintN(256))
		}
		return c8Cat(c8Key(num, 2), c8PutUvarint(uint64(n)), p)
	}
}

// c8GroupParts returns start key, body and end key of an unknown group (nested `depth` levels).
func c8GroupParts(r *rand.Rand, depth int) (start, body, end []byte) {
	num := c8UnknownNums[r.IntN(len(c8UnknownNums))]
	for k := r.IntN(3); k > 0; k-- {
		body = append(body, c8RandEntry(r, []int{0, 1, 2, 5}[r.IntN(4)])...)
	}
	if depth > 0 {
		body = append(body, c8Group(r, depth-1)...)
	}
	return c8Key(num, 3), body, c8Key(num, 4)
}

func c8Group(r *rand.Rand, depth int) []byte {
	s, b, e := c8GroupParts(r, depth)
	return c8Cat(s, b, e)
}

// c8MutLocal applies one local mutation to the message bytes b (of message m when known).
func c8MutLocal(r *rand.Rand, b []byte, m *c8MsgInfo, other []byte) ([]byte, string) {
	ents, _ := c8Entries(b)
	pick := func() (c8Ent, bool) {
		if len(ents) == 0 {
			return c8Ent{}, false
		}
		return ents[r.IntN(len(ents))], true
	}
	pickWT := func(wt int) (c8Ent, bool) {
		var c []c8Ent
		for _, e := range ents {
			if e.wt == wt {
				c = append(c, e)
			}
		}
		if len(c) == 0 {
			return c8Ent{}, false
		}
		return c[r.IntN(len(c))], true
	}
	insertAt := func(x []byte) []byte {
		at := len(b)
		if len(ents) > 0 && r.IntN(2) == 0 {
			at = ents[r.IntN(len(ents))].start
		}
		return c8Cat(b[:at], x, b[at:])
	}
	for try := 0; try < 8; try++ {
		switch r.IntN(24) {
		case 0:
			if len(b) == 0 {
				continue
			}
			return append([]byte(nil), b[:r.IntN(len(b))]...), "trunc"
		case 1:
			if len(b) == 0 {
				continue
			}
			o := append([]byte(nil), b...)
			i := r.IntN(len(o))
			if r.IntN(2) == 0 {
				o[i] ^= 1 << uint(r.IntN(8))
			} else {
				o[i] = byte(r.UintN(256))
			}
			return o, "flip"
		case 2, 3:
			// overlong varint: a key, a length, or a varint value, padded to 10 or 11 bytes (or something shorter)
			e, ok := pick()
			if !ok {
				continue
			}
			n := []int{10, 10, 11, 2 + r.IntN(8)}[r.IntN(4)]
			label := "overlong10"
			if n == 11 {
				label = "overlong11"
			} else if n < 10 {
				label = "overlongN"
			}
			switch {
			case r.IntN(3) == 0:
				key, _, _ := c8Uvarint(b, e.start)
				return c8Cat(b[:e.start], c8Overlong(key, n), b[e.lenStart:]), label + "-key"
			case e.wt == 2:
				l, _, _ := c8Uvarint(b, e.lenStart)
				return c8Cat(b[:e.lenStart], c8Overlong(l, n), b[e.valStart:]), label + "-len"
			case e.wt == 0:
				x, _, _ := c8Uvarint(b, e.valStart)
				return c8Cat(b[:e.valStart], c8Overlong(x, n), b[e.end:]), label + "-val"
			}
			continue
		case 4:
			e, ok := pick()
			if !ok {
				continue
			}
			wt := r.IntN(8)
			if wt == e.wt {
				wt = (wt + 1) % 8
			}
			return c8Cat(b[:e.start], c8Key(e.num, wt), b[e.lenStart:]), "wiretype"
		case 5:
			if len(b) < 2 {
				continue
			}
			i := r.IntN(len(b))
			j := i + 1 + r.IntN(len(b)-i)
			return c8Cat(b[:j], b[i:j], b[j:]), "dupchunk"
		case 6:
			e, ok := pick()
			if !ok {
				continue
			}
			return insertAt(b[e.start:e.end]), "dupentry"
		case 7:
			return insertAt(c8RandEntry(r, 0)), "unk0"
		case 8:
			return insertAt(c8RandEntry(r, 1)), "unk1"
		case 9:
			return insertAt(c8RandEntry(r, 2)), "unk2"
		case 10:
			return insertAt(c8RandEntry(r, 5)), "unk5"
		case 11:
			return insertAt(c8Group(r, 0)), "group"
		case 12:
			return insertAt(c8Group(r, 1+r.IntN(3))), "groupnested"
		case 13:
			gs, gb, ge := c8GroupParts(r, r.IntN(2))
			var g []byte
			switch r.IntN(3) {
			case 0: // start without end
				g = c8Cat(gs, gb)
			case 1: // end without start
				g = ge
			default: // mismatched end number
				g = c8Cat(c8Key(15, 3), gb, c8Key(16, 4))
			}
			return insertAt(g), "groupunbal"
		case 14:
			wt := 6 + r.IntN(2)
			num := c8UnknownNums[r.IntN(len(c8UnknownNums))]
			if e, ok := pick(); ok && r.IntN(2) == 0 {
				num = e.num
			}
			return insertAt(c8Cat(c8Key(num, wt), []byte{0})), "wt67"
		case 15, 16:
			huge := []uint64{1 << 31, 1 << 63, 1<<64 - 1, 1<<31 - 1, 1 << 32, 1<<63 - 1}[r.IntN(6)]
			label := map[uint64]string{1 << 31: "hugelen31", 1 << 63: "hugelen63", 1<<64 - 1: "hugelen64"}[huge]
			if label == "" {
				label = "hugelenX"
			}
			if e, ok := pickWT(2); ok && r.IntN(3) != 0 {
				return c8Cat(b[:e.lenStart], c8PutUvarint(huge), b[e.valStart:]), label
			}
			return insertAt(c8Cat(c8Key(c8UnknownNums[r.IntN(len(c8UnknownNums))], 2), c8PutUvarint(huge))), label + "-unk"
		case 17:
			wt := []int{0, 1, 2, 5}[r.IntN(4)]
			x := c8RandEntry(r, wt)
			_, j, _ := c8Uvarint(x, 0)
			return insertAt(c8Cat([]byte{byte(wt)}, x[j:])), "field0"
		case 18:
			e, ok := pick()
			if !ok {
				continue
			}
			k := uint64(1)
			if r.IntN(2) == 0 {
				k = 1 + r.Uint64N(1<<28)
			}
			return c8Cat(b[:e.start], c8Key(e.num+k<<32, e.wt), b[e.lenStart:]), "hifield"
		case 19:
			if other == nil {
				continue
			}
			return c8Cat(b, other), "merge"
		case 20:
			// deprecated field 1000: retag or copy field 2 of a Resource* message
			if c8FieldByNum(m, 1000) == nil {
				continue
			}
			var c []c8Ent
			for _, e := range ents {
				if e.num == 2 && e.wt == 2 {
					c = append(c, e)
				}
			}
			if len(c) == 0 {
				continue
			}
			e := c[r.IntN(len(c))]
			if r.IntN(2) == 0 {
				return c8Cat(b[:e.start], c8Key(1000, 2), b[e.lenStart:]), "dep1000-retag"
			}
			return c8Cat(b, c8Key(1000, 2), b[e.lenStart:e.end]), "dep1000-copy"
		case 21:
			// packed ↔ unpacked spelling of a repeated scalar
			var c []c8Ent
			for _, e := range ents {
				if f := c8FieldByNum(m, e.num); f != nil && f.card == c8Packed && e.wt == 2 {
					c = append(c, e)
				}
			}
			if len(c) == 0 {
				continue
			}
			e := c[r.IntN(len(c))]
			f := c8FieldByNum(m, e.num)
			var un []byte
			p := b[e.valStart:e.end]
			switch f.kind {
			case c8Fixed64, c8Sfixed64, c8Double:
				for i := 0; i+8 <= len(p); i += 8 {
					un = c8Cat(un, c8Key(e.num, 1), p[i:i+8])
				}
			default:
				for i := 0; i < len(p); {
					_, j, ok := c8Uvarint(p, i)
					if !ok {
						break
					}
					un = c8Cat(un, c8Key(e.num, 0), p[i:j])
					i = j
				}
			}
			return c8Cat(b[:e.start], un, b[e.end:]), "unpack"
		case 22:
			if len(ents) < 2 {
				continue
			}
			i := r.IntN(len(ents) - 1)
			a, c := ents[i], ents[i+1]
			return c8Cat(b[:a.start], b[c.start:c.end], b[a.start:a.end], b[c.end:]), "swap"
		case 23:
			e, ok := pickWT(2)
			if !ok {
				continue
			}
			// length off by one (longer or shorter) without touching the payload
			l, _, _ := c8Uvarint(b, e.lenStart)
			if r.IntN(2) == 0 || l == 0 {
				l++
			} else {
				l--
			}
			return c8Cat(b[:e.lenStart], c8PutUvarint(l), b[e.valStart:]), "lenoff"
		}
	}
	return c8Cat(b, c8RandEntry(r, 0)), "unk0"
}

// c8Mutate descends (schema guided) into nested messages with some probability and mutates there.
func c8Mutate(r *rand.Rand, b []byte, m *c8MsgInfo, other []byte, depth int) ([]byte, string) {
	if depth < 10 && r.IntN(100) < 62 {
		ents, ok := c8Entries(b)
		if ok {
			var c []c8Ent
			for _, e := range ents {
				if f := c8FieldByNum(m, e.num); f != nil && f.kind == c8Msg && e.wt == 2 {
					c = append(c, e)
				}
			}
			if len(c) > 0 {
				e := c[r.IntN(len(c))]
				f := c8FieldByNum(m, e.num)
				inner, label := c8Mutate(r, b[e.valStart:e.end], f.msg, nil, depth+1)
				if r.IntN(8) == 0 {
					// keep the stale length prefix
					return c8Cat(b[:e.valStart], inner, b[e.end:]), label + "+stale"
				}
				return c8Cat(b[:e.lenStart], c8PutUvarint(uint64(len(inner))), inner, b[e.end:]), label
			}
		}
	}
	return c8MutLocal(r, b, m, other)
}

// ---------------------------------------------------------------------------------------------
// JSON-ish fuzz inputs

var c8JSONFrags = []string{
	`{`, `}`, `[`, `]`, `:`, `,`, `"`, `\`, `null`, `true`, `false`, `0`, `-`, `1e999`, `1.`, `.5`, `-0`, `"\u00`, `"\ud800"`, `"\q"`,
	`"resourceLogs"`, `"resourceSpans"`, `"resourceMetrics"`, `"resourceProfiles"`, `"scopeLogs"`, `"logRecords"`, `"attributes"`,
	`"value"`, `"key"`, `"intValue"`, `"doubleValue"`, `"bytesValue"`, `"arrayValue"`, `"kvlistValue"`, `"values"`, `"traceId"`, `"spanId"`,
	`"partialSuccess"`, `"body"`, `"resource"`, `"scope"`, `"severityNumber"`, `"kind"`, `"flags"`, `"timeUnixNano"`, `"sum"`, `"gauge"`,
	`"dataPoints"`, `"asDouble"`, `"asInt"`, `"NaN"`, `"Infinity"`, `"zz"`, `"AQID"`, `"0102"`, `"SPAN_KIND_SERVER"`, ` `, "\n", "\t",
	`18446744073709551616`, `-9223372036854775809`, `4294967296`, `1.5`, `"1.5"`, `"12"`, `"-1"`, `{}`, `[]`, `[{}]`, "\x00", "\xff", `/*`, `//`,
}

func c8FuzzJSON(r *rand.Rand, base []byte) []byte {
	if base != nil && r.IntN(2) == 0 {
		// mutate a valid document
		o := append([]byte(nil), base...)
		for k := 1 + r.IntN(3); k > 0 && len(o) > 0; k-- {
			i := r.IntN(len(o))
			switch r.IntN(5) {
			case 0:
				o = o[:i]
			case 1:
				o[i] = byte(0x20 + r.IntN(0x5f))
			case 2:
				fr := c8JSONFrags[r.IntN(len(c8JSONFrags))]
				o = c8Cat(o[:i], []byte(fr), o[i:])
			case 3:
				j := i + r.IntN(len(o)-i)
				o = c8Cat(o[:i], o[j:])
			default:
				j := i + r.IntN(len(o)-i)
				o = c8Cat(o[:j], o[i:j], o[j:])
			}
		}
		return o
	}
	var o []byte
	for k := r.IntN(24); k > 0; k-- {
		if r.IntN(6) == 0 {
			o = append(o, byte(0x20+r.IntN(0x5f)))
		} else {
			o = append(o, c8JSONFrags[r.IntN(len(c8JSONFrags))]...)
		}
	}
	return o
}
