//go:build verif

package graph

// C09 harness: random service configurations -> the REAL graph.Build with instrumented
// receivers/processors/exporters/connectors for all four signals -> one tagged payload injected at
// every receiver instance -> (exporter, trail) multisets, factory create counts, build error class.
// Line protocol: see lean/OtelVerif/Drivers/C09.lean.

import (
	"context"
	"encoding/hex"
	"errors"
	"fmt"
	"math/rand/v2"
	"regexp"
	"sort"
	"strconv"
	"strings"
	"testing"
	"time"

	"go.opentelemetry.io/collector/component"
	"go.opentelemetry.io/collector/component/componenttest"
	"go.opentelemetry.io/collector/confmap/xconfmap"
	"go.opentelemetry.io/collector/connector"
	"go.opentelemetry.io/collector/connector/xconnector"
	"go.opentelemetry.io/collector/consumer"
	"go.opentelemetry.io/collector/consumer/xconsumer"
	"go.opentelemetry.io/collector/exporter"
	"go.opentelemetry.io/collector/exporter/xexporter"
	"go.opentelemetry.io/collector/featuregate"
	"go.opentelemetry.io/collector/pdata/plog"
	"go.opentelemetry.io/collector/pdata/pmetric"
	"go.opentelemetry.io/collector/pdata/pprofile"
	"go.opentelemetry.io/collector/pdata/ptrace"
	"go.opentelemetry.io/collector/pipeline"
	"go.opentelemetry.io/collector/pipeline/xpipeline"
	"go.opentelemetry.io/collector/processor"
	"go.opentelemetry.io/collector/processor/xprocessor"
	"go.opentelemetry.io/collector/receiver"
	"go.opentelemetry.io/collector/receiver/xreceiver"
	"go.opentelemetry.io/collector/service/internal/builders"
	"go.opentelemetry.io/collector/service/pipelines"
)

var vSignals = []pipeline.Signal{pipeline.SignalTraces, pipeline.SignalMetrics, pipeline.SignalLogs, xpipeline.SignalProfiles}

func vSigIdx(s pipeline.Signal) int {
	for i, x := range vSignals {
		if x == s {
			return i
		}
	}
	return -1
}

type vConnCfg struct {
	id   int
	supp [4][4]bool
	// selective: the connector uses the router API (RouterAndConsumer.PipelineIDs / Consumer(ids...)) and delivers only to the
	// next pipelines whose name number is in sel (to nothing when none is); otherwise it hands the payload to its whole router.
	selective bool
	sel       []int
}

type vPipeCfg struct {
	sig, name         int
	recv, procs, exps []int
}

type vCfg struct {
	conns []vConnCfg
	pipes []vPipeCfg
}

// Component ids and pipeline names are NUMBERS in the line protocol and in the model (identity is exact equality); the real
// ids behind them are drawn from pools of near-collisions: case variants, a name that is a prefix of another, names containing
// '/', a type equal to another component's name, case-variant types, the unnamed pipeline. Same ids are used across kinds and signals.
var vCompIDs = map[int]component.ID{
	1:  component.MustNewIDWithName("k", "EU"),
	2:  component.MustNewIDWithName("k", "eu"),
	3:  component.MustNewIDWithName("k", "e"),
	4:  component.MustNewIDWithName("k", "eu/k"),
	5:  component.MustNewID("kc"),
	6:  component.MustNewID("KC"),
	7:  component.MustNewIDWithName("kc7", "kc"),
	8:  component.MustNewID("eu"),
	9:  component.MustNewIDWithName("k", "k"),
	10: component.MustNewIDWithName("k", "Eu"),
	11: component.MustNewIDWithName("k", "eu/K"),
	// referenced but unavailable (only ever injected, never drawn by the generator): 12 has a factory (type k) but NO configuration
	// ("… is not configured"), 13 is configured but its type has NO factory ("… factory not available for"): builders.*Builder.Create*
	12: component.MustNewIDWithName("k", "nc"),
	13: component.MustNewIDWithName("nf", "x"),
}

var vPipeNames = []string{"EU", "eu", "", "e", "eu/e", "Eu", "E", "eU"}

var (
	vCompNum    = map[component.ID]int{}
	vCompByStr  = map[string]int{}
	vPipeNumMap = map[string]int{}
)

func init() {
	for n, id := range vCompIDs {
		vCompNum[id] = n
		vCompByStr[id.String()] = n
	}
	for n, s := range vPipeNames {
		vPipeNumMap[s] = n
	}
	if len(vCompNum) != len(vCompIDs) || len(vCompByStr) != len(vCompIDs) || len(vPipeNumMap) != len(vPipeNames) {
		panic("verif: id pools are not injective")
	}
}

func vID(n int) component.ID {
	id, ok := vCompIDs[n]
	if !ok {
		panic(fmt.Sprintf("verif: no component id %d", n))
	}
	return id
}

func vIDNum(id component.ID) int {
	n, ok := vCompNum[id]
	if !ok {
		return -1
	}
	return n
}

func vPipeID(sig, name int) pipeline.ID {
	return pipeline.NewIDWithName(vSignals[sig], vPipeNames[name])
}

func vPipeNum(name string) int {
	n, ok := vPipeNumMap[name]
	if !ok {
		return -1
	}
	return n
}

func vPipeTok(id pipeline.ID) string {
	return fmt.Sprintf("%d.%d", vSigIdx(id.Signal()), vPipeNum(id.Name()))
}

// ---- instrumented components -------------------------------------------------------------------

type vWorld struct {
	creates   map[string]int
	procs     []*vNode
	recvNext  map[string]any // receiver key -> next consumer
	delivered []string
	log       []string // lifecycle events (used by C10 harness variants)
	failStart map[string]bool
	failStop  map[string]bool
	connCfg   map[int]vConnCfg // connector id -> its configuration (selection behaviour)
	// failConsume: exporters (record, then return an error) and processors (forward, then return an error) whose Consume fails;
	// routing must not change (every next consumer is still called once: fan-out law, property C06)
	failConsume map[string]bool
	consumeErrs int
	// the context of the injected payload as a dimension: routing must not depend on it
	mutExp   map[string]bool // exporter keys that declare MutatesData
	cancel   context.CancelFunc
	cancelAt int // cancel the payload's context at the cancelAt-th Consume call of the injection (0 = never)
	ticks    int
	// failCreate: receiver / exporter / connector instance keys whose factory returns an error (Build fails in buildComponents,
	// after other components were already created)
	failCreate map[string]bool
	notRouter  []string // connector instances whose next consumer was not the pipeline router
	plainConn  int      // connector factories built with connector.NewFactory (not an xconnector.Factory)
	routers     []string // per connector instance: the pipeline ids of the router it was given (key=sig.name+sig.name…)
	routerNoErr []string // connector instances whose router returned a consumer for no id / for an unknown pipeline id
}

func newVWorld() *vWorld {
	return &vWorld{creates: map[string]int{}, recvNext: map[string]any{}, failStart: map[string]bool{}, failStop: map[string]bool{},
		connCfg: map[int]vConnCfg{}, failConsume: map[string]bool{}, failCreate: map[string]bool{}, mutExp: map[string]bool{}}
}

type vNode struct {
	conn   vConnCfg // connectors: selection behaviour
	w      *vWorld
	kind   byte
	label  string
	next   any
	outSig int
}

func (n *vNode) Start(context.Context, component.Host) error {
	n.w.log = append(n.w.log, "start "+n.label)
	if n.w.failStart[n.label] {
		return fmt.Errorf("verif start failure %s", n.label)
	}
	return nil
}

func (n *vNode) Shutdown(context.Context) error {
	n.w.log = append(n.w.log, "stop "+n.label)
	if n.w.failStop[n.label] {
		return fmt.Errorf("verif shutdown failure %s", n.label)
	}
	return nil
}

// processors mutate; so do the exporters chosen per case (mutExp): a fan-out then has mutating consumers in non-last positions
func (n *vNode) Capabilities() consumer.Capabilities {
	return consumer.Capabilities{MutatesData: n.kind == 'p' || n.w.mutExp[n.label]}
}

func vAppend(trail, label string) string {
	if trail == "" {
		return label
	}
	return trail + ">" + label
}

func vSend(ctx context.Context, next any, sig int, trail string) error {
	switch sig {
	case 0:
		d := ptrace.NewTraces()
		d.ResourceSpans().AppendEmpty().Resource().Attributes().PutStr("trail", trail)
		return next.(consumer.Traces).ConsumeTraces(ctx, d)
	case 1:
		d := pmetric.NewMetrics()
		d.ResourceMetrics().AppendEmpty().Resource().Attributes().PutStr("trail", trail)
		return next.(consumer.Metrics).ConsumeMetrics(ctx, d)
	case 2:
		d := plog.NewLogs()
		d.ResourceLogs().AppendEmpty().Resource().Attributes().PutStr("trail", trail)
		return next.(consumer.Logs).ConsumeLogs(ctx, d)
	default:
		d := pprofile.NewProfiles()
		d.ResourceProfiles().AppendEmpty().Resource().Attributes().PutStr("trail", trail)
		return next.(xconsumer.Profiles).ConsumeProfiles(ctx, d)
	}
}

// handle: exporter records; connector re-emits a fresh payload of its output signal to its router.
func (n *vNode) handle(ctx context.Context, trail string) error {
	switch n.kind {
	case 'e':
		n.w.delivered = append(n.w.delivered, n.label+"|"+trail)
		return n.consumeErr()
	case 'c':
		if !n.conn.selective {
			return vSend(ctx, n.next, n.outSig, vAppend(trail, n.label))
		}
		// router API: choose the destination pipelines by id
		var ids, pick []pipeline.ID
		switch r := n.next.(type) {
		case connector.TracesRouterAndConsumer:
			ids = r.PipelineIDs()
		case connector.MetricsRouterAndConsumer:
			ids = r.PipelineIDs()
		case connector.LogsRouterAndConsumer:
			ids = r.PipelineIDs()
		case xconnector.ProfilesRouterAndConsumer:
			ids = r.PipelineIDs()
		}
		for _, id := range ids {
			for _, x := range n.conn.sel {
				if x == vPipeNum(id.Name()) {
					pick = append(pick, id)
					break
				}
			}
		}
		if len(pick) == 0 {
			return nil
		}
		sort.Slice(pick, func(a, b int) bool { return pick[a].String() < pick[b].String() })
		var cons any
		var err error
		switch r := n.next.(type) {
		case connector.TracesRouterAndConsumer:
			cons, err = r.Consumer(pick...)
		case connector.MetricsRouterAndConsumer:
			cons, err = r.Consumer(pick...)
		case connector.LogsRouterAndConsumer:
			cons, err = r.Consumer(pick...)
		case xconnector.ProfilesRouterAndConsumer:
			cons, err = r.Consumer(pick...)
		}
		if err != nil {
			n.w.delivered = append(n.w.delivered, "error|"+vHex(err.Error()))
			return nil
		}
		return vSend(ctx, cons, n.outSig, vAppend(trail, n.label))
	}
	return fmt.Errorf("unexpected kind %c", n.kind)
}

// tick: one Consume call happened; the payload's context is cancelled by "a component" when the chosen call is reached
func (w *vWorld) tick() {
	w.ticks++
	if w.cancelAt > 0 && w.ticks == w.cancelAt && w.cancel != nil {
		w.cancel()
	}
}

func (n *vNode) consumeErr() error {
	if n.w.failConsume[n.label] {
		n.w.consumeErrs++
		return fmt.Errorf("verif consume failure %s", n.label)
	}
	return nil
}

func (n *vNode) ConsumeTraces(ctx context.Context, d ptrace.Traces) error {
	n.w.tick()
	a := d.ResourceSpans().At(0).Resource().Attributes()
	v, _ := a.Get("trail")
	if n.kind == 'p' { // processors mutate in place (MutatesData=true) and pass the same payload on
		a.PutStr("trail", vAppend(v.Str(), n.label))
		return errors.Join(n.next.(consumer.Traces).ConsumeTraces(ctx, d), n.consumeErr())
	}
	return n.handle(ctx, v.Str())
}

func (n *vNode) ConsumeMetrics(ctx context.Context, d pmetric.Metrics) error {
	n.w.tick()
	a := d.ResourceMetrics().At(0).Resource().Attributes()
	v, _ := a.Get("trail")
	if n.kind == 'p' {
		a.PutStr("trail", vAppend(v.Str(), n.label))
		return errors.Join(n.next.(consumer.Metrics).ConsumeMetrics(ctx, d), n.consumeErr())
	}
	return n.handle(ctx, v.Str())
}

func (n *vNode) ConsumeLogs(ctx context.Context, d plog.Logs) error {
	n.w.tick()
	a := d.ResourceLogs().At(0).Resource().Attributes()
	v, _ := a.Get("trail")
	if n.kind == 'p' {
		a.PutStr("trail", vAppend(v.Str(), n.label))
		return errors.Join(n.next.(consumer.Logs).ConsumeLogs(ctx, d), n.consumeErr())
	}
	return n.handle(ctx, v.Str())
}

func (n *vNode) ConsumeProfiles(ctx context.Context, d pprofile.Profiles) error {
	n.w.tick()
	a := d.ResourceProfiles().At(0).Resource().Attributes()
	v, _ := a.Get("trail")
	if n.kind == 'p' {
		a.PutStr("trail", vAppend(v.Str(), n.label))
		return errors.Join(n.next.(xconsumer.Profiles).ConsumeProfiles(ctx, d), n.consumeErr())
	}
	return n.handle(ctx, v.Str())
}

func vDefaultCfg() component.Config { return &struct{}{} }

func (w *vWorld) mkRecv(id component.ID, sig int, next any) (*vNode, error) {
	key := fmt.Sprintf("r%d:%d", vIDNum(id), sig)
	if w.failCreate[key] {
		return nil, fmt.Errorf("verif create failure %s", key)
	}
	w.creates[key]++
	w.recvNext[key] = next
	return &vNode{w: w, kind: 'r', label: key}, nil
}

func (w *vWorld) mkExp(id component.ID, sig int) (*vNode, error) {
	key := fmt.Sprintf("e%d:%d", vIDNum(id), sig)
	if w.failCreate[key] {
		return nil, fmt.Errorf("verif create failure %s", key)
	}
	w.creates[key]++
	return &vNode{w: w, kind: 'e', label: key}, nil
}

func (w *vWorld) mkProc(id component.ID, next any) *vNode {
	n := &vNode{w: w, kind: 'p', label: fmt.Sprintf("p%d@?", vIDNum(id)), next: next}
	w.procs = append(w.procs, n)
	return n
}

// mkConn: every connector is entitled to the pipeline router as its next consumer (connector.New<Signal>Router over the
// pipeline-id map); like testcomponents.ExampleRouter the test connector refuses to be created without it.
func (w *vWorld) mkConn(id component.ID, es, rs int, next any) (*vNode, error) {
	key := fmt.Sprintf("c%d:%d%d", vIDNum(id), es, rs)
	isRouter := false
	switch next.(type) {
	case connector.TracesRouterAndConsumer:
		isRouter = rs == 0
	case connector.MetricsRouterAndConsumer:
		isRouter = rs == 1
	case connector.LogsRouterAndConsumer:
		isRouter = rs == 2
	case xconnector.ProfilesRouterAndConsumer:
		isRouter = rs == 3
	}
	if w.failCreate[key] {
		return nil, fmt.Errorf("verif create failure %s", key)
	}
	if !isRouter {
		w.notRouter = append(w.notRouter, key)
		return nil, fmt.Errorf("verif: next consumer of %s is not the pipeline router (%T)", key, next)
	}
	w.creates[key]++
	// the content of the router the graph built for this instance, and its error branches (connector/internal BaseRouter.Consumer:
	// no id -> "missing consumers"; an id that is not a next pipeline -> "missing consumer", nothing is returned)
	var ids []pipeline.ID
	var errNone, errUnknown error
	unknown := pipeline.NewIDWithName(vSignals[rs], "verif-no-such-pipeline")
	switch r := next.(type) {
	case connector.TracesRouterAndConsumer:
		ids = r.PipelineIDs()
		_, errNone = r.Consumer()
		_, errUnknown = r.Consumer(append(append([]pipeline.ID{}, ids...), unknown)...)
	case connector.MetricsRouterAndConsumer:
		ids = r.PipelineIDs()
		_, errNone = r.Consumer()
		_, errUnknown = r.Consumer(append(append([]pipeline.ID{}, ids...), unknown)...)
	case connector.LogsRouterAndConsumer:
		ids = r.PipelineIDs()
		_, errNone = r.Consumer()
		_, errUnknown = r.Consumer(append(append([]pipeline.ID{}, ids...), unknown)...)
	case xconnector.ProfilesRouterAndConsumer:
		ids = r.PipelineIDs()
		_, errNone = r.Consumer()
		_, errUnknown = r.Consumer(append(append([]pipeline.ID{}, ids...), unknown)...)
	}
	var toks []string
	for _, id := range ids {
		toks = append(toks, vPipeTok(id))
	}
	sort.Strings(toks)
	w.routers = append(w.routers, key+"="+strings.Join(toks, "+"))
	if errNone == nil || errUnknown == nil {
		w.routerNoErr = append(w.routerNoErr, key)
	}
	return &vNode{w: w, kind: 'c', label: key, next: next, outSig: rs, conn: w.connCfg[vIDNum(id)]}, nil
}

func (w *vWorld) recvFactory(t component.Type) receiver.Factory {
	return xreceiver.NewFactory(t, vDefaultCfg,
		xreceiver.WithTraces(func(_ context.Context, s receiver.Settings, _ component.Config, next consumer.Traces) (receiver.Traces, error) {
			return w.mkRecv(s.ID, 0, next)
		}, component.StabilityLevelStable),
		xreceiver.WithMetrics(func(_ context.Context, s receiver.Settings, _ component.Config, next consumer.Metrics) (receiver.Metrics, error) {
			return w.mkRecv(s.ID, 1, next)
		}, component.StabilityLevelStable),
		xreceiver.WithLogs(func(_ context.Context, s receiver.Settings, _ component.Config, next consumer.Logs) (receiver.Logs, error) {
			return w.mkRecv(s.ID, 2, next)
		}, component.StabilityLevelStable),
		xreceiver.WithProfiles(func(_ context.Context, s receiver.Settings, _ component.Config, next xconsumer.Profiles) (xreceiver.Profiles, error) {
			return w.mkRecv(s.ID, 3, next)
		}, component.StabilityLevelStable))
}

func (w *vWorld) procFactory(t component.Type) processor.Factory {
	return xprocessor.NewFactory(t, vDefaultCfg,
		xprocessor.WithTraces(func(_ context.Context, s processor.Settings, _ component.Config, next consumer.Traces) (processor.Traces, error) {
			return w.mkProc(s.ID, next), nil
		}, component.StabilityLevelStable),
		xprocessor.WithMetrics(func(_ context.Context, s processor.Settings, _ component.Config, next consumer.Metrics) (processor.Metrics, error) {
			return w.mkProc(s.ID, next), nil
		}, component.StabilityLevelStable),
		xprocessor.WithLogs(func(_ context.Context, s processor.Settings, _ component.Config, next consumer.Logs) (processor.Logs, error) {
			return w.mkProc(s.ID, next), nil
		}, component.StabilityLevelStable),
		xprocessor.WithProfiles(func(_ context.Context, s processor.Settings, _ component.Config, next xconsumer.Profiles) (xprocessor.Profiles, error) {
			return w.mkProc(s.ID, next), nil
		}, component.StabilityLevelStable))
}

func (w *vWorld) expFactory(t component.Type) exporter.Factory {
	return xexporter.NewFactory(t, vDefaultCfg,
		xexporter.WithTraces(func(_ context.Context, s exporter.Settings, _ component.Config) (exporter.Traces, error) {
			return w.mkExp(s.ID, 0)
		}, component.StabilityLevelStable),
		xexporter.WithMetrics(func(_ context.Context, s exporter.Settings, _ component.Config) (exporter.Metrics, error) {
			return w.mkExp(s.ID, 1)
		}, component.StabilityLevelStable),
		xexporter.WithLogs(func(_ context.Context, s exporter.Settings, _ component.Config) (exporter.Logs, error) {
			return w.mkExp(s.ID, 2)
		}, component.StabilityLevelStable),
		xexporter.WithProfiles(func(_ context.Context, s exporter.Settings, _ component.Config) (xexporter.Profiles, error) {
			return w.mkExp(s.ID, 3)
		}, component.StabilityLevelStable))
}

// connFactoryPlain: a factory built with connector.NewFactory (it does NOT implement xconnector.Factory): connectorStability must answer
// Undefined for every profiles pair through its `f.(xconnector.Factory)` guards and read the other nine cells from the plain interface.
func (w *vWorld) connFactoryPlain(t component.Type, supp [4][4]bool) connector.Factory {
	st := component.StabilityLevelStable
	var o []connector.FactoryOption
	add := func(es, rs int, opt connector.FactoryOption) {
		if supp[es][rs] {
			o = append(o, opt)
		}
	}
	add(0, 0, connector.WithTracesToTraces(func(_ context.Context, s connector.Settings, _ component.Config, n consumer.Traces) (connector.Traces, error) {
		return w.mkConn(s.ID, 0, 0, n)
	}, st))
	add(0, 1, connector.WithTracesToMetrics(func(_ context.Context, s connector.Settings, _ component.Config, n consumer.Metrics) (connector.Traces, error) {
		return w.mkConn(s.ID, 0, 1, n)
	}, st))
	add(0, 2, connector.WithTracesToLogs(func(_ context.Context, s connector.Settings, _ component.Config, n consumer.Logs) (connector.Traces, error) {
		return w.mkConn(s.ID, 0, 2, n)
	}, st))
	add(1, 0, connector.WithMetricsToTraces(func(_ context.Context, s connector.Settings, _ component.Config, n consumer.Traces) (connector.Metrics, error) {
		return w.mkConn(s.ID, 1, 0, n)
	}, st))
	add(1, 1, connector.WithMetricsToMetrics(func(_ context.Context, s connector.Settings, _ component.Config, n consumer.Metrics) (connector.Metrics, error) {
		return w.mkConn(s.ID, 1, 1, n)
	}, st))
	add(1, 2, connector.WithMetricsToLogs(func(_ context.Context, s connector.Settings, _ component.Config, n consumer.Logs) (connector.Metrics, error) {
		return w.mkConn(s.ID, 1, 2, n)
	}, st))
	add(2, 0, connector.WithLogsToTraces(func(_ context.Context, s connector.Settings, _ component.Config, n consumer.Traces) (connector.Logs, error) {
		return w.mkConn(s.ID, 2, 0, n)
	}, st))
	add(2, 1, connector.WithLogsToMetrics(func(_ context.Context, s connector.Settings, _ component.Config, n consumer.Metrics) (connector.Logs, error) {
		return w.mkConn(s.ID, 2, 1, n)
	}, st))
	add(2, 2, connector.WithLogsToLogs(func(_ context.Context, s connector.Settings, _ component.Config, n consumer.Logs) (connector.Logs, error) {
		return w.mkConn(s.ID, 2, 2, n)
	}, st))
	return connector.NewFactory(t, vDefaultCfg, o...)
}

func (w *vWorld) connFactory(t component.Type, supp [4][4]bool) connector.Factory {
	// a support matrix without a profiles pair is served, for every second such matrix, by a plain connector.Factory
	// (deterministic choice: no random draw, the case streams of older seeds are unchanged)
	cells, prof := 0, false
	for i := range supp {
		for j := range supp[i] {
			if supp[i][j] {
				cells++
				prof = prof || i == 3 || j == 3
			}
		}
	}
	if !prof && (cells+len(t.String()))%2 == 0 {
		w.plainConn++
		return w.connFactoryPlain(t, supp)
	}
	st := component.StabilityLevelStable
	var o []xconnector.FactoryOption
	add := func(es, rs int, opt xconnector.FactoryOption) {
		if supp[es][rs] {
			o = append(o, opt)
		}
	}
	add(0, 0, xconnector.WithTracesToTraces(func(_ context.Context, s connector.Settings, _ component.Config, n consumer.Traces) (connector.Traces, error) {
		return w.mkConn(s.ID, 0, 0, n)
	}, st))
	add(0, 1, xconnector.WithTracesToMetrics(func(_ context.Context, s connector.Settings, _ component.Config, n consumer.Metrics) (connector.Traces, error) {
		return w.mkConn(s.ID, 0, 1, n)
	}, st))
	add(0, 2, xconnector.WithTracesToLogs(func(_ context.Context, s connector.Settings, _ component.Config, n consumer.Logs) (connector.Traces, error) {
		return w.mkConn(s.ID, 0, 2, n)
	}, st))
	add(0, 3, xconnector.WithTracesToProfiles(func(_ context.Context, s connector.Settings, _ component.Config, n xconsumer.Profiles) (connector.Traces, error) {
		return w.mkConn(s.ID, 0, 3, n)
	}, st))
	add(1, 0, xconnector.WithMetricsToTraces(func(_ context.Context, s connector.Settings, _ component.Config, n consumer.Traces) (connector.Metrics, error) {
		return w.mkConn(s.ID, 1, 0, n)
	}, st))
	add(1, 1, xconnector.WithMetricsToMetrics(func(_ context.Context, s connector.Settings, _ component.Config, n consumer.Metrics) (connector.Metrics, error) {
		return w.mkConn(s.ID, 1, 1, n)
	}, st))
	add(1, 2, xconnector.WithMetricsToLogs(func(_ context.Context, s connector.Settings, _ component.Config, n consumer.Logs) (connector.Metrics, error) {
		return w.mkConn(s.ID, 1, 2, n)
	}, st))
	add(1, 3, xconnector.WithMetricsToProfiles(func(_ context.Context, s connector.Settings, _ component.Config, n xconsumer.Profiles) (connector.Metrics, error) {
		return w.mkConn(s.ID, 1, 3, n)
	}, st))
	add(2, 0, xconnector.WithLogsToTraces(func(_ context.Context, s connector.Settings, _ component.Config, n consumer.Traces) (connector.Logs, error) {
		return w.mkConn(s.ID, 2, 0, n)
	}, st))
	add(2, 1, xconnector.WithLogsToMetrics(func(_ context.Context, s connector.Settings, _ component.Config, n consumer.Metrics) (connector.Logs, error) {
		return w.mkConn(s.ID, 2, 1, n)
	}, st))
	add(2, 2, xconnector.WithLogsToLogs(func(_ context.Context, s connector.Settings, _ component.Config, n consumer.Logs) (connector.Logs, error) {
		return w.mkConn(s.ID, 2, 2, n)
	}, st))
	add(2, 3, xconnector.WithLogsToProfiles(func(_ context.Context, s connector.Settings, _ component.Config, n xconsumer.Profiles) (connector.Logs, error) {
		return w.mkConn(s.ID, 2, 3, n)
	}, st))
	add(3, 0, xconnector.WithProfilesToTraces(func(_ context.Context, s connector.Settings, _ component.Config, n consumer.Traces) (xconnector.Profiles, error) {
		return w.mkConn(s.ID, 3, 0, n)
	}, st))
	add(3, 1, xconnector.WithProfilesToMetrics(func(_ context.Context, s connector.Settings, _ component.Config, n consumer.Metrics) (xconnector.Profiles, error) {
		return w.mkConn(s.ID, 3, 1, n)
	}, st))
	add(3, 2, xconnector.WithProfilesToLogs(func(_ context.Context, s connector.Settings, _ component.Config, n consumer.Logs) (xconnector.Profiles, error) {
		return w.mkConn(s.ID, 3, 2, n)
	}, st))
	add(3, 3, xconnector.WithProfilesToProfiles(func(_ context.Context, s connector.Settings, _ component.Config, n xconsumer.Profiles) (xconnector.Profiles, error) {
		return w.mkConn(s.ID, 3, 3, n)
	}, st))
	return xconnector.NewFactory(t, vDefaultCfg, o...)
}

const vMaxID = 11

func vSettings(w *vWorld, cfg vCfg) Settings {
	rc, pc, ec, cc := map[component.ID]component.Config{}, map[component.ID]component.Config{}, map[component.ID]component.Config{}, map[component.ID]component.Config{}
	rf, pf, ef := map[component.Type]receiver.Factory{}, map[component.Type]processor.Factory{}, map[component.Type]exporter.Factory{}
	cf := map[component.Type]connector.Factory{}
	for i := 1; i <= vMaxID; i++ {
		id := vID(i)
		rc[id], pc[id], ec[id] = &struct{}{}, &struct{}{}, &struct{}{}
		rf[id.Type()], pf[id.Type()], ef[id.Type()] = w.recvFactory(id.Type()), w.procFactory(id.Type()), w.expFactory(id.Type())
	}
	rc[vID(13)], pc[vID(13)], ec[vID(13)] = &struct{}{}, &struct{}{}, &struct{}{} // configured, but no factory of type nf; 12: the reverse
	for _, c := range cfg.conns {
		id := vID(c.id)
		cc[id] = &struct{}{}
		cf[id.Type()] = w.connFactory(id.Type(), c.supp)
		w.connCfg[c.id] = c
	}
	pcs := pipelines.Config{}
	ids := func(l []int) []component.ID {
		var o []component.ID
		for _, n := range l {
			o = append(o, vID(n))
		}
		return o
	}
	for _, p := range cfg.pipes {
		pcs[vPipeID(p.sig, p.name)] = &pipelines.PipelineConfig{Receivers: ids(p.recv), Processors: ids(p.procs), Exporters: ids(p.exps)}
	}
	return Settings{
		Telemetry: componenttest.NewNopTelemetrySettings(), BuildInfo: component.NewDefaultBuildInfo(),
		ReceiverBuilder: builders.NewReceiver(rc, rf), ProcessorBuilder: builders.NewProcessor(pc, pf),
		ExporterBuilder: builders.NewExporter(ec, ef), ConnectorBuilder: builders.NewConnector(cc, cf),
		PipelineConfigs: pcs,
	}
}

// ---- generator ---------------------------------------------------------------------------------

func vFull() (m [4][4]bool) {
	for i := range m {
		for j := range m[i] {
			m[i][j] = true
		}
	}
	return
}

func vCorpus() []vCfg {
	same := func() (m [4][4]bool) {
		for i := range m {
			m[i][i] = true
		}
		return
	}
	var t2m [4][4]bool
	t2m[0][1] = true
	return []vCfg{
		// 0 one pipeline
		{pipes: []vPipeCfg{{0, 0, []int{1}, []int{1, 2}, []int{1}}}},
		// 1 shared receiver/exporter, same processor ids in two pipelines of one signal, third pipeline other signal
		{pipes: []vPipeCfg{{2, 0, []int{1, 2}, []int{1, 2}, []int{1}}, {2, 1, []int{1}, []int{2, 1}, []int{1, 2}}, {1, 0, []int{1}, nil, []int{1}}}},
		// 2 chain of three with fan-in / fan-out through connectors
		{conns: []vConnCfg{{id: 5, supp: vFull()}, {id: 6, supp: vFull()}}, pipes: []vPipeCfg{
			{0, 0, []int{1}, []int{1}, []int{5, 1}}, {0, 1, []int{2}, nil, []int{5}},
			{1, 0, []int{5}, []int{2}, []int{6, 2}}, {1, 1, []int{5, 3}, []int{3}, []int{6}},
			{2, 0, []int{6}, []int{1, 2, 3}, []int{1, 2}}}},
		// 3 self cycle
		{conns: []vConnCfg{{id: 5, supp: same()}}, pipes: []vPipeCfg{{0, 0, []int{1, 5}, []int{1}, []int{5, 1}}}},
		// 4 two-pipeline cycle across signals
		{conns: []vConnCfg{{id: 5, supp: vFull()}, {id: 6, supp: vFull()}}, pipes: []vPipeCfg{{0, 0, []int{1, 6}, []int{1}, []int{5}}, {1, 0, []int{5}, []int{1}, []int{6, 1}}}},
		// 5 connector used only as exporter
		{conns: []vConnCfg{{id: 5, supp: vFull()}}, pipes: []vPipeCfg{{0, 0, []int{1}, nil, []int{5}}}},
		// 6 connector used on both sides but the signal pair is not supported
		{conns: []vConnCfg{{id: 5, supp: t2m}}, pipes: []vPipeCfg{{1, 0, []int{1}, nil, []int{5}}, {0, 0, []int{5}, nil, []int{1}}}},
		// 7 one traces pipeline into two metrics pipelines and one traces pipeline: two connector instances
		{conns: []vConnCfg{{id: 5, supp: vFull()}}, pipes: []vPipeCfg{{0, 0, []int{1}, []int{1}, []int{5}}, {1, 0, []int{5}, nil, []int{1}}, {1, 1, []int{5}, []int{2}, []int{1}}, {0, 1, []int{5}, nil, []int{2}}}},
		// 8 duplicated ids in the lists; id 3 is a connector although it also names a receiver/exporter config
		{conns: []vConnCfg{{id: 3, supp: vFull()}}, pipes: []vPipeCfg{{2, 0, []int{1, 1, 2}, []int{3}, []int{3, 3, 1, 1}}, {2, 1, []int{3, 2, 3}, []int{1}, []int{2}}}},
		// 9 partially supported: traces->metrics supported, traces->logs not, both used (allowed: "used correctly elsewhere")
		{conns: []vConnCfg{{id: 5, supp: t2m}}, pipes: []vPipeCfg{{0, 0, []int{1}, nil, []int{5}}, {1, 0, []int{5}, nil, []int{1}}, {2, 0, []int{5, 1}, nil, []int{1}}}},
		// 10 processors whose configured order is the reverse of the lexical order of their ids ("k3" > "k2" > "k11" > "k10" > "k1")
		{pipes: []vPipeCfg{{0, 0, []int{1}, []int{3, 2, 11, 10, 1}, []int{1}}, {1, 0, []int{2}, []int{2, 10, 1}, []int{1, 2}}}},
		// 11 rejected by validation: no exporter in one pipeline, a processor listed twice in another
		{pipes: []vPipeCfg{{0, 0, []int{1}, []int{1}, nil}, {2, 0, []int{1}, []int{2, 1, 2}, []int{1}}, {2, 1, []int{1}, nil, []int{1}}}},
		// 12 router-API connector with exactly ONE next pipeline (it must still get the pipeline router), selecting it
		{conns: []vConnCfg{{id: 5, supp: vFull(), selective: true, sel: []int{0, 1}}}, pipes: []vPipeCfg{{0, 0, []int{1}, []int{1}, []int{5}}, {1, 0, []int{5}, []int{2}, []int{1}}}},
		// 13 router-API connectors with two and three next pipelines, selecting one / two / none of them by pipeline id
		{conns: []vConnCfg{{id: 5, supp: vFull(), selective: true, sel: []int{1}}, {id: 6, supp: vFull(), selective: true, sel: []int{0, 2}}, {id: 7, supp: vFull(), selective: true, sel: []int{3}}},
			pipes: []vPipeCfg{{0, 0, []int{1}, nil, []int{5, 6, 7}}, {1, 0, []int{5, 6}, []int{1}, []int{1}}, {1, 1, []int{5, 6, 7}, []int{2}, []int{2}}, {1, 2, []int{6, 7}, []int{3}, []int{3}}}},
		// 14 near-colliding ids side by side: receivers/exporters k/EU (1), k/eu (2), k/Eu (10) in pipelines logs/EU (0), logs/eu (1), logs (2), logs/Eu (5)
		{pipes: []vPipeCfg{{2, 0, []int{1}, []int{2}, []int{2}}, {2, 1, []int{2}, []int{1}, []int{1}}, {2, 2, []int{10, 1}, []int{10, 2, 1}, []int{10}}, {2, 5, []int{2}, []int{1, 10}, []int{1, 10}}}},
		// 15 no pipeline at all: pipelines.Config.Validate "service must have at least one pipeline" (gate service.AllowNoPipelines is off)
		{},
		// 16 a profiles pipeline next to a traces pipeline (with the feature gate service.profilesSupport switched off for this case, see vGateOff)
		{pipes: []vPipeCfg{{0, 0, []int{1}, nil, []int{1}}, {3, 0, []int{1}, []int{1}, []int{2}}}},
	}
}

// vGateOff: the cases validated with the feature gate service.profilesSupport OFF (pipelines.Config.Validate then refuses every profiles
// pipeline): corpus case 16 and ~8% of the random cases (own random stream derived from the case index).
func vGateOff(c, ncorpus int) bool {
	if c < ncorpus {
		return c == 16
	}
	return vRand(c+3<<24).IntN(12) == 0
}

func vPick(rnd *rand.Rand, lo, hi, k int, dups bool) []int {
	var o []int
	seen := map[int]bool{}
	for len(o) < k {
		x := lo + rnd.IntN(hi-lo+1)
		if seen[x] && !dups {
			if len(seen) >= hi-lo+1 {
				break
			}
			continue
		}
		seen[x] = true
		o = append(o, x)
	}
	return o
}

func vGen(rnd *rand.Rand) vCfg {
	var cfg vCfg
	mode := rnd.IntN(10) // 0..5 constructive (acyclic, mostly supported), 6..9 unconstrained
	nsig := 1 + rnd.IntN(4)
	np := 1 + rnd.IntN(6)
	names := map[int]int{}
	for i := 0; i < np; i++ {
		s := rnd.IntN(nsig)
		p := vPipeCfg{sig: s, name: names[s]}
		names[s]++
		p.recv = vPick(rnd, 1, 4, rnd.IntN(3), false)
		p.exps = vPick(rnd, 1, 4, rnd.IntN(3), false)
		p.procs = vPick(rnd, 1, 6, rnd.IntN(5), false)
		for k, x := range p.procs { // ids 10 and 11: "k10" < "k2" - the configured order is rarely the lexical order of the ids
			if x >= 5 {
				p.procs[k] = x + 5
			}
		}
		cfg.pipes = append(cfg.pipes, p)
	}
	nc := rnd.IntN(4)
	if np == 1 && mode <= 5 {
		nc = 0
	}
	for k := 0; k < nc; k++ {
		c := vConnCfg{id: 5 + k}
		if rnd.IntN(12) == 0 {
			c.id = 1 + rnd.IntN(4) // a connector whose id also names receiver/exporter configs
			dup := false
			for _, x := range cfg.conns {
				dup = dup || x.id <= 4 // connector factories are per TYPE and ids 1-4 share the type "k": one of them at most
			}
			if dup {
				c.id = 5 + k
			}
		}
		if rnd.IntN(5) < 2 { // router-API connector delivering to a subset chosen by pipeline id
			c.selective = true
			for x := 0; x < 4; x++ {
				if rnd.IntN(5) < 3 {
					c.sel = append(c.sel, x)
				}
			}
		}
		switch rnd.IntN(4) {
		case 0, 1:
			c.supp = vFull()
		case 2:
			for i := 0; i < 4; i++ {
				for j := 0; j < 4; j++ {
					c.supp[i][j] = rnd.IntN(2) == 0
				}
			}
		}
		uses := 1 + rnd.IntN(3)
		for u := 0; u < uses; u++ {
			i, j := rnd.IntN(np), rnd.IntN(np)
			if mode <= 5 {
				if np < 2 {
					continue
				}
				for i == j {
					j = rnd.IntN(np)
				}
				if i > j {
					i, j = j, i
				}
				c.supp[cfg.pipes[i].sig][cfg.pipes[j].sig] = c.supp[cfg.pipes[i].sig][cfg.pipes[j].sig] || rnd.IntN(10) != 0
			} else if rnd.IntN(4) == 0 {
				// one-sided use
				if rnd.IntN(2) == 0 {
					cfg.pipes[i].exps = append(cfg.pipes[i].exps, c.id)
				} else {
					cfg.pipes[j].recv = append(cfg.pipes[j].recv, c.id)
				}
				continue
			}
			cfg.pipes[i].exps = append(cfg.pipes[i].exps, c.id)
			cfg.pipes[j].recv = append(cfg.pipes[j].recv, c.id)
		}
		cfg.conns = append(cfg.conns, c)
	}
	for i := range cfg.pipes {
		p := &cfg.pipes[i]
		if len(p.recv) == 0 {
			p.recv = []int{1 + rnd.IntN(4)}
		}
		if len(p.exps) == 0 {
			p.exps = []int{1 + rnd.IntN(4)}
		}
		if rnd.IntN(8) == 0 {
			p.recv = append(p.recv, p.recv[rnd.IntN(len(p.recv))]) // duplicate entry in the list
		}
		if rnd.IntN(8) == 0 {
			p.exps = append(p.exps, p.exps[rnd.IntN(len(p.exps))])
		}
		rnd.Shuffle(len(p.recv), func(a, b int) { p.recv[a], p.recv[b] = p.recv[b], p.recv[a] })
		rnd.Shuffle(len(p.exps), func(a, b int) { p.exps[a], p.exps[b] = p.exps[b], p.exps[a] })
	}
	// malformed stream (~6%): one pipeline fails PipelineConfig.Validate; such a configuration is never built
	if rnd.IntN(16) == 0 {
		p := &cfg.pipes[rnd.IntN(len(cfg.pipes))]
		switch k := rnd.IntN(3); {
		case k == 0:
			p.recv = nil
		case k == 1:
			p.exps = nil
		case len(p.procs) > 0:
			p.procs = append(p.procs, p.procs[rnd.IntN(len(p.procs))])
		default:
			p.procs = []int{2, 10, 2}
		}
	}
	return cfg
}

// exhaustive small scope (thorough): idx enumerates <=3 pipelines x 2 signals x <=2 connectors
func vSmall(idx int) (vCfg, bool) {
	// each pipeline: sig (2) x recv choice (plain / conn A / conn B / plain+A) (4) x exp choice (4) x has-proc (2) = 64
	np := 1
	if idx >= 64 {
		idx -= 64
		np = 2
		if idx >= 64*64 {
			idx -= 64 * 64
			np = 3
			if idx >= 64*64*64 {
				return vCfg{}, false
			}
		}
	}
	cfg := vCfg{conns: []vConnCfg{{id: 5, supp: vFull()}, {id: 6, supp: vFull()}}}
	cfg.conns[1].supp[0][1] = false
	names := map[int]int{}
	for i := 0; i < np; i++ {
		d := idx % 64
		idx /= 64
		p := vPipeCfg{sig: d % 2}
		p.name = names[p.sig]
		names[p.sig]++
		choice := func(c int, plain int) []int {
			switch c {
			case 0:
				return []int{plain}
			case 1:
				return []int{5}
			case 2:
				return []int{6}
			}
			return []int{plain, 5}
		}
		p.recv = choice((d/2)%4, 1)
		p.exps = choice((d/8)%4, 1)
		if (d/32)%2 == 1 {
			p.procs = []int{1}
		}
		cfg.pipes = append(cfg.pipes, p)
	}
	return cfg, true
}

func vJoin(l []int) string {
	if len(l) == 0 {
		return "-"
	}
	s := make([]string, len(l))
	for i, x := range l {
		s[i] = strconv.Itoa(x)
	}
	return strings.Join(s, ",")
}

func vEmitCfg(out *vOut, cfg vCfg) {
	for _, c := range cfg.conns {
		var ps []string
		for i := 0; i < 4; i++ {
			for j := 0; j < 4; j++ {
				if c.supp[i][j] {
					ps = append(ps, fmt.Sprintf("%d%d", i, j))
				}
			}
		}
		s := strings.Join(ps, ",")
		if s == "" {
			s = "-"
		}
		if c.selective {
			out.Linef("op conn %d %s sel=%s", c.id, s, vJoin(c.sel))
		} else {
			out.Linef("op conn %d %s", c.id, s)
		}
	}
	for _, p := range cfg.pipes {
		out.Linef("op pipe %d %d %s %s %s", p.sig, p.name, vJoin(p.recv), vJoin(p.procs), vJoin(p.exps))
	}
}

func vErrClass(err error) string {
	if err == nil {
		return "ok"
	}
	msg := err.Error()
	switch {
	case strings.HasPrefix(msg, "cycle detected"):
		return "err=cycle"
	case strings.Contains(msg, "but not used in any supported"):
		return "err=connector"
	case strings.Contains(msg, "verif create failure"):
		return "err=create"
	case strings.HasPrefix(msg, "failed to create") && (strings.Contains(msg, "is not configured") || strings.Contains(msg, "factory not available for")):
		// receiverNode / processorNode / exporterNode.buildComponent wrapping the error of builders.*Builder.Create*
		return "err=create"
	}
	return "err=other:" + hex.EncodeToString([]byte(msg))
}

var (
	vReCycConn = regexp.MustCompile(`^connector "([^"]+)" \((\w+) to (\w+)\)$`)
	vReCycProc = regexp.MustCompile(`^processor "([^"]+)" in pipeline "([a-z]+)(?:/([^"]*))?"$`)
)

// vCycleTokens: the cycle printed by cycleErr as node tokens (c<id>:<es><rs>, p<id>@<sig>.<name>); "?" for an unparsable element.
func vCycleTokens(msg string) []string {
	sig := map[string]int{"traces": 0, "metrics": 1, "logs": 2, "profiles": 3}
	var toks []string
	for _, el := range strings.Split(strings.TrimPrefix(msg, "cycle detected: "), " -> ") {
		if m := vReCycConn.FindStringSubmatch(el); m != nil && vCompByStr[m[1]] != 0 {
			toks = append(toks, fmt.Sprintf("c%d:%d%d", vCompByStr[m[1]], sig[m[2]], sig[m[3]]))
		} else if m := vReCycProc.FindStringSubmatch(el); m != nil && vCompByStr[m[1]] != 0 && vPipeNum(m[3]) >= 0 {
			toks = append(toks, fmt.Sprintf("p%d@%d.%d", vCompByStr[m[1]], sig[m[2]], vPipeNum(m[3])))
		} else {
			toks = append(toks, "?")
		}
	}
	return toks
}

var vReConnErr = regexp.MustCompile(`^connector "([^"]+)" used as (exporter|receiver) in \[([^\]]*)\] pipeline but not used in any supported (receiver|exporter) pipeline$`)

// vConnErrTokens: the connector error of createNodes as tokens "<exp|recv> <connector id> <signal> <sig.name,sig.name,...>" (the signal is
// that of the first listed pipeline; the Lean monitor connMsgOk checks that the list is exactly the pipelines of that signal using the
// connector on that side and that no supported counterpart exists); "?" when the text has another shape.
func vConnErrTokens(msg string) string {
	sig := map[string]int{"traces": 0, "metrics": 1, "logs": 2, "profiles": 3}
	m := vReConnErr.FindStringSubmatch(msg)
	if m == nil || vCompByStr[m[1]] == 0 || (m[2] == "exporter") != (m[4] == "receiver") || m[3] == "" {
		return "?"
	}
	role := "exp"
	if m[2] == "receiver" {
		role = "recv"
	}
	var pipes []string
	first := -1
	for _, el := range strings.Split(m[3], " ") {
		sg, name, _ := strings.Cut(el, "/")
		si, ok := sig[sg]
		if !ok || vPipeNum(name) < 0 {
			return "?"
		}
		if first < 0 {
			first = si
		}
		pipes = append(pipes, fmt.Sprintf("%d.%d", si, vPipeNum(name)))
	}
	return fmt.Sprintf("%s %d %d %s", role, vCompByStr[m[1]], first, strings.Join(pipes, ","))
}

func vValidate(pcs pipelines.Config) (err error) {
	defer func() {
		if r := recover(); r != nil {
			err = fmt.Errorf("panic: %v", r)
		}
	}()
	return xconfmap.Validate(pcs)
}

// vValClass: sorted set of the error classes of all pipelines (xconfmap.Validate joins the errors of all entries).
func vValClass(err error) string {
	if err == nil {
		return "ok"
	}
	msg := err.Error()
	var cls []string
	for _, kv := range [][2]string{{"references processor", "dupproc"}, {"must have at least one exporter", "exporters"}, {"must have at least one receiver", "receivers"},
		{"service must have at least one pipeline", "nopipelines"}, {"profiling signal support is at alpha level", "profilesgate"}} {
		if strings.Contains(msg, kv[0]) {
			cls = append(cls, kv[1])
		}
	}
	if len(cls) == 0 {
		return "err=other:" + hex.EncodeToString([]byte(msg))
	}
	sort.Strings(cls)
	return "err=" + strings.Join(cls, ",")
}

// vDumpPipelines: canonical text of a pipelines.Config value (pipelines sorted by id, lists in their order).
func vDumpPipelines(pcs pipelines.Config) string {
	var l []string
	for id, p := range pcs {
		l = append(l, fmt.Sprintf("%s r=%v p=%v e=%v", id.String(), p.Receivers, p.Processors, p.Exporters))
	}
	sort.Strings(l)
	return strings.Join(l, ";")
}

func vBuild(set Settings) (g *Graph, err error) {
	defer func() {
		if r := recover(); r != nil {
			g, err = nil, fmt.Errorf("panic: %v", r)
		}
	}()
	return Build(context.Background(), set)
}

// label processors by the pipeline whose node owns the instance; returns key=count tokens of all component instances
func vLabelAndCount(g *Graph, w *vWorld) (toks []string, orphan int) {
	owners := map[*vNode][]string{}
	for pid, pn := range g.pipelines {
		for _, n := range pn.processors {
			pnode := n.(*processorNode)
			inst, ok := pnode.Component.(*vNode)
			if !ok {
				continue
			}
			lbl := fmt.Sprintf("p%d@%s", vIDNum(pnode.componentID), vPipeTok(pid))
			inst.label = lbl
			owners[inst] = append(owners[inst], lbl)
		}
	}
	for _, inst := range w.procs {
		ls := owners[inst]
		if len(ls) == 0 {
			orphan++
			continue
		}
		for _, l := range ls {
			if len(ls) == 1 {
				toks = append(toks, l+"=1")
			} else {
				toks = append(toks, l+"=shared")
			}
		}
	}
	for k, n := range w.creates {
		toks = append(toks, fmt.Sprintf("%s=%d", k, n))
	}
	sort.Strings(toks)
	return toks, orphan
}

func TestVerifC09Graph(t *testing.T) {
	// pipelines.Config.Validate accepts profiles pipelines only behind this gate
	if err := featuregate.GlobalRegistry().Set("service.profilesSupport", true); err != nil {
		t.Fatal(err)
	}
	out := vOpen(t)
	defer out.Close()
	out.Linef("model c09-graph 1")
	n := vN(1500)
	corpus := vCorpus()
	small := 0
	if vThorough() {
		small = 64 + 64*64 + 64*64*64
	}
	for _, c := range vCases(n + small) {
		rnd := vRand(c)
		var cfg vCfg
		switch {
		case c < len(corpus):
			cfg = corpus[c]
		case c < n:
			cfg = vGen(rnd)
		default:
			var ok bool
			if cfg, ok = vSmall(c - n); !ok {
				continue
			}
		}
		// 4% of the random cases: one non-connector receiver / exporter / processor entry is replaced by an id that is referenced but
		// unavailable (12: not configured, 13: no factory): the builders' error branches, reached inside buildComponents after other
		// components were created. An own random stream (derived from the case index), so the main stream of the case is unchanged.
		// 12% of the random cases get a WIDE connector fan-out: one more connector (full support matrix, 30% selective) used as exporter in an
		// existing pipeline and as receiver in 3-4 NEW pipelines of one random signal - every signal's router (traces / metrics / logs /
		// profiles) is then built over three or four next pipelines, not only the metrics one of corpus case 13. Own random stream.
		if c >= len(corpus) && c < n {
			r3 := vRand(c + 4<<24)
			if r3.IntN(8) == 0 {
				id := 0
				for _, cand := range []int{5, 6, 7} {
					used := false
					for _, cc := range cfg.conns {
						used = used || cc.id == cand
					}
					if !used {
						id = cand
						break
					}
				}
				sg, k := r3.IntN(4), 3+r3.IntN(2)
				have := 0
				for _, p := range cfg.pipes {
					if p.sig == sg {
						have++
					}
				}
				if id != 0 && have+k <= len(vPipeNames) {
					cc := vConnCfg{id: id, supp: vFull()}
					if r3.IntN(10) < 3 {
						cc.selective = true
						for x := 0; x < len(vPipeNames); x++ {
							if r3.IntN(2) == 0 {
								cc.sel = append(cc.sel, x)
							}
						}
					}
					cfg.conns = append(cfg.conns, cc)
					src := &cfg.pipes[r3.IntN(len(cfg.pipes))]
					src.exps = append(append([]int{}, src.exps...), id)
					for j := 0; j < k; j++ {
						np := vPipeCfg{sig: sg, name: have + j, recv: []int{id}, exps: []int{1 + r3.IntN(4)}}
						if r3.IntN(2) == 0 {
							np.procs = []int{1 + r3.IntN(4)}
						}
						if r3.IntN(3) == 0 {
							np.recv = append(np.recv, 1+r3.IntN(4))
						}
						cfg.pipes = append(cfg.pipes, np)
					}
				}
			}
		}
		var unavailable []string
		if c >= len(corpus) && c < n {
			r2 := vRand(c + 1<<24)
			if r2.IntN(25) == 0 {
				bad := 12 + r2.IntN(2)
				p := &cfg.pipes[r2.IntN(len(cfg.pipes))]
				isConn := func(x int) bool {
					for _, cc := range cfg.conns {
						if cc.id == x {
							return true
						}
					}
					return false
				}
				switch k := r2.IntN(3); {
				case k == 0 && len(p.recv) > 0:
					if i := r2.IntN(len(p.recv)); !isConn(p.recv[i]) {
						p.recv = append([]int{}, p.recv...)
						p.recv[i] = bad
						unavailable = append(unavailable, fmt.Sprintf("r%d:%d", bad, p.sig))
					}
				case k == 1 && len(p.exps) > 0:
					if i := r2.IntN(len(p.exps)); !isConn(p.exps[i]) {
						p.exps = append([]int{}, p.exps...)
						p.exps[i] = bad
						unavailable = append(unavailable, fmt.Sprintf("e%d:%d", bad, p.sig))
					}
				case k == 2 && len(p.procs) > 0:
					i := r2.IntN(len(p.procs))
					p.procs = append([]int{}, p.procs...)
					p.procs[i] = bad
					unavailable = append(unavailable, fmt.Sprintf("p%d@%d.%d", bad, p.sig, p.name))
				}
			}
		}
		out.Linef("case %d", c)
		vEmitCfg(out, cfg)
		w := newVWorld()
		set := vSettings(w, cfg)
		// what otelcol always does first: validate the configuration; the SAME pipelines.Config value is built afterwards.
		// Validation must be read-only: the value is dumped before and after.
		before := vDumpPipelines(set.PipelineConfigs)
		gateOff := vGateOff(c, len(corpus))
		if gateOff {
			if err := featuregate.GlobalRegistry().Set("service.profilesSupport", false); err != nil {
				t.Fatal(err)
			}
			out.Linef("stat profiles_gate_off 1")
		}
		verr := vValidate(set.PipelineConfigs)
		if gateOff {
			if err := featuregate.GlobalRegistry().Set("service.profilesSupport", true); err != nil {
				t.Fatal(err)
			}
			out.Linef("op validate gate=0")
		} else {
			out.Linef("op validate")
		}
		out.Linef("obs validate %s", vValClass(verr))
		if after := vDumpPipelines(set.PipelineConfigs); after != before {
			out.Linef("viol sig=C09/validate/validation-changed-the-configuration before=%s after=%s", vHex(before), vHex(after))
		}
		if verr != nil {
			out.Linef("stat rejected_validation 1")
			out.Linef("stat pipelines %d", len(cfg.pipes))
			out.Linef("end")
			out.Flush()
			continue
		}
		// 30% of the plain exporters declare MutatesData (decided before Build: the fan-outs read Capabilities when they are built)
		for _, p := range cfg.pipes {
			for _, x := range p.exps {
				if rnd.IntN(10) < 3 {
					w.mutExp[fmt.Sprintf("e%d:%d", x, p.sig)] = true
				}
			}
		}
		// 5%: one receiver / exporter factory call fails (a key the configuration uses); Build must return the error
		if c >= len(corpus) && rnd.IntN(20) == 0 {
			p := cfg.pipes[rnd.IntN(len(cfg.pipes))]
			isConn := func(x int) bool {
				for _, cc := range cfg.conns {
					if cc.id == x {
						return true
					}
				}
				return false
			}
			var cand []string
			for _, x := range p.recv {
				if !isConn(x) {
					cand = append(cand, fmt.Sprintf("r%d:%d", x, p.sig))
				}
			}
			for _, x := range p.exps {
				if !isConn(x) {
					cand = append(cand, fmt.Sprintf("e%d:%d", x, p.sig))
				}
			}
			if len(cand) > 0 {
				k := cand[rnd.IntN(len(cand))]
				w.failCreate[k] = true
				out.Linef("op failcreate %s", k)
			}
		}
		for _, k := range unavailable {
			out.Linef("op failcreate %s", k)
			out.Linef("stat unavailable_component_%c 1", k[0])
		}
		// Build must not modify its input: the SAME pipelines.Config value is built again by the real service (service.Validate, then
		// service.New; a reload re-using the settings). Every second case is therefore built TWICE from the very same value - the first
		// build with components of a throw-away world - and everything below (error class, instances, routes, messages) is observed on
		// the SECOND build; in every case the value is dumped before and after each build.
		if c%2 == 1 {
			w0 := newVWorld()
			set0 := vSettings(w0, cfg)
			set0.PipelineConfigs = set.PipelineConfigs
			_, _ = vBuild(set0)
			out.Linef("stat built_twice 1")
			if after := vDumpPipelines(set.PipelineConfigs); after != before {
				out.Linef("viol sig=C09/build/build-changed-the-configuration build=1 before=%s after=%s", vHex(before), vHex(after))
			}
		}
		g, err := vBuild(set)
		if after := vDumpPipelines(set.PipelineConfigs); after != before {
			out.Linef("viol sig=C09/build/build-changed-the-configuration build=last before=%s after=%s", vHex(before), vHex(after))
		}
		out.Linef("op build")
		cls := vErrClass(err)
		out.Linef("obs build %s", cls)
		shared, usesConn := false, false
		seen := map[string]bool{}
		for _, p := range cfg.pipes {
			for _, l := range [][]int{p.recv, p.exps} {
				for _, x := range l {
					for _, cc := range cfg.conns {
						usesConn = usesConn || cc.id == x
					}
				}
			}
			for _, x := range p.recv {
				k := fmt.Sprintf("r%d:%d", x, p.sig)
				shared = shared || seen[k+"/"+strconv.Itoa(p.name)] == false && seen[k]
				seen[k], seen[k+"/"+strconv.Itoa(p.name)] = true, true
			}
			for _, x := range p.exps {
				k := fmt.Sprintf("e%d:%d", x, p.sig)
				shared = shared || seen[k+"/"+strconv.Itoa(p.name)] == false && seen[k]
				seen[k], seen[k+"/"+strconv.Itoa(p.name)] = true, true
			}
		}
		for _, k := range w.notRouter {
			out.Linef("viol sig=C09/connector/next-consumer-is-not-the-pipeline-router %s", k)
		}
		if err != nil && cls == "err=create" && len(w.log) > 0 {
			out.Linef("viol sig=C09/reject/component-started-though-a-factory-failed %s", vHex(strings.Join(w.log, ",")))
		}
		if err != nil {
			if cls == "err=cycle" {
				out.Linef("tr cycle %s", strings.Join(vCycleTokens(err.Error()), " "))
			}
			if cls == "err=connector" {
				out.Linef("tr connerr %s", vConnErrTokens(err.Error()))
			}
			if len(w.creates)+len(w.procs) > 0 && cls != "err=create" {
				out.Linef("viol sig=C09/reject/components-created-before-rejection creates=%d", len(w.creates)+len(w.procs))
			}
			if len(w.log) > 0 {
				out.Linef("viol sig=C09/reject/component-started-on-rejected-configuration %s", vHex(strings.Join(w.log, ",")))
			}
			out.Linef("stat rejected_%s 1", strings.SplitN(strings.TrimPrefix(cls, "err="), ":", 2)[0])
		} else {
			toks, orphan := vLabelAndCount(g, w)
			out.Linef("obs nodes %s", strings.Join(toks, " "))
			// every connector instance's router: exactly the pipelines that list the connector as a receiver with a supported pair
			sort.Strings(w.routers)
			out.Linef("obs routers %d %s", len(w.routers), strings.Join(w.routers, " "))
			for _, k := range w.routerNoErr {
				out.Linef("viol sig=C09/router/consumer-returned-for-no-or-unknown-pipeline-id %s", k)
			}
			if orphan > 0 {
				out.Linef("viol sig=C09/sharing/processor-instance-not-in-any-pipeline n=%d", orphan)
			}
			// 20%: one to three exporters / processors fail in Consume (after recording / after forwarding): the route multisets must not change
			if rnd.IntN(5) == 0 {
				var cand []string
				for k := range w.creates {
					if k[0] == 'e' {
						cand = append(cand, k)
					}
				}
				for _, pn := range w.procs {
					cand = append(cand, pn.label)
				}
				sort.Strings(cand)
				for nf := 1 + rnd.IntN(3); nf > 0 && len(cand) > 0; nf-- {
					k := cand[rnd.IntN(len(cand))]
					if !w.failConsume[k] {
						w.failConsume[k] = true
						out.Linef("op failconsume %s", k)
					}
				}
			}
			keys := make([]string, 0, len(w.recvNext))
			for k := range w.recvNext {
				keys = append(keys, k)
			}
			sort.Strings(keys)
			deliveries, maxhops := 0, 0
			for _, k := range keys {
				var id, sig int
				fmt.Sscanf(k, "r%d:%d", &id, &sig)
				w.delivered = nil
				// the payload's context: live (40%), already cancelled (20%), deadline expired (20%), cancelled by a component at the
				// k-th Consume call of this injection (20%). Routing must not depend on it: the route multiset is diffed as it is.
				ctx, mode := context.Background(), "live"
				w.cancel, w.cancelAt, w.ticks = nil, 0, 0
				var release context.CancelFunc = func() {}
				switch m := rnd.IntN(10); {
				case m < 4:
				case m < 6:
					ctx, release = context.WithCancel(ctx)
					release()
					mode = "cancelled"
				case m < 8:
					ctx, release = context.WithDeadline(ctx, time.Unix(1, 0))
					mode = "expired"
				default:
					ctx, release = context.WithCancel(ctx)
					w.cancel, w.cancelAt = release, 1+rnd.IntN(5)
					mode = fmt.Sprintf("cancel-at-%d", w.cancelAt)
				}
				out.Linef("op ctx %s", mode)
				out.Linef("stat ctx_%s 1", strings.SplitN(mode, "-at-", 2)[0])
				out.Linef("op inject %d %d", sig, id)
				func() {
					defer func() {
						if r := recover(); r != nil {
							w.delivered = append(w.delivered, fmt.Sprintf("panic|%s", vHex(fmt.Sprint(r))))
						}
					}()
					if e := vSend(ctx, w.recvNext[k], sig, ""); e != nil && !strings.Contains(e.Error(), "verif consume failure") {
						w.delivered = append(w.delivered, "error|"+vHex(e.Error()))
					}
				}()
				release()
				sort.Strings(w.delivered)
				out.Linef("obs route %d %s", len(w.delivered), strings.Join(w.delivered, " "))
				deliveries += len(w.delivered)
				for _, d := range w.delivered {
					if h := strings.Count(d, "c"); h > maxhops {
						maxhops = h
					}
				}
			}
			out.Linef("stat built 1")
			out.Linef("stat consume_errors_injected %d", w.consumeErrs)
			out.Linef("stat routes %d", len(keys))
			out.Linef("stat deliveries %d", deliveries)
			out.Linef("stat connector_hops_max_%d 1", maxhops)
		}
		if usesConn || shared {
			out.Linef("nt")
		}
		out.Linef("stat pipelines %d", len(cfg.pipes))
		out.Linef("stat plain_connector_factories %d", w.plainConn)
		out.Linef("end")
		out.Flush()
	}
}
