//go:build verif

package otelcol

// C10 harness, part 3: the same generated configurations and instrumented components as the lifecycle harness, but behind the REAL
// otelcol.Collector: NewCollector + Run with a real ConfigProvider (in-memory confmap.Provider), real config validation, real
// service.New / Start, and — the point of this harness — the collector's OWN shutdown after a failed start
// (collector.go setupConfigurationComponents: `if err = col.service.Start(ctx); err != nil { return multierr.Combine(err, col.service.Shutdown(ctx)) }`)
// with the failure injected at an extension, an exporter, a processor, a connector or a receiver (Start), at a NotifyConfig / Ready hook,
// and Shutdown failures. A collector that came up is shut down through Collector.Shutdown().
//
// Same line protocol and same Lean model (`c10-lifecycle`, Drivers/C10.lean) as the lifecycle harness. The components file is a
// generated copy of harness/c10/components_test.go with `package otelcol` (lib/props/c10.py).

import (
	"context"
	"fmt"
	"sort"
	"strconv"
	"strings"
	"testing"
	"time"

	"go.uber.org/zap"
	"go.uber.org/zap/zapcore"

	"go.opentelemetry.io/collector/component"
	"go.opentelemetry.io/collector/confmap"
	"go.opentelemetry.io/collector/featuregate"
)

type vMemProvider struct{ m map[string]any }

func (p *vMemProvider) Retrieve(context.Context, string, confmap.WatcherFunc) (*confmap.Retrieved, error) {
	return confmap.NewRetrieved(p.m)
}
func (p *vMemProvider) Scheme() string                 { return "verif" }
func (p *vMemProvider) Shutdown(context.Context) error { return nil }

func vIDStrs(l []int) []any {
	o := make([]any, 0, len(l))
	for _, n := range l {
		o = append(o, vID(n).String())
	}
	return o
}

// vConfMap: the collector configuration (what a user would write in YAML) for one generated configuration
func vConfMap(cfg vCfg) map[string]any {
	conns := map[string]any{}
	for _, c := range cfg.conns {
		conns[vID(c.id).String()] = nil
	}
	// (otelcol's validation refuses an id that names both a connector and a receiver/exporter: "ambiguous ID")
	comps := func(n int) map[string]any {
		m := map[string]any{}
		for i := 1; i <= n; i++ {
			if _, isConn := conns[vID(i).String()]; !isConn {
				m[vID(i).String()] = nil
			}
		}
		return m
	}
	pipes := map[string]any{}
	for _, p := range cfg.pipes {
		pipes[vSignals[p.sig].String()+"/"+strconv.Itoa(p.name)] = map[string]any{
			"receivers": vIDStrs(p.recv), "processors": vIDStrs(p.procs), "exporters": vIDStrs(p.exps)}
	}
	var xs []int
	for _, e := range cfg.exts {
		xs = append(xs, e.id)
	}
	exts := map[string]any{}
	for i := 1; i <= vMaxExtID; i++ {
		exts[vID(i).String()] = nil
	}
	return map[string]any{
		"receivers": comps(vMaxID), "processors": comps(vMaxID), "exporters": comps(vMaxID), "connectors": conns, "extensions": exts,
		"service": map[string]any{
			"extensions": vIDStrs(xs),
			"pipelines":  pipes,
			"telemetry": map[string]any{
				"logs":    map[string]any{"level": "ERROR", "disable_caller": true, "disable_stacktrace": true},
				"metrics": map[string]any{"level": "none"},
			},
		},
	}
}

func vColErrClass(msg string) string {
	switch {
	case strings.Contains(msg, "but not used in any"):
		return "connector"
	case strings.Contains(msg, "cycle detected"):
		return "cycle"
	case strings.Contains(msg, "unable to find extension"):
		return "extmissing"
	case strings.Contains(msg, "unable to order extensions"):
		return "extcycle"
	}
	return "other:" + vHex(msg)
}

func TestVerifC10Collector(t *testing.T) {
	if err := featuregate.GlobalRegistry().Set("service.profilesSupport", true); err != nil {
		t.Fatal(err)
	}
	out := vOpen(t)
	defer out.Close()
	out.Linef("model c10-lifecycle 1")
	n := vN(300)
	ncorpus := len(vCorpus())
	cases := vCases(n)
	if len(cases) == 1 && n != 1 { // replayed case: gonum's order depends on map iteration
		for i := 0; i < 7; i++ {
			cases = append(cases, cases[0])
		}
	}
	for _, c := range cases {
		rnd := vRand(c)
		var cfg vCfg
		if c < ncorpus {
			cfg = vCorpus()[c]
		} else {
			cfg = vGen(rnd)
		}
		vRemapProcs(&cfg)
		cfg.exts = vGenExts(rnd)
		vGenShared(rnd, &cfg)
		vGenSharedMore(rnd, &cfg)

		w := newVWorld()
		// failure injection, decided before anything exists: 60% one failing Start at the idx-th created component of a kind
		// (extension / exporter / processor / connector / receiver), 25% one failing Shutdown, 8% a failing NotifyConfig, 8% a failing Ready
		kinds := []byte{'x', 'e', 'p', 'c', 'r'}
		if !cfg.noFail && rnd.IntN(10) < 6 {
			w.failRules = append(w.failRules, vFailRule{kind: kinds[rnd.IntN(len(kinds))], idx: rnd.IntN(3)})
		}
		if !cfg.noFail && rnd.IntN(4) == 0 {
			w.failRules = append(w.failRules, vFailRule{kind: kinds[rnd.IntN(len(kinds))], idx: rnd.IntN(3), stop: true})
		}
		var fnotify, fready []string
		if len(cfg.exts) > 0 && rnd.IntN(12) == 0 {
			fnotify = append(fnotify, fmt.Sprintf("x%d", cfg.exts[rnd.IntN(len(cfg.exts))].id))
		}
		if len(cfg.exts) > 0 && rnd.IntN(12) == 0 {
			fready = append(fready, fmt.Sprintf("x%d", cfg.exts[rnd.IntN(len(cfg.exts))].id))
		}
		for _, l := range fnotify {
			w.failNotify[l] = true
		}
		for _, l := range fready {
			w.failReady[l] = true
		}
		var fnotready []string
		if len(cfg.exts) > 0 && rnd.IntN(8) == 0 {
			fnotready = append(fnotready, fmt.Sprintf("x%d", cfg.exts[rnd.IntN(len(cfg.exts))].id))
		}
		for _, l := range fnotready {
			w.failNotReady[l] = true
		}

		m := vMaps(w, cfg)
		col, err := NewCollector(CollectorSettings{
			Factories: func() (Factories, error) {
				return Factories{Receivers: m.rf, Processors: m.pf, Exporters: m.ef, Connectors: m.cf, Extensions: m.xf}, nil
			},
			BuildInfo:               component.NewDefaultBuildInfo(),
			DisableGracefulShutdown: true,
			SkipSettingGRPCLogger:   true,
			LoggingOptions:          []zap.Option{zap.WrapCore(func(zapcore.Core) zapcore.Core { return zapcore.NewNopCore() })},
			ConfigProviderSettings: ConfigProviderSettings{ResolverSettings: confmap.ResolverSettings{
				URIs: []string{"verif:cfg"},
				ProviderFactories: []confmap.ProviderFactory{confmap.NewProviderFactory(func(confmap.ProviderSettings) confmap.Provider {
					return &vMemProvider{m: vConfMap(cfg)}
				})},
			}},
		})
		if err != nil {
			t.Fatalf("NewCollector: %v", err)
		}
		done := make(chan error, 1)
		go func() {
			defer func() {
				if r := recover(); r != nil {
					done <- fmt.Errorf("panic: %v", r)
				}
			}()
			done <- col.Run(context.Background())
		}()
		var runErr error
		cameUp, hung := false, false
		deadline := time.After(20 * time.Second)
	wait:
		for {
			select {
			case runErr = <-done:
				break wait
			case <-deadline:
				hung = true
				break wait
			default:
				if col.GetState() == StateRunning {
					cameUp = true
					col.Shutdown()
					select {
					case runErr = <-done:
					case <-time.After(20 * time.Second):
						hung = true
					}
					break wait
				}
				time.Sleep(200 * time.Microsecond)
			}
		}

		out.Linef("case %d", c)
		vEmitCfg(out, cfg)
		if hung {
			out.Linef("viol sig=C10/collector/run-did-not-return came_up=%v", cameUp)
			out.Linef("end")
			out.Flush()
			continue
		}
		msg := ""
		if runErr != nil {
			msg = runErr.Error()
		}
		if !cameUp && len(w.log) == 0 {
			// configuration validation or service.New rejected it: nothing may exist that was started
			out.Linef("obs new err=%s", vColErrClass(msg))
			if cls := vColErrClass(msg); cls == "extcycle" || cls == "extmissing" {
				out.Linef("tr extmsg %s", vExtMsgTokens(msg))
			}
			out.Linef("stat rejected_%s 1", strings.SplitN(vColErrClass(msg), ":", 2)[0])
			out.Linef("stat pipelines %d", len(cfg.pipes))
			out.Linef("end")
			out.Flush()
			continue
		}
		out.Linef("obs new ok")
		sort.Strings(w.injStart)
		sort.Strings(w.injStop)
		for _, l := range w.injStart {
			out.Linef("op failstart %s", l)
		}
		for _, l := range w.injStop {
			out.Linef("op failstop %s", l)
		}
		for _, l := range fnotify {
			out.Linef("op failnotify %s", l)
		}
		for _, l := range fready {
			out.Linef("op failready %s", l)
		}
		for _, l := range fnotready {
			out.Linef("op failnotready %s", l)
		}
		out.Linef("op run")
		var stops, stopFails, startLog, stopLog []string
		for _, e := range w.log {
			res := "ok"
			if e.fail {
				res = "fail"
			}
			out.Linef("tr ev %s %s %s", e.kind, e.label, res)
			switch e.kind {
			case "start", "istart":
				startLog = append(startLog, e.label+"="+res)
			case "notify", "ready":
				startLog = append(startLog, e.kind+"."+e.label+"="+res)
			case "stop", "istop":
				stopLog = append(stopLog, e.label+"="+res)
				stops = append(stops, e.label)
				if e.fail {
					stopFails = append(stopFails, e.label)
				}
			case "notready":
				stopLog = append(stopLog, e.kind+"."+e.label+"="+res)
			}
		}
		for _, e := range w.extInst {
			if e.nStart == 0 && e.nStop == 0 {
				out.Linef("tr orphan %s", e.label)
			}
			if e.nStart > 1 || e.nStop > 1 {
				out.Linef("viol sig=C10/extensions/one-instance-started-or-stopped-more-than-once %s starts=%d stops=%d", e.label, e.nStart, e.nStop)
			}
		}
		// Run's result: a collector that did not come up must return the start error; the errors of the shutdown are joined to it
		if cameUp {
			out.Linef("obs start ok")
		} else {
			out.Linef("obs start fail")
			if runErr == nil {
				out.Linef("viol sig=C10/collector/failed-start-not-reported-by-run")
			}
		}
		sort.Strings(stops)
		sort.Strings(stopFails)
		pr := func(head string, l []string) {
			if len(l) == 0 {
				out.Linef("obs %s 0", head)
			} else {
				out.Linef("obs %s %d %s", head, len(l), strings.Join(l, " "))
			}
		}
		pr("stops", stops)
		pr("stoperr", stopFails)
		if strings.Contains(msg, "verif shutdown failure") {
			out.Linef("obs shutdown err")
		} else {
			out.Linef("obs shutdown ok")
		}
		out.Linef("obs startlog %d %s", len(startLog), strings.Join(startLog, " "))
		out.Linef("obs stoplog %d %s", len(stopLog), strings.Join(stopLog, " "))
		out.Linef("nt")
		out.Linef("stat built 1")
		if !cameUp {
			out.Linef("stat startfail 1")
			for _, l := range w.injStart {
				out.Linef("stat startfail_kind_%c 1", l[0])
			}
		}
		out.Linef("stat stopfail %d", len(stopFails))
		out.Linef("stat pipelines %d", len(cfg.pipes))
		out.Linef("end")
		out.Flush()
	}
}
