//go:build verif

package service

// C10 harness, part 1: instrumented receivers/processors/exporters/connectors/extensions that record
// every Start/Shutdown call (and its outcome) in a per-case world log, a receiver variant that wraps
// internal/sharedcomponent, the factories, the random configuration generator (pipelines/connectors
// copied from harness/c09/graph_test.go) and vMaps (config/factory maps). Package-independent: lib/props/c10.py generates a copy
// with `package otelcol` for the collector harness.

import (
	"context"
	"fmt"
	"math/rand/v2"
	"os"
	"regexp"
	"sort"
	"strconv"
	"strings"

	"go.opentelemetry.io/collector/component"
	"go.opentelemetry.io/collector/confmap"
	"go.opentelemetry.io/collector/connector"
	"go.opentelemetry.io/collector/connector/xconnector"
	"go.opentelemetry.io/collector/consumer"
	"go.opentelemetry.io/collector/consumer/xconsumer"
	"go.opentelemetry.io/collector/exporter"
	"go.opentelemetry.io/collector/exporter/xexporter"
	"go.opentelemetry.io/collector/extension"
	"go.opentelemetry.io/collector/extension/extensioncapabilities"
	"go.opentelemetry.io/collector/internal/sharedcomponent"
	"go.opentelemetry.io/collector/pdata/plog"
	"go.opentelemetry.io/collector/pdata/pmetric"
	"go.opentelemetry.io/collector/pdata/pprofile"
	"go.opentelemetry.io/collector/pdata/ptrace"
	"go.opentelemetry.io/collector/pipeline"
	"go.opentelemetry.io/collector/pipeline/xpipeline"
	"go.opentelemetry.io/collector/processor"
	"go.opentelemetry.io/collector/processor/xprocessor"
	"go.opentelemetry.io/collector/receiver"
	"go.opentelemetry.io/collector/receiver/xreceiver"
	"go.opentelemetry.io/collector/service/extensions"
	"go.opentelemetry.io/collector/service/pipelines"
)

var vSignals = []pipeline.Signal{pipeline.SignalTraces, pipeline.SignalMetrics, pipeline.SignalLogs, xpipeline.SignalProfiles}

type vConnCfg struct {
	id   int
	supp [4][4]bool
}

type vPipeCfg struct {
	sig, name         int
	recv, procs, exps []int
}

type vExtCfg struct {
	id   int
	deps []int
}

type vCfg struct {
	conns      []vConnCfg
	pipes      []vPipeCfg
	exts       []vExtCfg // in the order of service Config.Extensions
	shared     int       // id of the receiver built on sharedcomponent, 0 = none
	sharedExp  int       // id of the exporter built on sharedcomponent, 0 = none
	sharedConn int       // id of the connector built on sharedcomponent, 0 = none
	noFail     bool      // corpus witnesses: no failure injection
}

func vID(n int) component.ID { return component.MustNewID("k" + strconv.Itoa(n)) }

func vIDNum(id component.ID) int {
	n, _ := strconv.Atoi(strings.TrimPrefix(id.Type().String(), "k"))
	return n
}

// ---- instrumented components -------------------------------------------------------------------

// vEv is one lifecycle call. It is appended when the call is ENTERED (so the log is in order of
// occurrence, an outer shared receiver before the inner component it drives) and fail is filled in
// when the call returns.
type vEv struct {
	kind  string // start | stop | istart | istop
	label string
	fail  bool
}

type vWorld struct {
	creates      map[string]int // receivers r<id>:<sig>, exporters e<id>:<sig>, connectors c<id>:<es><rs>
	procs        []string       // processor labels p<id>@<sig>.<name>, one per created instance
	procTok      map[int]string // unique processor id -> pipeline token "<sig>.<name>" (filled by the generator)
	extDeps      map[int][]int  // extension id -> dependencies
	exts         []string       // created extension labels x<id>
	extInst      []*vExt        // every created extension instance
	sharedID     int            // receiver id built on sharedcomponent (0 = none)
	sharedExpID  int            // exporter id built on sharedcomponent (0 = none); inner label u<id>
	sharedConnID int            // connector id built on sharedcomponent (0 = none); inner label w<id>
	sharedMap    *sharedcomponent.Map[int, *vInner]
	sink         *vSink   // where the inner components of this process log: the current lifetime
	inners       []string // created inner labels s<id>
	log          []vEv
	failStart    map[string]bool
	failStop     map[string]bool
	failCreate   map[string]bool // exporter keys / extension labels whose factory returns an error
	// failure injection by creation order (collector harness: the labels are not known before Run): the idx-th created
	// component of the kind gets a failing Start (or Shutdown); what it landed on is recorded in injStart / injStop
	failRules         []vFailRule
	kindCount         map[byte]int
	injStart, injStop []string
	// extension labels whose NotifyConfig / Ready / NotReady returns an error
	failNotify, failReady, failNotReady map[string]bool
}

func newVWorld() *vWorld {
	w := newVWorld0()
	w.sink = &vSink{w: w}
	return w
}

func newVWorld0() *vWorld {
	return &vWorld{creates: map[string]int{}, procTok: map[int]string{}, extDeps: map[int][]int{},
		sharedMap: sharedcomponent.NewMap[int, *vInner](), failStart: map[string]bool{}, failStop: map[string]bool{},
		failNotify: map[string]bool{}, failReady: map[string]bool{}, failNotReady: map[string]bool{}, failCreate: map[string]bool{}}
}

type vFailRule struct {
	kind byte // r p e c x
	idx  int
	stop bool
}

// created: called once per created component instance
func (w *vWorld) created(kind byte, label string) {
	if w.kindCount == nil {
		w.kindCount = map[byte]int{}
	}
	n := w.kindCount[kind]
	w.kindCount[kind] = n + 1
	for _, r := range w.failRules {
		if r.kind == kind && r.idx == n {
			if r.stop {
				if !w.failStop[label] {
					w.failStop[label] = true
					w.injStop = append(w.injStop, label)
				}
			} else if !w.failStart[label] {
				w.failStart[label] = true
				w.injStart = append(w.injStart, label)
			}
		}
	}
}

func (w *vWorld) begin(kind, label string) int {
	w.log = append(w.log, vEv{kind: kind, label: label})
	return len(w.log) - 1
}

func (w *vWorld) done(i int, err error) error {
	w.log[i].fail = err != nil
	return err
}

func (w *vWorld) startErr(label string) error {
	if w.failStart[label] {
		return fmt.Errorf("verif start failure %s", label)
	}
	return nil
}

func (w *vWorld) stopErr(label string) error {
	if w.failStop[label] {
		return fmt.Errorf("verif shutdown failure %s", label)
	}
	return nil
}

// vNode: plain receiver / processor / exporter / connector / extension instance.
type vNode struct {
	w     *vWorld
	kind  byte
	label string
	deps  []component.ID // extensions only
}

func (n *vNode) Start(context.Context, component.Host) error {
	i := n.w.begin("start", n.label)
	return n.w.done(i, n.w.startErr(n.label))
}

func (n *vNode) Shutdown(context.Context) error {
	i := n.w.begin("stop", n.label)
	return n.w.done(i, n.w.stopErr(n.label))
}

func (n *vNode) Capabilities() consumer.Capabilities {
	return consumer.Capabilities{MutatesData: n.kind == 'p'}
}

// no payload is ever sent in this harness; the consume methods only satisfy the interfaces.
func (n *vNode) ConsumeTraces(context.Context, ptrace.Traces) error       { return nil }
func (n *vNode) ConsumeMetrics(context.Context, pmetric.Metrics) error    { return nil }
func (n *vNode) ConsumeLogs(context.Context, plog.Logs) error             { return nil }
func (n *vNode) ConsumeProfiles(context.Context, pprofile.Profiles) error { return nil }

// vExt: extension with declared dependencies; counts the calls on this very instance (an id listed twice in
// service::extensions is created twice by extensions.New).
type vExt struct {
	vNode
	nStart, nStop int
}

func (e *vExt) Start(ctx context.Context, h component.Host) error {
	e.nStart++
	return e.vNode.Start(ctx, h)
}

func (e *vExt) Shutdown(ctx context.Context) error {
	e.nStop++
	return e.vNode.Shutdown(ctx)
}

// every test extension is a ConfigWatcher and a PipelineWatcher: Service.Start can fail through these hooks
// although no component's Start failed.
var (
	_ extensioncapabilities.ConfigWatcher   = (*vExt)(nil)
	_ extensioncapabilities.PipelineWatcher = (*vExt)(nil)
)

func (e *vExt) NotifyConfig(context.Context, *confmap.Conf) error {
	i := e.w.begin("notify", e.label)
	if e.w.failNotify[e.label] {
		return e.w.done(i, fmt.Errorf("verif NotifyConfig failure %s", e.label))
	}
	return e.w.done(i, nil)
}

func (e *vExt) Ready() error {
	i := e.w.begin("ready", e.label)
	if e.w.failReady[e.label] {
		return e.w.done(i, fmt.Errorf("verif Ready failure %s", e.label))
	}
	return e.w.done(i, nil)
}

// NotReady: Service.Shutdown calls it on every PipelineWatcher before anything is shut down; an error is reported by Shutdown
// but must not stop the remaining notifications or shutdowns.
func (e *vExt) NotReady() error {
	i := e.w.begin("notready", e.label)
	if e.w.failNotReady[e.label] {
		return e.w.done(i, fmt.Errorf("verif shutdown failure NotReady %s", e.label))
	}
	return e.w.done(i, nil)
}

var _ extensioncapabilities.Dependent = (*vExt)(nil)

func (e *vExt) Dependencies() []component.ID { return e.deps }

// vInner: the component shared by all signal instances of the shared receiver id.
//
// The sharedcomponent.Map may outlive one service (the otlp receiver's factory keeps its map for the life of the process): the
// inner component therefore does not belong to one world, it logs into whatever world (= service lifetime) is current.
type vInner struct {
	sink  *vSink
	label string
}

// vSink: the world of the service lifetime that is running now
type vSink struct{ w *vWorld }

func (n *vInner) Start(context.Context, component.Host) error {
	w := n.sink.w
	i := w.begin("istart", n.label)
	return w.done(i, w.startErr(n.label))
}

func (n *vInner) Shutdown(context.Context) error {
	w := n.sink.w
	i := w.begin("istop", n.label)
	return w.done(i, w.stopErr(n.label))
}

// nextLifetime: a fresh world for the next service built in the same process: same (persistent) sharedcomponent.Map
func (w *vWorld) nextLifetime() *vWorld {
	n := newVWorld()
	n.sharedMap = w.sharedMap
	n.sink = w.sink
	n.sink.w = n
	return n
}

func (w *vWorld) noteInner(label string) {
	for _, x := range w.inners {
		if x == label {
			return
		}
	}
	w.inners = append(w.inners, label)
}

// vOuter: one signal instance of the shared receiver; delegates to the sharedcomponent wrapper.
type vOuter struct {
	w      *vWorld
	label  string
	shared *sharedcomponent.Component[*vInner]
}

func (n *vOuter) Start(ctx context.Context, host component.Host) error {
	i := n.w.begin("start", n.label)
	if err := n.w.startErr(n.label); err != nil {
		return n.w.done(i, err)
	}
	return n.w.done(i, n.shared.Start(ctx, host))
}

func (n *vOuter) Shutdown(ctx context.Context) error {
	i := n.w.begin("stop", n.label)
	return n.w.done(i, n.shared.Shutdown(ctx))
}

func (n *vOuter) Capabilities() consumer.Capabilities                      { return consumer.Capabilities{} }
func (n *vOuter) ConsumeTraces(context.Context, ptrace.Traces) error       { return nil }
func (n *vOuter) ConsumeMetrics(context.Context, pmetric.Metrics) error    { return nil }
func (n *vOuter) ConsumeLogs(context.Context, plog.Logs) error             { return nil }
func (n *vOuter) ConsumeProfiles(context.Context, pprofile.Profiles) error { return nil }

// vAll: what exporter and connector factories hand out (a plain vNode or a shared vOuter).
type vAll interface {
	component.Component
	consumer.Traces
	consumer.Metrics
	consumer.Logs
	xconsumer.Profiles
}

// sharedOuter: an instance of a component built on sharedcomponent; kind 1 = exporter (inner u<id>), 2 = connector (inner w<id>).
func (w *vWorld) sharedOuter(kind, num int, key string) vAll {
	prefix := map[int]string{1: "u", 2: "w"}[kind]
	sh, err := w.sharedMap.LoadOrStore(kind*1000+num, func() (*vInner, error) {
		return &vInner{sink: w.sink, label: fmt.Sprintf("%s%d", prefix, num)}, nil
	})
	if err != nil {
		panic(err)
	}
	w.noteInner(fmt.Sprintf("%s%d", prefix, num))
	return &vOuter{w: w, label: key, shared: sh}
}

func vDefaultCfg() component.Config { return &struct{}{} }

func (w *vWorld) mkRecv(id component.ID, sig int) (component.Component, error) {
	num := vIDNum(id)
	key := fmt.Sprintf("r%d:%d", num, sig)
	w.created('r', key)
	if num == w.sharedID {
		sh, err := w.sharedMap.LoadOrStore(num, func() (*vInner, error) {
			return &vInner{sink: w.sink, label: fmt.Sprintf("s%d", num)}, nil
		})
		if err != nil {
			return nil, err
		}
		w.noteInner(fmt.Sprintf("s%d", num))
		w.creates[key]++
		return &vOuter{w: w, label: key, shared: sh}, nil
	}
	w.creates[key]++
	return &vNode{w: w, kind: 'r', label: key}, nil
}

func (w *vWorld) mkExp(id component.ID, sig int) (vAll, error) {
	key := fmt.Sprintf("e%d:%d", vIDNum(id), sig)
	if w.failCreate[key] { // a factory that fails inside graph.Build (buildComponents), after other components were created
		return nil, fmt.Errorf("verif create failure %s", key)
	}
	w.created('e', key)
	w.creates[key]++
	if vIDNum(id) == w.sharedExpID {
		return w.sharedOuter(1, vIDNum(id), key), nil
	}
	return &vNode{w: w, kind: 'e', label: key}, nil
}

func (w *vWorld) mkProc(id component.ID) *vNode {
	num := vIDNum(id)
	tok, ok := w.procTok[num]
	if !ok {
		tok = "?"
	}
	n := &vNode{w: w, kind: 'p', label: fmt.Sprintf("p%d@%s", num, tok)}
	w.created('p', n.label)
	w.procs = append(w.procs, n.label)
	return n
}

func (w *vWorld) mkConn(id component.ID, es, rs int) vAll {
	key := fmt.Sprintf("c%d:%d%d", vIDNum(id), es, rs)
	w.created('c', key)
	w.creates[key]++
	if vIDNum(id) == w.sharedConnID {
		return w.sharedOuter(2, vIDNum(id), key)
	}
	return &vNode{w: w, kind: 'c', label: key}
}

func (w *vWorld) mkExt(id component.ID) *vExt {
	num := vIDNum(id)
	e := &vExt{vNode: vNode{w: w, kind: 'x', label: fmt.Sprintf("x%d", num)}}
	w.extInst = append(w.extInst, e)
	w.created('x', e.label)
	for _, d := range w.extDeps[num] {
		e.deps = append(e.deps, vID(d))
	}
	w.exts = append(w.exts, e.label)
	return e
}

func (w *vWorld) recvFactory(t component.Type) receiver.Factory {
	return xreceiver.NewFactory(t, vDefaultCfg,
		xreceiver.WithTraces(func(_ context.Context, s receiver.Settings, _ component.Config, _ consumer.Traces) (receiver.Traces, error) {
			return w.mkRecv(s.ID, 0)
		}, component.StabilityLevelStable),
		xreceiver.WithMetrics(func(_ context.Context, s receiver.Settings, _ component.Config, _ consumer.Metrics) (receiver.Metrics, error) {
			return w.mkRecv(s.ID, 1)
		}, component.StabilityLevelStable),
		xreceiver.WithLogs(func(_ context.Context, s receiver.Settings, _ component.Config, _ consumer.Logs) (receiver.Logs, error) {
			return w.mkRecv(s.ID, 2)
		}, component.StabilityLevelStable),
		xreceiver.WithProfiles(func(_ context.Context, s receiver.Settings, _ component.Config, _ xconsumer.Profiles) (xreceiver.Profiles, error) {
			return w.mkRecv(s.ID, 3)
		}, component.StabilityLevelStable))
}

func (w *vWorld) procFactory(t component.Type) processor.Factory {
	return xprocessor.NewFactory(t, vDefaultCfg,
		xprocessor.WithTraces(func(_ context.Context, s processor.Settings, _ component.Config, _ consumer.Traces) (processor.Traces, error) {
			return w.mkProc(s.ID), nil
		}, component.StabilityLevelStable),
		xprocessor.WithMetrics(func(_ context.Context, s processor.Settings, _ component.Config, _ consumer.Metrics) (processor.Metrics, error) {
			return w.mkProc(s.ID), nil
		}, component.StabilityLevelStable),
		xprocessor.WithLogs(func(_ context.Context, s processor.Settings, _ component.Config, _ consumer.Logs) (processor.Logs, error) {
			return w.mkProc(s.ID), nil
		}, component.StabilityLevelStable),
		xprocessor.WithProfiles(func(_ context.Context, s processor.Settings, _ component.Config, _ xconsumer.Profiles) (xprocessor.Profiles, error) {
			return w.mkProc(s.ID), nil
		}, component.StabilityLevelStable))
}

func (w *vWorld) expFactory(t component.Type) exporter.Factory {
	return xexporter.NewFactory(t, vDefaultCfg,
		xexporter.WithTraces(func(_ context.Context, s exporter.Settings, _ component.Config) (exporter.Traces, error) {
			return w.mkExp(s.ID, 0)
		}, component.StabilityLevelStable),
		xexporter.WithMetrics(func(_ context.Context, s exporter.Settings, _ component.Config) (exporter.Metrics, error) {
			return w.mkExp(s.ID, 1)
		}, component.StabilityLevelStable),
		xexporter.WithLogs(func(_ context.Context, s exporter.Settings, _ component.Config) (exporter.Logs, error) {
			return w.mkExp(s.ID, 2)
		}, component.StabilityLevelStable),
		xexporter.WithProfiles(func(_ context.Context, s exporter.Settings, _ component.Config) (xexporter.Profiles, error) {
			return w.mkExp(s.ID, 3)
		}, component.StabilityLevelStable))
}

func (w *vWorld) connFactory(t component.Type, supp [4][4]bool) connector.Factory {
	st := component.StabilityLevelStable
	var o []xconnector.FactoryOption
	add := func(es, rs int, opt xconnector.FactoryOption) {
		if supp[es][rs] {
			o = append(o, opt)
		}
	}
	add(0, 0, xconnector.WithTracesToTraces(func(_ context.Context, s connector.Settings, _ component.Config, _ consumer.Traces) (connector.Traces, error) {
		return w.mkConn(s.ID, 0, 0), nil
	}, st))
	add(0, 1, xconnector.WithTracesToMetrics(func(_ context.Context, s connector.Settings, _ component.Config, _ consumer.Metrics) (connector.Traces, error) {
		return w.mkConn(s.ID, 0, 1), nil
	}, st))
	add(0, 2, xconnector.WithTracesToLogs(func(_ context.Context, s connector.Settings, _ component.Config, _ consumer.Logs) (connector.Traces, error) {
		return w.mkConn(s.ID, 0, 2), nil
	}, st))
	add(0, 3, xconnector.WithTracesToProfiles(func(_ context.Context, s connector.Settings, _ component.Config, _ xconsumer.Profiles) (connector.Traces, error) {
		return w.mkConn(s.ID, 0, 3), nil
	}, st))
	add(1, 0, xconnector.WithMetricsToTraces(func(_ context.Context, s connector.Settings, _ component.Config, _ consumer.Traces) (connector.Metrics, error) {
		return w.mkConn(s.ID, 1, 0), nil
	}, st))
	add(1, 1, xconnector.WithMetricsToMetrics(func(_ context.Context, s connector.Settings, _ component.Config, _ consumer.Metrics) (connector.Metrics, error) {
		return w.mkConn(s.ID, 1, 1), nil
	}, st))
	add(1, 2, xconnector.WithMetricsToLogs(func(_ context.Context, s connector.Settings, _ component.Config, _ consumer.Logs) (connector.Metrics, error) {
		return w.mkConn(s.ID, 1, 2), nil
	}, st))
	add(1, 3, xconnector.WithMetricsToProfiles(func(_ context.Context, s connector.Settings, _ component.Config, _ xconsumer.Profiles) (connector.Metrics, error) {
		return w.mkConn(s.ID, 1, 3), nil
	}, st))
	add(2, 0, xconnector.WithLogsToTraces(func(_ context.Context, s connector.Settings, _ component.Config, _ consumer.Traces) (connector.Logs, error) {
		return w.mkConn(s.ID, 2, 0), nil
	}, st))
	add(2, 1, xconnector.WithLogsToMetrics(func(_ context.Context, s connector.Settings, _ component.Config, _ consumer.Metrics) (connector.Logs, error) {
		return w.mkConn(s.ID, 2, 1), nil
	}, st))
	add(2, 2, xconnector.WithLogsToLogs(func(_ context.Context, s connector.Settings, _ component.Config, _ consumer.Logs) (connector.Logs, error) {
		return w.mkConn(s.ID, 2, 2), nil
	}, st))
	add(2, 3, xconnector.WithLogsToProfiles(func(_ context.Context, s connector.Settings, _ component.Config, _ xconsumer.Profiles) (connector.Logs, error) {
		return w.mkConn(s.ID, 2, 3), nil
	}, st))
	add(3, 0, xconnector.WithProfilesToTraces(func(_ context.Context, s connector.Settings, _ component.Config, _ consumer.Traces) (xconnector.Profiles, error) {
		return w.mkConn(s.ID, 3, 0), nil
	}, st))
	add(3, 1, xconnector.WithProfilesToMetrics(func(_ context.Context, s connector.Settings, _ component.Config, _ consumer.Metrics) (xconnector.Profiles, error) {
		return w.mkConn(s.ID, 3, 1), nil
	}, st))
	add(3, 2, xconnector.WithProfilesToLogs(func(_ context.Context, s connector.Settings, _ component.Config, _ consumer.Logs) (xconnector.Profiles, error) {
		return w.mkConn(s.ID, 3, 2), nil
	}, st))
	add(3, 3, xconnector.WithProfilesToProfiles(func(_ context.Context, s connector.Settings, _ component.Config, _ xconsumer.Profiles) (xconnector.Profiles, error) {
		return w.mkConn(s.ID, 3, 3), nil
	}, st))
	return xconnector.NewFactory(t, vDefaultCfg, o...)
}

func (w *vWorld) extFactory(t component.Type) extension.Factory {
	return extension.NewFactory(t, vDefaultCfg,
		func(_ context.Context, s extension.Settings, _ component.Config) (extension.Extension, error) {
			if key := fmt.Sprintf("x%d", vIDNum(s.ID)); w.failCreate[key] { // a factory that fails inside extensions.New, after graph.Build succeeded
				return nil, fmt.Errorf("verif create failure %s", key)
			}
			return w.mkExt(s.ID), nil
		}, component.StabilityLevelStable)
}

const (
	vMaxID    = 40 // receiver / processor / exporter ids 1..40 are configured
	vMaxExtID = 5  // extension ids 1..5 are configured (1..4 are used, 5 only as a missing dependency)
)

// vSettings fills the world's generator-derived tables and returns the inputs of the real service.New.
// vMapsT: everything a service (or a collector) needs from one generated configuration, package-independent.
type vMapsT struct {
	rc, pc, ec, cc, xc map[component.ID]component.Config
	rf                 map[component.Type]receiver.Factory
	pf                 map[component.Type]processor.Factory
	ef                 map[component.Type]exporter.Factory
	cf                 map[component.Type]connector.Factory
	xf                 map[component.Type]extension.Factory
	pcs                pipelines.Config
	xs                 extensions.Config
}

func vMaps(w *vWorld, cfg vCfg) vMapsT {
	m := vMapsT{rc: map[component.ID]component.Config{}, pc: map[component.ID]component.Config{}, ec: map[component.ID]component.Config{},
		cc: map[component.ID]component.Config{}, xc: map[component.ID]component.Config{},
		rf: map[component.Type]receiver.Factory{}, pf: map[component.Type]processor.Factory{}, ef: map[component.Type]exporter.Factory{},
		cf: map[component.Type]connector.Factory{}, xf: map[component.Type]extension.Factory{}, pcs: pipelines.Config{}}
	for i := 1; i <= vMaxID; i++ {
		id := vID(i)
		m.rc[id], m.pc[id], m.ec[id] = &struct{}{}, &struct{}{}, &struct{}{}
		m.rf[id.Type()], m.pf[id.Type()], m.ef[id.Type()] = w.recvFactory(id.Type()), w.procFactory(id.Type()), w.expFactory(id.Type())
	}
	for i := 1; i <= vMaxExtID; i++ {
		id := vID(i)
		m.xc[id] = &struct{}{}
		m.xf[id.Type()] = w.extFactory(id.Type())
	}
	for _, c := range cfg.conns {
		id := vID(c.id)
		m.cc[id] = &struct{}{}
		m.cf[id.Type()] = w.connFactory(id.Type(), c.supp)
	}
	ids := func(l []int) []component.ID {
		var o []component.ID
		for _, n := range l {
			o = append(o, vID(n))
		}
		return o
	}
	for _, p := range cfg.pipes {
		m.pcs[pipeline.NewIDWithName(vSignals[p.sig], strconv.Itoa(p.name))] = &pipelines.PipelineConfig{Receivers: ids(p.recv), Processors: ids(p.procs), Exporters: ids(p.exps)}
		for _, x := range p.procs {
			w.procTok[x] = fmt.Sprintf("%d.%d", p.sig, p.name)
		}
	}
	for _, e := range cfg.exts {
		m.xs = append(m.xs, vID(e.id))
		w.extDeps[e.id] = e.deps
	}
	w.sharedID = cfg.shared
	w.sharedExpID = cfg.sharedExp
	w.sharedConnID = cfg.sharedConn
	return m
}

// ---- generator (pipelines / connectors: copied from harness/c09/graph_test.go) --------------------

func vFull() (m [4][4]bool) {
	for i := range m {
		for j := range m[i] {
			m[i][j] = true
		}
	}
	return
}

func vCorpus() []vCfg {
	same := func() (m [4][4]bool) {
		for i := range m {
			m[i][i] = true
		}
		return
	}
	var t2m [4][4]bool
	t2m[0][1] = true
	return []vCfg{
		// 0 one pipeline
		{pipes: []vPipeCfg{{0, 0, []int{1}, []int{1, 2}, []int{1}}}},
		// 1 shared receiver/exporter, same processor ids in two pipelines of one signal, third pipeline other signal
		{pipes: []vPipeCfg{{2, 0, []int{1, 2}, []int{1, 2}, []int{1}}, {2, 1, []int{1}, []int{2, 1}, []int{1, 2}}, {1, 0, []int{1}, nil, []int{1}}}},
		// 2 chain of three with fan-in / fan-out through connectors
		{conns: []vConnCfg{{5, vFull()}, {6, vFull()}}, pipes: []vPipeCfg{
			{0, 0, []int{1}, []int{1}, []int{5, 1}}, {0, 1, []int{2}, nil, []int{5}},
			{1, 0, []int{5}, []int{2}, []int{6, 2}}, {1, 1, []int{5, 3}, []int{3}, []int{6}},
			{2, 0, []int{6}, []int{1, 2, 3}, []int{1, 2}}}},
		// 3 self cycle
		{conns: []vConnCfg{{5, same()}}, pipes: []vPipeCfg{{0, 0, []int{1, 5}, []int{1}, []int{5, 1}}}},
		// 4 two-pipeline cycle across signals
		{conns: []vConnCfg{{5, vFull()}, {6, vFull()}}, pipes: []vPipeCfg{{0, 0, []int{1, 6}, []int{1}, []int{5}}, {1, 0, []int{5}, []int{1}, []int{6, 1}}}},
		// 5 connector used only as exporter
		{conns: []vConnCfg{{5, vFull()}}, pipes: []vPipeCfg{{0, 0, []int{1}, nil, []int{5}}}},
		// 6 connector used on both sides but the signal pair is not supported
		{conns: []vConnCfg{{5, t2m}}, pipes: []vPipeCfg{{1, 0, []int{1}, nil, []int{5}}, {0, 0, []int{5}, nil, []int{1}}}},
		// 7 one traces pipeline into two metrics pipelines and one traces pipeline: two connector instances
		{conns: []vConnCfg{{5, vFull()}}, pipes: []vPipeCfg{{0, 0, []int{1}, []int{1}, []int{5}}, {1, 0, []int{5}, nil, []int{1}}, {1, 1, []int{5}, []int{2}, []int{1}}, {0, 1, []int{5}, nil, []int{2}}}},
		// 8 duplicated ids in the lists; id 3 is a connector although it also names a receiver/exporter config
		{conns: []vConnCfg{{3, vFull()}}, pipes: []vPipeCfg{{2, 0, []int{1, 1, 2}, []int{3}, []int{3, 3, 1, 1}}, {2, 1, []int{3, 2, 3}, []int{1}, []int{2}}}},
		// 9 partially supported: traces->metrics supported, traces->logs not, both used (allowed: "used correctly elsewhere")
		{conns: []vConnCfg{{5, t2m}}, pipes: []vPipeCfg{{0, 0, []int{1}, nil, []int{5}}, {1, 0, []int{5}, nil, []int{1}}, {2, 0, []int{5, 1}, nil, []int{1}}}},
		// 10 Props/C10.lean exConnCfg: connector 5 takes traces/0 into metrics/0 and logs/0 (two instances); with
		// VERIF_C10_SHARED_CONN=1 the two instances share one component (witness of C10_shared_connector_full_fails)
		{conns: []vConnCfg{{5, vFull()}}, pipes: []vPipeCfg{{0, 0, []int{1}, nil, []int{5}}, {1, 0, []int{5}, []int{1}, []int{1}}, {2, 0, []int{5}, []int{2}, []int{2}}}, sharedConn: 5, noFail: true},
	}
}

func vPick(rnd *rand.Rand, lo, hi, k int, dups bool) []int {
	var o []int
	seen := map[int]bool{}
	for len(o) < k {
		x := lo + rnd.IntN(hi-lo+1)
		if seen[x] && !dups {
			if len(seen) >= hi-lo+1 {
				break
			}
			continue
		}
		seen[x] = true
		o = append(o, x)
	}
	return o
}

func vGen(rnd *rand.Rand) vCfg {
	var cfg vCfg
	mode := rnd.IntN(10) // 0..5 constructive (acyclic, mostly supported), 6..9 unconstrained
	nsig := 1 + rnd.IntN(4)
	np := 1 + rnd.IntN(6)
	names := map[int]int{}
	for i := 0; i < np; i++ {
		s := rnd.IntN(nsig)
		p := vPipeCfg{sig: s, name: names[s]}
		names[s]++
		p.recv = vPick(rnd, 1, 4, rnd.IntN(3), false)
		p.exps = vPick(rnd, 1, 4, rnd.IntN(3), false)
		p.procs = vPick(rnd, 1, 4, rnd.IntN(4), false)
		cfg.pipes = append(cfg.pipes, p)
	}
	nc := rnd.IntN(4)
	if np == 1 && mode <= 5 {
		nc = 0
	}
	for k := 0; k < nc; k++ {
		c := vConnCfg{id: 5 + k}
		if rnd.IntN(12) == 0 {
			c.id = 1 + rnd.IntN(4) // a connector whose id also names receiver/exporter configs
			dup := false
			for _, x := range cfg.conns {
				dup = dup || x.id == c.id
			}
			if dup {
				c.id = 5 + k
			}
		}
		switch rnd.IntN(4) {
		case 0, 1:
			c.supp = vFull()
		case 2:
			for i := 0; i < 4; i++ {
				for j := 0; j < 4; j++ {
					c.supp[i][j] = rnd.IntN(2) == 0
				}
			}
		}
		uses := 1 + rnd.IntN(3)
		for u := 0; u < uses; u++ {
			i, j := rnd.IntN(np), rnd.IntN(np)
			if mode <= 5 {
				if np < 2 {
					continue
				}
				for i == j {
					j = rnd.IntN(np)
				}
				if i > j {
					i, j = j, i
				}
				c.supp[cfg.pipes[i].sig][cfg.pipes[j].sig] = c.supp[cfg.pipes[i].sig][cfg.pipes[j].sig] || rnd.IntN(10) != 0
			} else if rnd.IntN(4) == 0 {
				// one-sided use
				if rnd.IntN(2) == 0 {
					cfg.pipes[i].exps = append(cfg.pipes[i].exps, c.id)
				} else {
					cfg.pipes[j].recv = append(cfg.pipes[j].recv, c.id)
				}
				continue
			}
			cfg.pipes[i].exps = append(cfg.pipes[i].exps, c.id)
			cfg.pipes[j].recv = append(cfg.pipes[j].recv, c.id)
		}
		cfg.conns = append(cfg.conns, c)
	}
	for i := range cfg.pipes {
		p := &cfg.pipes[i]
		if len(p.recv) == 0 {
			p.recv = []int{1 + rnd.IntN(4)}
		}
		if len(p.exps) == 0 {
			p.exps = []int{1 + rnd.IntN(4)}
		}
		if rnd.IntN(8) == 0 {
			p.recv = append(p.recv, p.recv[rnd.IntN(len(p.recv))]) // duplicate entry in the list
		}
		if rnd.IntN(8) == 0 {
			p.exps = append(p.exps, p.exps[rnd.IntN(len(p.exps))])
		}
		rnd.Shuffle(len(p.recv), func(a, b int) { p.recv[a], p.recv[b] = p.recv[b], p.recv[a] })
		rnd.Shuffle(len(p.exps), func(a, b int) { p.exps[a], p.exps[b] = p.exps[b], p.exps[a] })
	}
	return cfg
}

// ---- C10 additions to the generator ---------------------------------------------------------------

// vRemapProcs makes processor ids unique per pipeline: processor k of pipeline index i gets id 10+4*i+k.
func vRemapProcs(cfg *vCfg) {
	for i := range cfg.pipes {
		p := &cfg.pipes[i]
		n := len(p.procs)
		if n > 4 {
			n = 4
		}
		procs := make([]int, n)
		for k := range procs {
			procs[k] = 10 + 4*i + k
		}
		p.procs = procs
	}
}

func vHas(l []int, x int) bool {
	for _, y := range l {
		if y == x {
			return true
		}
	}
	return false
}

// vGenExts: 0-4 extensions with distinct ids from 1..4 and a dependency list each.
//
//	85%: dependencies only on smaller ids of the list (acyclic)
//	10%: arbitrary dependencies among the listed ids, no self dependency (may form a cycle)
//	 5%: acyclic as above plus one dependency on an id that is not in the list
//
// The order in service Config.Extensions is a random shuffle.
func vGenExts(rnd *rand.Rand) []vExtCfg {
	ids := vPick(rnd, 1, 4, rnd.IntN(5), false)
	sort.Ints(ids)
	mode := rnd.IntN(100)
	exts := make([]vExtCfg, len(ids))
	for i, id := range ids {
		exts[i].id = id
		for _, d := range ids {
			switch {
			case mode >= 85 && mode < 95:
				if d != id && rnd.IntN(3) == 0 {
					exts[i].deps = append(exts[i].deps, d)
				}
			default:
				if d < id && rnd.IntN(5) < 2 {
					exts[i].deps = append(exts[i].deps, d)
				}
			}
		}
	}
	if mode >= 95 && len(exts) > 0 {
		missing := vMaxExtID
		var cand []int
		for d := 1; d <= 4; d++ {
			if !vHas(ids, d) {
				cand = append(cand, d)
			}
		}
		if len(cand) > 0 {
			missing = cand[rnd.IntN(len(cand))]
		}
		k := rnd.IntN(len(exts))
		exts[k].deps = append(exts[k].deps, missing)
	}
	for i := range exts {
		d := exts[i].deps
		rnd.Shuffle(len(d), func(a, b int) { d[a], d[b] = d[b], d[a] })
	}
	rnd.Shuffle(len(exts), func(a, b int) { exts[a], exts[b] = exts[b], exts[a] })
	// service::extensions may list an id more than once (nothing in validation rejects it): ~25% of the non-empty lists get one
	// or two duplicated entries, adjacent or not; the duplicated extension may have dependencies and/or be one.
	if len(exts) > 0 && rnd.IntN(4) == 0 {
		for n := 1 + rnd.IntN(2); n > 0; n-- {
			dup := exts[rnd.IntN(len(exts))]
			pos := rnd.IntN(len(exts) + 1)
			exts = append(exts[:pos], append([]vExtCfg{dup}, exts[pos:]...)...)
		}
	}
	return exts
}

// vGenShared: with probability 0.3 one plain (non-connector) receiver id used in the configuration becomes the
// shared one, and it is added to the receiver list of one or two other pipelines (where not already present).
func vGenShared(rnd *rand.Rand, cfg *vCfg) {
	if rnd.IntN(10) >= 3 {
		return
	}
	isConn := map[int]bool{}
	for _, c := range cfg.conns {
		isConn[c.id] = true
	}
	var cand []int
	for _, p := range cfg.pipes {
		for _, x := range p.recv {
			if !isConn[x] && !vHas(cand, x) {
				cand = append(cand, x)
			}
		}
	}
	if len(cand) == 0 {
		return
	}
	sort.Ints(cand)
	cfg.shared = cand[rnd.IntN(len(cand))]
	for n := 1 + rnd.IntN(2); n > 0; n-- {
		// prefer a pipeline of a signal that does not have the shared receiver yet (sharing across signals)
		var has [4]bool
		for _, p := range cfg.pipes {
			has[p.sig] = has[p.sig] || vHas(p.recv, cfg.shared)
		}
		var pick []int
		for i, p := range cfg.pipes {
			if !has[p.sig] {
				pick = append(pick, i)
			}
		}
		if len(pick) == 0 || rnd.IntN(4) == 0 {
			pick = pick[:0]
			for i := range cfg.pipes {
				pick = append(pick, i)
			}
		}
		p := &cfg.pipes[pick[rnd.IntN(len(pick))]]
		if !vHas(p.recv, cfg.shared) {
			p.recv = append(p.recv, cfg.shared)
		}
	}
}

func vJoin(l []int) string {
	if len(l) == 0 {
		return "-"
	}
	s := make([]string, len(l))
	for i, x := range l {
		s[i] = strconv.Itoa(x)
	}
	return strings.Join(s, ",")
}

func vEmitCfg(out *vOut, cfg vCfg) {
	for _, c := range cfg.conns {
		var ps []string
		for i := 0; i < 4; i++ {
			for j := 0; j < 4; j++ {
				if c.supp[i][j] {
					ps = append(ps, fmt.Sprintf("%d%d", i, j))
				}
			}
		}
		s := strings.Join(ps, ",")
		if s == "" {
			s = "-"
		}
		out.Linef("op conn %d %s", c.id, s)
	}
	for _, p := range cfg.pipes {
		out.Linef("op pipe %d %d %s %s %s", p.sig, p.name, vJoin(p.recv), vJoin(p.procs), vJoin(p.exps))
	}
	for _, e := range cfg.exts {
		out.Linef("op ext %d %s", e.id, vJoin(e.deps))
	}
	if cfg.shared != 0 {
		out.Linef("op shared %d", cfg.shared)
	}
	if cfg.sharedExp != 0 {
		out.Linef("op sharedexp %d", cfg.sharedExp)
	}
	if cfg.sharedConn != 0 {
		out.Linef("op sharedconn %d", cfg.sharedConn)
	}
}

// vGenSharedMore: with probability 0.3 one plain exporter id used in the configuration is built on sharedcomponent
// (and added to one or two other pipelines, preferably of another signal); with probability 0.25 one used connector id.
//
// Switches (set by lib/props/c10.py): VERIF_C10_SHARED_EXP=1 enables the shared exporter stream (it needs the repaired
// ShutdownAll: exporters last), VERIF_C10_SHARED_CONN=1 the shared connector stream (no order chosen by the graph alone can be
// right for a connector whose instances share one component; recorded observation, off by default). The random draws are made
// either way so that the rest of a case does not depend on the switches.
func vGenSharedMore(rnd *rand.Rand, cfg *vCfg) {
	expOn, connOn := os.Getenv("VERIF_C10_SHARED_EXP") == "1", os.Getenv("VERIF_C10_SHARED_CONN") == "1"
	defer func() {
		if !expOn {
			cfg.sharedExp = 0
		}
		if !connOn {
			cfg.sharedConn = 0
		}
	}()
	isConn := map[int]bool{}
	for _, c := range cfg.conns {
		isConn[c.id] = true
	}
	if rnd.IntN(10) < 3 {
		var cand []int
		for _, p := range cfg.pipes {
			for _, x := range p.exps {
				if !isConn[x] && !vHas(cand, x) {
					cand = append(cand, x)
				}
			}
		}
		if len(cand) > 0 {
			sort.Ints(cand)
			cfg.sharedExp = cand[rnd.IntN(len(cand))]
			for n := 1 + rnd.IntN(2); n > 0; n-- {
				var has [4]bool
				for _, p := range cfg.pipes {
					has[p.sig] = has[p.sig] || vHas(p.exps, cfg.sharedExp)
				}
				var pick []int
				for i, p := range cfg.pipes {
					if !has[p.sig] {
						pick = append(pick, i)
					}
				}
				if len(pick) == 0 || rnd.IntN(4) == 0 {
					pick = pick[:0]
					for i := range cfg.pipes {
						pick = append(pick, i)
					}
				}
				p := &cfg.pipes[pick[rnd.IntN(len(pick))]]
				if expOn && !vHas(p.exps, cfg.sharedExp) {
					p.exps = append(p.exps, cfg.sharedExp)
				}
			}
		}
	}
	if rnd.IntN(4) == 0 {
		var cand []int
		for _, p := range cfg.pipes {
			for _, l := range [][]int{p.recv, p.exps} {
				for _, x := range l {
					if isConn[x] && !vHas(cand, x) {
						cand = append(cand, x)
					}
				}
			}
		}
		if len(cand) > 0 {
			sort.Ints(cand)
			cfg.sharedConn = cand[rnd.IntN(len(cand))]
		}
	}
}

var (
	vReExtMissing = regexp.MustCompile(`unable to find extension k(\d+) on which extension k(\d+) depends`)
	vReExtCycle   = regexp.MustCompile(`unable to order extensions by dependencies, cycle found \[([^\]]*)\]`)
)

// vExtMsgTokens: the content of computeOrder's two errors as tokens for the Lean monitors extMissingMsgOk / extCycleMsgOk:
// "missing <dependency> <extension>" or "cycle <id> <id> ... <id>"; "?" when the text has another shape.
func vExtMsgTokens(msg string) string {
	if m := vReExtMissing.FindStringSubmatch(msg); m != nil {
		return "missing " + m[1] + " " + m[2]
	}
	if m := vReExtCycle.FindStringSubmatch(msg); m != nil {
		var ids []string
		for _, el := range strings.Split(m[1], " -> ") {
			if !strings.HasPrefix(el, "k") {
				return "?"
			}
			if _, err := strconv.Atoi(el[1:]); err != nil {
				return "?"
			}
			ids = append(ids, el[1:])
		}
		return "cycle " + strings.Join(ids, " ")
	}
	return "?"
}

