//go:build verif

package service

// C10 harness, part 2: random service configuration -> the REAL service.New -> Start -> Shutdown (as
// otelcol/collector.go drives them: Shutdown exactly once whether or not Start failed) with instrumented
// components and injected start/stop failures; the lifecycle log is written as `tr ev` lines.
// Line protocol: see lean/OtelVerif/Drivers/C10.lean.

import (
	"context"
	"encoding/hex"
	"fmt"
	"os"
	"sort"
	"strings"
	"testing"
	"time"

	"go.uber.org/zap"
	"go.uber.org/zap/zapcore"

	"go.opentelemetry.io/collector/component"
	"go.opentelemetry.io/collector/config/configtelemetry"
	"go.opentelemetry.io/collector/confmap"
	"go.opentelemetry.io/collector/service/telemetry"
)

// vSettings: Settings and Config of the real service.New for one generated configuration.
func vSettings(w *vWorld, cfg vCfg) (Settings, Config) {
	m := vMaps(w, cfg)
	set := Settings{
		BuildInfo:        component.NewDefaultBuildInfo(),
		CollectorConf:    confmap.New(),
		ReceiversConfigs: m.rc, ReceiversFactories: m.rf,
		ProcessorsConfigs: m.pc, ProcessorsFactories: m.pf,
		ExportersConfigs: m.ec, ExportersFactories: m.ef,
		ConnectorsConfigs: m.cc, ConnectorsFactories: m.cf,
		ExtensionsConfigs: m.xc, ExtensionsFactories: m.xf,
		AsyncErrorChannel: make(chan error),
		// discard sink: whatever passes the level filter goes nowhere
		LoggingOptions: []zap.Option{zap.WrapCore(func(zapcore.Core) zapcore.Core { return zapcore.NewNopCore() })},
	}
	conf := Config{
		Extensions: m.xs,
		Pipelines:  m.pcs,
		Telemetry: telemetry.Config{
			Logs: telemetry.LogsConfig{
				Level:             zapcore.ErrorLevel,
				Encoding:          "console",
				OutputPaths:       []string{"stderr"},
				ErrorOutputPaths:  []string{"stderr"},
				DisableCaller:     true,
				DisableStacktrace: true,
			},
			Metrics: telemetry.MetricsConfig{Level: configtelemetry.LevelNone},
		},
	}
	return set, conf
}

// vDumpConf: the parts of the service configuration the property is about, list order preserved
func vDumpConf(conf Config) string {
	var l []string
	for id, p := range conf.Pipelines {
		l = append(l, fmt.Sprintf("%s r=%v p=%v e=%v", id.String(), p.Receivers, p.Processors, p.Exporters))
	}
	sort.Strings(l)
	return fmt.Sprintf("x=%v;%s", conf.Extensions, strings.Join(l, ";"))
}

func vErrClass(err error) string {
	msg := err.Error()
	switch {
	case strings.Contains(msg, "cycle detected"):
		return "cycle"
	case strings.Contains(msg, "but not used in any supported"):
		return "connector"
	case strings.Contains(msg, "unable to order extensions"):
		return "extcycle"
	case strings.Contains(msg, "unable to find extension"):
		return "extmissing"
	case strings.Contains(msg, "verif create failure"):
		return "create"
	}
	return "other:" + hex.EncodeToString([]byte(msg))
}

// every call into the real code recovers panics and reports them as an error string
func vNew(set Settings, cfg Config) (srv *Service, err error) {
	defer func() {
		if r := recover(); r != nil {
			srv, err = nil, fmt.Errorf("panic: %v", r)
		}
	}()
	return New(context.Background(), set, cfg)
}

func vCall(f func(context.Context) error) (err error, panicked string) {
	return vCallCtx(0, f)
}

// vCallCtx: the call with a live (0), already cancelled (1) or deadline-expired (2) context. The collector hands Service.Shutdown the
// context of Run, which IS cancelled when the collector stops because that context was cancelled (otelcol/collector.go Run:
// `case <-ctx.Done(): return col.shutdown(ctx)`); start-up order, shutdown order and exactly-once must not depend on it.
func vCallCtx(mode int, f func(context.Context) error) (err error, panicked string) {
	defer func() {
		if r := recover(); r != nil {
			err, panicked = fmt.Errorf("panic: %v", r), fmt.Sprint(r)
		}
	}()
	ctx := context.Background()
	switch mode {
	case 1:
		c, cancel := context.WithCancel(ctx)
		cancel()
		ctx = c
	case 2:
		c, cancel := context.WithDeadline(ctx, time.Unix(1, 0))
		defer cancel()
		ctx = c
	}
	return f(ctx), ""
}

func vLogString(log []vEv) string {
	s := make([]string, len(log))
	for i, e := range log {
		s[i] = e.kind + " " + e.label
	}
	return strings.Join(s, ",")
}

func vObsList(out *vOut, head string, l []string) {
	sort.Strings(l)
	if len(l) == 0 {
		out.Linef("obs %s 0", head)
		return
	}
	out.Linef("obs %s %d %s", head, len(l), strings.Join(l, " "))
}

// vLabels: every component instance that exists after a successful New, sorted.
func vAddLabel(l []string, x string) []string {
	for _, y := range l {
		if y == x {
			return l
		}
	}
	l = append(l, x)
	sort.Strings(l)
	return l
}

func vLabels(w *vWorld) []string {
	var l []string
	for k := range w.creates {
		l = append(l, k)
	}
	l = append(l, w.procs...)
	l = append(l, w.exts...)
	l = append(l, w.inners...)
	sort.Strings(l)
	// an extension id listed twice is created twice under one label
	var o []string
	for i, x := range l {
		if i == 0 || x != l[i-1] {
			o = append(o, x)
		}
	}
	return o
}

func TestVerifC10Lifecycle(t *testing.T) {
	out := vOpen(t)
	defer out.Close()
	out.Linef("model c10-lifecycle 1")
	n := vN(1200)
	ncorpus := len(vCorpus())
	// The order gonum's topo.Sort returns depends on Go map iteration, so one configuration can show different
	// (all admissible) start/stop orders from run to run. A replayed case is therefore run several times.
	cases := vCases(n)
	if os.Getenv("VERIF_REPLAY_CASE") != "" && len(cases) == 1 {
		for i := 0; i < 15; i++ {
			cases = append(cases, cases[0])
		}
	}
	for _, c := range cases {
		rnd := vRand(c)
		var cfg vCfg
		if c < ncorpus {
			cfg = vCorpus()[c] // fresh copy: the lists are modified below
		} else {
			cfg = vGen(rnd)
		}
		vRemapProcs(&cfg)
		cfg.exts = vGenExts(rnd)
		vGenShared(rnd, &cfg)
		vGenSharedMore(rnd, &cfg)

		// SEVERAL service lifetimes in one process over the same factories and one persistent sharedcomponent.Map (as the otlp
		// receiver's factory keeps it): for configurations with a component built on sharedcomponent, half of the cases build,
		// start and stop 2 or 3 services one after the other. Each lifetime is its own case block (same index, lt=k): the model
		// starts every lifetime from a fresh state whatever happened before (C10_lifetimes_independent).
		nLife := 1
		if (cfg.shared != 0 || cfg.sharedExp != 0 || cfg.sharedConn != 0) && rnd.IntN(2) == 0 {
			nLife = 2 + rnd.IntN(2)
		}
		var prev *vWorld
		for lt := 1; lt <= nLife; lt++ {
			func() {
				out.Linef("case %d lt=%d", c, lt)
				vEmitCfg(out, cfg)

				usesConn, extDep := false, false
				for _, p := range cfg.pipes {
					for _, l := range [][]int{p.recv, p.exps} {
						for _, x := range l {
							for _, cc := range cfg.conns {
								usesConn = usesConn || cc.id == x
							}
						}
					}
				}
				for _, e := range cfg.exts {
					extDep = extDep || len(e.deps) > 0
				}

				w := newVWorld()
				if prev != nil {
					w = prev.nextLifetime()
				}
				prev = w
				// 3%: the factory of one exporter the configuration uses fails inside service.New (graph.Build): New must return the error
				// and nothing may be started
				if c >= ncorpus && rnd.IntN(33) == 0 {
					p := cfg.pipes[rnd.IntN(len(cfg.pipes))]
					var cand []string
					for _, x := range p.exps {
						isConn := false
						for _, cc := range cfg.conns {
							isConn = isConn || cc.id == x
						}
						if !isConn {
							cand = append(cand, fmt.Sprintf("e%d:%d", x, p.sig))
						}
					}
					if len(cand) > 0 {
						k := cand[rnd.IntN(len(cand))]
						w.failCreate[k] = true
						out.Linef("op failcreate %s", k)
					}
				}
				// 3%: the factory of one listed extension fails inside service.New (extensions.New runs after graph.Build: the pipeline
				// components exist by then); New must return the error and nothing may be started
				if c >= ncorpus && len(cfg.exts) > 0 && rnd.IntN(33) == 0 {
					k := fmt.Sprintf("x%d", cfg.exts[rnd.IntN(len(cfg.exts))].id)
					w.failCreate[k] = true
					out.Linef("op failcreate %s", k)
					out.Linef("stat ext_factory_failure 1")
				}
				set, conf := vSettings(w, cfg)
				// service.New must not modify the configuration it is given (the collector validates, builds and - on a reload - rebuilds
				// from configuration values): pipelines (lists in order) and service::extensions are dumped before and after
				confBefore := vDumpConf(conf)
				srv, err := vNew(set, conf)
				if after := vDumpConf(conf); after != confBefore {
					out.Linef("viol sig=C10/new/new-changed-the-configuration before=%s after=%s", vHex(confBefore), vHex(after))
				}
				if err != nil {
					cls := vErrClass(err)
					out.Linef("obs new err=%s", cls)
					if cls == "extcycle" || cls == "extmissing" {
						out.Linef("tr extmsg %s", vExtMsgTokens(err.Error()))
					}
					if len(w.log) > 0 {
						out.Linef("viol sig=C10/reject/component-started-though-build-failed %s", vHex(vLogString(w.log)))
					}
					if usesConn || extDep || (cfg.shared != 0 || cfg.sharedExp != 0 || cfg.sharedConn != 0) {
						out.Linef("nt")
					}
					out.Linef("stat rejected_%s 1", strings.SplitN(cls, ":", 2)[0])
					if cfg.shared != 0 || cfg.sharedExp != 0 || cfg.sharedConn != 0 {
						out.Linef("stat shared 1")
					}
					out.Linef("stat exts %d", len(cfg.exts))
					out.Linef("stat pipelines %d", len(cfg.pipes))
					out.Linef("end")
					out.Flush()
					return
				}
				out.Linef("obs new ok")
				if len(w.log) > 0 { // nothing may run before Start
					out.Linef("viol sig=C10/new/lifecycle-call-during-construction %s", vHex(vLogString(w.log)))
				}

				labels := vLabels(w)
				pickLabels := func() []string {
					if rnd.IntN(10) >= 3 || len(labels) == 0 || cfg.noFail {
						return nil
					}
					var o []string
					for k := 1 + rnd.IntN(2); k > 0; k-- {
						l := labels[rnd.IntN(len(labels))]
						dup := false
						for _, x := range o {
							dup = dup || x == l
						}
						if !dup {
							o = append(o, l)
						}
					}
					sort.Strings(o)
					return o
				}
				fstart := pickLabels()
				fstop := pickLabels()
				if lt < nLife && len(w.inners) > 0 { // earlier lifetimes: the shared inner component's Shutdown (50%) / Start (15%) fails
					in := w.inners[rnd.IntN(len(w.inners))]
					switch k := rnd.IntN(20); {
					case k < 10:
						fstop = vAddLabel(fstop, in)
					case k < 13:
						fstart = vAddLabel(fstart, in)
					}
				}
				for _, l := range fstart {
					out.Linef("op failstart %s", l)
					w.failStart[l] = true
				}
				for _, l := range fstop {
					out.Linef("op failstop %s", l)
					w.failStop[l] = true
				}

				// hooks of Service.Start: NotifyConfig (all watchers are called, any error aborts) and PipelineWatcher.Ready
				var fnotify, fready []string
				if len(w.exts) > 0 && rnd.IntN(10) == 0 {
					fnotify = append(fnotify, w.exts[rnd.IntN(len(w.exts))])
				}
				if len(w.exts) > 0 && rnd.IntN(10) == 0 {
					fready = append(fready, w.exts[rnd.IntN(len(w.exts))])
				}
				for _, l := range fnotify {
					out.Linef("op failnotify %s", l)
					w.failNotify[l] = true
				}
				for _, l := range fready {
					out.Linef("op failready %s", l)
					w.failReady[l] = true
				}
				// hook of Service.Shutdown: PipelineWatcher.NotReady (every watcher is called, errors are collected, nothing stops)
				var fnotready []string
				if len(w.exts) > 0 && rnd.IntN(8) == 0 {
					fnotready = append(fnotready, w.exts[rnd.IntN(len(w.exts))])
					if len(w.exts) > 1 && rnd.IntN(3) == 0 {
						fnotready = vAddLabel(fnotready, w.exts[rnd.IntN(len(w.exts))])
					}
				}
				for _, l := range fnotready {
					out.Linef("op failnotready %s", l)
					w.failNotReady[l] = true
				}
				out.Linef("op run")
				// otelcol/collector.go: setupConfigurationComponents calls Start and, when it fails, shutdown();
				// otherwise shutdown() runs when the collector exits. Either way Shutdown is called exactly once.
				// the contexts of Start / Shutdown as a dimension (own random stream): Start 15% cancelled or expired, Shutdown 40%
				rc := vRand(c + 5<<24 + lt<<16)
				startMode, stopMode := 0, 0
				if rc.IntN(20) < 3 {
					startMode = 1 + rc.IntN(2)
				}
				if rc.IntN(10) < 4 {
					stopMode = 1 + rc.IntN(2)
				}
				out.Linef("stat ctx_start_%d 1", startMode)
				out.Linef("stat ctx_stop_%d 1", stopMode)
				startErr, startPanic := vCallCtx(startMode, srv.Start)
				var stopErr error
				var stopPanic string
				if startErr != nil {
					stopErr, stopPanic = vCallCtx(stopMode, srv.Shutdown)
				} else {
					stopErr, stopPanic = vCallCtx(stopMode, srv.Shutdown)
				}

				var stops, stopFails, startLog, stopLog []string
				for _, e := range w.log {
					res := "ok"
					if e.fail {
						res = "fail"
					}
					out.Linef("tr ev %s %s %s", e.kind, e.label, res)
					switch e.kind {
					case "start", "istart":
						startLog = append(startLog, e.label+"="+res)
					case "notify", "ready":
						startLog = append(startLog, e.kind+"."+e.label+"="+res)
					case "stop", "istop":
						stopLog = append(stopLog, e.label+"="+res)
					case "notready":
						stopLog = append(stopLog, e.kind+"."+e.label+"="+res)
					}
					if e.kind == "stop" || e.kind == "istop" {
						stops = append(stops, e.label)
						if e.fail {
							stopFails = append(stopFails, e.label)
						}
					}
				}
				// instances that were created but never started and never shut down (extensions.New keeps one instance per id)
				orphans := 0
				for _, e := range w.extInst {
					if e.nStart == 0 && e.nStop == 0 {
						orphans++
						out.Linef("tr orphan %s", e.label)
					}
					if e.nStart > 1 || e.nStop > 1 {
						out.Linef("viol sig=C10/extensions/one-instance-started-or-stopped-more-than-once %s starts=%d stops=%d", e.label, e.nStart, e.nStop)
					}
				}
				if orphans > 0 {
					out.Linef("stat ext_instances_created_and_dropped %d", orphans)
				}
				if startPanic != "" {
					out.Linef("viol sig=C10/panic/start %s", vHex(startPanic))
				}
				if stopPanic != "" {
					out.Linef("viol sig=C10/panic/shutdown %s", vHex(stopPanic))
				}
				if startErr != nil {
					out.Linef("obs start fail")
				} else {
					out.Linef("obs start ok")
				}
				vObsList(out, "stops", stops)
				vObsList(out, "stoperr", stopFails)
				if stopErr != nil {
					out.Linef("obs shutdown err")
				} else {
					out.Linef("obs shutdown ok")
				}
				// the complete logs, in order: diffed EXACTLY against the model's Service.Start / Service.Shutdown run with the
				// topological orders reconstructed from this very log (the driver checks them with isTopoB)
				out.Linef("obs startlog %d %s", len(startLog), strings.Join(startLog, " "))
				out.Linef("obs stoplog %d %s", len(stopLog), strings.Join(stopLog, " "))
				if usesConn || extDep || len(fstart)+len(fstop)+len(fnotify)+len(fready)+len(fnotready) > 0 || (cfg.shared != 0 || cfg.sharedExp != 0 || cfg.sharedConn != 0) {
					out.Linef("nt")
				}
				out.Linef("stat built 1")
				if startErr != nil {
					out.Linef("stat startfail 1")
				}
				out.Linef("stat stopfail %d", len(stopFails))
				out.Linef("stat notready_fail %d", len(fnotready))
				if cfg.shared != 0 || cfg.sharedExp != 0 || cfg.sharedConn != 0 {
					out.Linef("stat shared 1")
				}
				out.Linef("stat exts %d", len(cfg.exts))
				out.Linef("stat pipelines %d", len(cfg.pipes))
				out.Linef("stat comps %d", len(labels))
				out.Linef("end")
				out.Flush()
			}()
		}
	}
}
