//go:build verif

package extensions

import (
	"context"
	"errors"
	"fmt"
	"sort"
	"strconv"
	"strings"
	"testing"

	"go.opentelemetry.io/collector/component"
	"go.opentelemetry.io/collector/component/componentstatus"
	"go.opentelemetry.io/collector/component/componenttest"
	"go.opentelemetry.io/collector/extension"
	"go.opentelemetry.io/collector/service/internal/builders"
	"go.opentelemetry.io/collector/service/internal/status"
)

type c11Ext struct {
	started             bool
	failStart, failStop bool
}

// c11Watcher is an extension that is also a status watcher: the property's observation point. Events reach it only
// through the real Extensions.NotifyComponentStatusChange.
type c11Watcher struct {
	c11Ext
	seen map[string][]componentstatus.Status // instance name -> events delivered to THIS watcher
}

func (w *c11Watcher) ComponentStatusChanged(src *componentstatus.InstanceID, ev *componentstatus.Event) {
	w.seen[src.ComponentID().Name()] = append(w.seen[src.ComponentID().Name()], ev.Status())
}

func (e *c11Ext) Start(context.Context, component.Host) error {
	e.started = true
	if e.failStart {
		return errors.New("start failed")
	}
	return nil
}

func (e *c11Ext) Shutdown(context.Context) error {
	if e.failStop {
		return errors.New("shutdown failed")
	}
	return nil
}

// TestVerifC11Extensions: automatic status reports of Extensions.Start / Shutdown against the real reporter,
// with extensions whose Start / Shutdown fail at random.
func TestVerifC11Extensions(t *testing.T) {
	out := vOpen(t)
	defer out.Close()
	out.Linef("model c11-life 1")
	ty := component.MustNewType("x")
	n := vN(500)
	for _, c := range vCases(n) {
		rnd := vRand(c)
		out.Linef("case %d", c)
		k := 1 + rnd.IntN(5)
		exts := map[string]*c11Ext{}
		watchers := map[string]*c11Watcher{}
		impl := map[string]extension.Extension{}
		cfgs := map[component.ID]component.Config{}
		var ids []component.ID
		for i := 0; i < k; i++ {
			name := fmt.Sprintf("x%d", i)
			if rnd.IntN(3) == 0 {
				w := &c11Watcher{c11Ext: c11Ext{failStart: rnd.IntN(8) == 0, failStop: rnd.IntN(5) == 0}, seen: map[string][]componentstatus.Status{}}
				watchers[name], exts[name], impl[name] = w, &w.c11Ext, w
			} else {
				exts[name] = &c11Ext{failStart: rnd.IntN(8) == 0, failStop: rnd.IntN(5) == 0}
				impl[name] = exts[name]
			}
			id := component.MustNewIDWithName("x", name)
			cfgs[id] = &struct{}{}
			ids = append(ids, id)
		}
		// service::extensions may name an extension more than once (nothing rejects it): still ONE instance per id, started
		// and stopped once, and a watcher is told every event once
		dups := 0
		if rnd.IntN(4) == 0 {
			for r := 1 + rnd.IntN(2); r > 0; r-- {
				ids = append(ids, ids[rnd.IntN(k)])
				dups++
			}
			rnd.Shuffle(len(ids), func(i, j int) { ids[i], ids[j] = ids[j], ids[i] })
		}
		f := extension.NewFactory(ty, func() component.Config { return &struct{}{} },
			func(_ context.Context, s extension.Settings, _ component.Config) (extension.Extension, error) {
				return impl[s.ID.Name()], nil
			}, component.StabilityLevelStable)
		events := map[string][]componentstatus.Status{}
		var es *Extensions
		rep := status.NewReporter(func(id *componentstatus.InstanceID, ev *componentstatus.Event) {
			events[id.ComponentID().Name()] = append(events[id.ComponentID().Name()], ev.Status())
			if es != nil {
				es.NotifyComponentStatusChange(id, ev) // as graph.Host does: the only way events reach watcher extensions
			}
		}, func(error) {})
		var err error
		es, err = New(context.Background(), Settings{
			Telemetry:  componenttest.NewNopTelemetrySettings(),
			BuildInfo:  component.NewDefaultBuildInfo(),
			Extensions: builders.NewExtension(cfgs, map[component.Type]extension.Factory{ty: f}),
		}, Config(ids), WithReporter(rep))
		if err != nil {
			out.Linef("viol sig=C11/extensions/new-failed %s", vHex(err.Error()))
			out.Linef("end")
			continue
		}
		startErr := es.Start(context.Background(), componenttest.NewNopHost())
		_ = es.Shutdown(context.Background())
		_ = impl
		var names []string
		for name := range exts {
			names = append(names, name)
		}
		sort.Strings(names)
		anyFail := false
		for _, name := range names {
			e := exts[name]
			out.Linef("op life name=%s started=%d ds=- fs=%d allok=%d run=- dstop=- fstop=%d", name, vB(e.started), vB(e.failStart), vB(startErr == nil), vB(e.failStop))
			var p []string
			for _, s := range events[name] {
				p = append(p, strconv.Itoa(int(s)))
			}
			csv := strings.Join(p, ",")
			if csv == "" {
				csv = "-"
			}
			out.Linef("obs events %s %s", name, csv)
			anyFail = anyFail || e.failStart || e.failStop
			// every watcher extension must have been shown exactly the same events for this instance
			var wn []string
			for w := range watchers {
				wn = append(wn, w)
			}
			sort.Strings(wn)
			for _, w := range wn {
				var q []string
				for _, s := range watchers[w].seen[name] {
					q = append(q, strconv.Itoa(int(s)))
				}
				wcsv := strings.Join(q, ",")
				if wcsv == "" {
					wcsv = "-"
				}
				out.Linef("op life name=%s@%s started=%d ds=- fs=%d allok=%d run=- dstop=- fstop=%d", name, w, vB(e.started), vB(e.failStart), vB(startErr == nil), vB(e.failStop))
				out.Linef("obs events %s@%s %s", name, w, wcsv)
			}
		}
		out.Linef("stat watchers %d", len(watchers))
		out.Linef("stat repeated_ids %d", dups)
		if anyFail {
			out.Linef("nt")
		}
		out.Linef("stat extensions %d", k)
		out.Linef("end")
		out.Flush()
	}
}
