//go:build verif

package graph

import (
	"context"
	"errors"
	"fmt"
	"sort"
	"strconv"
	"strings"
	"sync"
	"testing"

	"go.opentelemetry.io/collector/component"
	"go.opentelemetry.io/collector/component/componentstatus"
	"go.opentelemetry.io/collector/component/componenttest"
	"go.opentelemetry.io/collector/connector"
	"go.opentelemetry.io/collector/consumer"
	"go.opentelemetry.io/collector/exporter"
	"go.opentelemetry.io/collector/pdata/plog"
	"go.opentelemetry.io/collector/pipeline"
	"go.opentelemetry.io/collector/processor"
	"go.opentelemetry.io/collector/receiver"
	"go.opentelemetry.io/collector/service/internal/builders"
	"go.opentelemetry.io/collector/service/internal/status"
	"go.opentelemetry.io/collector/service/pipelines"
)

// c11Script: what one component instance does during its life.
type c11Script struct {
	duringStart, running, duringStop []componentstatus.Status
	failStart, failStop              bool
}

type c11Comp struct {
	name    string
	sc      *c11Script
	host    component.Host
	started bool
	// number of events delivered for this instance when Start returned (set through evCount)
	evAtStartReturn int
	evCount         func(string) int
}

func c11Report(h component.Host, st componentstatus.Status) {
	if h != nil {
		componentstatus.ReportStatus(h, componentstatus.NewEvent(st))
	}
}

func (c *c11Comp) Start(_ context.Context, h component.Host) error {
	c.host, c.started = h, true
	for _, st := range c.sc.duringStart {
		c11Report(h, st)
	}
	if c.evCount != nil {
		c.evAtStartReturn = c.evCount(c.name)
	}
	if c.sc.failStart {
		return errors.New("start failed")
	}
	return nil
}

func (c *c11Comp) Shutdown(context.Context) error {
	for _, st := range c.sc.duringStop {
		c11Report(c.host, st)
	}
	if c.sc.failStop {
		return errors.New("shutdown failed")
	}
	return nil
}
func (c *c11Comp) Capabilities() consumer.Capabilities              { return consumer.Capabilities{} }
func (c *c11Comp) ConsumeLogs(context.Context, plog.Logs) error     { return nil }

func c11CSV(ss []componentstatus.Status) string {
	if len(ss) == 0 {
		return "-"
	}
	var p []string
	for _, s := range ss {
		p = append(p, strconv.Itoa(int(s)))
	}
	return strings.Join(p, ",")
}

// TestVerifC11Graph: the automatic status reports of graph.StartAll / ShutdownAll interleaved with the
// components' own reports, on graphs built by the real graph.Build, against the real reporter.
func TestVerifC11Graph(t *testing.T) {
	out := vOpen(t)
	defer out.Close()
	out.Linef("model c11-life 1")
	tR, tP, tE := component.MustNewType("r"), component.MustNewType("p"), component.MustNewType("e")
	n := vN(500)
	for _, c := range vCases(n) {
		rnd := vRand(c)
		out.Linef("case %d", c)
		comps := map[string]*c11Comp{}
		var order []string
		randSt := func(k int) []componentstatus.Status {
			var o []componentstatus.Status
			for i := rnd.IntN(k + 1); i > 0; i-- {
				if rnd.IntN(8) == 0 {
					o = append(o, componentstatus.Status(rnd.IntN(8)))
				} else {
					// mostly the statuses a component is meant to report itself
					o = append(o, []componentstatus.Status{componentstatus.StatusOK, componentstatus.StatusRecoverableError,
						componentstatus.StatusPermanentError, componentstatus.StatusRecoverableError, componentstatus.StatusOK}[rnd.IntN(5)])
				}
			}
			return o
		}
		mkc := func(name string) *c11Comp {
			sc := &c11Script{duringStart: randSt(2), running: randSt(4), duringStop: randSt(2),
				failStart: rnd.IntN(12) == 0, failStop: rnd.IntN(8) == 0}
			cc := &c11Comp{name: name, sc: sc}
			comps[name] = cc
			order = append(order, name)
			return cc
		}
		nproc, nexp, nrecv := rnd.IntN(3), 1+rnd.IntN(2), 1+rnd.IntN(2)
		var rn, pn, en []string
		for i := 0; i < nrecv; i++ {
			rn = append(rn, fmt.Sprintf("r%d", i))
		}
		for i := 0; i < nproc; i++ {
			pn = append(pn, fmt.Sprintf("p%d", i))
		}
		for i := 0; i < nexp; i++ {
			en = append(en, fmt.Sprintf("e%d", i))
		}
		for _, x := range append(append(append([]string{}, rn...), pn...), en...) {
			mkc(x)
		}
		rf := receiver.NewFactory(tR, func() component.Config { return &struct{}{} }, receiver.WithLogs(func(_ context.Context, s receiver.Settings, _ component.Config, _ consumer.Logs) (receiver.Logs, error) {
			return comps[s.ID.Name()], nil
		}, component.StabilityLevelStable))
		pf := processor.NewFactory(tP, func() component.Config { return &struct{}{} }, processor.WithLogs(func(_ context.Context, s processor.Settings, _ component.Config, _ consumer.Logs) (processor.Logs, error) {
			return comps[s.ID.Name()], nil
		}, component.StabilityLevelStable))
		ef := exporter.NewFactory(tE, func() component.Config { return &struct{}{} }, exporter.WithLogs(func(_ context.Context, s exporter.Settings, _ component.Config) (exporter.Logs, error) {
			return comps[s.ID.Name()], nil
		}, component.StabilityLevelStable))
		mk := func(ty component.Type, names []string) map[component.ID]component.Config {
			m := map[component.ID]component.Config{}
			for _, n := range names {
				m[component.MustNewIDWithName(ty.String(), n)] = &struct{}{}
			}
			return m
		}
		ids := func(ty component.Type, names []string) []component.ID {
			var o []component.ID
			for _, n := range names {
				o = append(o, component.MustNewIDWithName(ty.String(), n))
			}
			return o
		}
		pcs := pipelines.Config{pipeline.NewIDWithName(pipeline.SignalLogs, "a"): &pipelines.PipelineConfig{
			Receivers: ids(tR, rn), Processors: ids(tP, pn), Exporters: ids(tE, en)}}
		set := Settings{
			Telemetry: componenttest.NewNopTelemetrySettings(), BuildInfo: component.NewDefaultBuildInfo(),
			ReceiverBuilder:  builders.NewReceiver(mk(tR, rn), map[component.Type]receiver.Factory{tR: rf}),
			ProcessorBuilder: builders.NewProcessor(mk(tP, pn), map[component.Type]processor.Factory{tP: pf}),
			ExporterBuilder:  builders.NewExporter(mk(tE, en), map[component.Type]exporter.Factory{tE: ef}),
			ConnectorBuilder: builders.NewConnector(nil, map[component.Type]connector.Factory{}),
			PipelineConfigs:  pcs,
		}
		g, err := Build(context.Background(), set)
		if err != nil {
			out.Linef("viol sig=C11/graph/build-failed %s", vHex(err.Error()))
			out.Linef("end")
			continue
		}
		var mu sync.Mutex
		events := map[string][]componentstatus.Status{}
		host := &Host{Reporter: status.NewReporter(func(id *componentstatus.InstanceID, ev *componentstatus.Event) {
			mu.Lock()
			events[id.ComponentID().Name()] = append(events[id.ComponentID().Name()], ev.Status())
			mu.Unlock()
		}, func(error) {})}
		for _, cc := range comps {
			cc.evCount = func(name string) int { mu.Lock(); defer mu.Unlock(); return len(events[name]) }
		}
		startErr := g.StartAll(context.Background(), host)
		// direct oracle: the automatic OK after a successful Start is emitted only if the instance is still in Starting
		for _, name := range order {
			cc := comps[name]
			if !cc.started {
				continue
			}
			evs := events[name]
			for k := cc.evAtStartReturn; k < len(evs); k++ {
				if evs[k] == componentstatus.StatusOK && (k == 0 || evs[k-1] != componentstatus.StatusStarting) {
					out.Linef("viol sig=C11/graph/auto-ok-not-from-starting instance=%s events=%s", name, c11CSV(evs))
				}
			}
		}
		if startErr == nil {
			// running phase: one goroutine per instance (per-instance order is what the property is about)
			var wg sync.WaitGroup
			for _, name := range order {
				cc := comps[name]
				wg.Add(1)
				go func() {
					defer wg.Done()
					for _, st := range cc.sc.running {
						c11Report(cc.host, st)
					}
				}()
			}
			wg.Wait()
		}
		_ = g.ShutdownAll(context.Background(), host.Reporter)
		sort.Strings(order)
		interesting := false
		for _, name := range order {
			cc := comps[name]
			out.Linef("op life name=%s started=%d ds=%s fs=%d allok=%d run=%s dstop=%s fstop=%d", name, vB(cc.started),
				c11CSV(cc.sc.duringStart), vB(cc.sc.failStart), vB(startErr == nil), c11CSV(cc.sc.running), c11CSV(cc.sc.duringStop), vB(cc.sc.failStop))
			out.Linef("obs events %s %s", name, c11CSV(events[name]))
			if len(cc.sc.duringStart)+len(cc.sc.running)+len(cc.sc.duringStop) > 0 {
				interesting = true
			}
		}
		if interesting {
			out.Linef("nt")
		}
		out.Linef("stat components %d", len(order))
		out.Linef("stat startfailed %d", vB(startErr != nil))
		out.Linef("end")
		out.Flush()
	}
}
