//go:build verif

package componentstatus

// C11 harness for InstanceID (model c11-inst): NewInstanceID / WithPipelines / AllPipelineIDs against the Lean model `IID`
// (lean/OtelVerif/Model/C11Inst.lean).  Pipeline ids come from a pool over all four signals with and without names; the model
// sees their RANK in sort.Strings order.  Per case: an id is built by NewInstanceID + a chain of WithPipelines calls (with
// duplicates, with empty argument lists); after every call the enumeration of the new id and of the id it was derived from
// (WithPipelines must not modify its receiver); AllPipelineIDs stopped early; a second id built from the SAME set of pipelines in
// another order / grouping must be == as a value (graph.Build adds pipelines in Go-map iteration order).

import (
	"fmt"
	"sort"
	"strconv"
	"strings"
	"testing"

	"go.opentelemetry.io/collector/component"
	"go.opentelemetry.io/collector/pipeline"
	"go.opentelemetry.io/collector/pipeline/xpipeline"
)

func c11iCSV(l []int) string {
	if len(l) == 0 {
		return "-"
	}
	var p []string
	for _, x := range l {
		p = append(p, strconv.Itoa(x))
	}
	return strings.Join(p, ",")
}

func TestVerifC11Instance(t *testing.T) {
	out := vOpen(t)
	defer out.Close()
	out.Linef("model c11-inst 1")
	var pool []pipeline.ID
	for _, s := range []pipeline.Signal{pipeline.SignalLogs, pipeline.SignalMetrics, pipeline.SignalTraces, xpipeline.SignalProfiles} {
		pool = append(pool, pipeline.NewID(s))
		for _, n := range []string{"a", "b", "a/b", "A", "0", "logs", "zz-9_x"} {
			pool = append(pool, pipeline.NewIDWithName(s, n))
		}
	}
	strs := make([]string, len(pool))
	for i, p := range pool {
		strs[i] = p.String()
	}
	sorted := append([]string{}, strs...)
	sort.Strings(sorted)
	rank := map[string]int{}
	for i, s := range sorted {
		rank[s] = i
	}
	enum := func(id *InstanceID, stopAfter int) []int {
		var o []int
		id.AllPipelineIDs(func(p pipeline.ID) bool {
			r, ok := rank[p.String()]
			if !ok {
				r = 999
			}
			o = append(o, r)
			return stopAfter <= 0 || len(o) < stopAfter
		})
		return o
	}
	kinds := []component.Kind{component.KindReceiver, component.KindProcessor, component.KindExporter, component.KindExtension, component.KindConnector}
	n := vN(2000)
	for _, c := range vCases(n) {
		rnd := vRand(c)
		out.Linef("case %d", c)
		pick := func(max int) ([]pipeline.ID, []int) {
			var ps []pipeline.ID
			var rs []int
			for k := rnd.IntN(max + 1); k > 0; k-- {
				p := pool[rnd.IntN(len(pool))]
				if len(ps) > 0 && rnd.IntN(4) == 0 {
					p = ps[rnd.IntN(len(ps))] // a duplicate
				}
				ps = append(ps, p)
				rs = append(rs, rank[p.String()])
			}
			return ps, rs
		}
		kind := kinds[rnd.IntN(len(kinds))]
		cid := component.MustNewIDWithName("t", fmt.Sprintf("n%d", rnd.IntN(3)))
		ps, rs := pick(4)
		all := append([]pipeline.ID{}, ps...)
		id := NewInstanceID(cid, kind, ps...)
		out.Linef("op new pipes=%s", c11iCSV(rs))
		out.Linef("obs pipes %s", c11iCSV(enum(id, 0)))
		if id.ComponentID() != cid || id.Kind() != kind {
			out.Linef("viol sig=C11/instance/component-or-kind-lost")
		}
		steps := rnd.IntN(5)
		for s := 0; s < steps; s++ {
			ps, rs := pick(3)
			all = append(all, ps...)
			before := enum(id, 0)
			nid := id.WithPipelines(ps...)
			out.Linef("op with pipes=%s", c11iCSV(rs))
			out.Linef("obs pipes %s", c11iCSV(enum(nid, 0)))
			out.Linef("obs old %s", c11iCSV(enum(id, 0)))
			if fmt.Sprint(before) != fmt.Sprint(enum(id, 0)) {
				out.Linef("viol sig=C11/instance/with-pipelines-modified-its-receiver")
			}
			if nid.ComponentID() != cid || nid.Kind() != kind {
				out.Linef("viol sig=C11/instance/component-or-kind-lost")
			}
			id = nid
		}
		k := 1 + rnd.IntN(3)
		out.Linef("op visit k=%d", k)
		out.Linef("obs visited %s", c11iCSV(enum(id, k)))
		// the same SET of pipelines in another order and grouping: the ids must be equal as values
		perm := rnd.Perm(len(all))
		cut := 0
		if len(all) > 0 {
			cut = rnd.IntN(len(all) + 1)
		}
		var first, second []pipeline.ID
		var fr, sr []int
		for i, pi := range perm {
			if i < cut {
				first = append(first, all[pi])
				fr = append(fr, rank[all[pi].String()])
			} else {
				second = append(second, all[pi])
				sr = append(sr, rank[all[pi].String()])
			}
		}
		alt := NewInstanceID(cid, kind, first...).WithPipelines(second...)
		out.Linef("op alt new=%s with=%s", c11iCSV(fr), c11iCSV(sr))
		out.Linef("obs eq %d", vB(*alt == *id))
		if *alt != *id {
			out.Linef("viol sig=C11/instance/id-depends-on-the-order-pipelines-were-added got=%s want=%s", c11iCSV(enum(alt, 0)), c11iCSV(enum(id, 0)))
		}
		if steps > 0 || len(all) > 1 {
			out.Linef("nt")
		}
		out.Linef("stat inst_pipelines %d", len(all))
		out.Linef("end")
		out.Flush()
	}
}
