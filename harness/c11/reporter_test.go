//go:build verif

package status

import (
	"fmt"
	"os"
	"strings"
	"sync"
	"testing"

	"go.opentelemetry.io/collector/component/componentstatus"
)

// TestVerifC11Reporter drives the real reporter with generated report sequences (sequential,
// exact differential) and with concurrent goroutines (monitored traces).
func TestVerifC11Reporter(t *testing.T) {
	out := vOpen(t)
	defer out.Close()
	out.Linef("model c11-reporter 1")
	n := vN(1000)
	statuses := []componentstatus.Status{
		componentstatus.StatusNone, componentstatus.StatusStarting, componentstatus.StatusOK,
		componentstatus.StatusRecoverableError, componentstatus.StatusPermanentError, componentstatus.StatusFatalError,
		componentstatus.StatusStopping, componentstatus.StatusStopped,
	}
	for _, c := range vCases(n) {
		rnd := vRand(c)
		conc := c%5 == 4
		nInst := 1 + rnd.IntN(3)
		ids := make([]*componentstatus.InstanceID, nInst)
		idx := map[*componentstatus.InstanceID]int{}
		for i := range ids {
			ids[i] = &componentstatus.InstanceID{}
			idx[ids[i]] = i
		}
		var mu sync.Mutex
		var pending []string
		tag := "obs"
		if conc {
			tag = "tr"
		}
		last := map[*componentstatus.InstanceID]componentstatus.Status{}
		rep := NewReporter(func(id *componentstatus.InstanceID, ev *componentstatus.Event) {
			mu.Lock()
			last[id] = ev.Status()
			pending = append(pending, "ev")
			out.Linef("%s ev %d %d", tag, idx[id], int(ev.Status()))
			mu.Unlock()
		}, func(error) {
			mu.Lock()
			pending = append(pending, "invalid")
			if !conc {
				out.Linef("obs invalid")
			}
			mu.Unlock()
		})
		if !conc {
			out.Linef("case %d mode=seq", c)
			length := rnd.IntN(31)
			illegal := false
			for k := 0; k < length; k++ {
				i := rnd.IntN(nInst)
				pending = pending[:0]
				if rnd.IntN(6) == 0 {
					out.Linef("op okif %d", i)
					before := last[ids[i]]
					rep.ReportOKIfStarting(ids[i])
					if len(pending) == 0 {
						out.Linef("obs nothing")
					} else if before != componentstatus.StatusStarting {
						// direct oracle: the automatic OK is emitted only if the component is still in Starting
						out.Linef("viol sig=C11/reporter/auto-ok-not-from-starting before=%d", int(before))
					}
				} else {
					var st componentstatus.Status
					if rnd.IntN(3) == 0 {
						st = statuses[rnd.IntN(len(statuses))]
					} else {
						// bias towards plausible life cycles so that deep states are reached
						st = statuses[1+rnd.IntN(7)]
					}
					out.Linef("op rep %d %d", i, int(st))
					rep.ReportStatus(ids[i], componentstatus.NewEvent(st))
					if len(pending) == 0 {
						out.Linef("obs silent")
					}
					for _, p := range pending {
						if p == "invalid" {
							illegal = true
						}
					}
				}
			}
			if illegal {
				out.Linef("nt")
			}
			out.Linef("stat len %d", length)
		} else {
			out.Linef("case %d mode=conc", c)
			// every goroutine runs a script fixed in advance and logged (`tr script <g> <inst>:<status|k> ...`); the driver
			// searches, per instance, for an interleaving of the goroutines' scripts whose run through the model delivers exactly
			// the observed event sequence (reports are atomic steps: C11_interleaving) - `prop lin`
			g := 2 + rnd.IntN(3)
			steps := 6 + rnd.IntN(5)
			if g == 4 {
				steps = 6
			}
			type cop struct{ inst, a int } // a = status number, or -1 for ReportOKIfStarting
			scripts := make([][]cop, g)
			for j := range scripts {
				var sb strings.Builder
				for k := 0; k < steps; k++ {
					o := cop{inst: rnd.IntN(nInst), a: -1}
					if rnd.IntN(6) != 0 {
						if rnd.IntN(3) == 0 {
							o.a = rnd.IntN(len(statuses))
						} else {
							o.a = 1 + rnd.IntN(7)
						}
					}
					scripts[j] = append(scripts[j], o)
					if o.a < 0 {
						fmt.Fprintf(&sb, " %d:k", o.inst)
					} else {
						fmt.Fprintf(&sb, " %d:%d", o.inst, o.a)
					}
				}
				out.Linef("tr script %d%s", j, sb.String())
			}
			var wg sync.WaitGroup
			start := make(chan struct{})
			for j := 0; j < g; j++ {
				wg.Add(1)
				go func(j int) {
					defer wg.Done()
					<-start
					for _, o := range scripts[j] {
						if o.a < 0 {
							rep.ReportOKIfStarting(ids[o.inst])
						} else {
							rep.ReportStatus(ids[o.inst], componentstatus.NewEvent(statuses[o.a]))
						}
					}
				}(j)
			}
			close(start)
			wg.Wait()
			out.Linef("nt")
			out.Linef("stat conc 1")
		}
		out.Linef("end")
		out.Flush()
	}
	// race mode: ReportOKIfStarting against a concurrent non-OK report on the SAME instance. Nobody reports OK
	// explicitly, so (atomic reports) every delivered OK must directly follow Starting — C11_auto_ok_after_starting.
	raceN := 20000
	if vThorough() {
		raceN = 200000
	}
	if _, replay := os.LookupEnv("VERIF_REPLAY_CASE"); !replay {
		out.Linef("case 2000000 mode=race")
		others := []componentstatus.Status{componentstatus.StatusRecoverableError, componentstatus.StatusRecoverableError,
			componentstatus.StatusPermanentError, componentstatus.StatusStopping}
		bad := 0
		for it := 0; it < raceN; it++ {
			id := &componentstatus.InstanceID{}
			var mu sync.Mutex
			var evs []componentstatus.Status
			rep := NewReporter(func(_ *componentstatus.InstanceID, ev *componentstatus.Event) {
				mu.Lock()
				evs = append(evs, ev.Status())
				mu.Unlock()
			}, func(error) {})
			rep.ReportStatus(id, componentstatus.NewEvent(componentstatus.StatusStarting))
			var wg sync.WaitGroup
			start := make(chan struct{})
			wg.Add(2)
			go func() { defer wg.Done(); <-start; rep.ReportOKIfStarting(id) }()
			go func() {
				defer wg.Done()
				<-start
				rep.ReportStatus(id, componentstatus.NewEvent(others[it%len(others)]))
			}()
			close(start)
			wg.Wait()
			okAfterOther := false
			for k, e := range evs {
				if e == componentstatus.StatusOK && (k == 0 || evs[k-1] != componentstatus.StatusStarting) {
					okAfterOther = true
				}
			}
			if okAfterOther || it < 3 {
				for _, e := range evs {
					out.Linef("tr ev %d %d", it, int(e))
				}
			}
			if okAfterOther && bad < 3 {
				bad++
				out.Linef("viol sig=C11/reporter/auto-ok-not-from-starting-under-race iteration=%d events=%v", it, evs)
			}
		}
		out.Linef("nt")
		out.Linef("stat race_iterations %d", raceN)
		out.Linef("end")
		out.Flush()
	}
	if vThorough() {
		// exhaustive: every report sequence of length <= 5 over 8 statuses + okIfStarting, one instance
		alphabet := 9
		c := 1000000
		var rec func(prefix []int)
		runSeq := func(seq []int) {
			id := &componentstatus.InstanceID{}
			fired := false
			rep := NewReporter(func(_ *componentstatus.InstanceID, ev *componentstatus.Event) {
				fired = true
				out.Linef("obs ev 0 %d", int(ev.Status()))
			}, func(error) { fired = true; out.Linef("obs invalid") })
			out.Linef("case %d mode=exh", c)
			c++
			for _, a := range seq {
				fired = false
				if a == 8 {
					out.Linef("op okif 0")
					rep.ReportOKIfStarting(id)
					if !fired {
						out.Linef("obs nothing")
					}
				} else {
					out.Linef("op rep 0 %d", a)
					rep.ReportStatus(id, componentstatus.NewEvent(statuses[a]))
					if !fired {
						out.Linef("obs silent")
					}
				}
			}
			out.Linef("end")
		}
		rec = func(prefix []int) {
			runSeq(prefix)
			if len(prefix) == 5 {
				return
			}
			for a := 0; a < alphabet; a++ {
				rec(append(append([]int{}, prefix...), a))
			}
		}
		rec(nil)
		out.Linef("case 99999999 mode=seq")
		out.Linef("stat exhaustive_len5 1")
		out.Linef("end")
	}
}
